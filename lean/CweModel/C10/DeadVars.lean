/-
C10 pass 3 — model of dead-variable elimination
(analysis/dead_variable_elimination/{mod.rs, alive_vars_computation.rs}).

`compute_alive_vars` is a backward fixpoint over the interprocedural CFG whose transfer functions never
look across a function boundary (calls and returns make all physical registers alive, `split_call_stub`
is ignored). After `normalize_basic` every block belongs to exactly one function and jumps stay inside
the function, so the value at the end of a block is the least solution of the per-function equations

  aliveEnd b   = ⋃ over the outgoing CFG edges of `b` of the edge's contribution
  aliveStart b = update_alive_vars_by_def* (aliveEnd b) (defs of b, backwards)

with the contributions (graph.rs / alive_vars_computation.rs):
  * `Jump(j, untaken)` to block `c`: aliveStart c ∪ vars(condition / indirect target of j) ∪ vars(cond. of untaken)
  * extern-call stub / call-source node: all physical registers ∪ vars(indirect call target)
  * return: all physical registers (`split_return_stub`)
  * no outgoing edge (dead end: no jump, CallOther, return without caller, indirect jump without known
    targets, call without return site): all physical registers ∪ vars(CallInd/BranchInd/CBranch expressions)

(the model of the REPAIRED code: the variables read by a `Return` target expression are alive too.)

Sets of variables are lists; only membership matters for the pass.
Core-only.
-/
import CweModel.C10.Trivial

namespace CweModel.C10
open CweModel CweModel.IR

abbrev VarSet := List Variable

def VarSet.insertAll (s : VarSet) (vs : List Variable) : VarSet :=
  vs.foldl (fun acc v => if v ∈ acc then acc else acc ++ [v]) s

def VarSet.remove (s : VarSet) (v : Variable) : VarSet := s.filter (· ≠ v)

def VarSet.subset (a b : VarSet) : Bool := a.all (· ∈ b)

/-- `update_alive_vars_by_def` -/
def updateAliveByDef (alive : VarSet) : Def → VarSet
  | .Assign v e => if v ∈ alive then (alive.remove v).insertAll e.inputVars else alive
  | .Load v a => (alive.remove v).insertAll a.inputVars
  | .Store a e => (alive.insertAll a.inputVars).insertAll e.inputVars

/-- alive before the defs of a block, given alive after them -/
def aliveBeforeDefs (aliveEnd : VarSet) (defs : List (Term Def)) : VarSet :=
  defs.foldr (fun d acc => updateAliveByDef acc d.term) aliveEnd

/-- variables read by the expression of a jump as `update_jumpsite` / the dead-end initialisation see it -/
def jmpCondVars : Jmp → List Variable
  | .CBranch _ c => c.inputVars
  | .BranchInd e => e.inputVars
  | _ => []

/-- contribution of one jump `j` (with the untaken conditional `u`) of block `b` to `aliveEnd b`;
`none` = this jump adds no CFG edge -/
def jmpContribution (phys : VarSet) (aliveStart : Tid → VarSet) (indTargets : List Tid)
    (j : Jmp) (u : Option Jmp) : Option VarSet :=
  let uv := match u with | some (.CBranch _ c) => c.inputVars | _ => []
  match j with
  | .Branch t => some (((aliveStart t).insertAll (jmpCondVars j)).insertAll uv)
  | .CBranch t _ => some (((aliveStart t).insertAll (jmpCondVars j)).insertAll uv)
  | .BranchInd _ =>
    match indTargets with
    | [] => none
    | ts => some (ts.foldl (fun acc t => ((acc.insertAll (aliveStart t)).insertAll (jmpCondVars j)).insertAll uv) [])
  | .Call _ _ => some phys
  | .CallInd e _ => some (phys.insertAll e.inputVars)
  | .CallOther _ _ => none
  | .Return e => some (phys.insertAll e.inputVars)

/-- value of a dead end: all physical registers plus the variables of the jump expressions -/
def deadEndAlive (phys : VarSet) (jmps : List (Term Jmp)) : VarSet :=
  jmps.foldl (fun acc j =>
    match j.term with
    | .CallInd e _ => acc.insertAll e.inputVars
    | .BranchInd e => acc.insertAll e.inputVars
    | .CBranch _ c => acc.insertAll c.inputVars
    | .Return e => acc.insertAll e.inputVars
    | _ => acc) phys

/-- right-hand side of the equation for `aliveEnd b` -/
def aliveEndOf (phys : VarSet) (aliveStart : Tid → VarSet) (b : Term Blk) : VarSet :=
  let cs : List (Option VarSet) := match b.term.jmps with
    | [] => []
    | [j] => [jmpContribution phys aliveStart b.term.indirectJmpTargets j.term none]
    | j₁ :: j₂ :: _ =>
      [jmpContribution phys aliveStart b.term.indirectJmpTargets j₁.term none,
       jmpContribution phys aliveStart b.term.indirectJmpTargets j₂.term (some j₁.term)]
  let present := cs.filterMap id
  if present.isEmpty then deadEndAlive phys b.term.jmps
  else present.foldl (fun acc s => acc.insertAll s) []

abbrev AliveMap := List (Tid × VarSet)

def AliveMap.get (m : AliveMap) (t : Tid) : VarSet :=
  match m.find? (·.1 == t) with
  | some p => p.2
  | none => []

/-- one round: recompute `aliveEnd` of every block from the current `aliveStart`s (Jacobi iteration,
joined with the old value so that the sequence is increasing) -/
def aliveRound (phys : VarSet) (blocks : List (Term Blk)) (m : AliveMap) : AliveMap :=
  let aliveStart (t : Tid) : VarSet :=
    match blocks.find? (·.tid == t) with
    | some b => aliveBeforeDefs (m.get t) b.term.defs
    | none => []
  blocks.map fun b => (b.tid, (m.get b.tid).insertAll (aliveEndOf phys aliveStart b))

def aliveMapSize (m : AliveMap) : Nat := (m.map (·.2.length)).sum

/-- iterate to the fixpoint (the map only grows, so a round that does not change the total size is the end) -/
def aliveFix (phys : VarSet) (blocks : List (Term Blk)) : Nat → AliveMap → AliveMap
  | 0, m => m
  | fuel + 1, m =>
    let m' := aliveRound phys blocks m
    if aliveMapSize m' == aliveMapSize m then m' else aliveFix phys blocks fuel m'

/-- number of distinct variables occurring in a function + physical registers: bounds the iteration -/
def subVarCount (blocks : List (Term Blk)) : Nat :=
  (blocks.map fun b =>
    (b.term.defs.map fun d => match d.term with
      | .Assign _ e => e.inputVars.length + 1
      | .Load _ a => a.inputVars.length + 1
      | .Store a e => a.inputVars.length + e.inputVars.length).sum +
    (b.term.jmps.map fun j => match j.term with
      | .CBranch _ c => c.inputVars.length
      | .BranchInd e | .CallInd e _ | .Return e => e.inputVars.length
      | _ => 0).sum).sum

/-- `compute_alive_vars` restricted to one function: block tid ↦ variables alive at the END of the block -/
def computeAliveVars (phys : VarSet) (blocks : List (Term Blk)) : AliveMap :=
  aliveFix phys blocks ((subVarCount blocks + phys.length + 1) * (blocks.length + 1) + 2)
    (blocks.map fun b => (b.tid, []))

/-! ### soundness condition of a liveness map (post-fixpoint) and of the block shapes

What makes a liveness map correct for the removal is only that it is a post-fixpoint of the equations
above: the right-hand side `aliveEndOf`, evaluated with the map itself, is contained in the map. -/

/-- variables alive at the START of the block with tid `t`, given the map `m` of the variables alive at the
block ends (the `aliveStart` of `aliveRound`) -/
def aliveStartOf (blocks : List (Term Blk)) (m : AliveMap) (t : Tid) : VarSet :=
  match blocks.find? (·.tid == t) with
  | some b => aliveBeforeDefs (m.get t) b.term.defs
  | none => []

/-- `m` is a post-fixpoint of the liveness equations of the function -/
def aliveClosed (phys : VarSet) (blocks : List (Term Blk)) (m : AliveMap) : Bool :=
  blocks.all fun b => (aliveEndOf phys (aliveStartOf blocks m) b).subset (m.get b.tid)

def isCBranchJmp : Jmp → Bool
  | .CBranch _ _ => true
  | _ => false

/-- the jump shapes for which the liveness equations describe every continuation of the reference
interpreter: no jump; one jump that is not conditional; or a conditional jump followed by a jump that
always has a CFG edge (`Branch`, `Call`, `CallInd`, `Return`, `BranchInd` with known targets) -/
def dveBlkOk (b : Term Blk) : Bool :=
  match b.term.jmps with
  | [] => true
  | [j] => !isCBranchJmp j.term
  | [j₁, j₂] =>
    isCBranchJmp j₁.term &&
      (match j₂.term with
        | .Branch _ | .Call _ _ | .CallInd _ _ | .Return _ => true
        | .BranchInd _ => !b.term.indirectJmpTargets.isEmpty
        | _ => false)
  | _ => false

def dveShapeOk (blocks : List (Term Blk)) : Bool := blocks.all dveBlkOk

/-- `Def::Assign { var, .. } if !alive_vars.contains(var) => ()` is the only def that is dropped -/
def keepDef (alive : VarSet) : Def → Bool
  | .Assign v _ => decide (v ∈ alive)
  | _ => true

/-- `remove_dead_var_assignments_of_block`: walk the defs backwards, drop assignments to dead variables -/
def removeDeadDefs (aliveEnd : VarSet) (defs : List (Term Def)) : List (Term Def) × VarSet :=
  defs.foldr (fun d (acc : List (Term Def) × VarSet) =>
    (if keepDef acc.2 d.term then d :: acc.1 else acc.1, updateAliveByDef acc.2 d.term)) ([], aliveEnd)

def removeDeadBlock (m : AliveMap) (b : Term Blk) : Term Blk :=
  { b with term := { b.term with defs := (removeDeadDefs (m.get b.tid) b.term.defs).1 } }

/-- `remove_dead_var_assignments` on one function -/
def removeDeadSub (phys : VarSet) (s : Term Sub) : Term Sub :=
  let m := computeAliveVars phys s.term.blocks
  mapSubBlocks (removeDeadBlock m) s

/-- `remove_dead_var_assignments` -/
def removeDeadProgram (phys : VarSet) (p : Program) : Program :=
  mapProgramSubs (removeDeadSub phys) p

end CweModel.C10
