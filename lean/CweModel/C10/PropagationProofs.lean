/-
C10 pass 2 — the core facts behind expression propagation (analysis/expression_propagation/mod.rs):
  * `TableValid σ t`: every entry `(v, e)` of the table evaluates to the current value of `v`;
  * substituting valid entries does not change the value of an expression;
  * the transfer `update_def` keeps the table valid along the execution of a def, `merge` keeps validity;
  * the block-local insertion `propagate_input_expressions` and `merge_def_assignments_to_same_var` keep
    the result (final state and memory events) of executing the defs of a block.
Core-only.
-/
import CweModel.C10.DeadVarsProofs
import CweModel.C12.Props

namespace CweModel.C10
open CweModel CweModel.IR CweModel.Sem CweModel.C12

/-! ### evaluation depends on the registers read and on the seed only -/

theorem boolOk_agree {σ₁ σ₂ : State} (hs : σ₁.seed = σ₂.seed) :
    ∀ {e : Expression}, (∀ v ∈ e.inputVars, σ₁.getReg v = σ₂.getReg v) → boolOk σ₁ e = boolOk σ₂ e := by
  intro e
  induction e with
  | Var x => intro _; rfl
  | Const b x => intro _; rfl
  | Unknown d s => intro _; rfl
  | BinOp op l r ihl ihr =>
    intro h
    have hl : ∀ v ∈ l.inputVars, σ₁.getReg v = σ₂.getReg v := fun v hv => h v (by simp [Expression.inputVars, hv])
    have hr : ∀ v ∈ r.inputVars, σ₁.getReg v = σ₂.getReg v := fun v hv => h v (by simp [Expression.inputVars, hv])
    simp only [boolOk, ihl hl, ihr hr, eval_agree hs hl, eval_agree hs hr]
  | UnOp op a ih => intro h; simp only [boolOk]; exact ih (fun v hv => h v (by simpa [Expression.inputVars] using hv))
  | Cast op s a ih => intro h; simp only [boolOk]; exact ih (fun v hv => h v (by simpa [Expression.inputVars] using hv))
  | Subpiece lb s a ih =>
    intro h; simp only [boolOk]; exact ih (fun v hv => h v (by simpa [Expression.inputVars] using hv))

theorem setReg_seed (σ : State) (v : Variable) (x : Bv) : (σ.setReg v x).seed = σ.seed := rfl

theorem eval_setReg_of_not_mem {σ : State} {v : Variable} {x : Bv} {e : Expression} (h : v ∉ e.inputVars) :
    eval (σ.setReg v x) e = eval σ e :=
  eval_agree (setReg_seed σ v x) (fun w hw => by
    rw [getReg_setReg, if_neg (fun (heq : w = v) => h (heq ▸ hw))])

theorem boolOk_setReg_of_not_mem {σ : State} {v : Variable} {x : Bv} {e : Expression} (h : v ∉ e.inputVars) :
    boolOk (σ.setReg v x) e = boolOk σ e :=
  boolOk_agree (setReg_seed σ v x) (fun w hw => by
    rw [getReg_setReg, if_neg (fun (heq : w = v) => h (heq ▸ hw))])

theorem eval_writeMem (σ : State) (a n val : Nat) (e : Expression) : eval (σ.writeMem a n val) e = eval σ e :=
  eval_agree (writeMem_fields σ a n val).1 (fun v _ => getReg_writeMem σ a n val v)

theorem boolOk_writeMem (σ : State) (a n val : Nat) (e : Expression) : boolOk (σ.writeMem a n val) e = boolOk σ e :=
  boolOk_agree (writeMem_fields σ a n val).1 (fun v _ => getReg_writeMem σ a n val v)

/-! ### substitution -/

/-- substituting `v` by an expression with the value `b` is evaluating with `v := b` -/
theorem eval_substVar {σ : State} {v : Variable} {by_ : Expression} {b : Bv} (hb : eval σ by_ = some b) :
    ∀ e : Expression, eval σ (e.substVar v by_) = eval (σ.setReg v b) e := by
  intro e
  induction e with
  | Var w =>
    simp only [Expression.substVar]
    split
    · next h => subst h; simp only [eval, getReg_setReg, if_true]; exact hb
    · next h => simp only [eval, getReg_setReg, if_neg h]
  | Const c x => rfl
  | Unknown d s => rfl
  | BinOp op l r ihl ihr => simp only [Expression.substVar]; rw [eval_binOp, eval_binOp, ihl, ihr]
  | UnOp op a ih => simp only [Expression.substVar]; rw [eval_unOp, eval_unOp, ih]
  | Cast op s a ih => simp only [Expression.substVar]; rw [eval_cast, eval_cast, ih]
  | Subpiece lb s a ih => simp only [Expression.substVar]; rw [eval_subpiece, eval_subpiece, ih]

theorem boolOk_substVar {σ : State} {v : Variable} {by_ : Expression} {b : Bv} (hb : eval σ by_ = some b)
    (hbo : boolOk σ by_ = true) :
    ∀ e : Expression, boolOk (σ.setReg v b) e = true → boolOk σ (e.substVar v by_) = true := by
  intro e
  induction e with
  | Var w =>
    intro _
    simp only [Expression.substVar]
    split
    · exact hbo
    · rfl
  | Const c x => intro _; rfl
  | Unknown d s => intro _; rfl
  | BinOp op l r ihl ihr =>
    intro h
    obtain ⟨h1, h2, h3⟩ := boolOk_binOp.mp h
    simp only [Expression.substVar]
    refine boolOk_binOp.mpr ⟨ihl h1, ihr h2, fun hop => ?_⟩
    rw [eval_substVar hb, eval_substVar hb]
    exact h3 hop
  | UnOp op a ih => intro h; simp only [Expression.substVar, boolOk_unOp] at h ⊢; exact ih h
  | Cast op s a ih => intro h; simp only [Expression.substVar, boolOk_cast] at h ⊢; exact ih h
  | Subpiece lb s a ih => intro h; simp only [Expression.substVar, boolOk_subpiece] at h ⊢; exact ih h

/-- setting a register to the value it already has does not change what expressions evaluate to -/
theorem eval_setReg_same (σ : State) (v : Variable) (e : Expression) : eval (σ.setReg v (σ.getReg v)) e = eval σ e :=
  eval_agree (setReg_seed σ v _) (fun w _ => by
    rw [getReg_setReg]; split
    · next h => rw [h]
    · rfl)

theorem boolOk_setReg_same (σ : State) (v : Variable) (e : Expression) :
    boolOk (σ.setReg v (σ.getReg v)) e = boolOk σ e :=
  boolOk_agree (setReg_seed σ v _) (fun w _ => by
    rw [getReg_setReg]; split
    · next h => rw [h]
    · rfl)

/-! ### valid tables -/

/-- every entry evaluates to the current value of its variable (and keeps the boolean discipline) -/
def TableValid (σ : State) (t : Table) : Prop :=
  ∀ p ∈ t, eval σ p.2 = some (σ.getReg p.1) ∧ boolOk σ p.2 = true

theorem tableValid_nil (σ : State) : TableValid σ [] := by intro p hp; cases hp

theorem TableValid.filter {σ : State} {t : Table} (h : TableValid σ t) (f : Variable × Expression → Bool) :
    TableValid σ (t.filter f) := fun p hp => h p (List.mem_filter.mp hp).1

/-- **C10-merge.** The merge of the fixpoint (intersection of the entries) of a valid table is valid. -/
theorem TableValid.merge {σ : State} {a : Table} (h : TableValid σ a) (b : Table) : TableValid σ (a.merge b) :=
  h.filter _

theorem TableValid.get {σ : State} {t : Table} (h : TableValid σ t) {v : Variable} {e : Expression}
    (hg : t.get v = some e) : eval σ e = some (σ.getReg v) ∧ boolOk σ e = true := by
  unfold Table.get at hg
  split at hg
  · next p hp =>
    cases hg
    have hm := List.mem_of_find?_eq_some hp
    have hv : p.1 = v := by simpa using List.find?_some hp
    rw [← hv]; exact h p hm
  · cases hg

/-- substituting one valid entry changes neither value nor discipline -/
theorem substVar_valid {σ : State} {v : Variable} {x : Expression} (hx : eval σ x = some (σ.getReg v))
    (hbo : boolOk σ x = true) (e : Expression) :
    eval σ (e.substVar v x) = eval σ e ∧ (boolOk σ e = true → boolOk σ (e.substVar v x) = true) := by
  refine ⟨by rw [eval_substVar hx, eval_setReg_same], fun h => ?_⟩
  exact boolOk_substVar hx hbo e (by rw [boolOk_setReg_same]; exact h)

/-- **C10-substitute-table.** Substituting all entries of a valid table (in any order) keeps the value. -/
theorem substAll_valid {σ : State} {t : Table} (h : TableValid σ t) (e : Expression) :
    eval σ (substAll t e) = eval σ e ∧ (boolOk σ e = true → boolOk σ (substAll t e) = true) := by
  unfold substAll
  induction t generalizing e with
  | nil => exact ⟨rfl, id⟩
  | cons p ps ih =>
    simp only [List.foldl]
    obtain ⟨hp1, hp2⟩ := h p List.mem_cons_self
    obtain ⟨h1, h2⟩ := substVar_valid hp1 hp2 e
    obtain ⟨h3, h4⟩ := ih (fun q hq => h q (List.mem_cons_of_mem _ hq)) (e.substVar p.1 p.2)
    exact ⟨h3.trans h1, fun hb => h4 (h2 hb)⟩

/-! ### the extension of an assigned expression -/

theorem extendFold_valid {σ : State} {t : Table} (hv : TableValid σ t) (vars : List Variable) (e : Expression) :
    let e' := vars.foldl (fun acc v =>
      match t.get v with
      | some x => if recursionDepth x < 10 then acc.substVar v x else acc
      | none => acc) e
    eval σ e' = eval σ e ∧ (boolOk σ e = true → boolOk σ e' = true) := by
  induction vars generalizing e with
  | nil => exact ⟨rfl, id⟩
  | cons v vs ih =>
    simp only [List.foldl]
    have step : eval σ (match t.get v with
        | some x => if recursionDepth x < 10 then e.substVar v x else e
        | none => e) = eval σ e ∧ (boolOk σ e = true → boolOk σ (match t.get v with
        | some x => if recursionDepth x < 10 then e.substVar v x else e
        | none => e) = true) := by
      split
      · next x hx =>
        split
        · obtain ⟨h1, h2⟩ := hv.get hx
          exact substVar_valid h1 h2 e
        · exact ⟨rfl, id⟩
      · exact ⟨rfl, id⟩
    obtain ⟨h3, h4⟩ := ih _
    exact ⟨h3.trans step.1, fun hb => h4 (step.2 hb)⟩

/-- the expression the pass assigns instead of `e` has the same value -/
theorem extendExpression_valid {σ : State} {t : Table} (hσ : StateWF σ) (hv : TableValid σ t) (hws : TableWS t)
    {e : Expression} (hw : WellSized e) {x : Bv} (hb : boolOk σ e = true) (he : eval σ e = some x) :
    eval σ (extendExpression t e) = some x ∧ boolOk σ (extendExpression t e) = true := by
  unfold extendExpression
  obtain ⟨h1, h2⟩ := extendFold_valid hv e.inputVars e
  obtain ⟨hw', _⟩ := extendFold_sizePreserving hws e.inputVars e hw
  exact substTrivial_eval hσ hw' (h2 hb) (h1.trans he)

/-! ### the transfer function keeps tables valid -/

theorem not_mem_of_mentions_false {e : Expression} {v : Variable} (h : mentions e v = false) : v ∉ e.inputVars := by
  intro hv
  have : mentions e v = true := by
    simp only [mentions, List.any_eq_true, decide_eq_true_eq]
    exact ⟨v, hv, rfl⟩
  rw [h] at this; cases this

/-- entries that neither are keyed by `v` nor mention `v` stay valid when `v` is overwritten -/
theorem TableValid.kill_setReg {σ : State} {t : Table} (h : TableValid σ t) (v : Variable) (x : Bv) :
    TableValid (σ.setReg v x) (t.kill v) := by
  intro p hp
  obtain ⟨hpt, hf⟩ := List.mem_filter.mp hp
  simp only [Bool.and_eq_true, decide_eq_true_eq, Bool.not_eq_true'] at hf
  obtain ⟨hne, hm⟩ := hf
  have hnm := not_mem_of_mentions_false hm
  obtain ⟨h1, h2⟩ := h p hpt
  rw [eval_setReg_of_not_mem hnm, boolOk_setReg_of_not_mem hnm, getReg_setReg, if_neg hne]
  exact ⟨h1, h2⟩

theorem TableValid.writeMem {σ : State} {t : Table} (h : TableValid σ t) (a n val : Nat) :
    TableValid (σ.writeMem a n val) t := by
  intro p hp
  obtain ⟨h1, h2⟩ := h p hp
  rw [eval_writeMem, boolOk_writeMem, getReg_writeMem]
  exact ⟨h1, h2⟩

/-- inversion of the execution of an assignment -/
theorem execDef_assign_some {σ σ' : State} {v : Variable} {e : Expression} {evs : List Event}
    (h : execDef σ (.Assign v e) = some (σ', evs)) :
    ∃ x, eval σ e = some x ∧ x.w = 8 * v.size ∧ σ' = σ.setReg v x ∧ evs = [] := by
  simp only [Sem.execDef] at h
  cases hx : eval σ e with
  | none => rw [hx] at h; cases h
  | some x =>
    rw [hx] at h
    simp only [Option.bind_eq_bind, Option.bind_some] at h
    split at h
    · cases h
    · next hw => cases h; exact ⟨x, rfl, by simpa using hw, rfl, rfl⟩

theorem execDef_assign_of {σ : State} {v : Variable} {e : Expression} {x : Bv}
    (he : eval σ e = some x) (hw : x.w = 8 * v.size) : execDef σ (.Assign v e) = some (σ.setReg v x, []) := by
  simp only [Sem.execDef, he, Option.bind_eq_bind, Option.bind_some]
  rw [if_neg (by simp [hw])]

/-- the table after an assignment `v = e` (both variants: `update_def` and the block-local loop) -/
theorem tableValid_after_assign {σ : State} {t : Table} (hv : TableValid σ t) {v : Variable} {ext : Expression} {x : Bv}
    (hext : eval σ ext = some x ∧ boolOk σ ext = true) :
    TableValid (σ.setReg v x) (if mentions ext v = true then t.kill v else (t.kill v).insert v ext) := by
  split
  · exact hv.kill_setReg v x
  · next hm =>
    have hnm := not_mem_of_mentions_false (by simpa using hm)
    intro p hp
    rcases List.mem_cons.mp hp with e | e
    · subst e
      simp only
      rw [eval_setReg_of_not_mem hnm, boolOk_setReg_of_not_mem hnm, getReg_setReg, if_pos rfl]
      exact hext
    · exact hv.kill_setReg v x p (List.mem_filter.mp e).1

/-- **C10-update-def.** The fixpoint transfer `update_def` keeps the table valid along the execution of a def
(repaired code: a load removes the entry of the loaded variable, D3). -/
theorem updateDef_valid {ptr : Nat} {σ σ' : State} {t : Table} {d : Def} {evs : List Event}
    (hσ : StateWF σ) (hv : TableValid σ t) (hws : TableWS t) (hwd : WellSizedDef ptr d)
    (hbo : ∀ e ∈ defExprs d, boolOk σ e = true) (hd : execDef σ d = some (σ', evs)) :
    TableValid σ' (updateDef t d) := by
  cases d with
  | Assign v e =>
    obtain ⟨x, hx, _, rfl, _⟩ := execDef_assign_some hd
    have hext := extendExpression_valid hσ hv hws hwd.2.1 (hbo e (by simp [defExprs])) hx
    -- `insert` then `killMentions` is the table of `tableValid_after_assign`
    intro p hp
    simp only [updateDef, Table.killMentions, Table.insert] at hp
    obtain ⟨hp1, hp2⟩ := List.mem_filter.mp hp
    have hnm := not_mem_of_mentions_false (by simpa using hp2)
    rw [eval_setReg_of_not_mem hnm, boolOk_setReg_of_not_mem hnm, getReg_setReg]
    rcases List.mem_cons.mp hp1 with e' | e'
    · subst e'; simp only [if_true]; exact hext
    · obtain ⟨hpt, hne⟩ := List.mem_filter.mp e'
      rw [if_neg (by simpa using hne)]
      exact hv p hpt
  | Load v a =>
    simp only [Sem.execDef] at hd
    cases hx : eval σ a with
    | none => rw [hx] at hd; cases hd
    | some x =>
      rw [hx] at hd
      simp only [Option.bind_eq_bind, Option.bind_some, Option.some.injEq, Prod.mk.injEq] at hd
      obtain ⟨rfl, _⟩ := hd
      exact hv.kill_setReg v _
  | Store a e =>
    simp only [Sem.execDef] at hd
    cases hx : eval σ a with
    | none => rw [hx] at hd; cases hd
    | some x =>
      cases hy : eval σ e with
      | none => rw [hx, hy] at hd; cases hd
      | some y =>
        rw [hx, hy] at hd
        simp only [Option.bind_eq_bind, Option.bind_some, Option.some.injEq, Prod.mk.injEq] at hd
        obtain ⟨rfl, _⟩ := hd
        exact hv.writeMem _ _ _

/-- **C10-table-after-defs.** The table the fixpoint sends to the successors of a block (`update_def` folded
over the defs) is valid in the state after the defs. -/
theorem tableAfterDefs_valid {ptr : Nat} (defs : List (Term Def)) {σ σ' : State} {t : Table} {evs : List Event}
    (hσ : StateWF σ) (hv : TableValid σ t) (hws : TableWS t)
    (hwd : ∀ d ∈ defs, WellSizedDef ptr d.term) (hbo : DefsBoolOk defs σ)
    (hr : execDefs σ defs = some (σ', evs)) : TableValid σ' (tableAfterDefs t defs) := by
  unfold tableAfterDefs
  induction defs generalizing σ t evs with
  | nil =>
    simp only [Sem.execDefs, Option.some.injEq, Prod.mk.injEq] at hr
    obtain ⟨rfl, _⟩ := hr
    exact hv
  | cons d ds ih =>
    simp only [Sem.execDefs] at hr
    cases h1 : Sem.execDef σ d.term with
    | none => rw [h1] at hr; cases hr
    | some r1 =>
      obtain ⟨σ₁, e₁⟩ := r1
      rw [h1] at hr
      simp only [Option.bind_eq_bind, Option.bind_some] at hr
      cases h2 : Sem.execDefs σ₁ ds with
      | none => rw [h2] at hr; cases hr
      | some r2 =>
        obtain ⟨σ₂, e₂⟩ := r2
        rw [h2] at hr
        simp only [Option.bind_some, Option.some.injEq, Prod.mk.injEq] at hr
        obtain ⟨rfl, _⟩ := hr
        have hwd0 := hwd d List.mem_cons_self
        simp only [List.foldl]
        exact ih (hσ.execDef h1) (updateDef_valid hσ hv hws hwd0 hbo.1 h1) (updateDef_tableWS hws hwd0)
          (fun x hx => hwd x (List.mem_cons_of_mem _ hx)) (hbo.2 σ₁ e₁ h1) h2

/-! ### the block-local insertion -/

theorem execDefs_cons_some {σ : State} {d : Term Def} {ds : List (Term Def)} {r : State × List Event} :
    execDefs σ (d :: ds) = some r ↔
      ∃ σ₁ e₁ σ₂ e₂, execDef σ d.term = some (σ₁, e₁) ∧ execDefs σ₁ ds = some (σ₂, e₂) ∧ r = (σ₂, e₁ ++ e₂) := by
  simp only [Sem.execDefs]
  cases h1 : Sem.execDef σ d.term with
  | none =>
    simp only [Option.bind_eq_bind, Option.bind_none, reduceCtorEq, false_and, exists_false]
  | some r1 =>
    obtain ⟨σ₁, e₁⟩ := r1
    simp only [Option.bind_eq_bind, Option.bind_some]
    cases h2 : Sem.execDefs σ₁ ds with
    | none =>
      simp only [Option.bind_none, reduceCtorEq, false_iff, not_exists, not_and]
      intro a b c d' hab hcd
      cases hab; rw [h2] at hcd; cases hcd
    | some r2 =>
      obtain ⟨σ₂, e₂⟩ := r2
      simp only [Option.bind_some, Option.some.injEq]
      constructor
      · intro h; exact ⟨σ₁, e₁, σ₂, e₂, rfl, h2, h.symm⟩
      · rintro ⟨_, _, _, _, h1', h2', h3⟩
        cases h1'; rw [h2] at h2'; cases h2'; exact h3.symm

/-- **C10-block-local-insertion.** `propagate_input_expressions` on the defs of a block: if the table is valid
in the state at the start of the defs, the new defs execute to the same final state with the same memory
events as the original defs, and the table after the defs is valid in the final state (so that the jump
expressions may be substituted too). -/
theorem propagateDefs_exec {ptr : Nat} (defs : List (Term Def)) {σ : State} {t : Table} {r : State × List Event}
    (hσ : StateWF σ) (hv : TableValid σ t) (hws : TableWS t)
    (hwd : ∀ d ∈ defs, WellSizedDef ptr d.term) (hbo : DefsBoolOk defs σ)
    (hr : execDefs σ defs = some r) :
    execDefs σ (propagateDefs t defs).1 = some r ∧ TableValid r.1 (propagateDefs t defs).2 ∧
      TableWS (propagateDefs t defs).2 := by
  induction defs generalizing σ t r with
  | nil =>
    simp only [Sem.execDefs, Option.some.injEq] at hr
    subst hr
    exact ⟨rfl, hv, hws⟩
  | cons d ds ih =>
    obtain ⟨σ₁, e₁, σ₂, e₂, h1, h2, rfl⟩ := execDefs_cons_some.mp hr
    have hwd0 := hwd d List.mem_cons_self
    have hwds : ∀ x ∈ ds, WellSizedDef ptr x.term := fun x hx => hwd x (List.mem_cons_of_mem _ hx)
    have hσ₁ := hσ.execDef h1
    have hbo' := hbo.2 σ₁ e₁ h1
    unfold propagateDefs
    split
    · next v e hde =>
      rw [hde] at h1 hwd0
      obtain ⟨x, hx, hxw, rfl, rfl⟩ := execDef_assign_some h1
      have hext := extendExpression_valid hσ hv hws hwd0.2.1 (hbo.1 e (by rw [hde]; simp [defExprs])) hx
      obtain ⟨hw1, hw2⟩ := extendExpression_sizePreserving hws e hwd0.2.1
      have hv₂ := tableValid_after_assign (v := v) hv hext
      have hws₂ : TableWS (if mentions (extendExpression t e) v = true then t.kill v
          else (t.kill v).insert v (extendExpression t e)) := by
        split
        · exact tableWS_filter hws _
        · exact tableWS_insert (tableWS_filter hws _) ⟨hw1, hw2.trans hwd0.2.2⟩
      obtain ⟨r1, r2, r3⟩ := ih hσ₁ hv₂ hws₂ hwds hbo' h2
      refine ⟨?_, r2, r3⟩
      exact execDefs_cons_some.mpr ⟨_, [], σ₂, e₂, execDef_assign_of hext.1 hxw, r1, rfl⟩
    · next v a hde =>
      rw [hde] at h1 hwd0
      have hsub := substAll_valid hv a
      have h1' : execDef σ (.Load v (substAll t a)) = some (σ₁, e₁) := by
        simp only [Sem.execDef] at h1 ⊢
        rw [hsub.1]; exact h1
      have hv₂ : TableValid σ₁ (t.kill v) := by
        simp only [Sem.execDef] at h1
        cases hx : eval σ a with
        | none => rw [hx] at h1; cases h1
        | some x =>
          rw [hx] at h1
          simp only [Option.bind_eq_bind, Option.bind_some, Option.some.injEq, Prod.mk.injEq] at h1
          obtain ⟨rfl, _⟩ := h1
          exact hv.kill_setReg v _
      obtain ⟨r1, r2, r3⟩ := ih hσ₁ hv₂ (tableWS_filter hws _) hwds hbo' h2
      exact ⟨execDefs_cons_some.mpr ⟨σ₁, e₁, σ₂, e₂, h1', r1, rfl⟩, r2, r3⟩
    · next a e hde =>
      rw [hde] at h1 hwd0
      have hsa := substAll_valid hv a
      have hse := substAll_valid hv e
      have h1' : execDef σ (.Store (substAll t a) (substAll t e)) = some (σ₁, e₁) := by
        simp only [Sem.execDef] at h1 ⊢
        rw [hsa.1, hse.1]; exact h1
      have hv₂ : TableValid σ₁ t := by
        simp only [Sem.execDef] at h1
        cases hx : eval σ a with
        | none => rw [hx] at h1; cases h1
        | some x =>
          cases hy : eval σ e with
          | none => rw [hx, hy] at h1; cases h1
          | some y =>
            rw [hx, hy] at h1
            simp only [Option.bind_eq_bind, Option.bind_some, Option.some.injEq, Prod.mk.injEq] at h1
            obtain ⟨rfl, _⟩ := h1
            exact hv.writeMem _ _ _
      obtain ⟨r1, r2, r3⟩ := ih hσ₁ hv₂ hws hwds hbo' h2
      exact ⟨execDefs_cons_some.mpr ⟨σ₁, e₁, σ₂, e₂, h1', r1, rfl⟩, r2, r3⟩

/-! ### merging of consecutive assignments to the same variable -/

theorem setReg_setReg (σ : State) (v : Variable) (x y : Bv) : (σ.setReg v x).setReg v y = σ.setReg v y := by
  simp only [State.setReg]
  congr 2
  simp only [List.filter]
  have : ((v, x).1 != v) = false := by simp
  rw [this]
  simp only [List.filter_filter, Bool.and_self]

/-- `v = e₁; v = e₂` is `v = e₂[v ↦ e₁]` -/
theorem execDef_merge_assign {σ σ₁ σ₂ : State} {v : Variable} {e₁ e₂ : Expression} {ev₁ ev₂ : List Event}
    (h1 : execDef σ (.Assign v e₁) = some (σ₁, ev₁)) (h2 : execDef σ₁ (.Assign v e₂) = some (σ₂, ev₂)) :
    execDef σ (.Assign v (e₂.substVar v e₁)) = some (σ₂, ev₁ ++ ev₂) := by
  obtain ⟨x, hx, _, rfl, rfl⟩ := execDef_assign_some h1
  obtain ⟨y, hy, hyw, rfl, rfl⟩ := execDef_assign_some h2
  rw [setReg_setReg]
  exact execDef_assign_of (by rw [eval_substVar hx]; exact hy) hyw

/-- **C10-merge-assignments.** `merge_def_assignments_to_same_var` keeps the result of executing the defs
(`last` is the pending assignment of the loop). -/
theorem mergeDefsLoop_exec (ds : List (Term Def)) (last : Option (Term Def)) {σ : State} {r : State × List Event}
    (hr : execDefs σ (last.toList ++ ds) = some r) : execDefs σ (mergeDefsLoop last ds) = some r := by
  induction ds generalizing last σ r with
  | nil => simpa [mergeDefsLoop] using hr
  | cons d ds ih =>
    unfold mergeDefsLoop
    split
    · next cv ce hdt =>
      split
      · next ld =>
        simp only [Option.toList, List.singleton_append] at hr
        obtain ⟨σ₁, e₁, σ₂, e₂, h1, h2, rfl⟩ := execDefs_cons_some.mp hr
        split
        · next lv le hlt =>
          split
          · next heq =>
            subst heq
            -- merge `d` into the pending assignment
            obtain ⟨σ₃, e₃, σ₄, e₄, h3, h4, hr2⟩ := execDefs_cons_some.mp h2
            cases hr2
            rw [hlt] at h1; rw [hdt] at h3
            have hm := execDef_merge_assign h1 h3
            apply ih
            simp only [Option.toList, List.singleton_append, mapDefExprs, hdt]
            refine execDefs_cons_some.mpr ⟨σ₃, e₁ ++ e₃, σ₂, e₄, hm, h4, ?_⟩
            simp [List.append_assoc]
          · exact execDefs_cons_some.mpr ⟨σ₁, e₁, σ₂, e₂, h1, ih (some d) (by simpa using h2), rfl⟩
        · exact execDefs_cons_some.mpr ⟨σ₁, e₁, σ₂, e₂, h1, ih (some d) (by simpa using h2), rfl⟩
      · exact ih (some d) (by simpa using hr)
    · cases last with
      | none =>
        simp only [Option.toList, List.nil_append] at hr ⊢
        obtain ⟨σ₁, e₁, σ₂, e₂, h1, h2, rfl⟩ := execDefs_cons_some.mp hr
        exact execDefs_cons_some.mpr ⟨σ₁, e₁, σ₂, e₂, h1, ih none (by simpa using h2), rfl⟩
      | some ld =>
        simp only [Option.toList, List.singleton_append] at hr ⊢
        obtain ⟨σ₁, e₁, σ₂, e₂, h1, h2, rfl⟩ := execDefs_cons_some.mp hr
        obtain ⟨σ₃, e₃, σ₄, e₄, h3, h4, hr2⟩ := execDefs_cons_some.mp h2
        cases hr2
        refine execDefs_cons_some.mpr ⟨σ₁, e₁, σ₂, e₃ ++ e₄, h1, ?_, rfl⟩
        exact execDefs_cons_some.mpr ⟨σ₃, e₃, σ₂, e₄, h3, ih none (by simpa using h4), rfl⟩

end CweModel.C10
