/-
C10 — basic facts about the reference interpreter (Base/IRSem.lean) used by the pass proofs:
well-formed states, the width of the value of a well-sized expression, evaluation equations.
Core-only.
-/
import CweModel.Base.IRSem
import CweModel.C01.Props
import CweModel.C10.Trivial

namespace CweModel.C10
open CweModel CweModel.IR CweModel.Sem CweModel.C12

/-- every register holds a value of its declared size -/
def StateWF (σ : State) : Prop := ∀ v : Variable, (σ.getReg v).w = 8 * v.size

theorem regDefault_w (σ : State) (v : Variable) : (σ.regDefault v).w = 8 * v.size := by
  simp [State.regDefault, Bv.ofBytes, Bv.ofNat]

theorem find_filter_ne (v w : Variable) (h : w ≠ v) (l : List (Variable × Bv)) :
    (l.filter (fun p => p.1 != v)).find? (fun p => p.1 == w) = l.find? (fun p => p.1 == w) := by
  induction l with
  | nil => rfl
  | cons p ps ih =>
    simp only [List.filter]
    by_cases hp : p.1 = v
    · have h1 : (p.1 != v) = false := by simp [hp]
      have hw : (p.1 == w) = false := by rw [hp]; simpa using fun e => h e.symm
      simp only [h1, List.find?, hw, ih]
    · have h1 : (p.1 != v) = true := by simpa using hp
      simp only [h1, List.find?]
      cases (p.1 == w) <;> simp [ih]

theorem getReg_setReg (σ : State) (v w : Variable) (x : Bv) :
    (σ.setReg v x).getReg w = if w = v then x else σ.getReg w := by
  unfold State.getReg State.setReg
  by_cases h : w = v
  · subst h; simp
  · have h' : (v == w) = false := by simpa using fun e => h e.symm
    simp only [List.find?, h', h, if_false, find_filter_ne v w h]
    rfl

theorem StateWF.setReg {σ : State} (h : StateWF σ) (v : Variable) (x : Bv) (hx : x.w = 8 * v.size) :
    StateWF (σ.setReg v x) := by
  intro w
  rw [getReg_setReg]
  split
  · next e => subst e; exact hx
  · exact h w

theorem stateWF_default (seed : Nat) : StateWF { seed := seed } := by
  intro v
  simp [State.getReg, regDefault_w]

/-! ### boolean discipline (hypothesis H1 of the specification, see Spec.lean) -/

def isBoolVal : Option Bv → Bool
  | some b => decide (b.toNat ≤ 1)
  | none => true

def isBoolOp : BinOpType → Bool
  | .BoolAnd | .BoolOr | .BoolXOr => true
  | _ => false

/-- H1 on one expression in state `σ` -/
def boolOk (σ : State) : Expression → Bool
  | .BinOp op l r =>
    boolOk σ l && boolOk σ r && (!isBoolOp op || (isBoolVal (eval σ l) && isBoolVal (eval σ r)))
  | .UnOp _ a => boolOk σ a
  | .Cast _ _ a => boolOk σ a
  | .Subpiece _ _ a => boolOk σ a
  | _ => true

/-! ### evaluation equations -/

theorem eval_binOp (σ : State) (op : BinOpType) (l r : Expression) :
    eval σ (.BinOp op l r) = (eval σ l).bind fun a => (eval σ r).bind fun b => resToOpt (Ref.binOp op a b) := by
  simp only [eval]; rfl

theorem eval_unOp (σ : State) (op : UnOpType) (a : Expression) :
    eval σ (.UnOp op a) = (eval σ a).bind fun x => resToOpt (Ref.unOp op x) := by
  simp only [eval]; rfl

theorem eval_cast (σ : State) (op : CastOpType) (s : Nat) (a : Expression) :
    eval σ (.Cast op s a) = (eval σ a).bind fun x => resToOpt (Ref.cast op s x) := by
  simp only [eval]; rfl

theorem eval_subpiece (σ : State) (lb s : Nat) (a : Expression) :
    eval σ (.Subpiece lb s a) = (eval σ a).bind fun x => resToOpt (Ref.subpieceOp lb s x) := by
  simp only [eval]; rfl

theorem resToOpt_some {r : Res} {v : Bv} : resToOpt r = some v ↔ r = .val v := by
  cases r <;> simp [resToOpt]

/-- inversion: a binary operation evaluates iff both operands do and the reference operation is defined -/
theorem eval_binOp_some {σ : State} {op : BinOpType} {l r : Expression} {v : Bv} :
    eval σ (.BinOp op l r) = some v ↔
      ∃ a b, eval σ l = some a ∧ eval σ r = some b ∧ Ref.binOp op a b = .val v := by
  rw [eval_binOp]
  cases hl : eval σ l <;> cases hr : eval σ r <;> simp [Option.bind, resToOpt_some]

theorem eval_unOp_some {σ : State} {op : UnOpType} {a : Expression} {v : Bv} :
    eval σ (.UnOp op a) = some v ↔ ∃ x, eval σ a = some x ∧ Ref.unOp op x = .val v := by
  rw [eval_unOp]
  cases ha : eval σ a <;> simp [Option.bind, resToOpt_some]

theorem eval_cast_some {σ : State} {op : CastOpType} {s : Nat} {a : Expression} {v : Bv} :
    eval σ (.Cast op s a) = some v ↔ ∃ x, eval σ a = some x ∧ Ref.cast op s x = .val v := by
  rw [eval_cast]
  cases ha : eval σ a <;> simp [Option.bind, resToOpt_some]

theorem eval_subpiece_some {σ : State} {lb s : Nat} {a : Expression} {v : Bv} :
    eval σ (.Subpiece lb s a) = some v ↔ ∃ x, eval σ a = some x ∧ Ref.subpieceOp lb s x = .val v := by
  rw [eval_subpiece]
  cases ha : eval σ a <;> simp [Option.bind, resToOpt_some]

/-! ### `sameW` -/

theorem sameW_mk (w : Nat) (x y : BitVec w) (f : {w : Nat} → BitVec w → BitVec w → Res) :
    sameW ⟨w, x⟩ ⟨w, y⟩ f = f x y := by
  simp [sameW]

theorem sameW_val {a b : Bv} {f : {w : Nat} → BitVec w → BitVec w → Res} {r : Bv}
    (h : sameW a b f = .val r) : a.w = b.w := by
  unfold sameW at h
  split at h
  · assumption
  · cases h

/-! ### widths of results -/

/-- width of the value of a binary operation (where it has a value) -/
def binResW (op : BinOpType) (aw bw : Nat) : Nat :=
  match op with
  | .Piece => aw + bw
  | .IntEqual | .IntNotEqual | .IntLess | .IntSLess | .IntLessEqual | .IntSLessEqual
  | .IntCarry | .IntSCarry | .IntSBorrow
  | .FloatEqual | .FloatNotEqual | .FloatLess | .FloatLessEqual => 8
  | _ => aw

theorem ref_binOp_w {op : BinOpType} {a b r : Bv} (h : Ref.binOp op a b = .val r) :
    r.w = binResW op a.w b.w := by
  obtain ⟨aw, av⟩ := a
  obtain ⟨bw, bv⟩ := b
  cases op <;> simp only [Ref.binOp, sameW, valV, valB, Bv.ofBool, binResW] at h ⊢ <;>
    (try split at h) <;> (try split at h) <;> (try split at h) <;>
    (try (injection h with h; subst h; first | rfl | omega)) <;>
    (try cases h)

theorem ref_unOp_w {op : UnOpType} {a r : Bv} (h : Ref.unOp op a = .val r) :
    r.w = match op with | .BoolNegate => 8 | _ => a.w := by
  obtain ⟨aw, av⟩ := a
  cases op <;> simp only [Ref.unOp, valV, valB, Bv.ofBool] at h ⊢ <;>
    (try split at h) <;> (try split at h) <;>
    (try (injection h with h; subst h; rfl)) <;> (try cases h)

theorem ref_cast_w {op : CastOpType} {s : Nat} {a r : Bv} (h : Ref.cast op s a = .val r) : r.w = 8 * s := by
  obtain ⟨aw, av⟩ := a
  cases op <;> simp only [Ref.cast, valV] at h ⊢ <;>
    (try split at h) <;> (try (injection h with h; subst h; rfl)) <;> (try cases h)

theorem ref_subpiece_w {lb s : Nat} {a r : Bv} (h : Ref.subpieceOp lb s a = .val r) : r.w = 8 * s := by
  unfold Ref.subpieceOp at h
  split at h
  · simp only [valV] at h; injection h with h; subst h; rfl
  · cases h

/-- **width of the value of a well-sized expression** -/
theorem eval_width {σ : State} (hσ : StateWF σ) :
    ∀ {e : Expression} {v : Bv}, WellSized e → eval σ e = some v → v.w = 8 * e.bytesize := by
  intro e
  induction e with
  | Var x => intro v _ h; simp only [eval, Option.some.injEq] at h; subst h; exact hσ x
  | Const b x => intro v _ h; simp only [eval, Option.some.injEq] at h; subst h; rfl
  | Unknown d s => intro v _ h; simp only [eval, Option.some.injEq] at h; subst h; rfl
  | BinOp op l r ihl ihr =>
    intro v hw h
    obtain ⟨hwl, hwr, hs⟩ := hw
    obtain ⟨a, b, hl, hr, hv⟩ := eval_binOp_some.mp h
    have ha := ihl hwl hl
    have hb := ihr hwr hr
    rw [ref_binOp_w hv, ha, hb]
    cases op <;> simp only [binResW, Expression.bytesize] <;> first | omega | (simp only [binSizesOk, binClass] at hs; omega)
  | UnOp op a ih =>
    intro v hw h
    obtain ⟨hwa, hs⟩ := hw
    obtain ⟨x, hx, hv⟩ := eval_unOp_some.mp h
    have ha := ih hwa hx
    rw [ref_unOp_w hv]
    cases op <;> simp only [Expression.bytesize] <;> first | exact ha | (simp only [unSizeOk] at hs; omega) | skip
    all_goals (simp only [Ref.unOp] at hv; cases hv)
  | Cast op s a ih =>
    intro v _ h
    obtain ⟨x, _, hv⟩ := eval_cast_some.mp h
    rw [ref_cast_w hv]; rfl
  | Subpiece lb s a ih =>
    intro v _ h
    obtain ⟨x, _, hv⟩ := eval_subpiece_some.mp h
    rw [ref_subpiece_w hv]; rfl

end CweModel.C10
