/-
C10 — the executable run-time hypothesis check `hypRun` (Spec.lean, evaluated by the driver on every case)
implies the declarative hypothesis `RunOk` of the theorems.
-/
import CweModel.C10.RunLemmas

namespace CweModel.C10
open CweModel CweModel.IR CweModel.Sem

theorem exprOk_boolOk {σ : State} {defd : List Variable} {e : Expression} (h : exprOk σ defd e = true) :
    boolOk σ e = true := by
  simp only [exprOk, Bool.and_eq_true] at h; exact h.1

theorem hypDefs_sound : ∀ (defs : List (Term Def)) {σ σ' : State} {defd defd' : List Variable},
    hypDefs σ defd defs = some (σ', defd', true) →
    DefsBoolOk defs σ ∧ ∀ σ₁ evs, execDefs σ defs = some (σ₁, evs) → σ' = σ₁ := by
  intro defs
  induction defs with
  | nil =>
    intro σ σ' defd defd' h
    simp only [hypDefs, Option.some.injEq, Prod.mk.injEq] at h
    refine ⟨trivial, fun σ₁ evs he => ?_⟩
    simp only [Sem.execDefs, Option.some.injEq, Prod.mk.injEq] at he
    rw [← h.1, he.1]
  | cons d ds ih =>
    intro σ σ' defd defd' h
    simp only [hypDefs] at h
    cases hd : execDef σ d.term with
    | none =>
      rw [hd] at h
      simp only [Option.some.injEq, Prod.mk.injEq] at h
      obtain ⟨_, _, hok⟩ := h
      refine ⟨⟨?_, fun σ₂ evs he => by rw [hd] at he; cases he⟩, fun σ₁ evs he => ?_⟩
      · intro e he
        cases hdt : d.term with
        | Assign v x => rw [hdt] at hok he; simp only [defExprs, List.mem_singleton] at he; subst he; exact exprOk_boolOk hok
        | Load v x => rw [hdt] at hok he; simp only [defExprs, List.mem_singleton] at he; subst he; exact exprOk_boolOk hok
        | Store a x =>
          rw [hdt] at hok he
          simp only [Bool.and_eq_true] at hok
          simp only [defExprs, List.mem_cons, List.not_mem_nil, or_false] at he
          rcases he with rfl | rfl
          · exact exprOk_boolOk hok.1
          · exact exprOk_boolOk hok.2
      · simp only [Sem.execDefs, hd, Option.bind_eq_bind, Option.bind_none, reduceCtorEq] at he
    | some r =>
      obtain ⟨σm, em⟩ := r
      rw [hd] at h
      simp only at h
      split at h
      · next σ'' defd'' ok' hrec =>
        simp only [Option.some.injEq, Prod.mk.injEq, Bool.and_eq_true] at h
        obtain ⟨rfl, rfl, hok, hok'⟩ := h
        subst hok'
        obtain ⟨ih1, ih2⟩ := ih hrec
        refine ⟨⟨?_, fun σ₂ evs he => by rw [hd] at he; cases he; exact ih1⟩, fun σ₁ evs he => ?_⟩
        · intro e he
          cases hdt : d.term with
          | Assign v x => rw [hdt] at hok he; simp only [defExprs, List.mem_singleton] at he; subst he; exact exprOk_boolOk hok
          | Load v x => rw [hdt] at hok he; simp only [defExprs, List.mem_singleton] at he; subst he; exact exprOk_boolOk hok
          | Store a x =>
            rw [hdt] at hok he
            simp only [Bool.and_eq_true] at hok
            simp only [defExprs, List.mem_cons, List.not_mem_nil, or_false] at he
            rcases he with rfl | rfl
            · exact exprOk_boolOk hok.1
            · exact exprOk_boolOk hok.2
        · simp only [Sem.execDefs, hd, Option.bind_eq_bind, Option.bind_some] at he
          cases h2 : execDefs σm ds with
          | none => rw [h2] at he; cases he
          | some r2 =>
            rw [h2] at he
            simp only [Option.bind_some, Option.some.injEq, Prod.mk.injEq] at he
            rw [← he.1]
            exact ih2 r2.1 r2.2 h2
      · cases h

/-- **C10-hypothesis-check.** If the executable check `hypRun` (run by the driver on the unoptimised function)
accepts a run, the run satisfies the declarative hypothesis `RunOk` of the theorems. -/
theorem runOk_of_hypRun (env : Env) (blocks : List (Term Blk)) :
    ∀ (fuel : Nat) (t : Tid) (σ : State) (c : Nat) (defd : List Variable),
      hypRun env blocks fuel t σ c defd = true → RunOk env blocks fuel t σ c := by
  intro fuel
  induction fuel with
  | zero => intro t σ c defd _; trivial
  | succ n ih =>
    intro t σ c defd h
    intro b hb
    simp only [hypRun, hb] at h
    cases hh : hypDefs σ defd b.term.defs with
    | none =>
      -- `hypDefs` never returns `none` ... but the check accepts in that case: derive the facts directly
      rw [hh] at h
      exfalso
      -- hypDefs is total: show contradiction
      have : ∀ (defs : List (Term Def)) (σ : State) (defd : List Variable), hypDefs σ defd defs ≠ none := by
        intro defs
        induction defs with
        | nil => intro σ defd; simp [hypDefs]
        | cons d ds ihd =>
          intro σ defd
          simp only [hypDefs]
          cases execDef σ d.term with
          | none => simp
          | some r =>
            simp only
            cases hr : hypDefs r.1 (match d.term with
              | .Assign v _ => if v.isTemp then v :: defd else defd
              | .Load v _ => if v.isTemp then v :: defd else defd
              | .Store _ _ => defd) ds with
            | none => exact absurd hr (ihd _ _)
            | some x => simp
      exact this _ _ _ hh
    | some r =>
      obtain ⟨σ₁', defd₁, ok⟩ := r
      rw [hh] at h
      simp only at h
      cases ok with
      | false => simp at h
      | true =>
        simp only [Bool.not_true, Bool.false_eq_true, if_false] at h
        obtain ⟨hdefs, hstate⟩ := hypDefs_sound b.term.defs hh
        refine ⟨hdefs, fun σ₁ evs hd => ?_⟩
        have hs := hstate σ₁ evs hd
        subst hs
        rw [hd] at h
        simp only at h
        split at h
        · cases h
        · next hokJ =>
          have hokJ' : (b.term.jmps.all fun j => (jmpExprs j.term).all (exprOk σ₁' defd₁)) = true := by
            simpa using hokJ
          refine ⟨fun j hj e he => ?_, fun evs₂ t₂ σ₂ c₂ hjm => ?_⟩
          · have := List.all_eq_true.mp hokJ' j hj
            exact exprOk_boolOk (List.all_eq_true.mp this e he)
          · rw [hjm] at h
            simp only at h
            exact ih t₂ σ₂ c₂ _ h

end CweModel.C10
