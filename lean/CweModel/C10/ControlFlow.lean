/-
C10 pass 4 — model of `propagate_control_flow`
(intermediate_representation/project/propagate_control_flow.rs), function by function.

The pass reads the interprocedural CFG (analysis/graph.rs) only through
  * the labels of the edges that END at the start node of a block (for the block precondition), and
  * whether a block start node has an incoming edge at all (for the orphan removal).
`incomingEdges` lists exactly those edges for a block of a basic-normalized program (every jump target
is a block of the same function): jump edges of the function's own blocks, extern-call-stub edges of
calls whose return site is the block, return-combine edges (one per returning block of an internal
callee), and the call edges into a function's first block.

Model of the REPAIRED code (D4): `remove_new_orphaned_blocks` never removes the first block of a function.
Core-only.
-/
import CweModel.C10.DeadVars

namespace CweModel.C10
open CweModel CweModel.IR

/-- `negate_condition` -/
def negateCondition : Expression → Expression
  | .UnOp .BoolNegate arg => arg
  | e => .UnOp .BoolNegate e

/-- label of a CFG edge that ends at a block start, as far as the pass inspects it -/
inductive InEdge where
  | jump (j : Jmp) (untaken : Option Jmp)
  | other                                     -- extern call stub, return combine, call
deriving Repr, DecidableEq

def isExternTid (p : Program) (t : Tid) : Bool := p.externSymbols.any (·.tid == t)

/-- internal function with at least one block (`call_targets` of the graph builder) -/
def internalCallee (p : Program) (t : Tid) : Option (Term Sub) :=
  if isExternTid p t then none else
  match p.subs.find? (·.tid == t) with
  | some s => if s.term.blocks.isEmpty then none else some s
  | none => none

def hasReturnJmp (b : Term Blk) : Bool :=
  b.term.jmps.any fun j => match j.term with | .Return _ => true | _ => false

/-- the jumps of a block paired with their untaken conditional: `[j]` or `[if_jump, else_jump]` -/
def jmpsWithUntaken (b : Term Blk) : List (Jmp × Option Jmp) :=
  match b.term.jmps with
  | [] => []
  | [j] => [(j.term, none)]
  | j₁ :: j₂ :: _ => [(j₁.term, none), (j₂.term, some j₁.term)]

/-- edges from block `a` (of the same function) to the start of the block with tid `t` -/
def edgesFromBlock (p : Program) (a : Term Blk) (t : Tid) : List InEdge :=
  (jmpsWithUntaken a).flatMap fun (j, u) =>
    match j with
    | .Branch tgt => if tgt == t then [.jump j u] else []
    | .CBranch tgt _ => if tgt == t then [.jump j u] else []
    | .BranchInd _ => (a.term.indirectJmpTargets.filter (· == t)).map fun _ => .jump j u
    | .Call callee (some r) =>
      if r == t then
        if isExternTid p callee then [.other]
        else match internalCallee p callee with
          | some s => (s.term.blocks.filter hasReturnJmp).map fun _ => .other
          | none => []
      else []
    | .CallInd _ (some r) => if r == t then [.other] else []
    | _ => []

/-- is the function `s` the target of a call edge (some block calls it and it has a first block) -/
def isCalled (p : Program) (s : Tid) : Bool :=
  (internalCallee p s).isSome &&
  p.subs.any fun f => f.term.blocks.any fun b => (jmpsWithUntaken b).any fun (j, _) =>
    match j with | .Call callee _ => callee == s | _ => false

/-- labels of all CFG edges ending at the start node of block `b` of function `s` -/
def incomingEdges (p : Program) (s : Term Sub) (b : Term Blk) : List InEdge :=
  let fromBlocks := s.term.blocks.flatMap fun a => edgesFromBlock p a b.tid
  let isEntry := match s.term.blocks with | e :: _ => e.tid == b.tid | [] => false
  if isEntry && isCalled p s.tid then fromBlocks ++ [.other] else fromBlocks

/-- `get_precondition_from_incoming_edges` -/
def preconditionFromIncoming (edges : List InEdge) : Option Expression :=
  let conds : Option (List Expression) := edges.foldr (fun e acc =>
    match acc with
    | none => none
    | some cs =>
      match e with
      | .jump (.CBranch _ c) none => some (c :: cs)
      | .jump (.Branch _) (some (.CBranch _ c)) => some (negateCondition c :: cs)
      | _ => none) (some [])
  match conds with
  | some (c :: cs) => if cs.all (· = c) then some c else none
  | _ => none

/-- `get_block_precondition_after_defs` -/
def blockPreconditionAfterDefs (p : Program) (s : Term Sub) (b : Term Blk) : Option Expression :=
  match s.term.blocks with
  | [] => none
  | e :: _ =>
    if e.tid == b.tid then none else
    match preconditionFromIncoming (incomingEdges p s b) with
    | none => none
    | some c =>
      let vars := c.inputVars
      let clobbered := b.term.defs.any fun d => match d.term with
        | .Assign v _ => decide (v ∈ vars)
        | .Load v _ => decide (v ∈ vars)
        | .Store _ _ => false
      if clobbered then none else some c

/-- `check_for_retargetable_block` -/
def checkForRetargetableBlock (b : Term Blk) (trueConds : List Expression) : Option Tid :=
  if !b.term.defs.isEmpty then none else
  match b.term.jmps with
  | [j] =>
    match j.term with
    | .Branch t => some t
    | _ => none
  | [j₁, j₂] =>
    match j₁.term, j₂.term with
    | .CBranch tIf c, .Branch tElse =>
      trueConds.findSome? fun tc =>
        if c = tc then some tIf
        else if c = negateCondition tc then some tElse
        else none
    | _, _ => none
  | _ => none

/-- the loop of `find_target_for_retargetable_jump`; `fuel` = number of blocks of the function + 1
(every iteration adds a new tid of a block... or ends) -/
def followChain (blocks : List (Term Blk)) (trueConds : List Expression) :
    Nat → List Tid → Tid → Tid
  | 0, _, cur => cur
  | fuel + 1, visited, cur =>
    match blocks.find? (·.tid == cur) with
    | none => cur
    | some b =>
      match checkForRetargetableBlock b trueConds with
      | none => cur
      | some t => if t ∈ visited then cur else followChain blocks trueConds fuel (t :: visited) t

/-- `find_target_for_retargetable_jump` -/
def findTargetForRetargetableJump (target : Tid) (s : Sub) (trueConds : List Expression) : Option Tid :=
  let t := followChain s.blocks trueConds (s.blocks.length + 1) [target] target
  if t ≠ target then some t else none

/-- the retargeting decisions of one block: (jump tid, new target) -/
def retargetsOfBlock (p : Program) (s : Term Sub) (b : Term Blk) : List (Tid × Tid) :=
  let pre : List Expression := match blockPreconditionAfterDefs p s b with | some c => [c] | none => []
  let one (jt : Tid) (target : Tid) (conds : List Expression) : List (Tid × Tid) :=
    match findTargetForRetargetableJump target s.term conds with
    | some n => [(jt, n)]
    | none => []
  match b.term.jmps with
  | [j] =>
    match j.term with
    | .Call _ (some r) => one j.tid r []
    | .CallInd _ (some r) => one j.tid r []
    | .CallOther _ (some r) => one j.tid r []
    | .Branch t => one j.tid t pre
    | _ => []
  | [j₁, j₂] =>
    match j₁.term, j₂.term with
    | .CBranch tIf c, .Branch tElse =>
      one j₁.tid tIf (pre ++ [c]) ++ one j₂.tid tElse (pre ++ [negateCondition c])
    | _, _ => []
  | _ => []

def allRetargets (p : Program) : List (Tid × Tid) :=
  p.subs.flatMap fun s => s.term.blocks.flatMap fun b => retargetsOfBlock p s b

def retargetJmp (m : List (Tid × Tid)) (j : Term Jmp) : Term Jmp :=
  match m.find? (·.1 == j.tid) with
  | none => j
  | some (_, n) =>
    match j.term with
    | .Branch _ => { j with term := .Branch n }
    | .CBranch _ c => { j with term := .CBranch n c }
    | .Call t (some _) => { j with term := .Call t (some n) }
    | .CallInd e (some _) => { j with term := .CallInd e (some n) }
    | .CallOther d (some _) => { j with term := .CallOther d (some n) }
    | _ => j

/-- `retarget_jumps` -/
def retargetJumps (m : List (Tid × Tid)) (p : Program) : Program :=
  mapProgramSubs (mapSubBlocks fun b =>
    { b with term := { b.term with jmps := b.term.jmps.map (retargetJmp m) } }) p

/-- `get_nodes_without_incoming_edge`: tids of the blocks whose start node has no incoming edge -/
def orphanTids (p : Program) : List Tid :=
  p.subs.flatMap fun s => (s.term.blocks.filter fun b => (incomingEdges p s b).isEmpty).map (·.tid)

/-- `remove_new_orphaned_blocks` (repaired: the first block of a function stays) -/
def removeNewOrphanedBlocks (p : Program) (before after : List Tid) : Program :=
  let newOrphans := after.filter (fun t => !(before.contains t))
  mapProgramSubs (fun s =>
    match s.term.blocks with
    | [] => s
    | e :: rest => { s with term := { s.term with
        blocks := e :: rest.filter (fun b => !(newOrphans.contains b.tid)) } }) p

/-- the same before the repair (D4): the first block may be removed -/
def removeNewOrphanedBlocksD4 (p : Program) (before after : List Tid) : Program :=
  let newOrphans := after.filter (fun t => !(before.contains t))
  mapProgramSubs (fun s => { s with term := { s.term with
    blocks := s.term.blocks.filter (fun b => !(newOrphans.contains b.tid)) } }) p

/-- **`propagate_control_flow`** -/
def propagateControlFlow (p : Program) : Program :=
  let before := orphanTids p
  let p' := retargetJumps (allRetargets p) p
  removeNewOrphanedBlocks p' before (orphanTids p')

def propagateControlFlowD4 (p : Program) : Program :=
  let before := orphanTids p
  let p' := retargetJumps (allRetargets p) p
  removeNewOrphanedBlocksD4 p' before (orphanTids p')

/-! ### structural hypotheses of the run-level theorem (RunControlFlow.lean), executable

The retarget map is keyed by jump tid and the orphan removal by block tid, both across the whole program. -/

namespace CF

/-- jump tids are unique in the program -/
def JmpTidsUnique (p : Program) : Prop :=
  ∀ s ∈ p.subs, ∀ b ∈ s.term.blocks, ∀ j ∈ b.term.jmps,
    ∀ s' ∈ p.subs, ∀ b' ∈ s'.term.blocks, ∀ j' ∈ b'.term.jmps, j'.tid = j.tid → s' = s ∧ b' = b ∧ j' = j

/-- block tids are unique in the program -/
def BlkTidsUnique (p : Program) : Prop :=
  ∀ s ∈ p.subs, ∀ b ∈ s.term.blocks, ∀ s' ∈ p.subs, ∀ b' ∈ s'.term.blocks, b'.tid = b.tid → s' = s ∧ b' = b

instance (p : Program) : Decidable (JmpTidsUnique p) := by unfold JmpTidsUnique; infer_instance
instance (p : Program) : Decidable (BlkTidsUnique p) := by unfold BlkTidsUnique; infer_instance

def jmpShapeB (a : Term Blk) : Bool :=
  match a.term.jmps with
  | [] | [_] => true
  | [j, _] => (match j.term with | .CBranch _ _ => true | _ => false)
  | _ => false

def noCallOtherRetB (j : Term Jmp) : Bool :=
  match j.term with
  | .CallOther _ (some _) => false
  | _ => true

def callRetOkB (p : Program) (j : Term Jmp) : Bool :=
  match j.term with
  | .Call callee (some _) =>
    isExternTid p callee ||
      (match internalCallee p callee with
        | some sc => !(sc.term.blocks.filter hasReturnJmp).isEmpty
        | none => false)
  | _ => true

def blkOkB (p : Program) (a : Term Blk) : Bool :=
  jmpShapeB a && a.term.jmps.all fun j => noCallOtherRetB j && callRetOkB p j

end CF

open CF in
/-- executable form of the structural hypotheses `CfOk` of `propagateControlFlow_runSub` -/
def cfOkB (p : Program) : Bool :=
  decide (JmpTidsUnique p) && decide (BlkTidsUnique p) &&
    p.subs.all fun s => s.term.blocks.all fun b => blkOkB p b


end CweModel.C10
