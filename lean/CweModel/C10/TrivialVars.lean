/-
C10 pass 1 — `Expression::substitute_trivial_operations` never introduces a variable: every input variable
of the rewritten expression is an input variable of the original one. Purely syntactic (no semantics, no
well-sizedness hypothesis), by inspection of every rule of the model in `Trivial.lean`.
Core-only.
-/
import CweModel.C10.Trivial

namespace CweModel.C10
open CweModel CweModel.IR

/-- `f` introduces no variable -/
def VarsSub (f : Expression → Expression) : Prop := ∀ e v, v ∈ (f e).inputVars → v ∈ e.inputVars

theorem VarsSub.comp {f g : Expression → Expression} (hf : VarsSub f) (hg : VarsSub g) :
    VarsSub (fun e => f (g e)) :=
  fun e v hv => hg e v (hf (g e) v hv)

/-! ### shapes returned by the pattern helpers -/

theorem vars_ite_some {α : Type} {c : Prop} [Decidable c] {x : Option α} {y : α}
    (h : (if c then x else none) = some y) : x = some y := by
  by_cases hc : c <;> simp_all

theorem constAndOther_other {g : Nat → Nat → Bool} {l r : Expression} {b x : Nat} {o : Expression}
    (h : constAndOther g l r = some (b, x, o)) : o = l ∨ o = r := by
  unfold constAndOther at h
  split at h
  · split at h
    · cases h; exact .inr rfl
    · split at h
      · split at h
        · cases h; exact .inl rfl
        · cases h
      · cases h
  · split at h
    · split at h
      · cases h; exact .inl rfl
      · cases h
    · cases h

theorem constAndSub_shape {g : Nat → Nat → Bool} {l r il ir : Expression} {b x : Nat}
    (h : constAndSub g l r = some (b, x, il, ir)) :
    l = .BinOp .IntSub il ir ∨ r = .BinOp .IntSub il ir := by
  unfold constAndSub at h
  split at h
  · split at h
    · cases h; exact .inr rfl
    · cases h
  · split at h
    · cases h; exact .inl rfl
    · cases h
  · cases h

theorem pairOf_shape {opA opB : BinOpType} {l r a b : Expression} (h : pairOf opA opB l r = some (a, b)) :
    (∃ o, l = .BinOp o a b) ∨ (∃ o, r = .BinOp o a b) := by
  unfold pairOf at h
  simp only at h
  split at h
  · next p hp =>
    cases h
    split at hp
    · next o₁ aL aR o₂ bL bR =>
      split at hp
      · cases hp; exact .inl ⟨o₁, rfl⟩
      · cases hp
    · cases hp
  · split at h
    · next o₁ bL bR o₂ aL aR _ =>
      split at h
      · cases h; exact .inr ⟨o₂, rfl⟩
      · cases h
    · cases h

theorem foldConst_vars {op : BinOpType} {b₁ x₁ b₂ x₂ : Nat} {c : Expression}
    (h : foldConst op b₁ x₁ b₂ x₂ = some c) : c.inputVars = [] := by
  unfold foldConst at h
  split at h
  · cases h; simp only [Expression.inputVars]
  · cases h

theorem unpackLess_shape {e a b : Expression} (h : unpackAMinusBLessThanZero e = some (a, b)) :
    ∃ cb cx, e = .BinOp .IntSLess (.BinOp .IntSub a b) (.Const cb cx) := by
  unfold unpackAMinusBLessThanZero at h
  split at h
  · next a' b' cb cx =>
    split at h
    · cases h; exact ⟨cb, cx, rfl⟩
    · cases h
  · cases h

theorem unpackBorrow_shape {e a b : Expression} (h : unpackAIntSBorrowB e = some (a, b)) :
    e = .BinOp .IntSBorrow a b := by
  unfold unpackAIntSBorrowB at h
  split at h
  · cases h; rfl
  · cases h

/-! ### membership consequences of the shapes -/

theorem vars_of_other {l r o : Expression} (h : o = l ∨ o = r) {v : Variable} (hv : v ∈ o.inputVars) :
    v ∈ l.inputVars ∨ v ∈ r.inputVars := by
  rcases h with rfl | rfl
  · exact .inl hv
  · exact .inr hv

theorem vars_of_sub {l r il ir : Expression} (h : l = .BinOp .IntSub il ir ∨ r = .BinOp .IntSub il ir)
    {v : Variable} (hv : v ∈ il.inputVars ∨ v ∈ ir.inputVars) : v ∈ l.inputVars ∨ v ∈ r.inputVars := by
  rcases h with rfl | rfl
  · exact .inl (by simpa only [Expression.inputVars, List.mem_append] using hv)
  · exact .inr (by simpa only [Expression.inputVars, List.mem_append] using hv)

theorem vars_of_pair {l r a b : Expression} (h : (∃ o, l = .BinOp o a b) ∨ (∃ o, r = .BinOp o a b))
    {v : Variable} (hv : v ∈ a.inputVars ∨ v ∈ b.inputVars) : v ∈ l.inputVars ∨ v ∈ r.inputVars := by
  rcases h with ⟨o, rfl⟩ | ⟨o, rfl⟩
  · exact .inl (by simpa only [Expression.inputVars, List.mem_append] using hv)
  · exact .inr (by simpa only [Expression.inputVars, List.mem_append] using hv)

/-! ### the five steps of `substitute_trivial_binops` -/

/-- `substitute_binop_for_lhs_equal_rhs` introduces no variable -/
theorem varsSub_lhsEqualRhs : VarsSub substBinopForLhsEqualRhs := by
  intro e v hv
  unfold substBinopForLhsEqualRhs at hv
  split at hv
  · next op l r =>
    split at hv
    · next heq =>
      subst heq
      split at hv
      all_goals simp_all [Expression.inputVars]
    · exact hv
  · exact hv

/-- `substitute_and_xor_or_with_constant` introduces no variable -/
theorem varsSub_andXorOrWithConstant : VarsSub substAndXorOrWithConstant := by
  intro e v hv
  unfold substAndXorOrWithConstant at hv
  split at hv
  · next op l r =>
    simp only [Expression.inputVars, List.mem_append]
    split at hv
    · next h => exact vars_of_other (constAndOther_other (vars_ite_some h)) hv
    · split at hv
      · next h => exact vars_of_other (constAndOther_other (vars_ite_some h)) hv
      · split at hv
        · simp [Expression.inputVars] at hv
        · split at hv
          · next h => exact vars_of_other (constAndOther_other (vars_ite_some h)) hv
          · split at hv
            · simp [Expression.inputVars] at hv
            · split at hv
              · next h =>
                simp only [Expression.inputVars] at hv
                exact vars_of_other (constAndOther_other (vars_ite_some h)) hv
              · simpa only [Expression.inputVars, List.mem_append] using hv
  · exact hv

/-- `substitute_equivalent_comparison_ops` introduces no variable -/
theorem varsSub_equivalentComparisonOps : VarsSub substEquivalentComparisonOps := by
  intro e v hv
  unfold substEquivalentComparisonOps at hv
  split at hv
  · next op l r =>
    simp only [Expression.inputVars, List.mem_append]
    split at hv
    · next h =>
      simp only [Expression.inputVars, List.mem_append] at hv
      exact vars_of_sub (constAndSub_shape (vars_ite_some h)) hv
    · split at hv
      · next h =>
        simp only [Expression.inputVars, List.mem_append] at hv
        exact vars_of_pair (pairOf_shape (vars_ite_some h)) hv
      · split at hv
        · next h =>
          simp only [Expression.inputVars, List.mem_append] at hv
          exact vars_of_pair (pairOf_shape (vars_ite_some h)) hv
        · split at hv
          · next h =>
            simp only [Expression.inputVars, List.mem_append] at hv
            exact vars_of_pair (pairOf_shape (vars_ite_some h)) hv
          · split at hv
            · next h =>
              simp only [Expression.inputVars, List.mem_append] at hv
              exact vars_of_pair (pairOf_shape (vars_ite_some h)) hv
            · simpa only [Expression.inputVars, List.mem_append] using hv
  · exact hv

/-- the pair recognised by `substitute_complicated_a_less_than_b`: `a` and `b` are the operands of the
`IntSBorrow` operand -/
theorem lessIdiom_shape {l r a b : Expression}
    (h : (match unpackAMinusBLessThanZero l with
          | some (a, b) =>
            match unpackAIntSBorrowB r with
            | some (a', b') => if a = a' ∧ b = b' then some (a, b) else none
            | none => none
          | none =>
            match unpackAIntSBorrowB l with
            | some (a, b) =>
              match unpackAMinusBLessThanZero r with
              | some (a', b') => if a = a' ∧ b = b' then some (a, b) else none
              | none => none
            | none => none) = some (a, b)) :
    (∃ o, l = .BinOp o a b) ∨ (∃ o, r = .BinOp o a b) := by
  split at h
  · split at h
    · next a₂ b₂ h2 =>
      split at h
      · next he =>
        cases h
        obtain ⟨rfl, rfl⟩ := he
        exact .inr ⟨_, unpackBorrow_shape h2⟩
      · cases h
    · cases h
  · split at h
    · next a₁ b₁ h1 =>
      split at h
      · split at h
        · cases h
          exact .inl ⟨_, unpackBorrow_shape h1⟩
        · cases h
      · cases h
    · cases h

/-- `substitute_complicated_a_less_than_b` introduces no variable -/
theorem varsSub_complicatedALessThanB : VarsSub substComplicatedALessThanB := by
  intro e v hv
  unfold substComplicatedALessThanB at hv
  split at hv
  · next op l r =>
    split at hv
    · simp only at hv
      split at hv
      · next a b hab =>
        have hs := lessIdiom_shape hab
        simp only [Expression.inputVars, List.mem_append]
        split at hv
        · simp only [Expression.inputVars, List.mem_append] at hv
          exact vars_of_pair hs hv
        · simp only [Expression.inputVars, List.mem_append] at hv
          exact vars_of_pair hs hv.symm
      · exact hv
    · exact hv
  · exact hv

/-- `substitute_arithmetics_with_constants` introduces no variable -/
theorem varsSub_arithmeticsWithConstants : VarsSub substArithmeticsWithConstants := by
  intro e v hv
  unfold substArithmeticsWithConstants at hv
  split at hv
  · next b₁ x₁ b₂ x₂ =>
    cases hf : foldConst .IntAdd b₁ x₁ b₂ x₂ with
    | none => simpa only [hf, Option.getD_none] using hv
    | some c =>
      simp only [hf, Option.getD_some, foldConst_vars hf] at hv
      cases hv
  · next b₁ x₁ b₂ x₂ =>
    cases hf : foldConst .IntSub b₁ x₁ b₂ x₂ with
    | none => simpa only [hf, Option.getD_none] using hv
    | some c =>
      simp only [hf, Option.getD_some, foldConst_vars hf] at hv
      cases hv
  · split at hv
    · next c hf =>
      simp only [Expression.inputVars, foldConst_vars hf, List.mem_append] at hv ⊢
      simp_all
    · exact hv
  · split at hv
    · next c hf =>
      simp only [Expression.inputVars, foldConst_vars hf, List.mem_append] at hv ⊢
      simp_all
    · exact hv
  · split at hv
    · next c hf =>
      simp only [Expression.inputVars, foldConst_vars hf, List.mem_append] at hv ⊢
      simp_all
    · exact hv
  · exact hv

/-- `substitute_trivial_binops` introduces no variable -/
theorem varsSub_trivialBinops : VarsSub substTrivialBinops := by
  intro e v hv
  unfold substTrivialBinops at hv
  exact varsSub_lhsEqualRhs _ _ (varsSub_andXorOrWithConstant _ _ (varsSub_equivalentComparisonOps _ _
    (varsSub_complicatedALessThanB _ _ (varsSub_arithmeticsWithConstants _ _ hv))))

/-! ### the non-BinOp arms -/

/-- the `Subpiece` arm introduces no variable -/
theorem substSubpiece_inputVars (lb s : Nat) (arg : Expression) :
    ∀ v ∈ (substSubpiece lb s arg).inputVars, v ∈ arg.inputVars := by
  intro v hv
  unfold substSubpiece at hv
  split at hv
  · exact hv
  · split at hv
    · split at hv
      · simpa only [Expression.inputVars] using hv
      · simpa only [Expression.inputVars] using hv
    · split at hv
      · simp only [Expression.inputVars, List.mem_append]; exact .inl hv
      · split at hv
        · simp only [Expression.inputVars, List.mem_append]; exact .inr hv
        · simpa only [Expression.inputVars] using hv
    · simpa only [Expression.inputVars] using hv
    · simpa only [Expression.inputVars] using hv

/-- the `Cast` arm introduces no variable -/
theorem substCast_inputVars (op : CastOpType) (s : Nat) (arg : Expression) :
    ∀ v ∈ (substCast op s arg).inputVars, v ∈ arg.inputVars := by
  intro v hv
  unfold substCast at hv
  split at hv
  · exact hv
  · split at hv
    · split at hv
      · split at hv
        · simpa only [Expression.inputVars] using hv
        · simpa only [Expression.inputVars] using hv
      · simpa only [Expression.inputVars] using hv
    · simpa only [Expression.inputVars] using hv

/-- the `UnOp` arm introduces no variable -/
theorem substUnOp_inputVars (op : UnOpType) (arg : Expression) :
    ∀ v ∈ (substUnOp op arg).inputVars, v ∈ arg.inputVars := by
  intro v hv
  unfold substUnOp at hv
  split at hv
  · split at hv
    · simpa only [Expression.inputVars] using hv
    · simpa only [Expression.inputVars] using hv
  · split at hv
    · split at hv
      · simp only [Expression.inputVars, List.mem_append] at hv ⊢
        exact hv.symm
      · simpa only [Expression.inputVars] using hv
    · simpa only [Expression.inputVars] using hv
  · simpa only [Expression.inputVars] using hv

/-! ### the whole rewriting -/

/-- **C10-trivial-no-new-variable.** every variable read by `substitute_trivial_operations(e)` is read by `e` -/
theorem substTrivial_inputVars (e : Expression) : ∀ v ∈ (substTrivial e).inputVars, v ∈ e.inputVars := by
  induction e with
  | Var w => intro v hv; simpa only [substTrivial] using hv
  | Const b x => intro v hv; simpa only [substTrivial] using hv
  | Unknown d s => intro v hv; simpa only [substTrivial] using hv
  | Subpiece lb s a ih =>
    intro v hv
    simp only [substTrivial] at hv
    simp only [Expression.inputVars]
    exact ih v (substSubpiece_inputVars lb s _ v hv)
  | Cast op s a ih =>
    intro v hv
    simp only [substTrivial] at hv
    simp only [Expression.inputVars]
    exact ih v (substCast_inputVars op s _ v hv)
  | UnOp op a ih =>
    intro v hv
    simp only [substTrivial] at hv
    simp only [Expression.inputVars]
    exact ih v (substUnOp_inputVars op _ v hv)
  | BinOp op l r ihl ihr =>
    intro v hv
    simp only [substTrivial] at hv
    have h := varsSub_trivialBinops _ v hv
    simp only [Expression.inputVars, List.mem_append] at h ⊢
    exact h.imp (ihl v) (ihr v)

/-- the same, as a `VarsSub` fact -/
theorem varsSub_substTrivial : VarsSub substTrivial := fun e v hv => substTrivial_inputVars e v hv

/-! ### non-vacuity: rules that really drop / keep variables -/

/-- `x ^ x` is rewritten to a constant: the variable disappears (the inclusion can be strict) -/
example : (substTrivial (.BinOp .IntXOr (.Var ⟨"RAX", 8, false⟩) (.Var ⟨"RAX", 8, false⟩))).inputVars = [] := by
  decide

/-- `(RAX + 1) + 2` keeps exactly `RAX` -/
example : (substTrivial (.BinOp .IntAdd (.BinOp .IntAdd (.Var ⟨"RAX", 8, false⟩) (.Const 8 1)) (.Const 8 2))).inputVars
    = [⟨"RAX", 8, false⟩] := by
  decide

end CweModel.C10
