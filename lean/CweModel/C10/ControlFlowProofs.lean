/-
C10 pass 4 — the core facts behind `propagate_control_flow`:
  * `negate_condition`: if a condition is true (non-zero) in a state, its negation evaluates to zero there
    (or does not evaluate at all);
  * following a chain of def-free blocks under conditions known to be true (`find_target_for_retargetable_jump`)
    reaches the computed target in the same machine state without any observable event;
  * `remove_new_orphaned_blocks` keeps the first block of every function, and every block it removes has no
    incoming control-flow edge inside its function after the retargeting.
Core-only.
-/
import CweModel.C10.RunLemmas

namespace CweModel.C10
open CweModel CweModel.IR CweModel.Sem

/-- the condition evaluates to a non-zero value (the branch is taken) -/
def CondTrue (σ : State) (c : Expression) : Prop := ∃ v, eval σ c = some v ∧ v.toNat ≠ 0

/-- **C10-negate-condition.** If `c` is true in `σ`, then `negate_condition(c)` evaluates to zero in `σ`
whenever it evaluates. -/
theorem negateCondition_false {σ : State} {c : Expression} (h : CondTrue σ c) :
    ∀ w, eval σ (negateCondition c) = some w → w.toNat = 0 := by
  obtain ⟨v, hv, hnz⟩ := h
  intro w hw
  unfold negateCondition at hw
  split at hw
  · next arg =>
    -- `c = BoolNegate arg`, the negation is `arg`
    obtain ⟨x, hx, hxv⟩ := eval_unOp_some.mp hv
    rw [hx] at hw; cases hw
    simp only [Ref.unOp] at hxv
    split at hxv
    · next h0 => exact h0
    · split at hxv
      · simp only [valB] at hxv; injection hxv with hxv; subst hxv; exact absurd rfl hnz
      · cases hxv
  · -- the negation is `BoolNegate c`
    obtain ⟨x, hx, hxw⟩ := eval_unOp_some.mp hw
    rw [hv] at hx; cases hx
    simp only [Ref.unOp] at hxw
    split at hxw
    · next h0 => exact absurd h0 hnz
    · split at hxw
      · simp only [valB] at hxw; injection hxw with hxw; subst hxw; rfl
      · cases hxw

/-- all conditions the pass assumes are true in `σ` -/
def CondsHold (σ : State) (conds : List Expression) : Prop := ∀ c ∈ conds, CondTrue σ c

theorem execDefs_nil_of_isEmpty {σ : State} {defs : List (Term Def)} (h : defs.isEmpty = true) :
    execDefs σ defs = some (σ, []) := by
  cases defs with
  | nil => rfl
  | cons d ds => cases h

/-- one retargetable block: it has no defs and its jumps lead to the predicted target without an event
(or the run gets stuck evaluating the block's condition) -/
theorem checkForRetargetableBlock_step {env : Env} {σ : State} {c : Nat} {b : Term Blk} {conds : List Expression}
    {t : Tid} (hc : CondsHold σ conds) (h : checkForRetargetableBlock b conds = some t) :
    execDefs σ b.term.defs = some (σ, []) ∧
      (execJmps env σ c b.term.jmps = ([], .goto t σ c) ∨ ¬ NoStuck (execJmps env σ c b.term.jmps).1) := by
  unfold checkForRetargetableBlock at h
  split at h
  · cases h
  · next hdefs =>
    refine ⟨execDefs_nil_of_isEmpty (by simpa using hdefs), ?_⟩
    split at h
    · next j hjl =>
      split at h
      · next t' hjt =>
        cases h
        rw [hjl]
        simp only [Sem.execJmps, hjt]
        exact .inl trivial
      · cases h
    · next j₁ j₂ hjl =>
      split at h
      · next tIf cnd tElse hj1 hj2 =>
        obtain ⟨tc, htc, hres⟩ := List.exists_of_findSome?_eq_some h
        have htrue := hc tc htc
        rw [hjl]
        simp only [Sem.execJmps, hj1, hj2]
        split at hres
        · next heq =>
          cases hres
          obtain ⟨v, hv, hnz⟩ := htrue
          rw [heq, hv]
          have : (v.toNat != 0) = true := by simpa using hnz
          simp only [this, if_true]
          exact .inl trivial
        · split at hres
          · next heq =>
            cases hres
            rw [heq]
            cases hw : eval σ (negateCondition tc) with
            | none => exact .inr (not_noStuck_stuck _)
            | some w =>
              have hz := negateCondition_false htrue w hw
              have : (w.toNat != 0) = false := by simp [hz]
              simp only [this]
              exact .inl rfl
          · cases hres
      · cases h
    · cases h

/-- **C10-follow-chain.** `find_target_for_retargetable_jump`: under conditions that hold in `σ`, the run
that enters the original target `cur` in `σ` reaches the computed target `followChain …` in the same state,
with the same call counter and without any event, after consuming `k` blocks of fuel — or it gets stuck in
one of the skipped blocks. -/
theorem followChain_run (env : Env) (blocks : List (Term Blk)) (conds : List Expression) {σ : State} (c : Nat)
    (hc : CondsHold σ conds) :
    ∀ fuel visited cur, ∃ k, ∀ n,
      runBlocks env blocks (n + k) cur σ c = runBlocks env blocks n (followChain blocks conds fuel visited cur) σ c ∨
      ¬ NoStuck (runBlocks env blocks (n + k) cur σ c) := by
  intro fuel
  induction fuel with
  | zero => intro visited cur; exact ⟨0, fun n => .inl rfl⟩
  | succ f ih =>
    intro visited cur
    simp only [followChain]
    cases hb : blocks.find? (fun b => b.tid == cur) with
    | none => exact ⟨0, fun n => .inl rfl⟩
    | some b =>
      simp only
      cases hchk : checkForRetargetableBlock b conds with
      | none => exact ⟨0, fun n => .inl rfl⟩
      | some t =>
        simp only
        split
        · exact ⟨0, fun n => .inl rfl⟩
        · obtain ⟨k, hk⟩ := ih (t :: visited) t
          refine ⟨k + 1, fun n => ?_⟩
          obtain ⟨hd, hj⟩ := checkForRetargetableBlock_step (env := env) (c := c) hc hchk
          rcases hj with hj | hj
          · have : runBlocks env blocks (n + (k + 1)) cur σ c = runBlocks env blocks (n + k) t σ c := by
              rw [← Nat.add_assoc, runBlocks_goto hb hd hj]; rfl
            rw [this]; exact hk n
          · right
            intro hns
            apply hj
            cases hjm : execJmps env σ c b.term.jmps with
            | mk evs₂ nxt =>
              rw [← Nat.add_assoc] at hns
              cases nxt with
              | stop => rw [runBlocks_stop hb hd hjm] at hns; exact hns.append_right
              | goto t₂ σ₂ c₂ => rw [runBlocks_goto hb hd hjm] at hns; exact hns.append_left.append_right

/-! ### removal of orphaned blocks -/

/-- **C10-entry-kept.** `remove_new_orphaned_blocks` (repaired code) keeps the first block of every function. -/
theorem removeNewOrphanedBlocks_head (p : Program) (before after : List Tid) :
    (removeNewOrphanedBlocks p before after).subs.map (fun s => s.term.blocks.head?) =
      p.subs.map (fun s => s.term.blocks.head?) := by
  simp only [removeNewOrphanedBlocks, mapProgramSubs, List.map_map]
  apply List.map_congr_left
  intro s _
  simp only [Function.comp]
  split
  · next h => rw [h]
  · next e rest h => rw [h]; rfl

/-- **C10-removed-unreachable.** Every block that `remove_new_orphaned_blocks` removes from a function has
no incoming control-flow edge in the retargeted program: no jump, conditional jump or indirect-jump hint of
the function targets it, no call returns to it, and it is not a called function's first block. -/
theorem removeNewOrphanedBlocks_removed (p' : Program) (before : List Tid) (s : Term Sub) (hs : s ∈ p'.subs)
    (b : Term Blk) (hb : b ∈ s.term.blocks)
    (hgone : ∀ s' ∈ (removeNewOrphanedBlocks p' before (orphanTids p')).subs, s'.tid = s.tid → b ∉ s'.term.blocks) :
    ∃ s₀ ∈ p'.subs, ∃ b₀ ∈ s₀.term.blocks, b₀.tid = b.tid ∧ incomingEdges p' s₀ b₀ = [] := by
  -- the image of `s` does not contain `b`, so `b.tid` is a new orphan
  have himg := hgone (match s.term.blocks with
    | [] => s
    | e :: rest => { s with term := { s.term with blocks := e :: rest.filter (fun b =>
        !((orphanTids p').filter (fun t => !(before.contains t))).contains b.tid) } })
    (by
      simp only [removeNewOrphanedBlocks, mapProgramSubs, List.mem_map]
      exact ⟨s, hs, rfl⟩)
    (by split <;> rfl)
  have horph : b.tid ∈ orphanTids p' := by
    cases hbl : s.term.blocks with
    | nil => rw [hbl] at hb; cases hb
    | cons e rest =>
      rw [hbl] at himg hb
      simp only [List.mem_cons, List.mem_filter, not_or, not_and] at himg
      rcases List.mem_cons.mp hb with rfl | hr
      · exact absurd rfl himg.1
      · have := himg.2 hr
        simp only [Bool.not_eq_true', Bool.not_eq_false] at this
        have hmem := List.contains_iff_mem.mp this
        exact (List.mem_filter.mp hmem).1
  simp only [orphanTids, List.mem_flatMap, List.mem_map, List.mem_filter] at horph
  obtain ⟨s₀, hs₀, b₀, ⟨hb₀, hinc⟩, htid⟩ := horph
  exact ⟨s₀, hs₀, b₀, hb₀, htid, by simpa using hinc⟩

end CweModel.C10
