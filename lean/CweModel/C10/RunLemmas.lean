/-
C10 — facts about runs of the reference interpreter (`Sem.runBlocks`, Base/IRSem.lean) shared by the
pass proofs: well-formedness of states along a run, the declarative form `RunOk` of the run-time
hypothesis H1 (boolean discipline, Spec.lean), and the generic simulation theorem for passes that keep
the machine state and the block structure and only replace expressions / defs by equivalent ones.
Core-only.
-/
import CweModel.C10.TrivialProofs
import CweModel.C10.Spec

namespace CweModel.C10
open CweModel CweModel.IR CweModel.Sem CweModel.C12

/-! ### states -/

theorem getReg_setByte (σ : State) (a b : Nat) (v : Variable) : (σ.setByte a b).getReg v = σ.getReg v := rfl

theorem getReg_writeMem (σ : State) (a n val : Nat) (v : Variable) : (σ.writeMem a n val).getReg v = σ.getReg v := by
  unfold State.writeMem
  generalize List.range n = l
  suffices h : ∀ (s : State), (l.foldl (fun s i =>
      s.setByte (σ.wrapAddr (a + i)) (val / 256 ^ (if σ.littleEndian then i else n - 1 - i) % 256)) s).getReg v
      = s.getReg v from h σ
  induction l with
  | nil => intro s; rfl
  | cons x xs ih => intro s; simp only [List.foldl]; rw [ih]; rfl

theorem StateWF.writeMem {σ : State} (h : StateWF σ) (a n val : Nat) : StateWF (σ.writeMem a n val) := by
  intro v; rw [getReg_writeMem]; exact h v

theorem StateWF.execDef {σ σ' : State} {d : Def} {evs : List Event} (h : StateWF σ)
    (hd : execDef σ d = some (σ', evs)) : StateWF σ' := by
  cases d with
  | Assign v e =>
    simp only [Sem.execDef] at hd
    cases he : eval σ e with
    | none => rw [he] at hd; cases hd
    | some x =>
      rw [he] at hd
      simp only [Option.bind_eq_bind, Option.bind_some] at hd
      split at hd
      · cases hd
      · next hw =>
        cases hd
        exact h.setReg v x (by simpa using hw)
  | Load v a =>
    simp only [Sem.execDef] at hd
    cases he : eval σ a with
    | none => rw [he] at hd; cases hd
    | some x =>
      rw [he] at hd
      simp only [Option.bind_eq_bind, Option.bind_some, Option.some.injEq, Prod.mk.injEq] at hd
      obtain ⟨rfl, _⟩ := hd
      exact h.setReg v _ rfl
  | Store a e =>
    simp only [Sem.execDef] at hd
    cases ha : eval σ a with
    | none => rw [ha] at hd; cases hd
    | some x =>
      cases he : eval σ e with
      | none => rw [ha, he] at hd; cases hd
      | some y =>
        rw [ha, he] at hd
        simp only [Option.bind_eq_bind, Option.bind_some, Option.some.injEq, Prod.mk.injEq] at hd
        obtain ⟨rfl, _⟩ := hd
        exact h.writeMem _ _ _

theorem StateWF.execDefs {defs : List (Term Def)} {σ σ' : State} {evs : List Event} (h : StateWF σ)
    (hd : execDefs σ defs = some (σ', evs)) : StateWF σ' := by
  induction defs generalizing σ evs with
  | nil => simp only [Sem.execDefs, Option.some.injEq, Prod.mk.injEq] at hd; obtain ⟨rfl, _⟩ := hd; exact h
  | cons d ds ih =>
    simp only [Sem.execDefs] at hd
    cases h1 : Sem.execDef σ d.term with
    | none => rw [h1] at hd; cases hd
    | some r1 =>
      obtain ⟨σ₁, e₁⟩ := r1
      rw [h1] at hd
      simp only [Option.bind_eq_bind, Option.bind_some] at hd
      cases h2 : Sem.execDefs σ₁ ds with
      | none => rw [h2] at hd; cases hd
      | some r2 =>
        obtain ⟨σ₂, e₂⟩ := r2
        rw [h2] at hd
        simp only [Option.bind_some, Option.some.injEq, Prod.mk.injEq] at hd
        obtain ⟨rfl, _⟩ := hd
        exact ih (h.execDef h1) h2

theorem StateWF.havoc {σ : State} (h : StateWF σ) (phys : List Variable) (sp : Variable) (site : String) (nth : Nat) :
    StateWF (havoc σ phys sp site nth) := by
  unfold Sem.havoc
  generalize hseed : σ.seed = seed
  clear hseed
  induction phys generalizing σ with
  | nil => exact h
  | cons v vs ih =>
    simp only [List.foldl]
    apply ih
    split
    · exact h
    · exact h.setReg v _ rfl

/-- the state in which execution continues after the jumps of a block is well-formed -/
theorem StateWF.execJmps {env : Env} {jmps : List (Term Jmp)} {σ σ₂ : State} {c c₂ : Nat} {evs : List Event} {t : Tid}
    (h : StateWF σ) (hj : execJmps env σ c jmps = (evs, .goto t σ₂ c₂)) : StateWF σ₂ := by
  induction jmps with
  | nil => simp only [Sem.execJmps] at hj; cases hj
  | cons j js ih =>
    simp only [Sem.execJmps] at hj
    split at hj
    · cases hj; exact h
    · split at hj
      · cases hj
      · split at hj
        · cases hj; exact h
        · exact ih hj
    · split at hj <;> cases hj
    · split at hj
      · cases hj
      · cases hj; exact h.havoc _ _ _ _
    · split at hj
      · cases hj
      · split at hj
        · cases hj
        · cases hj; exact h.havoc _ _ _ _
    · split at hj
      · cases hj
      · cases hj; exact h.havoc _ _ _ _
    · split at hj <;> cases hj

/-! ### traces without stuck events -/

def NoStuck (l : List Event) : Prop := ∀ e ∈ l, isStuck e = false

theorem NoStuck.append_left {a b : List Event} (h : NoStuck (a ++ b)) : NoStuck a :=
  fun e he => h e (List.mem_append_left _ he)
theorem NoStuck.append_right {a b : List Event} (h : NoStuck (a ++ b)) : NoStuck b :=
  fun e he => h e (List.mem_append_right _ he)
theorem not_noStuck_stuck (r : String) : ¬ NoStuck [Event.stuck r] := by
  intro h; have := h _ List.mem_cons_self; simp [isStuck] at this

/-! ### unfolding one block of a run -/

theorem runBlocks_none {env : Env} {blocks : List (Term Blk)} {n : Nat} {t : Tid} {σ : State} {c : Nat}
    (h : blocks.find? (fun b => b.tid == t) = none) :
    runBlocks env blocks (n + 1) t σ c = [.stuck s!"no block {t.id}"] := by
  simp only [runBlocks, h]

theorem runBlocks_defs_none {env : Env} {blocks : List (Term Blk)} {n : Nat} {t : Tid} {σ : State} {c : Nat}
    {b : Term Blk} (h : blocks.find? (fun b => b.tid == t) = some b) (hd : execDefs σ b.term.defs = none) :
    runBlocks env blocks (n + 1) t σ c = [.stuck s!"def in {t.id}"] := by
  simp only [runBlocks, h, hd]

theorem runBlocks_stop {env : Env} {blocks : List (Term Blk)} {n : Nat} {t : Tid} {σ σ₁ : State} {c : Nat}
    {b : Term Blk} {evs evs₂ : List Event} (h : blocks.find? (fun b => b.tid == t) = some b)
    (hd : execDefs σ b.term.defs = some (σ₁, evs)) (hj : execJmps env σ₁ c b.term.jmps = (evs₂, .stop)) :
    runBlocks env blocks (n + 1) t σ c = evs ++ evs₂ := by
  simp only [runBlocks, h, hd, hj]

theorem runBlocks_goto {env : Env} {blocks : List (Term Blk)} {n : Nat} {t t₂ : Tid} {σ σ₁ σ₂ : State} {c c₂ : Nat}
    {b : Term Blk} {evs evs₂ : List Event} (h : blocks.find? (fun b => b.tid == t) = some b)
    (hd : execDefs σ b.term.defs = some (σ₁, evs)) (hj : execJmps env σ₁ c b.term.jmps = (evs₂, .goto t₂ σ₂ c₂)) :
    runBlocks env blocks (n + 1) t σ c = evs ++ evs₂ ++ runBlocks env blocks n t₂ σ₂ c₂ := by
  simp only [runBlocks, h, hd, hj]

/-! ### the generic same-state simulation -/

/-- Two block lists with the same block tids. `I n t σ c` is an invariant that holds when the run enters
block `t` in state `σ` with `n` blocks of fuel left. If, whenever the invariant holds at the entry of a block and
the defs of the original block execute, the defs of the new block execute to the same state with the same
events, the jumps behave the same (unless the original gets stuck there) and the invariant holds at the
next block, then both runs produce the same trace (unless the original run gets stuck). -/
theorem runBlocks_sameState (env : Env) (blocks blocks' : List (Term Blk)) (I : Nat → Tid → State → Nat → Prop)
    (hfind : ∀ t, (blocks'.find? (fun b => b.tid == t)).isSome = (blocks.find? (fun b => b.tid == t)).isSome)
    (hblk : ∀ n t σ c b b', I (n + 1) t σ c → blocks.find? (fun b => b.tid == t) = some b →
        blocks'.find? (fun b => b.tid == t) = some b' →
        ∀ σ₁ evs, execDefs σ b.term.defs = some (σ₁, evs) →
          execDefs σ b'.term.defs = some (σ₁, evs) ∧
          (NoStuck (execJmps env σ₁ c b.term.jmps).1 →
            execJmps env σ₁ c b'.term.jmps = execJmps env σ₁ c b.term.jmps ∧
            ∀ evs₂ t₂ σ₂ c₂, execJmps env σ₁ c b.term.jmps = (evs₂, .goto t₂ σ₂ c₂) → I n t₂ σ₂ c₂)) :
    ∀ fuel t σ c, I fuel t σ c → NoStuck (runBlocks env blocks fuel t σ c) →
      runBlocks env blocks' fuel t σ c = runBlocks env blocks fuel t σ c := by
  intro fuel
  induction fuel with
  | zero => intro t σ c _ _; rfl
  | succ n ih =>
    intro t σ c hI hns
    cases hb : blocks.find? (fun b => b.tid == t) with
    | none =>
      have := hfind t
      rw [hb] at this
      cases hb' : blocks'.find? (fun b => b.tid == t) with
      | none => rw [runBlocks_none hb, runBlocks_none hb']
      | some b' => rw [hb'] at this; cases this
    | some b =>
      have := hfind t
      rw [hb] at this
      cases hb' : blocks'.find? (fun b => b.tid == t) with
      | none => rw [hb'] at this; cases this
      | some b' =>
        cases hd : execDefs σ b.term.defs with
        | none => rw [runBlocks_defs_none hb hd] at hns; exact absurd hns (not_noStuck_stuck _)
        | some r =>
          obtain ⟨σ₁, evs⟩ := r
          obtain ⟨hd', hj⟩ := hblk n t σ c b b' hI hb hb' σ₁ evs hd
          cases hjm : execJmps env σ₁ c b.term.jmps with
          | mk evs₂ nxt =>
            cases nxt with
            | stop =>
              rw [runBlocks_stop hb hd hjm] at hns ⊢
              have hns₂ : NoStuck (execJmps env σ₁ c b.term.jmps).1 := by rw [hjm]; exact hns.append_right
              obtain ⟨hj1, _⟩ := hj hns₂
              rw [runBlocks_stop hb' hd' (hj1.trans hjm)]
            | goto t₂ σ₂ c₂ =>
              rw [runBlocks_goto hb hd hjm] at hns ⊢
              have hns₂ : NoStuck (execJmps env σ₁ c b.term.jmps).1 := by
                rw [hjm]; exact hns.append_left.append_right
              obtain ⟨hj1, hj2⟩ := hj hns₂
              rw [runBlocks_goto hb' hd' (hj1.trans hjm),
                ih t₂ σ₂ c₂ (hj2 evs₂ t₂ σ₂ c₂ hjm) hns.append_right]

/-! ### replacing expressions by equivalent ones -/

def defExprs : Def → List Expression
  | .Assign _ e => [e]
  | .Load _ a => [a]
  | .Store a e => [a, e]

/-- `f e` evaluates to whatever `e` evaluates to in `σ` -/
def Refines (σ : State) (f : Expression → Expression) (e : Expression) : Prop :=
  ∀ v, eval σ e = some v → eval σ (f e) = some v

theorem execDef_map {σ : State} {f : Expression → Expression} {d : Def} {r : State × List Event}
    (hr : execDef σ d = some r) (hf : ∀ e ∈ defExprs d, Refines σ f e) :
    execDef σ (mapDefExprs f d) = some r := by
  cases d with
  | Assign v e =>
    simp only [Sem.execDef, mapDefExprs] at hr ⊢
    cases he : eval σ e with
    | none => rw [he] at hr; cases hr
    | some x => rw [hf e (by simp [defExprs]) x he]; rw [he] at hr; exact hr
  | Load v a =>
    simp only [Sem.execDef, mapDefExprs] at hr ⊢
    cases he : eval σ a with
    | none => rw [he] at hr; cases hr
    | some x => rw [hf a (by simp [defExprs]) x he]; rw [he] at hr; exact hr
  | Store a e =>
    simp only [Sem.execDef, mapDefExprs] at hr ⊢
    cases ha : eval σ a with
    | none => rw [ha] at hr; cases hr
    | some x =>
      cases he : eval σ e with
      | none => rw [ha, he] at hr; cases hr
      | some y =>
        rw [hf a (by simp [defExprs]) x ha, hf e (by simp [defExprs]) y he]; rw [ha, he] at hr; exact hr

/-- the expressions of the defs are replaced by refinements at the states in which they are evaluated -/
def DefsRefine (f : Expression → Expression) : List (Term Def) → State → Prop
  | [], _ => True
  | d :: ds, σ => (∀ e ∈ defExprs d.term, Refines σ f e) ∧
      ∀ σ' evs, execDef σ d.term = some (σ', evs) → DefsRefine f ds σ'

theorem execDefs_map {f : Expression → Expression} {defs : List (Term Def)} {σ : State} {r : State × List Event}
    (hr : execDefs σ defs = some r) (hf : DefsRefine f defs σ) :
    execDefs σ (defs.map fun d => { d with term := mapDefExprs f d.term }) = some r := by
  induction defs generalizing σ r with
  | nil => exact hr
  | cons d ds ih =>
    simp only [Sem.execDefs, List.map] at hr ⊢
    cases h1 : Sem.execDef σ d.term with
    | none => rw [h1] at hr; cases hr
    | some r1 =>
      obtain ⟨σ₁, e₁⟩ := r1
      rw [h1] at hr
      rw [execDef_map h1 hf.1]
      simp only [Option.bind_eq_bind, Option.bind_some] at hr ⊢
      cases h2 : Sem.execDefs σ₁ ds with
      | none => rw [h2] at hr; cases hr
      | some r2 =>
        rw [h2] at hr
        rw [ih h2 (hf.2 σ₁ e₁ h1)]
        exact hr

theorem execJmps_map {env : Env} {f : Expression → Expression} {σ : State} {c : Nat} {jmps : List (Term Jmp)}
    (hf : ∀ j ∈ jmps, ∀ e ∈ jmpExprs j.term, Refines σ f e)
    (hns : NoStuck (execJmps env σ c jmps).1) :
    execJmps env σ c (jmps.map fun j => { j with term := mapJmpExprs f j.term }) = execJmps env σ c jmps := by
  induction jmps with
  | nil => rfl
  | cons j js ih =>
    have hfj := hf j List.mem_cons_self
    have hfjs : ∀ j' ∈ js, ∀ e ∈ jmpExprs j'.term, Refines σ f e := fun j' h => hf j' (List.mem_cons_of_mem _ h)
    obtain ⟨jt, jterm⟩ := j
    cases jterm with
    | Branch t => rfl
    | Call t r => rfl
    | CallOther d r => rfl
    | CBranch t cnd =>
      simp only [List.map, Sem.execJmps, mapJmpExprs] at hns ⊢
      cases he : eval σ cnd with
      | none => rw [he] at hns; exact absurd hns (not_noStuck_stuck _)
      | some v =>
        rw [hfj cnd (by simp [jmpExprs]) v he]
        rw [he] at hns
        simp only at hns ⊢
        split
        · rfl
        · next hz => rw [if_neg hz] at hns; exact ih hfjs hns
    | BranchInd e =>
      simp only [List.map, Sem.execJmps, mapJmpExprs] at hns ⊢
      cases he : eval σ e with
      | none => rw [he] at hns; exact absurd hns (not_noStuck_stuck _)
      | some v => rw [hfj e (by simp [jmpExprs]) v he]
    | CallInd e r =>
      simp only [List.map, Sem.execJmps, mapJmpExprs] at hns ⊢
      cases he : eval σ e with
      | none => rw [he] at hns; exact absurd hns (not_noStuck_stuck _)
      | some v => rw [hfj e (by simp [jmpExprs]) v he]
    | Return e =>
      simp only [List.map, Sem.execJmps, mapJmpExprs] at hns ⊢
      cases he : eval σ e with
      | none => rw [he] at hns; exact absurd hns (not_noStuck_stuck _)
      | some v => rw [hfj e (by simp [jmpExprs]) v he]

/-! ### the run-time hypothesis H1 (boolean discipline) in declarative form -/

/-- every expression of the defs satisfies the boolean discipline in the state in which it is evaluated -/
def DefsBoolOk : List (Term Def) → State → Prop
  | [], _ => True
  | d :: ds, σ => (∀ e ∈ defExprs d.term, boolOk σ e = true) ∧
      ∀ σ' evs, execDef σ d.term = some (σ', evs) → DefsBoolOk ds σ'

/-- H1 along a run of at most `n` blocks starting at block `t` in state `σ` -/
def RunOk (env : Env) (blocks : List (Term Blk)) : Nat → Tid → State → Nat → Prop
  | 0, _, _, _ => True
  | n + 1, t, σ, c => ∀ b, blocks.find? (fun b => b.tid == t) = some b →
      DefsBoolOk b.term.defs σ ∧ ∀ σ₁ evs, execDefs σ b.term.defs = some (σ₁, evs) →
        (∀ j ∈ b.term.jmps, ∀ e ∈ jmpExprs j.term, boolOk σ₁ e = true) ∧
        ∀ evs₂ t₂ σ₂ c₂, execJmps env σ₁ c b.term.jmps = (evs₂, .goto t₂ σ₂ c₂) → RunOk env blocks n t₂ σ₂ c₂

theorem wellSized_of_defExprs {ptr : Nat} {d : Def} (h : WellSizedDef ptr d) : ∀ e ∈ defExprs d, WellSized e := by
  cases d with
  | Assign v e => intro x hx; simp only [defExprs, List.mem_singleton] at hx; subst hx; exact h.2.1
  | Load v a => intro x hx; simp only [defExprs, List.mem_singleton] at hx; subst hx; exact h.2.1
  | Store a e =>
    intro x hx
    simp only [defExprs, List.mem_cons, List.not_mem_nil, or_false] at hx
    rcases hx with rfl | rfl
    · exact h.1.1
    · exact h.2

theorem wellSized_of_jmpExprs {ptr : Nat} {j : Jmp} (h : WellSizedJmp ptr j) : ∀ e ∈ jmpExprs j, WellSized e := by
  cases j <;> intro x hx <;> simp only [jmpExprs, List.mem_singleton, List.not_mem_nil] at hx <;>
    first | (subst hx; exact h.1) | cases hx

theorem refines_substTrivial {σ : State} (hσ : StateWF σ) {e : Expression} (hw : WellSized e)
    (hb : boolOk σ e = true) : Refines σ substTrivial e :=
  fun _ hv => (substTrivial_eval hσ hw hb hv).1

theorem defsRefine_substTrivial {ptr : Nat} {defs : List (Term Def)} {σ : State} (hσ : StateWF σ)
    (hw : ∀ d ∈ defs, WellSizedDef ptr d.term) (hb : DefsBoolOk defs σ) : DefsRefine substTrivial defs σ := by
  induction defs generalizing σ with
  | nil => trivial
  | cons d ds ih =>
    have hwd := hw d List.mem_cons_self
    refine ⟨fun e he => refines_substTrivial hσ (wellSized_of_defExprs hwd e he) (hb.1 e he), ?_⟩
    intro σ' evs hd
    exact ih (hσ.execDef hd) (fun x hx => hw x (List.mem_cons_of_mem _ hx)) (hb.2 σ' evs hd)

theorem find?_mapBlk (f : Term Blk → Term Blk) (hf : ∀ b, (f b).tid = b.tid) (blocks : List (Term Blk)) (t : Tid) :
    (blocks.map f).find? (fun b => b.tid == t) = (blocks.find? (fun b => b.tid == t)).map f := by
  induction blocks with
  | nil => rfl
  | cons b bs ih =>
    simp only [List.map, List.find?, hf]
    cases b.tid == t
    · exact ih
    · rfl

/-- **C10-trivial-run.** Replacing every expression of a function by its `substitute_trivial_operations`
form does not change the observable trace: for every well-sized function, every well-formed initial state
and every fuel, if the run of the original function keeps the boolean discipline (H1) and does not get
stuck, both runs produce the same events (memory accesses, calls, jumps, returns, dead ends with their
state snapshots). -/
theorem substTrivial_runBlocks (env : Env) {ptr : Nat} (blocks : List (Term Blk))
    (hws : ∀ b ∈ blocks, WellSizedBlk ptr b.term) (fuel : Nat) (t : Tid) (σ : State) (c : Nat)
    (hσ : StateWF σ) (hok : RunOk env blocks fuel t σ c)
    (hns : NoStuck (runBlocks env blocks fuel t σ c)) :
    runBlocks env (blocks.map (mapBlkExprs substTrivial)) fuel t σ c = runBlocks env blocks fuel t σ c := by
  refine runBlocks_sameState env blocks _ (fun n t σ c => StateWF σ ∧ RunOk env blocks n t σ c) ?_ ?_
    fuel t σ c ⟨hσ, hok⟩ hns
  · intro t
    rw [find?_mapBlk (mapBlkExprs substTrivial) (fun _ => rfl)]
    cases blocks.find? (fun b => b.tid == t) <;> rfl
  · intro n t σ c b b' ⟨hσ, hok⟩ hb hb' σ₁ evs hd
    rw [find?_mapBlk (mapBlkExprs substTrivial) (fun _ => rfl), hb] at hb'
    simp only [Option.map, Option.some.injEq] at hb'
    subst hb'
    have hwb := hws b (List.mem_of_find?_eq_some hb)
    obtain ⟨hdefs, hrest⟩ := hok b hb
    obtain ⟨hj, hnext⟩ := hrest σ₁ evs hd
    have hσ₁ := hσ.execDefs hd
    refine ⟨execDefs_map hd (defsRefine_substTrivial hσ hwb.1 hdefs), fun hns₂ => ⟨?_, ?_⟩⟩
    · exact execJmps_map (fun j hjm e he =>
        refines_substTrivial hσ₁ (wellSized_of_jmpExprs (hwb.2 j hjm) e he) (hj j hjm e he)) hns₂
    · intro evs₂ t₂ σ₂ c₂ hjm
      exact ⟨hσ₁.execJmps hjm, hnext evs₂ t₂ σ₂ c₂ hjm⟩

/-- the same for `Sem.runSub` (a function started at its first block) -/
theorem substTrivial_runSub (env : Env) {ptr : Nat} (s : Term Sub) (hws : WellSizedSub ptr s.term)
    (σ : State) (fuel : Nat) (hσ : StateWF σ)
    (hok : ∀ b bs, s.term.blocks = b :: bs → RunOk env s.term.blocks fuel b.tid σ 0)
    (hns : NoStuck (runSub env s.term σ fuel)) :
    runSub env (mapSubBlocks (mapBlkExprs substTrivial) s).term σ fuel = runSub env s.term σ fuel := by
  unfold runSub at hns ⊢
  simp only [mapSubBlocks]
  cases hbl : s.term.blocks with
  | nil => rfl
  | cons b bs =>
    rw [hbl] at hns
    simp only [List.map] at hns ⊢
    have := substTrivial_runBlocks env (ptr := ptr) (b :: bs) (by rw [← hbl]; exact hws) fuel b.tid σ 0 hσ
      (by rw [← hbl]; exact hok b bs hbl) hns
    simpa [List.map, mapBlkExprs] using this

end CweModel.C10
