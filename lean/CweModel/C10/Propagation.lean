/-
C10 pass 2 — model of expression propagation (analysis/expression_propagation/mod.rs):
`merge_def_assignments_to_same_var`, the forward fixpoint (`update_def`, `merge` = intersection, call and
return edges start from the empty table) and the block-local insertion `propagate_input_expressions`.

Model of the REPAIRED code (D3): `update_def` for `Def::Load` also drops the table entry of the loaded
variable.

The tables are `HashMap<Variable, Expression>` in Rust; the block-local insertion iterates such a map, so
the textual result may depend on the iteration order when an entry mentions another key (possible only
through the `recursion_depth() < 10` limit). The model iterates in insertion order. The fixpoint is over
the interprocedural CFG, but no transfer function looks across a function boundary (call-stub and return
edges yield the empty table, call edges yield nothing), so the table at the start of a block is determined
inside its function.
Core-only.
-/
import CweModel.C10.StackAlign

namespace CweModel.C10
open CweModel CweModel.IR

/-- `Expression::recursion_depth` -/
def recursionDepth : Expression → Nat
  | .Var _ | .Const _ _ | .Unknown _ _ => 0
  | .Subpiece _ _ a | .Cast _ _ a | .UnOp _ a => recursionDepth a + 1
  | .BinOp _ l r => max (recursionDepth l) (recursionDepth r) + 1

/-- a table of insertable expressions (most recently inserted first; keys unique) -/
abbrev Table := List (Variable × Expression)

def Table.get (t : Table) (v : Variable) : Option Expression :=
  match t.find? (·.1 = v) with
  | some p => some p.2
  | none => none

def Table.insert (t : Table) (v : Variable) (e : Expression) : Table :=
  (v, e) :: t.filter (·.1 ≠ v)

def mentions (e : Expression) (v : Variable) : Bool := e.inputVars.any (· = v)

/-- `retain(|input_var, input_expr| input_var != var && !input_expr.input_vars().any(|x| x == var))` -/
def Table.kill (t : Table) (v : Variable) : Table :=
  t.filter fun p => p.1 ≠ v && !mentions p.2 v

/-- `retain(|_input_var, input_expr| !input_expr.input_vars().any(|x| x == var))` -/
def Table.killMentions (t : Table) (v : Variable) : Table :=
  t.filter fun p => !mentions p.2 v

/-- the loop "extend the considered expression with already known expressions" + trivial substitution -/
def extendExpression (t : Table) (e : Expression) : Expression :=
  let ext := e.inputVars.foldl (fun acc v =>
    match t.get v with
    | some x => if recursionDepth x < 10 then acc.substVar v x else acc
    | none => acc) e
  substTrivial ext

/-- `update_def` of the fixpoint context (repaired Load arm) -/
def updateDef (t : Table) : Def → Table
  | .Assign v e =>
    let ext := extendExpression t e
    (t.insert v ext).killMentions v
  | .Load v _ => t.kill v
  | .Store _ _ => t

/-- the Load arm before the repair (D3): the entry of the loaded variable itself survives -/
def updateDefD3 (t : Table) : Def → Table
  | .Load v _ => t.killMentions v
  | d => updateDef t d

/-- `merge`: intersection of the variable-expression pairs -/
def Table.merge (a b : Table) : Table := a.filter fun p => b.get p.1 = some p.2

/-- substitute every table entry into an expression (`for (var, expr) in table.iter() { e.substitute(var, expr) }`) -/
def substAll (t : Table) (e : Expression) : Expression :=
  t.foldl (fun acc p => acc.substVar p.1 p.2) e

/-- the `for def in blk.term.defs.iter_mut()` loop of `propagate_input_expressions` -/
def propagateDefs : Table → List (Term Def) → List (Term Def) × Table
  | t, [] => ([], t)
  | t, d :: ds =>
    match d.term with
    | .Assign v e =>
      let ext := extendExpression t e
      let t₁ := t.kill v
      let t₂ := if mentions ext v then t₁ else t₁.insert v ext
      let (ds', t') := propagateDefs t₂ ds
      ({ d with term := .Assign v ext } :: ds', t')
    | .Load v a =>
      let a' := substAll t a
      let (ds', t') := propagateDefs (t.kill v) ds
      ({ d with term := .Load v a' } :: ds', t')
    | .Store a e =>
      let (ds', t') := propagateDefs t ds
      ({ d with term := .Store (substAll t a) (substAll t e) } :: ds', t')

/-- `propagate_input_expressions` -/
def propagateBlock (t : Table) (b : Term Blk) : Term Blk :=
  let (defs, t') := propagateDefs t b.term.defs
  { b with term := { b.term with
      defs := defs,
      jmps := b.term.jmps.map fun j => { j with term := mapJmpExprs (substAll t') j.term } } }

/-- `merge_def_assignments_to_same_var`: state = the pending last assignment -/
def mergeDefsLoop : Option (Term Def) → List (Term Def) → List (Term Def)
  | last, [] => last.toList
  | last, d :: ds =>
    match d.term with
    | .Assign cv _ =>
      match last with
      | some ld =>
        match ld.term with
        | .Assign lv le =>
          if cv = lv then
            mergeDefsLoop (some { d with term := mapDefExprs (fun x => x.substVar lv le) d.term }) ds
          else ld :: mergeDefsLoop (some d) ds
        | _ => ld :: mergeDefsLoop (some d) ds     -- unreachable (`panic!()` in the real code)
      | none => mergeDefsLoop (some d) ds
    | _ => last.toList ++ d :: mergeDefsLoop none ds

def mergeDefAssignmentsToSameVar (b : Term Blk) : Term Blk :=
  { b with term := { b.term with defs := mergeDefsLoop none b.term.defs } }

/-! ### the fixpoint: table at the start of every block of one function -/

/-- table after the defs of a block -/
def tableAfterDefs (t : Table) (defs : List (Term Def)) : Table :=
  defs.foldl (fun acc d => updateDef acc d.term) t

/-- what block `a` sends to the start of block `t` (one entry per CFG edge) -/
def tablesSent (p : Program) (a : Term Blk) (out : Table) (t : Tid) : List Table :=
  (edgesFromBlock p a t).map fun e => match e with | .jump _ _ => out | .other => []

abbrev TableMap := List (Tid × Option Table)

def TableMap.get (m : TableMap) (t : Tid) : Option Table :=
  match m.find? (·.1 == t) with
  | some p => p.2
  | none => none

def mergeOpt (cur : Option Table) (new : Table) : Option Table :=
  match cur with
  | none => some new
  | some c => some (c.merge new)

/-- one round over all blocks (Jacobi): start tables recomputed from the predecessors' current tables -/
def tableRound (p : Program) (s : Term Sub) (m : TableMap) : TableMap :=
  s.term.blocks.map fun b =>
    let incoming : List Table := s.term.blocks.flatMap fun a =>
      match m.get a.tid with
      | some ta => tablesSent p a (tableAfterDefs ta a.term.defs) b.tid
      | none => []
    (b.tid, incoming.foldl mergeOpt (m.get b.tid))

def tableMapSize (m : TableMap) : Nat :=
  (m.map fun p => match p.2 with | none => 0 | some t => 1 + t.length).sum

def tableMapDefined (m : TableMap) : Nat := (m.filter (·.2.isSome)).length

def tableFix (p : Program) (s : Term Sub) : Nat → TableMap → TableMap
  | 0, m => m
  | fuel + 1, m =>
    let m' := tableRound p s m
    if m' == m then m else tableFix p s fuel m'

/-- initial values: the function's first block and blocks without incoming CFG edge start empty -/
def initialTables (p : Program) (s : Term Sub) : TableMap :=
  s.term.blocks.mapIdx fun i b =>
    (b.tid, if i = 0 || (incomingEdges p s b).isEmpty then some [] else none)

def computeTables (p : Program) (s : Term Sub) : TableMap :=
  tableFix p s (200 * (s.term.blocks.length + 1)) (initialTables p s)

/-- `propagate_input_expression` on one function -/
def propagateSub (p : Program) (s : Term Sub) : Term Sub :=
  let m := computeTables p s
  mapSubBlocks (fun b => propagateBlock ((m.get b.tid).getD []) b) s

/-- **`propagate_input_expression`** -/
def propagateProgram (p : Program) : Program :=
  let p₁ := mapProgramSubs (mapSubBlocks mergeDefAssignmentsToSameVar) p
  mapProgramSubs (propagateSub p₁) p₁

end CweModel.C10
