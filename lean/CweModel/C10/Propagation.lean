/-
C10 pass 2 — model of expression propagation (analysis/expression_propagation/mod.rs):
`merge_def_assignments_to_same_var`, the forward fixpoint (`update_def`, `merge` = intersection, call and
return edges start from the empty table) and the block-local insertion `propagate_input_expressions`.

Model of the REPAIRED code (D3): `update_def` for `Def::Load` also drops the table entry of the loaded
variable.

The tables are `HashMap<Variable, Expression>` in Rust; the block-local insertion iterates such a map, so
the textual result may depend on the iteration order when an entry mentions another key (possible only
through the `recursion_depth() < 10` limit). The model iterates in insertion order. The fixpoint is over
the interprocedural CFG, but no transfer function looks across a function boundary (call-stub and return
edges yield the empty table, call edges yield nothing), so the table at the start of a block is determined
inside its function.
Core-only.
-/
import CweModel.C10.StackAlign

namespace CweModel.C10
open CweModel CweModel.IR

/-- `Expression::recursion_depth` -/
def recursionDepth : Expression → Nat
  | .Var _ | .Const _ _ | .Unknown _ _ => 0
  | .Subpiece _ _ a | .Cast _ _ a | .UnOp _ a => recursionDepth a + 1
  | .BinOp _ l r => max (recursionDepth l) (recursionDepth r) + 1

/-- a table of insertable expressions (most recently inserted first; keys unique) -/
abbrev Table := List (Variable × Expression)

def Table.get (t : Table) (v : Variable) : Option Expression :=
  match t.find? (·.1 = v) with
  | some p => some p.2
  | none => none

def Table.insert (t : Table) (v : Variable) (e : Expression) : Table :=
  (v, e) :: t.filter (·.1 ≠ v)

def mentions (e : Expression) (v : Variable) : Bool := e.inputVars.any (· = v)

/-- `retain(|input_var, input_expr| input_var != var && !input_expr.input_vars().any(|x| x == var))` -/
def Table.kill (t : Table) (v : Variable) : Table :=
  t.filter fun p => p.1 ≠ v && !mentions p.2 v

/-- `retain(|_input_var, input_expr| !input_expr.input_vars().any(|x| x == var))` -/
def Table.killMentions (t : Table) (v : Variable) : Table :=
  t.filter fun p => !mentions p.2 v

/-- the loop "extend the considered expression with already known expressions" + trivial substitution -/
def extendExpression (t : Table) (e : Expression) : Expression :=
  let ext := e.inputVars.foldl (fun acc v =>
    match t.get v with
    | some x => if recursionDepth x < 10 then acc.substVar v x else acc
    | none => acc) e
  substTrivial ext

/-- `update_def` of the fixpoint context (repaired Load arm) -/
def updateDef (t : Table) : Def → Table
  | .Assign v e =>
    let ext := extendExpression t e
    (t.insert v ext).killMentions v
  | .Load v _ => t.kill v
  | .Store _ _ => t

/-- the Load arm before the repair (D3): the entry of the loaded variable itself survives -/
def updateDefD3 (t : Table) : Def → Table
  | .Load v _ => t.killMentions v
  | d => updateDef t d

/-- `merge`: intersection of the variable-expression pairs -/
def Table.merge (a b : Table) : Table := a.filter fun p => b.get p.1 = some p.2

/-- substitute every table entry into an expression (`for (var, expr) in table.iter() { e.substitute(var, expr) }`) -/
def substAll (t : Table) (e : Expression) : Expression :=
  t.foldl (fun acc p => acc.substVar p.1 p.2) e

/-- the `for def in blk.term.defs.iter_mut()` loop of `propagate_input_expressions` -/
def propagateDefs : Table → List (Term Def) → List (Term Def) × Table
  | t, [] => ([], t)
  | t, d :: ds =>
    match d.term with
    | .Assign v e =>
      let ext := extendExpression t e
      let t₁ := t.kill v
      let t₂ := if mentions ext v then t₁ else t₁.insert v ext
      let (ds', t') := propagateDefs t₂ ds
      ({ d with term := .Assign v ext } :: ds', t')
    | .Load v a =>
      let a' := substAll t a
      let (ds', t') := propagateDefs (t.kill v) ds
      ({ d with term := .Load v a' } :: ds', t')
    | .Store a e =>
      let (ds', t') := propagateDefs t ds
      ({ d with term := .Store (substAll t a) (substAll t e) } :: ds', t')

/-- `propagate_input_expressions` -/
def propagateBlock (t : Table) (b : Term Blk) : Term Blk :=
  let (defs, t') := propagateDefs t b.term.defs
  { b with term := { b.term with
      defs := defs,
      jmps := b.term.jmps.map fun j => { j with term := mapJmpExprs (substAll t') j.term } } }

/-- `merge_def_assignments_to_same_var`: state = the pending last assignment -/
def mergeDefsLoop : Option (Term Def) → List (Term Def) → List (Term Def)
  | last, [] => last.toList
  | last, d :: ds =>
    match d.term with
    | .Assign cv _ =>
      match last with
      | some ld =>
        match ld.term with
        | .Assign lv le =>
          if cv = lv then
            mergeDefsLoop (some { d with term := mapDefExprs (fun x => x.substVar lv le) d.term }) ds
          else ld :: mergeDefsLoop (some d) ds
        | _ => ld :: mergeDefsLoop (some d) ds     -- unreachable (`panic!()` in the real code)
      | none => mergeDefsLoop (some d) ds
    | _ => last.toList ++ d :: mergeDefsLoop none ds

def mergeDefAssignmentsToSameVar (b : Term Blk) : Term Blk :=
  { b with term := { b.term with defs := mergeDefsLoop none b.term.defs } }

/-! ### the fixpoint: table at the start of every block of one function -/

/-- table after the defs of a block -/
def tableAfterDefs (t : Table) (defs : List (Term Def)) : Table :=
  defs.foldl (fun acc d => updateDef acc d.term) t

abbrev TableMap := List (Tid × Option Table)

def TableMap.get (m : TableMap) (t : Tid) : Option Table :=
  match m.find? (·.1 == t) with
  | some p => p.2
  | none => none

/-- what block `a` sends to the start of the block `t` of the same function (one table per CFG edge),
given the current tables `m` at the block starts of the whole program:
  * jump edges carry the table after the defs of `a`;
  * an extern-call stub (call to an extern symbol, indirect call) yields the empty table;
  * for a call to an internal function there is one call-return node per returning block `rb` of the
    callee; it has a value as soon as the call site OR `rb` has one, and `update_return` then yields the
    empty table. -/
def tablesSent (p : Program) (m : TableMap) (a : Term Blk) (t : Tid) : List Table :=
  let outA : Option Table := (m.get a.tid).map fun ta => tableAfterDefs ta a.term.defs
  (jmpsWithUntaken a).flatMap fun (j, _) =>
    match j with
    | .Branch tgt => if tgt == t then outA.toList else []
    | .CBranch tgt _ => if tgt == t then outA.toList else []
    | .BranchInd _ => (a.term.indirectJmpTargets.filter (· == t)).flatMap fun _ => outA.toList
    | .Call callee (some r) =>
      if r == t then
        if isExternTid p callee then (outA.map fun _ => ([] : Table)).toList
        else match internalCallee p callee with
          | some s => (s.term.blocks.filter hasReturnJmp).flatMap fun rb =>
              if outA.isSome || (m.get rb.tid).isSome then [([] : Table)] else []
          | none => []
      else []
    | .CallInd _ (some r) => if r == t then (outA.map fun _ => ([] : Table)).toList else []
    | _ => []

def mergeOpt (cur : Option Table) (new : Table) : Option Table :=
  match cur with
  | none => some new
  | some c => some (c.merge new)

/-- one round over all blocks of the program (Jacobi): start tables merged with what the predecessors send -/
def tableRound (p : Program) (m : TableMap) : TableMap :=
  p.subs.flatMap fun s => s.term.blocks.map fun b =>
    let incoming : List Table := s.term.blocks.flatMap fun a => tablesSent p m a b.tid
    (b.tid, incoming.foldl mergeOpt (m.get b.tid))

def tableFix (p : Program) : Nat → TableMap → TableMap
  | 0, m => m
  | fuel + 1, m =>
    let m' := tableRound p m
    if m' == m then m else tableFix p fuel m'

/-- initial values: the function's first block and blocks without incoming CFG edge start empty -/
def initialTables (p : Program) : TableMap :=
  p.subs.flatMap fun s => s.term.blocks.mapIdx fun i b =>
    (b.tid, if i = 0 || (incomingEdges p s b).isEmpty then some [] else none)

def programBlockCount (p : Program) : Nat := (p.subs.map (·.term.blocks.length)).sum

/-- the fixpoint: table at the start of every block (`none` = the block never received a value) -/
def computeTables (p : Program) : TableMap :=
  tableFix p (200 * (programBlockCount p + 1)) (initialTables p)

/-- `insert_expressions` on one function -/
def propagateSub (m : TableMap) (s : Term Sub) : Term Sub :=
  mapSubBlocks (fun b => propagateBlock ((m.get b.tid).getD []) b) s

/-- **`propagate_input_expression`** -/
def propagateProgram (p : Program) : Program :=
  let p₁ := mapProgramSubs (mapSubBlocks mergeDefAssignmentsToSameVar) p
  mapProgramSubs (propagateSub (computeTables p₁)) p₁

/-! ### comparison of two outputs up to the iteration order of the tables

`substAll` substitutes the entries one after the other, so its result depends on the order when an entry
mentions another key (possible through the `recursion_depth` limit only). The tables are acyclic, hence
substituting `n ≥ |table|` more times reaches the same expression from every order. `closeProgram`
applies that closure at every place where `propagate_input_expressions` iterates a table. -/

def substAllN (t : Table) : Nat → Expression → Expression
  | 0, e => e
  | n + 1, e => substAllN t n (substAll t e)

def closeDefs : Table → List (Term Def) → List (Term Def) × Table
  | t, [] => ([], t)
  | t, d :: ds =>
    match d.term with
    | .Assign v e =>
      let t₁ := t.kill v
      let t₂ := if mentions e v then t₁ else t₁.insert v e
      let (ds', t') := closeDefs t₂ ds
      (d :: ds', t')
    | .Load v a =>
      let (ds', t') := closeDefs (t.kill v) ds
      ({ d with term := .Load v (substAllN t t.length a) } :: ds', t')
    | .Store a e =>
      let (ds', t') := closeDefs t ds
      ({ d with term := .Store (substAllN t t.length a) (substAllN t t.length e) } :: ds', t')

def closeBlock (t : Table) (b : Term Blk) : Term Blk :=
  let (defs, t') := closeDefs t b.term.defs
  { b with term := { b.term with
      defs := defs,
      jmps := b.term.jmps.map fun j => { j with term := mapJmpExprs (substAllN t' t'.length) j.term } } }

/-- close a propagated program `q` (model or implementation output) with the tables `m` -/
def closeProgramWith (m : TableMap) (q : Program) : Program :=
  mapProgramSubs (mapSubBlocks fun b => closeBlock ((m.get b.tid).getD []) b) q

/-- ... with the tables the model computes for the input program `p` -/
def closeProgram (p q : Program) : Program :=
  let p₁ := mapProgramSubs (mapSubBlocks mergeDefAssignmentsToSameVar) p
  closeProgramWith (computeTables p₁) q

/-! ### soundness condition of a table assignment (post-fixpoint)

The result of the fixpoint iteration may depend on the order in which the nodes are visited (`update_def`
is not monotone: a smaller table substitutes less, which changes the inserted expression). What makes a
table assignment correct is only that it is a post-fixpoint: start blocks are empty and every table is
contained in everything its predecessors send. -/

def Table.subsetOf (a b : Table) : Bool := a.all fun p => b.get p.1 == some p.2

def Table.sameEntries (a b : Table) : Bool := a.subsetOf b && b.subsetOf a

def tablesClosed (p : Program) (m : TableMap) : Bool :=
  p.subs.all fun s => (s.term.blocks.mapIdx fun i b => (i, b)).all fun (i, b) =>
    match m.get b.tid with
    | none => true
    | some tb =>
      (if i = 0 || (incomingEdges p s b).isEmpty then tb.isEmpty else true) &&
      (s.term.blocks.all fun a => (tablesSent p m a b.tid).all fun x => tb.subsetOf x)

/-- what a run needs from the tables beyond `tablesClosed`: the first block of every function has a value,
and so has every block some table is sent to (`none` means "not reached by the fixpoint") -/
def tablesReach (p : Program) (m : TableMap) : Bool :=
  p.subs.all fun s =>
    (match s.term.blocks with
      | [] => true
      | e :: _ => (m.get e.tid).isSome) &&
    s.term.blocks.all fun a => s.term.blocks.all fun b =>
      (tablesSent p m a b.tid).isEmpty || (m.get b.tid).isSome

/-- the control-flow graph of analysis/graph.rs has an edge for the continuation of this jump: no `CallOther`
with a return site (known limitation), a `Call` with a return site targets an extern symbol or a function with a
returning block -/
def jmpCfgOk (p : Program) : Jmp → Bool
  | .CallOther _ (some _) => false
  | .Call callee (some _) =>
    isExternTid p callee ||
      (match internalCallee p callee with
        | some f => f.term.blocks.any hasReturnJmp
        | none => false)
  | _ => true

/-- at most two jumps per block, and every jump satisfies `jmpCfgOk` -/
def subCfgOk (p : Program) (s : Term Sub) : Bool :=
  s.term.blocks.all fun b => decide (b.term.jmps.length ≤ 2) && b.term.jmps.all fun j => jmpCfgOk p j.term

/-- the tables agree as maps (block by block, entry by entry) -/
def tableMapsAgree (p : Program) (m m' : TableMap) : Bool :=
  p.subs.all fun s => s.term.blocks.all fun b =>
    match m.get b.tid, m'.get b.tid with
    | none, none => true
    | some x, some y => x.sameEntries y
    | _, _ => false

/-- `propagate_input_expression` with given tables (after the merging of assignments) -/
def propagateProgramWith (m : TableMap) (p₁ : Program) : Program :=
  mapProgramSubs (propagateSub m) p₁

def mergeAssignmentsProgram (p : Program) : Program :=
  mapProgramSubs (mapSubBlocks mergeDefAssignmentsToSameVar) p

/-! ### the composition: `Project::normalize_optimize` -/

/-- the optimizing passes in the order of `Project::normalize_optimize` (project.rs) -/
def normalizeOptimize (arch : String) (sp : Variable) (phys : VarSet) (p : Program) : Program :=
  let p₁ := propagateProgram p
  let p₂ := substTrivialProgram p₁
  let p₃ := removeDeadProgram phys p₂
  let p₄ := propagateControlFlow p₃
  (substituteAndOnStackpointer arch sp p₄).1

/-- `normalize_optimize` with the tables of the expression-propagation fixpoint as a parameter (the tables of
the REAL fixpoint, or those of the model's own iteration: `normalizeOptimize = normalizeOptimizeWith
(computeTables …)`) -/
def normalizeOptimizeWith (m : TableMap) (arch : String) (sp : Variable) (phys : VarSet) (p : Program) : Program :=
  let p₁ := propagateProgramWith m (mergeAssignmentsProgram p)
  let p₂ := substTrivialProgram p₁
  let p₃ := removeDeadProgram phys p₂
  let p₄ := propagateControlFlow p₃
  (substituteAndOnStackpointer arch sp p₄).1

/-- every entry of every table is size-consistent and has the size of its variable (executable form of
`C12.AllWS`) -/
def allWSB (m : TableMap) : Bool :=
  m.all fun q => match q.2 with
    | none => true
    | some t => t.all fun e => C12.wellSizedExpr e.2 && e.2.bytesize == e.1.size

end CweModel.C10
