/-
C21 model: the OUTPUT STAGE of the command-line analyzer.

Mirrors, in `/repo/src/caller/src/main.rs::run_with_ghidra`,
    for module in modules { all_cwes.append(&mut (module.run)(..)) }   -- concatenation
    all_cwes.sort();                                                    -- derived `Ord` of `CweWarning`
    print_all_messages(all_logs, all_cwes, out, json)                   -- JSON array, same order
and `utils/log.rs::CweWarning` (`#[derive(PartialOrd, Ord)]`: lexicographic comparison of the fields
in declaration order; `String` compares byte-wise, `Vec<T>` lexicographically).

What is NOT modelled: the analyses that compute the warnings (47k lines of Rust) and the JSON pretty
printer of serde_json — the driver parses the REAL stdout with `Lean.Data.Json` instead.
-/
import CweModel.Gen.Modules
import CweModel.C22.Model

namespace CweModel.C21

/-- a Rust `String`, as its UTF-8 bytes (`Ord for str` compares bytes) -/
abbrev Str := List Nat

/-- `Ord for [T]` / `Vec<T>`: lexicographic, a proper prefix is smaller. Written with a Boolean
`le` on the elements; two elements are "equal" when `le` holds in both directions. -/
def lexLe {α : Type} (le : α → α → Bool) : List α → List α → Bool
  | [], _ => true
  | _ :: _, [] => false
  | a :: as, b :: bs => if le a b then (if le b a then lexLe le as bs else true) else false

def natLe (a b : Nat) : Bool := decide (a ≤ b)
/-- `String` -/
def strLe : Str → Str → Bool := lexLe natLe
/-- `Vec<String>` -/
def strsLe : List Str → List Str → Bool := lexLe strLe
/-- `Vec<Vec<String>>` -/
def strssLe : List (List Str) → List (List Str) → Bool := lexLe strsLe

/-- `utils::log::CweWarning`, fields in declaration order -/
structure Warning where
  name : Str
  version : Str
  addresses : List Str
  tids : List Str
  symbols : List Str
  other : List (List Str)
  description : Str
deriving DecidableEq, Repr

/-- The fields in declaration order, each lifted to the common type `Vec<Vec<String>>`
(`s ↦ [[s]]`, `v ↦ [v]`); lifting preserves the order of each field. -/
def Warning.key (w : Warning) : List (List (List Str)) :=
  [[[w.name]], [[w.version]], [w.addresses], [w.tids], [w.symbols], w.other, [[w.description]]]

/-- derived `Ord for CweWarning` as `≤`: lexicographic over the fields in declaration order -/
def Warning.le (a b : Warning) : Bool := lexLe strssLe a.key b.key

/-- `all_cwes.sort()` — a stable merge sort w.r.t. the derived order -/
def sortW (ws : List Warning) : List Warning := ws.mergeSort Warning.le

/-- the warnings `main.rs` prints: concatenation of the selected modules' results, sorted -/
def output {M : Type} (run : M → List Warning) (sel : List M) : List Warning := sortW (sel.flatMap run)

/-- executable sortedness check (adjacent pairs) -/
def isSorted : List Warning → Bool
  | [] => true
  | [_] => true
  | a :: b :: rest => Warning.le a b && isSorted (b :: rest)

/-- labels `(name, version)` that can legally occur: some known check with that version may emit the name -/
def allowedLabels : List (String × String) :=
  C22.allModules.flatMap (fun m => (C22.emitsOf m).map (fun n => (n, m.version)))

/-- field names of `CweWarning` the model's `key` follows -/
def modelledFields : List (String × String) :=
  [("name", "String"), ("version", "String"), ("addresses", "Vec String"), ("tids", "Vec String"),
   ("symbols", "Vec String"), ("other", "Vec Vec String"), ("description", "String")]

end CweModel.C21
