/-
C21 — The analyzer completes on every well-formed input and its output is well-formed.

"For every P-Code project the extractor can emit together with a matching ELF file, running the
command-line analyzer with the shipped configuration (and with any subset of checks) terminates
normally and prints a JSON array of warnings, each naming a known check with its version and carrying
the reported addresses, sorted in the analyzer's canonical order."

PROVED here (output stage, for ALL warning lists): the canonical order is a linear order; the printed
list is sorted and a permutation of what the checks produced; it is the ONLY sorted permutation; every
printed label stems from a selected check.

NOT PROVABLE as a theorem about the implementation: "terminates normally on every input" — a statement
about 47k lines of Rust plus goblin/serde. It is EXPLORED by running the real binary (see props/C21.json).
Full statement kept visible:

  theorem analyzer_total (p : PcodeProject) (elf : Elf) (sel : Selection) :
      ∃ ws, runCli p elf shippedConfig sel = .exit0 (renderJson (sortW ws)) ∧ ∀ w ∈ ws, w.label ∈ allowedLabels
-/
import CweModel.C21.Model

namespace CweModel.C21

/-- a Boolean `≤` that is a linear order -/
structure LinOrd {α : Type} (le : α → α → Bool) : Prop where
  total : ∀ a b, (le a b || le b a) = true
  antisymm : ∀ a b, le a b = true → le b a = true → a = b
  trans : ∀ a b c, le a b = true → le b c = true → le a c = true

theorem natLe_linear : LinOrd natLe where
  total a b := by simp only [natLe, Bool.or_eq_true, decide_eq_true_eq]; omega
  antisymm a b h1 h2 := by simp only [natLe, decide_eq_true_eq] at h1 h2; omega
  trans a b c h1 h2 := by simp only [natLe, decide_eq_true_eq] at *; omega

theorem lexLe_total {α : Type} {le : α → α → Bool} (h : LinOrd le) :
    ∀ x y : List α, (lexLe le x y || lexLe le y x) = true
  | [], _ => by simp [lexLe]
  | _ :: _, [] => by simp [lexLe]
  | a :: as, b :: bs => by
    have ih := lexLe_total h as bs
    have ht := h.total a b
    simp only [lexLe]
    cases hab : le a b <;> cases hba : le b a <;> simp_all

theorem lexLe_antisymm {α : Type} {le : α → α → Bool} (h : LinOrd le) :
    ∀ x y : List α, lexLe le x y = true → lexLe le y x = true → x = y
  | [], [], _, _ => rfl
  | [], _ :: _, _, h2 => by simp [lexLe] at h2
  | _ :: _, [], h1, _ => by simp [lexLe] at h1
  | a :: as, b :: bs, h1, h2 => by
    simp only [lexLe] at h1 h2
    cases hab : le a b <;> cases hba : le b a <;> simp_all
    exact ⟨h.antisymm a b hab hba, lexLe_antisymm h as bs h1 h2⟩

theorem lexLe_trans {α : Type} {le : α → α → Bool} (h : LinOrd le) :
    ∀ x y z : List α, lexLe le x y = true → lexLe le y z = true → lexLe le x z = true
  | [], _, _, _, _ => by simp [lexLe]
  | _ :: _, [], _, h1, _ => by simp [lexLe] at h1
  | _ :: _, _ :: _, [], _, h2 => by simp [lexLe] at h2
  | a :: as, b :: bs, c :: cs, h1, h2 => by
    simp only [lexLe] at h1 h2 ⊢
    cases hab : le a b
    · simp [hab] at h1
    cases hbc : le b c
    · simp [hbc] at h2
    have hac : le a c = true := h.trans a b c hab hbc
    simp only [hab, hbc, hac, if_true] at h1 h2 ⊢
    cases hca : le c a
    · simp
    · simp only [if_true]
      -- c ≤ a ≤ b ≤ c: all three are equal
      have hcb : le c b = true := h.trans c a b hca hab
      have hba : le b a = true := h.trans b c a hbc hca
      simp only [hba, hcb, if_true] at h1 h2
      exact lexLe_trans h as bs cs h1 h2

/-- The lexicographic order on `Vec<T>` is linear if the order on `T` is. -/
theorem lexLe_linear {α : Type} {le : α → α → Bool} (h : LinOrd le) : LinOrd (lexLe le) where
  total := lexLe_total h
  antisymm := lexLe_antisymm h
  trans := lexLe_trans h

theorem strLe_linear : LinOrd strLe := lexLe_linear natLe_linear
theorem strsLe_linear : LinOrd strsLe := lexLe_linear strLe_linear
theorem strssLe_linear : LinOrd strssLe := lexLe_linear strsLe_linear

/-- the lifted field list determines the warning -/
theorem key_injective (a b : Warning) (h : a.key = b.key) : a = b := by
  cases a; cases b
  simp only [Warning.key, List.cons.injEq, and_true] at h
  obtain ⟨h1, h2, h3, h4, h5, h6, h7⟩ := h
  simp_all

/-- **C21-order.** The derived order of `CweWarning` (the analyzer's canonical order) is a linear
order on warnings: total, transitive, and two warnings that compare equal are identical. -/
theorem warningLe_linear : LinOrd Warning.le where
  total a b := (lexLe_linear strssLe_linear).total a.key b.key
  antisymm a b h1 h2 := key_injective a b ((lexLe_linear strssLe_linear).antisymm a.key b.key h1 h2)
  trans a b c := (lexLe_linear strssLe_linear).trans a.key b.key c.key

/-- The model's field order is the declaration order of `struct CweWarning` in the source, and
`main.rs` still sorts before printing (both facts regenerated from the source on every run). -/
theorem model_follows_source :
    Gen.Modules.cweWarningFields = modelledFields ∧ Gen.Modules.sortCall = true := by decide

/-- **C21-sorted.** For every list of warnings the checks produce, the printed list is sorted in the
canonical order … -/
theorem output_sorted (ws : List Warning) : (sortW ws).Pairwise (fun a b => Warning.le a b = true) :=
  List.pairwise_mergeSort warningLe_linear.trans warningLe_linear.total ws

/-- **C21-perm.** … and contains exactly the produced warnings (same multiset: nothing lost,
nothing invented, nothing duplicated). -/
theorem output_perm (ws : List Warning) : (sortW ws).Perm ws := List.mergeSort_perm ws _

/-- **C21-unique.** The printed list is the only sorted arrangement of the produced warnings: any
list that is sorted and a permutation of them equals it (so the sorting algorithm is irrelevant). -/
theorem output_unique (ws out : List Warning)
    (hs : out.Pairwise (fun a b => Warning.le a b = true)) (hp : out.Perm ws) : out = sortW ws :=
  List.Perm.eq_of_pairwise (fun a b _ _ h1 h2 => warningLe_linear.antisymm a b h1 h2) hs (output_sorted ws)
    (hp.trans (output_perm ws).symm)

/-- the executable sortedness check used by the driver is the `Pairwise` notion -/
theorem isSorted_iff : ∀ ws : List Warning, isSorted ws = true ↔ ws.Pairwise (fun a b => Warning.le a b = true)
  | [] => by simp [isSorted]
  | [a] => by simp [isSorted]
  | a :: b :: rest => by
    have ih := isSorted_iff (b :: rest)
    simp only [isSorted, Bool.and_eq_true, ih, List.pairwise_cons]
    constructor
    · rintro ⟨hab, hb, hrest⟩
      refine ⟨?_, hb, hrest⟩
      intro x hx
      rcases List.mem_cons.mp hx with rfl | hx'
      · exact hab
      · exact warningLe_linear.trans a b x hab (hb x hx')
    · rintro ⟨ha, hb, hrest⟩
      exact ⟨ha b List.mem_cons_self, hb, hrest⟩

/-- **C21-check.** What the driver verifies on the REAL output (`isSorted out`) is equivalent to
"`out` is what the model prints for the multiset of warnings in `out`". -/
theorem isSorted_iff_fixed (out : List Warning) : isSorted out = true ↔ sortW out = out := by
  rw [isSorted_iff]
  constructor
  · intro h; exact (output_unique out out h (List.Perm.refl _)).symm
  · intro h; rw [← h]; exact output_sorted out

def Warning.label (w : Warning) : Str × Str := (w.name, w.version)

/-- **C21-labels.** Every printed warning was produced by a selected check (so, if every check
labels its warnings with a name from its name list and its own version, every printed label is in
`allowedLabels`: it names a known check with its version). -/
theorem output_from_selected {M : Type} (run : M → List Warning) (sel : List M) :
    ∀ w ∈ output run sel, ∃ m ∈ sel, w ∈ run m := by
  intro w hw
  have := (output_perm (sel.flatMap run)).mem_iff.mp hw
  simpa [List.mem_flatMap] using this

theorem allowedLabels_complete (m : C22.Module) (hm : m ∈ C22.allModules) (w : String × String)
    (h : C22.mayEmit m w = true) : w ∈ allowedLabels := by
  simp only [C22.mayEmit, Bool.and_eq_true, beq_iff_eq, List.contains_iff_mem] at h
  simp only [allowedLabels, List.mem_flatMap, List.mem_map]
  exact ⟨m, hm, w.1, h.2, by cases w; simp_all⟩

/-! ### non-vacuity -/

private def w1 : Warning := ⟨[67, 87, 69], [48], [[49, 48]], [], [], [], [97]⟩
private def w2 : Warning := ⟨[67, 87, 69], [48], [[49, 48], [50]], [], [], [], []⟩
private def w3 : Warning := ⟨[67, 87], [57], [], [], [], [[[1]]], [122]⟩

example : sortW [w2, w1, w3] = [w3, w1, w2] :=
  (output_unique [w2, w1, w3] [w3, w1, w2] ((isSorted_iff _).mp (by decide)) (by decide)).symm
example : isSorted [w3, w1, w2] = true ∧ isSorted [w1, w3] = false := by decide
-- (no version numbers: a version bump of a check must not break the example)
example : "CWE415" ∈ allowedLabels.map (·.1) ∧ "CWE787" ∈ allowedLabels.map (·.1) ∧ "CWE999" ∉ allowedLabels.map (·.1) := by
  decide

end CweModel.C21
