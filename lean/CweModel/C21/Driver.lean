/- C21 model driver: parses the REAL stdout of the analyzer and checks termination status,
   well-formedness, labels and the canonical order (model = `sortW` of the printed multiset). -/
import CweModel.Base.Proto
import CweModel.C21.Model
open Lean CweModel.Proto

namespace CweModel.C21

def toStr (s : String) : Str := s.toUTF8.toList.map (·.toNat)

def strList (j : Json) : Except String (List String) := do
  mapM' (fun x => x.getStr?) (← j.getArr?).toList

def parseWarning (j : Json) : Except String (Warning × String × String × List String) := do
  let obj ← j.getObj?
  let keys := obj.toList.map (·.1)
  -- exactly the seven fields of `CweWarning`
  let expectedKeys := ["addresses", "description", "name", "other", "symbols", "tids", "version"]
  if keys.length != 7 || !(expectedKeys.all (fun k => keys.contains k)) then throw "fields"
  let name ← strF j "name"
  let version ← strF j "version"
  let addresses ← strList (← field j "addresses")
  let tids ← strList (← field j "tids")
  let symbols ← strList (← field j "symbols")
  let other ← mapM' strList (← arrF j "other")
  let description ← strF j "description"
  return ({ name := toStr name, version := toStr version, addresses := addresses.map toStr, tids := tids.map toStr,
            symbols := symbols.map toStr, other := other.map (·.map toStr), description := toStr description },
          name, version, addresses)

def clean (s : String) : String :=
  let t := (s.replace " " "_").replace "\n" "_"
  if t.length > 80 then (t.take 80).toString else t

def handleE (line : String) : Except String String := do
  let j ← Json.parse line
  let mode ← strF j "mode"
  let impl ← field j "impl"
  let exit ← intF impl "exit"
  let timeout ← boolF impl "timeout"
  let stderr ← strF impl "stderr"
  let panicAt ← strF impl "panic_at"
  let panicMsg := (strF impl "panic_msg").toOption.getD ""
  let stdout ← strF impl "stdout"
  let addrs ← strList (← field j "addrs")
  if timeout then return s!"spec class=timeout expected=exit0 impl=killed-after-time-limit"
  if exit != 0 then
    -- class = exit code + source file of the panic + canonical message (line numbers shift too easily)
    let file := (panicAt.splitOn ":").headD ""
    let msg := if (panicMsg.splitOn "invalid type: null, expected struct Config").length > 1 then "no-config-section"
      else ((clean panicMsg).take 48).toString
    let what := if panicAt.isEmpty then ((clean stderr).take 48).toString else file ++ ":" ++ msg
    return s!"spec class=exit{exit}:{what} expected=exit0 impl=exit{exit}:{panicAt}:{clean panicMsg}"
  if !stderr.isEmpty then return s!"spec class=stderr-output expected=empty impl={clean stderr}"
  let out ← match Json.parse stdout with
    | .ok v => pure v
    | .error _ => return s!"spec class=stdout-not-json expected=json-array impl={clean stdout}"
  let arr ← match out.getArr? with
    | .ok a => pure a.toList
    | .error _ => return s!"spec class=stdout-not-array expected=json-array impl={clean stdout}"
  let mut acc : List Warning := []
  for e in arr do
    match parseWarning e with
    | .error r => return s!"spec class=malformed-warning:{r} expected=CweWarning impl={clean e.compress}"
    | .ok (w, name, version, addresses) =>
      if !(allowedLabels.contains (name, version)) then
        return s!"spec class=unknown-label:{clean name}@{clean version} expected=label-of-a-known-check impl={clean name}@{clean version}"
      -- the reported addresses are addresses of terms of the analysed program
      for a in addresses do
        if !(addrs.contains a) then
          return s!"spec class=foreign-address:{clean name} expected=address-of-the-program impl={clean a}"
      acc := w :: acc
  let ws := acc.reverse
  -- model: what main.rs prints for this multiset of warnings is `sortW ws`; by `isSorted_iff_fixed`
  -- the real output equals it iff it is sorted
  if !(isSorted ws) then
    return s!"spec class=unsorted expected=sorted-in-derived-order impl=warnings-out-of-order"
  let size := if ws.isEmpty then "w0" else if ws.length < 10 then "w1-9" else "w10+"
  return s!"ok {mode} {size} constrained"

end CweModel.C21

def main : IO Unit := CweModel.Proto.runDriver (CweModel.Proto.guarded CweModel.C21.handleE)
