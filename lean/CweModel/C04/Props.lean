/-
C04 — property theorems. Statement of the property:

  When the analysis refines a value with the knowledge that a comparison against a constant
  (signed/unsigned <=, >=, !=) holds or that two values intersect, every concrete member of the
  original value that satisfies the condition is still represented. Refinement reports
  'unsatisfiable' only when no represented concrete value can satisfy the condition.
-/
import CweModel.C04.Model

namespace CweModel.C04
open CweModel.Itv

/-! ### `DataDomain`: the bound functions refine the absolute part only -/

/-- **C04-data-untouched.** A successful refinement of a `DataDomain` value leaves the relative
targets and the `contains_top_values` flag untouched and refines exactly the absolute part. -/
theorem data_addBound_ok {Id : Type} (f : IntervalDomain → Int → Option IntervalDomain)
    (d d' : DataDomain Id) (b : Int) (h : DataDomain.addBound f d b = some d') :
    d'.relative = d.relative ∧ d'.top = d.top ∧ d'.size = d.size ∧
      d'.absolute = d.absolute.bind (fun v => f v b) := by
  simp only [DataDomain.addBound] at h
  split at h
  · cases h
  · cases h; exact ⟨rfl, rfl, rfl, rfl⟩

/-- **C04-data-error.** The refinement of a `DataDomain` value fails iff nothing is left: there are no
relative targets, no top values and the absolute part is absent or became unsatisfiable. -/
theorem data_addBound_err_iff {Id : Type} (f : IntervalDomain → Int → Option IntervalDomain)
    (d : DataDomain Id) (b : Int) :
    DataDomain.addBound f d b = none ↔
      (d.relative = [] ∧ d.top = false ∧ d.absolute.bind (fun v => f v b) = none) := by
  unfold DataDomain.addBound DataDomain.isEmpty
  cases hr : d.relative <;> cases ht : d.top <;> cases ha : (d.absolute.bind fun v => f v b) <;>
    simp_all

end CweModel.C04
