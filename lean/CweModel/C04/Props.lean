/-
C04 — property theorems. Statement of the property:

  When the analysis refines a value with the knowledge that a comparison against a constant
  (signed/unsigned <=, >=, !=) holds or that two values intersect, every concrete member of the
  original value that satisfies the condition is still represented. Refinement reports
  'unsatisfiable' only when no represented concrete value can satisfy the condition.
-/
import CweModel.C04.Model
import CweModel.C04.Bounds
import CweModel.C04.Intersect
import CweModel.C04.DataProps

namespace CweModel.C04
open CweModel.Itv

/-! ### `DataDomain`: the bound functions refine the absolute part only -/

/-- **C04-data-untouched.** A successful refinement of a `DataDomain` value leaves the relative
targets and the `contains_top_values` flag untouched and refines exactly the absolute part. -/
theorem data_addBound_ok {Id : Type} (f : IntervalDomain → Int → Option IntervalDomain)
    (d d' : DataDomain Id) (b : Int) (h : DataDomain.addBound f d b = some d') :
    d'.relative = d.relative ∧ d'.top = d.top ∧ d'.size = d.size ∧
      d'.absolute = d.absolute.bind (fun v => f v b) := by
  simp only [DataDomain.addBound] at h
  split at h
  · cases h
  · cases h; exact ⟨rfl, rfl, rfl, rfl⟩

/-- **C04-data-error.** The refinement of a `DataDomain` value fails iff nothing is left: there are no
relative targets, no top values and the absolute part is absent or became unsatisfiable. -/
theorem data_addBound_err_iff {Id : Type} (f : IntervalDomain → Int → Option IntervalDomain)
    (d : DataDomain Id) (b : Int) :
    DataDomain.addBound f d b = none ↔
      (d.relative = [] ∧ d.top = false ∧ d.absolute.bind (fun v => f v b) = none) := by
  unfold DataDomain.addBound DataDomain.isEmpty
  cases hr : d.relative <;> cases ht : d.top <;> cases ha : (d.absolute.bind fun v => f v b) <;>
    simp_all

/-- **C04-data-sound.** Refining a `DataDomain` value whose absolute part contains a value `x` satisfying
the comparison succeeds, keeps `x` in the absolute part and leaves the relative targets and the top flag
untouched. -/
theorem data_addBound_sound {Id : Type} (k : BoundKind) (d : DataDomain Id) (a : IntervalDomain)
    (hd : d.absolute = some a) (ha : a.WF) (hw64 : a.interval.w ≤ 64) (bound : Int)
    (hb : InRange a.interval.w bound) {x : Int} (hx : a.Mem x) (hR : k.holds a.interval.w x bound) :
    ∃ d', DataDomain.addBound (IntervalDomain.addBound k) d bound = some d' ∧ d'.relative = d.relative ∧
      d'.top = d.top ∧ ∃ r, d'.absolute = some r ∧ r.Mem x := by
  obtain ⟨r, hr, hmem⟩ := addBound_sound k a ha hw64 bound hb hx hR
  have habs : (d.absolute.bind fun v => IntervalDomain.addBound k v bound) = some r := by
    rw [hd]; exact hr
  cases hres : DataDomain.addBound (IntervalDomain.addBound k) d bound with
  | none =>
    have := (data_addBound_err_iff (IntervalDomain.addBound k) d bound).mp hres
    rw [habs] at this
    exact absurd this.2.2 (by simp)
  | some d' =>
    obtain ⟨h1, h2, _, h4⟩ := data_addBound_ok (IntervalDomain.addBound k) d d' bound hres
    exact ⟨d', rfl, h1, h2, r, by rw [h4, habs], hmem⟩

end CweModel.C04
