/-
C04 — `DataDomain::intersect`: the part that is sound and intended. For every concrete ABSOLUTE value
`v` of one operand that the other operand may hold (member of its absolute part, or the other operand has
the top flag or at least one relative target — a pointer may have any absolute value), `v` is represented
by the result (top flag or member of the absolute part); in particular the result is not `Err`.

Not stated (documented as unsound by the code): values represented through relative targets (two
different identifiers are assumed disjoint; absolute values are preferred over relative ones).

Needed on the way: `intersect` of well-formed `IntervalDomain`s returns a well-formed value
(`intersect_wf`), so that the merges at the end of `DataDomain::intersect` are sound.
-/
import CweModel.C04.DataModel
import CweModel.C04.Intersect

namespace CweModel.C04
open CweModel.Itv CweModel.C02 CweModel.C03

/-! ### well-formedness of `signed_intersect` / `IntervalDomain::intersect` results -/

theorem adjust_some_wf (I : Interval) (stride rem : Nat) (hw0 : 0 < I.w) (hw : I.w ≤ 64)
    (hs : InRange I.w I.start) (he : InRange I.w I.stop) (hst : 0 < stride) (hst64 : stride < 2 ^ 64)
    {r : Interval} (h : I.adjustToStrideAndRemainder stride rem = some r) : r.WF ∧ r.w = I.w := by
  have hn : (0 : Int) < (stride : Int) := by omega
  have hm1 : 0 ≤ ((rem : Int) - I.start) % (stride : Int) := Int.emod_nonneg _ (by omega)
  have hm2 : 0 ≤ (I.stop - (rem : Int)) % (stride : Int) := Int.emod_nonneg _ (by omega)
  have hle : I.start + ((rem : Int) - I.start) % (stride : Int) ≤ I.stop - (I.stop - (rem : Int)) % (stride : Int) := by
    unfold Interval.adjustToStrideAndRemainder at h
    rw [if_neg (by omega)] at h
    simp only [trem_fix _ _ hn] at h
    split at h
    · cases h
    · rename_i hc; omega
  obtain ⟨r', hr', hwf, hrw, _⟩ := adjust_spec I stride rem hw0 hw hs he hst hst64
    (x := I.start + ((rem : Int) - I.start) % (stride : Int)) (by omega) (by omega) (dvd_first_in_class _ _ _)
  rw [hr'] at h
  cases h
  exact ⟨hwf, hrw⟩

theorem residueOfSingle_some {x : Int} {J : Interval} {st rem : Nat} (h : residueOfSingle x J = .some st rem) :
    st = toU 64 (J.stride : Int) := by
  unfold residueOfSingle at h
  split at h
  · split at h
    · simp only at h; cases h; rfl
    · cases h
  · cases h

theorem signedIntersect_wf (I J : Interval) (hI : I.WF) (hJ : J.WF) (hw : J.w = I.w) (hw64 : I.w ≤ 64)
    {r : Interval} (h : I.signedIntersect J = some r) : r.WF ∧ r.w = I.w := by
  have hIwf := hI
  have hJwf := hJ
  obtain ⟨hw0, hIs, hIe, hle, h0, hd, hu⟩ := hI
  obtain ⟨_, hJs, hJe, hJle, hJ0, hJd, hJu⟩ := hJ
  rw [hw] at hJs hJe
  have hsr : InRange I.w (max I.start J.start) := by unfold InRange at *; omega
  have her : InRange I.w (min I.stop J.stop) := by unfold InRange at *; omega
  unfold Interval.signedIntersect at h
  simp only [smax2_spec, smin2_spec] at h
  split at h
  · split at h
    · rename_i hse
      cases h
      exact ⟨⟨hw0, hsr, her, by show max I.start J.start ≤ min I.stop J.stop; omega, by simp [hse],
        by show ((0 : Nat) : Int) ∣ min I.stop J.stop - max I.start J.start; rw [hse]; simp,
        by show (0 : Nat) < 2 ^ 64; decide⟩, rfl⟩
    · cases h
  · rename_i hnz
    rw [if_neg (by omega)] at h
    have hlcmN : I.stride / Nat.gcd I.stride J.stride * J.stride = Nat.lcm I.stride J.stride := by
      unfold Nat.lcm
      rw [Nat.mul_div_right_comm (Nat.gcd_dvd_left _ _)]
    rw [hlcmN] at h
    split at h
    · -- the unique common value
      split at h
      · rename_i v _
        rw [tryToI128_inRange hw0 hw64 hsr, tryToI128_inRange hw0 hw64 her] at h
        simp only at h
        split at h
        · rename_i hv
          cases h
          have hvr : InRange I.w v := by unfold InRange at *; omega
          rw [wrap_of_inRange I.w hw0 hvr]
          exact ⟨⟨hw0, hvr, hvr, Int.le_refl _, by simp, by simp, by show (0 : Nat) < 2 ^ 64; decide⟩, rfl⟩
        · cases h
      · cases h
    · rename_i hsmall
      have hL : Nat.lcm I.stride J.stride < 2 ^ 64 := by omega
      split at h
      · rename_i stride rem hcomp
        have hst : 0 < stride ∧ stride < 2 ^ 64 := by
          by_cases hsI : I.stride = 0
          · have hsJ : J.stride ≠ 0 := fun h => hnz ⟨hsI, h⟩
            unfold computeIntersectionResidueClass at hcomp
            rw [if_neg hnz, if_pos hsI] at hcomp
            have := residueOfSingle_some hcomp
            have hJu' : ((J.stride : Nat) : Int) < 2 ^ 64 := by exact_mod_cast hJu
            rw [toU64_nat_of_lt (by omega) hJu'] at this
            omega
          · by_cases hsJ : J.stride = 0
            · unfold computeIntersectionResidueClass at hcomp
              rw [if_neg hnz, if_neg hsI, if_pos hsJ] at hcomp
              have := residueOfSingle_some hcomp
              have hIu' : ((I.stride : Nat) : Int) < 2 ^ 64 := by exact_mod_cast hu
              rw [toU64_nat_of_lt (by omega) hIu'] at this
              omega
            · rcases residueClass_total I J hIwf hJwf hsI hsJ hL with ⟨he, _⟩ | ⟨rc, hres, _⟩
              · rw [he] at hcomp; cases hcomp
              · rw [hres] at hcomp
                cases hcomp
                exact ⟨Nat.lcm_pos (by omega) (by omega), hL⟩
        exact adjust_some_wf { w := I.w, start := max I.start J.start, stop := min I.stop J.stop, stride := stride }
          stride rem hw0 hw64 hsr her hst.1 hst.2 h
      · cases h

/-- **C04-intersect-wf.** `intersect` of two well-formed `IntervalDomain`s of the same width (at most 64
bit) is well-formed and has that width. -/
theorem intersect_wf (a b : IntervalDomain) (ha : a.WF) (hb : b.WF) (hw : b.interval.w = a.interval.w)
    (hw64 : a.interval.w ≤ 64) {r : IntervalDomain} (h : a.intersect b = some r) :
    r.WF ∧ r.interval.w = a.interval.w := by
  have hI := intersect_interval a b r h
  obtain ⟨hIwf, hIw⟩ := signedIntersect_wf a.interval b.interval ha.1 hb.1 hw hw64 hI
  have hw0 : 0 < r.interval.w := hIwf.1
  unfold IntervalDomain.intersect at h
  rw [hI] at h
  simp only at h
  -- the hint updates
  have hok0 : HintsOK (IntervalDomain.ofInterval r.interval) :=
    ⟨fun l h => (by cases h), fun u h => (by cases h)⟩
  have hbl : ∀ x, a.lower = some x → InRange r.interval.w x := fun x hx => by rw [hIw]; exact ha.2.2.1 x hx
  have hbl' : ∀ x, b.lower = some x → InRange r.interval.w x := fun x hx => by rw [hIw, ← hw]; exact hb.2.2.1 x hx
  have hbu : ∀ x, a.upper = some x → InRange r.interval.w x := fun x hx => by rw [hIw]; exact ha.2.1 x hx
  have hbu' : ∀ x, b.upper = some x → InRange r.interval.w x := fun x hx => by rw [hIw, ← hw]; exact hb.2.1 x hx
  obtain ⟨e1, d1, k1⟩ := updateLower_facts (IntervalDomain.ofInterval r.interval) a.lower hw0 hbl hok0
  obtain ⟨e2, d2, k2⟩ := updateLower_facts _ b.lower (by rw [e1]; exact hw0) (by rw [e1]; exact hbl') k1
  obtain ⟨e3, d3, k3⟩ := updateUpper_facts _ a.upper (by rw [e2, e1]; exact hw0) (by rw [e2, e1]; exact hbu) k2
  obtain ⟨e4, d4, k4⟩ := updateUpper_facts _ b.upper (by rw [e3, e2, e1]; exact hw0) (by rw [e3, e2, e1]; exact hbu') k3
  have hint : (((((IntervalDomain.ofInterval r.interval).updateLower a.lower).updateLower b.lower).updateUpper a.upper).updateUpper
      b.upper).interval = r.interval := by rw [e4, e3, e2, e1]; rfl
  have hmax : max a.delay b.delay < 2 ^ 64 := by have := ha.2.2.2; have := hb.2.2.2; omega
  generalize ((((IntervalDomain.ofInterval r.interval).updateLower a.lower).updateLower b.lower).updateUpper a.upper).updateUpper b.upper = m at *
  refine ⟨?_, hIw⟩
  split at h
  · cases h
    refine ⟨by show m.interval.WF; rw [hint]; exact hIwf, fun u hu => (k4.2 u hu).2, fun l hl => (k4.1 l hl).2, ?_⟩
    show min (max a.delay b.delay) _ < 2 ^ 64
    omega
  · cases h
    exact ⟨by show m.interval.WF; rw [hint]; exact hIwf, fun u hu => (k4.2 u hu).2, fun l hl => (k4.1 l hl).2, hmax⟩

/-! ### the merges at the end of `DataDomain::intersect` keep and add absolute members -/

namespace DD
open DataDomain

theorem ofItv_absolute (x : IntervalDomain) : (ofItv x).absolute = some x := rfl

/-- the absolute part of a value is well-formed of width `w` -/
def AbsOK (d : DataDomain Nat) (w : Nat) : Prop := ∀ a, d.absolute = some a → a.WF ∧ a.interval.w = w

theorem merge_ofItv (r : DataDomain Nat) (x : IntervalDomain) (w : Nat) (hw1 : 1 < w) (hw64 : w ≤ 64)
    (hr : AbsOK r w) (hx : x.WF) (hxw : x.interval.w = w) :
    AbsOK (r.merge (ofItv x)) w ∧ (∀ v, r.AbsRep v → (r.merge (ofItv x)).AbsRep v) ∧
    (∀ v, x.Mem v → (r.merge (ofItv x)).AbsRep v) ∧ (r.merge (ofItv x)).relative = r.relative := by
  have hrel : (r.merge (ofItv x)).relative = r.relative := rfl
  cases hra : r.absolute with
  | none =>
    have habs : (r.merge (ofItv x)).absolute = some x := by unfold merge; rw [hra]; rfl
    refine ⟨fun a h => ?_, fun v hv => ?_, fun v hv => Or.inr ⟨x, habs, hv⟩, hrel⟩
    · rw [habs] at h; cases h; exact ⟨hx, hxw⟩
    · rcases hv with ht | ⟨a, h, _⟩
      · left; show (r.top || false) = true; simp [ht]
      · rw [hra] at h; cases h
  | some l =>
    obtain ⟨hl, hlw⟩ := hr l hra
    have habs : (r.merge (ofItv x)).absolute = some (signedMergeAndWiden l x) := by unfold merge; rw [hra]; rfl
    obtain ⟨hmwf, hmw, hmem⟩ := merge_result hl hx (by rw [hxw, hlw]) (by rw [hlw]; exact hw1) (by rw [hlw]; exact hw64)
    have hsub : ∀ v, l.Mem v ∨ x.Mem v → (signedMergeAndWiden l x).Mem v := fun v hv =>
      hmem v (mem_signedMergeI hl.1 hx.1 (by rw [hxw, hlw]) (by rw [hlw]; exact hw64) hv)
    refine ⟨fun a h => ?_, fun v hv => ?_, fun v hv => Or.inr ⟨_, habs, hsub v (Or.inr hv)⟩, hrel⟩
    · rw [habs] at h; cases h; exact ⟨hmwf, by rw [hmw, hlw]⟩
    · rcases hv with ht | ⟨a, h, hm⟩
      · left; show (r.top || false) = true; simp [ht]
      · rw [hra] at h; cases h
        exact Or.inr ⟨_, habs, hsub v (Or.inl hm)⟩

/-- the tail of `intersect`: both conditional merges and the emptiness test, starting from `r` -/
def tail (a b r : DataDomain Nat) : Option (DataDomain Nat) :=
  let r := if !a.relative.isEmpty then (match b.absolute with | some v => r.merge (ofItv v) | none => r) else r
  let r := if !b.relative.isEmpty then (match a.absolute with | some v => r.merge (ofItv v) | none => r) else r
  if r.isEmpty then none else some r

theorem isEmpty_false_of_absRep {d : DataDomain Nat} {v : Int} (h : d.AbsRep v) : d.isEmpty = false := by
  unfold DataDomain.isEmpty
  rcases h with ht | ⟨a, ha, _⟩
  · simp [ht]
  · simp [ha]

/-- what the tail does for an absolute value `v`: it stays represented if the start value represents it,
and it becomes represented if it is an absolute value of one side and the other side has relative targets -/
theorem tail_spec (a b r : DataDomain Nat) (w : Nat) (hw1 : 1 < w) (hw64 : w ≤ 64)
    (ha : AbsOK a w) (hb : AbsOK b w) (hr : AbsOK r w) {v : Int}
    (h : r.AbsRep v ∨ (a.relative ≠ [] ∧ ∃ y, b.absolute = some y ∧ y.Mem v) ∨
      (b.relative ≠ [] ∧ ∃ x, a.absolute = some x ∧ x.Mem v)) :
    ∃ res, tail a b r = some res ∧ res.AbsRep v := by
  unfold tail
  -- first merge
  have step1 : ∃ r1, r1 = (if !a.relative.isEmpty then (match b.absolute with | some v => r.merge (ofItv v) | none => r) else r) ∧
      AbsOK r1 w ∧ (r1.AbsRep v ∨ (b.relative ≠ [] ∧ ∃ x, a.absolute = some x ∧ x.Mem v)) := by
    refine ⟨_, rfl, ?_⟩
    by_cases hra : a.relative = []
    · simp only [hra, List.isEmpty_nil, Bool.not_true, Bool.false_eq_true, if_false]
      refine ⟨hr, ?_⟩
      rcases h with h | ⟨h, _⟩ | h
      · exact .inl h
      · exact absurd hra h
      · exact .inr h
    · have : (!a.relative.isEmpty) = true := by simp [hra]
      simp only [this, if_true]
      cases hba : b.absolute with
      | none =>
        simp only
        refine ⟨hr, ?_⟩
        rcases h with h | ⟨_, y, hy, _⟩ | h
        · exact .inl h
        · rw [hba] at hy; cases hy
        · exact .inr h
      | some y =>
        simp only
        obtain ⟨hyw, hywid⟩ := hb y hba
        obtain ⟨m1, m2, m3, _⟩ := merge_ofItv r y w hw1 hw64 hr hyw hywid
        refine ⟨m1, ?_⟩
        rcases h with h | ⟨_, y', hy', hm⟩ | h
        · exact .inl (m2 v h)
        · rw [hba] at hy'; cases hy'; exact .inl (m3 v hm)
        · exact .inr h
  obtain ⟨r1, hr1, hok1, h1⟩ := step1
  rw [← hr1]
  -- second merge
  have step2 : (if !b.relative.isEmpty then (match a.absolute with | some v => r1.merge (ofItv v) | none => r1) else r1).AbsRep v := by
    by_cases hrb : b.relative = []
    · simp only [hrb, List.isEmpty_nil, Bool.not_true, Bool.false_eq_true, if_false]
      rcases h1 with h | ⟨h, _⟩
      · exact h
      · exact absurd hrb h
    · have : (!b.relative.isEmpty) = true := by simp [hrb]
      simp only [this, if_true]
      cases haa : a.absolute with
      | none =>
        simp only
        rcases h1 with h | ⟨_, x, hx, _⟩
        · exact h
        · rw [haa] at hx; cases hx
      | some x =>
        simp only
        obtain ⟨hxw, hxwid⟩ := ha x haa
        obtain ⟨_, m2, m3, _⟩ := merge_ofItv r1 x w hw1 hw64 hok1 hxw hxwid
        rcases h1 with h | ⟨_, x', hx', hm⟩
        · exact m2 v h
        · rw [haa] at hx'; cases hx'; exact m3 v hm
  simp only
  rw [if_neg (by rw [isEmpty_false_of_absRep step2]; simp)]
  exact ⟨_, rfl, step2⟩

theorem intersect_eq_tail (a b : DataDomain Nat) :
    a.intersect b = tail a b (match a.top, b.top with
      | true, false => b
      | false, true => a
      | _, _ =>
        { size := a.size
          relative := intersectRel a.relative b.relative
          absolute := match a.absolute, b.absolute with
            | some x, some y => x.intersect y
            | _, _ => none
          top := a.top && b.top }) := rfl

end DD

open DataDomain in
/-- **C04-data-intersect (absolute values).** Operands whose absolute parts are well-formed intervals of
the same width `w` (2..64 bit). If `v` is a member of the absolute part of `a` and `b` may hold `v`
(member of its absolute part, top flag, or at least one relative target), or the same with the roles of
`a` and `b` exchanged, then `a.intersect b` succeeds and its result represents `v` (top flag or member of
the absolute part). In particular `Err("Domain is empty.")` is answered only if no such `v` exists. -/
theorem dataIntersect_abs_sound (a b : DataDomain Nat) (w : Nat) (hw1 : 1 < w) (hw64 : w ≤ 64)
    (ha : a.WFw w) (hb : b.WFw w) {v : Int}
    (h : ((∃ x, a.absolute = some x ∧ x.Mem v) ∧ b.MayHold v) ∨
         ((∃ y, b.absolute = some y ∧ y.Mem v) ∧ a.MayHold v)) :
    ∃ r, a.intersect b = some r ∧ r.AbsRep v := by
  rw [DD.intersect_eq_tail]
  have haok : DD.AbsOK a w := ha.1
  have hbok : DD.AbsOK b w := hb.1
  -- normalise the hypothesis: v is an absolute value of both, or of one side while the other has the
  -- top flag / relative targets
  have hcases : ((∃ x, a.absolute = some x ∧ x.Mem v) ∧ (∃ y, b.absolute = some y ∧ y.Mem v)) ∨
      ((∃ x, a.absolute = some x ∧ x.Mem v) ∧ b.top = true) ∨
      ((∃ y, b.absolute = some y ∧ y.Mem v) ∧ a.top = true) ∨
      ((∃ x, a.absolute = some x ∧ x.Mem v) ∧ b.relative ≠ []) ∨
      ((∃ y, b.absolute = some y ∧ y.Mem v) ∧ a.relative ≠ []) := by
    rcases h with ⟨hx, hm⟩ | ⟨hy, hm⟩
    · rcases hm with (ht | hy) | hr
      · exact .inr (.inl ⟨hx, ht⟩)
      · exact .inl ⟨hx, hy⟩
      · exact .inr (.inr (.inr (.inl ⟨hx, hr⟩)))
    · rcases hm with (ht | hx) | hr
      · exact .inr (.inr (.inl ⟨hy, ht⟩))
      · exact .inl ⟨hx, hy⟩
      · exact .inr (.inr (.inr (.inr ⟨hy, hr⟩)))
  -- the start value of the tail has a well-formed absolute part
  have hstart : DD.AbsOK (match a.top, b.top with
      | true, false => b
      | false, true => a
      | _, _ =>
        { size := a.size
          relative := intersectRel a.relative b.relative
          absolute := match a.absolute, b.absolute with
            | some x, some y => x.intersect y
            | _, _ => none
          top := a.top && b.top }) w := by
    have hfield : DD.AbsOK
        { size := a.size
          relative := intersectRel a.relative b.relative
          absolute := match a.absolute, b.absolute with
            | some x, some y => x.intersect y
            | _, _ => none
          top := a.top && b.top } w := by
      intro z hz
      simp only at hz
      split at hz
      · rename_i x y hx hy
        obtain ⟨hxw, hxwid⟩ := haok x hx
        obtain ⟨hyw, hywid⟩ := hbok y hy
        obtain ⟨h1, h2⟩ := intersect_wf x y hxw hyw (by rw [hywid, hxwid]) (by rw [hxwid]; exact hw64) hz
        exact ⟨h1, by rw [h2, hxwid]⟩
      · cases hz
    cases a.top <;> cases b.top
    · exact hfield
    · exact haok
    · exact hbok
    · exact hfield
  apply DD.tail_spec a b _ w hw1 hw64 haok hbok hstart
  rcases hcases with ⟨⟨x, hx, hmx⟩, ⟨y, hy, hmy⟩⟩ | ⟨⟨x, hx, hmx⟩, ht⟩ | ⟨⟨y, hy, hmy⟩, ht⟩ | ⟨hx, hr⟩ | ⟨hy, hr⟩
  · -- member of both absolute parts
    left
    obtain ⟨hxw, hxwid⟩ := haok x hx
    obtain ⟨hyw, hywid⟩ := hbok y hy
    obtain ⟨z, hz, hmz⟩ := intersect_sound x y hxw hyw (by rw [hywid, hxwid]) hmx hmy
    cases hat : a.top <;> cases hbt : b.top
    · exact Or.inr ⟨z, by simp only [hx, hy, hz], hmz⟩
    · exact Or.inr ⟨x, hx, hmx⟩
    · exact Or.inr ⟨y, hy, hmy⟩
    · exact Or.inl (by simp)
  · -- b has the top flag
    left
    cases hat : a.top
    · rw [ht]; exact Or.inr ⟨x, hx, hmx⟩
    · rw [ht]; exact Or.inl (by simp)
  · left
    cases hbt : b.top
    · rw [ht]; exact Or.inr ⟨y, hy, hmy⟩
    · rw [ht]; exact Or.inl (by simp)
  · exact .inr (.inr ⟨hr, hx⟩)
  · exact .inr (.inl ⟨hr, hy⟩)

open DataDomain in
/-- **C04-data-intersect-unsat.** `DataDomain::intersect` answers `Err("Domain is empty.")` only if no
absolute value of one operand may be held by the other. -/
theorem dataIntersect_none (a b : DataDomain Nat) (w : Nat) (hw1 : 1 < w) (hw64 : w ≤ 64)
    (ha : a.WFw w) (hb : b.WFw w) (hnone : a.intersect b = none) (v : Int) :
    ¬ (((∃ x, a.absolute = some x ∧ x.Mem v) ∧ b.MayHold v) ∨
       ((∃ y, b.absolute = some y ∧ y.Mem v) ∧ a.MayHold v)) := by
  intro h
  obtain ⟨r, hr, _⟩ := dataIntersect_abs_sound a b w hw1 hw64 ha hb h
  rw [hnone] at hr
  cases hr

end CweModel.C04
