/-
C04 — soundness of the five bound refinements of `impl SpecializeByConditional for IntervalDomain`
(`add_signed_less_equal_bound`, `add_signed_greater_equal_bound`, `add_unsigned_less_equal_bound`,
`add_unsigned_greater_equal_bound`, `add_not_equal_bound`) for widths of at most 64 bit:
a member `x` of `γ a` that satisfies the comparison with `bound` is a member of the (existing) result.
-/
import CweModel.C04.Model
import CweModel.C02.Adjust
import CweModel.C03.Interval

namespace CweModel.C04
open CweModel.Itv CweModel.C02 CweModel.C03

/-! ### the `i128` computations of the stride rounding do not wrap for operands of at most 64 bit -/

/-- `i128` arithmetic on values below `2^127` in absolute value is exact -/
theorem i128_of_small {z : Int} (h1 : -(2 ^ 127) ≤ z) (h2 : z < 2 ^ 127) : i128 z = z := by
  unfold i128
  apply Int.bmod_eq_of_le
  · have : ((2 ^ 128 : Nat) : Int) / 2 = 2 ^ 127 := by decide
    omega
  · have : (((2 ^ 128 : Nat) : Int) + 1) / 2 = 2 ^ 127 := by decide
    omega

/-- `try_to_i128` of a value of at most 64 bit is its signed value -/
theorem tryToI128_inRange {w : Nat} (hw : 0 < w) (hw64 : w ≤ 64) {x : Int} (hx : InRange w x) :
    tryToI128 w x = some x := by
  unfold tryToI128
  have hlt : toU w x < 2 ^ 128 := by
    have h1 := toU_lt w x
    have h64 := pow_le_64 hw64
    have : pow2 64 = 2 ^ 64 := by unfold pow2; rfl
    have : ((toU w x : Nat) : Int) < ((2 ^ 128 : Nat) : Int) := by
      have : ((2 ^ 128 : Nat) : Int) = 2 ^ 128 := by decide
      omega
    exact Int.ofNat_lt.mp this
  have hw' : w < 128 := by omega
  simp only [hlt, hw', if_true, wrap_of_inRange w hw hx]

theorem trem_bounds (a n : Int) (hn : 0 < n) : -n < trem a n ∧ trem a n < n := by
  unfold trem
  exact ⟨Int.lt_tmod_of_pos a hn, Int.tmod_lt_of_pos a hn⟩

/-- `round_down_to_stride_of` in closed form: the last value `≤ b` in the residue class of the end,
`None` if that lies below the signed minimum -/
theorem roundDown_eq {I : Interval} (hw : 0 < I.w) (hw64 : I.w ≤ 64) (hst : 0 < I.stride)
    (hst64 : I.stride < 2 ^ 64) (he : InRange I.w I.stop) {b : Int} (hb : InRange I.w b) :
    roundDownToStrideOf b I =
      if b - (b - I.stop) % (I.stride : Int) < smin I.w then none
      else some (b - (b - I.stop) % (I.stride : Int)) := by
  have hn : (0 : Int) < (I.stride : Int) := by omega
  have hi1 := inRange_le_i64 I.w hw hw64 he
  have hi2 := inRange_le_i64 I.w hw hw64 hb
  have hS : (I.stride : Int) < 2 ^ 64 := by omega
  unfold roundDownToStrideOf
  rw [if_neg (by omega)]
  simp only [tryToI128_inRange hw hw64 hb, tryToI128_inRange hw hw64 he, Option.getD_some]
  rw [i128_of_small (z := b - I.stop) (by omega) (by omega)]
  have hb1 := trem_bounds (b - I.stop) I.stride hn
  rw [i128_of_small (z := trem (b - I.stop) I.stride + I.stride) (by omega) (by omega)]
  rw [trem_fix _ _ hn]
  have hm0 : 0 ≤ (b - I.stop) % (I.stride : Int) := Int.emod_nonneg _ (by omega)
  have hm1 : (b - I.stop) % (I.stride : Int) < I.stride := Int.emod_lt_of_pos _ hn
  rw [i128_of_small (z := b - (b - I.stop) % (I.stride : Int)) (by omega) (by omega)]
  split
  · rfl
  · rw [wrap_of_inRange I.w hw]
    unfold InRange at *; omega

/-- `round_up_to_stride_of` in closed form: the first value `≥ b` in the residue class of the start,
`None` if that lies above the signed maximum -/
theorem roundUp_eq {I : Interval} (hw : 0 < I.w) (hw64 : I.w ≤ 64) (hst : 0 < I.stride)
    (hst64 : I.stride < 2 ^ 64) (hs : InRange I.w I.start) {b : Int} (hb : InRange I.w b) :
    roundUpToStrideOf b I =
      if b + (I.start - b) % (I.stride : Int) > smax I.w then none
      else some (b + (I.start - b) % (I.stride : Int)) := by
  have hn : (0 : Int) < (I.stride : Int) := by omega
  have hi1 := inRange_le_i64 I.w hw hw64 hs
  have hi2 := inRange_le_i64 I.w hw hw64 hb
  have hS : (I.stride : Int) < 2 ^ 64 := by omega
  unfold roundUpToStrideOf
  rw [if_neg (by omega)]
  simp only [tryToI128_inRange hw hw64 hb, tryToI128_inRange hw hw64 hs, Option.getD_some]
  rw [i128_of_small (z := I.start - b) (by omega) (by omega)]
  have hb1 := trem_bounds (I.start - b) I.stride hn
  rw [i128_of_small (z := trem (I.start - b) I.stride + I.stride) (by omega) (by omega)]
  rw [trem_fix _ _ hn]
  have hm0 : 0 ≤ (I.start - b) % (I.stride : Int) := Int.emod_nonneg _ (by omega)
  have hm1 : (I.start - b) % (I.stride : Int) < I.stride := Int.emod_lt_of_pos _ hn
  rw [i128_of_small (z := b + (I.start - b) % (I.stride : Int)) (by omega) (by omega)]
  split
  · rfl
  · rw [wrap_of_inRange I.w hw]
    unfold InRange at *; omega

/-- a positive stride of a non-singleton well-formed interval -/
theorem stride_pos_or_single {I : Interval} (hI : I.WF) :
    (I.stride = 0 ∧ I.start = I.stop) ∨ (0 < I.stride ∧ I.start < I.stop) := by
  obtain ⟨_, _, _, hse, hz, _, _⟩ := hI
  rcases Nat.eq_zero_or_pos I.stride with h | h
  · exact .inl ⟨h, hz.mp h⟩
  · refine .inr ⟨h, ?_⟩
    have : ¬ I.start = I.stop := fun e => by have := hz.mpr e; omega
    omega

/-- rounding the bound of `x ≤ bound` down into the residue class of the interval: succeeds, stays
above every member below the bound and lands in the residue class -/
theorem roundDown_props {I : Interval} (hI : I.WF) (hw64 : I.w ≤ 64) {bound : Int}
    (hb : InRange I.w bound) {x : Int} (hx : I.Mem x) (hxb : x ≤ bound) :
    ∃ b', roundDownToStrideOf bound I = some b' ∧ InRange I.w b' ∧ b' ≤ bound ∧ x ≤ b' ∧
      (I.start ≤ b' → b' ≤ I.stop → (I.stride : Int) ∣ b' - I.start) := by
  have hxr := Interval.mem_inRange hI hx
  rcases stride_pos_or_single hI with ⟨h0, hss⟩ | ⟨hst, hlt⟩
  · refine ⟨bound, ?_, hb, Int.le_refl _, hxb, ?_⟩
    · unfold roundDownToStrideOf; rw [if_pos (Or.inl h0)]
    · intro h1 h2
      have : bound - I.start = 0 := by omega
      rw [this]; exact Int.dvd_zero _
  · obtain ⟨hw, hs, he, hse, hz, hd, hl⟩ := hI
    obtain ⟨hx1, hx2, hx3⟩ := hx
    have hn : (0 : Int) < (I.stride : Int) := by omega
    have hxe : (I.stride : Int) ∣ x - I.stop := by
      have : x - I.stop = (x - I.start) - (I.stop - I.start) := by omega
      rw [this]; exact Int.dvd_sub hx3 hd
    have hge := last_in_class_ge bound x I.stop I.stride hn hxb hxe
    have hm0 : 0 ≤ (bound - I.stop) % (I.stride : Int) := Int.emod_nonneg _ (by omega)
    have hdl := dvd_last_in_class bound I.stop I.stride
    rw [roundDown_eq hw hw64 hst hl he hb]
    have hnot : ¬ (bound - (bound - I.stop) % (I.stride : Int) < smin I.w) := by
      unfold InRange at hxr; omega
    rw [if_neg hnot]
    refine ⟨_, rfl, ?_, by omega, hge, ?_⟩
    · unfold InRange at *; omega
    · intro _ _
      have : bound - (bound - I.stop) % (I.stride : Int) - I.start
          = (bound - (bound - I.stop) % (I.stride : Int) - I.stop) + (I.stop - I.start) := by omega
      rw [this]; exact Int.dvd_add hdl hd

/-- mirror image of `roundDown_props` for `x ≥ bound` -/
theorem roundUp_props {I : Interval} (hI : I.WF) (hw64 : I.w ≤ 64) {bound : Int}
    (hb : InRange I.w bound) {x : Int} (hx : I.Mem x) (hxb : bound ≤ x) :
    ∃ b', roundUpToStrideOf bound I = some b' ∧ InRange I.w b' ∧ bound ≤ b' ∧ b' ≤ x ∧
      (I.start ≤ b' → b' ≤ I.stop → (I.stride : Int) ∣ I.stop - b') := by
  have hxr := Interval.mem_inRange hI hx
  rcases stride_pos_or_single hI with ⟨h0, hss⟩ | ⟨hst, hlt⟩
  · refine ⟨bound, ?_, hb, Int.le_refl _, hxb, ?_⟩
    · unfold roundUpToStrideOf; rw [if_pos (Or.inl h0)]
    · intro h1 h2
      have : I.stop - bound = 0 := by omega
      rw [this]; exact Int.dvd_zero _
  · obtain ⟨hw, hs, he, hse, hz, hd, hl⟩ := hI
    obtain ⟨hx1, hx2, hx3⟩ := hx
    have hn : (0 : Int) < (I.stride : Int) := by omega
    have hle := first_in_class_le bound x I.start I.stride hn hxb hx3
    have hm0 : 0 ≤ (I.start - bound) % (I.stride : Int) := Int.emod_nonneg _ (by omega)
    have hdf := dvd_first_in_class bound I.start I.stride
    rw [roundUp_eq hw hw64 hst hl hs hb]
    have hnot : ¬ (bound + (I.start - bound) % (I.stride : Int) > smax I.w) := by
      unfold InRange at hxr; omega
    rw [if_neg hnot]
    refine ⟨_, rfl, ?_, by omega, hle, ?_⟩
    · unfold InRange at *; omega
    · intro _ _
      have : I.stop - (bound + (I.start - bound) % (I.stride : Int))
          = (I.stop - I.start) - (bound + (I.start - bound) % (I.stride : Int) - I.start) := by omega
      rw [this]; exact Int.dvd_sub hd hdf

/-- cutting a well-formed interval at a value `b` of its residue class from above -/
theorem adjustEnd_cut {I : Interval} (hI : I.WF) (hw64 : I.w ≤ 64) {b : Int}
    (hb1 : I.start ≤ b) (hb2 : b ≤ I.stop) (hbd : (I.stride : Int) ∣ b - I.start) :
    (Interval.adjustEnd { I with stop := b }).WF ∧ (Interval.adjustEnd { I with stop := b }).w = I.w ∧
    (Interval.adjustEnd { I with stop := b }).start = I.start ∧
    (Interval.adjustEnd { I with stop := b }).stop = b ∧
    ∀ x, I.Mem x → x ≤ b → (Interval.adjustEnd { I with stop := b }).Mem x := by
  rcases stride_pos_or_single hI with ⟨h0, hss⟩ | ⟨hst, hlt⟩
  · have hbe : b = I.start := by omega
    have hJ : Interval.adjustEnd { I with stop := b } = I := by
      unfold Interval.adjustEnd
      simp only [h0, if_true]
      cases I; simp_all
    rw [hJ]
    exact ⟨hI, rfl, rfl, by omega, fun x hx _ => hx⟩
  · obtain ⟨hw, hs, he, hse, hz, hd, hl⟩ := hI
    have hbr : InRange I.w b := by unfold InRange at *; omega
    have hn : (0 : Int) < (I.stride : Int) := by omega
    have hrem : (b - I.start) % (I.stride : Int) = 0 := Int.emod_eq_zero_of_dvd hbd
    rw [adjustEnd_spec (I := { I with stop := b }) hw hw64 hs hbr hb1 hst]
    simp only [hrem, Int.sub_zero]
    refine ⟨⟨hw, hs, hbr, hb1, ?_, ?_, ?_⟩, trivial, trivial, trivial, ?_⟩
    · show (if I.start = b then 0 else I.stride) = 0 ↔ I.start = b
      by_cases h : I.start = b <;> simp [h]; omega
    · show (((if I.start = b then 0 else I.stride : Nat)) : Int) ∣ b - I.start
      by_cases h : I.start = b
      · simp [h]
      · simp only [h, if_false]; exact hbd
    · show (if I.start = b then 0 else I.stride) < 2 ^ 64
      by_cases h : I.start = b <;> simp [h]; omega
    · intro x ⟨hx1, hx2, hx3⟩ hxb
      refine ⟨hx1, hxb, ?_⟩
      show (((if I.start = b then 0 else I.stride : Nat)) : Int) ∣ x - I.start
      by_cases h : I.start = b
      · have : x = I.start := by omega
        simp [h, this]
      · simp only [h, if_false]; exact hx3

/-- cutting a well-formed interval at a value `b` of its residue class from below -/
theorem adjustStart_cut {I : Interval} (hI : I.WF) (hw64 : I.w ≤ 64) {b : Int}
    (hb1 : I.start ≤ b) (hb2 : b ≤ I.stop) (hbd : (I.stride : Int) ∣ I.stop - b) :
    (Interval.adjustStart { I with start := b }).WF ∧ (Interval.adjustStart { I with start := b }).w = I.w ∧
    (Interval.adjustStart { I with start := b }).start = b ∧
    (Interval.adjustStart { I with start := b }).stop = I.stop ∧
    ∀ x, I.Mem x → b ≤ x → (Interval.adjustStart { I with start := b }).Mem x := by
  rcases stride_pos_or_single hI with ⟨h0, hss⟩ | ⟨hst, hlt⟩
  · have hbe : b = I.stop := by omega
    have hJ : Interval.adjustStart { I with start := b } = I := by
      unfold Interval.adjustStart
      simp only [h0, if_true]
      cases I; simp_all
    rw [hJ]
    exact ⟨hI, rfl, by omega, rfl, fun x hx _ => hx⟩
  · obtain ⟨hw, hs, he, hse, hz, hd, hl⟩ := hI
    have hbr : InRange I.w b := by unfold InRange at *; omega
    have hn : (0 : Int) < (I.stride : Int) := by omega
    have hrem : (I.stop - b) % (I.stride : Int) = 0 := Int.emod_eq_zero_of_dvd hbd
    rw [adjustStart_spec (I := { I with start := b }) hw hw64 hbr he hb2 hst]
    simp only [hrem, Int.add_zero]
    refine ⟨⟨hw, hbr, he, hb2, ?_, ?_, ?_⟩, trivial, trivial, trivial, ?_⟩
    · show (if b = I.stop then 0 else I.stride) = 0 ↔ b = I.stop
      by_cases h : b = I.stop <;> simp [h]; omega
    · show (((if b = I.stop then 0 else I.stride : Nat)) : Int) ∣ I.stop - b
      by_cases h : b = I.stop
      · simp [h]
      · simp only [h, if_false]; exact hbd
    · show (if b = I.stop then 0 else I.stride) < 2 ^ 64
      by_cases h : b = I.stop <;> simp [h]; omega
    · intro x ⟨hx1, hx2, hx3⟩ hxb
      refine ⟨hxb, hx2, ?_⟩
      show (((if b = I.stop then 0 else I.stride : Nat)) : Int) ∣ x - b
      by_cases h : b = I.stop
      · have : x = b := by omega
        simp [h, this]
      · simp only [h, if_false]
        have : x - b = (x - I.start) - (I.stop - I.start) + (I.stop - b) := by omega
        rw [this]; exact Int.dvd_add (Int.dvd_sub hx3 hd) hbd

/-- **C04-sle-spec.** `add_signed_less_equal_bound` on a well-formed value of at most 64 bit and a
member `x ≤ bound`: the call succeeds, the result is well-formed, has the same width, does not
grow and still contains `x`. -/
theorem addSignedLessEqualBound_spec (a : IntervalDomain) (ha : a.WF) (hw64 : a.interval.w ≤ 64)
    (bound : Int) (hb : InRange a.interval.w bound) {x : Int} (hx : a.Mem x) (hxb : x ≤ bound) :
    ∃ r, a.addSignedLessEqualBound bound = some r ∧ r.WF ∧ r.interval.w = a.interval.w ∧
      a.interval.start ≤ r.interval.start ∧ r.interval.stop ≤ a.interval.stop ∧ r.Mem x := by
  obtain ⟨b', hr, hbr, hbb, hxb', hdvd⟩ := roundDown_props ha.1 hw64 hb hx hxb
  have hsx : a.interval.start ≤ b' := by have := hx.1; omega
  have hcut : ¬ a.interval.stop < b' → ∃ r,
      some ({ interval := Interval.adjustEnd { a.interval with stop := b' }, upper := none,
                lower := a.lower, delay := a.delay } : IntervalDomain) = some r ∧ r.WF ∧ r.interval.w = a.interval.w ∧
      a.interval.start ≤ r.interval.start ∧ r.interval.stop ≤ a.interval.stop ∧ r.Mem x := by
    intro hlt
    have hle : b' ≤ a.interval.stop := by omega
    obtain ⟨c1, c2, c3, c4, c5⟩ := adjustEnd_cut ha.1 hw64 hsx hle (hdvd hsx hle)
    refine ⟨_, rfl, ⟨c1, fun u h => (by cases h), ?_, ha.2.2.2⟩, c2, ?_, ?_, c5 x hx hxb'⟩
    · intro l h; show InRange (Interval.adjustEnd _).w l; rw [c2]; exact ha.2.2.1 l h
    · show a.interval.start ≤ (Interval.adjustEnd _).start; rw [c3]; exact Int.le_refl _
    · show (Interval.adjustEnd _).stop ≤ a.interval.stop; rw [c4]; exact hle
  have hself : a.WF ∧ a.interval.w = a.interval.w ∧
      a.interval.start ≤ a.interval.start ∧ a.interval.stop ≤ a.interval.stop ∧ a.Mem x :=
    ⟨ha, rfl, Int.le_refl _, Int.le_refl _, hx⟩
  have hupd : ({ a with upper := some b' } : IntervalDomain).WF :=
    ⟨ha.1, fun u h => by cases h; exact hbr, ha.2.2.1, ha.2.2.2⟩
  unfold IntervalDomain.addSignedLessEqualBound
  rw [hr]
  simp only
  cases hup : a.upper with
  | some old =>
    simp only
    split
    · exact ⟨a, rfl, hself⟩
    · split
      · exact ⟨_, rfl, hupd, rfl, Int.le_refl _, Int.le_refl _, hx⟩
      · rename_i h; exact hcut h
  | none =>
    simp only
    split
    · exact ⟨_, rfl, hupd, rfl, Int.le_refl _, Int.le_refl _, hx⟩
    · rename_i h; exact hcut h

/-- **C04-sge-spec.** `add_signed_greater_equal_bound` on a well-formed value of at most 64 bit and
a member `x ≥ bound`: the call succeeds, the result is well-formed, has the same width, does not
grow and still contains `x`. -/
theorem addSignedGreaterEqualBound_spec (a : IntervalDomain) (ha : a.WF) (hw64 : a.interval.w ≤ 64)
    (bound : Int) (hb : InRange a.interval.w bound) {x : Int} (hx : a.Mem x) (hxb : x ≥ bound) :
    ∃ r, a.addSignedGreaterEqualBound bound = some r ∧ r.WF ∧ r.interval.w = a.interval.w ∧
      a.interval.start ≤ r.interval.start ∧ r.interval.stop ≤ a.interval.stop ∧ r.Mem x := by
  obtain ⟨b', hr, hbr, hbb, hxb', hdvd⟩ := roundUp_props ha.1 hw64 hb hx hxb
  have hsx : a.interval.stop ≥ b' := by have := hx.2.1; omega
  have hcut : ¬ a.interval.start > b' → ∃ r,
      some ({ interval := Interval.adjustStart { a.interval with start := b' }, upper := a.upper,
                lower := none, delay := a.delay } : IntervalDomain) = some r ∧
      r.WF ∧ r.interval.w = a.interval.w ∧
      a.interval.start ≤ r.interval.start ∧ r.interval.stop ≤ a.interval.stop ∧ r.Mem x := by
    intro hlt
    have hle : a.interval.start ≤ b' := by omega
    obtain ⟨c1, c2, c3, c4, c5⟩ := adjustStart_cut ha.1 hw64 hle hsx (hdvd hle hsx)
    refine ⟨_, rfl, ⟨c1, ?_, fun u h => (by cases h), ha.2.2.2⟩, c2, ?_, ?_, c5 x hx hxb'⟩
    · intro l h; show InRange (Interval.adjustStart _).w l; rw [c2]; exact ha.2.1 l h
    · show a.interval.start ≤ (Interval.adjustStart _).start; rw [c3]; exact hle
    · show (Interval.adjustStart _).stop ≤ a.interval.stop; rw [c4]; exact Int.le_refl _
  have hself : a.WF ∧ a.interval.w = a.interval.w ∧
      a.interval.start ≤ a.interval.start ∧ a.interval.stop ≤ a.interval.stop ∧ a.Mem x :=
    ⟨ha, rfl, Int.le_refl _, Int.le_refl _, hx⟩
  have hupd : ({ a with lower := some b' } : IntervalDomain).WF :=
    ⟨ha.1, ha.2.1, fun u h => by cases h; exact hbr, ha.2.2.2⟩
  unfold IntervalDomain.addSignedGreaterEqualBound
  rw [hr]
  simp only
  cases hup : a.lower with
  | some old =>
    simp only
    split
    · exact ⟨a, rfl, hself⟩
    · split
      · exact ⟨_, rfl, hupd, rfl, Int.le_refl _, Int.le_refl _, hx⟩
      · rename_i h; exact hcut h
  | none =>
    simp only
    split
    · exact ⟨_, rfl, hupd, rfl, Int.le_refl _, Int.le_refl _, hx⟩
    · rename_i h; exact hcut h

/-- **C04-sle-sound.** A member `x ≤ bound` survives `add_signed_less_equal_bound`. -/
theorem addSignedLessEqualBound_sound (a : IntervalDomain) (ha : a.WF) (hw64 : a.interval.w ≤ 64)
    (bound : Int) (hb : InRange a.interval.w bound) {x : Int} (hx : a.Mem x) (hxb : x ≤ bound) :
    ∃ r, a.addSignedLessEqualBound bound = some r ∧ r.Mem x := by
  obtain ⟨r, h1, _, _, _, _, h2⟩ := addSignedLessEqualBound_spec a ha hw64 bound hb hx hxb
  exact ⟨r, h1, h2⟩

/-- **C04-sge-sound.** A member `x ≥ bound` survives `add_signed_greater_equal_bound`. -/
theorem addSignedGreaterEqualBound_sound (a : IntervalDomain) (ha : a.WF) (hw64 : a.interval.w ≤ 64)
    (bound : Int) (hb : InRange a.interval.w bound) {x : Int} (hx : a.Mem x) (hxb : x ≥ bound) :
    ∃ r, a.addSignedGreaterEqualBound bound = some r ∧ r.Mem x := by
  obtain ⟨r, h1, _, _, _, _, h2⟩ := addSignedGreaterEqualBound_spec a ha hw64 bound hb hx hxb
  exact ⟨r, h1, h2⟩

theorem inRange_zero {w : Nat} : InRange w 0 := by
  have := pow2_pos (w - 1); unfold InRange smin smax; omega

theorem inRange_neg_one {w : Nat} : InRange w (-1) := by
  have := pow2_pos (w - 1); unfold InRange smin smax; omega

/-- the unsigned reading of a value in range, as a case distinction `omega` can use -/
theorem toU_cases {w : Nat} (hw : 0 < w) {x : Int} (hx : InRange w x) :
    (x < 0 ∧ (toU w x : Int) = x + pow2 w) ∨ (0 ≤ x ∧ (toU w x : Int) = x) := by
  have h := toU_of_inRange w hw hx
  by_cases h0 : x < 0
  · rw [if_pos h0] at h; exact .inl ⟨h0, h⟩
  · rw [if_neg h0] at h; exact .inr ⟨by omega, h⟩

/-- **C04-ule-sound.** A member `x` with `x ≤ᵤ bound` survives `add_unsigned_less_equal_bound`. -/
theorem addUnsignedLessEqualBound_sound (a : IntervalDomain) (ha : a.WF) (hw64 : a.interval.w ≤ 64)
    (bound : Int) (hb : InRange a.interval.w bound) {x : Int} (hx : a.Mem x)
    (hxb : toU a.interval.w x ≤ toU a.interval.w bound) :
    ∃ r, a.addUnsignedLessEqualBound bound = some r ∧ r.Mem x := by
  have hw := ha.1.1
  have hxr := Interval.mem_inRange ha.1 hx
  have hp := pow2_pos (a.interval.w - 1)
  have h2 := pow2_eq a.interval.w hw
  have hux := toU_cases hw hxr
  have hub := toU_cases hw hb
  have hxb' : (toU a.interval.w x : Int) ≤ toU a.interval.w bound := Int.ofNat_le.mpr hxb
  have hx1 := hx.1
  have hx2 := hx.2.1
  unfold InRange smin smax at hxr hb
  unfold IntervalDomain.addUnsignedLessEqualBound
  split
  · split
    · exact addSignedLessEqualBound_sound a ha hw64 bound hb hx (by omega)
    · split
      · exact ⟨a, rfl, hx⟩
      · exact addSignedGreaterEqualBound_sound a ha hw64 0 inRange_zero hx (by omega)
  · obtain ⟨r1, e1, wf1, w1, _, _, m1⟩ :=
      addSignedGreaterEqualBound_spec a ha hw64 0 inRange_zero hx (by omega)
    rw [e1]
    simp only
    exact addSignedLessEqualBound_sound r1 wf1 (by rw [w1]; exact hw64) bound (by rw [w1]; exact hb) m1
      (by omega)

/-- **C04-uge-sound.** A member `x` with `x ≥ᵤ bound` survives `add_unsigned_greater_equal_bound`. -/
theorem addUnsignedGreaterEqualBound_sound (a : IntervalDomain) (ha : a.WF) (hw64 : a.interval.w ≤ 64)
    (bound : Int) (hb : InRange a.interval.w bound) {x : Int} (hx : a.Mem x)
    (hxb : toU a.interval.w x ≥ toU a.interval.w bound) :
    ∃ r, a.addUnsignedGreaterEqualBound bound = some r ∧ r.Mem x := by
  have hw := ha.1.1
  have hxr := Interval.mem_inRange ha.1 hx
  have hp := pow2_pos (a.interval.w - 1)
  have h2 := pow2_eq a.interval.w hw
  have hux := toU_cases hw hxr
  have hub := toU_cases hw hb
  have hxb' : (toU a.interval.w x : Int) ≥ toU a.interval.w bound := Int.ofNat_le.mpr hxb
  have hx1 := hx.1
  have hx2 := hx.2.1
  unfold InRange smin smax at hxr hb
  unfold IntervalDomain.addUnsignedGreaterEqualBound
  split
  · obtain ⟨r1, e1, wf1, w1, _, _, m1⟩ :=
      addSignedLessEqualBound_spec a ha hw64 (-1) inRange_neg_one hx (by omega)
    rw [e1]
    simp only
    exact addSignedGreaterEqualBound_sound r1 wf1 (by rw [w1]; exact hw64) bound (by rw [w1]; exact hb) m1
      (by omega)
  · split
    · exact addSignedLessEqualBound_sound a ha hw64 (-1) inRange_neg_one hx (by omega)
    · split
      · exact ⟨a, rfl, hx⟩
      · exact addSignedGreaterEqualBound_sound a ha hw64 bound hb hx (by omega)

/-- the remainder of a number one below a positive multiple of `n` -/
theorem emod_pred_of_dvd {d n : Int} (hn : 0 < n) (hd : n ∣ d) : (d - 1) % n = n - 1 := by
  have h1 : (d - 1) % n = (n - 1) % n := by
    apply Int.emod_eq_emod_iff_emod_sub_eq_zero.mpr
    have : d - 1 - (n - 1) = d - n := by omega
    rw [this]
    exact Int.emod_eq_zero_of_dvd (Int.dvd_sub hd (Int.dvd_refl _))
  rw [h1]
  exact Int.emod_eq_of_lt (by omega) (by omega)

/-- excluding the start of a non-singleton interval: `adjust_start_to_value_in_stride` moves the
start `start + 1` on to the next member `start + stride` -/
theorem adjustStart_next {I : Interval} (hI : I.WF) (hw64 : I.w ≤ 64) (hlt : I.start < I.stop)
    {x : Int} (hx : I.Mem x) (hne : x ≠ I.start) :
    (Interval.adjustStart { I with start := wrap I.w (I.start + 1) }).Mem x := by
  obtain ⟨hw, hs, he, hse, hz, hd, hl⟩ := hI
  obtain ⟨hx1, hx2, hx3⟩ := hx
  have hst : 0 < I.stride := by
    rcases Nat.eq_zero_or_pos I.stride with h | h
    · have := hz.mp h; omega
    · exact h
  have hn : (0 : Int) < (I.stride : Int) := by omega
  have hsr : InRange I.w (I.start + 1) := by unfold InRange at *; omega
  rw [wrap_of_inRange I.w hw hsr]
  rw [adjustStart_spec (I := { I with start := I.start + 1 }) hw hw64 hsr he (by simp only; omega) hst]
  simp only
  have hrem : (I.stop - (I.start + 1)) % (I.stride : Int) = (I.stride : Int) - 1 := by
    have : I.stop - (I.start + 1) = (I.stop - I.start) - 1 := by omega
    rw [this]; exact emod_pred_of_dvd hn hd
  rw [hrem]
  have hnorm : I.start + 1 + ((I.stride : Int) - 1) = I.start + (I.stride : Int) := by omega
  rw [hnorm]
  have hge : (I.stride : Int) ≤ x - I.start := Int.le_of_dvd (by omega) hx3
  refine ⟨by show I.start + (I.stride : Int) ≤ x; omega, hx2, ?_⟩
  show (((if I.start + (I.stride : Int) = I.stop then 0 else I.stride : Nat)) : Int) ∣
    x - (I.start + (I.stride : Int))
  by_cases h : I.start + (I.stride : Int) = I.stop
  · have : x - (I.start + (I.stride : Int)) = 0 := by omega
    rw [if_pos h, this]; exact Int.dvd_zero _
  · simp only [h, if_false]
    have : x - (I.start + (I.stride : Int)) = (x - I.start) - (I.stride : Int) := by omega
    rw [this]; exact Int.dvd_sub hx3 (Int.dvd_refl _)

/-- excluding the end of a non-singleton interval: `adjust_end_to_value_in_stride` moves the end
`end - 1` back to the previous member `end - stride` -/
theorem adjustEnd_prev {I : Interval} (hI : I.WF) (hw64 : I.w ≤ 64) (hlt : I.start < I.stop)
    {x : Int} (hx : I.Mem x) (hne : x ≠ I.stop) :
    (Interval.adjustEnd { I with stop := wrap I.w (I.stop - 1) }).Mem x := by
  obtain ⟨hw, hs, he, hse, hz, hd, hl⟩ := hI
  obtain ⟨hx1, hx2, hx3⟩ := hx
  have hst : 0 < I.stride := by
    rcases Nat.eq_zero_or_pos I.stride with h | h
    · have := hz.mp h; omega
    · exact h
  have hn : (0 : Int) < (I.stride : Int) := by omega
  have her : InRange I.w (I.stop - 1) := by unfold InRange at *; omega
  rw [wrap_of_inRange I.w hw her]
  rw [adjustEnd_spec (I := { I with stop := I.stop - 1 }) hw hw64 hs her (by simp only; omega) hst]
  simp only
  have hrem : (I.stop - 1 - I.start) % (I.stride : Int) = (I.stride : Int) - 1 := by
    have : I.stop - 1 - I.start = (I.stop - I.start) - 1 := by omega
    rw [this]; exact emod_pred_of_dvd hn hd
  rw [hrem]
  have hnorm : I.stop - 1 - ((I.stride : Int) - 1) = I.stop - (I.stride : Int) := by omega
  rw [hnorm]
  have hxe : (I.stride : Int) ∣ I.stop - x := by
    have : I.stop - x = (I.stop - I.start) - (x - I.start) := by omega
    rw [this]; exact Int.dvd_sub hd hx3
  have hge : (I.stride : Int) ≤ I.stop - x := Int.le_of_dvd (by omega) hxe
  refine ⟨hx1, by show x ≤ I.stop - (I.stride : Int); omega, ?_⟩
  show (((if I.start = I.stop - (I.stride : Int) then 0 else I.stride : Nat)) : Int) ∣ x - I.start
  by_cases h : I.start = I.stop - (I.stride : Int)
  · have : x - I.start = 0 := by omega
    rw [if_pos h, this]; exact Int.dvd_zero _
  · simp only [h, if_false]; exact hx3

/-- **C04-ne-sound.** A member `x ≠ bound` survives `add_not_equal_bound`. -/
theorem addNotEqualBound_sound (a : IntervalDomain) (ha : a.WF) (hw64 : a.interval.w ≤ 64)
    (bound : Int) (hb : InRange a.interval.w bound) {x : Int} (hx : a.Mem x) (hxb : x ≠ bound) :
    ∃ r, a.addNotEqualBound bound = some r ∧ r.Mem x := by
  have hw := ha.1.1
  have hs := ha.1.2.1
  have he := ha.1.2.2.1
  have hx1 := hx.1
  have hx2 := hx.2.1
  unfold IntervalDomain.addNotEqualBound
  simp only
  split
  · omega
  · split
    · have hr : InRange a.interval.w (bound + 1) := by unfold InRange at *; omega
      rw [wrap_of_inRange _ hw hr]
      exact addSignedGreaterEqualBound_sound a ha hw64 (bound + 1) hr hx (by omega)
    · split
      · exact ⟨_, rfl, adjustStart_next ha.1 hw64 (by omega) hx (by omega)⟩
      · split
        · have hr : InRange a.interval.w (bound - 1) := by unfold InRange at *; omega
          rw [wrap_of_inRange _ hw hr]
          exact addSignedLessEqualBound_sound a ha hw64 (bound - 1) hr hx (by omega)
        · split
          · exact ⟨_, rfl, adjustEnd_prev ha.1 hw64 (by omega) hx (by omega)⟩
          · exact ⟨a, rfl, hx⟩

/-- **C04-bound-sound.** All five refinements of `SpecializeByConditional for IntervalDomain`: on a
well-formed value of at most 64 bit, a member `x` for which the comparison `R x bound` holds is a
member of the result, and the result exists (the refinement does not report "unsatisfiable"). -/
theorem addBound_sound (k : BoundKind) (a : IntervalDomain) (ha : a.WF) (hw64 : a.interval.w ≤ 64)
    (bound : Int) (hb : InRange a.interval.w bound) {x : Int} (hx : a.Mem x)
    (hR : k.holds a.interval.w x bound) : ∃ r, a.addBound k bound = some r ∧ r.Mem x := by
  cases k with
  | sle => exact addSignedLessEqualBound_sound a ha hw64 bound hb hx hR
  | sge => exact addSignedGreaterEqualBound_sound a ha hw64 bound hb hx hR
  | ule => exact addUnsignedLessEqualBound_sound a ha hw64 bound hb hx hR
  | uge => exact addUnsignedGreaterEqualBound_sound a ha hw64 bound hb hx hR
  | ne => exact addNotEqualBound_sound a ha hw64 bound hb hx hR

/-! ### non-vacuity: the hypotheses are satisfiable and the refinements do cut -/

/-- the two-element value `{-127, 2}` (8 bit, stride 129) -/
def exTwo : IntervalDomain := ⟨⟨8, -127, 2, 129⟩, none, none, 0⟩

theorem exTwo_wf : exTwo.WF :=
  ⟨by decide, fun u h => (by cases h), fun l h => (by cases h), by decide⟩

-- `x = -127 ≤ 1`: the bound 1 is rounded down to -127, the result is the singleton `{-127}`
example : ∃ r, exTwo.addSignedLessEqualBound 1 = some r ∧ r.Mem (-127) :=
  addSignedLessEqualBound_sound exTwo exTwo_wf (by decide) 1 (by decide) (by decide) (by decide)
example : exTwo.addSignedLessEqualBound 1 = some ⟨⟨8, -127, -127, 0⟩, none, none, 0⟩ := by decide
-- `x = 2 ≥ -100`: rounded up to 2
example : ∃ r, exTwo.addSignedGreaterEqualBound (-100) = some r ∧ r.Mem 2 :=
  addSignedGreaterEqualBound_sound exTwo exTwo_wf (by decide) (-100) (by decide) (by decide) (by decide)
example : exTwo.addSignedGreaterEqualBound (-100) = some ⟨⟨8, 2, 2, 0⟩, none, none, 0⟩ := by decide
-- unsigned: `-127` reads as 129 ≥ 3, `2 ≤ᵤ 3`
example : ∃ r, exTwo.addBound .uge 3 = some r ∧ r.Mem (-127) :=
  addBound_sound .uge exTwo exTwo_wf (by decide) 3 (by decide) (by decide) (by decide)
example : ∃ r, exTwo.addBound .ule 3 = some r ∧ r.Mem 2 :=
  addBound_sound .ule exTwo exTwo_wf (by decide) 3 (by decide) (by decide) (by decide)
example : exTwo.addUnsignedLessEqualBound 3 = some ⟨⟨8, 2, 2, 0⟩, some 3, none, 0⟩ := by decide
-- excluding the start moves it to the next member
example : ∃ r, exTwo.addNotEqualBound (-127) = some r ∧ r.Mem 2 :=
  addNotEqualBound_sound exTwo exTwo_wf (by decide) (-127) (by decide) (by decide) (by decide)
example : exTwo.addNotEqualBound (-127) = some ⟨⟨8, 2, 2, 0⟩, none, none, 0⟩ := by decide
-- the refinement reports "unsatisfiable" only when no member satisfies the comparison
example : exTwo.addSignedLessEqualBound (-128) = none := by decide

end CweModel.C04
