/-
C04 — the chinese-remainder computation of `compute_intersection_residue_class` never gives up
(`Err("Integer overflow …")`) when the stride of the intersection, `lcm(stride_left, stride_right)`,
fits into a `u64`:

* `extendedGcd_spec`: `extended_gcd(a, b)` for `u64` operands returns `(gcd, x, y)` with the Bezout
  identity `gcd = x·a + y·b` and the coefficient bounds `2·gcd·|x| ≤ b`, `2·gcd·|y| ≤ a` (or `a ∣ b` and
  `(x, y) = (1, 0)`); no `i128` operation of the recursion wraps,
* `residueClass_eq`: for `lcm ≤ u64::MAX` no `i128` product/sum of the residue computation wraps, the
  candidate satisfies both congruences and therefore passes the code's own verification.
-/
import CweModel.C04.Bounds

namespace CweModel.C04
open CweModel.Itv CweModel.C02

/-! ### small arithmetic helpers -/

/-- cancel a positive factor in a two-sided bound -/
theorem abs_le_of_mul_abs_le {g z m : Int} (hg : 1 ≤ g) (h1 : -m ≤ g * z) (h2 : g * z ≤ m) :
    -m ≤ z ∧ z ≤ m := by
  rcases Int.le_total 0 z with hz | hz
  · have : 1 * z ≤ g * z := Int.mul_le_mul_of_nonneg_right hg hz
    omega
  · have : g * z ≤ 1 * z := Int.mul_le_mul_of_nonpos_right hg hz
    omega

/-- two-sided bound of a product from two-sided bounds of the factors -/
theorem mul_abs_le {u v U V : Int} (hu1 : -U ≤ u) (hu2 : u ≤ U) (hv1 : -V ≤ v) (hv2 : v ≤ V) :
    -(U * V) ≤ u * v ∧ u * v ≤ U * V := by
  have hU : 0 ≤ U := by omega
  have hV : 0 ≤ V := by omega
  rcases Int.le_total 0 u with h | h <;> rcases Int.le_total 0 v with h' | h'
  · have a1 : u * v ≤ U * v := Int.mul_le_mul_of_nonneg_right hu2 h'
    have a2 : U * v ≤ U * V := Int.mul_le_mul_of_nonneg_left hv2 hU
    have a3 : 0 ≤ u * v := Int.mul_nonneg h h'
    have a4 : 0 ≤ U * V := Int.mul_nonneg hU hV
    omega
  · have a0 : u * v = -(u * (-v)) := by rw [Int.mul_neg]; omega
    have a1 : u * (-v) ≤ U * (-v) := Int.mul_le_mul_of_nonneg_right hu2 (by omega)
    have a2 : U * (-v) ≤ U * V := Int.mul_le_mul_of_nonneg_left (by omega) hU
    have a3 : 0 ≤ u * (-v) := Int.mul_nonneg h (by omega)
    have a4 : 0 ≤ U * V := Int.mul_nonneg hU hV
    omega
  · have a0 : u * v = -((-u) * v) := by rw [Int.neg_mul]; omega
    have a1 : (-u) * v ≤ U * v := Int.mul_le_mul_of_nonneg_right (by omega) h'
    have a2 : U * v ≤ U * V := Int.mul_le_mul_of_nonneg_left hv2 hU
    have a3 : 0 ≤ (-u) * v := Int.mul_nonneg (by omega) h'
    have a4 : 0 ≤ U * V := Int.mul_nonneg hU hV
    omega
  · have a0 : u * v = (-u) * (-v) := by rw [Int.neg_mul_neg]
    have a1 : (-u) * (-v) ≤ U * (-v) := Int.mul_le_mul_of_nonneg_right (by omega) (by omega)
    have a2 : U * (-v) ≤ U * V := Int.mul_le_mul_of_nonneg_left (by omega) hU
    have a3 : 0 ≤ (-u) * (-v) := Int.mul_nonneg (by omega) (by omega)
    have a4 : 0 ≤ U * V := Int.mul_nonneg hU hV
    omega

theorem trem_natCast (b a : Nat) : trem (b : Int) (a : Int) = ((b % a : Nat) : Int) := by
  unfold trem
  rw [Int.tmod_eq_emod_of_nonneg (by omega), Int.natCast_emod]

theorem tquot_nonneg {b a : Int} (hb : 0 ≤ b) : tquot b a = b / a := by
  unfold tquot; exact Int.tdiv_eq_ediv_of_nonneg hb

theorem trem_nonneg {b a : Int} (hb : 0 ≤ b) : trem b a = b % a := by
  unfold trem; exact Int.tmod_eq_emod_of_nonneg hb

theorem extendedGcdAux_zero (fuel : Nat) (b : Int) : extendedGcdAux fuel 0 b = (b, 0, 1) := by
  cases fuel <;> simp [extendedGcdAux]

/-! ### `extended_gcd`: Bezout identity and coefficient bounds -/

theorem extendedGcdAux_fst (fuel a b : Nat) (h : a < fuel) :
    (extendedGcdAux fuel (a : Int) (b : Int)).1 = ((Nat.gcd a b : Nat) : Int) := by
  induction fuel generalizing a b with
  | zero => omega
  | succ f ih =>
    unfold extendedGcdAux
    by_cases ha : a = 0
    · subst ha; simp
    · have ha' : ¬ ((a : Int) = 0) := by omega
      rw [if_neg ha']
      simp only
      rw [trem_natCast]
      have hlt : b % a < f := by
        have := Nat.mod_lt b (show 0 < a by omega); omega
      rw [ih (b % a) a hlt, Nat.gcd_rec a b]

theorem extendedGcd_fst (a b : Nat) : (extendedGcd (a : Int) (b : Int)).1 = ((Nat.gcd a b : Nat) : Int) := by
  unfold extendedGcd
  exact extendedGcdAux_fst _ a b (by omega)

/-- the invariant of the Euclid recursion as the code implements it -/
def BezoutOK (a b g x y : Int) : Prop :=
  g = x * a + y * b ∧
  ((a ∣ b ∧ x = 1 ∧ y = 0) ∨ (-b ≤ 2 * (g * x) ∧ 2 * (g * x) ≤ b ∧ -a ≤ 2 * (g * y) ∧ 2 * (g * y) ≤ a))

theorem extendedGcdAux_spec (fuel a b : Nat) (ha : 0 < a) (hb : 0 < b) (ha64 : a < 2 ^ 64) (hb64 : b < 2 ^ 64)
    (h : a < fuel) :
    ∃ x y : Int, extendedGcdAux fuel (a : Int) (b : Int) = (((Nat.gcd a b : Nat) : Int), x, y) ∧
      BezoutOK a b (Nat.gcd a b : Nat) x y := by
  induction fuel generalizing a b with
  | zero => omega
  | succ f ih =>
    unfold extendedGcdAux
    have ha' : ¬ ((a : Int) = 0) := by omega
    rw [if_neg ha']
    simp only
    rw [trem_natCast, tquot_nonneg (by omega)]
    have hdm : (b : Int) = (a : Int) * ((b : Int) / (a : Int)) + ((b % a : Nat) : Int) := by
      have := Int.mul_ediv_add_emod (b : Int) (a : Int)
      rw [Int.natCast_emod]; omega
    have hq0 : 0 ≤ (b : Int) / (a : Int) := Int.ediv_nonneg (by omega) (by omega)
    have hr_lt : b % a < a := Nat.mod_lt b ha
    by_cases hr : b % a = 0
    · -- a ∣ b
      rw [hr]
      rw [show ((0 : Nat) : Int) = 0 from rfl, extendedGcdAux_zero]
      simp only
      have hdvd : a ∣ b := Nat.dvd_of_mod_eq_zero hr
      have hg : Nat.gcd a b = a := Nat.gcd_eq_left hdvd
      refine ⟨1, 0, ?_, ?_, .inl ⟨Int.natCast_dvd_natCast.mpr hdvd, rfl, rfl⟩⟩
      · rw [hg, Int.mul_zero, i128_of_small (z := 0) (by omega) (by omega),
          i128_of_small (z := 1 - 0) (by omega) (by omega)]
        rfl
      · rw [hg]; omega
    · have hrpos : 0 < b % a := Nat.pos_of_ne_zero hr
      obtain ⟨x', y', he, hbez, hbd⟩ := ih (b % a) a hrpos ha (by omega) ha64 (by omega)
      rw [he]
      simp only
      have hgg : Nat.gcd (b % a) a = Nat.gcd a b := (Nat.gcd_rec a b).symm
      rw [hgg] at hbez hbd ⊢
      have hgpos : 0 < Nat.gcd a b := Nat.gcd_pos_of_pos_left _ ha
      have hg1 : (1 : Int) ≤ ((Nat.gcd a b : Nat) : Int) := by omega
      generalize ((Nat.gcd a b : Nat) : Int) = g at *
      generalize (b : Int) / (a : Int) = q at *
      generalize hR : ((b % a : Nat) : Int) = r at *
      have hr0 : 0 < r := by omega
      have hra : r < (a : Int) := by omega
      have hA64 : (a : Int) < 2 ^ 64 := by exact_mod_cast ha64
      have hB64 : (b : Int) < 2 ^ 64 := by exact_mod_cast hb64
      generalize (a : Int) = A at *
      generalize (b : Int) = B at *
      have hqA : 0 ≤ A * q := Int.mul_nonneg (by omega) hq0
      have hqle : 1 * q ≤ A * q := Int.mul_le_mul_of_nonneg_right (by omega) hq0
      rcases hbd with ⟨hdv, hx1, hy0⟩ | ⟨b1, b2, b3, b4⟩
      · -- r ∣ a: inner result (r, 1, 0)
        subst hx1; subst hy0
        have hgr : g = r := by omega
        subst hgr
        rw [Int.mul_one, i128_of_small (z := q) (by omega) (by omega),
          i128_of_small (z := 0 - q) (by omega) (by omega)]
        refine ⟨0 - q, 1, rfl, ?_, .inr ?_⟩
        · rw [Int.sub_mul, Int.mul_comm q A]; omega
        · obtain ⟨k, hk⟩ := hdv
          have hk2 : 2 ≤ k := by
            by_cases h' : k < 2
            · have : g * k ≤ g * 1 := Int.mul_le_mul_of_nonneg_left (by omega) (by omega)
              omega
            · omega
          have h2r : g * 2 ≤ g * k := Int.mul_le_mul_of_nonneg_left hk2 (by omega)
          have h3 : g * 2 * q ≤ A * q := Int.mul_le_mul_of_nonneg_right (by omega) hq0
          have e1 : g * (0 - q) = -(g * q) := by rw [Int.zero_sub, Int.mul_neg]
          have e2 : g * 2 * q = 2 * (g * q) := by
            rw [Int.mul_comm g 2, Int.mul_assoc]
          have hgq : 0 ≤ g * q := Int.mul_nonneg (by omega) hq0
          rw [e1]
          omega
      · -- general step
        have hx'b := abs_le_of_mul_abs_le (g := 2 * g) (z := x') (m := A) (by omega)
          (by rw [Int.mul_assoc]; omega) (by rw [Int.mul_assoc]; omega)
        have hy'b := abs_le_of_mul_abs_le (g := 2 * g) (z := y') (m := r) (by omega)
          (by rw [Int.mul_assoc]; omega) (by rw [Int.mul_assoc]; omega)
        -- q * (2 g x') within ± q*A
        have hqx := mul_abs_le (u := q) (v := 2 * (g * x')) (U := q) (V := A) (by omega) (by omega) b1 b2
        have hqx' := mul_abs_le (u := q) (v := x') (U := q) (V := A) (by omega) (by omega) hx'b.1 hx'b.2
        have hqAc : q * A = A * q := Int.mul_comm _ _
        rw [i128_of_small (z := q * x') (by omega) (by omega),
          i128_of_small (z := y' - q * x') (by omega) (by omega)]
        refine ⟨y' - q * x', x', rfl, ?_, .inr ?_⟩
        · subst hdm; rw [hbez]; grind
        · have e : 2 * (g * (y' - q * x')) = 2 * (g * y') - q * (2 * (g * x')) := by
            rw [Int.mul_sub, Int.mul_sub]
            have : g * (q * x') = q * (g * x') := Int.mul_left_comm _ _ _
            rw [this, Int.mul_left_comm 2 q]
          rw [e]
          omega

/-- **C04-extended-gcd.** `extended_gcd(a, b)` for positive `u64` operands: the first component is the
gcd, the coefficients satisfy `gcd = x·a + y·b` and either `a ∣ b ∧ (x, y) = (1, 0)` or
`2·gcd·|x| ≤ b ∧ 2·gcd·|y| ≤ a`. (The `i128` subtraction/multiplication of the recursion are modelled
with wrap; the bounds show they never wrap.) -/
theorem extendedGcd_spec (a b : Nat) (ha : 0 < a) (hb : 0 < b) (ha64 : a < 2 ^ 64) (hb64 : b < 2 ^ 64) :
    ∃ x y : Int, extendedGcd (a : Int) (b : Int) = (((Nat.gcd a b : Nat) : Int), x, y) ∧
      BezoutOK a b (Nat.gcd a b : Nat) x y := by
  unfold extendedGcd
  exact extendedGcdAux_spec _ a b ha hb ha64 hb64 (by omega)

/-! ### the chinese-remainder candidate: no `i128` overflow, both congruences -/

/-- bounds on the `i128` products of the residue computation: with `sl = g·p`, `sr = g·q`,
`L = g·p·q ≤ u64::MAX`, the Bezout products `li·sl`, `ri·sr` and the two candidate summands
`(br/g)·(li·sl)`, `(bl/g)·(ri·sr)` stay inside `(-2^127, 2^127)`. -/
theorem crt_bounds (sl sr g p q L li ri bl br : Int) (hg : 1 ≤ g) (hp : 1 ≤ p) (hq : 1 ≤ q)
    (hsl : sl = g * p) (hsr : sr = g * q) (hL : L = g * p * q) (hL64 : L < 2 ^ 64)
    (hsl64 : sl < 2 ^ 64) (hsr64 : sr < 2 ^ 64)
    (hbez : g = li * sl + ri * sr)
    (hbd : (sl ∣ sr ∧ li = 1 ∧ ri = 0) ∨
      (-sr ≤ 2 * (g * li) ∧ 2 * (g * li) ≤ sr ∧ -sl ≤ 2 * (g * ri) ∧ 2 * (g * ri) ≤ sl))
    (hbl0 : 0 ≤ bl) (hbl1 : bl < sl) (hbr0 : 0 ≤ br) (hbr1 : br < sr) :
    (-(2 ^ 64) < li * sl ∧ li * sl < 2 ^ 64) ∧ (-(2 ^ 64) < ri * sr ∧ ri * sr < 2 ^ 64) ∧
    (-(2 ^ 127) < br / g * (li * sl) ∧ br / g * (li * sl) < 2 ^ 127) ∧
    (-(2 ^ 127) < bl / g * (ri * sr) ∧ bl / g * (ri * sr) < 2 ^ 127) := by
  have hbrg0 : 0 ≤ br / g := Int.ediv_nonneg hbr0 (by omega)
  have hblg0 : 0 ≤ bl / g := Int.ediv_nonneg hbl0 (by omega)
  have hbrg1 : br / g ≤ br := Int.ediv_le_self _ hbr0
  have hblg1 : bl / g ≤ bl := Int.ediv_le_self _ hbl0
  rcases hbd with ⟨_, h1, h0⟩ | ⟨b1, b2, b3, b4⟩
  · subst h1; subst h0
    have hgs : g = sl := by omega
    subst hgs
    rw [Int.one_mul, Int.zero_mul, Int.mul_zero]
    have : br / g * g ≤ br := Int.ediv_mul_le _ (by omega)
    have : 0 ≤ br / g * g := Int.mul_nonneg hbrg0 (by omega)
    refine ⟨by omega, by omega, by omega, by omega⟩
  · have hA := mul_abs_le (u := 2 * (g * li)) (v := p) (U := sr) (V := p) b1 b2 (by omega) (by omega)
    have hB := mul_abs_le (u := 2 * (g * ri)) (v := q) (U := sl) (V := q) b3 b4 (by omega) (by omega)
    have eA : 2 * (g * li) * p = 2 * (li * sl) := by subst hsl; grind
    have eB : 2 * (g * ri) * q = 2 * (ri * sr) := by subst hsr; grind
    have eL1 : sr * p = L := by subst hsr; subst hL; grind
    have eL2 : sl * q = L := by subst hsl; subst hL; grind
    rw [eA, eL1] at hA
    rw [eB, eL2] at hB
    have hP1 := mul_abs_le (u := br / g) (v := li * sl) (U := 2 ^ 64 - 1) (V := 2 ^ 63 - 1)
      (by omega) (by omega) (by omega) (by omega)
    have hP2 := mul_abs_le (u := bl / g) (v := ri * sr) (U := 2 ^ 64 - 1) (V := 2 ^ 63 - 1)
      (by omega) (by omega) (by omega) (by omega)
    refine ⟨by omega, by omega, by omega, by omega⟩

/-- the candidate satisfies both congruences: whatever representatives `t1`, `t2`, `rc` modulo `L` the
code picks for the two summands and their sum -/
theorem crt_congr (sl sr g p q L li ri bl br t1 t2 rc : Int)
    (hsl : sl = g * p) (hsr : sr = g * q) (hL : L = g * p * q)
    (hbez : g = li * sl + ri * sr) (heq : bl % g = br % g)
    (h1 : L ∣ br / g * (li * sl) - t1) (h2 : L ∣ bl / g * (ri * sr) - t2)
    (h3 : L ∣ t1 + t2 + bl % g - rc) :
    sl ∣ bl - rc ∧ sr ∣ br - rc := by
  obtain ⟨k1, hk1⟩ := h1
  obtain ⟨k2, hk2⟩ := h2
  obtain ⟨k3, hk3⟩ := h3
  have el := Int.mul_ediv_add_emod bl g
  have er := Int.mul_ediv_add_emod br g
  rw [heq] at el hk3
  generalize bl / g = ql at *
  generalize br / g = qr at *
  generalize br % g = m at *
  have ebl : bl = g * ql + m := by omega
  have ebr : br = g * qr + m := by omega
  constructor
  · refine ⟨li * (ql - qr) + q * k1 + q * k2 + q * k3, ?_⟩
    have hB : ri * sr = g - li * sl := by omega
    rw [hB] at hk2
    have e1 : t1 = qr * (li * sl) - L * k1 := by omega
    have e2 : t2 = ql * (g - li * sl) - L * k2 := by omega
    have e3 : rc = t1 + t2 + m - L * k3 := by omega
    rw [e3, e1, e2, ebl, hL, hsl]
    grind
  · refine ⟨ri * (qr - ql) + p * k1 + p * k2 + p * k3, ?_⟩
    have hA : li * sl = g - ri * sr := by omega
    rw [hA] at hk1
    have e1 : t1 = qr * (g - ri * sr) - L * k1 := by omega
    have e2 : t2 = ql * (ri * sr) - L * k2 := by omega
    have e3 : rc = t1 + t2 + m - L * k3 := by omega
    rw [e3, e1, e2, ebr, hL, hsr]
    grind

theorem toU64_of_lt {z : Int} (h0 : 0 ≤ z) (h1 : z < 2 ^ 64) : (toU 64 z : Int) = z := by
  unfold toU
  have : pow2 64 = 2 ^ 64 := by unfold pow2; rfl
  rw [Int.toNat_of_nonneg (Int.emod_nonneg _ (by omega))]
  exact Int.emod_eq_of_lt h0 (by omega)

theorem toU64_nat_of_lt {z : Int} (h0 : 0 ≤ z) (h1 : z < 2 ^ 64) : toU 64 z = z.toNat := by
  have := toU64_of_lt h0 h1
  omega

theorem dvd_sub_emod' (x k : Int) : k ∣ x - x % k := by
  have := Int.mul_ediv_add_emod x k
  have h' : x - x % k = k * (x / k) := by omega
  rw [h']; exact Int.dvd_mul_right _ _

theorem dvd_sub_trem (x k : Int) : k ∣ x - trem x k := by
  unfold trem
  have := Int.tmod_def x k
  have h' : x - x.tmod k = k * x.tdiv k := by omega
  rw [h']; exact Int.dvd_mul_right _ _

/-- the tail of `compute_intersection_residue_class` after the gcd test (same text as in the model) -/
def crtTail (sl sr g li ri bl br : Int) : Residue :=
  let lcm := i128 (tquot sl g * sr)
  let t1 := trem (i128 (tquot (trem br lcm) g * i128 (li * sl))) lcm
  let t2 := trem (i128 (tquot (trem bl lcm) g * i128 (ri * sr))) lcm
  let rc := i128 (i128 (t1 + t2) + trem bl g)
  let rc := rc % lcm
  if lcm ≤ 2 ^ 64 - 1 ∧ trem lcm sl = 0 ∧ trem lcm sr = 0 ∧ trem (i128 (bl - rc)) sl = 0
      ∧ trem (i128 (br - rc)) sr = 0 then
    .some (toU 64 lcm) (toU 64 rc)
  else .err

theorem residueClass_unfold (I J : Interval) (hsI : I.stride ≠ 0) (hsJ : J.stride ≠ 0) :
    computeIntersectionResidueClass I J =
      if trem (I.start % (I.stride : Int)) (extendedGcd (I.stride : Int) (J.stride : Int)).1
          ≠ trem (J.start % (J.stride : Int)) (extendedGcd (I.stride : Int) (J.stride : Int)).1 then .empty
      else crtTail (I.stride : Int) (J.stride : Int) (extendedGcd (I.stride : Int) (J.stride : Int)).1
        (extendedGcd (I.stride : Int) (J.stride : Int)).2.1 (extendedGcd (I.stride : Int) (J.stride : Int)).2.2
        (I.start % (I.stride : Int)) (J.start % (J.stride : Int)) := by
  unfold computeIntersectionResidueClass
  rw [if_neg (by intro h; exact hsI h.1), if_neg hsI, if_neg hsJ]
  rfl

/-- **the tail never overflows.** With `sl = g·p`, `sr = g·q`, `L = g·p·q ≤ u64::MAX`, Bezout coefficients
as `extended_gcd` returns them and residues `bl < sl`, `br < sr` that agree modulo `g`: the tail answers
`Some((L, rc))` with `0 ≤ rc < L`, `rc ≡ bl (mod sl)`, `rc ≡ br (mod sr)`. -/
theorem crtTail_eval (sl sr g p q L li ri bl br : Int) (hg : 1 ≤ g) (hp : 1 ≤ p) (hq : 1 ≤ q)
    (hsl : sl = g * p) (hsr : sr = g * q) (hL : L = g * p * q) (hL64 : L < 2 ^ 64)
    (hsl64 : sl < 2 ^ 64) (hsr64 : sr < 2 ^ 64)
    (hbez : g = li * sl + ri * sr)
    (hbd : (sl ∣ sr ∧ li = 1 ∧ ri = 0) ∨
      (-sr ≤ 2 * (g * li) ∧ 2 * (g * li) ≤ sr ∧ -sl ≤ 2 * (g * ri) ∧ 2 * (g * ri) ≤ sl))
    (hbl0 : 0 ≤ bl) (hbl1 : bl < sl) (hbr0 : 0 ≤ br) (hbr1 : br < sr) (heq : bl % g = br % g)
    (hlcm : i128 (tquot sl g * sr) = L) (hLsl : sl ∣ L) (hLsr : sr ∣ L) :
    ∃ rc : Int, crtTail sl sr g li ri bl br = .some (toU 64 L) (toU 64 rc) ∧ 0 ≤ rc ∧ rc < L ∧
      sl ∣ bl - rc ∧ sr ∣ br - rc := by
  obtain ⟨bA, bB, bP1, bP2⟩ := crt_bounds sl sr g p q L li ri bl br hg hp hq hsl hsr hL hL64 hsl64 hsr64
    hbez hbd hbl0 hbl1 hbr0 hbr1
  have hLp : 0 < L := by
    rw [hL]; exact Int.mul_pos (Int.mul_pos (by omega) (by omega)) (by omega)
  have hslL : sl ≤ L := Int.le_of_dvd hLp hLsl
  have hsrL : sr ≤ L := Int.le_of_dvd hLp hLsr
  unfold crtTail
  simp only
  rw [hlcm]
  -- remove the (identity) operations one by one
  rw [trem_nonneg hbr0, Int.emod_eq_of_lt hbr0 (by omega), trem_nonneg hbl0, Int.emod_eq_of_lt hbl0 (by omega),
    tquot_nonneg hbr0, tquot_nonneg hbl0,
    i128_of_small (z := li * sl) (by omega) (by omega),
    i128_of_small (z := ri * sr) (by omega) (by omega),
    i128_of_small (z := br / g * (li * sl)) (by omega) (by omega),
    i128_of_small (z := bl / g * (ri * sr)) (by omega) (by omega)]
  have ht1 := trem_bounds (br / g * (li * sl)) L hLp
  have ht2 := trem_bounds (bl / g * (ri * sr)) L hLp
  have hd1 := dvd_sub_trem (br / g * (li * sl)) L
  have hd2 := dvd_sub_trem (bl / g * (ri * sr)) L
  generalize trem (br / g * (li * sl)) L = t1 at *
  generalize trem (bl / g * (ri * sr)) L = t2 at *
  have hm0 : 0 ≤ bl % g := Int.emod_nonneg _ (by omega)
  have hm1 : bl % g < g := Int.emod_lt_of_pos _ (by omega)
  have hgL : g ≤ sl := by
    have : g * 1 ≤ g * p := Int.mul_le_mul_of_nonneg_left hp (by omega)
    omega
  rw [trem_nonneg (a := g) hbl0, i128_of_small (z := t1 + t2) (by omega) (by omega),
    i128_of_small (z := t1 + t2 + bl % g) (by omega) (by omega)]
  have hd3 := dvd_sub_emod' (t1 + t2 + bl % g) L
  have hrc0 : 0 ≤ (t1 + t2 + bl % g) % L := Int.emod_nonneg _ (by omega)
  have hrc1 : (t1 + t2 + bl % g) % L < L := Int.emod_lt_of_pos _ hLp
  obtain ⟨c4, c5⟩ := crt_congr sl sr g p q L li ri bl br t1 t2 _ hsl hsr hL hbez heq hd1 hd2 hd3
  generalize (t1 + t2 + bl % g) % L = rc at *
  rw [i128_of_small (z := bl - rc) (by omega) (by omega),
    i128_of_small (z := br - rc) (by omega) (by omega)]
  have hchk : L ≤ 2 ^ 64 - 1 ∧ trem L sl = 0 ∧ trem L sr = 0 ∧ trem (bl - rc) sl = 0 ∧ trem (br - rc) sr = 0 :=
    ⟨by omega, Int.tmod_eq_zero_of_dvd hLsl, Int.tmod_eq_zero_of_dvd hLsr, Int.tmod_eq_zero_of_dvd c4,
      Int.tmod_eq_zero_of_dvd c5⟩
  rw [if_pos hchk]
  exact ⟨rc, rfl, hrc0, hrc1, c4, c5⟩

/-- **C04-crt-total.** `compute_intersection_residue_class` for two positive strides whose least common
multiple fits into a `u64`: the computation never answers `Err("Integer overflow …")`. It answers
`Ok(None)` exactly when the start values differ modulo the gcd of the strides, and otherwise
`Ok(Some((lcm, rc)))` with `rc < lcm` congruent to the left start modulo the left stride and to the right
start modulo the right stride. (All `i128` operations are modelled with wrap; the proof shows that none
of them wraps and that the candidate passes the code's verification.) -/
theorem residueClass_total (I J : Interval) (hI : I.WF) (hJ : J.WF) (hsI : I.stride ≠ 0) (hsJ : J.stride ≠ 0)
    (hL : Nat.lcm I.stride J.stride < 2 ^ 64) :
    (computeIntersectionResidueClass I J = .empty ∧
      I.start % ((Nat.gcd I.stride J.stride : Nat) : Int) ≠ J.start % ((Nat.gcd I.stride J.stride : Nat) : Int)) ∨
    (∃ rc : Nat, computeIntersectionResidueClass I J = .some (Nat.lcm I.stride J.stride) rc ∧
      rc < Nat.lcm I.stride J.stride ∧ (I.stride : Int) ∣ I.start - rc ∧ (J.stride : Int) ∣ J.start - rc) := by
  have hIu := hI.2.2.2.2.2.2
  have hJu := hJ.2.2.2.2.2.2
  have hgpos : 0 < Nat.gcd I.stride J.stride := Nat.gcd_pos_of_pos_left _ (by omega)
  have hslp : (0 : Int) < (I.stride : Int) := by omega
  have hsrp : (0 : Int) < (J.stride : Int) := by omega
  have hgl : ((Nat.gcd I.stride J.stride : Nat) : Int) ∣ (I.stride : Int) :=
    Int.natCast_dvd_natCast.mpr (Nat.gcd_dvd_left _ _)
  have hgr : ((Nat.gcd I.stride J.stride : Nat) : Int) ∣ (J.stride : Int) :=
    Int.natCast_dvd_natCast.mpr (Nat.gcd_dvd_right _ _)
  -- sl = g·p, sr = g·q, lcm = g·p·q
  obtain ⟨p, hslN⟩ : ∃ p, I.stride = Nat.gcd I.stride J.stride * p := Nat.gcd_dvd_left _ _
  obtain ⟨q, hsrN⟩ : ∃ q, J.stride = Nat.gcd I.stride J.stride * q := Nat.gcd_dvd_right _ _
  have hdivp : I.stride / Nat.gcd I.stride J.stride = p := by
    conv => lhs; lhs; rw [hslN]
    exact Nat.mul_div_cancel_left _ hgpos
  have hlcmN : p * J.stride = Nat.lcm I.stride J.stride := by
    rw [← hdivp]
    unfold Nat.lcm
    rw [Nat.mul_div_right_comm (Nat.gcd_dvd_left _ _)]
  have hppos : 0 < p := by
    rcases Nat.eq_zero_or_pos p with h | h
    · rw [h, Nat.mul_zero] at hslN; omega
    · exact h
  have hqpos : 0 < q := by
    rcases Nat.eq_zero_or_pos q with h | h
    · rw [h, Nat.mul_zero] at hsrN; omega
    · exact h
  have hlcm_pos : 0 < Nat.lcm I.stride J.stride := Nat.lcm_pos (by omega) (by omega)
  have hLsl : ((I.stride : Nat) : Int) ∣ ((Nat.lcm I.stride J.stride : Nat) : Int) :=
    Int.natCast_dvd_natCast.mpr (Nat.dvd_lcm_left _ _)
  have hLsr : ((J.stride : Nat) : Int) ∣ ((Nat.lcm I.stride J.stride : Nat) : Int) :=
    Int.natCast_dvd_natCast.mpr (Nat.dvd_lcm_right _ _)
  obtain ⟨li, ri, hE, hbez, hbd⟩ := extendedGcd_spec I.stride J.stride (by omega) (by omega) hIu hJu
  rw [residueClass_unfold I J hsI hsJ, hE]
  simp only
  -- the non-negative residues of the start values
  have hbl0 : 0 ≤ I.start % (I.stride : Int) := Int.emod_nonneg _ (by omega)
  have hbr0 : 0 ≤ J.start % (J.stride : Int) := Int.emod_nonneg _ (by omega)
  have hbl1 : I.start % (I.stride : Int) < (I.stride : Int) := Int.emod_lt_of_pos _ hslp
  have hbr1 : J.start % (J.stride : Int) < (J.stride : Int) := Int.emod_lt_of_pos _ hsrp
  have hdI := dvd_sub_emod' I.start (I.stride : Int)
  have hdJ := dvd_sub_emod' J.start (J.stride : Int)
  have htl : trem (I.start % (I.stride : Int)) ((Nat.gcd I.stride J.stride : Nat) : Int)
      = I.start % ((Nat.gcd I.stride J.stride : Nat) : Int) := by
    rw [trem_nonneg hbl0, Int.emod_emod_of_dvd _ hgl]
  have htr : trem (J.start % (J.stride : Int)) ((Nat.gcd I.stride J.stride : Nat) : Int)
      = J.start % ((Nat.gcd I.stride J.stride : Nat) : Int) := by
    rw [trem_nonneg hbr0, Int.emod_emod_of_dvd _ hgr]
  rw [htl, htr]
  by_cases hncong : I.start % ((Nat.gcd I.stride J.stride : Nat) : Int)
      ≠ J.start % ((Nat.gcd I.stride J.stride : Nat) : Int)
  · left; rw [if_pos hncong]; exact ⟨rfl, hncong⟩
  have hcong := Decidable.not_not.mp hncong
  right
  rw [if_neg (fun h => h hcong)]
  have heq : (I.start % (I.stride : Int)) % ((Nat.gcd I.stride J.stride : Nat) : Int)
      = (J.start % (J.stride : Int)) % ((Nat.gcd I.stride J.stride : Nat) : Int) := by
    rw [Int.emod_emod_of_dvd _ hgl, Int.emod_emod_of_dvd _ hgr]; exact hcong
  -- the lcm as computed
  have hq : tquot (I.stride : Int) ((Nat.gcd I.stride J.stride : Nat) : Int) = (p : Int) := by
    rw [tquot_nonneg (by omega), ← Int.natCast_ediv, hdivp]
  have hL64 : ((Nat.lcm I.stride J.stride : Nat) : Int) < 2 ^ 64 := by exact_mod_cast hL
  have hlcmI : i128 (tquot (I.stride : Int) ((Nat.gcd I.stride J.stride : Nat) : Int) * (J.stride : Int))
      = ((Nat.lcm I.stride J.stride : Nat) : Int) := by
    rw [hq, ← Int.natCast_mul, hlcmN]
    exact i128_of_small (by omega) (by omega)
  -- integer versions of the factorisation
  have hslZ : (I.stride : Int) = ((Nat.gcd I.stride J.stride : Nat) : Int) * (p : Int) := by
    rw [← Int.natCast_mul, ← hslN]
  have hsrZ : (J.stride : Int) = ((Nat.gcd I.stride J.stride : Nat) : Int) * (q : Int) := by
    rw [← Int.natCast_mul, ← hsrN]
  have hLZ : ((Nat.lcm I.stride J.stride : Nat) : Int) = ((Nat.gcd I.stride J.stride : Nat) : Int)
      * (p : Int) * (q : Int) := by
    rw [← hlcmN, Int.natCast_mul]
    conv => lhs; rhs; rw [hsrZ]
    rw [Int.mul_left_comm, Int.mul_assoc]
  have hIu' : ((I.stride : Nat) : Int) < 2 ^ 64 := by exact_mod_cast hIu
  have hJu' : ((J.stride : Nat) : Int) < 2 ^ 64 := by exact_mod_cast hJu
  obtain ⟨rc, hres, hrc0, hrc1, c4, c5⟩ := crtTail_eval (I.stride : Int) (J.stride : Int)
    ((Nat.gcd I.stride J.stride : Nat) : Int) (p : Int) (q : Int) ((Nat.lcm I.stride J.stride : Nat) : Int) li ri
    (I.start % (I.stride : Int)) (J.start % (J.stride : Int))
    (by omega) (by omega) (by omega) hslZ hsrZ hLZ hL64 hIu' hJu' hbez hbd hbl0 hbl1 hbr0 hbr1 heq hlcmI hLsl hLsr
  rw [hres]
  clear hres hE hlcmI hq htl htr hlcmN hLZ
  generalize Nat.lcm I.stride J.stride = Lc at *
  refine ⟨rc.toNat, ?_, by omega, ?_, ?_⟩
  · rw [toU64_nat_of_lt (by omega) hL64, toU64_nat_of_lt hrc0 (by omega)]
    simp
  · rw [Int.toNat_of_nonneg hrc0]
    have : I.start - rc = (I.start - I.start % (I.stride : Int)) + (I.start % (I.stride : Int) - rc) := by omega
    rw [this]; exact Int.dvd_add hdI c4
  · rw [Int.toNat_of_nonneg hrc0]
    have : J.start - rc = (J.start - J.start % (J.stride : Int)) + (J.start % (J.stride : Int) - rc) := by omega
    rw [this]; exact Int.dvd_add hdJ c5

/-! ### beyond `u64::MAX`: the computation always gives up -/

theorem i128_of_big {z : Int} (h1 : 2 ^ 127 ≤ z) (h2 : z < 2 ^ 128) : i128 z = z - 2 ^ 128 := by
  unfold i128
  rw [Int.bmod_def]
  have e1 : ((2 ^ 128 : Nat) : Int) = 2 ^ 128 := by decide
  have e2 : (((2 ^ 128 : Nat) : Int) + 1) / 2 = 2 ^ 127 := by decide
  have e3 : z % ((2 ^ 128 : Nat) : Int) = z := Int.emod_eq_of_lt (by omega) (by omega)
  rw [e3, e2, if_neg (by omega), e1]

/-- a divisor `> 1` of a power of two is even -/
theorem even_of_dvd_two_pow (n d : Nat) (h : d ∣ 2 ^ n) (h1 : 1 < d) : 2 ∣ d := by
  induction n with
  | zero =>
    have := Nat.le_of_dvd (by decide) h
    omega
  | succ n ih =>
    by_cases h2 : 2 ∣ d
    · exact h2
    · have hco : Nat.Coprime d 2 := by
        have hg : Nat.gcd d 2 ∣ 2 := Nat.gcd_dvd_right _ _
        have hle := Nat.le_of_dvd (by decide) hg
        have hpos : 0 < Nat.gcd d 2 := Nat.gcd_pos_of_pos_right _ (by decide)
        have : Nat.gcd d 2 ≠ 2 := fun e => h2 (e ▸ Nat.gcd_dvd_left d 2)
        show Nat.gcd d 2 = 1
        omega
      rw [Nat.pow_succ] at h
      exact ih (hco.dvd_of_dvd_mul_right h)

/-- two divisors of a power of two: one divides the other, so the lcm is one of them -/
theorem lcm_of_dvd_two_pow (n a b : Nat) (ha : 0 < a) (hb : 0 < b) (h1 : a ∣ 2 ^ n) (h2 : b ∣ 2 ^ n) :
    Nat.lcm a b = a ∨ Nat.lcm a b = b := by
  have hg : 0 < Nat.gcd a b := Nat.gcd_pos_of_pos_left _ ha
  have hco := Nat.coprime_div_gcd_div_gcd hg
  have hpa : a / Nat.gcd a b ∣ a := Nat.div_dvd_of_dvd (Nat.gcd_dvd_left _ _)
  have hqb : b / Nat.gcd a b ∣ b := Nat.div_dvd_of_dvd (Nat.gcd_dvd_right _ _)
  have hp0 : 0 < a / Nat.gcd a b := Nat.div_pos (Nat.le_of_dvd ha (Nat.gcd_dvd_left _ _)) hg
  have hq0 : 0 < b / Nat.gcd a b := Nat.div_pos (Nat.le_of_dvd hb (Nat.gcd_dvd_right _ _)) hg
  have ea : Nat.gcd a b * (a / Nat.gcd a b) = a := Nat.mul_div_cancel' (Nat.gcd_dvd_left _ _)
  have eb : Nat.gcd a b * (b / Nat.gcd a b) = b := Nat.mul_div_cancel' (Nat.gcd_dvd_right _ _)
  by_cases hp : a / Nat.gcd a b = 1
  · right
    rw [hp, Nat.mul_one] at ea
    exact Nat.lcm_eq_right (ea ▸ Nat.gcd_dvd_right a b)
  · by_cases hq : b / Nat.gcd a b = 1
    · left
      rw [hq, Nat.mul_one] at eb
      exact Nat.lcm_eq_left (eb ▸ Nat.gcd_dvd_left a b)
    · exfalso
      have e1 := even_of_dvd_two_pow n _ (Nat.dvd_trans hpa h1) (by omega)
      have e2 := even_of_dvd_two_pow n _ (Nat.dvd_trans hqb h2) (by omega)
      exact Nat.not_coprime_of_dvd_of_dvd (by decide : 1 < 2) e1 e2 hco

theorem crtTail_err (sl sr g li ri bl br : Int)
    (h : ¬ (i128 (tquot sl g * sr) ≤ 2 ^ 64 - 1 ∧ trem (i128 (tquot sl g * sr)) sl = 0 ∧
      trem (i128 (tquot sl g * sr)) sr = 0)) :
    crtTail sl sr g li ri bl br = .err := by
  unfold crtTail
  simp only
  rw [if_neg]
  rintro ⟨a, b, c, _⟩
  exact h ⟨a, b, c⟩

/-- the gcd test of `compute_intersection_residue_class` -/
theorem residueClass_gcd_test (I J : Interval) (hsI : I.stride ≠ 0) (hsJ : J.stride ≠ 0) :
    computeIntersectionResidueClass I J =
      if I.start % ((Nat.gcd I.stride J.stride : Nat) : Int) ≠ J.start % ((Nat.gcd I.stride J.stride : Nat) : Int)
      then .empty
      else crtTail (I.stride : Int) (J.stride : Int) ((Nat.gcd I.stride J.stride : Nat) : Int)
        (extendedGcd (I.stride : Int) (J.stride : Int)).2.1 (extendedGcd (I.stride : Int) (J.stride : Int)).2.2
        (I.start % (I.stride : Int)) (J.start % (J.stride : Int)) := by
  have hgl : ((Nat.gcd I.stride J.stride : Nat) : Int) ∣ (I.stride : Int) :=
    Int.natCast_dvd_natCast.mpr (Nat.gcd_dvd_left _ _)
  have hgr : ((Nat.gcd I.stride J.stride : Nat) : Int) ∣ (J.stride : Int) :=
    Int.natCast_dvd_natCast.mpr (Nat.gcd_dvd_right _ _)
  have hbl0 : 0 ≤ I.start % (I.stride : Int) := Int.emod_nonneg _ (by omega)
  have hbr0 : 0 ≤ J.start % (J.stride : Int) := Int.emod_nonneg _ (by omega)
  rw [residueClass_unfold I J hsI hsJ, extendedGcd_fst, trem_nonneg hbl0, trem_nonneg hbr0,
    Int.emod_emod_of_dvd _ hgl, Int.emod_emod_of_dvd _ hgr]

/-- **C04-crt-gives-up.** If the start values agree modulo the gcd of the (positive) strides and the lcm
of the strides exceeds `u64::MAX`, `compute_intersection_residue_class` answers
`Err("Integer overflow …")` — also when the `i128` product `(stride_left / gcd) * stride_right` wraps
(then it would have to be divisible by both strides, which forces both to be powers of two). -/
theorem residueClass_err_of_big (I J : Interval) (hI : I.WF) (hJ : J.WF) (hsI : I.stride ≠ 0) (hsJ : J.stride ≠ 0)
    (hL : 2 ^ 64 ≤ Nat.lcm I.stride J.stride)
    (hcong : I.start % ((Nat.gcd I.stride J.stride : Nat) : Int) = J.start % ((Nat.gcd I.stride J.stride : Nat) : Int)) :
    computeIntersectionResidueClass I J = .err := by
  have hIu := hI.2.2.2.2.2.2
  have hJu := hJ.2.2.2.2.2.2
  have hgpos : 0 < Nat.gcd I.stride J.stride := Nat.gcd_pos_of_pos_left _ (by omega)
  rw [residueClass_gcd_test I J hsI hsJ, if_neg (fun h => h hcong)]
  apply crtTail_err
  -- the computed product
  have hq : tquot (I.stride : Int) ((Nat.gcd I.stride J.stride : Nat) : Int)
      = ((I.stride / Nat.gcd I.stride J.stride : Nat) : Int) := by
    rw [tquot_nonneg (by omega), Int.natCast_ediv]
  have hlcmN : I.stride / Nat.gcd I.stride J.stride * J.stride = Nat.lcm I.stride J.stride := by
    unfold Nat.lcm
    rw [Nat.mul_div_right_comm (Nat.gcd_dvd_left _ _)]
  rw [hq, ← Int.natCast_mul, hlcmN]
  have hple : I.stride / Nat.gcd I.stride J.stride ≤ 2 ^ 64 - 1 := by
    have := Nat.div_le_self I.stride (Nat.gcd I.stride J.stride); omega
  have hlt128 : Nat.lcm I.stride J.stride < 2 ^ 128 := by
    rw [← hlcmN]
    have := Nat.mul_le_mul hple (show J.stride ≤ 2 ^ 64 - 1 by omega)
    have e : (2 ^ 64 - 1) * (2 ^ 64 - 1) < 2 ^ 128 := by decide
    omega
  have hLsl : ((I.stride : Nat) : Int) ∣ ((Nat.lcm I.stride J.stride : Nat) : Int) :=
    Int.natCast_dvd_natCast.mpr (Nat.dvd_lcm_left _ _)
  have hLsr : ((J.stride : Nat) : Int) ∣ ((Nat.lcm I.stride J.stride : Nat) : Int) :=
    Int.natCast_dvd_natCast.mpr (Nat.dvd_lcm_right _ _)
  have e128 : ((2 ^ 128 : Nat) : Int) = 2 ^ 128 := by decide
  have hL' : (2 : Int) ^ 64 ≤ ((Nat.lcm I.stride J.stride : Nat) : Int) := by exact_mod_cast hL
  have hlt' : ((Nat.lcm I.stride J.stride : Nat) : Int) < 2 ^ 128 := by
    have := Int.ofNat_lt.mpr hlt128; omega
  by_cases hsmall : ((Nat.lcm I.stride J.stride : Nat) : Int) < 2 ^ 127
  · rw [i128_of_small (by omega) hsmall]
    rintro ⟨h, _, _⟩
    omega
  · rw [i128_of_big (by omega) hlt']
    rintro ⟨_, c2, c3⟩
    have d2 := Int.dvd_of_tmod_eq_zero c2
    have d3 := Int.dvd_of_tmod_eq_zero c3
    have t2 : ((I.stride : Nat) : Int) ∣ ((2 ^ 128 : Nat) : Int) := by
      rw [e128]
      have := Int.dvd_sub hLsl d2
      rwa [show ((Nat.lcm I.stride J.stride : Nat) : Int) - (((Nat.lcm I.stride J.stride : Nat) : Int) - 2 ^ 128)
        = 2 ^ 128 by omega] at this
    have t3 : ((J.stride : Nat) : Int) ∣ ((2 ^ 128 : Nat) : Int) := by
      rw [e128]
      have := Int.dvd_sub hLsr d3
      rwa [show ((Nat.lcm I.stride J.stride : Nat) : Int) - (((Nat.lcm I.stride J.stride : Nat) : Int) - 2 ^ 128)
        = 2 ^ 128 by omega] at this
    rcases lcm_of_dvd_two_pow 128 I.stride J.stride (by omega) (by omega)
      (Int.natCast_dvd_natCast.mp t2) (Int.natCast_dvd_natCast.mp t3) with h | h <;> omega

/-- **C04-crt-err-iff.** For two positive strides, `compute_intersection_residue_class` answers
`Err("Integer overflow …")` exactly when the residue classes meet (start values congruent modulo the gcd)
but the stride of the intersection, the lcm, exceeds `u64::MAX`. -/
theorem residueClass_err_iff (I J : Interval) (hI : I.WF) (hJ : J.WF) (hsI : I.stride ≠ 0) (hsJ : J.stride ≠ 0) :
    computeIntersectionResidueClass I J = .err ↔
      (I.start % ((Nat.gcd I.stride J.stride : Nat) : Int) = J.start % ((Nat.gcd I.stride J.stride : Nat) : Int) ∧
        2 ^ 64 ≤ Nat.lcm I.stride J.stride) := by
  constructor
  · intro herr
    constructor
    · apply Decidable.byContradiction
      intro hn
      rw [residueClass_gcd_test I J hsI hsJ, if_pos hn] at herr
      cases herr
    · apply Decidable.byContradiction
      intro hn
      rcases residueClass_total I J hI hJ hsI hsJ (by omega) with ⟨h, _⟩ | ⟨rc, h, _⟩ <;>
        (rw [h] at herr; cases herr)
  · rintro ⟨hc, hL⟩
    exact residueClass_err_of_big I J hI hJ hsI hsJ hL hc

end CweModel.C04
