/- C04 model driver: executes the model of conditional refinement and the executable specification
(every feasible member survives; `Err` only if no member is feasible) on harness cases. -/
import CweModel.Base.Proto
import CweModel.C04.Model
import CweModel.C04.DataModel
open Lean CweModel.Proto

namespace CweModel.Itv.Drv4

def gi (x : String) : Except String Int := match x.toInt? with
  | some v => pure v
  | none => throw s!"bad integer {x}"

def intS (j : Json) (k : String) : Except String Int := do gi (← strF j k)

def optIntS (j : Json) (k : String) : Except String (Option Int) := do
  match j.getObjVal? k with
  | .ok (Json.str s) => do return some (← gi s)
  | _ => pure none

def parseDom (j : Json) : Except String IntervalDomain := do
  return { interval := { w := ← natF j "w", start := ← intS j "s", stop := ← intS j "e", stride := (← intS j "st").toNat },
           upper := ← optIntS j "u", lower := ← optIntS j "l", delay := (← intS j "d").toNat }

def showOpt : Option Int → String
  | some v => toString v
  | none => "-"

def showDom (a : IntervalDomain) : String :=
  s!"{a.interval.w}|{a.interval.start}|{a.interval.stop}|{a.interval.stride}|{showOpt a.upper}|{showOpt a.lower}|{a.delay}|{if a.isTop then "T" else "F"}"

def showRes : Option IntervalDomain → String
  | some a => showDom a
  | none => "err"

def parseShown (s : String) : Except String IntervalDomain := do
  match s.splitOn "|" with
  | [w, st, e, sd, u, l, d, _] =>
    let go (x : String) : Except String (Option Int) := if x == "-" then pure none else (do return some (← gi x))
    return { interval := { w := (← gi w).toNat, start := ← gi st, stop := ← gi e, stride := (← gi sd).toNat },
             upper := ← go u, lower := ← go l, delay := (← gi d).toNat }
  | _ => throw s!"bad domain string {s}"

def parseRes (s : String) : Except String (Option IntervalDomain) :=
  if s == "err" then pure none else do return some (← parseShown s)

def sampleMembers (I : Interval) (cap : Nat) : List Int :=
  if I.stride = 0 then [I.start]
  else
    let n := ((I.stop - I.start) / (I.stride : Int)).toNat
    let idx : List Nat :=
      if n + 1 ≤ cap then List.range (n + 1)
      else
        let k := cap / 2
        (List.range 4) ++ (List.range 4).map (fun i => n - i) ++
          (List.range k).map (fun i => (n * (i + 1)) / (k + 1)) ++
          (List.range 4).map (fun i => (n / 3 + 7 * i + 1) % (n + 1))
    idx.map fun (i : Nat) => I.start + (i : Int) * (I.stride : Int)

/-- members of `I` close to the value `b` (the interesting ones for a bound `b`) -/
def membersNear (I : Interval) (b : Int) : List Int :=
  if I.stride = 0 then [I.start]
  else
    let n := ((I.stop - I.start) / (I.stride : Int))
    let k := (b - I.start) / (I.stride : Int)
    ([k - 2, k - 1, k, k + 1, k + 2].filter (fun i => 0 ≤ i ∧ i ≤ n)).map fun i => I.start + i * (I.stride : Int)

def wfDom (a : IntervalDomain) : Bool :=
  decide a.interval.WF &&
  (match a.upper with | some u => decide (InRange a.interval.w u) | none => true) &&
  (match a.lower with | some l => decide (InRange a.interval.w l) | none => true) &&
  decide (a.delay < 2 ^ 64)

def parseKind : String → Except String BoundKind
  | "sle" => pure .sle | "sge" => pure .sge | "ule" => pure .ule | "uge" => pure .uge | "ne" => pure .ne
  | s => throw s!"unknown bound kind {s}"

def verdict (cls : String) (impl model : String) (specErr : Option String) (tags : String) : String :=
  match specErr with
  | some e => s!"spec class={cls}-{e} impl={impl} model={model}"
  | none =>
    if impl != model then s!"diff class={cls} model={model} impl={impl}" else s!"ok {cls} {tags}"

/-- the specification of a refinement result `r` w.r.t. the feasible members `feas` -/
def specRefine (feas : List Int) (r : Option IntervalDomain) (w : Nat) : Option String :=
  match r with
  | none => match feas with
    | x :: _ => some s!"false-unsat x={x}"
    | [] => none
  | some r =>
    if r.interval.w != w then some "width"
    else if !wfDom r then some "illformed"
    else match feas.find? (fun x => !decide (r.Mem x)) with
      | some x => some s!"lost x={x}"
      | none => none

def wclass (w : Nat) : String := if w ≤ 8 then "w8" else if w ≤ 64 then "wide" else "w128"

instance (a : DataDomain Nat) (v : Int) : Decidable (∃ x, a.absolute = some x ∧ x.Mem v) := by
  cases h : a.absolute with
  | none => exact isFalse (by rintro ⟨x, hx, _⟩; cases hx)
  | some x => exact decidable_of_iff (x.Mem v) ⟨fun hm => ⟨x, rfl, hm⟩, by rintro ⟨y, hy, hm⟩; cases hy; exact hm⟩

def parseDVal (size : Nat) (j : Json) : Except String (DataDomain Nat) := do
  let abs : Option IntervalDomain ← match j.getObjVal? "abs" with
    | .ok (Json.null) => pure none
    | .ok ja => do pure (some (← parseDom ja))
    | .error e => throw e
  let rel ← mapM' (fun (p : Json) => do
      let arr ← p.getArr?
      match arr.toList with
      | [i, d] => do pure ((← i.getNat?), (← parseDom d))
      | _ => throw "bad relative entry") (← arrF j "rel")
  return { size := size, relative := rel, absolute := abs, top := ← boolF j "top" }

def showDVal : Option (DataDomain Nat) → String
  | none => "err"
  | some d =>
    let rel := ",".intercalate (d.relative.map fun p => s!"{p.1}:{showDom p.2}")
    s!"abs={match d.absolute with | some x => showDom x | none => "none"};rel={rel};top={d.top};size={d.size}"

/-- absolute part and top flag of a rendered result (all the specification needs) -/
def parseDValShown (s : String) : Except String (DataDomain Nat) := do
  match s.splitOn ";" with
  | [abs, _, top, _] =>
    let a := (abs.drop 4).toString
    let absV ← if a == "none" then pure none else (do pure (some (← parseShown a)))
    return { size := 0, relative := [], absolute := absV, top := top == "top=true" }
  | _ => throw s!"bad data domain string {s}"

def handleE (line : String) : Except String String := do
  let j ← Json.parse line
  let k ← strF j "k"
  let impl ← strF j "impl"
  let cap := (natF j "cap").toOption.getD 64
  match k with
  | "bound" =>
    let a ← parseDom (← field j "a")
    let kindS ← strF j "kind"
    let kind ← parseKind kindS
    let b ← intS j "b"
    let model := showRes (a.addBound kind b)
    if impl.startsWith "panic" then return s!"diff class={kindS}-panic model={model} impl={impl}"
    let r ← parseRes impl
    if !wfDom a then return verdict kindS impl model none "modelonly"
    let cands := sampleMembers a.interval cap ++ membersNear a.interval b ++
      membersNear a.interval 0 ++ membersNear a.interval (-1)
    let feas := cands.filter (fun x => decide (kind.holds a.w x b))
    return verdict s!"{kindS}-{wclass a.w}" impl model (specRefine feas r a.w)
      s!"constrained {if r.isNone then "unsat" else if impl == showDom a then "unchanged" else "refined"} {if a.upper.isSome || a.lower.isSome then "hints" else "nohints"}"
  | "isect" =>
    let a ← parseDom (← field j "a")
    let b ← parseDom (← field j "b")
    let wit ← mapM' (fun (x : Json) => do gi (← x.getStr?)) ((arrF j "wit").toOption.getD [])
    let model := showRes (a.intersect b)
    if impl.startsWith "panic" then return s!"diff class=intersect-panic model={model} impl={impl}"
    let r ← parseRes impl
    if !(wfDom a && wfDom b) then return verdict "intersect" impl model none "modelonly"
    let cands := sampleMembers a.interval cap ++ sampleMembers b.interval cap ++ wit ++
      membersNear a.interval b.interval.start ++ membersNear a.interval b.interval.stop ++
      membersNear b.interval a.interval.start ++ membersNear b.interval a.interval.stop ++
      -- the members the model keeps (for huge strides the only common member is found by no sampling)
      (match a.intersect b with | some r => [r.interval.start, r.interval.stop] | none => [])
    let feas := cands.filter (fun x => decide (a.Mem x ∧ b.Mem x))
    -- strides whose lcm exceeds `u64::MAX` (before the repair the code gave up with `Err` there)
    let lcmOverflow := a.w ≤ 64 && Nat.lcm a.interval.stride b.interval.stride > 2 ^ 64 - 1
    let big := a.interval.stride * b.interval.stride ≥ 2 ^ 63
    return verdict (if lcmOverflow then "intersect-lcm-overflow" else s!"intersect-{wclass a.w}") impl model (specRefine feas r a.w)
      s!"{if big then "overflow-region" else "constrained"} {if r.isNone then "empty" else "nonempty"} {if feas.isEmpty then "nowitness" else "witness"}"
  | "dbound" =>
    -- DataDomain: `a` = absolute part (or null), `rel` = number of relative targets, `top` flag
    let kindS ← strF j "kind"
    let kind ← parseKind kindS
    let b ← intS j "b"
    let rel ← natF j "rel"
    let top ← boolF j "top"
    let abs : Option IntervalDomain ← match j.getObjVal? "a" with
      | .ok (Json.null) => pure none
      | .ok ja => do pure (some (← parseDom ja))
      | .error e => throw e
    let d : DataDomain Nat := { size := 0, relative := (List.range rel).map (fun i => (i, IntervalDomain.single 8 0)),
                                absolute := abs, top := top }
    let res := DataDomain.addBound (IntervalDomain.addBound kind) d b
    let model := match res with
      | none => "err"
      | some d' => s!"abs={showRes d'.absolute};rel=same;top={d'.top}"
    -- spec: relative targets and the top flag untouched, feasible absolute members survive,
    -- error iff nothing is left
    let specErr : Option String :=
      match abs with
      | some a =>
        if !wfDom a then none else
        let cands := sampleMembers a.interval cap ++ membersNear a.interval b
        let feas := cands.filter (fun x => decide (kind.holds a.w x b))
        if impl == "err" then
          (if rel > 0 || top then some "data-false-unsat"
           else match feas with | x :: _ => some s!"data-false-unsat x={x}" | [] => none)
        else if !(impl.endsWith s!";rel=same;top={top}") then some "data-relative-changed"
        else
          let absS := ((impl.splitOn ";").headD "").drop 4 |>.toString
          match parseRes absS with
          | .ok r => match r, feas with
            | none, x :: _ => some s!"data-lost x={x}"
            | some r, _ => (match feas.find? (fun x => !decide (r.Mem x)) with
                | some x => some s!"data-lost x={x}" | none => none)
            | none, [] => none
          | .error _ => some "data-unparsable"
      | none =>
        if impl == "err" then (if rel > 0 || top then some "data-false-unsat" else none)
        else if !(impl.endsWith s!";rel=same;top={top}") then some "data-relative-changed" else none
    return verdict s!"data-{kindS}" impl model specErr
      s!"constrained {if impl == "err" then "unsat" else "sat"} {if rel > 0 then "relative" else "absolute-only"}"
  | "disect" =>
    -- `DataDomain::intersect`: model = implementation, and the sound part of its contract on the
    -- implementation output: an absolute value of one operand that the other may hold stays represented
    let size ← natF j "size"
    let a ← parseDVal size (← field j "a")
    let b ← parseDVal size (← field j "b")
    let model := showDVal (a.intersect b)
    if impl.startsWith "panic" then return s!"diff class=data-intersect-panic model={model} impl={impl}"
    let w := 8 * size
    let wfD (d : DataDomain Nat) : Bool :=
      (match d.absolute with | some x => wfDom x && x.interval.w == w | none => true) &&
      d.relative.all (fun p => wfDom p.2 && p.2.interval.w == w)
    if !(wfD a && wfD b && decide (1 < w) && decide (w ≤ 64)) then return verdict "data-intersect" impl model none "modelonly"
    let membersOf (d e : DataDomain Nat) : List Int := match d.absolute with
      | some x => sampleMembers x.interval cap ++
          (match e.absolute with
           | some y => membersNear x.interval y.interval.start ++ membersNear x.interval y.interval.stop ++
               (match x.intersect y with | some z => [z.interval.start, z.interval.stop] | none => [])
           | none => [])
      | none => []
    let feas := ((membersOf a b).filter (fun v => decide ((∃ x, a.absolute = some x ∧ x.Mem v) ∧ b.MayHold v))) ++
      ((membersOf b a).filter (fun v => decide ((∃ y, b.absolute = some y ∧ y.Mem v) ∧ a.MayHold v)))
    let specErr : Option String ←
      if impl == "err" then pure (match feas with | v :: _ => some s!"false-unsat x={v}" | [] => none)
      else do
        let r ← parseDValShown impl
        pure (match feas.find? (fun v => !decide (r.AbsRep v)) with
          | some v => some s!"abs-lost x={v}"
          | none => none)
    let shape (d : DataDomain Nat) : String :=
      (if d.relative.isEmpty then (if d.absolute.isNone then "none" else "abs") else (if d.absolute.isNone then "rel" else "mixed"))
        ++ (if d.top then "+top" else "")
    return verdict "data-intersect" impl model specErr
      s!"constrained {if impl == "err" then "empty" else "nonempty"} {if feas.isEmpty then "nofeasible" else "feasible"} di:{shape a}x{shape b}"
  | _ => throw s!"unknown case kind {k}"

end CweModel.Itv.Drv4

def main : IO Unit := CweModel.Proto.runDriver (CweModel.Proto.guarded CweModel.Itv.Drv4.handleE)
