/-
C04 — model of conditional refinement:
`impl SpecializeByConditional for IntervalDomain` (abstract_domain/interval.rs),
`Interval::signed_intersect`, `compute_intersection_residue_class`, `extended_gcd`,
`adjust_to_stride_and_remainder` (interval/simple_interval.rs) and the five bound functions of
`impl SpecializeByConditional for DataDomain` (data/conditional_specialization.rs), which refine the
absolute part only.

The model follows the code after the repair of D10 (`rem_euclid` for the residue class) and of
`intersect-lcm-overflow-false-unsat` (`compute_unique_common_value` for strides with lcm > `u64::MAX`).
`i128` arithmetic that can overflow (the products of the chinese-remainder computation) wraps
explicitly (`i128`), everything else is provably in range for operands of at most 64 bit.
-/
import CweModel.Base.Interval
import CweModel.C02.Model

namespace CweModel.Itv

/-- `extended_gcd(a, b)` for `a, b ≥ 0` (the code only calls it with strides). Structural on fuel;
`a.toNat + 1` steps suffice because `b % a < a`. -/
def extendedGcdAux : Nat → Int → Int → Int × Int × Int
  | 0, _, b => (b, 0, 1)
  | fuel + 1, a, b =>
    if a = 0 then (b, 0, 1)
    else
      let (g, li, ri) := extendedGcdAux fuel (trem b a) a
      (g, i128 (ri - i128 (tquot b a * li)), li)

/-- `extended_gcd` -/
def extendedGcd (a b : Int) : Int × Int × Int := extendedGcdAux (a.toNat + 1) a b

/-- the (stride, remainder) answer of `compute_intersection_residue_class`:
`err` = `Err("Integer overflow …")`, `empty` = `Ok(None)` -/
inductive Residue where
  | some (stride remainder : Nat)
  | empty
  | err
deriving DecidableEq, Repr

/-- the `(0, _)` / `(_, 0)` cases: the residue class of the strided operand `J` if it contains `x` -/
def residueOfSingle (x : Int) (J : Interval) : Residue :=
  if J.contains x then
    match tryToI128 J.w J.start with
    | some s =>
      let stride : Int := J.stride
      let r := trem s stride
      let r := trem (r + stride) stride
      .some (toU 64 stride) (toU 64 r)
    | none => .err
  else .empty

/-- `compute_intersection_residue_class` (operands of at most 64 bit) -/
def computeIntersectionResidueClass (I J : Interval) : Residue :=
  if I.stride = 0 ∧ J.stride = 0 then
    if I.start = J.start then .some 0 0 else .empty
  else if I.stride = 0 then residueOfSingle I.start J
  else if J.stride = 0 then residueOfSingle J.start I
  else
    let sl : Int := I.stride
    let sr : Int := J.stride
    let bl := I.start % sl      -- `rem_euclid` (repaired, D10)
    let br := J.start % sr
    let (g, li, ri) := extendedGcd sl sr
    if trem bl g ≠ trem br g then .empty
    else
      let lcm := i128 (tquot sl g * sr)
      let t1 := trem (i128 (tquot (trem br lcm) g * i128 (li * sl))) lcm
      let t2 := trem (i128 (tquot (trem bl lcm) g * i128 (ri * sr))) lcm
      let rc := i128 (i128 (t1 + t2) + trem bl g)
      let rc := rc % lcm      -- `rem_euclid` (repaired, D10)
      if lcm ≤ 2 ^ 64 - 1 ∧ trem lcm sl = 0 ∧ trem lcm sr = 0 ∧ trem (i128 (bl - rc)) sl = 0
          ∧ trem (i128 (br - rc)) sr = 0 then
        .some (toU 64 lcm) (toU 64 rc)
      else .err

/-- `as u128` of an `i128` value / wrap of a `u128` computation -/
def u128 (z : Int) : Int := z % 2 ^ 128

/-- `compute_unique_common_value` (repair of `intersect-lcm-overflow-false-unsat`): the only candidate
`start_left + t * stride_left` for a common value when the lcm of the strides exceeds `u64::MAX`.
Only called with two positive strides. -/
def computeUniqueCommonValue (I J : Interval) : Option Int :=
  let sl : Int := I.stride
  let sr : Int := J.stride
  match tryToI64 I.w I.start, tryToI64 J.w J.start with
  | some a, some b =>
    let d := i128 (b - a)
    let (g, li, _) := extendedGcd sl sr
    if trem d g ≠ 0 then none
    else
      let m := tquot sr g
      let t := u128 (u128 (tquot d g % m) * u128 (li % m)) % u128 m    -- `rem_euclid`, `as u128`, u128 `*`, `%`
      let off := u128 (t * u128 sl)
      if off ≤ 2 ^ 64 - 1 then some (i128 (a + off)) else none           -- `u64::try_from(..).ok()?`
  | _, _ => none

namespace Interval

/-- `Interval::signed_intersect`; `none` = `Err` (empty, or overflow in the residue computation) -/
def signedIntersect (I J : Interval) : Option Interval :=
  let s := smax2 I.start J.start
  let e := smin2 I.stop J.stop
  if I.stride = 0 ∧ J.stride = 0 then
    if s = e then some { w := I.w, start := s, stop := e, stride := 0 } else none
  else if I.w > 64 then
    if s ≤ e then some { w := I.w, start := s, stop := e, stride := if s = e then 0 else 1 } else none
  else if I.stride / Nat.gcd I.stride J.stride * J.stride > 2 ^ 64 - 1 then
    -- the lcm of the strides is not a `u64` (the `u128` product of two `u64` cannot wrap):
    -- at most one common value
    match computeUniqueCommonValue I J with
    | some v =>
      match tryToI128 I.w s, tryToI128 I.w e with
      | some s', some e' =>
        if s' ≤ v ∧ v ≤ e' then some { w := I.w, start := wrap I.w v, stop := wrap I.w v, stride := 0 } else none
      | _, _ => none
    | none => none
  else
    match computeIntersectionResidueClass I J with
    | .some stride rem =>
      adjustToStrideAndRemainder { w := I.w, start := s, stop := e, stride := stride } stride rem
    | _ => none

end Interval

namespace IntervalDomain

/-- `add_signed_less_equal_bound`; `none` = `Err("Empty interval")` -/
def addSignedLessEqualBound (a : IntervalDomain) (bound : Int) : Option IntervalDomain :=
  match roundDownToStrideOf bound a.interval with
  | none => none
  | some bound =>
    let cont (a : IntervalDomain) : Option IntervalDomain :=
      if a.interval.start ≤ bound then
        some { a with interval := Interval.adjustEnd { a.interval with stop := bound } }
      else none
    match a.upper with
    | some old =>
      if old ≤ bound then some a
      else if a.interval.stop < bound then some { a with upper := some bound }
      else cont { a with upper := none }
    | none =>
      if a.interval.stop < bound then some { a with upper := some bound }
      else cont a

/-- `add_signed_greater_equal_bound` -/
def addSignedGreaterEqualBound (a : IntervalDomain) (bound : Int) : Option IntervalDomain :=
  match roundUpToStrideOf bound a.interval with
  | none => none
  | some bound =>
    let cont (a : IntervalDomain) : Option IntervalDomain :=
      if a.interval.stop ≥ bound then
        some { a with interval := Interval.adjustStart { a.interval with start := bound } }
      else none
    match a.lower with
    | some old =>
      if old ≥ bound then some a
      else if a.interval.start > bound then some { a with lower := some bound }
      else cont { a with lower := none }
    | none =>
      if a.interval.start > bound then some { a with lower := some bound }
      else cont a

/-- `add_unsigned_less_equal_bound` -/
def addUnsignedLessEqualBound (a : IntervalDomain) (bound : Int) : Option IntervalDomain :=
  if bound < 0 then
    if a.interval.stop < 0 then a.addSignedLessEqualBound bound
    else if a.interval.start < 0 then some a
    else a.addSignedGreaterEqualBound 0
  else
    match a.addSignedGreaterEqualBound 0 with
    | some a => a.addSignedLessEqualBound bound
    | none => none

/-- `add_unsigned_greater_equal_bound` -/
def addUnsignedGreaterEqualBound (a : IntervalDomain) (bound : Int) : Option IntervalDomain :=
  if bound < 0 then
    match a.addSignedLessEqualBound (-1) with
    | some a => a.addSignedGreaterEqualBound bound
    | none => none
  else if a.interval.stop < bound then a.addSignedLessEqualBound (-1)
  else if a.interval.start < 0 then some a
  else a.addSignedGreaterEqualBound bound

/-- `add_not_equal_bound` -/
def addNotEqualBound (a : IntervalDomain) (bound : Int) : Option IntervalDomain :=
  let w := a.interval.w
  if a.interval.start = bound ∧ a.interval.stop = bound then none
  else if a.interval.start > bound then a.addSignedGreaterEqualBound (wrap w (bound + 1))
  else if a.interval.start = bound then
    some { a with interval := Interval.adjustStart { a.interval with start := wrap w (a.interval.start + 1) } }
  else if a.interval.stop < bound then a.addSignedLessEqualBound (wrap w (bound - 1))
  else if a.interval.stop = bound then
    some { a with interval := Interval.adjustEnd { a.interval with stop := wrap w (a.interval.stop - 1) } }
  else some a

/-- `SpecializeByConditional::intersect` for `IntervalDomain` -/
def intersect (a b : IntervalDomain) : Option IntervalDomain :=
  match a.interval.signedIntersect b.interval with
  | none => none
  | some I =>
    let r := ofInterval I
    let r := r.updateLower a.lower
    let r := r.updateLower b.lower
    let r := r.updateUpper a.upper
    let r := r.updateUpper b.upper
    let r := { r with delay := max a.delay b.delay }
    let r := match tryToU64 I.w (wrap I.w (r.interval.stop - r.interval.start)) with
      | some len => { r with delay := min r.delay len }
      | none => r
    some r

end IntervalDomain

/-! ## `DataDomain` (only what the bound functions touch) -/

/-- `DataDomain<IntervalDomain>`: relative targets (identifier ↦ offset), the absolute part and the
`contains_top_values` flag. Identifiers are opaque. -/
structure DataDomain (Id : Type) where
  size : Nat
  relative : List (Id × IntervalDomain)
  absolute : Option IntervalDomain
  top : Bool

namespace DataDomain
variable {Id : Type}

/-- `DataDomain::is_empty` -/
def isEmpty (d : DataDomain Id) : Bool := d.relative.isEmpty && d.absolute.isNone && !d.top

/-- common shape of the five bound functions of `impl SpecializeByConditional for DataDomain`:
refine the absolute part, drop it if the refinement is unsatisfiable, fail iff nothing is left -/
def addBound (f : IntervalDomain → Int → Option IntervalDomain) (d : DataDomain Id) (bound : Int) :
    Option (DataDomain Id) :=
  let d := { d with absolute := d.absolute.bind fun v => f v bound }
  if d.isEmpty then none else some d

end DataDomain

/-! ## executable specification -/

/-- the comparison kinds of the property -/
inductive BoundKind where
  | sle | sge | ule | uge | ne
deriving DecidableEq, Repr

/-- `R x bound` for a `w`-bit value -/
def BoundKind.holds (k : BoundKind) (w : Nat) (x bound : Int) : Prop :=
  match k with
  | .sle => x ≤ bound
  | .sge => x ≥ bound
  | .ule => toU w x ≤ toU w bound
  | .uge => toU w x ≥ toU w bound
  | .ne => x ≠ bound

instance (k : BoundKind) (w : Nat) (x b : Int) : Decidable (k.holds w x b) := by
  cases k <;> unfold BoundKind.holds <;> exact inferInstance

def IntervalDomain.addBound (k : BoundKind) (a : IntervalDomain) (bound : Int) : Option IntervalDomain :=
  match k with
  | .sle => a.addSignedLessEqualBound bound
  | .sge => a.addSignedGreaterEqualBound bound
  | .ule => a.addUnsignedLessEqualBound bound
  | .uge => a.addUnsignedGreaterEqualBound bound
  | .ne => a.addNotEqualBound bound

end CweModel.Itv
