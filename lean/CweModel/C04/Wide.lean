/-
C04 — `compute_unique_common_value` (the repair of `intersect-lcm-overflow-false-unsat`): when the least
common multiple of two positive strides exceeds `u64::MAX`, two 64-bit intervals share at most one
value, and the function computes exactly that value:

* `uniqueCommon_sound`: an answer `Some(v)` satisfies `v ≥ start_left` and both congruences,
* `uniqueCommon_complete`: every common member `x` of the two intervals is the answer.

The `u128`/`i128` operations are modelled with wrap; the proofs show that none wraps.
-/
import CweModel.C04.Crt

namespace CweModel.C04
open CweModel.Itv CweModel.C02 CweModel.C03

theorem u128_of_small {z : Int} (h0 : 0 ≤ z) (h1 : z < 2 ^ 128) : u128 z = z := by
  unfold u128; exact Int.emod_eq_of_lt h0 h1

/-- product of two values below `2^64` -/
theorem mul_lt_two_pow_128 {u v : Int} (hu0 : 0 ≤ u) (hu : u < 2 ^ 64) (hv0 : 0 ≤ v) (hv : v < 2 ^ 64) :
    0 ≤ u * v ∧ u * v < 2 ^ 128 := by
  have h := mul_abs_le (u := u) (v := v) (U := 2 ^ 64 - 1) (V := 2 ^ 64 - 1) (by omega) (by omega) (by omega) (by omega)
  have := Int.mul_nonneg hu0 hv0
  omega

/-- the candidate index: if `p·t' ≡ dq (mod m)`, `li·p ≡ 1 (mod m)` and `0 ≤ t' < m`, then `t'` is the
residue of `dq·li` -/
theorem wide_index (p m li ri dq t' k : Int) (hbez : li * p + ri * m = 1)
    (h : p * t' - dq = m * k) (ht0 : 0 ≤ t') (htm : t' < m) :
    (dq % m) * (li % m) % m = t' := by
  rw [← Int.mul_emod]
  have hd : m ∣ t' - dq * li := by
    refine ⟨li * k + ri * t', ?_⟩
    have e : t' = t' * (li * p + ri * m) := by rw [hbez, Int.mul_one]
    have e2 : p * t' = dq + m * k := by omega
    grind
  have := (Int.emod_eq_emod_iff_emod_sub_eq_zero).mpr (Int.emod_eq_zero_of_dvd hd)
  rw [← this]
  exact Int.emod_eq_of_lt ht0 htm

theorem wide_congr (p m li ri dq t : Int) (hbez : li * p + ri * m = 1) (ht : m ∣ t - dq * li) :
    m ∣ p * t - dq := by
  obtain ⟨j, hj⟩ := ht
  refine ⟨p * j - dq * ri, ?_⟩
  have e : t = dq * li + m * j := by omega
  have e2 : li * p = 1 - ri * m := by omega
  rw [e]
  grind

/-- the factorisation `sl = g·p`, `sr = g·m`, `lcm = sl·m` and the normalised Bezout identity -/
theorem stride_factor (sl sr : Nat) (hsl : sl ≠ 0) (hsr : sr ≠ 0) (li ri : Int)
    (hbez : ((Nat.gcd sl sr : Nat) : Int) = li * (sl : Int) + ri * (sr : Int)) :
    ∃ p m : Int, 0 < p ∧ 0 < m ∧ (sl : Int) = ((Nat.gcd sl sr : Nat) : Int) * p ∧
      (sr : Int) = ((Nat.gcd sl sr : Nat) : Int) * m ∧ ((Nat.lcm sl sr : Nat) : Int) = (sl : Int) * m ∧
      tquot (sr : Int) ((Nat.gcd sl sr : Nat) : Int) = m ∧ li * p + ri * m = 1 := by
  have hgpos : 0 < Nat.gcd sl sr := Nat.gcd_pos_of_pos_left _ (by omega)
  obtain ⟨p, hp⟩ : ∃ p, sl = Nat.gcd sl sr * p := Nat.gcd_dvd_left _ _
  obtain ⟨q, hq⟩ : ∃ q, sr = Nat.gcd sl sr * q := Nat.gcd_dvd_right _ _
  have hp0 : 0 < p := by
    rcases Nat.eq_zero_or_pos p with h | h
    · rw [h, Nat.mul_zero] at hp; omega
    · exact h
  have hq0 : 0 < q := by
    rcases Nat.eq_zero_or_pos q with h | h
    · rw [h, Nat.mul_zero] at hq; omega
    · exact h
  have hdivq : sr / Nat.gcd sl sr = q := by
    conv => lhs; lhs; rw [hq]
    exact Nat.mul_div_cancel_left _ hgpos
  have hlcm : Nat.lcm sl sr = sl * q := by
    unfold Nat.lcm
    rw [Nat.mul_div_assoc _ (Nat.gcd_dvd_right _ _), hdivq]
  have hpZ : (sl : Int) = ((Nat.gcd sl sr : Nat) : Int) * (p : Int) := by rw [← Int.natCast_mul, ← hp]
  have hqZ : (sr : Int) = ((Nat.gcd sl sr : Nat) : Int) * (q : Int) := by rw [← Int.natCast_mul, ← hq]
  refine ⟨p, q, by omega, by omega, hpZ, hqZ, by rw [hlcm, Int.natCast_mul], ?_, ?_⟩
  · rw [tquot_nonneg (by omega), ← Int.natCast_ediv, hdivq]
  · have hg0 : ((Nat.gcd sl sr : Nat) : Int) ≠ 0 := by omega
    apply Int.eq_of_mul_eq_mul_left hg0
    rw [Int.mul_one]
    have : ((Nat.gcd sl sr : Nat) : Int) * (li * (p : Int) + ri * (q : Int))
        = li * (((Nat.gcd sl sr : Nat) : Int) * (p : Int)) + ri * (((Nat.gcd sl sr : Nat) : Int) * (q : Int)) := by
      grind
    rw [this, ← hpZ, ← hqZ]
    exact hbez.symm

/-- evaluation of `compute_unique_common_value` on well-formed operands of at most 64 bit with positive
strides: no operation wraps; the answer is `start_left + t·stride_left` for the index
`t = (dq·li) mod m` if `gcd ∣ start_right - start_left` and the offset fits a `u64` -/
theorem uniqueCommon_eval (I J : Interval) (hI : I.WF) (hJ : J.WF) (hw : J.w = I.w) (hw64 : I.w ≤ 64)
    (hsI : I.stride ≠ 0) (hsJ : J.stride ≠ 0) :
    ∃ (m li ri : Int), 0 < m ∧ (J.stride : Int) = ((Nat.gcd I.stride J.stride : Nat) : Int) * m ∧
      (∃ p : Int, 0 < p ∧ (I.stride : Int) = ((Nat.gcd I.stride J.stride : Nat) : Int) * p ∧
        li * p + ri * m = 1 ∧ ((Nat.lcm I.stride J.stride : Nat) : Int) = (I.stride : Int) * m) ∧
      computeUniqueCommonValue I J =
        if ¬ ((Nat.gcd I.stride J.stride : Nat) : Int) ∣ J.start - I.start then none
        else
          let t := ((J.start - I.start) / ((Nat.gcd I.stride J.stride : Nat) : Int) % m) * (li % m) % m
          if t * (I.stride : Int) ≤ 2 ^ 64 - 1 then some (I.start + t * (I.stride : Int)) else none := by
  obtain ⟨hw0, hIs, _, _, _, _, hIu⟩ := hI
  obtain ⟨_, hJs, _, _, _, _, hJu⟩ := hJ
  rw [hw] at hJs
  have ha := inRange_le_i64 I.w hw0 hw64 hIs
  have hb := inRange_le_i64 I.w hw0 hw64 hJs
  obtain ⟨li, ri, hE, hbez, _⟩ := extendedGcd_spec I.stride J.stride (by omega) (by omega) hIu hJu
  obtain ⟨p, m, hp0, hm0, hpZ, hmZ, hlcm, htq, hbez1⟩ := stride_factor I.stride J.stride hsI hsJ li ri hbez
  refine ⟨m, li, ri, hm0, hmZ, ⟨p, hp0, hpZ, hbez1, hlcm⟩, ?_⟩
  have hgpos : 0 < Nat.gcd I.stride J.stride := Nat.gcd_pos_of_pos_left _ (by omega)
  have hIu' : ((I.stride : Nat) : Int) < 2 ^ 64 := by exact_mod_cast hIu
  have hJu' : ((J.stride : Nat) : Int) < 2 ^ 64 := by exact_mod_cast hJu
  have hm64 : m < 2 ^ 64 := by
    have : 1 * m ≤ ((Nat.gcd I.stride J.stride : Nat) : Int) * m :=
      Int.mul_le_mul_of_nonneg_right (by omega) (by omega)
    omega
  unfold computeUniqueCommonValue
  rw [tryToI64_inRange hw0 hw64 hIs, hw, tryToI64_inRange hw0 hw64 hJs]
  simp only
  rw [hE]
  simp only
  rw [i128_of_small (z := J.start - I.start) (by omega) (by omega), htq]
  generalize ((Nat.gcd I.stride J.stride : Nat) : Int) = g at *
  by_cases hdvd : g ∣ J.start - I.start
  · have h0 : trem (J.start - I.start) g = 0 := Int.tmod_eq_zero_of_dvd hdvd
    rw [if_neg (show ¬ trem (J.start - I.start) g ≠ 0 from fun h => h h0),
      if_neg (show ¬ ¬ g ∣ J.start - I.start from fun h => h hdvd)]
    have hq : tquot (J.start - I.start) g = (J.start - I.start) / g := by
      unfold tquot; exact Int.tdiv_eq_ediv_of_dvd hdvd
    rw [hq]
    have r1 : 0 ≤ (J.start - I.start) / g % m := Int.emod_nonneg _ (by omega)
    have r2 : (J.start - I.start) / g % m < m := Int.emod_lt_of_pos _ hm0
    have r3 : 0 ≤ li % m := Int.emod_nonneg _ (by omega)
    have r4 : li % m < m := Int.emod_lt_of_pos _ hm0
    have hprod := mul_lt_two_pow_128 r1 (by omega) r3 (by omega)
    rw [u128_of_small r1 (by omega), u128_of_small r3 (by omega), u128_of_small hprod.1 hprod.2,
      u128_of_small (z := m) (by omega) (by omega), u128_of_small (z := (I.stride : Int)) (by omega) (by omega)]
    have t0 : 0 ≤ (J.start - I.start) / g % m * (li % m) % m := Int.emod_nonneg _ (by omega)
    have t1 : (J.start - I.start) / g % m * (li % m) % m < m := Int.emod_lt_of_pos _ hm0
    generalize (J.start - I.start) / g % m * (li % m) % m = t at *
    have hoff := mul_lt_two_pow_128 t0 (by omega) (show 0 ≤ (I.stride : Int) by omega) hIu'
    rw [u128_of_small hoff.1 hoff.2]
    by_cases hfit : t * (I.stride : Int) ≤ 2 ^ 64 - 1
    · rw [if_pos hfit, if_pos hfit, i128_of_small (by omega) (by omega)]
    · rw [if_neg hfit, if_neg hfit]
  · have h0 : trem (J.start - I.start) g ≠ 0 := fun h => hdvd (Int.dvd_of_tmod_eq_zero h)
    rw [if_pos h0, if_pos hdvd]

/-- **C04-unique-common-sound.** An answer `Some(v)` of `compute_unique_common_value` lies at or above the
left start and in the residue classes of both operands. -/
theorem uniqueCommon_sound (I J : Interval) (hI : I.WF) (hJ : J.WF) (hw : J.w = I.w) (hw64 : I.w ≤ 64)
    (hsI : I.stride ≠ 0) (hsJ : J.stride ≠ 0) {v : Int} (h : computeUniqueCommonValue I J = some v) :
    I.start ≤ v ∧ (I.stride : Int) ∣ v - I.start ∧ (J.stride : Int) ∣ v - J.start := by
  obtain ⟨m, li, ri, hm0, hmZ, ⟨p, hp0, hpZ, hbez1, _⟩, heval⟩ := uniqueCommon_eval I J hI hJ hw hw64 hsI hsJ
  rw [heval] at h
  by_cases hndvd : ¬ ((Nat.gcd I.stride J.stride : Nat) : Int) ∣ J.start - I.start
  · rw [if_pos hndvd] at h; cases h
  have hdvd := Decidable.not_not.mp hndvd
  rw [if_neg hndvd] at h
  simp only at h
  by_cases hnfit : ¬ (J.start - I.start) / ((Nat.gcd I.stride J.stride : Nat) : Int) % m * (li % m) % m
      * (I.stride : Int) ≤ 2 ^ 64 - 1
  · rw [if_neg hnfit] at h; cases h
  rw [if_pos (Decidable.not_not.mp hnfit)] at h
  cases h
  clear hnfit hndvd heval
  have hg0 : (0 : Int) < ((Nat.gcd I.stride J.stride : Nat) : Int) := by
    have := Nat.gcd_pos_of_pos_left J.stride (show 0 < I.stride by omega); omega
  have t0 : 0 ≤ (J.start - I.start) / ((Nat.gcd I.stride J.stride : Nat) : Int) % m * (li % m) % m :=
    Int.emod_nonneg _ (by omega)
  have hd : m ∣ (J.start - I.start) / ((Nat.gcd I.stride J.stride : Nat) : Int) % m * (li % m) % m
      - (J.start - I.start) / ((Nat.gcd I.stride J.stride : Nat) : Int) * li := by
    rw [← Int.mul_emod]
    have := dvd_sub_emod' ((J.start - I.start) / ((Nat.gcd I.stride J.stride : Nat) : Int) * li) m
    have e : ∀ u : Int, u % m - u = -(u - u % m) := by intro u; omega
    rw [e]; exact Int.dvd_neg.mpr this
  have hc := wide_congr p m li ri _ _ hbez1 hd
  have hdq := Int.ediv_mul_cancel hdvd
  generalize (J.start - I.start) / ((Nat.gcd I.stride J.stride : Nat) : Int) % m * (li % m) % m = t at *
  generalize (J.start - I.start) / ((Nat.gcd I.stride J.stride : Nat) : Int) = dq at *
  generalize ((Nat.gcd I.stride J.stride : Nat) : Int) = g at *
  have hnn : 0 ≤ t * (I.stride : Int) := Int.mul_nonneg t0 (by omega)
  refine ⟨by omega, ⟨t, by rw [Int.mul_comm]; omega⟩, ?_⟩
  obtain ⟨j, hj⟩ := hc
  refine ⟨j, ?_⟩
  have e1 : I.start + t * (I.stride : Int) - J.start = t * (I.stride : Int) - dq * g := by omega
  rw [e1, hpZ, hmZ]
  have e2 : p * t = dq + m * j := by omega
  grind

/-- **C04-unique-common-complete.** If the lcm of the strides exceeds `u64::MAX`, every common member of
the two (at most 64-bit) intervals is the answer of `compute_unique_common_value`; in particular the
intervals share at most one value. -/
theorem uniqueCommon_complete (I J : Interval) (hI : I.WF) (hJ : J.WF) (hw : J.w = I.w) (hw64 : I.w ≤ 64)
    (hsI : I.stride ≠ 0) (hsJ : J.stride ≠ 0) (hL : 2 ^ 64 ≤ Nat.lcm I.stride J.stride)
    {x : Int} (hxI : I.Mem x) (hxJ : J.Mem x) : computeUniqueCommonValue I J = some x := by
  obtain ⟨m, li, ri, hm0, hmZ, ⟨p, hp0, hpZ, hbez1, hlcm⟩, heval⟩ := uniqueCommon_eval I J hI hJ hw hw64 hsI hsJ
  rw [heval]
  have hxr := inRange_le_i64 I.w hI.1 hw64 (Interval.mem_inRange hI hxI)
  have ha := inRange_le_i64 I.w hI.1 hw64 hI.2.1
  have hg0 : (0 : Int) < ((Nat.gcd I.stride J.stride : Nat) : Int) := by
    have := Nat.gcd_pos_of_pos_left J.stride (show 0 < I.stride by omega); omega
  have hL' : (2 : Int) ^ 64 ≤ ((Nat.lcm I.stride J.stride : Nat) : Int) := by exact_mod_cast hL
  have hslp : (0 : Int) < (I.stride : Int) := by omega
  obtain ⟨t', ht'⟩ := hxI.2.2
  obtain ⟨k, hk⟩ := hxJ.2.2
  have hx0 := hxI.1
  generalize ((Nat.lcm I.stride J.stride : Nat) : Int) = L at *
  generalize ((Nat.gcd I.stride J.stride : Nat) : Int) = g at *
  generalize (I.stride : Int) = sl at *
  generalize (J.stride : Int) = sr at *
  -- the index of x
  have ht0 : 0 ≤ t' := by
    rcases Int.lt_or_le t' 0 with h | h
    · have : sl * t' ≤ sl * (-1) := Int.mul_le_mul_of_nonneg_left (by omega) (by omega)
      omega
    · exact h
  have htm : t' < m := by
    apply Int.lt_of_mul_lt_mul_left (a := sl) _ (by omega)
    omega
  -- g ∣ start_right - start_left
  have hd : J.start - I.start = g * (p * t' - m * k) := by
    have : J.start - I.start = sl * t' - sr * k := by omega
    rw [this, hpZ, hmZ]; grind
  have hdvd : g ∣ J.start - I.start := ⟨_, hd⟩
  have hdq : (J.start - I.start) / g = p * t' - m * k := by
    rw [hd]; exact Int.mul_ediv_cancel_left _ (by omega)
  rw [if_neg (fun h => h hdvd)]
  simp only
  rw [hdq, wide_index p m li ri (p * t' - m * k) t' k hbez1 (by omega) ht0 htm]
  have : t' * sl = x - I.start := by rw [Int.mul_comm]; omega
  rw [this, if_pos (by omega)]
  congr 1
  omega

end CweModel.C04
