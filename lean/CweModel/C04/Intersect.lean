/-
C04 — `intersect`: every common member of two values is a member of the intersection.

The proof does not need the correctness of the chinese-remainder computation: the code verifies its
candidate (`lcm % stride = 0`, both congruences), so soundness follows from `extended_gcd` returning the
gcd and from `lcm ∣` every common multiple. What is NOT proved is that the computation never reports
`Err` ("integer overflow") when the intersection is representable; the theorem carries that as a
hypothesis (`_partial`).
-/
import CweModel.C04.Crt
import CweModel.C02.Count

namespace CweModel.C04
open CweModel.Itv CweModel.C02

/-! ### `extended_gcd` returns the gcd -/

theorem extendedGcdAux_fst (fuel a b : Nat) (h : a < fuel) :
    (extendedGcdAux fuel (a : Int) (b : Int)).1 = ((Nat.gcd a b : Nat) : Int) := by
  induction fuel generalizing a b with
  | zero => omega
  | succ f ih =>
    unfold extendedGcdAux
    by_cases ha : a = 0
    · subst ha; simp
    · have ha' : ¬ ((a : Int) = 0) := by omega
      rw [if_neg ha']
      simp only
      rw [trem_natCast]
      have hlt : b % a < f := by
        have := Nat.mod_lt b (show 0 < a by omega); omega
      rw [ih (b % a) a hlt, Nat.gcd_rec a b]

theorem extendedGcd_fst (a b : Nat) : (extendedGcd (a : Int) (b : Int)).1 = ((Nat.gcd a b : Nat) : Int) := by
  unfold extendedGcd
  exact extendedGcdAux_fst _ a b (by omega)

/-! ### the residue class -/

/-- the single-value case of `compute_intersection_residue_class` -/
theorem residueOfSingle_spec (x : Int) (J : Interval) (hJ : J.WF) (hw64 : J.w ≤ 64) (hst : J.stride ≠ 0)
    (hx : J.Mem x) :
    ∃ rem : Nat, residueOfSingle x J = .some J.stride rem ∧ (J.stride : Int) ∣ x - rem := by
  have hxr := Interval.mem_inRange hJ hx
  obtain ⟨hw0, hJs, hJe, hle, h0, hd, hu⟩ := hJ
  have hc : J.contains x = true := (contains_iff_mem J hw0 hw64 hJs hle hxr).mpr hx
  have hn : (0 : Int) < (J.stride : Int) := by omega
  unfold residueOfSingle
  rw [if_pos hc, tryToI128_inRange hw0 hw64 hJs]
  simp only
  rw [trem_fix _ _ hn]
  have hr0 : 0 ≤ J.start % (J.stride : Int) := Int.emod_nonneg _ (by omega)
  have hr1 : J.start % (J.stride : Int) < (J.stride : Int) := Int.emod_lt_of_pos _ hn
  have hu' : ((J.stride : Nat) : Int) < 2 ^ 64 := by exact_mod_cast hu
  have e1 : toU 64 (J.stride : Int) = J.stride := by
    have := toU64_of_lt (show 0 ≤ (J.stride : Int) by omega) hu'; omega
  refine ⟨toU 64 (J.start % (J.stride : Int)), by rw [e1], ?_⟩
  rw [toU64_of_lt hr0 (by omega)]
  have e3 : (J.stride : Int) ∣ J.start - J.start % (J.stride : Int) := by
    have := Int.mul_ediv_add_emod J.start (J.stride : Int)
    have h' : J.start - J.start % (J.stride : Int) = (J.stride : Int) * (J.start / (J.stride : Int)) := by omega
    rw [h']; exact Int.dvd_mul_right _ _
  have : x - J.start % (J.stride : Int) = (x - J.start) + (J.start - J.start % (J.stride : Int)) := by omega
  rw [this]; exact Int.dvd_add hx.2.2 e3

theorem lcm_dvd_int {s t : Nat} {z : Int} (h1 : (s : Int) ∣ z) (h2 : (t : Int) ∣ z) :
    ((Nat.lcm s t : Nat) : Int) ∣ z := by
  rw [← Int.natAbs_dvd_natAbs] at h1 h2
  simp only [Int.natAbs_natCast] at h1 h2
  have := Nat.lcm_dvd h1 h2
  rw [← Int.natAbs_dvd_natAbs]
  simpa using this

/-- **the verified candidate is sound.** If both strides are positive, every common member `x` lies in
the residue class the computation returns — unless it gives up with `Err`. (`hprod`: the product of
the strides fits into an `i128`, so that `lcm` is not a wrapped value.) -/
theorem residueClass_spec (I J : Interval) (hI : I.WF) (hJ : J.WF) (hsI : I.stride ≠ 0) (hsJ : J.stride ≠ 0)
    (hprod : I.stride * J.stride < 2 ^ 127) {x : Int} (hxI : I.Mem x) (hxJ : J.Mem x)
    (hne : computeIntersectionResidueClass I J ≠ .err) :
    ∃ stride rem : Nat, computeIntersectionResidueClass I J = .some stride rem ∧ 0 < stride ∧ stride < 2 ^ 64 ∧
      (stride : Int) ∣ x - rem := by
  have hIu := hI.2.2.2.2.2.2
  have hJu := hJ.2.2.2.2.2.2
  have hgpos : 0 < Nat.gcd I.stride J.stride := Nat.gcd_pos_of_pos_left _ (by omega)
  have hslp : (0 : Int) < (I.stride : Int) := by omega
  have hsrp : (0 : Int) < (J.stride : Int) := by omega
  have hgp : (0 : Int) < ((Nat.gcd I.stride J.stride : Nat) : Int) := by omega
  have hgl : ((Nat.gcd I.stride J.stride : Nat) : Int) ∣ (I.stride : Int) :=
    Int.natCast_dvd_natCast.mpr (Nat.gcd_dvd_left _ _)
  have hgr : ((Nat.gcd I.stride J.stride : Nat) : Int) ∣ (J.stride : Int) :=
    Int.natCast_dvd_natCast.mpr (Nat.gcd_dvd_right _ _)
  -- the lcm as computed
  have hlcmN : I.stride / Nat.gcd I.stride J.stride * J.stride = Nat.lcm I.stride J.stride := by
    unfold Nat.lcm
    rw [Nat.mul_div_right_comm (Nat.gcd_dvd_left _ _)]
  have hlcm_le : Nat.lcm I.stride J.stride ≤ I.stride * J.stride := by
    rw [← hlcmN]
    exact Nat.mul_le_mul_right _ (Nat.div_le_self _ _)
  have hlcm_pos : 0 < Nat.lcm I.stride J.stride := Nat.lcm_pos (by omega) (by omega)
  unfold computeIntersectionResidueClass at hne ⊢
  rw [if_neg (by intro h; exact hsI h.1), if_neg hsI, if_neg hsJ] at hne ⊢
  simp only at hne ⊢
  -- destructure the result of `extended_gcd`
  have hg := extendedGcd_fst I.stride J.stride
  generalize hE : extendedGcd (I.stride : Int) (J.stride : Int) = E at *
  obtain ⟨g, li, ri⟩ := E
  simp only at hg hne ⊢
  subst hg
  -- the remainders of the (normalised) start values modulo the gcd agree
  have hbl0 : 0 ≤ I.start % (I.stride : Int) := Int.emod_nonneg _ (by omega)
  have hbr0 : 0 ≤ J.start % (J.stride : Int) := Int.emod_nonneg _ (by omega)
  have hbl1 : I.start % (I.stride : Int) < (I.stride : Int) := Int.emod_lt_of_pos _ hslp
  have hbr1 : J.start % (J.stride : Int) < (J.stride : Int) := Int.emod_lt_of_pos _ hsrp
  have hremeq : trem (I.start % (I.stride : Int)) ((Nat.gcd I.stride J.stride : Nat) : Int)
      = trem (J.start % (J.stride : Int)) ((Nat.gcd I.stride J.stride : Nat) : Int) := by
    unfold trem
    rw [Int.tmod_eq_emod_of_nonneg hbl0, Int.tmod_eq_emod_of_nonneg hbr0,
      Int.emod_emod_of_dvd _ hgl, Int.emod_emod_of_dvd _ hgr]
    -- both equal x % g
    have e1 : I.start % ((Nat.gcd I.stride J.stride : Nat) : Int) = x % ((Nat.gcd I.stride J.stride : Nat) : Int) := by
      apply Int.emod_eq_emod_iff_emod_sub_eq_zero.mpr
      apply Int.emod_eq_zero_of_dvd
      have : I.start - x = -(x - I.start) := by omega
      rw [this]; exact Int.dvd_neg.mpr (Int.dvd_trans hgl hxI.2.2)
    have e2 : J.start % ((Nat.gcd I.stride J.stride : Nat) : Int) = x % ((Nat.gcd I.stride J.stride : Nat) : Int) := by
      apply Int.emod_eq_emod_iff_emod_sub_eq_zero.mpr
      apply Int.emod_eq_zero_of_dvd
      have : J.start - x = -(x - J.start) := by omega
      rw [this]; exact Int.dvd_neg.mpr (Int.dvd_trans hgr hxJ.2.2)
    rw [e1, e2]
  rw [if_neg (by intro h; exact h hremeq)] at hne ⊢
  -- the lcm is not a wrapped value
  have hq : tquot (I.stride : Int) ((Nat.gcd I.stride J.stride : Nat) : Int)
      = ((I.stride / Nat.gcd I.stride J.stride : Nat) : Int) := by
    unfold tquot
    rw [Int.tdiv_eq_ediv_of_nonneg (by omega), Int.natCast_ediv]
  have hlcmI : i128 (tquot (I.stride : Int) ((Nat.gcd I.stride J.stride : Nat) : Int) * (J.stride : Int))
      = ((Nat.lcm I.stride J.stride : Nat) : Int) := by
    rw [hq, ← Int.natCast_mul, hlcmN]
    apply i128_of_small
    · omega
    · have h1 : ((Nat.lcm I.stride J.stride : Nat) : Int) ≤ ((I.stride * J.stride : Nat) : Int) :=
        Int.ofNat_le.mpr hlcm_le
      have h2 : ((I.stride * J.stride : Nat) : Int) < ((2 ^ 127 : Nat) : Int) := Int.ofNat_lt.mpr hprod
      have : ((2 ^ 127 : Nat) : Int) = 2 ^ 127 := by decide
      omega
  rw [hlcmI] at hne ⊢
  clear hprod hlcmI
  generalize hRC : (i128 (i128 (trem (i128 (tquot (trem (J.start % (J.stride : Int)) ((Nat.lcm I.stride J.stride : Nat) : Int)) ((Nat.gcd I.stride J.stride : Nat) : Int) * i128 (li * (I.stride : Int)))) ((Nat.lcm I.stride J.stride : Nat) : Int) + trem (i128 (tquot (trem (I.start % (I.stride : Int)) ((Nat.lcm I.stride J.stride : Nat) : Int)) ((Nat.gcd I.stride J.stride : Nat) : Int) * i128 (ri * (J.stride : Int)))) ((Nat.lcm I.stride J.stride : Nat) : Int)) + trem (I.start % (I.stride : Int)) ((Nat.gcd I.stride J.stride : Nat) : Int))) % ((Nat.lcm I.stride J.stride : Nat) : Int) = rc at *
  have hLp : (0 : Int) < ((Nat.lcm I.stride J.stride : Nat) : Int) := by omega
  have hrc0 : 0 ≤ rc := by rw [← hRC]; exact Int.emod_nonneg _ (by omega)
  have hrc1 : rc < ((Nat.lcm I.stride J.stride : Nat) : Int) := by rw [← hRC]; exact Int.emod_lt_of_pos _ hLp
  split
  · rename_i hchk
    obtain ⟨c1, _, _, c4, c5⟩ := hchk
    have hL64 : ((Nat.lcm I.stride J.stride : Nat) : Int) < 2 ^ 64 := by omega
    have hIu' : ((I.stride : Nat) : Int) < 2 ^ 64 := by exact_mod_cast hIu
    have hJu' : ((J.stride : Nat) : Int) < 2 ^ 64 := by exact_mod_cast hJu
    rw [i128_of_small (by omega) (by omega)] at c4 c5
    have d4 : (I.stride : Int) ∣ I.start % (I.stride : Int) - rc := Int.dvd_of_tmod_eq_zero c4
    have d5 : (J.stride : Int) ∣ J.start % (J.stride : Int) - rc := Int.dvd_of_tmod_eq_zero c5
    have dI : (I.stride : Int) ∣ x - rc := by
      have : x - rc = (x - I.start) + (I.start - I.start % (I.stride : Int)) + (I.start % (I.stride : Int) - rc) := by omega
      rw [this]; exact Int.dvd_add (Int.dvd_add hxI.2.2 (dvd_sub_emod' _ _)) d4
    have dJ : (J.stride : Int) ∣ x - rc := by
      have : x - rc = (x - J.start) + (J.start - J.start % (J.stride : Int)) + (J.start % (J.stride : Int) - rc) := by omega
      rw [this]; exact Int.dvd_add (Int.dvd_add hxJ.2.2 (dvd_sub_emod' _ _)) d5
    refine ⟨_, _, rfl, ?_, ?_, ?_⟩
    · rw [toU64_nat_of_lt (by omega) hL64]; omega
    · rw [toU64_nat_of_lt (by omega) hL64]
      have : ((2 ^ 64 : Nat) : Int) = 2 ^ 64 := by decide
      omega
    · rw [toU64_of_lt (by omega) hL64, toU64_of_lt hrc0 (by omega)]
      exact lcm_dvd_int dI dJ
  · rename_i hchk
    rw [if_neg hchk] at hne
    exact absurd rfl hne

/-! ### `Interval::signed_intersect` -/

theorem smax2_spec (a b : Int) : Interval.smax2 a b = max a b := by
  unfold Interval.smax2; split <;> omega

theorem smin2_spec (a b : Int) : Interval.smin2 a b = min a b := by
  unfold Interval.smin2; split <;> omega

/-- `signed_intersect` keeps a common member `x` whenever the residue computation (only used for
operands of at most 64 bit with two positive strides) returns a class that contains `x` -/
theorem signedIntersect_of_residue (I J : Interval) (hI : I.WF) (hJ : J.WF) (hw : J.w = I.w)
    {x : Int} (hxI : I.Mem x) (hxJ : J.Mem x)
    (hcrt : I.w ≤ 64 → I.stride ≠ 0 → J.stride ≠ 0 →
      ∃ stride rem : Nat, computeIntersectionResidueClass I J = .some stride rem ∧ 0 < stride ∧
        stride < 2 ^ 64 ∧ (stride : Int) ∣ x - rem) :
    ∃ r, I.signedIntersect J = some r ∧ r.Mem x ∧ r.WF ∧ r.w = I.w := by
  have hIwf := hI
  have hJwf := hJ
  obtain ⟨hw0, hIs, hIe, hle, h0, hd, hu⟩ := hI
  obtain ⟨_, hJs, hJe, hJle, hJ0, hJd, hJu⟩ := hJ
  rw [hw] at hJs hJe
  have hs1 : max I.start J.start ≤ x := by have := hxI.1; have := hxJ.1; omega
  have he1 : x ≤ min I.stop J.stop := by have := hxI.2.1; have := hxJ.2.1; omega
  have hsr : InRange I.w (max I.start J.start) := by unfold InRange at *; omega
  have her : InRange I.w (min I.stop J.stop) := by unfold InRange at *; omega
  unfold Interval.signedIntersect
  simp only [smax2_spec, smin2_spec]
  split
  · -- two singletons
    rename_i hz
    have e1 := h0.mp hz.1
    have e2 := hJ0.mp hz.2
    have hxs : x = I.start := by have := hxI.1; have := hxI.2.1; omega
    have hxj : x = J.start := by have := hxJ.1; have := hxJ.2.1; omega
    have hse : max I.start J.start = min I.stop J.stop := by omega
    rw [if_pos hse]
    refine ⟨_, rfl, ⟨by show max I.start J.start ≤ x; omega, by show x ≤ min I.stop J.stop; omega, ?_⟩,
      ⟨hw0, hsr, her, by show max I.start J.start ≤ min I.stop J.stop; omega, by simp [hse], ?_, by show (0 : Nat) < 2 ^ 64; decide⟩, rfl⟩
    · show ((0 : Nat) : Int) ∣ x - max I.start J.start
      have : x - max I.start J.start = 0 := by omega
      rw [this]; exact Int.dvd_refl _
    · show ((0 : Nat) : Int) ∣ min I.stop J.stop - max I.start J.start
      have : min I.stop J.stop - max I.start J.start = 0 := by omega
      rw [this]; exact Int.dvd_refl _
  · rename_i hnz
    split
    · -- more than 64 bit: the stride is ignored
      rw [if_pos (by omega)]
      refine ⟨_, rfl, ⟨hs1, he1, ?_⟩, ⟨hw0, hsr, her, by show max I.start J.start ≤ min I.stop J.stop; omega, ?_, ?_, ?_⟩, rfl⟩
      · show (((if max I.start J.start = min I.stop J.stop then 0 else 1 : Nat)) : Int) ∣ x - max I.start J.start
        by_cases h : max I.start J.start = min I.stop J.stop
        · have : x - max I.start J.start = 0 := by omega
          rw [if_pos h, this]; exact Int.dvd_refl _
        · simp [h, Int.one_dvd]
      · show (if max I.start J.start = min I.stop J.stop then 0 else 1) = 0 ↔ max I.start J.start = min I.stop J.stop
        by_cases h : max I.start J.start = min I.stop J.stop <;> simp [h]
      · show (((if max I.start J.start = min I.stop J.stop then 0 else 1 : Nat)) : Int) ∣ min I.stop J.stop - max I.start J.start
        by_cases h : max I.start J.start = min I.stop J.stop
        · simp [h]
        · simp [h, Int.one_dvd]
      · show (if max I.start J.start = min I.stop J.stop then 0 else 1) < 2 ^ 64
        by_cases h : max I.start J.start = min I.stop J.stop <;> simp [h]
    · rename_i hw64
      have hw64' : I.w ≤ 64 := by omega
      -- the residue class contains x
      have hres : ∃ stride rem : Nat, computeIntersectionResidueClass I J = .some stride rem ∧ 0 < stride ∧
          stride < 2 ^ 64 ∧ (stride : Int) ∣ x - rem := by
        by_cases hsI : I.stride = 0
        · have hsJ : J.stride ≠ 0 := fun h => hnz ⟨hsI, h⟩
          have hxs : x = I.start := by have := hxI.1; have := hxI.2.1; have := h0.mp hsI; omega
          obtain ⟨rem, h1, h2⟩ := residueOfSingle_spec x J hJwf (by omega) hsJ hxJ
          refine ⟨J.stride, rem, ?_, by omega, hJu, h2⟩
          unfold computeIntersectionResidueClass
          rw [if_neg hnz, if_pos hsI, ← hxs]; exact h1
        · by_cases hsJ : J.stride = 0
          · have hxs : x = J.start := by have := hxJ.1; have := hxJ.2.1; have := hJ0.mp hsJ; omega
            obtain ⟨rem, h1, h2⟩ := residueOfSingle_spec x I hIwf hw64' hsI hxI
            refine ⟨I.stride, rem, ?_, by omega, hu, h2⟩
            unfold computeIntersectionResidueClass
            rw [if_neg hnz, if_neg hsI, if_pos hsJ, ← hxs]; exact h1
          · exact hcrt hw64' hsI hsJ
      obtain ⟨stride, rem, hcomp, hst0, hst64, hdvd⟩ := hres
      rw [hcomp]
      simp only
      obtain ⟨r, hr, hrwf, hrw, hmem, _, _⟩ := adjust_spec
        { w := I.w, start := max I.start J.start, stop := min I.stop J.stop, stride := stride } stride rem
        hw0 hw64' hsr her hst0 hst64 (x := x) hs1 he1 hdvd
      exact ⟨r, hr, hmem, hrwf, hrw⟩

/-- the residue class for a common member when the lcm of the strides fits into a `u64` -/
theorem residueClass_of_lcm (I J : Interval) (hI : I.WF) (hJ : J.WF) (hsI : I.stride ≠ 0) (hsJ : J.stride ≠ 0)
    (hL : Nat.lcm I.stride J.stride < 2 ^ 64) {x : Int} (hxI : I.Mem x) (hxJ : J.Mem x) :
    ∃ stride rem : Nat, computeIntersectionResidueClass I J = .some stride rem ∧ 0 < stride ∧ stride < 2 ^ 64 ∧
      (stride : Int) ∣ x - rem := by
  have hgl : ((Nat.gcd I.stride J.stride : Nat) : Int) ∣ (I.stride : Int) :=
    Int.natCast_dvd_natCast.mpr (Nat.gcd_dvd_left _ _)
  have hgr : ((Nat.gcd I.stride J.stride : Nat) : Int) ∣ (J.stride : Int) :=
    Int.natCast_dvd_natCast.mpr (Nat.gcd_dvd_right _ _)
  rcases residueClass_total I J hI hJ hsI hsJ hL with ⟨_, hne⟩ | ⟨rc, hres, _, d1, d2⟩
  · -- a common member makes the start values congruent modulo the gcd
    exfalso
    apply hne
    have e1 : I.start % ((Nat.gcd I.stride J.stride : Nat) : Int) = x % ((Nat.gcd I.stride J.stride : Nat) : Int) := by
      apply Int.emod_eq_emod_iff_emod_sub_eq_zero.mpr
      apply Int.emod_eq_zero_of_dvd
      have : I.start - x = -(x - I.start) := by omega
      rw [this]; exact Int.dvd_neg.mpr (Int.dvd_trans hgl hxI.2.2)
    have e2 : J.start % ((Nat.gcd I.stride J.stride : Nat) : Int) = x % ((Nat.gcd I.stride J.stride : Nat) : Int) := by
      apply Int.emod_eq_emod_iff_emod_sub_eq_zero.mpr
      apply Int.emod_eq_zero_of_dvd
      have : J.start - x = -(x - J.start) := by omega
      rw [this]; exact Int.dvd_neg.mpr (Int.dvd_trans hgr hxJ.2.2)
    rw [e1, e2]
  · refine ⟨_, rc, hres, Nat.lcm_pos (by omega) (by omega), hL, ?_⟩
    have dI : (I.stride : Int) ∣ x - rc := by
      have : x - rc = (x - I.start) + (I.start - rc) := by omega
      rw [this]; exact Int.dvd_add hxI.2.2 d1
    have dJ : (J.stride : Int) ∣ x - rc := by
      have : x - rc = (x - J.start) + (J.start - rc) := by omega
      rw [this]; exact Int.dvd_add hxJ.2.2 d2
    exact lcm_dvd_int dI dJ

/-- **C04-intersect (intervals).** Every common member of two well-formed intervals of the same width is
a member of `signed_intersect` — which in particular does not report "empty" — whenever the stride of
the intersection, `lcm(stride_left, stride_right)`, fits into a `u64` (`Nat.lcm _ 0 = 0`, so operands
with a single value are covered). -/
theorem signedIntersect_spec (I J : Interval) (hI : I.WF) (hJ : J.WF) (hw : J.w = I.w)
    (hL : Nat.lcm I.stride J.stride < 2 ^ 64) {x : Int} (hxI : I.Mem x) (hxJ : J.Mem x) :
    ∃ r, I.signedIntersect J = some r ∧ r.Mem x ∧ r.WF ∧ r.w = I.w :=
  signedIntersect_of_residue I J hI hJ hw hxI hxJ
    (fun _ hsI hsJ => residueClass_of_lcm I J hI hJ hsI hsJ hL hxI hxJ)

/-- the same for strides whose lcm exceeds `u64::MAX`, where the code documents that it gives up:
under the hypothesis that the chinese-remainder computation does not answer `Err("Integer overflow …")`
(and that the product of the strides is below `2^127`, so that the computed lcm is not a wrapped value) -/
theorem signedIntersect_spec_partial (I J : Interval) (hI : I.WF) (hJ : J.WF) (hw : J.w = I.w)
    (hprod : I.stride * J.stride < 2 ^ 127) (hne : computeIntersectionResidueClass I J ≠ .err)
    {x : Int} (hxI : I.Mem x) (hxJ : J.Mem x) :
    ∃ r, I.signedIntersect J = some r ∧ r.Mem x ∧ r.WF ∧ r.w = I.w :=
  signedIntersect_of_residue I J hI hJ hw hxI hxJ
    (fun _ hsI hsJ => residueClass_spec I J hI hJ hsI hsJ hprod hxI hxJ hne)

/-! ### `IntervalDomain::intersect` -/

theorem intersect_interval (a b r : IntervalDomain) (h : a.intersect b = some r) :
    a.interval.signedIntersect b.interval = some r.interval := by
  unfold IntervalDomain.intersect at h
  split at h
  · cases h
  · rename_i I hI
    simp only at h
    rw [hI]
    split at h
    · cases h
      simp only [updateUpper_interval, updateLower_interval]; rfl
    · cases h
      simp only [updateUpper_interval, updateLower_interval]; rfl

theorem intersect_of_interval (a b : IntervalDomain) {x : Int}
    (h : ∃ I, a.interval.signedIntersect b.interval = some I ∧ I.Mem x) : ∃ r, a.intersect b = some r ∧ r.Mem x := by
  obtain ⟨I, hI, hmem⟩ := h
  cases hr : a.intersect b with
  | none =>
    exfalso
    unfold IntervalDomain.intersect at hr
    rw [hI] at hr
    simp at hr
  | some r =>
    refine ⟨r, rfl, ?_⟩
    have := intersect_interval a b r hr
    rw [hI] at this
    cases this
    exact hmem

/-- **C04-intersect.** Every concrete value represented by both operands is represented by the
intersection, for all well-formed operands of equal width whose strides have a least common multiple
of at most `u64::MAX` (the stride of the intersection must be representable; `lcm = 0` if one operand is
a single value). The residue computation (`extended_gcd`, chinese remainder in `i128`) is proved not to
overflow and not to give up in this range. -/
theorem intersect_sound (a b : IntervalDomain) (ha : a.WF) (hb : b.WF) (hw : b.interval.w = a.interval.w)
    (hL : Nat.lcm a.interval.stride b.interval.stride < 2 ^ 64)
    {x : Int} (hxa : a.Mem x) (hxb : b.Mem x) : ∃ r, a.intersect b = some r ∧ r.Mem x := by
  obtain ⟨I, hI, hmem, _, _⟩ := signedIntersect_spec a.interval b.interval ha.1 hb.1 hw hL hxa hxb
  exact intersect_of_interval a b ⟨I, hI, hmem⟩

/-- **C04-intersect-unsat.** `intersect` reports "unsatisfiable" only when the operands share no concrete
value (same range of strides). -/
theorem intersect_none_no_common (a b : IntervalDomain) (ha : a.WF) (hb : b.WF) (hw : b.interval.w = a.interval.w)
    (hL : Nat.lcm a.interval.stride b.interval.stride < 2 ^ 64) (hnone : a.intersect b = none) :
    ¬ ∃ x, a.Mem x ∧ b.Mem x := by
  rintro ⟨x, hxa, hxb⟩
  obtain ⟨r, hr, _⟩ := intersect_sound a b ha hb hw hL hxa hxb
  rw [hnone] at hr
  cases hr

/-- the same statement for strides with `lcm > u64::MAX`. `_partial`: under the hypothesis that the
chinese-remainder computation does not give up with `Err("Integer overflow …")` (it documents that it
does so when the stride of the intersection exceeds `u64::MAX`; known finding
`intersect-lcm-overflow-false-unsat`) and that the product of the strides is below `2^127`. -/
theorem intersect_sound_partial (a b : IntervalDomain) (ha : a.WF) (hb : b.WF) (hw : b.interval.w = a.interval.w)
    (hprod : a.interval.stride * b.interval.stride < 2 ^ 127)
    (hne : computeIntersectionResidueClass a.interval b.interval ≠ .err)
    {x : Int} (hxa : a.Mem x) (hxb : b.Mem x) : ∃ r, a.intersect b = some r ∧ r.Mem x := by
  obtain ⟨I, hI, hmem, _, _⟩ := signedIntersect_spec_partial a.interval b.interval ha.1 hb.1 hw hprod hne hxa hxb
  exact intersect_of_interval a b ⟨I, hI, hmem⟩

/-! ### non-vacuity -/

/-- `[45, stride 8, 69]` ∩ `[-116, stride 7, 101]` (the witness of defect D10) -/
def exI : IntervalDomain := ⟨⟨8, 45, 69, 8⟩, none, none, 0⟩
def exJ : IntervalDomain := ⟨⟨8, -116, 101, 7⟩, none, none, 0⟩

example : ∃ r, exI.intersect exJ = some r ∧ r.Mem 45 :=
  intersect_sound exI exJ
    ⟨by decide, (by intro u h; cases h), (by intro l h; cases h), by decide⟩
    ⟨by decide, (by intro u h; cases h), (by intro l h; cases h), by decide⟩ rfl (by decide)
    (by decide) (by decide)

example : ∃ r, exI.intersect exJ = some r ∧ r.Mem 45 :=
  intersect_sound_partial exI exJ
    ⟨by decide, (by intro u h; cases h), (by intro l h; cases h), by decide⟩
    ⟨by decide, (by intro u h; cases h), (by intro l h; cases h), by decide⟩ rfl (by decide) (by decide)
    (by decide) (by decide)

example : exI.intersect exJ = some ⟨⟨8, 45, 45, 0⟩, none, none, 0⟩ := by decide

end CweModel.C04
