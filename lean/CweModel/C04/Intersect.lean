/-
C04 — `intersect`: every common member of two values is a member of the intersection, for ALL operands.

`CweModel.C04.Crt` proves that the chinese-remainder computation cannot overflow and passes the code's
own verification whenever `lcm(strides) ≤ u64::MAX`; `CweModel.C04.Wide` proves that
`compute_unique_common_value` (the repair of `intersect-lcm-overflow-false-unsat`) finds the only
possible common value otherwise. Here both are combined with `adjust_to_stride_and_remainder`:
`signedIntersect_spec`, `intersect_sound`, `intersect_none_no_common`.
-/
import CweModel.C04.Wide
import CweModel.C02.Count

namespace CweModel.C04
open CweModel.Itv CweModel.C02

/-! ### the residue class -/

/-- the single-value case of `compute_intersection_residue_class` -/
theorem residueOfSingle_spec (x : Int) (J : Interval) (hJ : J.WF) (hw64 : J.w ≤ 64) (hst : J.stride ≠ 0)
    (hx : J.Mem x) :
    ∃ rem : Nat, residueOfSingle x J = .some J.stride rem ∧ (J.stride : Int) ∣ x - rem := by
  have hxr := Interval.mem_inRange hJ hx
  obtain ⟨hw0, hJs, hJe, hle, h0, hd, hu⟩ := hJ
  have hc : J.contains x = true := (contains_iff_mem J hw0 hw64 hJs hle hxr).mpr hx
  have hn : (0 : Int) < (J.stride : Int) := by omega
  unfold residueOfSingle
  rw [if_pos hc, tryToI128_inRange hw0 hw64 hJs]
  simp only
  rw [trem_fix _ _ hn]
  have hr0 : 0 ≤ J.start % (J.stride : Int) := Int.emod_nonneg _ (by omega)
  have hr1 : J.start % (J.stride : Int) < (J.stride : Int) := Int.emod_lt_of_pos _ hn
  have hu' : ((J.stride : Nat) : Int) < 2 ^ 64 := by exact_mod_cast hu
  have e1 : toU 64 (J.stride : Int) = J.stride := by
    have := toU64_of_lt (show 0 ≤ (J.stride : Int) by omega) hu'; omega
  refine ⟨toU 64 (J.start % (J.stride : Int)), by rw [e1], ?_⟩
  rw [toU64_of_lt hr0 (by omega)]
  have e3 : (J.stride : Int) ∣ J.start - J.start % (J.stride : Int) := by
    have := Int.mul_ediv_add_emod J.start (J.stride : Int)
    have h' : J.start - J.start % (J.stride : Int) = (J.stride : Int) * (J.start / (J.stride : Int)) := by omega
    rw [h']; exact Int.dvd_mul_right _ _
  have : x - J.start % (J.stride : Int) = (x - J.start) + (J.start - J.start % (J.stride : Int)) := by omega
  rw [this]; exact Int.dvd_add hx.2.2 e3

theorem lcm_dvd_int {s t : Nat} {z : Int} (h1 : (s : Int) ∣ z) (h2 : (t : Int) ∣ z) :
    ((Nat.lcm s t : Nat) : Int) ∣ z := by
  rw [← Int.natAbs_dvd_natAbs] at h1 h2
  simp only [Int.natAbs_natCast] at h1 h2
  have := Nat.lcm_dvd h1 h2
  rw [← Int.natAbs_dvd_natAbs]
  simpa using this

/-! ### `Interval::signed_intersect` -/

theorem smax2_spec (a b : Int) : Interval.smax2 a b = max a b := by
  unfold Interval.smax2; split <;> omega

theorem smin2_spec (a b : Int) : Interval.smin2 a b = min a b := by
  unfold Interval.smin2; split <;> omega

/-- a common member makes the start values congruent modulo the gcd of the strides -/
theorem cong_of_common (I J : Interval) {x : Int} (hxI : I.Mem x) (hxJ : J.Mem x) :
    I.start % ((Nat.gcd I.stride J.stride : Nat) : Int) = J.start % ((Nat.gcd I.stride J.stride : Nat) : Int) := by
  have hgl : ((Nat.gcd I.stride J.stride : Nat) : Int) ∣ (I.stride : Int) :=
    Int.natCast_dvd_natCast.mpr (Nat.gcd_dvd_left _ _)
  have hgr : ((Nat.gcd I.stride J.stride : Nat) : Int) ∣ (J.stride : Int) :=
    Int.natCast_dvd_natCast.mpr (Nat.gcd_dvd_right _ _)
  have e1 : I.start % ((Nat.gcd I.stride J.stride : Nat) : Int) = x % ((Nat.gcd I.stride J.stride : Nat) : Int) := by
    apply Int.emod_eq_emod_iff_emod_sub_eq_zero.mpr
    apply Int.emod_eq_zero_of_dvd
    have : I.start - x = -(x - I.start) := by omega
    rw [this]; exact Int.dvd_neg.mpr (Int.dvd_trans hgl hxI.2.2)
  have e2 : J.start % ((Nat.gcd I.stride J.stride : Nat) : Int) = x % ((Nat.gcd I.stride J.stride : Nat) : Int) := by
    apply Int.emod_eq_emod_iff_emod_sub_eq_zero.mpr
    apply Int.emod_eq_zero_of_dvd
    have : J.start - x = -(x - J.start) := by omega
    rw [this]; exact Int.dvd_neg.mpr (Int.dvd_trans hgr hxJ.2.2)
  rw [e1, e2]

/-- the residue class for a common member when the lcm of the strides fits into a `u64` -/
theorem residueClass_of_lcm (I J : Interval) (hI : I.WF) (hJ : J.WF) (hsI : I.stride ≠ 0) (hsJ : J.stride ≠ 0)
    (hL : Nat.lcm I.stride J.stride < 2 ^ 64) {x : Int} (hxI : I.Mem x) (hxJ : J.Mem x) :
    ∃ stride rem : Nat, computeIntersectionResidueClass I J = .some stride rem ∧ 0 < stride ∧ stride < 2 ^ 64 ∧
      (stride : Int) ∣ x - rem := by
  rcases residueClass_total I J hI hJ hsI hsJ hL with ⟨_, hne⟩ | ⟨rc, hres, _, d1, d2⟩
  · exact absurd (cong_of_common I J hxI hxJ) hne
  · refine ⟨_, rc, hres, Nat.lcm_pos (by omega) (by omega), hL, ?_⟩
    have dI : (I.stride : Int) ∣ x - rc := by
      have : x - rc = (x - I.start) + (I.start - rc) := by omega
      rw [this]; exact Int.dvd_add hxI.2.2 d1
    have dJ : (J.stride : Int) ∣ x - rc := by
      have : x - rc = (x - J.start) + (J.start - rc) := by omega
      rw [this]; exact Int.dvd_add hxJ.2.2 d2
    exact lcm_dvd_int dI dJ

/-- **C04-intersect (intervals).** Every common member of two well-formed intervals of the same width is
a member of `signed_intersect`, which in particular does not report "empty". No restriction on the
strides: if their lcm fits a `u64` the chinese-remainder path is taken (`residueClass_total`), otherwise
the intervals share at most one value and `compute_unique_common_value` finds it
(`uniqueCommon_complete`). -/
theorem signedIntersect_spec (I J : Interval) (hI : I.WF) (hJ : J.WF) (hw : J.w = I.w)
    {x : Int} (hxI : I.Mem x) (hxJ : J.Mem x) :
    ∃ r, I.signedIntersect J = some r ∧ r.Mem x ∧ r.WF ∧ r.w = I.w := by
  have hIwf := hI
  have hJwf := hJ
  obtain ⟨hw0, hIs, hIe, hle, h0, hd, hu⟩ := hI
  obtain ⟨_, hJs, hJe, hJle, hJ0, hJd, hJu⟩ := hJ
  rw [hw] at hJs hJe
  have hs1 : max I.start J.start ≤ x := by have := hxI.1; have := hxJ.1; omega
  have he1 : x ≤ min I.stop J.stop := by have := hxI.2.1; have := hxJ.2.1; omega
  have hsr : InRange I.w (max I.start J.start) := by unfold InRange at *; omega
  have her : InRange I.w (min I.stop J.stop) := by unfold InRange at *; omega
  unfold Interval.signedIntersect
  simp only [smax2_spec, smin2_spec]
  split
  · -- two singletons
    rename_i hz
    have e1 := h0.mp hz.1
    have e2 := hJ0.mp hz.2
    have hxs : x = I.start := by have := hxI.1; have := hxI.2.1; omega
    have hxj : x = J.start := by have := hxJ.1; have := hxJ.2.1; omega
    have hse : max I.start J.start = min I.stop J.stop := by omega
    rw [if_pos hse]
    refine ⟨_, rfl, ⟨by show max I.start J.start ≤ x; omega, by show x ≤ min I.stop J.stop; omega, ?_⟩,
      ⟨hw0, hsr, her, by show max I.start J.start ≤ min I.stop J.stop; omega, by simp [hse], ?_, by show (0 : Nat) < 2 ^ 64; decide⟩, rfl⟩
    · show ((0 : Nat) : Int) ∣ x - max I.start J.start
      have : x - max I.start J.start = 0 := by omega
      rw [this]; exact Int.dvd_refl _
    · show ((0 : Nat) : Int) ∣ min I.stop J.stop - max I.start J.start
      have : min I.stop J.stop - max I.start J.start = 0 := by omega
      rw [this]; exact Int.dvd_refl _
  · rename_i hnz
    split
    · -- more than 64 bit: the stride is ignored
      rw [if_pos (by omega)]
      refine ⟨_, rfl, ⟨hs1, he1, ?_⟩, ⟨hw0, hsr, her, by show max I.start J.start ≤ min I.stop J.stop; omega, ?_, ?_, ?_⟩, rfl⟩
      · show (((if max I.start J.start = min I.stop J.stop then 0 else 1 : Nat)) : Int) ∣ x - max I.start J.start
        by_cases h : max I.start J.start = min I.stop J.stop
        · have : x - max I.start J.start = 0 := by omega
          rw [if_pos h, this]; exact Int.dvd_refl _
        · simp [h, Int.one_dvd]
      · show (if max I.start J.start = min I.stop J.stop then 0 else 1) = 0 ↔ max I.start J.start = min I.stop J.stop
        by_cases h : max I.start J.start = min I.stop J.stop <;> simp [h]
      · show (((if max I.start J.start = min I.stop J.stop then 0 else 1 : Nat)) : Int) ∣ min I.stop J.stop - max I.start J.start
        by_cases h : max I.start J.start = min I.stop J.stop
        · simp [h]
        · simp [h, Int.one_dvd]
      · show (if max I.start J.start = min I.stop J.stop then 0 else 1) < 2 ^ 64
        by_cases h : max I.start J.start = min I.stop J.stop <;> simp [h]
    · rename_i hw64
      have hw64' : I.w ≤ 64 := by omega
      have hlcmN : I.stride / Nat.gcd I.stride J.stride * J.stride = Nat.lcm I.stride J.stride := by
        unfold Nat.lcm
        rw [Nat.mul_div_right_comm (Nat.gcd_dvd_left _ _)]
      rw [hlcmN]
      split
      · -- lcm > u64::MAX: the only common value
        rename_i hbig
        have hsI : I.stride ≠ 0 := by
          intro h; rw [h, Nat.lcm_zero_left] at hbig; omega
        have hsJ : J.stride ≠ 0 := by
          intro h; rw [h, Nat.lcm_zero_right] at hbig; omega
        have hxr := Interval.mem_inRange hIwf hxI
        rw [uniqueCommon_complete I J hIwf hJwf hw hw64' hsI hsJ (by omega) hxI hxJ]
        simp only
        rw [tryToI128_inRange hw0 hw64' hsr, tryToI128_inRange hw0 hw64' her]
        simp only
        rw [if_pos ⟨hs1, he1⟩, wrap_of_inRange I.w hw0 hxr]
        exact ⟨_, rfl, ⟨Int.le_refl _, Int.le_refl _, by simp⟩,
          ⟨hw0, hxr, hxr, Int.le_refl _, by simp, by simp, by show (0 : Nat) < 2 ^ 64; decide⟩, rfl⟩
      · rename_i hsmall
        have hL : Nat.lcm I.stride J.stride < 2 ^ 64 := by omega
        -- the residue class contains x
        have hres : ∃ stride rem : Nat, computeIntersectionResidueClass I J = .some stride rem ∧ 0 < stride ∧
            stride < 2 ^ 64 ∧ (stride : Int) ∣ x - rem := by
          by_cases hsI : I.stride = 0
          · have hsJ : J.stride ≠ 0 := fun h => hnz ⟨hsI, h⟩
            have hxs : x = I.start := by have := hxI.1; have := hxI.2.1; have := h0.mp hsI; omega
            obtain ⟨rem, h1, h2⟩ := residueOfSingle_spec x J hJwf (by omega) hsJ hxJ
            refine ⟨J.stride, rem, ?_, by omega, hJu, h2⟩
            unfold computeIntersectionResidueClass
            rw [if_neg hnz, if_pos hsI, ← hxs]; exact h1
          · by_cases hsJ : J.stride = 0
            · have hxs : x = J.start := by have := hxJ.1; have := hxJ.2.1; have := hJ0.mp hsJ; omega
              obtain ⟨rem, h1, h2⟩ := residueOfSingle_spec x I hIwf hw64' hsI hxI
              refine ⟨I.stride, rem, ?_, by omega, hu, h2⟩
              unfold computeIntersectionResidueClass
              rw [if_neg hnz, if_neg hsI, if_pos hsJ, ← hxs]; exact h1
            · exact residueClass_of_lcm I J hIwf hJwf hsI hsJ hL hxI hxJ
        obtain ⟨stride, rem, hcomp, hst0, hst64, hdvd⟩ := hres
        rw [hcomp]
        simp only
        obtain ⟨r, hr, hrwf, hrw, hmem, _, _⟩ := adjust_spec
          { w := I.w, start := max I.start J.start, stop := min I.stop J.stop, stride := stride } stride rem
          hw0 hw64' hsr her hst0 hst64 (x := x) hs1 he1 hdvd
        exact ⟨r, hr, hmem, hrwf, hrw⟩

/-! ### `IntervalDomain::intersect` -/

theorem intersect_interval (a b r : IntervalDomain) (h : a.intersect b = some r) :
    a.interval.signedIntersect b.interval = some r.interval := by
  unfold IntervalDomain.intersect at h
  split at h
  · cases h
  · rename_i I hI
    simp only at h
    rw [hI]
    split at h
    · cases h
      simp only [updateUpper_interval, updateLower_interval]; rfl
    · cases h
      simp only [updateUpper_interval, updateLower_interval]; rfl

theorem intersect_of_interval (a b : IntervalDomain) {x : Int}
    (h : ∃ I, a.interval.signedIntersect b.interval = some I ∧ I.Mem x) : ∃ r, a.intersect b = some r ∧ r.Mem x := by
  obtain ⟨I, hI, hmem⟩ := h
  cases hr : a.intersect b with
  | none =>
    exfalso
    unfold IntervalDomain.intersect at hr
    rw [hI] at hr
    simp at hr
  | some r =>
    refine ⟨r, rfl, ?_⟩
    have := intersect_interval a b r hr
    rw [hI] at this
    cases this
    exact hmem

/-- **C04-intersect.** Every concrete value represented by both operands is represented by the
intersection, for ALL well-formed operands of equal width (any strides). The residue computation
(`extended_gcd`, chinese remainder in `i128`) is proved not to overflow and not to give up when the lcm
of the strides fits a `u64`; beyond that the unique common value is computed in `u128`. -/
theorem intersect_sound (a b : IntervalDomain) (ha : a.WF) (hb : b.WF) (hw : b.interval.w = a.interval.w)
    {x : Int} (hxa : a.Mem x) (hxb : b.Mem x) : ∃ r, a.intersect b = some r ∧ r.Mem x := by
  obtain ⟨I, hI, hmem, _, _⟩ := signedIntersect_spec a.interval b.interval ha.1 hb.1 hw hxa hxb
  exact intersect_of_interval a b ⟨I, hI, hmem⟩

/-- **C04-intersect-unsat.** `intersect` reports "unsatisfiable" only when the operands share no concrete
value. -/
theorem intersect_none_no_common (a b : IntervalDomain) (ha : a.WF) (hb : b.WF) (hw : b.interval.w = a.interval.w)
    (hnone : a.intersect b = none) : ¬ ∃ x, a.Mem x ∧ b.Mem x := by
  rintro ⟨x, hxa, hxb⟩
  obtain ⟨r, hr, _⟩ := intersect_sound a b ha hb hw hxa hxb
  rw [hnone] at hr
  cases hr

/-! ### non-vacuity -/

/-- `[45, stride 8, 69]` ∩ `[-116, stride 7, 101]` (the witness of defect D10) -/
def exI : IntervalDomain := ⟨⟨8, 45, 69, 8⟩, none, none, 0⟩
def exJ : IntervalDomain := ⟨⟨8, -116, 101, 7⟩, none, none, 0⟩

example : ∃ r, exI.intersect exJ = some r ∧ r.Mem 45 :=
  intersect_sound exI exJ
    ⟨by decide, (by intro u h; cases h), (by intro l h; cases h), by decide⟩
    ⟨by decide, (by intro u h; cases h), (by intro l h; cases h), by decide⟩ rfl
    (x := 45) (by decide) (by decide)

/-- the witness of the known finding: `{4, 4 + 2313877300527753421, …}` ∩ `{4, 4 + 1610612736}` (8 byte) -/
def exK : IntervalDomain := ⟨⟨64, 4, 4 + 2313877300527753421 * 3, 2313877300527753421⟩, none, none, 0⟩
def exM : IntervalDomain := ⟨⟨64, 4, 4 + 1610612736, 1610612736⟩, none, none, 0⟩

example : ∃ r, exK.intersect exM = some r ∧ r.Mem 4 :=
  intersect_sound exK exM
    ⟨by decide, (by intro u h; cases h), (by intro l h; cases h), by decide⟩
    ⟨by decide, (by intro u h; cases h), (by intro l h; cases h), by decide⟩ rfl
    (x := 4) (by decide) (by decide)

example : exI.intersect exJ = some ⟨⟨8, 45, 45, 0⟩, none, none, 0⟩ := by decide

end CweModel.C04
