/-
C04 — model of `<DataDomain<IntervalDomain> as SpecializeByConditional>::intersect`
(`abstract_domain/data/conditional_specialization.rs`) with `intersect_relative_values`, and of what it
calls: `<DataDomain<T> as AbstractDomain>::merge`, `From<T> for DataDomain<T>` (`data/trait_impl.rs`),
`DataDomain::is_empty`. Identifiers are natural numbers; the relative targets are kept as a list in key
order (`BTreeMap`). `IntervalDomain::merge` is `C03.signedMergeAndWiden`.
-/
import CweModel.C04.Model
import CweModel.C03.Interval

namespace CweModel.Itv

namespace DataDomain

/-- `BTreeMap::get` -/
def lookupRel (i : Nat) : List (Nat × IntervalDomain) → Option IntervalDomain
  | [] => none
  | (k, v) :: rest => if k = i then some v else lookupRel i rest

/-- `BTreeMap::insert` on a list in key order (replaces an existing entry) -/
def insertRel (i : Nat) (v : IntervalDomain) : List (Nat × IntervalDomain) → List (Nat × IntervalDomain)
  | [] => [(i, v)]
  | (k, o) :: rest =>
    if i < k then (i, v) :: (k, o) :: rest
    else if i = k then (i, v) :: rest
    else (k, o) :: insertRel i v rest

/-- `From<T> for DataDomain<T>` (`size` = byte size of the value) -/
def ofItv (v : IntervalDomain) : DataDomain Nat :=
  { size := (v.interval.w + 7) / 8, relative := [], absolute := some v, top := false }

/-- one iteration of the loop of `merge`:
`entry(id).and_modify(|offset| *offset = offset.merge(offset_other)).or_insert_with(|| offset_other.clone())` -/
def mergeRelStep (m : List (Nat × IntervalDomain)) (p : Nat × IntervalDomain) : List (Nat × IntervalDomain) :=
  match lookupRel p.1 m with
  | some o => insertRel p.1 (C03.signedMergeAndWiden o p.2) m
  | none => insertRel p.1 p.2 m

/-- `<DataDomain<T> as AbstractDomain>::merge` -/
def merge (a b : DataDomain Nat) : DataDomain Nat :=
  { size := a.size
    relative := b.relative.foldl mergeRelStep a.relative
    absolute := match a.absolute, b.absolute with
      | some l, some r => some (C03.signedMergeAndWiden l r)
      | some v, none => some v
      | none, some v => some v
      | none, none => none
    top := a.top || b.top }

/-- `intersect_relative_values` -/
def intersectRel (l r : List (Nat × IntervalDomain)) : List (Nat × IntervalDomain) :=
  l.filterMap fun p => (lookupRel p.1 r).bind fun o' => (p.2.intersect o').map fun x => (p.1, x)

/-- `<DataDomain<T> as SpecializeByConditional>::intersect`; `none` = `Err("Domain is empty.")` -/
def intersect (a b : DataDomain Nat) : Option (DataDomain Nat) :=
  let r : DataDomain Nat := match a.top, b.top with
    | true, false => b
    | false, true => a
    | _, _ =>
      { size := a.size
        relative := intersectRel a.relative b.relative
        absolute := match a.absolute, b.absolute with
          | some x, some y => x.intersect y
          | _, _ => none
        top := a.top && b.top }
  -- one side has relative values, the other absolute values: the absolute values are merged back
  let r := if !a.relative.isEmpty then (match b.absolute with | some v => r.merge (ofItv v) | none => r) else r
  let r := if !b.relative.isEmpty then (match a.absolute with | some v => r.merge (ofItv v) | none => r) else r
  if r.isEmpty then none else some r

/-- a concrete ABSOLUTE value `v` is represented by `d`: the top flag is set or `v` is a member of the
absolute part (the relative targets stand for unknown pointers and are not interpreted here) -/
def AbsRep (d : DataDomain Nat) (v : Int) : Prop :=
  d.top = true ∨ ∃ a, d.absolute = some a ∧ a.Mem v

instance (d : DataDomain Nat) (v : Int) : Decidable (d.AbsRep v) := by
  unfold AbsRep
  cases h : d.absolute with
  | none => exact decidable_of_iff (d.top = true) (by simp)
  | some a => exact decidable_of_iff (d.top = true ∨ a.Mem v) (by simp)

/-- the hypothesis of the property for an absolute value `v` of `a`: the other operand can hold `v` —
through its absolute part, its top flag, or a relative target (a pointer may have any absolute value) -/
def MayHold (b : DataDomain Nat) (v : Int) : Prop :=
  b.AbsRep v ∨ b.relative ≠ []

instance (b : DataDomain Nat) (v : Int) : Decidable (b.MayHold v) := by unfold MayHold; exact inferInstance

/-- well-formed: all intervals well-formed and of the bit width `w` -/
def WFw (d : DataDomain Nat) (w : Nat) : Prop :=
  (∀ a, d.absolute = some a → a.WF ∧ a.interval.w = w) ∧
  (∀ p, p ∈ d.relative → p.2.WF ∧ p.2.interval.w = w)

end DataDomain

end CweModel.Itv
