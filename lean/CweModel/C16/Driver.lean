/- C16 model driver: executes the model and the executable specification on harness cases. -/
import CweModel.Base.Proto
import CweModel.C16.Model
open Lean CweModel.Proto CweModel.IR

namespace CweModel.C16

def strList (j : Json) : Except String (List String) := do
  mapM' (·.getStr?) (← j.getArr?).toList

def parseWarning (j : Json) : Except String CweWarning := do
  return { name := ← strF j "name", version := ← strF j "version",
           addresses := ← strList (← field j "addresses"), tids := ← strList (← field j "tids"),
           symbols := ← strList (← field j "symbols"),
           other := ← mapM' strList (← arrF j "other"),
           description := ← strF j "description" }

def showWarning (w : CweWarning) : String :=
  s!"<{w.name}|{w.version}|{w.addresses}|{w.tids}|{w.symbols}|{w.other}|{w.description}>".replace " " "_"

def showWarnings (ws : List CweWarning) : String := s!"{ws.length}:" ++ String.join (ws.map showWarning)

def parsePair (j : Json) : Except String (String × String) := do
  match ← j.getArr? with
  | #[a, b] => return (← a.getStr?, ← b.getStr?)
  | _ => throw "pair expected"

def nodupB {α} [BEq α] : List α → Bool
  | [] => true
  | a :: as => !as.contains a && nodupB as

/-- first position where two warning lists differ, as a class suffix -/
def diffKind (exp impl : List CweWarning) : String :=
  if impl.length < exp.length then "missing"
  else if impl.length > exp.length then "extra"
  else if exp.all (impl.contains ·) && impl.all (exp.contains ·) then "order"
  else "content"

def handleE (line : String) : Except String String := do
  let j ← Json.parse line
  let chk ← strF j "chk"
  let prog ← parseProgram (← field j "prog")
  let cfg ← field j "cfg"
  let implJ ← field j "impl"
  let tidsOk := nodupB (prog.externSymbols.map (·.tid))
  let namesOk := nodupB (prog.externSymbols.map (·.name))
  -- model and specification
  let (model, spec) ← match chk with
    | "CWE676" => do
      let syms ← strList (← field cfg "symbols")
      pure (cwe676 prog syms, if tidsOk then some (spec676 prog syms) else none)
    | "CWE782" =>
      -- the property sentence where names are unique, the first-match characterisation otherwise
      pure (cwe782 prog, if !tidsOk then none else if namesOk then some (spec782 prog) else some (exact782 prog))
    | "CWE426" => do
      let syms ← strList (← field cfg "symbols")
      pure (cwe426 prog syms,
        if !tidsOk then none else if namesOk then some (spec426 prog syms) else some (exact426 prog syms))
    | "CWE332" => do
      let pairs ← mapM' parsePair (← arrF cfg "pairs")
      pure (cwe332 prog pairs, some (spec332 prog pairs))
    | c => throw s!"unknown checker {c}"
  match implJ with
  | .str s =>
    -- the checkers are total on well-typed configurations
    return s!"spec class={chk}-panic expected={showWarnings (spec.getD model)} impl={s}"
  | _ =>
    let impl ← mapM' parseWarning (← arrF implJ "warnings")
    let logs ← natF implJ "logs"
    match spec with
    | some e =>
      if impl != e then
        return s!"spec class={chk}-{diffKind e impl} expected={showWarnings e} impl={showWarnings impl} model={showWarnings model}"
    | none => pure ()
    if impl != model then
      return s!"diff class={chk}-{diffKind model impl} model={showWarnings model} impl={showWarnings impl}"
    if logs != 0 then
      return s!"diff class={chk}-logs model=0 impl={logs}"
    -- duplicate names: does the first-match rule of `find_symbol` show (informational)
    let quirk := !namesOk && (match chk with
      | "CWE782" => spec782 prog != model
      | "CWE426" => (do let syms ← strList (← field cfg "symbols"); pure (spec426 prog syms != model) : Except String Bool).toOption.getD false
      | _ => false)
    let uses := chk == "CWE782" || chk == "CWE426"
    let tag := if spec.isNone then "modelonly" else if uses && !namesOk then
      (if quirk then "dupnames-firstmatch-visible" else "dupnames") else "constrained"
    let w := if impl.isEmpty then "silent" else "warns"
    return s!"ok {chk} {chk}-{tag} {chk}-{w}"

end CweModel.C16

def main : IO Unit := CweModel.Proto.runDriver (CweModel.Proto.guarded CweModel.C16.handleE)
