/-
C16 — model of the call-site checkers `checkers/cwe_676.rs`, `cwe_782.rs`, `cwe_426.rs`,
`cwe_332.rs` and of the helpers of `utils/symbol_utils.rs` they use
(`find_symbol`, `get_calls_to_symbols`).

A `HashMap<&Tid, &str>` is modelled as an association list in insertion order whose lookup returns
the LAST inserted binding of a key (`HashMap::insert` overwrites); iteration order of the maps is
never observed by the four checkers. `BTreeMap<Tid, _>` containers are the lists of `Base/IR` in
key order (canonical JSON: key = `tid` of the value), so the order of the produced warnings is
determined: `subs` in key order, blocks and jumps in program order, configuration entries in
configuration order.
-/
import CweModel.Base.IRInst
open CweModel.IR

namespace CweModel.C16

/-- `utils::log::CweWarning` -/
structure CweWarning where
  name : String
  version : String
  addresses : List String := []
  tids : List String := []
  symbols : List String := []
  other : List (List String) := []
  description : String
deriving Repr, DecidableEq, BEq, Inhabited

/-- `HashMap<&Tid, &str>`: bindings in insertion order -/
abbrev SymMap := List (Tid × String)

/-- `HashMap::get`: the binding inserted last wins -/
def SymMap.get (m : SymMap) (t : Tid) : Option String :=
  (m.reverse.find? (fun kv => kv.1 == t)).map (·.2)

/-- `find_symbol`: the first extern symbol (key order) with that name; returns its `tid` and `name` -/
def findSymbol (p : Program) (name : String) : Option (Tid × String) :=
  (p.externSymbols.find? (fun sym => name == sym.name)).map (fun sym => (sym.tid, sym.name))

/-- `get_calls_to_symbols`: for every jump of every block (all jumps, in order) that is a
`Jmp::Call` whose target is a key of the map: (name of the sub, tid of the jump, mapped name) -/
def getCallsToSymbols (sub : Term Sub) (symbols : SymMap) : List (String × Tid × String) :=
  (sub.term.blocks.flatMap (·.term.jmps)).filterMap fun jmp =>
    match jmp.term with
    | .Call dst _ => (symbols.get dst).map (fun name => (sub.term.name, jmp.tid, name))
    | _ => none

/-! ### CWE676 -/

/-- `cwe_676::resolve_symbols`: every extern symbol whose name is in the configured list -/
def resolveSymbols (ext : List ExternSymbol) (symbols : List String) : SymMap :=
  ext.filterMap fun sym => if sym.name ∈ symbols then some (sym.tid, sym.name) else none

/-- `cwe_676::get_calls` -/
def getCalls676 (subs : List (Term Sub)) (dangerous : SymMap) : List (String × Tid × String) :=
  subs.flatMap (getCallsToSymbols · dangerous)

/-- body of the loop of `cwe_676::generate_cwe_warnings` -/
def warn676 (subName : String) (jmpTid : Tid) (targetName : String) : CweWarning :=
  { name := "CWE676", version := "0.1"
    description := s!"(Use of Potentially Dangerous Function) {subName} ({jmpTid.address}) -> {targetName}"
    addresses := [jmpTid.address], tids := [jmpTid.id], symbols := [subName]
    other := [["dangerous_function", targetName]] }

/-- `cwe_676::check_cwe` with `config.symbols = cfg` -/
def cwe676 (p : Program) (cfg : List String) : List CweWarning :=
  (getCalls676 p.subs (resolveSymbols p.externSymbols cfg)).map fun c => warn676 c.1 c.2.1 c.2.2

/-! ### CWE782 -/

/-- body of the loop of `cwe_782::generate_cwe_warning` -/
def warn782 (subName : String) (jmpTid : Tid) : CweWarning :=
  { name := "CWE782", version := "0.1"
    description := s!"(Exposed IOCTL with Insufficient Access Control) Program uses ioctl at {subName} ({jmpTid.address}). Be sure to double check the program and the corresponding driver."
    addresses := [jmpTid.address], tids := [jmpTid.id], symbols := [subName] }

/-- `cwe_782::handle_sub` -/
def handleSub782 (sub : Term Sub) (symbol : SymMap) : List CweWarning :=
  let calls := getCallsToSymbols sub symbol
  if !calls.isEmpty then calls.map fun c => warn782 c.1 c.2.1 else []

/-- `cwe_782::check_cwe` -/
def cwe782 (p : Program) : List CweWarning :=
  match findSymbol p "ioctl" with
  | some (tid, name) => p.subs.flatMap (handleSub782 · [(tid, name)])
  | none => []

/-! ### CWE426 -/

/-- `cwe_426::generate_cwe_warning` -/
def warn426 (sub : Term Sub) : CweWarning :=
  { name := "CWE426", version := "0.1"
    description := s!"(Untrusted Search Path) sub {sub.term.name} at {sub.tid.address} may be vulnerable to PATH manipulation."
    tids := [sub.tid.id], addresses := [sub.tid.address], symbols := [sub.term.name] }

/-- the first loop of `cwe_426::check_cwe`: `find_symbol` for each configured name, inserted in order -/
def privilegeSymbols (p : Program) (cfg : List String) : SymMap :=
  cfg.filterMap (findSymbol p)

/-- `cwe_426::check_cwe` with `config.symbols = cfg` -/
def cwe426 (p : Program) (cfg : List String) : List CweWarning :=
  let priv := privilegeSymbols p cfg
  -- `if let Some((tid, name)) = find_symbol(.., "system") { system_symbol.insert(tid, name); }`
  let system : SymMap := (findSymbol p "system").toList
  if !system.isEmpty && !priv.isEmpty then
    (p.subs.filter fun sub =>
      !(getCallsToSymbols sub system).isEmpty && !(getCallsToSymbols sub priv).isEmpty).map warn426
  else []

/-! ### CWE332 -/

/-- `cwe_332::generate_cwe_warning` -/
def warn332 (secureInitializer randFunc : String) : CweWarning :=
  { name := "CWE332", version := "0.1"
    description := s!"(Insufficient Entropy in PRNG) program uses {randFunc} without calling {secureInitializer} before" }

/-- `cwe_332::check_cwe` with `config.pairs = cfg` (pairs are (seeding function, generator)) -/
def cwe332 (p : Program) (cfg : List (String × String)) : List CweWarning :=
  (cfg.filter fun pr => (findSymbol p pr.2).isSome && (findSymbol p pr.1).isNone).map
    fun pr => warn332 pr.1 pr.2

/-! ### Specification

Stated from the call sites' point of view: a jump *calls* the extern symbol whose tid is the
target of the `Jmp::Call`; the configuration only contributes the predicate on the symbol. -/

/-- the imported symbol a jump calls, if any -/
def calledSymbol (p : Program) (j : Term Jmp) : Option ExternSymbol :=
  match j.term with
  | .Call dst _ => p.externSymbols.find? (fun s => s.tid == dst)
  | _ => none

/-- the jumps of a function, in program order -/
def Sub.jmps (sub : Term Sub) : List (Term Jmp) := sub.term.blocks.flatMap (·.term.jmps)

/-- the call sites of a function that call an imported symbol satisfying `P`, in program order -/
def callSitesOfSub (p : Program) (P : ExternSymbol → Bool) (sub : Term Sub) : List (Term Jmp × ExternSymbol) :=
  (Sub.jmps sub).filterMap fun j =>
    match calledSymbol p j with
    | some s => if P s then some (j, s) else none
    | none => none

/-- all call sites (function, jump, symbol) of the program, in program order -/
def callSites (p : Program) (P : ExternSymbol → Bool) : List (Term Sub × Term Jmp × ExternSymbol) :=
  p.subs.flatMap fun sub => (callSitesOfSub p P sub).map fun js => (sub, js.1, js.2)

/-- `name` is imported -/
def imported (p : Program) (name : String) : Bool := p.externSymbols.any (fun s => name == s.name)

/-- the function calls an imported symbol satisfying `P` -/
def subCalls (p : Program) (P : ExternSymbol → Bool) (sub : Term Sub) : Bool :=
  (Sub.jmps sub).any fun j => match calledSymbol p j with | some s => P s | none => false

/-- CWE676: one warning per call to an imported symbol on the configured list -/
def spec676 (p : Program) (cfg : List String) : List CweWarning :=
  (callSites p (fun s => decide (s.name ∈ cfg))).map fun c => warn676 c.1.term.name c.2.1.tid c.2.2.name

/-- CWE782: one warning per call to ioctl -/
def spec782 (p : Program) : List CweWarning :=
  (callSites p (fun s => s.name == "ioctl")).map fun c => warn782 c.1.term.name c.2.1.tid

/-- CWE426: each function that calls both system and a configured privilege-changing function -/
def spec426 (p : Program) (cfg : List String) : List CweWarning :=
  (p.subs.filter fun sub =>
    subCalls p (fun s => s.name == "system") sub && subCalls p (fun s => decide (s.name ∈ cfg)) sub).map warn426

/-- CWE332: each configured (initializer, generator) pair whose generator is imported while the
initializer is not -/
def spec332 (p : Program) (cfg : List (String × String)) : List CweWarning :=
  (cfg.filter fun pr => imported p pr.2 && !imported p pr.1).map fun pr => warn332 pr.1 pr.2

/-! #### what the code does when names are not unique

`find_symbol` returns the FIRST symbol (in key order) with the requested name, so with two imported
symbols of the same name only calls to the first one are seen by CWE782 and CWE426. -/

/-- `s` is the symbol `find_symbol` returns for `name` -/
def firstNamed (p : Program) (name : String) (s : ExternSymbol) : Bool :=
  decide (findSymbol p name = some (s.tid, s.name))

/-- CWE782 for all programs: one warning per call to the first symbol named ioctl -/
def exact782 (p : Program) : List CweWarning :=
  (callSites p (firstNamed p "ioctl")).map fun c => warn782 c.1.term.name c.2.1.tid

/-- CWE426 for all programs: "system" and the configured names resolved by first match -/
def exact426 (p : Program) (cfg : List String) : List CweWarning :=
  (p.subs.filter fun sub =>
    subCalls p (firstNamed p "system") sub && subCalls p (fun s => cfg.any (firstNamed p · s)) sub).map warn426

/-- invariant of `BTreeMap<Tid, ExternSymbol>` (keys pairwise distinct, key = `tid`) -/
def ExternTidsDistinct (p : Program) : Prop := (p.externSymbols.map (·.tid)).Nodup

/-- no two imported symbols share a name (where `find_symbol`'s first match matters) -/
def UniqueSymbolNames (p : Program) : Prop := (p.externSymbols.map (·.name)).Nodup

end CweModel.C16
