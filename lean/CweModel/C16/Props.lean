/-
C16 — property theorems. Statement of the property:

  For every program and configuration: the dangerous-function check reports one warning per call
  to an imported symbol on the configured list; the ioctl check reports one warning per call to
  ioctl; the untrusted-search-path check reports each function that calls both system and a
  configured privilege-changing function; the PRNG check reports each configured (initializer,
  generator) pair whose generator is imported while the initializer is not.
-/
import CweModel.C16.Model
open CweModel.IR

namespace CweModel.C16

/-! ### small list facts -/

theorem beq_dec {α : Type} [BEq α] [LawfulBEq α] [DecidableEq α] (a b : α) : (a == b) = decide (a = b) := by
  by_cases h : a = b <;> simp [h]

theorem filterMap_congr' {α β : Type} {f g : α → Option β} {l : List α} (h : ∀ a ∈ l, f a = g a) :
    l.filterMap f = l.filterMap g := by
  induction l with
  | nil => rfl
  | cons a as ih =>
    simp only [List.filterMap_cons, h a (List.mem_cons_self ..)]
    rw [ih (fun b hb => h b (List.mem_cons_of_mem _ hb))]

/-! ### lists with pairwise distinct keys -/

theorem eq_of_key_eq {α β : Type} (f : α → β) {l : List α} (h : (l.map f).Nodup) {a b : α}
    (ha : a ∈ l) (hb : b ∈ l) (hf : f a = f b) : a = b := by
  induction l with
  | nil => simp at ha
  | cons x xs ih =>
    simp only [List.map_cons, List.nodup_cons, List.mem_map, not_exists, not_and] at h
    rcases List.mem_cons.mp ha with rfl | ha' <;> rcases List.mem_cons.mp hb with rfl | hb'
    · rfl
    · exact absurd hf.symm (h.1 b hb')
    · exact absurd hf (h.1 a ha')
    · exact ih h.2 ha' hb'

theorem find?_key {α β : Type} [DecidableEq β] (f : α → β) {l : List α} (h : (l.map f).Nodup)
    (b : β) (a : α) : l.find? (fun x => decide (f x = b)) = some a ↔ a ∈ l ∧ f a = b := by
  constructor
  · intro hf
    have := List.find?_some hf
    exact ⟨List.mem_of_find?_eq_some hf, by simpa using this⟩
  · rintro ⟨ha, hb⟩
    cases hf : l.find? (fun x => decide (f x = b)) with
    | none =>
      have := List.find?_eq_none.mp hf a ha
      simp [hb] at this
    | some a' =>
      have h1 := List.mem_of_find?_eq_some hf
      have h2 : f a' = b := by simpa using List.find?_some hf
      rw [eq_of_key_eq f h h1 ha (h2.trans hb.symm)]

theorem find?_tid (p : Program) (h : ExternTidsDistinct p) (dst : Tid) (s : ExternSymbol) :
    p.externSymbols.find? (fun x => x.tid == dst) = some s ↔ s ∈ p.externSymbols ∧ s.tid = dst := by
  have := find?_key (fun x : ExternSymbol => x.tid) (l := p.externSymbols) h dst s
  simpa [beq_dec] using this

theorem findSymbol_eq_some (p : Program) (name : String) (t : Tid) (v : String) :
    findSymbol p name = some (t, v) ↔
      ∃ s, p.externSymbols.find? (fun sym => name == sym.name) = some s ∧ s.tid = t ∧ s.name = v := by
  simp only [findSymbol, Option.map_eq_some_iff, Prod.mk.injEq]

theorem findSymbol_unique (p : Program) (h : UniqueSymbolNames p) (name : String) (s : ExternSymbol)
    (hs : s ∈ p.externSymbols) :
    findSymbol p name = some (s.tid, s.name) ↔ s.name = name := by
  have hk := find?_key (fun x : ExternSymbol => x.name) (l := p.externSymbols) h name
  have e : (fun sym : ExternSymbol => name == sym.name) = (fun x => decide (x.name = name)) := by
    funext x; simp [beq_dec, eq_comm]
  rw [findSymbol_eq_some, e]
  constructor
  · rintro ⟨s', h1, _, h3⟩
    have := (hk s').mp h1
    rw [← h3]; exact this.2
  · intro hn
    exact ⟨s, (hk s).mpr ⟨hs, hn⟩, rfl, rfl⟩

/-! ### `HashMap` lookups -/

theorem SymMap.get_mem {m : SymMap} {t : Tid} {v : String} (h : m.get t = some v) : (t, v) ∈ m := by
  simp only [SymMap.get, Option.map_eq_some_iff] at h
  obtain ⟨kv, hf, rfl⟩ := h
  have h1 := List.mem_of_find?_eq_some hf
  have h2 := List.find?_some hf
  simp at h1 h2
  rw [← h2]; exact h1

theorem SymMap.get_isSome_of_mem {m : SymMap} {t : Tid} {v : String} (h : (t, v) ∈ m) : ∃ v', m.get t = some v' := by
  cases hf : m.reverse.find? (fun kv => kv.1 == t) with
  | none =>
    have := List.find?_eq_none.mp hf (t, v) (by simpa using h)
    simp at this
  | some kv => exact ⟨kv.2, by simp [SymMap.get, hf]⟩

/-- the map `m` holds exactly the bindings `tid ↦ name` of the imported symbols satisfying `P` -/
def Represents (p : Program) (m : SymMap) (P : ExternSymbol → Bool) : Prop :=
  ∀ dst v, (dst, v) ∈ m ↔ ∃ s, p.externSymbols.find? (fun x => x.tid == dst) = some s ∧ P s = true ∧ v = s.name

theorem Represents.get {p : Program} {m : SymMap} {P : ExternSymbol → Bool} (h : Represents p m P) (dst : Tid) :
    m.get dst = (p.externSymbols.find? (fun x => x.tid == dst)).bind (fun s => if P s then some s.name else none) := by
  cases hg : m.get dst with
  | some v =>
    obtain ⟨s, h1, h2, h3⟩ := (h dst v).mp (SymMap.get_mem hg)
    simp [h1, h2, h3]
  | none =>
    cases hf : p.externSymbols.find? (fun x => x.tid == dst) with
    | none => simp
    | some s =>
      by_cases hP : P s = true
      · obtain ⟨v', hv'⟩ := SymMap.get_isSome_of_mem ((h dst s.name).mpr ⟨s, hf, hP, rfl⟩)
        rw [hg] at hv'; cases hv'
      · simp [hP]

/-- `get_calls_to_symbols` with a map representing `P` lists exactly the call sites of `P`-symbols -/
theorem getCalls_eq {p : Program} {m : SymMap} {P : ExternSymbol → Bool} (h : Represents p m P) (sub : Term Sub) :
    getCallsToSymbols sub m = (callSitesOfSub p P sub).map (fun js => (sub.term.name, js.1.tid, js.2.name)) := by
  simp only [getCallsToSymbols, callSitesOfSub, Sub.jmps, List.map_filterMap]
  apply filterMap_congr'
  intro j _
  simp only [calledSymbol]
  cases hj : j.term with
  | Call dst ret =>
    simp only [h.get dst]
    cases p.externSymbols.find? (fun x => x.tid == dst) with
    | none => simp
    | some s => by_cases hP : P s = true <;> simp [hP]
  | _ => simp

theorem callSitesOfSub_isEmpty (p : Program) (P : ExternSymbol → Bool) (sub : Term Sub) :
    (callSitesOfSub p P sub).isEmpty = !subCalls p P sub := by
  simp only [callSitesOfSub, subCalls]
  induction Sub.jmps sub with
  | nil => simp
  | cons j js ih =>
    simp only [List.filterMap_cons, List.any_cons]
    cases calledSymbol p j with
    | none => simpa using ih
    | some s => by_cases hP : P s = true <;> simp [hP, ih]

theorem getCalls_isEmpty {p : Program} {m : SymMap} {P : ExternSymbol → Bool} (h : Represents p m P) (sub : Term Sub) :
    (getCallsToSymbols sub m).isEmpty = !subCalls p P sub := by
  rw [getCalls_eq h, List.isEmpty_map, callSitesOfSub_isEmpty]

/-- only the value of `P` on imported symbols matters -/
theorem callSitesOfSub_congr (p : Program) {P Q : ExternSymbol → Bool}
    (h : ∀ s ∈ p.externSymbols, P s = Q s) (sub : Term Sub) : callSitesOfSub p P sub = callSitesOfSub p Q sub := by
  simp only [callSitesOfSub]
  apply filterMap_congr'
  intro j _
  cases hc : calledSymbol p j with
  | none => rfl
  | some s =>
    have hs : s ∈ p.externSymbols := by
      simp only [calledSymbol] at hc
      split at hc
      · exact List.mem_of_find?_eq_some hc
      · cases hc
    simp [h s hs]

theorem subCalls_congr (p : Program) {P Q : ExternSymbol → Bool}
    (h : ∀ s ∈ p.externSymbols, P s = Q s) (sub : Term Sub) : subCalls p P sub = subCalls p Q sub := by
  have := callSitesOfSub_isEmpty p P sub
  rw [callSitesOfSub_congr p h, callSitesOfSub_isEmpty] at this
  simpa using this.symm

/-! ### the maps built by the checkers represent the intended predicates -/

theorem represents_resolveSymbols (p : Program) (h : ExternTidsDistinct p) (cfg : List String) :
    Represents p (resolveSymbols p.externSymbols cfg) (fun s => decide (s.name ∈ cfg)) := by
  intro dst v
  simp only [resolveSymbols, List.mem_filterMap, find?_tid p h, decide_eq_true_eq]
  constructor
  · rintro ⟨s, hs, hv⟩
    split at hv
    next hc => simp at hv; exact ⟨s, ⟨hs, hv.1⟩, hc, hv.2.symm⟩
    next => simp at hv
  · rintro ⟨s, ⟨hs, ht⟩, hc, hv⟩
    exact ⟨s, hs, by simp [hc, ht, hv]⟩

theorem represents_single (p : Program) (h : ExternTidsDistinct p) (name : String) :
    Represents p (findSymbol p name).toList (firstNamed p name) := by
  intro dst v
  simp only [find?_tid p h, firstNamed, decide_eq_true_eq]
  cases hf : findSymbol p name with
  | none => simp
  | some kv =>
    simp only [Option.toList]
    obtain ⟨t, n⟩ := kv
    obtain ⟨s0, h0, rfl, rfl⟩ := (findSymbol_eq_some p name t n).mp hf
    have hs0 := List.mem_of_find?_eq_some h0
    simp only [List.mem_singleton, Prod.mk.injEq, Option.some.injEq]
    constructor
    · rintro ⟨rfl, rfl⟩; exact ⟨s0, ⟨hs0, rfl⟩, ⟨rfl, rfl⟩, rfl⟩
    · rintro ⟨s, ⟨_, ht⟩, ⟨h1, h2⟩, hv⟩
      exact ⟨by rw [← ht, h1], by rw [hv, h2]⟩

theorem represents_privilege (p : Program) (h : ExternTidsDistinct p) (cfg : List String) :
    Represents p (privilegeSymbols p cfg) (fun s => cfg.any (firstNamed p · s)) := by
  intro dst v
  simp only [privilegeSymbols, List.mem_filterMap, find?_tid p h, List.any_eq_true, firstNamed, decide_eq_true_eq]
  constructor
  · rintro ⟨c, hc, hf⟩
    obtain ⟨s0, h0, rfl, rfl⟩ := (findSymbol_eq_some p c _ _).mp hf
    exact ⟨s0, ⟨List.mem_of_find?_eq_some h0, rfl⟩, ⟨c, hc, hf⟩, rfl⟩
  · rintro ⟨s, ⟨_, ht⟩, ⟨c, hc, hf⟩, hv⟩
    exact ⟨c, hc, by rw [hf, ht, hv]⟩

/-! ### CWE676 -/

/-- **C16-676.** For every program and configured list: the warnings of the dangerous-function
check are, in program order, exactly one warning per call site whose target is an imported symbol
with a name on the list (carrying the function name, the call's address and Tid and the symbol name). -/
theorem cwe676_spec (p : Program) (h : ExternTidsDistinct p) (cfg : List String) :
    cwe676 p cfg = spec676 p cfg := by
  simp only [cwe676, spec676, getCalls676, callSites, List.map_flatMap, List.map_map]
  congr 1
  funext sub
  rw [getCalls_eq (represents_resolveSymbols p h cfg)]
  simp [List.map_map, Function.comp_def]

/-- one warning per call: the number of warnings is the number of such call sites -/
theorem cwe676_count (p : Program) (h : ExternTidsDistinct p) (cfg : List String) :
    (cwe676 p cfg).length = (callSites p (fun s => decide (s.name ∈ cfg))).length := by
  rw [cwe676_spec p h, spec676, List.length_map]

/-! ### CWE782 -/

theorem handleSub782_eq (sub : Term Sub) (m : SymMap) :
    handleSub782 sub m = (getCallsToSymbols sub m).map fun c => warn782 c.1 c.2.1 := by
  simp only [handleSub782]
  cases getCallsToSymbols sub m <;> simp

/-- **C16-782 (all programs).** One warning per call to the symbol `find_symbol` returns for
"ioctl" (the first imported symbol of that name). -/
theorem cwe782_exact (p : Program) (h : ExternTidsDistinct p) : cwe782 p = exact782 p := by
  have hr := represents_single p h "ioctl"
  simp only [cwe782, exact782, callSites, List.map_flatMap, List.map_map]
  cases hf : findSymbol p "ioctl" with
  | none =>
    rw [hf] at hr
    simp only [Option.toList] at hr
    symm
    simp only [List.flatMap_eq_nil_iff, List.map_eq_nil_iff]
    intro sub _
    have := getCalls_eq hr sub
    simp only [getCallsToSymbols, SymMap.get, List.reverse_nil, List.find?_nil, Option.map_none] at this
    have h2 : (callSitesOfSub p (firstNamed p "ioctl") sub).map (fun js => (sub.term.name, js.1.tid, js.2.name)) = [] := by
      rw [← this]
      simp only [List.filterMap_eq_nil_iff]
      intro j _
      split <;> simp
    simpa using h2
  | some kv =>
    rw [hf] at hr
    simp only [Option.toList] at hr
    obtain ⟨t, n⟩ := kv
    simp only
    congr 1
    funext sub
    rw [handleSub782_eq, getCalls_eq hr]
    simp [List.map_map, Function.comp_def]

/-- **C16-782.** If no two imported symbols share a name: one warning per call to ioctl. -/
theorem cwe782_spec_partial (p : Program) (h : ExternTidsDistinct p) (hu : UniqueSymbolNames p) :
    cwe782 p = spec782 p := by
  rw [cwe782_exact p h]
  simp only [exact782, spec782, callSites]
  have : ∀ sub, callSitesOfSub p (firstNamed p "ioctl") sub = callSitesOfSub p (fun s => s.name == "ioctl") sub := by
    intro sub
    apply callSitesOfSub_congr
    intro s hs
    simp only [firstNamed, beq_dec]
    exact decide_eq_decide.mpr (findSymbol_unique p hu "ioctl" s hs)
  simp only [this]

/-! ### CWE426 -/

/-- **C16-426 (all programs).** A function is reported iff it calls the symbol `find_symbol`
returns for "system" and a symbol `find_symbol` returns for one of the configured names; one
warning per such function, in key order. -/
theorem cwe426_exact (p : Program) (h : ExternTidsDistinct p) (cfg : List String) :
    cwe426 p cfg = exact426 p cfg := by
  have hsys := represents_single p h "system"
  have hpriv := represents_privilege p h cfg
  simp only [cwe426, exact426]
  have hfilter : ∀ sub,
      (!(getCallsToSymbols sub (findSymbol p "system").toList).isEmpty &&
        !(getCallsToSymbols sub (privilegeSymbols p cfg)).isEmpty) =
      (subCalls p (firstNamed p "system") sub && subCalls p (fun s => cfg.any (firstNamed p · s)) sub) := by
    intro sub
    rw [getCalls_isEmpty hsys, getCalls_isEmpty hpriv]
    simp
  split
  next => simp only [hfilter]
  next hc =>
    -- one of the maps is empty: no function calls a symbol of it
    symm
    simp only [List.map_eq_nil_iff, List.filter_eq_nil_iff]
    intro sub _
    rw [← hfilter]
    simp only [Bool.and_eq_true, Bool.not_eq_true', not_and, Bool.not_eq_false] at hc ⊢
    have hnil : ∀ m : SymMap, m.isEmpty = true → (getCallsToSymbols sub m).isEmpty = true := by
      intro m hm
      have : m = [] := by simpa using hm
      subst this
      simp only [getCallsToSymbols, SymMap.get, List.reverse_nil, List.find?_nil, Option.map_none]
      simp only [List.isEmpty_iff, List.filterMap_eq_nil_iff]
      intro j _
      split <;> simp
    by_cases h1 : ((findSymbol p "system").toList : SymMap).isEmpty = true
    · simp [hnil _ h1]
    · have h2 := hc (by simpa using h1)
      simp [hnil _ h2]

/-- **C16-426.** If no two imported symbols share a name: the reported functions are exactly those
that call both system and an imported symbol whose name is on the configured list. -/
theorem cwe426_spec_partial (p : Program) (h : ExternTidsDistinct p) (hu : UniqueSymbolNames p)
    (cfg : List String) : cwe426 p cfg = spec426 p cfg := by
  rw [cwe426_exact p h]
  simp only [exact426, spec426]
  have h1 : ∀ sub, subCalls p (firstNamed p "system") sub = subCalls p (fun s => s.name == "system") sub := by
    intro sub
    apply subCalls_congr
    intro s hs
    simp only [firstNamed, beq_dec]
    exact decide_eq_decide.mpr (findSymbol_unique p hu "system" s hs)
  have h2 : ∀ sub, subCalls p (fun s => cfg.any (firstNamed p · s)) sub
      = subCalls p (fun s => decide (s.name ∈ cfg)) sub := by
    intro sub
    apply subCalls_congr
    intro s hs
    rw [Bool.eq_iff_iff]
    simp only [List.any_eq_true, firstNamed, decide_eq_true_eq]
    constructor
    · rintro ⟨c, hc, hf⟩
      rw [(findSymbol_unique p hu c s hs).mp hf]; exact hc
    · intro hc
      exact ⟨s.name, hc, (findSymbol_unique p hu s.name s hs).mpr rfl⟩
  simp only [h1, h2]

/-! ### CWE332 -/

theorem findSymbol_isSome (p : Program) (name : String) : (findSymbol p name).isSome = imported p name := by
  rw [Bool.eq_iff_iff]
  simp [findSymbol, imported]

/-- **C16-332.** For every program and every configured list of (initializer, generator) pairs: one
warning per pair, in configuration order, whose generator is imported while the initializer is not. -/
theorem cwe332_spec (p : Program) (cfg : List (String × String)) : cwe332 p cfg = spec332 p cfg := by
  simp only [cwe332, spec332]
  congr 1
  apply List.filter_congr
  intro pr _
  rw [findSymbol_isSome, ← findSymbol_isSome p pr.1]
  cases findSymbol p pr.1 <;> simp

/-! ### the specification, spelled out -/

/-- what a call site is: a `Jmp::Call` in some block of the function whose target is the Tid of an
imported symbol satisfying `P` -/
theorem mem_callSites_iff (p : Program) (h : ExternTidsDistinct p) (P : ExternSymbol → Bool)
    (sub : Term Sub) (j : Term Jmp) (s : ExternSymbol) :
    (sub, j, s) ∈ callSites p P ↔
      sub ∈ p.subs ∧ (∃ blk ∈ sub.term.blocks, j ∈ blk.term.jmps) ∧
      (∃ ret, j.term = .Call s.tid ret) ∧ s ∈ p.externSymbols ∧ P s = true := by
  simp only [callSites, callSitesOfSub, Sub.jmps, List.mem_flatMap, List.mem_map, List.mem_filterMap,
    Prod.mk.injEq]
  constructor
  · rintro ⟨sub', hsub, ⟨j', s'⟩, ⟨j'', ⟨blk, hb, hj⟩, hm⟩, rfl, rfl, rfl⟩
    cases hc : calledSymbol p j'' with
    | none => rw [hc] at hm; simp at hm
    | some s'' =>
      rw [hc] at hm
      by_cases hP : P s'' = true
      · simp only [hP, if_true, Option.some.injEq, Prod.mk.injEq] at hm
        obtain ⟨rfl, rfl⟩ := hm
        simp only [calledSymbol] at hc
        split at hc
        next dst ret heq =>
          obtain ⟨hs, ht⟩ := (find?_tid p h dst _).mp hc
          exact ⟨hsub, ⟨blk, hb, hj⟩, ⟨ret, by rw [heq, ht]⟩, hs, hP⟩
        next => cases hc
      · simp [hP] at hm
  · rintro ⟨hsub, ⟨blk, hb, hj⟩, ⟨ret, heq⟩, hs, hP⟩
    refine ⟨sub, hsub, (j, s), ⟨j, ⟨blk, hb, hj⟩, ?_⟩, rfl, rfl, rfl⟩
    have : calledSymbol p j = some s := by
      simp only [calledSymbol, heq]
      exact (find?_tid p h s.tid s).mpr ⟨hs, rfl⟩
    simp [this, hP]

/-- a function calls a `P`-symbol iff it has such a call site -/
theorem subCalls_iff (p : Program) (h : ExternTidsDistinct p) (P : ExternSymbol → Bool) (sub : Term Sub)
    (hsub : sub ∈ p.subs) :
    subCalls p P sub = true ↔ ∃ j s, (sub, j, s) ∈ callSites p P := by
  have he := callSitesOfSub_isEmpty p P sub
  constructor
  · intro hc
    rw [hc] at he
    cases hl : callSitesOfSub p P sub with
    | nil => rw [hl] at he; simp at he
    | cons js rest =>
      refine ⟨js.1, js.2, ?_⟩
      simp only [callSites, List.mem_flatMap, List.mem_map]
      exact ⟨sub, hsub, js, by rw [hl]; simp, rfl⟩
  · rintro ⟨j, s, hm⟩
    obtain ⟨_, hb, hcall, hs, hP⟩ := (mem_callSites_iff p h P sub j s).mp hm
    have : (j, s) ∈ callSitesOfSub p P sub := by
      obtain ⟨blk, hblk, hj⟩ := hb
      obtain ⟨ret, heq⟩ := hcall
      simp only [callSitesOfSub, Sub.jmps, List.mem_filterMap, List.mem_flatMap]
      refine ⟨j, ⟨blk, hblk, hj⟩, ?_⟩
      have : calledSymbol p j = some s := by
        simp only [calledSymbol, heq]
        exact (find?_tid p h s.tid s).mpr ⟨hs, rfl⟩
      simp [this, hP]
    cases hl : callSitesOfSub p P sub with
    | nil => rw [hl] at this; simp at this
    | cons a as => rw [hl] at he; simpa using he.symm

/-- **C16-426, as an iff.** Under unique names: `w` is reported iff it is the warning of a function
of the program that has a call site calling system and a call site calling an imported symbol
with a configured name. -/
theorem cwe426_mem_iff_partial (p : Program) (h : ExternTidsDistinct p) (hu : UniqueSymbolNames p)
    (cfg : List String) (w : CweWarning) :
    w ∈ cwe426 p cfg ↔ ∃ sub ∈ p.subs, w = warn426 sub ∧
      (∃ j s, (sub, j, s) ∈ callSites p (fun s => s.name == "system")) ∧
      (∃ j s, (sub, j, s) ∈ callSites p (fun s => decide (s.name ∈ cfg))) := by
  rw [cwe426_spec_partial p h hu]
  simp only [spec426, List.mem_map, List.mem_filter, Bool.and_eq_true]
  constructor
  · rintro ⟨sub, ⟨hsub, h1, h2⟩, rfl⟩
    exact ⟨sub, hsub, rfl, (subCalls_iff p h _ sub hsub).mp h1, (subCalls_iff p h _ sub hsub).mp h2⟩
  · rintro ⟨sub, hsub, rfl, h1, h2⟩
    exact ⟨sub, ⟨hsub, (subCalls_iff p h _ sub hsub).mpr h1, (subCalls_iff p h _ sub hsub).mpr h2⟩, rfl⟩

/-- **C16-332, as an iff.** -/
theorem cwe332_mem_iff (p : Program) (cfg : List (String × String)) (w : CweWarning) :
    w ∈ cwe332 p cfg ↔ ∃ pr ∈ cfg, w = warn332 pr.1 pr.2 ∧
      (∃ s ∈ p.externSymbols, s.name = pr.2) ∧ ¬ ∃ s ∈ p.externSymbols, s.name = pr.1 := by
  rw [cwe332_spec]
  simp only [spec332, imported, List.mem_map, List.mem_filter, Bool.and_eq_true, List.any_eq_true,
    Bool.not_eq_true', beq_iff_eq]
  constructor
  · rintro ⟨pr, ⟨hpr, ⟨s, hs, h1⟩, h2⟩, rfl⟩
    refine ⟨pr, hpr, rfl, ⟨s, hs, h1.symm⟩, ?_⟩
    rintro ⟨s', hs', h3⟩
    have : (p.externSymbols.any fun s => pr.1 == s.name) = true :=
      List.any_eq_true.mpr ⟨s', hs', by simp [h3]⟩
    rw [h2] at this; cases this
  · rintro ⟨pr, hpr, rfl, ⟨s, hs, h1⟩, h2⟩
    refine ⟨pr, ⟨hpr, ⟨s, hs, h1.symm⟩, ?_⟩, rfl⟩
    cases ha : p.externSymbols.any fun s => pr.1 == s.name with
    | false => rfl
    | true =>
      obtain ⟨s', hs', h3⟩ := List.any_eq_true.mp ha
      exact absurd ⟨s', hs', by simpa using Eq.symm (by simpa using h3)⟩ h2

/-! ### non-vacuity: a concrete program

imports: system, setuid, ioctl, rand, strcpy. `f0` calls system, setuid and strcpy twice (two calls
in one block); `f1` calls system and ioctl; the function *named* "system" only calls `f0`. -/

private def tid' (s : String) (a : String := "UNKNOWN") : Tid := ⟨s, a⟩
private def ext' (t name : String) : ExternSymbol :=
  { tid := tid' t, addresses := [], name := name, callingConvention := none, parameters := [],
    returnValues := [], noReturn := false, hasVarArgs := false }
private def call' (t a tgt : String) : Term Jmp := ⟨tid' t a, .Call (tid' tgt) none⟩
private def sub' (t name : String) (blocks : List (List (Term Jmp))) : Term Sub :=
  ⟨tid' t "1000", { name := name, blocks := blocks.map fun js => ⟨tid' (t ++ "_b"), { defs := [], jmps := js }⟩ }⟩

def exProgram : Program :=
  { externSymbols := [ext' "e1" "system", ext' "e2" "setuid", ext' "e3" "ioctl", ext' "e4" "rand", ext' "e5" "strcpy"]
    subs := [sub' "s0" "f0" [[call' "j1" "10" "e1"], [call' "j2" "20" "e2"], [call' "j3" "30" "e5", call' "j4" "31" "e5"]],
             sub' "s1" "f1" [[call' "j5" "40" "e1", call' "j6" "41" "e3"]],
             sub' "s2" "system" [[call' "j7" "50" "s0"]]]
    entryPoints := [] }

theorem exProgram_tids : ExternTidsDistinct exProgram := by unfold ExternTidsDistinct; decide
theorem exProgram_names : UniqueSymbolNames exProgram := by unfold UniqueSymbolNames; decide
example : (cwe676 exProgram ["strcpy", "gets", "system"]).map (·.tids) = [["j1"], ["j3"], ["j4"], ["j5"]] := by decide
example : (cwe782 exProgram).map (fun w => (w.symbols, w.addresses)) = [(["f1"], ["41"])] := by decide
example : (cwe426 exProgram ["setgid", "setuid"]).map (·.symbols) = [["f0"]] := by decide
example : (cwe426 exProgram ["setgid"]).map (·.symbols) = [] := by decide
example : (cwe332 exProgram [("srand", "rand"), ("rand", "system"), ("srand", "random")]).length = 1 := by decide
/-- the theorems apply to the example: the three strcpy/system call sites are `callSites` -/
example : (callSites exProgram (fun s => decide (s.name ∈ ["strcpy"]))).length = 2 := by
  rw [← cwe676_count exProgram exProgram_tids]; decide

end CweModel.C16
