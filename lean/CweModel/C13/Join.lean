/-
C13 — "PI-lite", layer 5: the JOIN and the extern-CALL transfer of the pointer inference.

Mirrors, function by function,
* `abstract_domain/mod.rs`: the default `AbstractDomain::merge_with` (`if self != other { *self = self.merge(other) }`),
* `abstract_domain/domain_map.rs`: `MergeTopStrategy::merge_map_with` through the default `merge_map` (the register map
  of `State` is a `DomainMap<Variable, Data, MergeTopStrategy>`),
* `analysis/pointer_inference/object/mod.rs`: `AbstractObject::merge` (`is_unique &&`, `pointer_targets` ∪,
  `memory.merge` = `MemRegion::merge` = `mergeRegions` of `Base/MemRegion.lean`, whose value merge is `DData.merge`
  with the WIDENING interval merge `C03.signedMergeAndWiden`; the `self == other` short-cut yields the same fields),
* `analysis/pointer_inference/object_list/mod.rs`: `AbstractObjectList::merge`, `assume_arbitrary_writes_to_object`,
  `get_referenced_ids_overapproximation`,
* `analysis/pointer_inference/state/mod.rs`: `<State as AbstractDomain>::merge`, `clear_non_callee_saved_register`,
  `clear_stack_parameter`; `state/id_manipulation.rs`: `add_recursively_referenced_ids_to_id_set`,
* `analysis/pointer_inference/context/mod.rs`: `adjust_stack_register_on_return_from_call` (x86: the return address is
  popped), `handle_generic_extern_call`; `context/trait_impls.rs`: `update_call_stub` for a call to an extern symbol that
  is neither `sscanf`, nor an allocation symbol, nor one of the stubbed library functions.
-/
import CweModel.C13.Stack

namespace CweModel.C13
open CweModel CweModel.IR CweModel.Itv CweModel.MemRegion

/-! ## `State::merge` -/

/-- the default `AbstractDomain::merge_with` of `Data` (result value) -/
def DData.mergeWith (a b : DData) : DData := if a = b then a else a.merge b

/-- `BTreeMap::get` on the register list -/
def regLookup (m : List (Variable × DData)) (v : Variable) : Option DData :=
  (m.find? (fun p => p.1 = v)).map (·.2)

/-- the `retain` loop of `MergeTopStrategy::merge_map_with`: the entries of the left map, merged with the right
value or with `Top`, dropped if the result is `Top` -/
def mergeRegsKept (l r : List (Variable × DData)) : List (Variable × DData) :=
  l.filterMap fun p =>
    let v' := match regLookup r p.1 with
      | some vo => p.2.mergeWith vo
      | none => p.2.mergeWith (DData.newTop p.2.size)
    if v'.isTop then none else some (p.1, v')

/-- the second loop: keys of the right map that are not (any more) in the map -/
def mergeRegsAdded (kept r : List (Variable × DData)) : List (Variable × DData) :=
  r.filterMap fun p =>
    if (regLookup kept p.1).isSome then none
    else
      let m := (DData.newTop p.2.size).mergeWith p.2
      if m.isTop then none else some (p.1, m)

/-- `MergeTopStrategy::merge_map` -/
def mergeRegs (l r : List (Variable × DData)) : List (Variable × DData) :=
  mergeRegsKept l r ++ mergeRegsAdded (mergeRegsKept l r) r

/-- `<AbstractObject as AbstractDomain>::merge` -/
def Obj.merge (a b : Obj) : Obj :=
  { unique := a.unique && b.unique, targets := unionIds a.targets b.targets, mem := mergeRegions a.mem b.mem }

/-- `BTreeMap::insert` of a new key on the object list in key order -/
def insertObj (id : Nat) (o : Obj) : Objs → Objs
  | [] => [(id, o)]
  | (k, v) :: rest => if id < k then (id, o) :: (k, v) :: rest else (k, v) :: insertObj id o rest

/-- `<AbstractObjectList as AbstractDomain>::merge` -/
def objsMerge (a b : Objs) : Objs :=
  b.foldl (fun m p =>
    match objGet m p.1 with
    | some o => objSet m p.1 (o.merge p.2)
    | none => insertObj p.1 p.2 m) a

/-- `<State as AbstractDomain>::merge`; `none` = `assert_eq!(self.stack_id, other.stack_id)` fails -/
def MSt.merge (a b : MSt) : Option MSt :=
  if a.stackId = b.stackId then
    some { st := { regs := mergeRegs a.st.regs b.st.regs, globals := a.st.globals, gid := a.st.gid }
           stackId := a.stackId
           objs := objsMerge a.objs b.objs }
  else none

/-! ## `update_call_stub` for a generic extern symbol -/

/-- `clear_non_callee_saved_register` -/
def clearNonCalleeSaved (t : St) (calleeSaved : List Variable) : St :=
  { t with regs := calleeSaved.filterMap fun v =>
      let d := t.getReg v
      if d.isTop then none else some (v, d) }

/-- `adjust_stack_register_on_return_from_call` on x86 (`new` gets the stack pointer of `before` plus its size) -/
def adjustStackRegister (before new : St) (sp : Variable) : St :=
  new.setReg sp ((before.getReg sp).binOp .IntAdd (DData.ofBv (Bv.ofBytes sp.size sp.size)))

/-- `clear_stack_parameter`: `Top` is written to the stack parameters of the symbol; `none` = panic -/
def clearStackParameter (s : MSt) : List Arg → Option MSt
  | [] => some s
  | .Register _ _ :: rest => clearStackParameter s rest
  | .Stack address size _ :: rest =>
    match s.writeToAddress address (DData.newTop size) with
    | some s' => clearStackParameter s' rest
    | none => none

/-- `get_referenced_ids_overapproximation` of the object list -/
def targetsOf (objs : Objs) (id : Nat) : List Nat :=
  match objGet objs id with
  | some o => o.targets
  | none => []

/-- one round of `add_recursively_referenced_ids_to_id_set` -/
def closeStep (objs : Objs) (ids : List Nat) : List Nat :=
  ids.foldl (fun acc i => unionIds acc (targetsOf objs i)) ids

/-- `add_recursively_referenced_ids_to_id_set`: the closure of `ids` under `pointer_targets` (every round that finds
something new expands at least one more object) -/
def closeIds (objs : Objs) (ids : List Nat) : List Nat :=
  (List.range (objs.length + 1)).foldl (fun acc _ => closeStep objs acc) ids

/-- identifiers a parameter value may reference -/
def argIds (s : MSt) : Arg → List Nat
  | .Register e _ => (s.st.eval e).rel.map (·.1)
  | .Stack address size _ =>
    match s.loadValue address size with
    | some (some d) => d.rel.map (·.1)
    | _ => []

/-- the identifiers `handle_generic_extern_call` considers reachable by the callee (before the closure) -/
def possibleReferencedIds (s : MSt) (cc : CallingConvention) (ext : ExternSymbol) : List Nat :=
  if ext.parameters.isEmpty && ext.returnValues.isEmpty then
    let a := cc.integerParameterRegister.foldl (fun acc r => unionIds acc ((s.st.getReg r).rel.map (·.1))) []
    cc.floatParameterRegister.foldl (fun acc e => unionIds acc ((s.st.eval e).rel.map (·.1))) a
  else
    ext.parameters.foldl (fun acc p => unionIds acc (argIds s p)) []

/-- `assume_arbitrary_writes_to_object(id, all)` for every identifier of `ids` -/
def assumeWritesWith (all : List Nat) (objs : Objs) (ids : List Nat) : Objs :=
  ids.foldl (fun m id =>
    match objGet m id with
    | some o => objSet m id (o.assumeArbitraryWrites all)
    | none => m) objs

/-- the loop of `handle_generic_extern_call` over the set of possibly referenced identifiers -/
def assumeWrites (objs : Objs) (ids : List Nat) : Objs := assumeWritesWith ids objs ids

/-- `update_call_stub` (x86, generic extern symbol): clear the registers that are not callee-saved, pop the return
address, clear stack parameters, assume arbitrary writes to every object reachable from the parameters.
`none` = panic (see `Stack.lean`). -/
def updateCallStub (s : MSt) (sp : Variable) (cc : CallingConvention) (ext : ExternSymbol) : Option MSt :=
  let t := adjustStackRegister s.st (clearNonCalleeSaved s.st cc.calleeSavedRegister) sp
  match clearStackParameter { s with st := t } ext.parameters with
  | none => none
  | some s1 =>
    let ids := closeIds s.objs (possibleReferencedIds s cc ext)
    some { s1 with objs := assumeWrites s1.objs ids }

/-! ### the fragment of the call theorem (decidable) -/

/-- the symbol has no stack parameters (x86-64 register calling conventions) -/
def noStackArgs (ext : ExternSymbol) : Bool :=
  ext.parameters.all fun a => match a with | .Register _ _ => true | .Stack _ _ _ => false

/-- the stack object is marked by the call (reachable from a parameter) -/
def stackMarked (s : MSt) (cc : CallingConvention) (ext : ExternSymbol) : Bool :=
  (closeIds s.objs (possibleReferencedIds s cc ext)).contains s.stackId

end CweModel.C13
