/-
C13 — "PI-lite", layer 2: the register part of `pointer_inference::State`
(`analysis/pointer_inference/state/mod.rs`, `state/access_handling.rs`).

Modelled: the register map `register: DomainMap<Variable, Data, MergeTopStrategy>` (a variable that is
not in the map has the value `Top`), `known_global_addresses`, `get_global_mem_id`, and
`get_register`, `set_register`, `handle_register_assign`, `eval`, `eval_recursive`,
`replace_if_global_pointer`.

NOT modelled (and therefore not part of `St`): `memory: AbstractObjectList` and everything that reads or
writes it (`load_value`, `store_value`, `handle_load`, `handle_store`, `eval_parameter_arg` for stack
arguments, `eval_abstract_location`); `State::eval` never touches `memory`, so nothing of `eval` is
excluded.
-/
import CweModel.Base.IRSem
import CweModel.C13.Data

namespace CweModel.C13
open CweModel CweModel.IR CweModel.Itv

/-- register part of `State` -/
structure St where
  /-- `register`, in key order of the `BTreeMap`; absent = `Top` -/
  regs : List (Variable × DData)
  /-- `known_global_addresses` -/
  globals : List Nat
  /-- number of the identifier `get_global_mem_id()` -/
  gid : Nat
deriving Repr, DecidableEq

namespace St

/-- `get_register` -/
def getReg (s : St) (v : Variable) : DData :=
  match s.regs.find? (fun p => p.1 = v) with
  | some p => p.2
  | none => DData.newTop v.size

/-- `set_register` (the position in the list is irrelevant for `getReg`; the new binding goes first) -/
def setReg (s : St) (v : Variable) (d : DData) : St :=
  if d.isTop then { s with regs := s.regs.filter (fun p => p.1 ≠ v) }
  else { s with regs := (v, d) :: s.regs.filter (fun p => p.1 ≠ v) }

/-- `TryToBitvec::try_to_offset` of `Data`: the single absolute value as an `i64` -/
def tryToOffset (d : DData) : Option Int :=
  if !d.rel.isEmpty || d.top then none
  else match d.abs with
    | some a =>
      match a.tryToBitvec with
      | some x => tryToI64 a.interval.w x
      | none => none
    | none => none

/-- `replace_if_global_pointer`: a constant that is a known global address becomes a pointer relative
to the global memory identifier (offset: the interval of the value, widening hints dropped by
`try_to_interval().unwrap().into()`) -/
def replaceIfGlobalPointer (s : St) (d : DData) : DData :=
  match tryToOffset d with
  | some c =>
    if s.globals.contains (toU 64 c) then
      match d.abs with
      | some a => DData.fromTarget s.gid (IntervalDomain.ofInterval a.interval)
      | none => d
    else d
  | none => d

/-- `eval_recursive` -/
def evalRec (s : St) : Expression → DData
  | .Var v => s.getReg v
  | .Const b x => DData.ofBv (Bv.ofBytes b x)
  | .BinOp op l r =>
    if op = .IntXOr ∧ l = r then DData.ofBv (Bv.ofBytes l.bytesize 0)
    else (evalRec s l).binOp op (evalRec s r)
  | .UnOp op a => (evalRec s a).unOp op
  | .Cast op size a => (evalRec s a).cast op size
  | .Unknown _ size => DData.newTop size
  | .Subpiece lb size a => (evalRec s a).subpiece lb size

/-- `State::eval` -/
def eval (s : St) (e : Expression) : DData := s.replaceIfGlobalPointer (s.evalRec e)

/-- `handle_register_assign` -/
def handleRegisterAssign (s : St) (v : Variable) (e : Expression) : St := s.setReg v (s.eval e)

end St

end CweModel.C13
