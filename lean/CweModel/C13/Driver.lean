/- C13 driver: runs the block-by-block reference interpreter from several initial states on the
program of each case and checks the executable γ-membership of every register against the states the
real pointer inference reported; checks the model of the NULL-window decision against
`State::check_def_for_null_dereferences`. -/
import CweModel.Base.Proto
import CweModel.C13.Model
open Lean CweModel.Proto CweModel.IR CweModel.Itv

namespace CweModel.C13

def parseItv (j : Json) : Except String Interval := do
  return { w := ← natF j "w", start := ← intF j "s", stop := ← intF j "e", stride := ← natF j "st" }

partial def parseMemLoc (j : Json) : Except String MemLoc := do
  if let .ok l := j.getObjVal? "Location" then
    return .location (← intF l "offset") (← natF l "size")
  if let .ok p := j.getObjVal? "Pointer" then
    return .pointer (← intF p "offset") (← parseMemLoc (← field p "target"))
  throw "memory location"

def parseLoc (j : Json) : Except String Loc := do
  if let .ok v := j.getObjVal? "Register" then return .register (← parseVariable v)
  if let .ok p := j.getObjVal? "Pointer" then
    let a ← p.getArr?
    return .pointer (← parseVariable a[0]!) (← parseMemLoc a[1]!)
  if let .ok g := j.getObjVal? "GlobalAddress" then return .globalAddress (← natF g "address") (← natF g "size")
  if let .ok p := j.getObjVal? "GlobalPointer" then
    let a ← p.getArr?
    return .globalPointer (← a[0]!.getNat?) (← parseMemLoc a[1]!)
  throw "location"

def parseId (j : Json) : Except String AbsId := do
  return { tid := ← strF j "tid", loc := ← parseLoc (← field j "loc"), hints := ← natF j "hints" }

def parseData (j : Json) : Except String AData := do
  let rel ← mapM' (fun p => do
    let a ← p.getArr?
    return ((← a[0]!.getNat?), (← parseItv a[1]!))) (← arrF j "rel")
  let abs ← match j.getObjVal? "abs" with
    | .ok .null => pure none
    | .ok a => (some <$> parseItv a)
    | .error _ => pure none
  return { rel := rel, abs := abs, top := ← boolF j "top" }

def parseRegs (j : Json) : Except String (Option (List (String × AData))) := do
  match j with
  | .null => return none
  | .obj kvs =>
    let l ← mapM' (fun (kv : String × Json) => do return (kv.1, ← parseData kv.2)) kvs.toList
    return some l
  | _ => throw "register map"

def parseBlockInfo (kv : String × Json) : Except String BlockInfo := do
  return { tid := kv.1, atStart := ← parseRegs (← field kv.2 "S"), atEnd := ← parseRegs (← field kv.2 "E") }

def showData (d : AData) : String :=
  let itv (I : Interval) := s!"[{I.start},{I.stop}]s{I.stride}"
  let r := d.rel.map fun (i, I) => s!"id{i}+{itv I}"
  let a := match d.abs with | some I => [itv I] | none => []
  "{" ++ ",".intercalate (r ++ a ++ (if d.top then ["T"] else [])) ++ "}"

/-- initial state of a run: register defaults from the seed, a plausible stack pointer -/
def initState (seed : Nat) (sp : Variable) (regs : List Variable) : Sem.State :=
  let σ0 : Sem.State := { seed := seed }
  -- 1-byte registers are flags: P-Code booleans are 0 or 1
  let σ := regs.foldl (fun s v =>
    if v.size == 1 then s.setReg v (Bv.ofBytes 1 ((Sem.mix seed (Sem.strHash v.name)) % 2)) else s) σ0
  let h := Sem.mix seed 0x5157
  let spv : Nat := match h % 8 with
    | 0 => 0x10000 + 8 * ((h / 8) % 64)             -- low, but far from the NULL window
    | 1 => 0x300                                    -- inside the NULL window: every stack access aborts
    | 2 => 2 ^ 64 - 0x1000 - 8 * ((h / 8) % 64)     -- close to the top of the address space
    | 3 => 0x7ffd00001238 + ((h / 8) % 8)           -- unaligned
    | _ => 0x7ffd00000000 + 16 * ((h / 8) % 4096)
  σ.setReg sp (Bv.ofBytes sp.size spv)

def exprKind : Expression → String
  | .Var _ => "Var" | .Const _ _ => "Const" | .BinOp op _ _ => op.name | .UnOp op _ => op.name
  | .Cast op _ _ => op.name | .Unknown _ _ => "Unknown" | .Subpiece _ _ _ => "Subpiece"

/-- kind of the last def of the block that assigns register `r` -/
def lastDefKind (b : Term Blk) (r : String) : String :=
  match b.term.defs.reverse.find? (fun d => match d.term with
      | .Assign v _ => v.name == r | .Load v _ => v.name == r | .Store _ _ => false) with
  | some d => (match d.term with
      | .Assign _ e => "assign-" ++ exprKind e
      | .Load _ _ => "load"
      | .Store _ _ => "store")
  | none => "unassigned"

def handlePi (j : Json) : Except String String := do
  let p ← parseProject (← field j "project")
  let fnTid ← strF j "fn"
  let implJ ← field j "impl"
  if let .ok s := implJ.getStr? then
    return s!"spec class=impl-{(s.splitOn ":").headD "panic"} expected=analysis-result impl={s.take 100}"
  let some sub := p.program.subs.find? (·.tid.id == fnTid) | throw "function not found"
  let ids ← mapM' parseId (← arrF implJ "ids")
  let stab ← boolF implJ "stab"
  let blocksJ ← field implJ "blocks"
  let infos ← match blocksJ with
    | .obj kvs => mapM' parseBlockInfo kvs.toList
    | _ => throw "blocks"
  let seeds ← mapM' (fun s => s.getNat?) (← arrF j "seeds")
  let regs := p.registerSet
  let sp := p.stackPointerRegister
  let some b0 := sub.term.blocks.head? | throw "no blocks"
  if !stab then return "ok not-stabilised"
  let mut reached := 0
  let mut completed := 0
  let mut aborted := 0
  let mut unknownIds := false
  for seed in seeds do
    let σ0 := initState seed sp regs
    let ν : Nat → Option Nat := fun i => (ids[i]?).bind (valuate σ0 fnTid)
    let vs := runVisits sub.term.blocks 40 b0.tid .entry σ0
    reached := reached + vs.length
    completed := completed + (vs.filter (·.stop.isSome)).length
    aborted := aborted + (vs.filter (·.aborted.isSome)).length
    match checkRun ν regs infos vs with
    | none => pure ()
    | some (.unreachableReached b via) =>
      return s!"spec class=unreachable-block-reached:{via.name} expected=state-at:{b} impl=none seed={seed}"
    | some (.certainNullCompleted b) =>
      return s!"spec class=certain-null-completed expected=state-at-end-of:{b} impl=none seed={seed}"
    | some (.excluded b atEnd via r c) =>
      let blk := (sub.term.blocks.find? (·.tid.id == b))
      let where_ := if atEnd then "blkend:" ++ (blk.map (lastDefKind · r)).getD "?" else "blkstart:" ++ via.name
      let d := ((infos.find? (·.tid == b)).bind fun bi => (if atEnd then bi.atEnd else bi.atStart).bind fun l => (l.find? (·.1 == r)).map (·.2))
      let w := ((regs.find? (·.name == r)).map (·.size * 8)).getD 64
      return s!"spec class=excluded-at-{where_} expected={r}={toSigned w c}@{b} impl={(d.map showData).getD "?"} seed={seed}"
  unknownIds := ids.any fun id => id.tid != fnTid || id.hints != 0 || (match id.loc with | .register _ | .pointer _ _ => false | _ => true)
  let nblk := sub.term.blocks.length
  let nstate := (infos.filter (·.atStart.isSome)).length
  return "ok pi" ++ (if reached > seeds.length then " multi-block-runs" else "") ++ (if aborted > 0 then " null-aborts" else "")
    ++ (if nstate < nblk then " has-unreachable" else "") ++ (if unknownIds then " unknown-ids" else "")
    ++ (if (infos.any fun bi => bi.atStart.isSome && bi.atEnd.isNone) then " certain-null-cut" else "")

def mkDom (w : Nat) (s e : Int) (st : Nat) : IntervalDomain :=
  { interval := { w := w, start := s, stop := e, stride := st }, upper := none, lower := none, delay := 0 }

def handleNull (j : Json) : Except String String := do
  let s ← intF j "s"
  let e ← intF j "e"
  let st ← natF j "st"
  let hasAbs ← boolF j "abs"
  let rel := (intF j "rel").toOption
  let top ← boolF j "top"
  let implJ ← field j "impl"
  if let .ok m := implJ.getStr? then
    return s!"spec class=null-impl-{(m.splitOn ":").headD "panic"} expected=decision impl={m.take 100}"
  let res ← strF implJ "res"
  let abs := if hasAbs then some (mkDom 64 s e st) else none
  let rest := rel.isSome || top
  let model := nullCheck abs rest
  let tag := match model with | .noDetect => "false" | .possible _ => "true" | .certain => "err"
  -- specification on the implementation output: values outside the window that were represented
  -- before are still represented afterwards (the register is only narrowed by the window)
  let after ← parseData (← field implJ "after")
  let afterTop ← boolF implJ "after_top"
  let samples : List Int := [s, e, s + st, e - st, 1024, -1024, 1025, -1025, 1023, -1023, 1024 + st, 0, s + 2 * st]
  let lost := samples.filter fun x =>
    hasAbs && decide ((mkDom 64 s e st).Mem x) && !window x && res != "err" && !afterTop &&
      !(after.top || (match after.abs with | some I => decide (I.Mem x) | none => false))
  let certainWrong := res == "err" && (rest || (hasAbs && samples.any fun x => decide ((mkDom 64 s e st).Mem x) && !window x))
  let cls := (if window s then "start-in" else if window e then "end-in" else "outside") ++ (if rest then "-rest" else "")
  if certainWrong then
    return s!"spec class=null-certain-but-value-outside-window:{cls} expected=not-err impl={res}"
  if !lost.isEmpty then
    return s!"spec class=null-specialisation-lost-value:{cls} expected=contains:{lost.headD 0} impl={showData after}"
  if res != tag then
    return s!"diff class=null-decision:{cls} model={tag} impl={res}"
  -- the new absolute part of the model (when nothing else is merged in) is what the register holds
  match model, rel, top with
  | .possible (some r), none, false =>
    if after.abs.map (fun I => (I.start, I.stop, I.stride)) != some (r.interval.start, r.interval.stop, r.interval.stride) then
      return s!"diff class=null-new-interval:{cls} model=[{r.interval.start},{r.interval.stop}]s{r.interval.stride} impl={showData after}"
    else return s!"ok null-{tag} {cls} interval-compared"
  | _, _, _ => return s!"ok null-{tag} {cls}"

def handleE (line : String) : Except String String := do
  let j ← Json.parse line
  match (← strF j "q") with
  | "pi" => handlePi j
  | "null" => handleNull j
  | q => throw s!"unknown case kind {q}"

end CweModel.C13

def main : IO Unit := CweModel.Proto.runDriver (CweModel.Proto.guarded CweModel.C13.handleE)
