/- C13 driver: runs the block-by-block reference interpreter from several initial states on the
program of each case and checks the executable γ-membership of every register against the states the
real pointer inference reported; checks the model of the NULL-window decision against
`State::check_def_for_null_dereferences`; checks the PI-lite models (`C13/Data.lean`: `DataDomain`
arithmetic, `C13/Eval.lean`: `State::eval`) against the real functions — structurally, and the proved
soundness statement on the implementation output with sampled members and identifier valuations. -/
import CweModel.Base.Proto
import CweModel.C13.Model
import CweModel.C13.Eval
import CweModel.C13.Cond
import CweModel.C13.Join
import CweModel.C13.Edge
import CweModel.C12.Model
open Lean CweModel.Proto CweModel.IR CweModel.Itv CweModel.MemRegion

namespace CweModel.C13

def parseItv (j : Json) : Except String Interval := do
  return { w := ← natF j "w", start := ← intF j "s", stop := ← intF j "e", stride := ← natF j "st" }

partial def parseMemLoc (j : Json) : Except String MemLoc := do
  if let .ok l := j.getObjVal? "Location" then
    return .location (← intF l "offset") (← natF l "size")
  if let .ok p := j.getObjVal? "Pointer" then
    return .pointer (← intF p "offset") (← parseMemLoc (← field p "target"))
  throw "memory location"

def parseLoc (j : Json) : Except String Loc := do
  if let .ok v := j.getObjVal? "Register" then return .register (← parseVariable v)
  if let .ok p := j.getObjVal? "Pointer" then
    let a ← p.getArr?
    return .pointer (← parseVariable a[0]!) (← parseMemLoc a[1]!)
  if let .ok g := j.getObjVal? "GlobalAddress" then return .globalAddress (← natF g "address") (← natF g "size")
  if let .ok p := j.getObjVal? "GlobalPointer" then
    let a ← p.getArr?
    return .globalPointer (← a[0]!.getNat?) (← parseMemLoc a[1]!)
  throw "location"

def parseId (j : Json) : Except String AbsId := do
  return { tid := ← strF j "tid", loc := ← parseLoc (← field j "loc"), hints := ← natF j "hints" }

def parseData (j : Json) : Except String AData := do
  let rel ← mapM' (fun p => do
    let a ← p.getArr?
    return ((← a[0]!.getNat?), (← parseItv a[1]!))) (← arrF j "rel")
  let abs ← match j.getObjVal? "abs" with
    | .ok .null => pure none
    | .ok a => (some <$> parseItv a)
    | .error _ => pure none
  return { rel := rel, abs := abs, top := ← boolF j "top" }

def parseRegs (j : Json) : Except String (Option (List (String × AData))) := do
  match j with
  | .null => return none
  | .obj kvs =>
    let l ← mapM' (fun (kv : String × Json) => do return (kv.1, ← parseData kv.2)) kvs.toList
    return some l
  | _ => throw "register map"

def parseBlockInfo (kv : String × Json) : Except String BlockInfo := do
  return { tid := kv.1, atStart := ← parseRegs (← field kv.2 "S"), atEnd := ← parseRegs (← field kv.2 "E") }

def showData (d : AData) : String :=
  let itv (I : Interval) := s!"[{I.start},{I.stop}]s{I.stride}"
  let r := d.rel.map fun (i, I) => s!"id{i}+{itv I}"
  let a := match d.abs with | some I => [itv I] | none => []
  "{" ++ ",".intercalate (r ++ a ++ (if d.top then ["T"] else [])) ++ "}"

/-- initial state of a run: register defaults from the seed, a plausible stack pointer -/
def initState (seed : Nat) (sp : Variable) (regs : List Variable) : Sem.State :=
  let σ0 : Sem.State := { seed := seed }
  -- 1-byte registers are flags: P-Code booleans are 0 or 1
  let σ := regs.foldl (fun s v =>
    if v.size == 1 then s.setReg v (Bv.ofBytes 1 ((Sem.mix seed (Sem.strHash v.name)) % 2)) else s) σ0
  let h := Sem.mix seed 0x5157
  let spv : Nat := match h % 8 with
    | 0 => 0x10000 + 8 * ((h / 8) % 64)             -- low, but far from the NULL window
    | 1 => 0x300                                    -- inside the NULL window: every stack access aborts
    | 2 => 2 ^ 64 - 0x1000 - 8 * ((h / 8) % 64)     -- close to the top of the address space
    | 3 => 0x7ffd00001238 + ((h / 8) % 8)           -- unaligned
    | _ => 0x7ffd00000000 + 16 * ((h / 8) % 4096)
  σ.setReg sp (Bv.ofBytes sp.size spv)

def exprKind : Expression → String
  | .Var _ => "Var" | .Const _ _ => "Const" | .BinOp op _ _ => op.name | .UnOp op _ => op.name
  | .Cast op _ _ => op.name | .Unknown _ _ => "Unknown" | .Subpiece _ _ _ => "Subpiece"

/-- kind of a condition: the outermost operator and, for an operator applied to a compound operand, the
operator of that operand (`IntEqual(IntAnd)`) -/
def condKind : Expression → String
  | .BinOp op l r =>
    let inner := match l, r with
      | .BinOp o _ _, _ => s!"({o.name})"
      | _, .BinOp o _ _ => s!"({o.name})"
      | _, _ => ""
    op.name ++ inner
  | .UnOp op (.BinOp o (.BinOp i _ _) _) => s!"{op.name}({o.name}({i.name}))"
  | .UnOp op (.BinOp o _ (.BinOp i _ _)) => s!"{op.name}({o.name}({i.name}))"
  | e => exprKind e

/-- kind of the last def of the block that assigns register `r` -/
def lastDefKind (b : Term Blk) (r : String) : String :=
  match b.term.defs.reverse.find? (fun d => match d.term with
      | .Assign v _ => v.name == r | .Load v _ => v.name == r | .Store _ _ => false) with
  | some d => (match d.term with
      | .Assign _ e => "assign-" ++ exprKind e
      | .Load _ _ => "load"
      | .Store _ _ => "store")
  | none => "unassigned"

def exprRegs : Expression → List String
  | .Var v => [v.name]
  | .BinOp _ l r => exprRegs l ++ exprRegs r
  | .UnOp _ a => exprRegs a
  | .Cast _ _ a => exprRegs a
  | .Subpiece _ _ a => exprRegs a
  | _ => []

/-- KNOWN FINDING `unreachable-block-reached:aliased-relative-ids` (a violation of the property, reported under
its own class only when all three conditions hold; every other failure keeps its ordinary class): the first failing
visit is entered through a conditional jump whose condition mentions registers that the analysis holds relative to
two DIFFERENT identifiers, and in this run the two identifiers stand for (almost) the same concrete value.
`DataDomain::intersect` "assumes that two different relative values cannot intersect" (its documentation calls this
unsound: "… or if the relative values do in fact reference the same object despite having different identifiers");
`(R9 - RDX) == 0` with two parameter registers of equal entry value is specialised to the empty state. -/
def aliasedIdsAtCond (ν : Nat → Option Nat) (regs : List Variable) (infos : List BlockInfo) (vs : List Visit) : Bool :=
  match vs.zipIdx.find? fun (v, _) => (checkVisit ν regs infos v).isSome with
  | none => false
  | some (v, i) =>
    let startFailure := match checkVisit ν regs infos v with
      | some (.unreachableReached _ _) => true
      | some (.excluded _ atEnd _ _ _) => !atEnd
      | _ => false
    if i == 0 || !(v.via == .condTrue || v.via == .condFalse) || !startFailure then false
    else
      match vs[i - 1]? with
      | none => false
      | some pre =>
        let conds := pre.blk.term.jmps.filterMap fun j => match j.term with | .CBranch _ c => some c | _ => none
        let names := conds.flatMap exprRegs
        let endSt := ((infos.find? (·.tid == pre.blk.tid.id)).bind (·.atEnd)).getD []
        let ids := (names.flatMap fun n =>
          match endSt.find? (·.1 == n) with | some (_, d) => d.rel.map (·.1) | none => []).eraseDups
        ids.any fun a => ids.any fun b => a < b &&
          (match ν a, ν b with
           | some x, some y => let d := (x + 2 ^ 64 - y % 2 ^ 64) % 2 ^ 64; decide (d < 2 ^ 32) || decide (d > 2 ^ 64 - 2 ^ 32)
           | _, _ => false)

def handlePi (j : Json) : Except String String := do
  let p ← parseProject (← field j "project")
  let fnTid ← strF j "fn"
  let implJ ← field j "impl"
  if let .ok s := implJ.getStr? then
    return s!"spec class=impl-{(s.splitOn ":").headD "panic"} expected=analysis-result impl={s.take 100}"
  let some sub := p.program.subs.find? (·.tid.id == fnTid) | throw "function not found"
  let ids ← mapM' parseId (← arrF implJ "ids")
  let stab ← boolF implJ "stab"
  let blocksJ ← field implJ "blocks"
  let infos ← match blocksJ with
    | .obj kvs => mapM' parseBlockInfo kvs.toList
    | _ => throw "blocks"
  let seeds ← mapM' (fun s => s.getNat?) (← arrF j "seeds")
  -- explicit initial register values per run (optional): `[[name, size, value]…]`
  let inits : List (List (Variable × Nat)) ← match j.getObjVal? "inits" with
    | .ok (.arr runs) => mapM' (fun (r : Json) => do
        let l ← r.getArr?
        mapM' (fun (e : Json) => do
          let a ← e.getArr?
          let v : Variable := { name := ← a[0]!.getStr?, size := ← a[1]!.getNat? }
          return (v, ← a[2]!.getNat?)) l.toList) runs.toList
    | _ => pure []
  let regs := p.registerSet
  let sp := p.stackPointerRegister
  let some b0 := sub.term.blocks.head? | throw "no blocks"
  if !stab then return "ok not-stabilised"
  let mut reached := 0
  let mut completed := 0
  let mut aborted := 0
  let mut unknownIds := false
  -- KNOWN FINDING (reported with its own class after all runs, so that any other violation of the case is reported first)
  let mut aliased : Option String := none
  for (seed, run) in seeds.zipIdx do
    let σ0 := ((inits[run]?).getD []).foldl (fun s (v, x) => s.setReg v (Bv.ofBytes v.size x)) (initState seed sp regs)
    let ν : Nat → Option Nat := fun i => (ids[i]?).bind (valuate σ0 fnTid)
    let vs := runVisits sub.term.blocks 40 b0.tid .entry σ0
    reached := reached + vs.length
    completed := completed + (vs.filter (·.stop.isSome)).length
    aborted := aborted + (vs.filter (·.aborted.isSome)).length
    let skip := (checkRun ν regs infos vs).isSome && aliasedIdsAtCond ν regs infos vs
    if skip && aliased.isNone then
      let b := match checkRun ν regs infos vs with
        | some (.unreachableReached b _) => b | some (.excluded b _ _ _ _) => b | _ => "?"
      aliased := some s!"spec class=unreachable-block-reached:aliased-relative-ids expected=state-at:{b} impl=excluded seed={seed}"
    match (if skip then none else checkRun ν regs infos vs) with
    | none => pure ()
    | some (.unreachableReached b via) =>
      return s!"spec class=unreachable-block-reached:{via.name} expected=state-at:{b} impl=none seed={seed}"
    | some (.certainNullCompleted b) =>
      return s!"spec class=certain-null-completed expected=state-at-end-of:{b} impl=none seed={seed}"
    | some (.excluded b atEnd via r c) =>
      let blk := (sub.term.blocks.find? (·.tid.id == b))
      let where_ := if atEnd then "blkend:" ++ (blk.map (lastDefKind · r)).getD "?" else "blkstart:" ++ via.name
      let d := ((infos.find? (·.tid == b)).bind fun bi => (if atEnd then bi.atEnd else bi.atStart).bind fun l => (l.find? (·.1 == r)).map (·.2))
      let w := ((regs.find? (·.name == r)).map (·.size * 8)).getD 64
      return s!"spec class=excluded-at-{where_} expected={r}={toSigned w c}@{b} impl={(d.map showData).getD "?"} seed={seed}"
  if let some v := aliased then return v
  unknownIds := ids.any fun id => id.tid != fnTid || id.hints != 0 || (match id.loc with | .register _ | .pointer _ _ => false | _ => true)
  let nblk := sub.term.blocks.length
  let nstate := (infos.filter (·.atStart.isSome)).length
  return "ok pi" ++ (if reached > seeds.length then " multi-block-runs" else "") ++ (if aborted > 0 then " null-aborts" else "")
    ++ (if nstate < nblk then " has-unreachable" else "") ++ (if unknownIds then " unknown-ids" else "")
    ++ (if (infos.any fun bi => bi.atStart.isSome && bi.atEnd.isNone) then " certain-null-cut" else "")

def mkDom (w : Nat) (s e : Int) (st : Nat) : IntervalDomain :=
  { interval := { w := w, start := s, stop := e, stride := st }, upper := none, lower := none, delay := 0 }

def handleNull (j : Json) : Except String String := do
  let s ← intF j "s"
  let e ← intF j "e"
  let st ← natF j "st"
  let hasAbs ← boolF j "abs"
  let rel := (intF j "rel").toOption
  let top ← boolF j "top"
  let implJ ← field j "impl"
  if let .ok m := implJ.getStr? then
    return s!"spec class=null-impl-{(m.splitOn ":").headD "panic"} expected=decision impl={m.take 100}"
  let res ← strF implJ "res"
  let abs := if hasAbs then some (mkDom 64 s e st) else none
  let rest := rel.isSome || top
  let model := nullCheck abs rest
  let tag := match model with | .noDetect => "false" | .possible _ => "true" | .certain => "err"
  -- specification on the implementation output: values outside the window that were represented
  -- before are still represented afterwards (the register is only narrowed by the window)
  let after ← parseData (← field implJ "after")
  let afterTop ← boolF implJ "after_top"
  let samples : List Int := [s, e, s + st, e - st, 1024, -1024, 1025, -1025, 1023, -1023, 1024 + st, 0, s + 2 * st]
  let lost := samples.filter fun x =>
    hasAbs && decide ((mkDom 64 s e st).Mem x) && !window x && res != "err" && !afterTop &&
      !(after.top || (match after.abs with | some I => decide (I.Mem x) | none => false))
  let certainWrong := res == "err" && (rest || (hasAbs && samples.any fun x => decide ((mkDom 64 s e st).Mem x) && !window x))
  let cls := (if window s then "start-in" else if window e then "end-in" else "outside") ++ (if rest then "-rest" else "")
  if certainWrong then
    return s!"spec class=null-certain-but-value-outside-window:{cls} expected=not-err impl={res}"
  if !lost.isEmpty then
    return s!"spec class=null-specialisation-lost-value:{cls} expected=contains:{lost.headD 0} impl={showData after}"
  if res != tag then
    return s!"diff class=null-decision:{cls} model={tag} impl={res}"
  -- the new absolute part of the model (when nothing else is merged in) is what the register holds
  match model, rel, top with
  | .possible (some r), none, false =>
    if after.abs.map (fun I => (I.start, I.stop, I.stride)) != some (r.interval.start, r.interval.stop, r.interval.stride) then
      return s!"diff class=null-new-interval:{cls} model=[{r.interval.start},{r.interval.stop}]s{r.interval.stride} impl={showData after}"
    else return s!"ok null-{tag} {cls} interval-compared"
  | _, _, _ => return s!"ok null-{tag} {cls}"

/-! ## PI-lite streams -/

def intJ (j : Json) : Except String Int :=
  match j with
  | .str s => match s.toInt? with
    | some v => pure v
    | none => throw s!"bad integer {s}"
  | _ => j.getInt?

def optIntJ (j : Json) (k : String) : Except String (Option Int) :=
  match j.getObjVal? k with
  | .ok .null => pure none
  | .ok v => some <$> intJ v
  | .error _ => pure none

def parseDom (j : Json) : Except String IntervalDomain := do
  return { interval := { w := ← natF j "w", start := ← intJ (← field j "s"), stop := ← intJ (← field j "e"),
                         stride := ← natF j "st" },
           upper := ← optIntJ j "up", lower := ← optIntJ j "lo", delay := ← natF j "d" }

def parseDData (j : Json) : Except String DData := do
  let rel ← mapM' (fun p => do
    let a ← p.getArr?
    return ((← a[0]!.getNat?), (← parseDom a[1]!))) (← arrF j "rel")
  let abs ← match j.getObjVal? "abs" with
    | .ok .null => pure none
    | .ok a => (some <$> parseDom a)
    | .error _ => pure none
  return { size := ← natF j "size", rel := rel, abs := abs, top := ← boolF j "top" }

def showOptI : Option Int → String
  | some v => toString v
  | none => "-"

def showDom (a : IntervalDomain) : String :=
  s!"{a.interval.w}:[{a.interval.start},{a.interval.stop}]s{a.interval.stride}u{showOptI a.upper}l{showOptI a.lower}d{a.delay}"

def showDData (d : DData) : String :=
  let r := d.rel.map fun (i, I) => s!"id{i}+{showDom I}"
  let a := match d.abs with | some I => [showDom I] | none => []
  s!"{d.size}" ++ "{" ++ ",".intercalate (r ++ a ++ (if d.top then ["T"] else [])) ++ "}"

def wfDomB (a : IntervalDomain) : Bool :=
  decide a.interval.WF &&
  (match a.upper with | some u => decide (InRange a.interval.w u) | none => true) &&
  (match a.lower with | some l => decide (InRange a.interval.w l) | none => true) &&
  decide (a.delay < 2 ^ 64)

/-- executable `DData.WF` -/
def wfDataB (d : DData) : Bool :=
  decide (0 < d.size) &&
  (match d.abs with | some a => wfDomB a && a.interval.w == 8 * d.size | none => true) &&
  d.rel.all fun p => wfDomB p.2 && p.2.interval.w == 8 * d.size

/-- members used by the spec: all of them if there are at most `cap`, else the ones next to the bounds
and some in between -/
def sampleItv (I : Interval) (cap : Nat) : List Int :=
  if I.stride = 0 then [I.start]
  else
    let n := ((I.stop - I.start) / (I.stride : Int)).toNat
    let idx : List Nat :=
      if n + 1 ≤ cap then List.range (n + 1)
      else [0, 1, n, n - 1, n / 2, n / 3 + 1]
    idx.map fun (i : Nat) => I.start + (i : Int) * (I.stride : Int)

/-- sampled members of `γρ d` -/
def membersOf (ρ : Nat → Int) (d : DData) (cap : Nat) : List Bv :=
  let w := 8 * d.size
  let mk (x : Int) : Bv := bvOfInt w x
  let abs := match d.abs with | some a => (sampleItv a.interval cap).map mk | none => []
  let rel := d.rel.flatMap fun (i, o) => (sampleItv o.interval (cap / 2 + 1)).map fun x => mk (ρ i + x)
  let top := if d.top then [mk 0, mk 1, mk (-1), mk (smin w), mk 0x1234567] else []
  abs ++ rel ++ top

/-- identifier valuations of the spec evaluation; identifier `gid` (global memory) has base 0 -/
def rhos (gid : Nat) : List (Nat → Int) :=
  [fun i => if i = gid then 0 else 0x7ffd00000000 + 0x1000 * (i : Int),
   fun i => if i = gid then 0 else 8 * (i : Int) + 8,
   fun i => if i = gid then 0 else 2 ^ 63 - 5 + (i : Int),
   fun i => if i = gid then 0 else -(((i : Int) + 1) * 0x3fff_ffff_fff1)]

def showBv (b : Bv) : String := s!"{b.w}:{b.toInt}"

/-- first counterexample to the soundness statement of a binary operation on the value `r` -/
def specBinData (gid : Nat) (op : BinOpType) (a b r : DData) : Option String :=
  (rhos gid).findSome? fun ρ =>
    (membersOf ρ a 6).findSome? fun x =>
      (membersOf ρ b 6).findSome? fun y =>
        match Ref.binOp op x y with
        | .val z => if r.contains ρ z then none else some s!"{showBv x},{showBv y}->{showBv z}"
        | _ => none

def specUnData (gid : Nat) (f : Bv → Res) (a r : DData) : Option String :=
  (rhos gid).findSome? fun ρ =>
    (membersOf ρ a 8).findSome? fun x =>
      match f x with
      | .val z => if r.contains ρ z then none else some s!"{showBv x}->{showBv z}"
      | _ => none

def parseBinOpName (s : String) : Except String BinOpType :=
  match BinOpType.all.find? (·.name == s) with | some o => pure o | none => throw s!"binop {s}"
def parseUnOpName (s : String) : Except String UnOpType :=
  match UnOpType.all.find? (·.name == s) with | some o => pure o | none => throw s!"unop {s}"
def parseCastOpName (s : String) : Except String CastOpType :=
  match CastOpType.all.find? (·.name == s) with | some o => pure o | none => throw s!"cast {s}"

def dataShape (d : DData) : String :=
  match d.rel.length, d.abs.isSome, d.top with
  | 0, false, false => "empty" | 0, false, true => "top" | 0, true, false => "abs" | 0, true, true => "abs+top"
  | 1, false, false => "ptr" | 1, _, _ => "ptr+x" | _, _, _ => "ptrs"

def verdictD (cls : String) (model impl : DData) (inHyp : Bool) (specErr : Option String) (tags : String) : String :=
  match specErr with
  | some e => s!"spec class={cls} expected=member:{e} impl={showDData impl} model={showDData model}"
  | none =>
    if model != impl then s!"diff class={cls} model={showDData model} impl={showDData impl}"
    else s!"ok {tags}" ++ (if inHyp then " constrained" else " modelonly")

def handleDd (j : Json) : Except String String := do
  let opJ ← field j "op"
  let kind ← strF opJ "k"
  let a ← parseDData (← field j "a")
  let implJ ← field j "impl"
  if let .ok m := implJ.getStr? then
    return s!"spec class=dd-impl-{(m.splitOn ":").headD "panic"}:{kind} expected=value impl={m.take 100}"
  let impl ← parseDData implJ
  match kind with
  | "bin" =>
    let op ← parseBinOpName (← strF opJ "op")
    let b ← parseDData (← field j "b")
    let model := DData.binOp op a b
    let inHyp := wfDataB a && wfDataB b && decide (C12.binSizesOk op a.size b.size)
    let err := if inHyp then specBinData 99 op a b impl else none
    return verdictD s!"dd-bin:{op.name}:{dataShape a}:{dataShape b}" model impl inHyp err s!"dd-bin {op.name}"
  | "un" =>
    let op ← parseUnOpName (← strF opJ "op")
    let model := DData.unOp op a
    let inHyp := wfDataB a && decide (C12.unSizeOk op a.size)
    let err := if inHyp then specUnData 99 (Ref.unOp op) a impl else none
    return verdictD s!"dd-un:{op.name}:{dataShape a}" model impl inHyp err s!"dd-un {op.name}"
  | "cast" =>
    let op ← parseCastOpName (← strF opJ "op")
    let size ← natF opJ "size"
    let model := DData.cast op size a
    let fits := match op with
      | .PopCount | .LzCount => decide ((8 * a.size : Int) ≤ smax (8 * size))
      | _ => true
    let inHyp := wfDataB a && decide (0 < size) && decide (C12.castSizeOk op size a.size) && fits
    let err := if inHyp then specUnData 99 (Ref.cast op size) a impl else none
    return verdictD s!"dd-cast:{op.name}:{dataShape a}" model impl inHyp err s!"dd-cast {op.name}"
  | "sub" =>
    let low ← natF opJ "low"
    let size ← natF opJ "size"
    let model := DData.subpiece low size a
    let inHyp := wfDataB a && decide (0 < size) && decide (low + size ≤ a.size)
    let err := if inHyp then specUnData 99 (Ref.subpieceOp low size) a impl else none
    let noop := low == 0 && size == a.size
    return verdictD s!"dd-subpiece:{if noop then "noop" else "proper"}:{dataShape a}" model impl inHyp err
      s!"dd-subpiece{if noop then "-noop" else ""}"
  | k => throw s!"unknown dd kind {k}"

def handleEv (j : Json) : Except String String := do
  let e ← parseExpression (← field j "expr")
  let gid ← natF j "gid"
  let seed ← natF j "seed"
  let globals ← mapM' (fun g => g.getNat?) (← arrF j "globals")
  let regs ← mapM' (fun r => do
    let a ← r.getArr?
    let v : Variable := { name := ← a[0]!.getStr?, size := ← a[1]!.getNat? }
    return (v, ← parseDData a[2]!)) (← arrF j "regs")
  let implJ ← field j "impl"
  let kind := exprKind e
  if let .ok m := implJ.getStr? then
    return s!"spec class=ev-impl-{(m.splitOn ":").headD "panic"}:{kind} expected=value impl={m.take 100}"
  let impl ← parseDData implJ
  let st : St := { regs := regs, globals := globals, gid := gid }
  let model := st.eval e
  let inHyp := decide (C12.WellSized e) && regs.all fun (v, d) => wfDataB d && d.size == v.size
  let mut err : Option String := none
  let mut evaluated := 0
  if inHyp then
    for k in List.range 8 do
      let ρ := ((rhos gid)[k % 4]?).getD (fun _ => 0)
      let σ0 : Sem.State := { seed := seed + k }
      -- pick a member of every register's value; a register without members makes the state unsatisfiable
      let picks := regs.zipIdx.map fun ((v, d), idx) =>
        let ms := membersOf ρ d 6
        (v, ms[(k * 7 + idx * 3 + seed) % ms.length]?)
      if picks.all (·.2.isSome) then
        let σ := picks.foldl (fun s p => match p.2 with | some x => s.setReg p.1 x | none => s) σ0
        match Sem.eval σ e with
        | some v =>
          evaluated := evaluated + 1
          if !impl.contains ρ v && err.isNone then
            let rs := picks.map fun p => s!"{p.1.name}={(p.2.map showBv).getD "?"}"
            err := some s!"{showBv v}@{" ".intercalate rs}"
        | none => pure ()
  -- `handle_register_assign`: the binding of the target afterwards
  match j.getObjVal? "assigned" with
  | .ok aj =>
    if aj != Json.null then
      let assigned ← parseDData aj
      let tgt : Variable := { name := "TGT", size := e.bytesize }
      let m := (st.handleRegisterAssign tgt e).getReg tgt
      if m != assigned then
        return s!"diff class=ev-assign:{kind} model={showDData m} impl={showDData assigned}"
  | .error _ => pure ()
  return verdictD s!"ev:{kind}" model impl inHyp err
    (s!"ev {kind}" ++ (if evaluated > 0 then " concretely-evaluated" else "") ++
      (if impl.rel.any (·.1 == gid) then " global-pointer" else ""))


/-! ## PI-lite streams 3 and 4: `Context::update_def` on stack states, `Context::specialize_conditional` -/

def parseRegList (j : Json) : Except String (List (Variable × DData)) := do
  mapM' (fun r => do
    let a ← r.getArr?
    let isTemp := match a[3]? with | some (Json.bool b) => b | _ => false
    let v : Variable := { name := ← a[0]!.getStr?, size := ← a[1]!.getNat?, isTemp := isTemp }
    return (v, ← parseDData a[2]!)) (← j.getArr?).toList

def parseObjs (j : Json) : Except String Objs := do
  mapM' (fun o => do
    let a ← o.getArr?
    let cells ← mapM' (fun c => do
      let ca ← c.getArr?
      return ((← ca[0]!.getInt?), (← parseDData ca[1]!))) (← a[2]!.getArr?).toList
    let targets ← match a[3]? with
      | some t => mapM' (fun (x : Json) => x.getNat?) (← t.getArr?).toList
      | none => pure []
    let ob : Obj := { unique := ← a[1]!.getBool?, targets := targets, mem := cells }
    return ((← a[0]!.getNat?), ob)) (← j.getArr?).toList

/-- the state `build_state` of the harness constructs -/
def parseInit (j : Json) (sid gid : Nat) : Except String MSt := do
  let regs ← parseRegList (← field j "regs")
  let globals ← mapM' (fun g => g.getNat?) (← arrF j "globals")
  let extra ← mapM' (fun e => do
    let a ← e.getArr?
    return ((← a[0]!.getNat?), (← a[1]!.getBool?))) (← arrF j "extra")
  let stackUnique := match j.getObjVal? "stack_unique" with | .ok (.bool b) => b | _ => true
  let objs0 : Objs := [(sid, { unique := stackUnique, mem := [] }), (gid, { unique := true, mem := [] })]
  -- `add_abstract_object` on an existing identifier marks it as not unique and merges with an empty object
  let objs := extra.foldl (fun (os : Objs) (e : Nat × Bool) =>
    match objGet os e.1 with
    | some _ => objSet os e.1 { unique := false, mem := [] }
    | none => os ++ [(e.1, { unique := e.2, mem := [] })]) objs0
  let objs := objs.mergeSort (fun a b => a.1 ≤ b.1)
  return { st := { regs := regs, globals := globals, gid := gid }, stackId := sid, objs := objs }

/-- the state the harness reports after a step, as a model state -/
def parseImplState (j : Json) (globals : List Nat) (sid gid : Nat) : Except String MSt := do
  let regs ← parseRegList (← field j "regs")
  let objs ← parseObjs (← field j "objs")
  return { st := { regs := regs, globals := globals, gid := gid }, stackId := sid, objs := objs }

def msVars : List Variable :=
  (["RSP", "RBP", "RDI", "RAX", "RBX", "RCX", "RDX", "RSI"].map fun n => ({ name := n, size := 8 } : Variable)) ++
  (["E4A", "E4B"].map fun n => ({ name := n, size := 4 } : Variable)) ++ [{ name := "H2A", size := 2 }] ++
  (["ZF", "CF", "B1A"].map fun n => ({ name := n, size := 1 } : Variable))

def showRegion (r : Region DData) : String :=
  "[" ++ ",".intercalate (r.map fun c => s!"{c.1}:{showDData c.2}") ++ "]"


/-! ## post-fixpoint check of the model transfer on the real per-node dump -/

def showAV : AV → String
  | .top => "TOP"
  | .st s => "state(regs=" ++ toString (s.st.regs.map fun p => p.1.name ++ "=" ++ showDData p.2) ++ " stack=" ++ showRegion s.stackRegion ++ ")"

/-- the real analysis result as an assignment of node values, checked against the guarded model transfer `Edge.lean`:
`none` = nothing to report, else a tag or a diff line -/
def postfixCheck (j : Json) : Except String (Option String) := do
  let implJ ← field j "impl"
  if (implJ.getStr?).isOk then return none
  let fullJ ← match implJ.getObjVal? "full" with
    | .ok f => pure f
    | .error _ => return none
  if !(← boolF implJ "stab") then return none
  let p ← parseProject (← field j "project")
  let fnTid ← strF j "fn"
  let some sub := p.program.subs.find? (·.tid.id == fnTid) | throw "function not found"
  let blocks := sub.term.blocks
  let sidI ← intF fullJ "sid"
  let gidI ← intF fullJ "gid"
  if sidI < 0 || gidI < 0 then return some "postfix-no-states"
  let sid := sidI.toNat
  let gid := gidI.toNat
  let globals ← mapM' (fun g => g.getNat?) (← arrF fullJ "globals")
  let nodesJ ← field fullJ "nodes"
  let mut table : List (Nat × AV) := []
  let mut notGood := false
  for (b, i) in blocks.zipIdx do
    match nodesJ.getObjVal? b.tid.id with
    | .error _ => pure ()
    | .ok nj =>
      for (key, node) in [("S", 2 * i), ("E", 2 * i + 1)] do
        let sj ← field nj key
        if sj != Json.null then
          let s ← parseImplState sj globals sid gid
          let c := canon s
          if !goodB c then notGood := true
          table := (node, AV.st c) :: table
  let S : Nat → Option AV := fun n => (table.find? (·.1 == n)).map (·.2)
  if notGood then return some "postfix-state-outside-invariant"
  if closedB blocks S then return some "postfix-checked"
  if meetsTopB blocks S then
    -- which kind of edge leaves the fragment first
    let firstTop := (kEdges blocks).find? fun k =>
      match S k.src with
      | none => false
      | some a => (match k.kind.f a with | some x => x == .top | none => false)
    let kindS := match firstTop.map (·.kind) with
      | some (.block _) => "block" | some .jump => "jump" | some (.cond _ _) => "cond" | none => "node"
    return some s!"postfix-outside-fragment postfix-top-at-{kindS}"
  -- a real fixpoint that is not closed under the model transfer: report the first open edge
  let open? := (kEdges blocks).find? fun k =>
    match S k.src with
    | none => false
    | some a =>
      match k.kind.f a with
      | none => false
      | some x => match S k.dst with | none => true | some b => !(gJoinW x b == b)
  match open? with
  | some k =>
    let a := (S k.src).getD .top
    let x := ((k.kind.f a).getD .top)
    let kindS := match k.kind with | .block _ => "block" | .jump => "jump" | .cond _ b => s!"cond-{b}"
    return some s!"DIFF class=pi-postfix-open-edge:{kindS} model={(showAV (match S k.dst with | some b => gJoinW x b | none => x)).take 700} impl={(match S k.dst with | some b => showAV b | none => "none").take 700} edge={k.src}->{k.dst}"
  | none => return some "postfix-checked"

/-- first difference between the model state and the reported state -/
def stateDiff (m impl : MSt) : Option String :=
  let vars := (msVars ++ m.st.regs.map (·.1) ++ impl.st.regs.map (·.1)).eraseDups
  match vars.find? (fun v => m.st.getReg v != impl.st.getReg v) with
  | some v => some s!"reg:{v.name} model={showDData (m.st.getReg v)} impl={showDData (impl.st.getReg v)}"
  | none =>
    if m.objs.map (·.1) != impl.objs.map (·.1) then some s!"objects model={m.objs.map (·.1)} impl={impl.objs.map (·.1)}"
    else
      (m.objs.zip impl.objs).findSome? fun (a, b) =>
        if a.2.unique != b.2.unique then some s!"unique:id{a.1}"
        else if a.2.targets != b.2.targets then some s!"pointer_targets:id{a.1} model={a.2.targets} impl={b.2.targets}"
        else if a.2.mem != b.2.mem then some s!"region:id{a.1} model={showRegion a.2.mem} impl={showRegion b.2.mem}"
        else none

/-- a concrete register file inside γρ of the register values (`none` if some value has no sampled member) -/
def pickState (ρ : Nat → Int) (regs : List (Variable × DData)) (seed k : Nat) : Option Sem.State :=
  let σ0 : Sem.State := { seed := seed + k }
  let picks := regs.zipIdx.map fun ((v, d), idx) =>
    let ms := membersOf ρ d 6
    (v, ms[(k * 7 + idx * 3 + seed) % ms.length]?)
  if picks.all (·.2.isSome) then
    -- unbound 1-byte registers are flags: P-Code booleans are 0 or 1
    let σ1 := msVars.foldl (fun s v =>
      if v.size == 1 && !(regs.any (·.1 == v)) then s.setReg v (Bv.ofBytes 1 (Sem.mix (seed + k) (Sem.strHash v.name) % 2)) else s) σ0
    some (picks.foldl (fun s p => match p.2 with | some x => s.setReg p.1 x | none => s) σ1)
  else none

/-- all 1-byte registers hold 0 or 1 -/
def flagsBoolean (σ : Sem.State) : Bool := msVars.all fun v => v.size != 1 || (σ.getReg v).toNat ≤ 1

/-- every operand of a Boolean operation evaluates to a P-Code boolean (0 or 1) -/
def boolOperandsOk (σ : Sem.State) : Expression → Bool
  | .BinOp op l r =>
    boolOperandsOk σ l && boolOperandsOk σ r &&
      (match op with
       | .BoolAnd | .BoolOr | .BoolXOr =>
         (match Sem.eval σ l, Sem.eval σ r with
          | some a, some b => a.toNat ≤ 1 && b.toNat ≤ 1
          | _, _ => false)
       | _ => true)
  | .UnOp _ a => boolOperandsOk σ a
  | .Cast _ _ a => boolOperandsOk σ a
  | .Subpiece _ _ a => boolOperandsOk σ a
  | _ => true

/-- some offset (or a value an offset may be computed from) is so close to the i64 bounds that `position + size` overflows in `mem_region.rs`
(the no-overflow precondition of the C05 model of `MemRegion`) -/
def offsetOverflowRisk (s : MSt) : Bool :=
  let near (o : IntervalDomain) : Bool := o.interval.stop > i64Max - 4096 || o.interval.start < i64Min + 4096
  s.st.regs.any fun (_, d) => d.rel.any (fun (_, o) => near o) || (match d.abs with | some a => near a | none => false)

/-- executable γρ of a reported state: registers, and the memory objects (`allObjs`: all of them, each at the
base its identifier stands for; else only the stack object) -/
def checkState (ρ : Nat → Int) (allObjs : Bool) (s : MSt) (σ : Sem.State) : Option String :=
  match msVars.find? (fun v => !(s.st.getReg v).contains ρ (σ.getReg v)) with
  | some v => some s!"reg:{v.name}={showBv (σ.getReg v)}∉{showDData (s.st.getReg v)}"
  | none =>
    s.objs.findSome? fun (id, o) =>
      if allObjs || id == s.stackId then
        (o.mem.find? fun c => !c.2.contains ρ (readCell σ (ρ id) c.1 c.2.size)).map fun c =>
          s!"cell:id{id}@{c.1}={showBv (readCell σ (ρ id) c.1 c.2.size)}∉{showDData c.2}"
      else none

def regsOk (s : MSt) : Bool := s.st.regs.all fun (v, d) => wfDataB d && d.size == v.size

/-- the executable part of `RegionOK` for every object: well-formed cell values of at most 8 bytes, offsets and
ends inside the i64 range (the no-overflow precondition of the C05 model) -/
def objsOk (s : MSt) : Bool :=
  s.objs.all fun (_, o) => o.mem.all fun c =>
    wfDataB c.2 && decide (c.2.size ≤ 8) && decide (i64Min ≤ c.1) && decide (c.1 + (c.2.size : Int) ≤ i64Max)

/-- the step is inside the PROVED fragment (on the state before the step) -/
def defInFrag (s : MSt) (d : Def) : Bool :=
  nullFree s d &&
  match d with
  | .Assign x e => decide (C12.WellSized e) && e.bytesize == x.size
  | .Store a v =>
    decide (C12.WellSized a) && decide (C12.WellSized v) && a.bytesize == 8 && decide (v.bytesize ≤ 8) &&
      s.storeFrag a && s.storeBounded a v.bytesize
  | .Load x a => decide (C12.WellSized a) && a.bytesize == 8 && x.size > 0 && decide (x.size ≤ 8) && s.loadFrag a

/-- the broader class evaluated with well-separated identifier bases only: every concrete address is a
relative target (no absolute part, no top flag for stores) -/
def defInBroad (s : MSt) : Def → Bool
  | .Assign x e => decide (C12.WellSized e) && e.bytesize == x.size
  | .Store a v =>
    let A := s.st.eval a
    -- (a merge-write stops at the first target without memory object: such pointers are not in the class)
    decide (C12.WellSized a) && decide (C12.WellSized v) && A.abs.isNone && !A.top && !A.rel.isEmpty &&
      (A.rel.length == 1 || A.rel.all fun p => (objGet s.objs p.1).isSome) &&
      (A.rel.all fun p => decide (p.2.interval.stop + (v.bytesize : Int) ≤ i64Max)) && decide (v.bytesize ≤ 8)
  | .Load x a =>
    let A := s.st.eval a
    decide (C12.WellSized a) && x.size > 0 && A.abs.isNone

def defAddress : Def → Option Expression
  | .Assign _ _ => none
  | .Store a _ => some a
  | .Load _ a => some a

def defKind : Def → String
  | .Assign _ _ => "assign" | .Store _ _ => "store" | .Load _ _ => "load"

def handleMs (j : Json) : Except String String := do
  let sid ← natF j "sid"
  let gid ← natF j "gid"
  let seed ← natF j "seed"
  let s0 ← parseInit (← field j "init") sid gid
  let defs ← mapM' parseDef (← arrF j "defs")
  let implJ ← field j "impl"
  if let .ok m := implJ.getStr? then
    -- a panic of the real code is accepted only where the model predicts one (`none`: i64 overflow of
    -- `end + size` in `mark_interval_values_as_top`, width assertions of `MemRegion::add/get`)
    let predicted := (defs.foldl (fun (acc : Option MSt × Bool) d =>
      match acc with
      | (some s, false) =>
        (match updateDef s d with
         | none => (none, true)
         | some none => (none, false)
         | some (some s') => (some s', false))
      | other => other) (some s0, false)).2
    if predicted then return "ok ms model-predicts-panic"
    if offsetOverflowRisk s0 then return "ok ms impl-panic-i64-overflow-precondition"
    return s!"spec class=ms-impl-{(m.splitOn ":").headD "panic"} expected=states impl={m.take 100}"
  let implArr ← implJ.getArr?
  let impls : List (Option MSt) ← mapM' (fun (x : Json) =>
    if x == Json.null then pure none else some <$> parseImplState x s0.st.globals sid gid) implArr.toList
  -- 1. the soundness statement on the implementation's states, along concrete runs
  let mut checked := 0
  let mut fragSteps := 0
  if regsOk s0 then
    for k in List.range 6 do
      let ρ := ((rhos gid)[k % 4]?).getD (fun _ => 0)
      let separated := k % 4 == 0
      match pickState ρ s0.st.regs seed k with
      | none => pure ()
      | some σ0 =>
        let mut σ := σ0
        let mut pre := s0
        let mut go := true
        for (d, i) in defs.zipIdx do
          if go && i < impls.length then
            let inF := defInFrag pre d && objsOk pre
            if !(inF || (separated && defInBroad pre d && objsOk pre)) then go := false
            else
              -- accesses in the NULL window do not complete
              let nullAbort := match defAddress d with
                | some a => match Sem.eval σ a with
                  | some addr => inNullWindow 64 addr.toNat
                  | none => true
                | none => false
              if nullAbort then go := false
              else
                match Sem.execDef σ d with
                | none => go := false
                | some (σ', _) =>
                  match impls[i]?.join with
                  | none =>
                    return s!"spec class=ms-certain-null-completed:{defKind d} expected=state impl=none step={i} run={k}"
                  | some im =>
                    match checkState ρ separated im σ' with
                    | some e =>
                      return s!"spec class=ms-excluded-after-{defKind d}{if inF then "" else "-broad"} expected=member impl={e} step={i} run={k}"
                    | none =>
                      checked := checked + 1
                      if inF then fragSteps := fragSteps + 1
                      σ := σ'
                      pre := im
  -- 2. model = implementation, step by step
  let mut cur := s0
  let mut compared := 0
  let mut outside := false
  for (d, i) in defs.zipIdx do
    if i < impls.length && !outside then
      match updateDef cur d, impls[i]?.join with
      | none, _ => outside := true
      | some none, none => compared := compared + 1
      | some none, some _ => return s!"diff class=ms-null-cut:{defKind d} model=none impl=state step={i}"
      | some (some _), none => return s!"diff class=ms-null-cut:{defKind d} model=state impl=none step={i}"
      | some (some m), some im =>
        match stateDiff m im with
        | some e => return s!"diff class=ms-{defKind d} step={i} {e}"
        | none => compared := compared + 1; cur := m
  return s!"ok ms" ++ (if outside then " outside-model" else "") ++ (if compared == defs.length then " all-steps-compared" else "")
    ++ (if checked > 0 then " concretely-checked" else "") ++ (if fragSteps > 0 then " in-proved-fragment" else "")

def handleSc (j : Json) : Except String String := do
  let sid ← natF j "sid"
  let gid ← natF j "gid"
  let seed ← natF j "seed"
  let s0 ← parseInit (← field j "init") sid gid
  let cond ← parseExpression (← field j "cond")
  let isTrue ← boolF j "is_true"
  let implJ ← field j "impl"
  let kind := condKind cond
  if let .ok m := implJ.getStr? then
    return s!"spec class=sc-impl-{(m.splitOn ":").headD "panic"}:{kind} expected=state impl={m.take 100}"
  let impl : Option MSt ← if implJ == Json.null then pure none else some <$> parseImplState implJ s0.st.globals sid gid
  let model := specializeConditional s0 cond isTrue
  let inFrag := condFrag cond && ptrCmpFree s0 cond isTrue && leavesOk s0 cond && decide (C12.WellSized cond) && regsOk s0
  -- the soundness statement on the implementation output: a concrete state in γ of the input state in which the
  -- condition has the truth value of the branch is in γ of the specialised state (which exists)
  -- concrete register values proposed by the generator (solutions of nested comparisons and their neighbours)
  let hints : List (Variable × Bv) := match j.getObjVal? "hints" with
    | .ok (.arr a) => a.toList.filterMap fun h =>
      match h.getArrVal? 0 >>= (·.getStr?), h.getArrVal? 1 >>= (·.getNat?), h.getArrVal? 2 >>= (·.getNat?) with
      | .ok n, .ok sz, .ok v => some (({ name := n, size := sz, isTemp := false } : Variable), Bv.ofBytes sz v)
      | _, _, _ => none
    | _ => []
  let mut sat := 0
  let mut hinted := 0
  if decide (C12.WellSized cond) && regsOk s0 then
    for k in List.range 10 do
      let ρ := if inFrag then ((rhos gid)[k % 4]?).getD (fun _ => 0) else ((rhos gid)[0]?).getD (fun _ => 0)
      match pickState ρ s0.st.regs seed k with
      | none => pure ()
      | some σbase =>
        -- the sampled state, and the sampled state with one register set to a proposed value inside γ of its
        -- abstract value (a different slice of the proposals in every round)
        let hs := (hints.zipIdx.filter fun (h, i) =>
          (k < 2 || i % 5 == k % 5) && (s0.st.getReg h.1).contains ρ h.2 && h.2.w == 8 * h.1.size).map (·.1)
        let σs := σbase :: hs.map fun h => σbase.setReg h.1 h.2
        for (σ, si) in σs.zipIdx do
          match Sem.eval σ cond with
          | some v =>
            -- outside the proved fragment Boolean operations occur: their operands must be P-Code booleans
            if v.w == 8 && v.toNat == (if isTrue then 1 else 0) && (inFrag || (flagsBoolean σ && boolOperandsOk σ cond)) then
              sat := sat + 1
              if si > 0 then hinted := hinted + 1
              let rs := (s0.st.regs.map (·.1) ++ (hs.map (·.1)).filter fun v => !(s0.st.regs.any (·.1 == v))).eraseDups.map fun v => s!"{v.name}={showBv (σ.getReg v)}"
              match impl with
              | none =>
                return s!"spec class=sc-unsat-but-satisfiable:{kind}{if inFrag then "" else "-validated"} expected=state impl=none at={" ".intercalate rs}"
              | some im =>
                match checkState ρ false im σ with
                | some e =>
                  return s!"spec class=sc-excluded:{kind}{if inFrag then "" else "-validated"} expected=member impl={e} at={" ".intercalate rs}"
                | none =>
                  -- the invariant the conditional theorem does not re-establish: the specialised values are well-formed
                  if inFrag && !regsOk im then
                    return s!"spec class=sc-result-not-wellformed:{kind} expected=well-formed-registers impl={(im.st.regs.filter fun (v, d) => !(wfDataB d && d.size == v.size)).map fun (v, d) => v.name ++ "=" ++ showDData d}"
          | none => pure ()
  match model, impl with
  | none, none => pure ()
  | some _, none => return s!"diff class=sc-unsat:{kind} model=state impl=none"
  | none, some _ => return s!"diff class=sc-unsat:{kind} model=none impl=state"
  | some m, some im =>
    match stateDiff m im with
    | some e => return s!"diff class=sc:{kind} {e}"
    | none => pure ()
  return s!"ok sc {kind}" ++ (if inFrag then " in-proved-fragment" else " validated-only") ++ (if sat > 0 then " branch-taken-concretely" else "")
    ++ (if hinted > 0 then " branch-taken-at-proposed-value" else "")
    ++ (if impl.isNone then " unsatisfiable" else "")


/-! ## PI-lite streams 5 and 6: `State::merge`, `Context::update_call_stub` -/

/-- a concrete state in γρ of an abstract state: registers by `pickState`, then a sampled member of every cell is
written to the cell's address (`allObjs`: the cells of all objects, each at the base of its identifier; else the
stack object only) -/
def pickMachine (ρ : Nat → Int) (allObjs : Bool) (s : MSt) (seed k : Nat) : Option Sem.State :=
  match pickState ρ s.st.regs seed k with
  | none => none
  | some σ0 =>
    s.objs.foldl (fun (acc : Option Sem.State) (p : Nat × Obj) =>
      if allObjs || p.1 == s.stackId then
        p.2.mem.zipIdx.foldl (fun (acc : Option Sem.State) (ci : (Int × DData) × Nat) =>
          match acc with
          | none => none
          | some σ =>
            let ms := membersOf ρ ci.1.2 6
            match ms[(k * 5 + ci.2 * 3 + seed) % ms.length]? with
            | some v => some (σ.writeMem (cellAddr (ρ p.1) ci.1.1) ci.1.2.size v.toNat)
            | none => none) acc
      else acc) (some σ0)

def sizes8 (s : MSt) : Bool := s.st.regs.all fun (_, d) => d.size ≤ 8

def handleMg (j : Json) : Except String String := do
  let sid ← natF j "sid"
  let gid ← natF j "gid"
  let seed ← natF j "seed"
  let globalsA ← mapM' (fun g => g.getNat?) (← arrF (← field j "ia") "globals")
  let implJ ← field j "impl"
  if let .ok m := implJ.getStr? then
    return s!"spec class=mg-impl-{(m.splitOn ":").headD "panic"} expected=state impl={m.take 100}"
  let a ← parseImplState (← field implJ "a") globalsA sid gid
  let b ← parseImplState (← field implJ "b") globalsA sid gid
  let ab ← parseImplState (← field implJ "ab") globalsA sid gid
  let ba ← parseImplState (← field implJ "ba") globalsA sid gid
  -- 1. the soundness statement on the implementation output: every concrete state represented by an input is
  --    represented by both merges
  let inHyp := regsOk a && regsOk b && objsOk a && objsOk b && sizes8 a && sizes8 b &&
    (objGet a.objs sid).isSome && (objGet b.objs sid).isSome
  let mut checked := 0
  if inHyp then
    for k in List.range 6 do
      let ρ := ((rhos gid)[k % 4]?).getD (fun _ => 0)
      let separated := k % 4 == 0
      for (src, name) in [(a, "left"), (b, "right")] do
        match pickMachine ρ separated src seed k with
        | none => pure ()
        | some σ =>
          -- the sample must really be in γ of its source (cells written later may overlap nothing: region invariant)
          if (checkState ρ separated src σ).isNone then
            checked := checked + 1
            for (m0, mn) in [(ab, "ab"), (ba, "ba")] do
              -- an object that only one input tracks is copied into the merge (the other path "has no such object"):
              -- only the objects both inputs track are part of the statement
              let m : MSt := { m0 with objs := m0.objs.filter fun p => (objGet a.objs p.1).isSome && (objGet b.objs p.1).isSome }
              match checkState ρ separated m σ with
              | some e => return s!"spec class=mg-excluded-{name}-in-{mn} expected=member impl={e} run={k}"
              | none => pure ()
  -- 2. model = implementation
  for (x, y, impl, nm) in [(a, b, ab, "ab"), (b, a, ba, "ba")] do
    match x.merge y with
    | none => return s!"diff class=mg-stack-id model=assert-fails impl=state"
    | some m =>
      match stateDiff m impl with
      | some e => return s!"diff class=mg-{nm} {e}"
      | none => pure ()
  let oneSided := a.objs.length != b.objs.length
  let cellsBoth := a.objs.any (fun p => !p.2.mem.isEmpty) && b.objs.any (fun p => !p.2.mem.isEmpty)
  return "ok mg" ++ (if inHyp then " constrained" else " modelonly") ++ (if checked > 0 then " concretely-checked" else "")
    ++ (if oneSided then " object-on-one-side" else "") ++ (if cellsBoth then " cells-on-both-sides" else "")
    ++ (if ab.objs.any (fun p => !p.2.mem.isEmpty) then " merged-cells" else "")

def handleCs (j : Json) : Except String String := do
  let sid ← natF j "sid"
  let gid ← natF j "gid"
  let seed ← natF j "seed"
  let globals ← mapM' (fun g => g.getNat?) (← arrF (← field j "init") "globals")
  let ext ← parseExternSymbol (← field j "symbol")
  let cc ← parseCallingConvention (← field j "cconv")
  let spJ ← arrF j "sp"
  let sp : Variable := { name := ← spJ[0]!.getStr?, size := ← spJ[1]!.getNat? }
  let implJ ← field j "impl"
  if let .ok m := implJ.getStr? then
    return s!"spec class=cs-impl-{(m.splitOn ":").headD "panic"} expected=state impl={m.take 100}"
  let before ← parseImplState (← field implJ "before") globals sid gid
  let afterJ ← field implJ "after"
  if afterJ == Json.null then
    return s!"diff class=cs-none:{ext.name} model=state impl=none"
  let after ← parseImplState afterJ globals sid gid
  let inFrag := noStackArgs ext && regsOk before && objsOk before && sizes8 before
  -- 1. soundness on the implementation output: after a call that keeps the callee-saved registers, pops the return
  --    address and leaves the memory alone, the concrete state is represented
  let mut checked := 0
  if regsOk before && objsOk before && sizes8 before then
    for k in List.range 6 do
      let ρ := ((rhos gid)[k % 4]?).getD (fun _ => 0)
      let separated := k % 4 == 0
      match pickMachine ρ separated before seed k with
      | none => pure ()
      | some σ =>
        if (checkState ρ separated before σ).isNone then
          -- the ABI effect of the call: havoc of everything that is neither callee-saved nor the stack pointer
          let σ1 := msVars.foldl (fun (acc : Sem.State) v =>
            if v == sp || cc.calleeSavedRegister.contains v then acc
            else acc.setReg v (Bv.ofBytes v.size (Sem.mix (Sem.mix seed k) (Sem.strHash v.name)))) σ
          let σ' := σ1.setReg sp (Bv.ofBytes sp.size ((σ.getReg sp).toNat + sp.size))
          checked := checked + 1
          match checkState ρ separated after σ' with
          | some e =>
            return s!"spec class=cs-excluded:{ext.name}{if inFrag then "" else "-validated"} expected=member impl={e} run={k}"
          | none => pure ()
  -- 2. model = implementation
  match updateCallStub before sp cc ext with
  | none => return s!"ok cs outside-model {ext.name}"
  | some m =>
    match stateDiff m after with
    | some e => return s!"diff class=cs:{ext.name} {e}"
    | none => pure ()
  return s!"ok cs {ext.name}" ++ (if inFrag then " in-proved-fragment" else " validated-only")
    ++ (if checked > 0 then " concretely-checked" else "") ++ (if stackMarked before cc ext then " stack-marked" else " stack-kept")

def handleE (line : String) : Except String String := do
  let j ← Json.parse line
  match (← strF j "q") with
  | "pi" =>
    let v ← handlePi j
    if v.startsWith "ok" then
      match ← postfixCheck j with
      | none => return v
      | some t => if t.startsWith "DIFF " then return "diff " ++ t.drop 5 else return v ++ " " ++ t
    else return v
  | "null" => handleNull j
  | "dd" => handleDd j
  | "ev" => handleEv j
  | "ms" => handleMs j
  | "sc" => handleSc j
  | "mg" => handleMg j
  | "cs" => handleCs j
  | q => throw s!"unknown case kind {q}"

end CweModel.C13

def main : IO Unit := CweModel.Proto.runDriver (CweModel.Proto.guarded CweModel.C13.handleE)
