/-
C13 — "PI-lite", layer 6, theorems: the guarded model transfer (`Edge.lean`) satisfies the hypotheses of the
abstract-interpretation meta-theorem (`Base/Fix.sound_of_closed`, `pi_meta`) for EVERY input, so every post-fixpoint of the
model transfer of a function describes every concretely reachable machine state (registers and stack memory):
`pi_model_sound_partial`. The executable checks the driver runs on the per-node dump of the REAL analysis imply the
hypotheses (`closedB_sound`, `goodB_sound`).
-/
import CweModel.C13.Edge
import CweModel.C13.CondProps
import CweModel.C13.JoinProps

set_option linter.unusedSimpArgs false
set_option linter.unusedVariables false
namespace CweModel.C13
open CweModel CweModel.IR CweModel.Itv CweModel.MemRegion

/-! ## A. the executable invariants imply the declarative ones -/

theorem wfItvB_sound {a : IntervalDomain} (h : wfItvB a = true) : a.WF := by
  unfold wfItvB at h
  simp only [Bool.and_eq_true, decide_eq_true_eq] at h
  obtain ⟨⟨⟨h1, h2⟩, h3⟩, h4⟩ := h
  refine ⟨h1, ?_, ?_, h4⟩
  · intro u hu; rw [hu] at h2; simpa using h2
  · intro l hl; rw [hl] at h3; simpa using h3

theorem wfValB_sound {d : DData} (h : wfValB d = true) : d.WF := by
  unfold wfValB at h
  simp only [Bool.and_eq_true, decide_eq_true_eq, List.all_eq_true, beq_iff_eq] at h
  obtain ⟨⟨h1, h2⟩, h3⟩ := h
  refine ⟨h1, ?_, ?_⟩
  · intro a ha
    rw [ha] at h2
    simp only [Bool.and_eq_true, beq_iff_eq] at h2
    exact ⟨wfItvB_sound h2.1, h2.2⟩
  · intro i o hm
    have := h3 (i, o) hm
    exact ⟨wfItvB_sound this.1, this.2⟩

theorem regsGoodB_sound {t : St} (h : regsGoodB t = true) : t.WF ∧ RegKeys t ∧ Size8 t := by
  unfold regsGoodB at h
  simp only [Bool.and_eq_true, decide_eq_true_eq, List.all_eq_true, beq_iff_eq] at h
  obtain ⟨h1, h2⟩ := h
  refine ⟨?_, h2, ?_⟩
  · intro v d hm
    have := h1 (v, d) hm
    exact ⟨wfValB_sound this.1.1, this.1.2⟩
  · intro v d hm
    exact (h1 (v, d) hm).2

theorem regionGoodB_sound {r : Region DData} (h : regionGoodB r = true) : RegionOK r := by
  unfold regionGoodB at h
  simp only [Bool.and_eq_true, decide_eq_true_eq, List.all_eq_true, Bool.not_eq_true'] at h
  obtain ⟨⟨h1, h2⟩, h3⟩ := h
  refine ⟨⟨h1, h2, ?_, ?_⟩, ?_, ?_⟩
  · intro c hc; exact (h3 c hc).1.1.1.1.1
  · intro c hc; exact (h3 c hc).1.1.1.1.2
  · intro c hc; exact ⟨(h3 c hc).1.2, (h3 c hc).2⟩
  · intro c hc; exact ⟨wfValB_sound (h3 c hc).1.1.1.2, (h3 c hc).1.1.2⟩

/-- what `goodB` guarantees -/
structure GoodS (s : MSt) : Prop where
  wf : s.WF
  keys : RegKeys s.st
  size8 : Size8 s.st
  stack : ∃ o, objGet s.objs s.stackId = some o
  objKeys : ObjKeys s.objs

theorem goodB_sound {s : MSt} (h : goodB s = true) : GoodS s := by
  unfold goodB at h
  simp only [Bool.and_eq_true, decide_eq_true_eq] at h
  obtain ⟨⟨h1, h2⟩, h3⟩ := h
  obtain ⟨r1, r2, r3⟩ := regsGoodB_sound h1
  cases ho : objGet s.objs s.stackId with
  | none => rw [ho] at h2; cases h2
  | some o =>
    rw [ho] at h2
    refine ⟨⟨r1, ?_⟩, r2, r3, ⟨o, ho⟩, h3⟩
    rw [stackRegion_of_get ho]
    exact regionGoodB_sound h2

theorem countFitsB_sound : ∀ e : Expression, countFitsB e = true → CountFits e := by
  intro e
  induction e with
  | BinOp op l r ihl ihr =>
    intro h; simp only [countFitsB, Bool.and_eq_true] at h
    exact ⟨ihl h.1, ihr h.2⟩
  | UnOp op a ih => intro h; exact ih h
  | Cast op n a ih =>
    intro h
    simp only [countFitsB, Bool.and_eq_true, Bool.or_eq_true, Bool.not_eq_true', decide_eq_true_eq] at h
    refine ⟨?_, ih h.2⟩
    intro hc
    rcases h.1 with h1 | h1
    · cases op <;> simp [isCountCast, isCountCastB] at hc h1
    · exact h1
  | Subpiece lb n a ih => intro h; exact ih h
  | Var x => intro _; trivial
  | Const b x => intro _; trivial
  | Unknown d n => intro _; trivial

theorem exprOkB_sound {e : Expression} (h : exprOkB e = true) : ExprOk e := by
  unfold exprOkB at h
  simp only [Bool.and_eq_true, decide_eq_true_eq] at h
  exact ⟨h.1, countFitsB_sound e h.2⟩

theorem defFragB_sound {s : MSt} {d : Def} (h : defFragB s d = true) : nullFree s d = true ∧ DefFrag s d := by
  unfold defFragB at h
  simp only [Bool.and_eq_true] at h
  refine ⟨h.1, ?_⟩
  cases d with
  | Assign x e =>
    simp only [Bool.and_eq_true, beq_iff_eq] at h
    exact ⟨exprOkB_sound h.2.1, h.2.2⟩
  | Store a v =>
    simp only [Bool.and_eq_true, beq_iff_eq, decide_eq_true_eq] at h
    obtain ⟨_, ⟨⟨⟨⟨h1, h2⟩, h3⟩, h4⟩, h5⟩, h6⟩ := h
    exact ⟨exprOkB_sound h1, exprOkB_sound h2, h3, h4, h5, h6⟩
  | Load x a =>
    simp only [Bool.and_eq_true, beq_iff_eq, decide_eq_true_eq] at h
    obtain ⟨_, ⟨⟨⟨h1, h2⟩, h3⟩, h4⟩, h5⟩ := h
    exact ⟨exprOkB_sound h1, h2, h3, h4, h5⟩

theorem condFragB_sound {s : MSt} {c : Expression} {b : Bool} (h : condFragB s c b = true) :
    ExprOk c ∧ condFrag c = true ∧ leavesOk s c = true ∧ ptrCmpFree s c b = true := by
  unfold condFragB at h
  simp only [Bool.and_eq_true] at h
  exact ⟨exprOkB_sound h.1.1.1, h.1.1.2, h.1.2, h.2⟩

/-! ## B. canonical form and the concretisation of node values -/

theorem getReg_perm {t t' : St} (hp : t.regs.Perm t'.regs) (hk : RegKeys t) (v : Variable) : t'.getReg v = t.getReg v := by
  have hk' : RegKeys t' := by
    unfold RegKeys at hk ⊢
    exact (hp.map (·.1)).nodup_iff.mp hk
  by_cases h : ∃ d, (v, d) ∈ t.regs
  · obtain ⟨d, hd⟩ := h
    rw [getReg_of_mem hk hd, getReg_of_mem hk' (hp.mem_iff.mp hd)]
  · have hnone : ∀ l : List (Variable × DData), (∀ d, (v, d) ∉ l) → l.find? (fun p => decide (p.1 = v)) = none := by
      intro l hl
      rw [List.find?_eq_none]
      intro p hp hpv
      simp only [decide_eq_true_eq] at hpv
      exact hl p.2 (by rw [← hpv]; exact hp)
    have h1 : ∀ d, (v, d) ∉ t.regs := fun d hd => h ⟨d, hd⟩
    have h2 : ∀ d, (v, d) ∉ t'.regs := fun d hd => h ⟨d, hp.mem_iff.mpr hd⟩
    unfold St.getReg
    rw [hnone _ h1, hnone _ h2]

theorem insertReg_perm (p : Variable × DData) (l : List (Variable × DData)) : (insertReg p l).Perm (p :: l) := by
  induction l with
  | nil => exact List.Perm.refl _
  | cons q rest ih =>
    simp only [insertReg]
    split
    · exact List.Perm.refl _
    · exact (List.Perm.cons q ih).trans (List.Perm.swap p q rest)

theorem canonRegs_perm (l : List (Variable × DData)) : (canonRegs l).Perm l := by
  unfold canonRegs
  induction l with
  | nil => exact List.Perm.refl _
  | cons p rest ih =>
    simp only [List.foldr_cons]
    exact (insertReg_perm p _).trans (List.Perm.cons p ih)

theorem canon_perm (s : MSt) : (canon s).st.regs.Perm s.st.regs := canonRegs_perm _

theorem canon_stackRegion (s : MSt) : (canon s).stackRegion = s.stackRegion := rfl

theorem canon_in {ρ : Nat → Int} {σ : Sem.State} {s : MSt} (hg : goodB (canon s) = true) (hin : s.In ρ σ) :
    (canon s).In ρ σ := by
  refine ⟨?_, ?_⟩
  · intro v
    have := getReg_perm (canon_perm s) (goodB_sound hg).keys v
    rw [← this]
    exact hin.1 v
  · unfold StackIn
    rw [canon_stackRegion]
    exact hin.2

/-- **the concretisation of node values**: `⊤` represents every machine state; a state represents the machine states with
8-byte addresses whose registers and stack memory it describes (`MSt.In`), and it satisfies the executable invariant; the
identifier of the global memory object stands for address 0 -/
def Repr (ρ : Nat → Int) : AV → Sem.State → Prop
  | .top, _ => True
  | .st s, σ => σ.ptrBytes = 8 ∧ goodB s = true ∧ (s.st.globals ≠ [] → ρ s.st.gid = 0) ∧ s.In ρ σ

theorem repr_mkAV {ρ : Nat → Int} {σ : Sem.State} {s : MSt} (h8 : σ.ptrBytes = 8)
    (hg : s.st.globals ≠ [] → ρ s.st.gid = 0) (hin : s.In ρ σ) : Repr ρ (mkAV s) σ := by
  unfold mkAV
  split
  · rename_i hgood
    exact ⟨h8, hgood, hg, canon_in hgood hin⟩
  · trivial

/-! ## C. the edge transfers are sound -/

/-- the concrete transition along an edge -/
def EdgeKind.cstep : EdgeKind → Sem.State → Sem.State → Prop
  | .block defs, σ, σ' => ∃ evs, Sem.execDefs σ defs = some (σ', evs)
  | .jump, σ, σ' => σ' = σ
  | .cond c b, σ, σ' => σ' = σ ∧ Sem.eval σ c = some (Bv.ofBool b)

theorem execDef_ptrBytes {σ σ' : Sem.State} {d : Def} {ev : List Sem.Event} (h : Sem.execDef σ d = some (σ', ev)) :
    σ'.ptrBytes = σ.ptrBytes := by
  cases d with
  | Assign x e =>
    simp only [Sem.execDef, bind, Option.bind] at h
    cases he : Sem.eval σ e with
    | none => rw [he] at h; cases h
    | some v =>
      rw [he] at h
      simp only at h
      split at h
      · cases h
      · cases h; rfl
  | Load x a =>
    simp only [Sem.execDef, bind, Option.bind] at h
    cases he : Sem.eval σ a with
    | none => rw [he] at h; cases h
    | some v => rw [he] at h; cases h; rfl
  | Store a e =>
    simp only [Sem.execDef, bind, Option.bind] at h
    cases ha : Sem.eval σ a with
    | none => rw [ha] at h; cases h
    | some v =>
      rw [ha] at h
      cases he : Sem.eval σ e with
      | none => rw [he] at h; cases h
      | some w =>
        rw [he] at h
        cases h
        exact (SemMem.writeMem_fields σ _ _ _).2.2.2

theorem updateDef_globals {s s' : MSt} {d : Def} (hn : nullFree s d = true) (h : updateDef s d = some (some s')) :
    s'.st.globals = s.st.globals ∧ s'.st.gid = s.st.gid := by
  unfold updateDef at h
  rw [checkNull_of_nullFree hn] at h
  have hset : ∀ (t : St) (x : Variable) (v : DData), (t.setReg x v).globals = t.globals ∧ (t.setReg x v).gid = t.gid := by
    intro t x v; unfold St.setReg; split <;> exact ⟨rfl, rfl⟩
  cases d with
  | Assign x e =>
    simp only [Option.some.injEq] at h
    subst h
    exact hset _ _ _
  | Store a e =>
    simp only [Option.map_eq_some_iff] at h
    obtain ⟨s1, h1, h2⟩ := h
    cases h2
    unfold MSt.handleStore MSt.writeToAddress MSt.storeValue at h1
    simp only [Option.map_eq_some_iff] at h1
    obtain ⟨o, _, rfl⟩ := h1
    exact ⟨rfl, rfl⟩
  | Load x a =>
    simp only [Option.map_eq_some_iff] at h
    obtain ⟨s1, h1, h2⟩ := h
    cases h2
    unfold MSt.handleLoad at h1
    split at h1
    · cases h1
    · cases h1; exact hset _ _ _
    · cases h1; exact hset _ _ _

/-- **block edge**: the `Def`s of a block (the executable invariant is tested before every `Def` and at the end of the
block; along the block only the declarative facts are needed) -/
theorem gDefs_sound {ρ : Nat → Int} : ∀ (defs : List (Term Def)) (s : MSt) (σ σ' : Sem.State) (evs : List Sem.Event),
    σ.ptrBytes = 8 → (s.st.globals ≠ [] → ρ s.st.gid = 0) → s.In ρ σ →
    Sem.execDefs σ defs = some (σ', evs) → ∃ x, gDefs defs s = some x ∧ Repr ρ x σ' := by
  intro defs
  induction defs with
  | nil =>
    intro s σ σ' evs h8 hg hin hex
    simp only [Sem.execDefs, Option.some.injEq, Prod.mk.injEq] at hex
    obtain ⟨rfl, _⟩ := hex
    exact ⟨_, rfl, repr_mkAV h8 hg hin⟩
  | cons d ds ih =>
    intro s σ σ' evs h8 hg hin hex
    simp only [Sem.execDefs, bind, Option.bind] at hex
    cases h1 : Sem.execDef σ d.term with
    | none => rw [h1] at hex; cases hex
    | some p1 =>
      obtain ⟨σ1, e1⟩ := p1
      rw [h1] at hex
      simp only at hex
      cases h2 : Sem.execDefs σ1 ds with
      | none => rw [h2] at hex; cases hex
      | some p2 =>
        obtain ⟨σ2, e2⟩ := p2
        rw [h2] at hex
        simp only [Option.some.injEq, Prod.mk.injEq] at hex
        obtain ⟨rfl, _⟩ := hex
        unfold gDefs
        by_cases hf : (goodB s && defFragB s d.term) = true
        · rw [if_pos hf]
          simp only [Bool.and_eq_true] at hf
          obtain ⟨hn, hdf⟩ := defFragB_sound hf.2
          obtain ⟨s1, u1, u2, u3⟩ := updateDef_sound (goodB_sound hf.1).wf hg h8 hin hn hdf h1
          rw [u1]
          simp only
          obtain ⟨g1, g2⟩ := updateDef_globals hn u1
          have h8' : σ1.ptrBytes = 8 := by rw [execDef_ptrBytes h1]; exact h8
          exact ih s1 σ1 σ2 e2 h8' (by rw [g1, g2]; exact hg) u2 h2
        · rw [if_neg hf]
          exact ⟨.top, rfl, trivial⟩

/-- **every edge transfer is sound and does not block a feasible transition** -/
theorem edge_sound {ρ : Nat → Int} (k : EdgeKind) (a : AV) (σ σ' : Sem.State) (hr : Repr ρ a σ) (hc : k.cstep σ σ') :
    ∃ x, k.f a = some x ∧ Repr ρ x σ' := by
  cases a with
  | top =>
    cases k <;> exact ⟨.top, rfl, trivial⟩
  | st s =>
    obtain ⟨h8, hgood, hg, hin⟩ := hr
    cases k with
    | block defs =>
      obtain ⟨evs, hex⟩ := hc
      exact gDefs_sound defs s σ σ' evs h8 hg hin hex
    | jump =>
      simp only [EdgeKind.cstep] at hc
      subst hc
      exact ⟨_, rfl, repr_mkAV h8 hg hin⟩
    | cond c b =>
      obtain ⟨rfl, hev⟩ := hc
      show ∃ x, gCond c b (.st s) = some x ∧ _
      unfold gCond
      simp only
      by_cases hf : (goodB s && condFragB s c b) = true
      · rw [if_pos hf]
        simp only [Bool.and_eq_true] at hf
        obtain ⟨f1, f2, f3, f4⟩ := condFragB_sound hf.2
        have hG : Good ρ σ' s := ⟨hin.1, sized_of_wf (goodB_sound hgood).wf.regs, hg⟩
        obtain ⟨s1, e, g, a1, a2⟩ := specByExpr_cond_sound c s b hG (goodB_sound hgood).wf.regs f1 f2 f3 f4 hev
        unfold specializeConditional
        rw [e]
        refine ⟨_, rfl, repr_mkAV h8 g.glob ⟨g.regs, ?_⟩⟩
        unfold StackIn MSt.stackRegion
        rw [a1, a2]
        exact hin.2
      · rw [if_neg hf]
        exact ⟨.top, rfl, trivial⟩

/-- **the join is an upper bound** (the new value is the right operand of `State::merge`) -/
theorem join_sound {ρ : Nat → Int} (x b : AV) (σ : Sem.State) (hr : Repr ρ x σ) : Repr ρ (gJoin x b) σ := by
  cases x with
  | top => cases b <;> trivial
  | st x =>
    cases b with
    | top => trivial
    | st b =>
      unfold gJoin
      simp only
      by_cases hf : (goodB x && goodB b && b.stackId == x.stackId && b.st.gid == x.st.gid && b.st.globals == x.st.globals) = true
      · rw [if_pos hf]
        simp only [Bool.and_eq_true, beq_iff_eq] at hf
        obtain ⟨⟨⟨⟨gx, gb⟩, hid⟩, hgid⟩, hglob⟩ := hf
        obtain ⟨h8, _, hg, hin⟩ := hr
        have Gx := goodB_sound gx
        have Gb := goodB_sound gb
        obtain ⟨ob, hob⟩ := Gb.stack
        obtain ⟨ox, hox⟩ := Gx.stack
        obtain ⟨m, e, m1, _, _, _⟩ := merge_sound_partial (ρ := ρ) Gb.wf Gx.wf hid Gb.keys Gx.keys Gb.size8 Gx.size8 hob hox
          Gx.objKeys (Or.inr hin)
        rw [e]
        simp only
        refine repr_mkAV h8 ?_ m1
        have hm : m.st.globals = b.st.globals ∧ m.st.gid = b.st.gid := by
          unfold MSt.merge at e
          rw [if_pos hid] at e
          cases e
          exact ⟨rfl, rfl⟩
        rw [hm.1, hm.2, hglob, hgid]
        exact hg
      · rw [if_neg hf]
        trivial

/-- a node value that claims no more than a represented state represents the same machine states -/
theorem weaker_sound {ρ : Nat → Int} {σ : Sem.State} {m b : MSt} (hb : goodB b = true) (hw : weakerB m b = true)
    (hm : Repr ρ (.st m) σ) : Repr ρ (.st b) σ := by
  obtain ⟨h8, hgm, hg, hin⟩ := hm
  unfold weakerB at hw
  simp only [Bool.and_eq_true, beq_iff_eq, List.all_eq_true, Bool.or_eq_true, List.contains_iff_mem] at hw
  obtain ⟨⟨⟨⟨hsid, hgid⟩, hglob⟩, hregs⟩, hcells⟩ := hw
  have Gb := goodB_sound hb
  have Gm := goodB_sound hgm
  refine ⟨h8, hb, by rw [hglob, hgid]; exact hg, ⟨?_, ?_⟩⟩
  · intro v
    have hmv := hin.1 v
    have hwid : (σ.getReg v).w = 8 * v.size := by
      rcases getReg_cases m.st v with e | e
      · rw [e] at hmv; exact hmv.1
      · rw [hmv.1, (Gm.wf.regs _ _ e).2]
    rcases getReg_cases b.st v with e | e
    · rw [e]; exact ⟨hwid, Or.inl rfl⟩
    · rcases hregs _ e with h | h
      · simp only at h; rw [h]; exact hmv
      · exact ⟨by rw [hwid, (Gb.wf.regs _ _ e).2], Or.inl h⟩
  · intro c hc
    rcases hcells c hc with h | h
    · have := hin.2 c h
      rw [hsid]
      exact this
    · exact ⟨readCell_w _ _ _ _, Or.inl h⟩

/-- **the join of the problem is an upper bound** -/
theorem joinW_sound {ρ : Nat → Int} (x b : AV) (σ : Sem.State) (hr : Repr ρ x σ) : Repr ρ (gJoinW x b) σ := by
  have hj := join_sound (ρ := ρ) x b σ hr
  unfold gJoinW
  cases hm : gJoin x b with
  | top => cases b <;> trivial
  | st m =>
    rw [hm] at hj
    cases b with
    | top => exact hj
    | st b' =>
      simp only
      split
      · rename_i hc
        simp only [Bool.and_eq_true] at hc
        exact weaker_sound hc.1 hc.2 hj
      · exact hj

/-! ## D. the theorem -/

/-- the concrete transition relation of a function: along the edges of `kEdges` -/
def cstepOf (blocks : List (Term Blk)) (e : Fix.Edge AV) (σ σ' : Sem.State) : Prop :=
  ∃ k ∈ kEdges blocks, k.toEdge = e ∧ k.kind.cstep σ σ'

/-- **C13-model-postfixpoint (partial).** For every function (list of blocks), every identifier valuation ρ and EVERY
assignment `S` of node values that is closed under the guarded model transfer (a post-fixpoint; no fixpoint iteration, no
monotonicity is assumed) and describes the start states: every machine state that is concretely reachable at a node — along
block edges (the reference interpreter executes the `Def`s), unconditional jumps, and conditional edges whose condition
evaluates to the edge's truth value — is described by the node's value: if that value is a state, every register's value and
the bytes of every stack cell are represented. Instance of `Fix.sound_of_closed` (= `pi_meta`).

`_partial`: where an executable fragment predicate or the executable invariant fails, the model transfer answers `⊤`, about
which nothing is said; functions with calls have no call edges in `kEdges` (the call transfer is proved separately:
`updateCallStub_sound_partial`). -/
theorem pi_model_sound_partial (blocks : List (Term Blk)) {ρ : Nat → Int} {S : Fix.Assign AV}
    (hS : Fix.Closed (problemOf blocks) S) {init : Nat → Sem.State → Prop}
    (hinit : ∀ i σ, init i σ → ∃ a, S i = some a ∧ Repr ρ a σ)
    {i : Nat} {σ : Sem.State} (hr : Fix.Reach (problemOf blocks) init (cstepOf blocks) i σ) :
    ∃ a, S i = some a ∧ Repr ρ a σ := by
  refine Fix.sound_of_closed (γ := Repr ρ) (fun x b c h => joinW_sound x b c h) ?_ hS hinit hr
  intro e he a c c' hγ hc
  obtain ⟨k, hk, rfl, hstep⟩ := hc
  exact edge_sound k.kind a c c' hγ hstep

/-- the executable closedness test of the driver implies the hypothesis `Closed` -/
theorem closedB_sound {blocks : List (Term Blk)} {S : Nat → Option AV} (h : closedB blocks S = true) :
    Fix.Closed (problemOf blocks) S := by
  intro e he a x hsrc hf
  simp only [problemOf, List.mem_map] at he
  obtain ⟨k, hk, rfl⟩ := he
  unfold closedB at h
  rw [List.all_eq_true] at h
  have := h k hk
  simp only [KEdge.toEdge] at hsrc hf
  rw [hsrc] at this
  simp only at this
  rw [hf] at this
  simp only at this
  cases hd : S k.dst with
  | none => rw [hd] at this; cases this
  | some b =>
    rw [hd] at this
    simp only [beq_iff_eq] at this
    exact ⟨b, hd, this⟩

/-- a reachable machine state at a node whose value is a state: registers and stack cells are represented -/
theorem pi_model_state {blocks : List (Term Blk)} {ρ : Nat → Int} {S : Nat → Option AV}
    (hS : closedB blocks S = true) {init : Nat → Sem.State → Prop}
    (hinit : ∀ i σ, init i σ → ∃ a, S i = some a ∧ Repr ρ a σ)
    {i : Nat} {σ : Sem.State} (hr : Fix.Reach (problemOf blocks) init (cstepOf blocks) i σ) {s : MSt}
    (hs : S i = some (.st s)) : s.In ρ σ := by
  obtain ⟨a, ha, hrep⟩ := pi_model_sound_partial blocks (closedB_sound hS) hinit hr
  rw [hs] at ha
  cases ha
  exact hrep.2.2.2

/-! ### non-vacuity: a function whose post-fixpoint is found by running the model transfer once -/
namespace EdgeEx
open CondEx

/-- `b0: RAX := RAX + 1; store [RSP + 8] := RAX; if RAX <s 5 goto b1 else b2`, `b1: load RBX := [RSP + 8]`, `b2:` -/
def blocks : List (Term Blk) :=
  [ { tid := { id := "b0", address := "0" },
      term := { defs := [ { tid := { id := "d0", address := "0" }, term := .Assign exRAX (.BinOp .IntAdd (.Var exRAX) (.Const 8 1)) },
                          { tid := { id := "d1", address := "0" }, term := .Store exAddr (.Var exRAX) } ],
                jmps := [ { tid := { id := "j0", address := "0" }, term := .CBranch { id := "b1", address := "0" } exCond },
                          { tid := { id := "j1", address := "0" }, term := .Branch { id := "b2", address := "0" } } ] } },
    { tid := { id := "b1", address := "0" },
      term := { defs := [ { tid := { id := "d2", address := "0" }, term := .Load exRBX exAddr } ], jmps := [] } },
    { tid := { id := "b2", address := "0" }, term := { defs := [], jmps := [] } } ]

def v0 : AV := mkAV exM
def v1 : AV := ((gBlock [ { tid := { id := "d0", address := "0" }, term := .Assign exRAX (.BinOp .IntAdd (.Var exRAX) (.Const 8 1)) },
                          { tid := { id := "d1", address := "0" }, term := .Store exAddr (.Var exRAX) } ] v0).getD .top)
def v2 : AV := (gCond exCond true v1).getD .top
def v3 : AV := (gBlock [ { tid := { id := "d2", address := "0" }, term := .Load exRBX exAddr } ] v2).getD .top
def v4 : AV := (gCond exCond false v1).getD .top
def v5 : AV := (gBlock [] v4).getD .top

def S : Nat → Option AV
  | 0 => some v0 | 1 => some v1 | 2 => some v2 | 3 => some v3 | 4 => some v4 | 5 => some v5 | _ => none

-- the assignment is closed under the guarded model transfer and never meets `⊤` …
theorem closed : closedB blocks S = true ∧ meetsTopB blocks S = false := by decide +kernel

-- … so `pi_model_sound_partial` applies: e.g. after the true branch and the load, `RAX` is known to be in `[1, 4]` and
-- `RBX` (loaded from the slot written before the branch) in `[1, 11]`
example : (match v3 with
    | .st s => ((s.st.getReg exRAX).abs.map (·.interval), (s.st.getReg exRBX).abs.map (·.interval))
    | .top => (none, none)) = (some ⟨64, 1, 4, 1⟩, some ⟨64, 1, 11, 1⟩) := by
  decide +kernel

example {init : Nat → Sem.State → Prop} (hinit : ∀ i σ, init i σ → ∃ a, S i = some a ∧ Repr exρ a σ) {i : Nat} {σ : Sem.State}
    (hr : Fix.Reach (problemOf blocks) init (cstepOf blocks) i σ) : ∃ a, S i = some a ∧ Repr exρ a σ :=
  pi_model_sound_partial blocks (closedB_sound closed.1) hinit hr

end EdgeEx

end CweModel.C13
