/-
C13 — "PI-lite", layer 3, theorems: loads and stores through the STACK object are sound.

Concrete side: the byte memory of the reference interpreter (`Base/IRSem.lean`: `readMem`, `writeMem`,
either byte order, addresses modulo `2^64`). Abstract side: `C13/Stack.lean` (one `MemRegion<Data>` per
object; the region operations are the shared model of C05).

Reused from C05 (cited, not redone): `insertAtByteIndex_eq` + `mem_writeCell` ("after `add`, the cells are
the old cells that share no byte with the written range, plus the written value unless it is Top"),
`inv_writeCell`, `markInterval_eq` + `weakenedRange_spec` ("`mark_interval_values_as_top` weakens exactly the
cells that intersect the range"), `inv_weakenedRange`, `mem_markAll`, `inv_markAll`, `get_of_mem`.
Reused from C03: the three merge laws of `IntervalDomain` (`ivDom_laws_partial`) for `DData.merge`.
-/
import CweModel.C05.Props
import CweModel.C13.Stack
import CweModel.C13.EvalProps

set_option linter.unusedSimpArgs false
set_option linter.unusedVariables false
namespace CweModel.C13
open CweModel CweModel.IR CweModel.Itv CweModel.MemRegion

/-! ## A. the byte memory of the reference interpreter -/
namespace SemMem
open Sem

theorem getByte_setByte (σ : State) (a b x : Nat) :
    (σ.setByte a b).getByte x = if x = a then b else σ.getByte x := by
  unfold State.getByte State.setByte State.memDefault
  by_cases h : x = a
  · subst h; simp [List.find?]
  · have hne : (a == x) = false := by simpa using fun e => h e.symm
    simp only [h, if_false, List.find?, hne]
    rw [List.find?_filter]
    have e : (fun a_1 : Nat × Nat => decide ((a_1.fst != a) = true ∧ (a_1.fst == x) = true)) = fun p => p.fst == x := by
      funext p
      by_cases hp : p.1 = x <;> simp [hp, h]
    rw [e]

theorem setByte_fields (σ : State) (a b : Nat) :
    (σ.setByte a b).seed = σ.seed ∧ (σ.setByte a b).regs = σ.regs ∧
    (σ.setByte a b).littleEndian = σ.littleEndian ∧ (σ.setByte a b).ptrBytes = σ.ptrBytes :=
  ⟨rfl, rfl, rfl, rfl⟩

/-- a sequence of byte writes -/
def pokes (A B : Nat → Nat) (is : List Nat) (s : State) : State :=
  is.foldl (fun s i => s.setByte (A i) (B i)) s

theorem pokes_fields (A B : Nat → Nat) (is : List Nat) : ∀ s : State,
    (pokes A B is s).seed = s.seed ∧ (pokes A B is s).regs = s.regs ∧
    (pokes A B is s).littleEndian = s.littleEndian ∧ (pokes A B is s).ptrBytes = s.ptrBytes := by
  induction is with
  | nil => intro s; exact ⟨rfl, rfl, rfl, rfl⟩
  | cons i is ih =>
    intro s
    simp only [pokes, List.foldl_cons]
    exact ih (s.setByte (A i) (B i))

/-- a byte no write touches is unchanged -/
theorem getByte_pokes_other (A B : Nat → Nat) (x : Nat) (is : List Nat) : ∀ s : State,
    (∀ i ∈ is, A i ≠ x) → (pokes A B is s).getByte x = s.getByte x := by
  induction is with
  | nil => intro s _; rfl
  | cons i is ih =>
    intro s h
    simp only [pokes, List.foldl_cons]
    have := ih (s.setByte (A i) (B i)) (fun j hj => h j (List.mem_cons_of_mem _ hj))
    simp only [pokes] at this
    rw [this, getByte_setByte]
    have : x ≠ A i := fun e => h i (List.mem_cons_self) e.symm
    simp [this]

/-- a byte written once (distinct indices hit distinct addresses) holds the written value -/
theorem getByte_pokes_hit (A B : Nat → Nat) (is : List Nat) : ∀ (s : State) (i₀ : Nat),
    i₀ ∈ is → (∀ i ∈ is, ∀ j ∈ is, A i = A j → i = j) → (pokes A B is s).getByte (A i₀) = B i₀ := by
  induction is with
  | nil => intro s i₀ h; cases h
  | cons i is ih =>
    intro s i₀ hi hinj
    simp only [pokes, List.foldl_cons]
    by_cases hm : i₀ ∈ is
    · have := ih (s.setByte (A i) (B i)) i₀ hm
        (fun a ha b hb => hinj a (List.mem_cons_of_mem _ ha) b (List.mem_cons_of_mem _ hb))
      simpa only [pokes] using this
    · have hi0 : i₀ = i := by
        rcases List.mem_cons.mp hi with h | h
        · exact h
        · exact absurd h hm
      subst hi0
      have hother : ∀ j ∈ is, A j ≠ A i₀ := by
        intro j hj e
        have := hinj j (List.mem_cons_of_mem _ hj) i₀ List.mem_cons_self e
        subst this; exact hm hj
      have := getByte_pokes_other A B (A i₀) is (s.setByte (A i₀) (B i₀)) hother
      simp only [pokes] at this
      rw [this, getByte_setByte]; simp

/-- the digits of `val` in base 256, most significant of the low `n` first -/
def digitsDesc (val : Nat) : Nat → List Nat
  | 0 => []
  | n + 1 => (val / 256 ^ n % 256) :: digitsDesc val n

def horner (l : List Nat) (acc : Nat) : Nat := l.foldl (fun acc b => acc * 256 + b) acc

theorem horner_acc (l : List Nat) : ∀ acc, horner l acc = acc * 256 ^ l.length + horner l 0 := by
  induction l with
  | nil => intro acc; simp [horner]
  | cons b l ih =>
    intro acc
    simp only [horner, List.foldl_cons, List.length_cons] at ih ⊢
    rw [ih (acc * 256 + b), ih (0 * 256 + b)]
    rw [Nat.pow_succ]
    simp only [Nat.zero_mul, Nat.zero_add]
    rw [Nat.add_mul, Nat.mul_assoc, Nat.mul_comm 256 (256 ^ l.length)]
    omega

theorem length_digitsDesc (val n : Nat) : (digitsDesc val n).length = n := by
  induction n with
  | zero => rfl
  | succ n ih => simp [digitsDesc, ih]

theorem horner_digitsDesc (val n : Nat) : horner (digitsDesc val n) 0 = val % 256 ^ n := by
  induction n with
  | zero => simp [digitsDesc, horner, Nat.mod_one]
  | succ n ih =>
    simp only [digitsDesc, horner, List.foldl_cons, Nat.zero_mul, Nat.zero_add]
    have := horner_acc (digitsDesc val n) (val / 256 ^ n % 256)
    simp only [horner] at this ih
    rw [this, ih, length_digitsDesc, Nat.mod_pow_succ]
    rw [Nat.mul_comm]; omega

/-- big-endian byte list of a write -/
theorem map_be_eq (val n : Nat) :
    (List.range n).map (fun i => val / 256 ^ (n - 1 - i) % 256) = digitsDesc val n := by
  induction n with
  | zero => rfl
  | succ n ih =>
    rw [List.range_succ_eq_map, List.map_cons, List.map_map, digitsDesc]
    congr 1
    rw [← ih]
    apply List.map_congr_left
    intro i _
    simp only [Function.comp]
    congr 3
    omega

/-- little-endian byte list of a write, reversed -/
theorem map_le_reverse_eq (val n : Nat) :
    ((List.range n).map (fun i => val / 256 ^ i % 256)).reverse = digitsDesc val n := by
  induction n with
  | zero => rfl
  | succ n ih =>
    rw [List.range_succ, List.map_append, List.reverse_append, digitsDesc, ← ih]
    rfl

/-- the bytes `readMem` looks at -/
def bytesAt (σ : State) (a n : Nat) : List Nat := (List.range n).map (fun i => σ.getByte (σ.wrapAddr (a + i)))

theorem readMem_eq (σ : State) (a n : Nat) :
    σ.readMem a n = horner (if σ.littleEndian then (bytesAt σ a n).reverse else bytesAt σ a n) 0 := rfl

theorem writeMem_eq (σ : State) (a n val : Nat) :
    σ.writeMem a n val = pokes (fun i => σ.wrapAddr (a + i))
      (fun i => val / 256 ^ (if σ.littleEndian then i else n - 1 - i) % 256) (List.range n) σ := rfl

theorem writeMem_fields (σ : State) (a n val : Nat) :
    (σ.writeMem a n val).seed = σ.seed ∧ (σ.writeMem a n val).regs = σ.regs ∧
    (σ.writeMem a n val).littleEndian = σ.littleEndian ∧ (σ.writeMem a n val).ptrBytes = σ.ptrBytes := by
  rw [writeMem_eq]; exact pokes_fields _ _ _ _

theorem getReg_writeMem (σ : State) (a n val : Nat) (v : Variable) : (σ.writeMem a n val).getReg v = σ.getReg v := by
  obtain ⟨h1, h2, _, _⟩ := writeMem_fields σ a n val
  unfold State.getReg State.regDefault
  rw [h1, h2]

theorem wrapAddr_writeMem (σ : State) (a n val x : Nat) : (σ.writeMem a n val).wrapAddr x = σ.wrapAddr x := by
  obtain ⟨_, _, _, h4⟩ := writeMem_fields σ a n val
  unfold State.wrapAddr; rw [h4]

theorem readMem_setReg (σ : State) (v : Variable) (x : Bv) (a n : Nat) : (σ.setReg v x).readMem a n = σ.readMem a n := rfl

theorem wrapAddr_inj (σ : State) (h8 : σ.ptrBytes = 8) {a n i j : Nat} (hn : n ≤ 2 ^ 64) (hi : i < n) (hj : j < n)
    (h : σ.wrapAddr (a + i) = σ.wrapAddr (a + j)) : i = j := by
  unfold State.wrapAddr at h
  rw [h8] at h
  have e : (2 : Nat) ^ (8 * 8) = 18446744073709551616 := by decide
  have e' : (2 : Nat) ^ 64 = 18446744073709551616 := by decide
  rw [e] at h; rw [e'] at hn
  omega

/-- **read after write**: reading the `n` bytes just written gives the low `n` bytes of the value, in either
byte order -/
theorem readMem_writeMem_same (σ : State) (h8 : σ.ptrBytes = 8) (a n val : Nat) (hn : n ≤ 2 ^ 64) :
    (σ.writeMem a n val).readMem a n = val % 256 ^ n := by
  obtain ⟨_, _, hle, _⟩ := writeMem_fields σ a n val
  have hbytes : bytesAt (σ.writeMem a n val) a n =
      (List.range n).map (fun i => val / 256 ^ (if σ.littleEndian then i else n - 1 - i) % 256) := by
    unfold bytesAt
    apply List.map_congr_left
    intro i hi
    rw [wrapAddr_writeMem, writeMem_eq]
    have hi' : i < n := List.mem_range.mp hi
    exact getByte_pokes_hit (fun i => σ.wrapAddr (a + i)) _ (List.range n) σ i hi
      (fun p hp q hq e => wrapAddr_inj σ h8 hn (List.mem_range.mp hp) (List.mem_range.mp hq) e)
  rw [readMem_eq, hle, hbytes]
  cases hσ : σ.littleEndian
  · simp only [Bool.false_eq_true, if_false]
    rw [map_be_eq, horner_digitsDesc]
  · simp only [if_true]
    rw [map_le_reverse_eq, horner_digitsDesc]

/-- **frame**: a read of bytes none of which is written is unchanged -/
theorem readMem_writeMem_disjoint (σ : State) (a n val b m : Nat)
    (hdis : ∀ i, i < n → ∀ j, j < m → σ.wrapAddr (a + i) ≠ σ.wrapAddr (b + j)) :
    (σ.writeMem a n val).readMem b m = σ.readMem b m := by
  obtain ⟨_, _, hle, _⟩ := writeMem_fields σ a n val
  have hbytes : bytesAt (σ.writeMem a n val) b m = bytesAt σ b m := by
    unfold bytesAt
    apply List.map_congr_left
    intro j hj
    rw [wrapAddr_writeMem, writeMem_eq]
    exact getByte_pokes_other _ _ _ (List.range n) σ
      (fun i hi => hdis i (List.mem_range.mp hi) j (List.mem_range.mp hj))
  rw [readMem_eq, readMem_eq, hle, hbytes]

end SemMem

/-! ## B. `DataDomain::merge` is an upper bound (on the interval merge laws of C03) -/

/-- the facts about `IntervalDomain::merge` used here (C03 `ivDom_laws_partial`: laws 1 of the merge) -/
theorem itvMerge_facts {n : Nat} (hn1 : 1 ≤ n) (hn8 : n ≤ 8) {a b : IntervalDomain}
    (ha : a.WF ∧ a.interval.w = 8 * n) (hb : b.WF ∧ b.interval.w = 8 * n) :
    ((C03.signedMergeAndWiden a b).WF ∧ (C03.signedMergeAndWiden a b).interval.w = 8 * n) ∧
    (∀ x, a.Mem x → (C03.signedMergeAndWiden a b).Mem x) ∧ (∀ x, b.Mem x → (C03.signedMergeAndWiden a b).Mem x) := by
  have L := C03.ivDom_laws_partial n hn1 hn8
  refine ⟨L.merge_wf ha hb, ?_, ?_⟩
  · intro x hx
    exact (C03.ivDom_γ _ x).mp (L.sound_l ha hb x ((C03.ivDom_γ a x).mpr hx))
  · intro x hx
    exact (C03.ivDom_γ _ x).mp (L.sound_r ha hb x ((C03.ivDom_γ b x).mpr hx))

namespace DData

theorem lookupRel_mem {k : Nat} {l : List (Nat × IntervalDomain)} {o : IntervalDomain} (h : lookupRel k l = some o) :
    (k, o) ∈ l := by
  induction l with
  | nil => cases h
  | cons q rest ih =>
    obtain ⟨k', v'⟩ := q
    simp only [lookupRel] at h
    split at h
    · rename_i hk; cases h; subst hk; exact List.mem_cons_self
    · exact List.mem_cons_of_mem _ (ih h)

theorem lookupRel_none {k : Nat} {l : List (Nat × IntervalDomain)} (h : lookupRel k l = none) : ∀ p ∈ l, p.1 ≠ k := by
  induction l with
  | nil => intro p hp; cases hp
  | cons q rest ih =>
    obtain ⟨k', v'⟩ := q
    simp only [lookupRel] at h
    split at h
    · cases h
    · rename_i hk
      intro p hp
      rcases List.mem_cons.mp hp with rfl | hp
      · exact hk
      · exact ih h p hp

theorem self_mem_insertRel (k : Nat) (v : IntervalDomain) (l : List (Nat × IntervalDomain)) : (k, v) ∈ insertRel k v l := by
  induction l with
  | nil => simp [insertRel]
  | cons q rest ih =>
    obtain ⟨k', v'⟩ := q
    simp only [insertRel]
    split
    · exact List.mem_cons_self
    · split
      · exact List.mem_cons_self
      · exact List.mem_cons_of_mem _ ih

/-- an old entry survives an insertion, or it is the entry `lookupRel` finds (which is replaced) -/
theorem insertRel_old (k : Nat) (v : IntervalDomain) (l : List (Nat × IntervalDomain)) :
    ∀ p ∈ l, p ∈ insertRel k v l ∨ (p.1 = k ∧ lookupRel k l = some p.2) := by
  induction l with
  | nil => intro p hp; cases hp
  | cons q rest ih =>
    obtain ⟨k', v'⟩ := q
    intro p hp
    simp only [insertRel]
    split
    · exact Or.inl (List.mem_cons_of_mem _ hp)
    · split
      · rename_i _ hk
        rcases List.mem_cons.mp hp with rfl | hp
        · exact Or.inr ⟨hk.symm, by simp [lookupRel, hk]⟩
        · exact Or.inl (List.mem_cons_of_mem _ hp)
      · rename_i _ hk
        rcases List.mem_cons.mp hp with rfl | hp
        · exact Or.inl List.mem_cons_self
        · rcases ih p hp with h | ⟨h1, h2⟩
          · exact Or.inl (List.mem_cons_of_mem _ h)
          · refine Or.inr ⟨h1, ?_⟩
            have : ¬ k' = k := fun e => hk e.symm
            simp [lookupRel, this, h2]

/-- all offsets are well-formed `8*n`-bit values -/
def RelWF (n : Nat) (l : List (Nat × IntervalDomain)) : Prop := ∀ i o, (i, o) ∈ l → o.WF ∧ o.interval.w = 8 * n

theorem mergeRelStep_wf {n : Nat} (hn1 : 1 ≤ n) (hn8 : n ≤ 8) {m : List (Nat × IntervalDomain)} (hm : RelWF n m)
    {p : Nat × IntervalDomain} (hp : p.2.WF ∧ p.2.interval.w = 8 * n) : RelWF n (mergeRelStep m p) := by
  intro i o hmem
  unfold mergeRelStep at hmem
  split at hmem
  · rename_i o1 hl
    rcases mem_insertRel hmem with h | h
    · cases h
      exact (itvMerge_facts hn1 hn8 (hm _ _ (lookupRel_mem hl)) hp).1
    · exact hm i o h
  · rcases mem_insertRel hmem with h | h
    · cases h; exact hp
    · exact hm i o h

/-- every member of an old entry is a member of an entry with the same key after a step -/
theorem mergeRelStep_old {n : Nat} (hn1 : 1 ≤ n) (hn8 : n ≤ 8) {m : List (Nat × IntervalDomain)} (hm : RelWF n m)
    {p : Nat × IntervalDomain} (hp : p.2.WF ∧ p.2.interval.w = 8 * n) {i : Nat} {o : IntervalDomain} {x : Int}
    (hmem : (i, o) ∈ m) (hx : o.Mem x) : ∃ o', (i, o') ∈ mergeRelStep m p ∧ o'.Mem x := by
  unfold mergeRelStep
  split
  · rename_i o1 hl
    rcases insertRel_old p.1 (C03.signedMergeAndWiden o1 p.2) m (i, o) hmem with h | ⟨h1, h2⟩
    · exact ⟨o, h, hx⟩
    · simp only at h1 h2
      rw [hl] at h2; cases h2
      subst h1
      exact ⟨_, self_mem_insertRel _ _ _, (itvMerge_facts hn1 hn8 (hm _ _ hmem) hp).2.1 x hx⟩
  · rename_i hl
    rcases insertRel_old p.1 p.2 m (i, o) hmem with h | ⟨h1, h2⟩
    · exact ⟨o, h, hx⟩
    · simp only at h2; rw [hl] at h2; cases h2

/-- every member of the new entry is a member of the entry with its key after the step -/
theorem mergeRelStep_new {n : Nat} (hn1 : 1 ≤ n) (hn8 : n ≤ 8) {m : List (Nat × IntervalDomain)} (hm : RelWF n m)
    {p : Nat × IntervalDomain} (hp : p.2.WF ∧ p.2.interval.w = 8 * n) {x : Int} (hx : p.2.Mem x) :
    ∃ o', (p.1, o') ∈ mergeRelStep m p ∧ o'.Mem x := by
  unfold mergeRelStep
  split
  · rename_i o1 hl
    exact ⟨_, self_mem_insertRel _ _ _, (itvMerge_facts hn1 hn8 (hm _ _ (lookupRel_mem hl)) hp).2.2 x hx⟩
  · exact ⟨p.2, self_mem_insertRel _ _ _, hx⟩

theorem foldl_mergeRelStep {n : Nat} (hn1 : 1 ≤ n) (hn8 : n ≤ 8) (ps : List (Nat × IntervalDomain)) :
    ∀ m : List (Nat × IntervalDomain), RelWF n m → RelWF n ps →
      RelWF n (ps.foldl mergeRelStep m) ∧
      (∀ i o x, (i, o) ∈ m → o.Mem x → ∃ o', (i, o') ∈ ps.foldl mergeRelStep m ∧ o'.Mem x) ∧
      (∀ i o x, (i, o) ∈ ps → o.Mem x → ∃ o', (i, o') ∈ ps.foldl mergeRelStep m ∧ o'.Mem x) := by
  induction ps with
  | nil =>
    intro m hm _
    exact ⟨hm, fun i o x h hx => ⟨o, h, hx⟩, fun i o x h => by cases h⟩
  | cons p ps ih =>
    intro m hm hps
    have hp : p.2.WF ∧ p.2.interval.w = 8 * n := hps p.1 p.2 List.mem_cons_self
    have hps' : RelWF n ps := fun i o h => hps i o (List.mem_cons_of_mem _ h)
    obtain ⟨h1, h2, h3⟩ := ih (mergeRelStep m p) (mergeRelStep_wf hn1 hn8 hm hp) hps'
    simp only [List.foldl_cons]
    refine ⟨h1, ?_, ?_⟩
    · intro i o x hmem hx
      obtain ⟨o1, hm1, hx1⟩ := mergeRelStep_old hn1 hn8 hm hp hmem hx
      exact h2 i o1 x hm1 hx1
    · intro i o x hmem hx
      rcases List.mem_cons.mp hmem with h | h
      · obtain ⟨o1, hm1, hx1⟩ := mergeRelStep_new hn1 hn8 hm hp (x := x) (by rw [← h]; exact hx)
        have : p.1 = i := by rw [← h]
        rw [this] at hm1
        exact h2 i o1 x hm1 hx1
      · exact h3 i o x h hx

theorem wf_rel {d : DData} (hd : d.WF) : RelWF d.size d.rel := fun i o h => hd.2.2 i o h

/-- **C13-data-merge-wf.** -/
theorem merge_wf {a b : DData} (ha : a.WF) (hb : b.WF) (hs : b.size = a.size) (h8 : a.size ≤ 8) : (a.merge b).WF := by
  have hn1 : 1 ≤ a.size := ha.1
  refine ⟨ha.1, ?_, ?_⟩
  · intro x hx
    simp only [merge] at hx
    cases haa : a.abs with
    | none =>
      cases hba : b.abs with
      | none => rw [haa, hba] at hx; cases hx
      | some r =>
        rw [haa, hba] at hx; cases hx
        have := hb.2.1 x hba
        rw [hs] at this; exact this
    | some l =>
      cases hba : b.abs with
      | none => rw [haa, hba] at hx; cases hx; exact ha.2.1 x haa
      | some r =>
        rw [haa, hba] at hx; cases hx
        have hr := hb.2.1 r hba
        rw [hs] at hr
        exact (itvMerge_facts hn1 h8 (ha.2.1 l haa) hr).1
  · have hbrel : RelWF a.size b.rel := by
      intro i o h; have := hb.2.2 i o h; rw [hs] at this; exact this
    exact (foldl_mergeRelStep hn1 h8 b.rel a.rel (wf_rel ha) hbrel).1

/-- **C13-data-merge-left.** every value represented by the first operand is represented by the merge -/
theorem merge_mem_left {ρ : Nat → Int} {a b : DData} (ha : a.WF) (hb : b.WF) (hs : b.size = a.size) (h8 : a.size ≤ 8)
    {v : Bv} (hv : a.Mem ρ v) : (a.merge b).Mem ρ v := by
  have hn1 : 1 ≤ a.size := ha.1
  have hbrel : RelWF a.size b.rel := by
    intro i o h; have := hb.2.2 i o h; rw [hs] at this; exact this
  refine ⟨hv.1, ?_⟩
  rcases hv.2 with h | ⟨l, hl, hm⟩ | ⟨i, o, x, hmem, hx, heq⟩
  · exact Or.inl (by simp [merge, h])
  · refine Or.inr (Or.inl ?_)
    simp only [merge, hl]
    cases hba : b.abs with
    | none => exact ⟨l, rfl, hm⟩
    | some r =>
      have hr := hb.2.1 r hba
      rw [hs] at hr
      exact ⟨_, rfl, (itvMerge_facts hn1 h8 (ha.2.1 l hl) hr).2.1 _ hm⟩
  · obtain ⟨o', h1, h2⟩ := (foldl_mergeRelStep hn1 h8 b.rel a.rel (wf_rel ha) hbrel).2.1 i o x hmem hx
    exact Or.inr (Or.inr ⟨i, o', x, h1, h2, heq⟩)

/-- **C13-data-merge-right.** every value represented by the second operand is represented by the merge -/
theorem merge_mem_right {ρ : Nat → Int} {a b : DData} (ha : a.WF) (hb : b.WF) (hs : b.size = a.size) (h8 : a.size ≤ 8)
    {v : Bv} (hv : b.Mem ρ v) : (a.merge b).Mem ρ v := by
  have hn1 : 1 ≤ a.size := ha.1
  have hbrel : RelWF a.size b.rel := by
    intro i o h; have := hb.2.2 i o h; rw [hs] at this; exact this
  refine ⟨by have := hv.1; rw [hs] at this; exact this, ?_⟩
  rcases hv.2 with h | ⟨r, hr, hm⟩ | ⟨i, o, x, hmem, hx, heq⟩
  · exact Or.inl (by simp [merge, h])
  · refine Or.inr (Or.inl ?_)
    simp only [merge, hr]
    cases haa : a.abs with
    | none => exact ⟨r, rfl, hm⟩
    | some l =>
      have hr' := hb.2.1 r hr
      rw [hs] at hr'
      exact ⟨_, rfl, (itvMerge_facts hn1 h8 (ha.2.1 l haa) hr').2.2 _ hm⟩
  · obtain ⟨o', h1, h2⟩ := (foldl_mergeRelStep hn1 h8 b.rel a.rel (wf_rel ha) hbrel).2.2 i o x hmem hx
    exact Or.inr (Or.inr ⟨i, o', x, h1, h2, heq⟩)

theorem setTop_mem {ρ : Nat → Int} {d : DData} {v : Bv} (hw : v.w = 8 * d.size) : d.setTop.Mem ρ v :=
  ⟨hw, Or.inl rfl⟩

theorem setTop_wf {d : DData} (hd : d.WF) : d.setTop.WF := hd

end DData

instance : LawfulValueDomain DData where
  size_newTop _ := rfl
  isTop_newTop _ := rfl
  topOf_eq _ := rfl
  size_merge _ _ _ := rfl


/-! ## C. one memory object: γρ is kept by a concrete store, loads read members -/

theorem toU_wrap (w : Nat) (y : Int) : toU w (wrap w y) = toU w y := by
  unfold toU wrap pow2
  rw [Int.bmod_emod]

theorem pow2_63 : pow2 63 = 9223372036854775808 := by decide

theorem inRange64_of_bounds {x : Int} (h1 : i64Min ≤ x) (h2 : x ≤ i64Max) : InRange 64 x := by
  unfold i64Min at h1; unfold i64Max at h2
  unfold InRange smin smax
  rw [show (64 - 1 : Nat) = 63 by decide, pow2_63]
  omega

theorem bounds_of_inRange64 {x : Int} (h : InRange 64 x) : i64Min ≤ x ∧ x ≤ i64Max := by
  unfold InRange smin smax at h
  rw [show (64 - 1 : Nat) = 63 by decide, pow2_63] at h
  unfold i64Min i64Max
  omega

theorem i64_of_bounds {x : Int} (h1 : i64Min ≤ x) (h2 : x ≤ i64Max) : i64 x = x :=
  wrap_of_inRange 64 (by decide) (inRange64_of_bounds h1 h2)

/-- the concrete address of a member of a pointer with a unique target -/
theorem addr_of_unique_target {ρ : Nat → Int} {A : DData} {id : Nat} {o : IntervalDomain}
    (hA : A.getIfUniqueTarget = some (id, o)) (hsz : A.size = 8) {a : Bv} (ha : A.Mem ρ a) :
    ∃ x, o.Mem x ∧ a.toNat = cellAddr (ρ id) x := by
  obtain ⟨hr, hab, ht⟩ := DData.getIfUniqueTarget_some hA
  obtain ⟨x, hx, heq⟩ := DData.memI_unique hr hab ht ha.2
  refine ⟨x, hx, ?_⟩
  have hw : a.w = 64 := by rw [ha.1, hsz]
  have h1 : a.toNat = toU a.w a.toInt := (toU_toInt a.v).symm
  rw [h1, heq, toU_wrap, hw]
  rfl

/-- the address `readMem`/`writeMem` use for byte `i` of the cell at offset `o` -/
theorem wrapAddr_cell (σ : Sem.State) (h8 : σ.ptrBytes = 8) (base o : Int) (i : Nat) :
    ((σ.wrapAddr (cellAddr base o + i) : Nat) : Int) = (base + o + (i : Int)) % 18446744073709551616 := by
  unfold Sem.State.wrapAddr cellAddr toU pow2
  rw [h8]
  have hP : ((2 ^ (8 * 8) : Nat)) = 18446744073709551616 := by decide
  rw [hP]
  omega

/-- cells that do not overlap as offset ranges (inside the i64 range) occupy different bytes -/
theorem cells_disjoint (σ : Sem.State) (h8 : σ.ptrBytes = 8) (base : Int) {o c : Int} {s n : Nat}
    (hdis : o + (s : Int) ≤ c ∨ c + (n : Int) ≤ o)
    (hbo : i64Min ≤ o ∧ o + (s : Int) ≤ i64Max) (hbc : i64Min ≤ c ∧ c + (n : Int) ≤ i64Max) :
    ∀ i, i < n → ∀ j, j < s → σ.wrapAddr (cellAddr base c + i) ≠ σ.wrapAddr (cellAddr base o + j) := by
  intro i hi j hj heq
  have h : ((σ.wrapAddr (cellAddr base c + i) : Nat) : Int) = ((σ.wrapAddr (cellAddr base o + j) : Nat) : Int) := by
    rw [heq]
  rw [wrapAddr_cell σ h8, wrapAddr_cell σ h8] at h
  unfold i64Min i64Max at hbo hbc
  omega

theorem ofBytes_toNat (v : Bv) (n : Nat) (hw : v.w = 8 * n) : Bv.ofBytes n (v.toNat % 256 ^ n) = v := by
  apply Bv.ext'
  · exact hw.symm
  · show (BitVec.ofNat (8 * n) (v.toNat % 256 ^ n)).toNat = v.v.toNat
    rw [BitVec.toNat_ofNat]
    have h1 : (256 : Nat) ^ n = 2 ^ (8 * n) := by
      rw [show (256 : Nat) = 2 ^ 8 by decide, ← Nat.pow_mul]
    have h2 : v.v.toNat < 2 ^ (8 * n) := by rw [← hw]; exact v.v.isLt
    rw [h1]
    show v.v.toNat % 2 ^ (8 * n) % 2 ^ (8 * n) = v.v.toNat
    rw [Nat.mod_mod, Nat.mod_eq_of_lt h2]

/-- what the theorems need of a region: the C05 invariant, offsets inside i64, well-formed cells of ≤ 8 bytes -/
structure RegionOK (r : Region DData) : Prop where
  inv : Inv r
  bounded : Bounded r
  cells : ∀ c ∈ r, c.2.WF ∧ c.2.size ≤ 8

theorem regionOK_nil : RegionOK ([] : Region DData) :=
  ⟨inv_nil, fun c h => absurd h List.not_mem_nil, fun c h => absurd h List.not_mem_nil⟩

theorem size_eq (d : DData) : size d = d.size := rfl
theorem isize_eq (d : DData) : isize d = (d.size : Int) := rfl

/-- **C13-store-region (strong update).** `MemRegion::add` of a value `d` at offset `c` describes the memory after
the concrete write of a member of `d` at `base + c`: the written cell reads back the written value, the cells
that are kept share no byte with the written range (C05 `mem_writeCell`) and read as before. -/
theorem regionIn_writeCell {ρ : Nat → Int} {base : Int} {σ : Sem.State} (h8 : σ.ptrBytes = 8)
    {r : Region DData} (hr : RegionOK r) (hin : RegionIn ρ base r σ)
    {d : DData} (hd : d.WF) (hd8 : d.size ≤ 8) {c : Int} (hc : i64Min ≤ c ∧ c + (d.size : Int) ≤ i64Max)
    {v : Bv} (hv : d.Mem ρ v) :
    RegionOK (C05.writeCell r d c) ∧
    RegionIn ρ base (C05.writeCell r d c) (σ.writeMem (cellAddr base c) d.size v.toNat) := by
  have hpos : 0 < size d := hd.1
  have hmem : ∀ x, x ∈ C05.writeCell r d c ↔ (x ∈ r ∧ ¬ Ov x c (c + isize d)) ∨ (isTop d = false ∧ x = (c, d)) := by
    intro x; rw [C05.mem_writeCell hr.inv hpos, C05.Spec.mem_write]
  refine ⟨⟨C05.inv_writeCell hr.inv c hpos, ?_, ?_⟩, ?_⟩
  · intro x hx
    rcases (hmem x).mp hx with ⟨hx, _⟩ | ⟨_, rfl⟩
    · exact hr.bounded x hx
    · exact hc
  · intro x hx
    rcases (hmem x).mp hx with ⟨hx, _⟩ | ⟨_, rfl⟩
    · exact hr.cells x hx
    · exact ⟨hd, hd8⟩
  · intro x hx
    rcases (hmem x).mp hx with ⟨hx, hno⟩ | ⟨_, rfl⟩
    · have hb := hr.bounded x hx
      have hdis : x.1 + (x.2.size : Int) ≤ c ∨ c + (d.size : Int) ≤ x.1 := by
        simp only [Ov, isize_eq] at hno
        omega
      unfold readCell
      rw [SemMem.readMem_writeMem_disjoint σ _ _ _ _ _ (cells_disjoint σ h8 base hdis hb hc)]
      exact hin x hx
    · unfold readCell
      simp only
      have h264 : d.size ≤ 2 ^ 64 := Nat.le_trans hd8 (by decide)
      rw [SemMem.readMem_writeMem_same σ h8 _ _ _ h264]
      rw [ofBytes_toNat v d.size hv.1]
      exact hv

/-- a cell merged with `Top` has the top flag: it describes every value of its size -/
theorem weaken_facts {c x : Int × DData} (h : C05.weaken c = some x) (hc : c.2.WF ∧ c.2.size ≤ 8) :
    x.1 = c.1 ∧ x.2.size = c.2.size ∧ x.2.top = true ∧ x.2.WF := by
  obtain ⟨_, rfl⟩ := weaken_eq_some.mp h
  refine ⟨rfl, rfl, ?_, ?_⟩
  · show (c.2.merge (DData.newTop c.2.size)).top = true
    simp [DData.merge, DData.newTop]
  · show (c.2.merge (DData.newTop c.2.size)).WF
    exact DData.merge_wf hc.1 (DData.newTop_wf' hc.1.1) rfl hc.2

theorem mem_of_top {ρ : Nat → Int} {d : DData} (ht : d.top = true) (v : Bv) (hw : v.w = 8 * d.size) : d.Mem ρ v :=
  ⟨hw, Or.inl ht⟩

theorem readCell_w (σ : Sem.State) (base o : Int) (n : Nat) : (readCell σ base o n).w = 8 * n := rfl

/-- **C13-store-region (weak update).** `mark_interval_values_as_top(s, e, n)` describes the memory after a
concrete write of `n` bytes at any offset in `[s, e]`: the cells intersecting `[s, e + n)` get the top flag
(C05 `weakenedRange_spec`), the others share no byte with the written range. -/
theorem regionIn_weakenedRange {ρ : Nat → Int} {base : Int} {σ : Sem.State} (h8 : σ.ptrBytes = 8)
    {r : Region DData} (hr : RegionOK r) (hin : RegionIn ρ base r σ)
    {s e x : Int} {n : Nat} (hn : 0 < n) (hx : s ≤ x ∧ x ≤ e) (hb : i64Min ≤ s ∧ e + (n : Int) ≤ i64Max) (val : Nat) :
    RegionOK (C05.weakenedRange r s (e + (n : Int))) ∧
    RegionIn ρ base (C05.weakenedRange r s (e + (n : Int))) (σ.writeMem (cellAddr base x) n val) := by
  have hse : s < e + (n : Int) := by omega
  have hspec := (C05.weakenedRange_spec hr.inv hse).2
  have hmem : ∀ y, y ∈ C05.weakenedRange r s (e + (n : Int)) ↔
      (y ∈ r ∧ C05.overlaps y s (e + (n : Int)) = false) ∨ ∃ c ∈ r, C05.overlaps c s (e + (n : Int)) = true ∧ C05.weaken c = some y := by
    intro y; rw [hspec y]; unfold C05.Spec.weakenRange; exact mem_weakenIf
  refine ⟨⟨C05.inv_weakenedRange hr.inv hse, ?_, ?_⟩, ?_⟩
  · intro y hy
    rcases (hmem y).mp hy with ⟨hy, _⟩ | ⟨c, hc, _, hw⟩
    · exact hr.bounded y hy
    · obtain ⟨h1, h2, _, _⟩ := weaken_facts hw (hr.cells c hc)
      have := hr.bounded c hc
      simp only [isize_eq] at this ⊢
      rw [h1, h2]; exact this
  · intro y hy
    rcases (hmem y).mp hy with ⟨hy, _⟩ | ⟨c, hc, _, hw⟩
    · exact hr.cells y hy
    · obtain ⟨_, h2, _, h4⟩ := weaken_facts hw (hr.cells c hc)
      exact ⟨h4, by rw [h2]; exact (hr.cells c hc).2⟩
  · intro y hy
    rcases (hmem y).mp hy with ⟨hy, hno⟩ | ⟨c, hc, _, hw⟩
    · have hbd := hr.bounded y hy
      have hno' : ¬ Ov y s (e + (n : Int)) := by
        intro h; rw [← overlaps_iff] at h; rw [hno] at h; cases h
      have hdis : y.1 + (y.2.size : Int) ≤ x ∨ x + (n : Int) ≤ y.1 := by
        simp only [Ov, isize_eq] at hno'
        omega
      unfold readCell
      have hbx : i64Min ≤ x ∧ x + (n : Int) ≤ i64Max := by omega
      rw [SemMem.readMem_writeMem_disjoint σ _ _ _ _ _ (cells_disjoint σ h8 base hdis hbd hbx)]
      exact hin y hy
    · obtain ⟨_, _, h3, _⟩ := weaken_facts hw (hr.cells c hc)
      exact mem_of_top h3 _ (readCell_w _ _ _ _)

/-- **C13-store-region (unknown offset).** after `mark_all_values_as_top` every remaining cell has the top flag -/
theorem regionIn_markAll {ρ : Nat → Int} {base : Int} {r : Region DData} (hr : RegionOK r) (σ' : Sem.State) :
    RegionOK (markAllValuesAsTop r) ∧ RegionIn ρ base (markAllValuesAsTop r) σ' := by
  have hmem : ∀ y, y ∈ markAllValuesAsTop r ↔ ∃ c ∈ r, C05.weaken c = some y := by
    intro y; rw [C05.mem_markAll]; unfold C05.Spec.weakenAll; rw [List.mem_filterMap]
  refine ⟨⟨C05.inv_markAll hr.inv, ?_, ?_⟩, ?_⟩
  · intro y hy
    obtain ⟨c, hc, hw⟩ := (hmem y).mp hy
    obtain ⟨h1, h2, _, _⟩ := weaken_facts hw (hr.cells c hc)
    have := hr.bounded c hc
    simp only [isize_eq] at this ⊢
    rw [h1, h2]; exact this
  · intro y hy
    obtain ⟨c, hc, hw⟩ := (hmem y).mp hy
    obtain ⟨_, h2, _, h4⟩ := weaken_facts hw (hr.cells c hc)
    exact ⟨h4, by rw [h2]; exact (hr.cells c hc).2⟩
  · intro y hy
    obtain ⟨c, hc, hw⟩ := (hmem y).mp hy
    obtain ⟨_, _, h3, _⟩ := weaken_facts hw (hr.cells c hc)
    exact mem_of_top h3 _ (readCell_w _ _ _ _)

/-- **C13-load-region.** what `MemRegion::get` answers for a slot describes the bytes of the slot: the stored
cell if offset and size match, `Top` otherwise -/
theorem get_mem {ρ : Nat → Int} {base : Int} {σ : Sem.State} {r : Region DData} (hr : RegionOK r)
    (hin : RegionIn ρ base r σ) (c : Int) (n : Nat) (hn : 0 < n) :
    (MemRegion.get r c n).Mem ρ (readCell σ base c n) ∧ (MemRegion.get r c n).WF ∧ (MemRegion.get r c n).size = n ∧
      (n ≤ 8 → (MemRegion.get r c n).size ≤ 8) := by
  unfold MemRegion.get
  cases hg : BMap.get r c with
  | none =>
    exact ⟨mem_of_top rfl _ (readCell_w _ _ _ _), DData.newTop_wf' hn, rfl, fun h => h⟩
  | some elem =>
    simp only
    split
    · rename_i hsz
      have hm := BMap.mem_of_get hg
      have hsz' : elem.size = n := hsz
      have := hin (c, elem) hm
      simp only at this
      rw [hsz'] at this
      exact ⟨this, (hr.cells _ hm).1, hsz', fun h => by rw [hsz']; exact h⟩
    · exact ⟨mem_of_top rfl _ (readCell_w _ _ _ _), DData.newTop_wf' hn, rfl, fun h => h⟩

/-! ## D. the state: `handle_store`, `handle_load` -/

/-- the stack object describes the concrete stack -/
def StackIn (ρ : Nat → Int) (s : MSt) (σ : Sem.State) : Prop :=
  RegionIn ρ (ρ s.stackId) s.stackRegion σ

/-- **γρ of a PI-lite state**: every register's value is represented, and the stack object describes the
concrete memory (other memory objects are not part of this concretisation: nothing is claimed about them) -/
def MSt.In (ρ : Nat → Int) (s : MSt) (σ : Sem.State) : Prop := St.RegsIn ρ s.st σ ∧ StackIn ρ s σ

/-- well-formed state: registers (`St.WF`), and the stack region satisfies `RegionOK` -/
structure MSt.WF (s : MSt) : Prop where
  regs : s.st.WF
  stack : RegionOK s.stackRegion

theorem objGet_objSet_self {objs : Objs} {id : Nat} {o : Obj} (o' : Obj) (h : objGet objs id = some o) :
    objGet (objSet objs id o') id = some o' := by
  unfold objGet objSet at *
  rw [List.find?_map]
  have e : ((fun p : Nat × Obj => decide (p.1 = id)) ∘ fun p : Nat × Obj => if p.1 = id then (id, o') else p)
      = fun p : Nat × Obj => decide (p.1 = id) := by
    funext p
    by_cases hp : p.1 = id <;> simp [Function.comp, hp]
  rw [e]
  cases hf : List.find? (fun p : Nat × Obj => decide (p.1 = id)) objs with
  | none => rw [hf] at h; cases h
  | some q =>
    have hq := List.find?_some hf
    simp only [decide_eq_true_eq] at hq
    simp [hq]

theorem stackRegion_objSet {s : MSt} {o : Obj} (o' : Obj) (h : objGet s.objs s.stackId = some o) :
    ({ s with objs := objSet s.objs s.stackId o' } : MSt).stackRegion = o'.mem := by
  unfold MSt.stackRegion
  simp only
  rw [objGet_objSet_self o' h]

theorem stackRegion_of_get {s : MSt} {o : Obj} (h : objGet s.objs s.stackId = some o) : s.stackRegion = o.mem := by
  unfold MSt.stackRegion; rw [h]

theorem tryToBitvec_some {o : IntervalDomain} {c : Int} (h : o.tryToBitvec = some c) :
    o.interval.start = c ∧ o.interval.stop = c := by
  unfold IntervalDomain.tryToBitvec at h
  split at h
  · rename_i he; cases h; exact ⟨rfl, he.symm⟩
  · cases h

theorem offsetPos_single {o : IntervalDomain} (ho : o.WF ∧ o.interval.w = 64) {c : Int} (h : o.tryToBitvec = some c) :
    offsetPos o = some (some c) := by
  obtain ⟨h1, _⟩ := tryToBitvec_some h
  have hr : InRange 64 c := by rw [← h1, ← ho.2]; exact ho.1.1.2.1
  unfold offsetPos
  rw [h]
  simp only [ho.2, if_true]
  rw [C03.tryToI64_inRange (by decide) (by decide) hr]

theorem offsetPos_none {o : IntervalDomain} (h : o.tryToBitvec = none) : offsetPos o = none := by
  unfold offsetPos; rw [h]

theorem tryToOffsetInterval_eq {o : IntervalDomain} (ho : o.WF ∧ o.interval.w = 64) :
    tryToOffsetInterval o = if o.isTop then none else some (o.interval.start, o.interval.stop) := by
  unfold tryToOffsetInterval
  split
  · rfl
  · have h1 : InRange 64 o.interval.start := by rw [← ho.2]; exact ho.1.1.2.1
    have h2 : InRange 64 o.interval.stop := by rw [← ho.2]; exact ho.1.1.2.2.1
    rw [ho.2, C03.tryToI64_inRange (by decide) (by decide) h1, C03.tryToI64_inRange (by decide) (by decide) h2]

theorem Obj.addTargets_mem (o : Obj) (v : DData) : (o.addTargets v).mem = o.mem := rfl
theorem Obj.addTargets_unique (o : Obj) (v : DData) : (o.addTargets v).unique = o.unique := rfl

/-- **C13-set-value.** `AbstractObject::set_value` on a unique object, for a 64-bit offset value `o` and a concrete
write at an offset `x ∈ γ o`: strong update for a single offset, interval marking for a bounded interval, marking
of all cells otherwise. -/
theorem setValue_sound {ρ : Nat → Int} {base : Int} {σ : Sem.State} (h8 : σ.ptrBytes = 8)
    {ob : Obj} (hu : ob.unique = true) (hr : RegionOK ob.mem) (hin : RegionIn ρ base ob.mem σ)
    {d : DData} (hd : d.WF) (hd8 : d.size ≤ 8) {o : IntervalDomain} (ho : o.WF ∧ o.interval.w = 64)
    {x : Int} (hx : o.Mem x) (hbnd : ∀ y, o.Mem y → y + (d.size : Int) ≤ i64Max) {v : Bv} (hv : d.Mem ρ v) :
    ∃ ob', ob.setValue d o = some ob' ∧ ob'.unique = true ∧ RegionOK ob'.mem ∧
      RegionIn ρ base ob'.mem (σ.writeMem (cellAddr base x) d.size v.toNat) := by
  have hxr : InRange 64 x := by rw [← ho.2]; exact Interval.mem_inRange ho.1.1 hx
  unfold Obj.setValue
  simp only [Obj.addTargets_mem, Obj.addTargets_unique]
  cases htb : o.tryToBitvec with
  | some c =>
    rw [offsetPos_single ho htb]
    obtain ⟨h1, h2⟩ := tryToBitvec_some htb
    have hxc : x = c := by
      have := hx.1; have := hx.2.1; omega
    subst hxc
    simp only [hu, if_true]
    rw [C05.insertAtByteIndex_eq ob.mem x (show 0 < size d from hd.1)]
    obtain ⟨r1, r2⟩ := regionIn_writeCell h8 hr hin hd hd8 (c := x)
      ⟨(bounds_of_inRange64 hxr).1, hbnd x hx⟩ hv
    exact ⟨_, rfl, rfl, r1, r2⟩
  | none =>
    rw [offsetPos_none htb, tryToOffsetInterval_eq ho]
    by_cases ht : o.isTop = true
    · simp only [ht, if_true]
      obtain ⟨r1, r2⟩ := regionIn_markAll (ρ := ρ) (base := base) hr (σ.writeMem (cellAddr base x) d.size v.toNat)
      exact ⟨_, rfl, hu, r1, r2⟩
    · simp only [ht, if_false, Bool.false_eq_true]
      have hstop : o.interval.stop + (d.size : Int) ≤ i64Max := hbnd _ (Interval.stop_mem _ ho.1.1)
      have hstart : i64Min ≤ o.interval.start :=
        (bounds_of_inRange64 (by rw [← ho.2]; exact ho.1.1.2.1)).1
      have hle : o.interval.start ≤ o.interval.stop := ho.1.1.2.2.2.1
      have hpos : 0 < d.size := hd.1
      rw [C05.markInterval_eq ob.mem (s := o.interval.start) (e := o.interval.stop) (n := d.size) (by omega)]
      obtain ⟨r1, r2⟩ := regionIn_weakenedRange h8 hr hin (s := o.interval.start) (e := o.interval.stop) (x := x)
        hpos ⟨hx.1, hx.2.1⟩ ⟨hstart, hstop⟩ v.toNat
      exact ⟨_, rfl, hu, r1, r2⟩

theorem bytes_of_width {x : Bv} {n : Nat} (h : x.w = 8 * n) : x.bytes = n := by
  unfold Bv.bytes; omega

/-- **C13-store-sound.** `handle_store` through a pointer into the (unique) stack object is a sound transfer of
`Def::Store`: if the concrete state is represented (registers and stack) and the reference interpreter executes
the store, the state after it is represented by the abstract state after `handle_store`. Covers the strong
update (`stack + constant`) and the weak updates (`stack + interval`, `stack + unknown`). Hypotheses: well-sized
expressions, a pointer-sized address, a value of at most 8 bytes, no i64 overflow of `offset + size`. -/
theorem handleStore_sound {ρ : Nat → Int} {s : MSt} (hs : s.WF) (hg : s.st.globals ≠ [] → ρ s.st.gid = 0)
    {σ : Sem.State} (h8 : σ.ptrBytes = 8) (hin : s.In ρ σ)
    {a e : Expression} (ha : ExprOk a) (he : ExprOk e) (hab : a.bytesize = 8) (he8 : e.bytesize ≤ 8)
    (hfrag : s.storeFrag a = true)
    (hbnd : ∀ id o, (s.st.eval a).getIfUniqueTarget = some (id, o) → ∀ y, o.Mem y → y + (e.bytesize : Int) ≤ i64Max)
    {σ' : Sem.State} {ev : List Sem.Event} (hex : Sem.execDef σ (.Store a e) = some (σ', ev)) :
    ∃ s', s.handleStore a e = some s' ∧ s'.In ρ σ' ∧ s'.WF := by
  obtain ⟨hA1, hA2, hA3⟩ := St.eval_sound hs.regs hg hin.1 ha
  obtain ⟨hV1, hV2, hV3⟩ := St.eval_sound hs.regs hg hin.1 he
  -- the concrete step
  simp only [Sem.execDef, bind, Option.bind] at hex
  cases hea : Sem.eval σ a with
  | none => rw [hea] at hex; cases hex
  | some addr =>
    rw [hea] at hex
    cases hee : Sem.eval σ e with
    | none => rw [hee] at hex; cases hex
    | some x =>
      rw [hee] at hex
      simp only [Option.some.injEq, Prod.mk.injEq] at hex
      obtain ⟨hσ', _⟩ := hex
      have haddr := hA3 addr hea
      have hx := hV3 x hee
      -- the abstract address
      unfold MSt.storeFrag at hfrag
      cases hut : (s.st.eval a).getIfUniqueTarget with
      | none => rw [hut] at hfrag; cases hfrag
      | some p =>
        obtain ⟨id, o⟩ := p
        rw [hut] at hfrag
        simp only [Bool.and_eq_true, beq_iff_eq] at hfrag
        obtain ⟨hid, hobj⟩ := hfrag
        subst hid
        cases hog : objGet s.objs s.stackId with
        | none => rw [hog] at hobj; cases hobj
        | some ob =>
          rw [hog] at hobj
          simp only at hobj
          obtain ⟨hrel, _, _⟩ := DData.getIfUniqueTarget_some hut
          have ho : o.WF ∧ o.interval.w = 64 := by
            have := hA1.2.2 s.stackId o (by rw [hrel]; exact List.mem_singleton.mpr rfl)
            rw [hA2, hab] at this; exact this
          obtain ⟨x0, hx0, hat⟩ := addr_of_unique_target hut (by rw [hA2, hab]) haddr
          have hreg := stackRegion_of_get hog
          have hrok : RegionOK ob.mem := by rw [← hreg]; exact hs.stack
          have hrin : RegionIn ρ (ρ s.stackId) ob.mem σ := by rw [← hreg]; exact hin.2
          obtain ⟨ob', hset, _, hok', hin'⟩ := setValue_sound h8 hobj hrok hrin hV1 (by rw [hV2]; exact he8) ho hx0
            (by intro y hy; rw [hV2]; exact hbnd _ _ hut y hy) hx
          refine ⟨{ s with objs := objSet s.objs s.stackId ob' }, ?_, ⟨?_, ?_⟩, ⟨hs.regs, ?_⟩⟩
          · unfold MSt.handleStore MSt.writeToAddress MSt.storeValue objsSetValue
            rw [hut]
            simp only [hog, hset, Option.map_some]
          · intro w
            rw [← hσ', SemMem.getReg_writeMem]
            exact hin.1 w
          · unfold StackIn
            rw [stackRegion_objSet ob' hog, ← hσ', hat, bytes_of_width hx.1]
            exact hin'
          · rw [stackRegion_objSet ob' hog]; exact hok'

/-! ### loads -/

/-- a relative target of an address the proved load fragment admits -/
def TargetOk (s : MSt) (p : Nat × IntervalDomain) : Prop :=
  (p.2.WF ∧ p.2.interval.w = 64) ∧ (p.1 = s.stackId ∨ objGet s.objs p.1 = none ∨ offsetPos p.2 = none)

theorem getValueStep_sound {ρ : Nat → Int} {s : MSt} (hs : s.WF) {σ : Sem.State} (hin : StackIn ρ s σ)
    {n : Nat} (hn : 0 < n) (hn8 : n ≤ 8) {m : DData} (hm : m.WF) (hmn : m.size = n)
    {p : Nat × IntervalDomain} (hp : TargetOk s p) :
    ∃ m', getValueStep s.objs n (some m) p = some m' ∧ m'.WF ∧ m'.size = n ∧ (∀ v, m.Mem ρ v → m'.Mem ρ v) ∧
      ∀ x, p.2.Mem x → m'.Mem ρ (readCell σ (ρ p.1) x n) := by
  have htop : ∃ m', some m.setTop = some m' ∧ m'.WF ∧ m'.size = n ∧ (∀ v, m.Mem ρ v → m'.Mem ρ v) ∧
      ∀ x, p.2.Mem x → m'.Mem ρ (readCell σ (ρ p.1) x n) :=
    ⟨m.setTop, rfl, hm, hmn, fun v hv => ⟨hv.1, Or.inl rfl⟩,
      fun x _ => ⟨by rw [readCell_w]; show 8 * n = 8 * m.size; rw [hmn], Or.inl rfl⟩⟩
  unfold getValueStep
  simp only
  cases hog : objGet s.objs p.1 with
  | none => exact htop
  | some ob =>
    simp only
    cases hop : offsetPos p.2 with
    | none => exact htop
    | some oc =>
      -- a constant offset into an existing object: by the fragment it is the stack object
      have hid : p.1 = s.stackId := by
        rcases hp.2 with h | h | h
        · exact h
        · rw [h] at hog; cases hog
        · rw [h] at hop; cases hop
      cases htb : p.2.tryToBitvec with
      | none => rw [offsetPos_none htb] at hop; cases hop
      | some c =>
        rw [offsetPos_single hp.1 htb] at hop
        cases hop
        simp only
        rw [hid] at hog
        have hreg := stackRegion_of_get hog
        obtain ⟨g1, g2, g3, g4⟩ := get_mem (ρ := ρ) (base := ρ s.stackId) (σ := σ) hs.stack hin c n hn
        rw [hreg] at g1 g2 g3 g4
        have hsz : (ob.getValue c n).size = m.size := by rw [hmn]; exact g3
        refine ⟨_, rfl, DData.merge_wf hm g2 hsz (by rw [hmn]; exact hn8), hmn,
          fun v hv => DData.merge_mem_left hm g2 hsz (by rw [hmn]; exact hn8) hv, ?_⟩
        intro x hx
        obtain ⟨h1, h2⟩ := tryToBitvec_some htb
        have hxc : x = c := by have := hx.1; have := hx.2.1; omega
        rw [hxc, hid]
        exact DData.merge_mem_right hm g2 hsz (by rw [hmn]; exact hn8) g1

theorem foldl_getValueStep_sound {ρ : Nat → Int} {s : MSt} (hs : s.WF) {σ : Sem.State} (hin : StackIn ρ s σ)
    {n : Nat} (hn : 0 < n) (hn8 : n ≤ 8) (ps : List (Nat × IntervalDomain)) :
    ∀ m : DData, m.WF → m.size = n → (∀ p ∈ ps, TargetOk s p) →
      ∃ m', ps.foldl (getValueStep s.objs n) (some m) = some m' ∧ m'.WF ∧ m'.size = n ∧
        (∀ v, m.Mem ρ v → m'.Mem ρ v) ∧ ∀ p ∈ ps, ∀ x, p.2.Mem x → m'.Mem ρ (readCell σ (ρ p.1) x n) := by
  induction ps with
  | nil =>
    intro m hm hmn _
    exact ⟨m, rfl, hm, hmn, fun v hv => hv, fun p hp => absurd hp List.not_mem_nil⟩
  | cons p ps ih =>
    intro m hm hmn hps
    obtain ⟨m1, e1, w1, s1, k1, c1⟩ := getValueStep_sound hs hin hn hn8 hm hmn (hps p List.mem_cons_self)
    obtain ⟨m2, e2, w2, s2, k2, c2⟩ := ih m1 w1 s1 (fun q hq => hps q (List.mem_cons_of_mem _ hq))
    refine ⟨m2, by simp only [List.foldl_cons]; rw [e1]; exact e2, w2, s2, fun v hv => k2 v (k1 v hv), ?_⟩
    intro q hq x hx
    rcases List.mem_cons.mp hq with rfl | hq
    · exact k2 _ (c1 x hx)
    · exact c2 q hq x hx

/-- "the loaded value is most likely a pointer to a mutable global variable": as `replace_if_global_pointer` -/
theorem loadedGlobalPointer_sound {ρ : Nat → Int} (s : MSt) (hg : s.st.globals ≠ [] → ρ s.st.gid = 0)
    {d : DData} (hd : d.WF) :
    (s.loadedGlobalPointer d).WF ∧ (s.loadedGlobalPointer d).size = d.size ∧
      ∀ v, d.Mem ρ v → (s.loadedGlobalPointer d).Mem ρ v := by
  unfold MSt.loadedGlobalPointer
  split
  · rename_i c hc
    obtain ⟨hrel, htop, a, ha⟩ := St.tryToOffset_some hc
    split
    · rename_i hcont
      have hne : s.st.globals ≠ [] := by
        intro h; rw [h] at hcont; simp at hcont
      have hρ := hg hne
      rw [ha]
      simp only
      obtain ⟨hawf, haw⟩ := hd.2.1 a ha
      have hbytes : itvBytes (IntervalDomain.single a.interval.w a.interval.start) = d.size :=
        DData.itvBytes_mul8 (by simpa [IntervalDomain.single, IntervalDomain.ofInterval, Interval.single] using haw)
      have hsingle : a.interval.start = a.interval.stop := by
        unfold St.tryToOffset at hc
        simp only [hrel, htop, ha] at hc
        unfold IntervalDomain.tryToBitvec at hc
        by_cases he : a.interval.start = a.interval.stop
        · exact he
        · simp [he] at hc
      have hw0 : 0 < a.interval.w := hawf.1.1
      have hswf : (IntervalDomain.single a.interval.w a.interval.start).WF :=
        C02.ofInterval_wf' (Interval.wf_single _ hw0 _ hawf.1.2.1)
      refine ⟨⟨by simp only [DData.fromTarget]; rw [hbytes]; exact hd.1, ?_, ?_⟩, hbytes, ?_⟩
      · intro x hx; cases hx
      · intro i o hm
        simp only [DData.fromTarget, List.mem_singleton, Prod.mk.injEq] at hm
        obtain ⟨rfl, rfl⟩ := hm
        exact ⟨hswf, by simp only [DData.fromTarget]; rw [hbytes]; exact haw⟩
      · intro v hv
        refine ⟨by simp only [DData.fromTarget]; rw [hbytes]; exact hv.1, ?_⟩
        rcases DData.memI_norel hrel hv.2 with h | ⟨a', ha', hm⟩
        · rw [htop] at h; cases h
        · rw [ha] at ha'; cases ha'
          have hvs : v.toInt = a.interval.start := by
            have := hm.1; have := hm.2.1; omega
          refine Or.inr (Or.inr ⟨s.st.gid, IntervalDomain.single a.interval.w a.interval.start, v.toInt, ?_, ?_, ?_⟩)
          · simp [DData.fromTarget]
          · rw [hvs]; exact (Interval.mem_single _ _ _).mpr rfl
          · rw [hρ, Int.zero_add]
            exact (wrap_toInt (by have := hd.1; have := hv.1; omega) v.v).symm
    · exact ⟨hd, rfl, fun v hv => hv⟩
  · exact ⟨hd, rfl, fun v hv => hv⟩

theorem regsIn_setReg {ρ : Nat → Int} {t : St} {σ : Sem.State} (hσ : St.RegsIn ρ t σ) {x : Variable} {d : DData}
    {v : Bv} (hd : d.Mem ρ v) (hsz : d.size = x.size) : St.RegsIn ρ (t.setReg x d) (σ.setReg x v) := by
  intro w
  rw [St.getReg_setReg t x w _, C10.getReg_setReg]
  split
  · split
    · rename_i ht
      rw [St.isTop_eq ht, hsz] at hd
      exact hd
    · exact hd
  · exact hσ w

theorem wf_setReg {t : St} (ht : t.WF) {x : Variable} {d : DData} (hd : d.WF) (hsz : d.size = x.size) :
    (t.setReg x d).WF := by
  intro w d' hmem
  unfold St.setReg at hmem
  split at hmem
  · simp only [List.mem_filter] at hmem
    exact ht w d' hmem.1
  · simp only [List.mem_cons, List.mem_filter, Prod.mk.injEq] at hmem
    rcases hmem with ⟨rfl, rfl⟩ | hmem
    · exact ⟨hd, hsz⟩
    · exact ht w d' hmem.1

/-- **C13-load-sound.** `handle_load` is a sound transfer of `Def::Load` for every address value without absolute
part whose relative targets are the stack identifier, identifiers without memory object, or have a non-constant
offset: a load from an exact stack slot yields the stored cell (or `Top` if no cell of that offset and size is
stored), every other admitted target sets the top flag, i.e. loads from unknown places give `Top`. -/
theorem handleLoad_sound {ρ : Nat → Int} {s : MSt} (hs : s.WF) (hg : s.st.globals ≠ [] → ρ s.st.gid = 0)
    {σ : Sem.State} (hin : s.In ρ σ) {x : Variable} {a : Expression} (ha : ExprOk a) (hab : a.bytesize = 8)
    (hx0 : 0 < x.size) (hx8 : x.size ≤ 8) (hfrag : s.loadFrag a = true)
    {σ' : Sem.State} {ev : List Sem.Event} (hex : Sem.execDef σ (.Load x a) = some (σ', ev)) :
    ∃ s', s.handleLoad x a = some s' ∧ s'.In ρ σ' ∧ s'.WF := by
  obtain ⟨hA1, hA2, hA3⟩ := St.eval_sound hs.regs hg hin.1 ha
  simp only [Sem.execDef, bind, Option.bind] at hex
  cases hea : Sem.eval σ a with
  | none => rw [hea] at hex; cases hex
  | some addr =>
    rw [hea] at hex
    simp only [Option.some.injEq, Prod.mk.injEq] at hex
    obtain ⟨hσ', _⟩ := hex
    have haddr := hA3 addr hea
    -- the fragment
    unfold MSt.loadFrag at hfrag
    simp only [Bool.and_eq_true, Option.isNone_iff_eq_none, List.all_eq_true, Bool.or_eq_true, beq_iff_eq] at hfrag
    obtain ⟨habs, hall⟩ := hfrag
    have htargets : ∀ p ∈ (s.st.eval a).rel, TargetOk s p := by
      intro p hp
      refine ⟨?_, ?_⟩
      · have := hA1.2.2 p.1 p.2 hp
        rw [hA2, hab] at this; exact this
      · rcases hall p hp with (h | h) | h
        · exact Or.inl h
        · exact Or.inr (Or.inl h)
        · exact Or.inr (Or.inr h)
    obtain ⟨m, em, wm, sm, _, cm⟩ := foldl_getValueStep_sound (ρ := ρ) hs hin.2 hx0 hx8 (s.st.eval a).rel
      (DData.newEmpty x.size) (DData.newEmpty_wf hx0) rfl htargets
    -- the loaded concrete value
    let val := Bv.ofBytes x.size (σ.readMem addr.toNat x.size)
    have hvalw : val.w = 8 * x.size := rfl
    -- value of `AbstractObjectList::get_value`
    let fromObjs : DData := if (s.st.eval a).top then m.setTop else m
    have hfo : objsGetValue s.objs (s.st.eval a) x.size = some fromObjs := by
      unfold objsGetValue; rw [em]; rfl
    have hfo_wf : fromObjs.WF ∧ fromObjs.size = x.size := by
      show (if (s.st.eval a).top then m.setTop else m).WF ∧ (if (s.st.eval a).top then m.setTop else m).size = x.size
      split
      · exact ⟨wm, sm⟩
      · exact ⟨wm, sm⟩
    have hfo_mem : fromObjs.Mem ρ val := by
      show (if (s.st.eval a).top then m.setTop else m).Mem ρ val
      rcases haddr.2 with h | ⟨a', ha', _⟩ | ⟨i, o, y, hmem, hy, heq⟩
      · rw [h]; simp only [if_true]
        exact ⟨by rw [hvalw]; show 8 * x.size = 8 * m.size; rw [sm], Or.inl rfl⟩
      · rw [habs] at ha'; cases ha'
      · have hw : addr.w = 64 := by rw [haddr.1, hA2, hab]
        have hat : addr.toNat = cellAddr (ρ i) y := by
          have h1 : addr.toNat = toU addr.w addr.toInt := (toU_toInt addr.v).symm
          rw [h1, heq, toU_wrap, hw]; rfl
        have := cm (i, o) hmem y hy
        simp only [readCell] at this
        rw [← hat] at this
        split
        · exact ⟨this.1, Or.inl rfl⟩
        · exact this
    -- merge with the (empty) contribution of the runtime memory image
    have hgp : MSt.globalPart (s.st.eval a) x.size = DData.newEmpty x.size := by
      unfold MSt.globalPart; rw [habs]
    have hr1 : ((DData.newEmpty x.size).merge fromObjs).WF :=
      DData.merge_wf (DData.newEmpty_wf hx0) hfo_wf.1 hfo_wf.2 hx8
    have hr1m : ((DData.newEmpty x.size).merge fromObjs).Mem ρ val :=
      DData.merge_mem_right (DData.newEmpty_wf hx0) hfo_wf.1 hfo_wf.2 hx8 hfo_mem
    obtain ⟨g1, g2', g3⟩ := loadedGlobalPointer_sound (ρ := ρ) s hg hr1
    have g2 : (s.loadedGlobalPointer ((DData.newEmpty x.size).merge fromObjs)).size = x.size := g2'
    have hstack' : ∀ t : St, StackIn ρ ({ s with st := t } : MSt) σ' := by
      intro t
      unfold StackIn
      rw [← hσ']
      exact hin.2
    have hwf' : ∀ t : St, t.WF → ({ s with st := t } : MSt).WF := fun t ht => ⟨ht, hs.stack⟩
    unfold MSt.handleLoad MSt.loadValue MSt.loadValueFromAddress
    rw [hfo, hgp]
    simp only
    -- the final value, with the top flag of the address
    let r2 : DData := if (s.st.eval a).top then (s.loadedGlobalPointer ((DData.newEmpty x.size).merge fromObjs)).setTop
      else s.loadedGlobalPointer ((DData.newEmpty x.size).merge fromObjs)
    have hr2 : r2.WF ∧ r2.size = x.size ∧ r2.Mem ρ val := by
      show (if (s.st.eval a).top then _ else _ : DData).WF ∧ (if (s.st.eval a).top then _ else _ : DData).size = x.size ∧
        (if (s.st.eval a).top then _ else _ : DData).Mem ρ val
      split
      · exact ⟨g1, g2, ⟨by rw [hvalw]; show 8 * x.size = 8 * (s.loadedGlobalPointer _).size; rw [g2], Or.inl rfl⟩⟩
      · exact ⟨g1, g2, g3 val hr1m⟩
    show ∃ s', (match (some (if r2.isEmpty then none else some r2) : Option (Option DData)) with
        | none => none
        | some (some d) => some ({ s with st := s.st.setReg x (s.st.replaceIfGlobalPointer d) } : MSt)
        | some none => some ({ s with st := s.st.setReg x (DData.newTop x.size) } : MSt)) = some s' ∧ _
    by_cases hemp : r2.isEmpty = true
    · simp only [hemp, if_true]
      refine ⟨_, rfl, ⟨?_, hstack' _⟩, hwf' _ (wf_setReg hs.regs (DData.newTop_wf' hx0) rfl)⟩
      rw [← hσ']
      exact regsIn_setReg hin.1 ⟨hvalw, Or.inl rfl⟩ rfl
    · simp only [hemp, if_false, Bool.false_eq_true]
      obtain ⟨q1, q2, q3⟩ := St.replaceIfGlobalPointer_sound (ρ := ρ) s.st hg hr2.1
      refine ⟨_, rfl, ⟨?_, hstack' _⟩, hwf' _ (wf_setReg hs.regs q1 (by rw [q2]; exact hr2.2.1))⟩
      rw [← hσ']
      exact regsIn_setReg hin.1 (q3 val hr2.2.2) (by rw [q2]; exact hr2.2.1)

end CweModel.C13
