/-
C13 — "PI-lite", layer 6: the MODEL TRANSFER of the pointer inference on single-function programs, as a fixpoint
problem in the sense of `Base/Fix.lean`.

Values are `AV`: a PI-lite state or `⊤` ("nothing is known", represents every machine state). Every edge transfer and
the join are GUARDED: they apply the proved models (`updateDef`, `specializeConditional`, `updateCallStub`, `MSt.merge`)
when the executable fragment predicates and the executable well-formedness check `goodB` hold, and answer `⊤` otherwise.
So the soundness hypotheses of the meta-theorem hold for EVERY input (`EdgeProps.lean`), and an assignment of real analysis
states that is closed under these transfers without ever meeting `⊤` is a checked instance of the theorem (the driver
checks exactly that on the per-node dump of the real analysis: tag `postfix-checked`).

Nodes: block `i` of the function has the nodes `2*i` (`BlkStart`) and `2*i+1` (`BlkEnd`).
Edges: `BlkStart → BlkEnd` (the `Def`s of the block through `update_def`), `BlkEnd → BlkStart` of a jump target
(`Branch`: identity; `CBranch`: `specialize_conditional` with `true` for the taken edge and `false` for the edge of the
following `Branch`), as `forward_interprocedural_fixpoint` builds them for a function without calls.
-/
import CweModel.Base.Fix
import CweModel.C12.Model
import CweModel.C13.Cond
import CweModel.C13.Join

namespace CweModel.C13
open CweModel CweModel.IR CweModel.Itv CweModel.MemRegion

/-! ## executable invariants -/

def wfItvB (a : IntervalDomain) : Bool :=
  decide a.interval.WF &&
  (match a.upper with | some u => decide (InRange a.interval.w u) | none => true) &&
  (match a.lower with | some l => decide (InRange a.interval.w l) | none => true) &&
  decide (a.delay < 2 ^ 64)

/-- executable `DData.WF` -/
def wfValB (d : DData) : Bool :=
  decide (0 < d.size) &&
  (match d.abs with | some a => wfItvB a && a.interval.w == 8 * d.size | none => true) &&
  d.rel.all fun p => wfItvB p.2 && p.2.interval.w == 8 * d.size

/-- registers: well-formed values of the register's size, at most 8 bytes, distinct keys -/
def regsGoodB (t : St) : Bool :=
  (t.regs.all fun p => wfValB p.2 && p.2.size == p.1.size && decide (p.2.size ≤ 8)) &&
  decide ((t.regs.map (·.1)).Nodup)

/-- executable `RegionOK` -/
def regionGoodB (r : Region DData) : Bool :=
  decide (r.Pairwise fun a b => a.1 < b.1) &&
  decide (r.Pairwise fun a b => a.1 + (a.2.size : Int) ≤ b.1) &&
  (r.all fun c => decide (0 < c.2.size) && !c.2.isTop && wfValB c.2 && decide (c.2.size ≤ 8) &&
    decide (i64Min ≤ c.1) && decide (c.1 + (c.2.size : Int) ≤ i64Max))

/-- the executable invariant of the theorems: good registers, a stack object with a good region, distinct object keys -/
def goodB (s : MSt) : Bool :=
  regsGoodB s.st &&
  (match objGet s.objs s.stackId with | some o => regionGoodB o.mem | none => false) &&
  decide ((s.objs.map (·.1)).Nodup)

/-! ## executable fragment predicates -/

def isCountCastB : CastOpType → Bool
  | .PopCount | .LzCount => true
  | _ => false

/-- executable `CountFits` -/
def countFitsB : Expression → Bool
  | .BinOp _ l r => countFitsB l && countFitsB r
  | .UnOp _ a => countFitsB a
  | .Cast op size a => (!isCountCastB op || decide (((8 * a.bytesize : Nat) : Int) ≤ smax (8 * size))) && countFitsB a
  | .Subpiece _ _ a => countFitsB a
  | _ => true

/-- executable `ExprOk` -/
def exprOkB (e : Expression) : Bool := decide (C12.WellSized e) && countFitsB e

/-- executable `nullFree ∧ DefFrag` -/
def defFragB (s : MSt) (d : Def) : Bool :=
  nullFree s d &&
  match d with
  | .Assign x e => exprOkB e && e.bytesize == x.size
  | .Store a v => exprOkB a && exprOkB v && a.bytesize == 8 && decide (v.bytesize ≤ 8) && s.storeFrag a &&
      s.storeBounded a v.bytesize
  | .Load x a => exprOkB a && a.bytesize == 8 && decide (0 < x.size) && decide (x.size ≤ 8) && s.loadFrag a

/-- executable fragment of the conditional theorem -/
def condFragB (s : MSt) (c : Expression) (b : Bool) : Bool :=
  exprOkB c && condFrag c && leavesOk s c && ptrCmpFree s c b

/-! ## abstract values, canonical form, guarded transfers -/

/-- the value of a node: a state, or `⊤` -/
inductive AV where
  | st (s : MSt)
  | top
deriving Repr, DecidableEq

/-- lexicographic order on character lists (structural, so that it evaluates in the kernel) -/
def charsLe : List Char → List Char → Bool
  | [], _ => true
  | _ :: _, [] => false
  | a :: as, b :: bs => a.toNat < b.toNat || (a.toNat == b.toNat && charsLe as bs)

/-- the order in which register bindings are listed (any relation would do: only "same bindings" is used) -/
def regLe (a b : Variable × DData) : Bool :=
  let x := a.1.name.toList
  let y := b.1.name.toList
  if x == y then a.1.size ≤ b.1.size else charsLe x y

/-- insertion into a list ordered by `regLe` -/
def insertReg (p : Variable × DData) : List (Variable × DData) → List (Variable × DData)
  | [] => [p]
  | q :: rest => if regLe p q then p :: q :: rest else q :: insertReg p rest

/-- insertion sort of the register bindings -/
def canonRegs (l : List (Variable × DData)) : List (Variable × DData) := l.foldr insertReg []

/-- canonical form of a state: the register bindings in a fixed order (the object list, the targets, the cells and the
relative targets of values are already kept in key order by the models) -/
def canon (s : MSt) : MSt := { s with st := { s.st with regs := canonRegs s.st.regs } }

/-- a state as a node value: canonical, and `⊤` if the executable invariant fails -/
def mkAV (s : MSt) : AV := if goodB (canon s) then .st (canon s) else .top

/-- the `Def`s of a block through `update_def`; `none` = no successor state -/
def gDefs : List (Term Def) → MSt → Option AV
  | [], s => some (mkAV s)
  | d :: ds, s =>
    if goodB s && defFragB s d.term then
      match updateDef s d.term with
      | some (some s') => gDefs ds s'
      | some none => none
      | none => some .top
    else some .top

def gBlock (defs : List (Term Def)) : AV → Option AV
  | .top => some .top
  | .st s => gDefs defs s

/-- a conditional edge -/
def gCond (c : Expression) (b : Bool) : AV → Option AV
  | .top => some .top
  | .st s =>
    if goodB s && condFragB s c b then
      match specializeConditional s c b with
      | some s' => some (mkAV s')
      | none => none
    else some .top

/-- an unconditional jump edge -/
def gId : AV → Option AV
  | .top => some .top
  | .st s => some (mkAV s)

/-- `Context::merge(old, new)` with the new value first (the order `Base/Fix.lean` uses): `old.merge(new)` -/
def gJoin : AV → AV → AV
  | .st x, .st b =>
    if goodB x && goodB b && b.stackId == x.stackId && b.st.gid == x.st.gid && b.st.globals == x.st.globals then
      match b.merge x with
      | some m => mkAV m
      | none => .top
    else .top
  | _, _ => .top

/-- `b` claims no more than `m`: same identifiers and global addresses, every register binding of `b` is the value `m`
gives the register or has the top flag, every stack cell of `b` is a cell of `m` or has the top flag. (The real
`MemRegion::merge` is not associative — cells of different sizes that overlap are dropped, and a later merge may bring one
of them back with the top flag — so the stabilised value of a node may be weaker than the merge along a single edge.) -/
def weakerB (m b : MSt) : Bool :=
  b.stackId == m.stackId && b.st.gid == m.st.gid && b.st.globals == m.st.globals &&
  (b.st.regs.all fun p => p.2 == m.st.getReg p.1 || p.2.top) &&
  (b.stackRegion.all fun c => m.stackRegion.contains c || c.2.top)

/-- the join of the fixpoint problem: `gJoin`, except that a node value that already claims no more than the merge is kept -/
def gJoinW (x b : AV) : AV :=
  match gJoin x b, b with
  | .st m, .st b' => if goodB b' && weakerB m b' then .st b' else .st m
  | r, _ => r

/-! ## the fixpoint problem of a function -/

inductive EdgeKind where
  | block (defs : List (Term Def))
  | jump
  | cond (c : Expression) (b : Bool)
deriving Repr, DecidableEq

structure KEdge where
  src : Nat
  dst : Nat
  kind : EdgeKind
deriving Repr, DecidableEq

def EdgeKind.f : EdgeKind → AV → Option AV
  | .block defs => gBlock defs
  | .jump => gId
  | .cond c b => gCond c b

def KEdge.toEdge (k : KEdge) : Fix.Edge AV := { src := k.src, dst := k.dst, f := k.kind.f }

/-- index of the block with the given TID -/
def blockIndex (blocks : List (Term Blk)) (t : Tid) : Option Nat :=
  (blocks.zipIdx.find? fun p => p.1.tid == t).map (·.2)

/-- the jump edges of block `i` (only the shapes `[Branch]`, `[CBranch, Branch]`, `[CBranch]` have edges) -/
def jumpEdges (blocks : List (Term Blk)) (i : Nat) (jmps : List (Term Jmp)) : List KEdge :=
  let tgt (t : Tid) (k : EdgeKind) : List KEdge :=
    match blockIndex blocks t with
    | some j => [{ src := 2 * i + 1, dst := 2 * j, kind := k }]
    | none => []
  match (jmps.map (·.term) : List Jmp) with
  | [Jmp.Branch t] => tgt t .jump
  | [Jmp.CBranch t c, Jmp.Branch t2] => tgt t (.cond c true) ++ tgt t2 (.cond c false)
  | [Jmp.CBranch t c] => tgt t (.cond c true)
  | _ => []

/-- all edges of a function -/
def kEdges (blocks : List (Term Blk)) : List KEdge :=
  blocks.zipIdx.flatMap fun p =>
    { src := 2 * p.2, dst := 2 * p.2 + 1, kind := .block p.1.term.defs } :: jumpEdges blocks p.2 p.1.term.jmps

def problemOf (blocks : List (Term Blk)) : Fix.Problem AV :=
  { edges := (kEdges blocks).map KEdge.toEdge, join := gJoinW }

/-- executable closedness of an assignment given as a list of node values: for every edge whose source has a value and
whose transfer yields a value, the target has a value that absorbs it. `meetsTop`: some transfer or node value is `⊤`. -/
def closedB (blocks : List (Term Blk)) (S : Nat → Option AV) : Bool :=
  (kEdges blocks).all fun k =>
    match S k.src with
    | none => true
    | some a =>
      match k.kind.f a with
      | none => true
      | some x =>
        match S k.dst with
        | none => false
        | some b => gJoinW x b == b

def meetsTopB (blocks : List (Term Blk)) (S : Nat → Option AV) : Bool :=
  (kEdges blocks).any fun k =>
    match S k.src with
    | none => false
    | some a => a == .top || (match k.kind.f a with | some x => x == .top | none => false)

end CweModel.C13
