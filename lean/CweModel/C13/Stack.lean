/-
C13 — "PI-lite", layer 3: the MEMORY part of `pointer_inference::State`.

Mirrors, function by function (64-bit targets: `stack_id.bytesize() = 8`, the `assert_eq!` on the width of
a position argument of `MemRegion::add/get` is represented by `none`),
* `abstract_domain/data/trait_impl.rs`: `AbstractDomain::merge` of `DataDomain<IntervalDomain>`
  (`DData.merge`; the interval merge is the model `C03.signedMergeAndWiden` of `signed_merge_and_widen`),
* `analysis/pointer_inference/object/value_access.rs`: `AbstractObject::get_value`, `set_value`, `merge_value`
  (an object = `is_unique` + `pointer_targets` + `MemRegion<Data>`; `type_` never influences a value and is
  not modelled; the region model is the shared `Base/MemRegion.lean` of C05),
* `analysis/pointer_inference/object_list/mod.rs`: `AbstractObjectList::get_value`, `set_value`,
* `analysis/pointer_inference/state/access_handling.rs`: `store_value`, `write_to_address`, `handle_store`,
  `load_value`, `load_value_from_address`, `handle_load` — for a `RuntimeMemoryImage` WITHOUT segments
  (`RuntimeMemoryImage::empty`): `read` / `is_interval_readable` / `is_address_writeable` answer `Err`.

What the real code does for an address value `A` (this is what the model reproduces):
* store, `A` has a unique target `(id, o)` (one relative target, no absolute part, no top flag):
    - `o` a single value `c`: STRONG update of the object `id` at `c` (`MemRegion::add`: every cell sharing a
      byte with `[c, c+size)` is removed, then the value is inserted unless it is `Top`); for a non-unique
      object the old value at `(c, size)` is merged in first;
    - `o` a bounded interval `[s, e]`: every cell intersecting `[s, e+size)` is merged with `Top`
      (`mark_interval_values_as_top`);  `o` is `Top`/not convertible: every cell is merged with `Top`;
    - no object for `id`: `Err`, nothing changes;
* store, `A` not a unique target: `merge_value` into EVERY relative target (weak update: the old value at
  `(c, size)` merged with the new one / interval marking as above); an `A` without relative targets (absolute
  address, `Top`) changes NO object — the analysis assumes that such a store does not hit a tracked object;
* load: the values of all relative targets with a constant offset are merged; a target without object or with
  a non-constant offset, and the top flag of `A`, set the top flag of the result; an absolute part of `A`
  contributes nothing (empty image: "not a valid global memory address"); an empty result is `Err`, and
  `handle_load` then sets the register to `Top`.

Concretisation of one object (`RegionIn`): a concrete memory is represented if for every stored cell
`(o, d)` the `d.size` bytes at address `base + o` (modulo `2^64`), read in the byte order of the state, are
in `γρ d`; bytes not covered by a cell are unconstrained.  (`MSt.In` = registers + the stack object: `StackProps.lean`.)
-/
import CweModel.Base.MemRegion
import CweModel.C03.Interval
import CweModel.C13.Eval

namespace CweModel.C13
open CweModel CweModel.IR CweModel.Itv CweModel.MemRegion

namespace DData

/-- `BTreeMap::get` on the association list -/
def lookupRel (k : Nat) : List (Nat × IntervalDomain) → Option IntervalDomain
  | [] => none
  | (k', v) :: rest => if k' = k then some v else lookupRel k rest

/-- one iteration of the loop of `merge`:
`entry(id).and_modify(|offset| *offset = offset.merge(offset_other)).or_insert_with(|| offset_other.clone())` -/
def mergeRelStep (m : List (Nat × IntervalDomain)) (p : Nat × IntervalDomain) : List (Nat × IntervalDomain) :=
  match lookupRel p.1 m with
  | some o => insertRel p.1 (C03.signedMergeAndWiden o p.2) m
  | none => insertRel p.1 p.2 m

/-- `<DataDomain<T> as AbstractDomain>::merge` -/
def merge (a b : DData) : DData :=
  { size := a.size
    rel := b.rel.foldl mergeRelStep a.rel
    abs := match a.abs, b.abs with
      | some l, some r => some (C03.signedMergeAndWiden l r)
      | some v, none => some v
      | none, some v => some v
      | none, none => none
    top := a.top || b.top }

/-- `set_contains_top_flag` -/
def setTop (d : DData) : DData := { d with top := true }

end DData

/-- `DataDomain<IntervalDomain>` as the value type of a `MemRegion` -/
instance : ValueDomain DData where
  size d := d.size
  isTop d := d.isTop
  newTop n := DData.newTop n
  topOf d := DData.newTop d.size
  merge := DData.merge

/-- `TryToInterval::try_to_offset_interval` of `IntervalDomain` -/
def tryToOffsetInterval (a : IntervalDomain) : Option (Int × Int) :=
  if a.isTop then none
  else
    match tryToI64 a.interval.w a.interval.start, tryToI64 a.interval.w a.interval.stop with
    | some s, some e => some (s, e)
    | _, _ => none

/-- the position argument of `MemRegion::add/get`: a single offset of pointer width as an `i64`;
the outer `none` = the offset is not a single value, the inner `none` = `assert_eq!` on the width fails -/
def offsetPos (o : IntervalDomain) : Option (Option Int) :=
  match o.tryToBitvec with
  | some c => some (if o.interval.w = 64 then tryToI64 64 c else none)
  | none => none

/-- `BTreeSet<AbstractIdentifier>::insert` on the sorted list of identifier numbers -/
def insertId (k : Nat) : List Nat → List Nat
  | [] => [k]
  | k' :: rest => if k < k' then k :: k' :: rest else if k = k' then k' :: rest else k' :: insertId k rest

/-- `set.extend(ids)` -/
def unionIds (a b : List Nat) : List Nat := b.foldl (fun m k => insertId k m) a

/-- `AbstractObject` as far as values and the reachability of objects are concerned: `is_unique`,
`pointer_targets` (sorted) and `memory`; `type_` never influences a value and is not modelled -/
structure Obj where
  unique : Bool
  targets : List Nat := []
  mem : Region DData
deriving DecidableEq, Repr

namespace Obj

/-- `AbstractObject::get_value` for an offset that passed `offsetPos` -/
def getValue (o : Obj) (pos : Int) (size : Nat) : DData := MemRegion.get o.mem pos size

/-- `inner.pointer_targets.extend(value.referenced_ids().cloned())` -/
def addTargets (o : Obj) (value : DData) : Obj := { o with targets := unionIds o.targets (value.rel.map (·.1)) }

/-- `AbstractObject::set_value`; `none` = panic (size assertion of `insert_at_byte_index`, width assertion of
`add`, `BTreeMap::range` with a reversed range) -/
def setValue (o0 : Obj) (value : DData) (offset : IntervalDomain) : Option Obj :=
  let o := o0.addTargets value
  match offsetPos offset with
  | some none => none
  | some (some c) =>
    if o.unique then (insertAtByteIndex o.mem value c).map fun m => { o with mem := m }
    else
      let merged := (MemRegion.get o.mem c value.size).merge value
      (insertAtByteIndex o.mem merged c).map fun m => { o with mem := m }
  | none =>
    match tryToOffsetInterval offset with
    | some (s, e) => (markIntervalValuesAsTop o.mem s e value.size).map fun m => { o with mem := m }
    | none => some { o with mem := markAllValuesAsTop o.mem }

/-- `AbstractObject::merge_value` -/
def mergeValue (o0 : Obj) (value : DData) (offset : IntervalDomain) : Option Obj :=
  let o := o0.addTargets value
  match offsetPos offset with
  | some none => none
  | some (some c) =>
    let merged := (MemRegion.get o.mem c value.size).merge value
    (insertAtByteIndex o.mem merged c).map fun m => { o with mem := m }
  | none =>
    match tryToOffsetInterval offset with
    | some (s, e) => (markIntervalValuesAsTop o.mem s e value.size).map fun m => { o with mem := m }
    | none => some { o with mem := markAllValuesAsTop o.mem }

/-- `AbstractObject::assume_arbitrary_writes` -/
def assumeArbitraryWrites (o : Obj) (additional : List Nat) : Obj :=
  { o with mem := markAllValuesAsTop o.mem, targets := unionIds o.targets additional }

end Obj

/-- `AbstractObjectList.objects: BTreeMap<AbstractIdentifier, AbstractObject>` (key order) -/
abbrev Objs := List (Nat × Obj)

/-- `objects.get(id)` -/
def objGet (objs : Objs) (id : Nat) : Option Obj := (objs.find? (fun p => p.1 = id)).map (·.2)

/-- `*objects.get_mut(id) = o` -/
def objSet (objs : Objs) (id : Nat) (o : Obj) : Objs := objs.map fun p => if p.1 = id then (id, o) else p

/-- loop body of `AbstractObjectList::get_value`; `none` = panic of `MemRegion::get` -/
def getValueStep (objs : Objs) (size : Nat) (merged : Option DData) (p : Nat × IntervalDomain) : Option DData :=
  match merged with
  | none => none
  | some m =>
    match objGet objs p.1 with
    | some obj =>
      match offsetPos p.2 with
      | some (some c) => some (m.merge (obj.getValue c size))
      | some none => none
      | none => some m.setTop
    | none => some m.setTop

/-- `AbstractObjectList::get_value` -/
def objsGetValue (objs : Objs) (address : DData) (size : Nat) : Option DData :=
  (address.rel.foldl (getValueStep objs size) (some (DData.newEmpty size))).map fun m =>
    if address.top then m.setTop else m

/-- the loop of `AbstractObjectList::set_value` for a pointer that is not a unique target: `merge_value` into
every target, `Err` (the list as modified so far) at the first identifier without object -/
def mergeWriteAll (value : DData) : List (Nat × IntervalDomain) → Objs → Option Objs
  | [], objs => some objs
  | (id, offset) :: rest, objs =>
    match objGet objs id with
    | some obj =>
      match obj.mergeValue value offset with
      | some o' => mergeWriteAll value rest (objSet objs id o')
      | none => none
    | none => some objs

/-- `AbstractObjectList::set_value` (`Err` changes nothing more; `none` = panic) -/
def objsSetValue (objs : Objs) (pointer value : DData) : Option Objs :=
  match pointer.getIfUniqueTarget with
  | some (id, offset) =>
    match objGet objs id with
    | some obj => (obj.setValue value offset).map (objSet objs id)
    | none => some objs
  | none => mergeWriteAll value pointer.rel objs

/-- `pointer_inference::State`: registers + `known_global_addresses` (`St`), `stack_id`, `memory` -/
structure MSt where
  st : St
  stackId : Nat
  objs : Objs
deriving Repr, DecidableEq

namespace MSt

/-- `store_value` (empty runtime memory image: the check of the absolute part only decides between `Ok` and
`Err`, the state is the same) -/
def storeValue (s : MSt) (address value : DData) : Option MSt :=
  (objsSetValue s.objs address value).map fun o => { s with objs := o }

/-- `write_to_address` -/
def writeToAddress (s : MSt) (address : Expression) (value : DData) : Option MSt :=
  s.storeValue (s.st.eval address) value

/-- `handle_store` -/
def handleStore (s : MSt) (address value : Expression) : Option MSt :=
  s.writeToAddress address (s.st.eval value)

/-- the start value of `load_value_from_address`: what the (empty) runtime memory image contributes -/
def globalPart (address : DData) (size : Nat) : DData :=
  match address.abs with
  | some a =>
    if a.tryToBitvec.isSome then DData.newEmpty size          -- `read` → `Err`
    else if (tryToOffsetInterval a).isSome then DData.newEmpty size   -- `is_interval_readable` → `Err`
    else DData.newTop size
  | none => DData.newEmpty size

/-- "The loaded value is most likely a pointer to a mutable global variable" -/
def loadedGlobalPointer (s : MSt) (r : DData) : DData :=
  match St.tryToOffset r with
  | some off =>
    if r.size = 8 ∧ s.st.globals.contains (toU 64 off) then
      match r.abs with
      | some a => DData.fromTarget s.st.gid (IntervalDomain.single a.interval.w a.interval.start)
      | none => r
    else r
  | none => r

/-- `load_value_from_address`; outer `none` = panic, inner `none` = `Err("Could not read from address")` -/
def loadValueFromAddress (s : MSt) (address : DData) (size : Nat) : Option (Option DData) :=
  match objsGetValue s.objs address size with
  | none => none
  | some fromObjs =>
    let r := (globalPart address size).merge fromObjs
    let r := s.loadedGlobalPointer r
    let r := if address.top then r.setTop else r
    some (if r.isEmpty then none else some r)

/-- `load_value` -/
def loadValue (s : MSt) (address : Expression) (size : Nat) : Option (Option DData) :=
  s.loadValueFromAddress (s.st.eval address) size

/-- `handle_load` -/
def handleLoad (s : MSt) (var : Variable) (address : Expression) : Option MSt :=
  match s.loadValue address var.size with
  | none => none
  | some (some d) => some { s with st := s.st.setReg var (s.st.replaceIfGlobalPointer d) }
  | some none => some { s with st := s.st.setReg var (DData.newTop var.size) }

/-- the memory region of the stack object (empty if there is none) -/
def stackRegion (s : MSt) : Region DData :=
  match objGet s.objs s.stackId with
  | some o => o.mem
  | none => []

end MSt


/-! ### the fragment of the soundness theorems (decidable) -/

/-- the address value is a pointer into the stack object only: exactly one relative target, the stack
identifier, no absolute part, no top flag; the stack object exists and is unique (strong updates) -/
def MSt.storeFrag (s : MSt) (address : Expression) : Bool :=
  match (s.st.eval address).getIfUniqueTarget with
  | some (id, _) =>
    id == s.stackId && (match objGet s.objs id with | some o => o.unique | none => false)
  | none => false

/-- no i64 overflow of `offset + size` in `mem_region.rs` for a store of `size` bytes through `address` (the
no-overflow precondition of the C05 model) -/
def MSt.storeBounded (s : MSt) (address : Expression) (size : Nat) : Bool :=
  match (s.st.eval address).getIfUniqueTarget with
  | some (_, o) => decide (o.interval.stop + (size : Int) ≤ i64Max)
  | none => true

/-- the address value has no absolute part and every relative target is the stack identifier, an
identifier without memory object, or has a non-constant offset (the last two only set the top flag) -/
def MSt.loadFrag (s : MSt) (address : Expression) : Bool :=
  let A := s.st.eval address
  A.abs.isNone && A.rel.all fun p => p.1 == s.stackId || (objGet s.objs p.1).isNone || (offsetPos p.2).isNone

/-! ### concretisation of memory -/

/-- the concrete address of offset `o` in the object whose identifier stands for `base` -/
def cellAddr (base o : Int) : Nat := toU 64 (base + o)

/-- the `n` bytes at offset `o`, read as a number in the byte order of the state -/
def readCell (σ : Sem.State) (base o : Int) (n : Nat) : Bv := Bv.ofBytes n (σ.readMem (cellAddr base o) n)

/-- **γρ of a memory object**: every stored cell describes the bytes at its address -/
def RegionIn (ρ : Nat → Int) (base : Int) (r : Region DData) (σ : Sem.State) : Prop :=
  ∀ c ∈ r, c.2.Mem ρ (readCell σ base c.1 c.2.size)

/-- executable `RegionIn` (with the executable γρ of `DData`) -/
def regionInB (ρ : Nat → Int) (base : Int) (r : Region DData) (σ : Sem.State) : Bool :=
  r.all fun c => c.2.contains ρ (readCell σ base c.1 c.2.size)

end CweModel.C13
