/-
C13 — "PI-lite", layer 4, theorems: conditional specialisation is sound on the fragment `condFrag`.

    σ ∈ γρ s  ∧  the condition evaluates to the truth value of the branch in σ
      ⟹  `specialize_conditional` does not answer "unsatisfiable"  ∧  σ ∈ γρ (specialised state)

for conditions that are a 1-byte variable (flag / temporary), one of the six integer comparisons of two leaves
(register or constant, either order, at most 8 bytes), or `BoolNegate`s of these — provided no comparison
compares two pointers into the same unique object (`ptrCmpFree`, decidable on the state).

Reused: C04 `addBound_sound` family (`addSignedLessEqualBound_spec`, …) and `intersect_sound`; the merge laws of
C03 (through `DData.merge_mem_*`); `St.eval_sound` (layer 2).
-/
import CweModel.C13.Cond
import CweModel.C13.StackProps
import CweModel.C04.Props

set_option linter.unusedSimpArgs false
set_option linter.unusedVariables false
namespace CweModel.C13
open CweModel CweModel.IR CweModel.Itv CweModel.MemRegion

/-! ## A. `IntervalDomain`: the bound refinements keep well-formedness, the width and the stride class -/

theorem tryToI64_isSome {w : Nat} (hw64 : w ≤ 64) (x : Int) : ∃ y, tryToI64 w x = some y := by
  unfold tryToI64
  have hlt : toU w x < 2 ^ 64 := by
    have h1 := toU_lt w x
    have h2 := C03.pow_le_64 hw64
    have : ((toU w x : Nat) : Int) < pow2 64 := by omega
    unfold pow2 at this
    exact Int.ofNat_lt.mp this
  simp only [hlt, if_true]
  exact ⟨_, rfl⟩

theorem adjustDiff_isSome (I : Interval) (hw64 : I.w ≤ 64) : ∃ d, I.adjustDiff = some d := by
  unfold Interval.adjustDiff
  obtain ⟨s, hs⟩ := tryToI64_isSome hw64 I.start
  obtain ⟨e, he⟩ := tryToI64_isSome hw64 I.stop
  rw [hs, he]
  exact ⟨_, rfl⟩

theorem adjustEnd_stride (I : Interval) (hw64 : I.w ≤ 64) :
    I.adjustEnd.stride = I.stride ∨ I.adjustEnd.stride = 0 := by
  unfold Interval.adjustEnd
  split
  · exact Or.inl rfl
  · split
    · exact Or.inl rfl
    · obtain ⟨d, hd⟩ := adjustDiff_isSome I hw64
      rw [hd]
      simp only
      split
      · exact Or.inr rfl
      · exact Or.inl rfl

theorem adjustStart_stride (I : Interval) (hw64 : I.w ≤ 64) :
    I.adjustStart.stride = I.stride ∨ I.adjustStart.stride = 0 := by
  unfold Interval.adjustStart
  split
  · exact Or.inl rfl
  · split
    · exact Or.inl rfl
    · obtain ⟨d, hd⟩ := adjustDiff_isSome I hw64
      rw [hd]
      simp only
      split
      · exact Or.inr rfl
      · exact Or.inl rfl

/-- `r` is a refinement result for `a`: well-formed, same width, stride of `a` or 0 -/
def Refines (a r : IntervalDomain) : Prop :=
  r.WF ∧ r.interval.w = a.interval.w ∧ (r.interval.stride = a.interval.stride ∨ r.interval.stride = 0)

theorem Refines.refl {a : IntervalDomain} (ha : a.WF) : Refines a a := ⟨ha, rfl, Or.inl rfl⟩

theorem Refines.trans {a b c : IntervalDomain} (h1 : Refines a b) (h2 : Refines b c) : Refines a c := by
  refine ⟨h2.1, h2.2.1.trans h1.2.1, ?_⟩
  rcases h2.2.2 with h | h
  · rcases h1.2.2 with h' | h'
    · exact Or.inl (h.trans h')
    · exact Or.inr (h.trans h')
  · exact Or.inr h

theorem sle_stride {a r : IntervalDomain} {b : Int} (hw64 : a.interval.w ≤ 64)
    (h : a.addSignedLessEqualBound b = some r) :
    r.interval.stride = a.interval.stride ∨ r.interval.stride = 0 := by
  unfold IntervalDomain.addSignedLessEqualBound at h
  split at h
  · cases h
  · simp only at h
    split at h
    · split at h
      · cases h; exact Or.inl rfl
      · split at h
        · cases h; exact Or.inl rfl
        · split at h
          · cases h; exact adjustEnd_stride _ hw64
          · cases h
    · split at h
      · cases h; exact Or.inl rfl
      · split at h
        · cases h; exact adjustEnd_stride _ hw64
        · cases h

theorem sge_stride {a r : IntervalDomain} {b : Int} (hw64 : a.interval.w ≤ 64)
    (h : a.addSignedGreaterEqualBound b = some r) :
    r.interval.stride = a.interval.stride ∨ r.interval.stride = 0 := by
  unfold IntervalDomain.addSignedGreaterEqualBound at h
  split at h
  · cases h
  · simp only at h
    split at h
    · split at h
      · cases h; exact Or.inl rfl
      · split at h
        · cases h; exact Or.inl rfl
        · split at h
          · cases h; exact adjustStart_stride _ hw64
          · cases h
    · split at h
      · cases h; exact Or.inl rfl
      · split at h
        · cases h; exact adjustStart_stride _ hw64
        · cases h

theorem sle_refines (a : IntervalDomain) (ha : a.WF) (hw64 : a.interval.w ≤ 64) (bound : Int)
    (hb : InRange a.interval.w bound) {x : Int} (hx : a.Mem x) (hxb : x ≤ bound) :
    ∃ r, a.addSignedLessEqualBound bound = some r ∧ Refines a r ∧ r.Mem x := by
  obtain ⟨r, h1, h2, h3, _, _, h4⟩ := C04.addSignedLessEqualBound_spec a ha hw64 bound hb hx hxb
  exact ⟨r, h1, ⟨h2, h3, sle_stride hw64 h1⟩, h4⟩

theorem sge_refines (a : IntervalDomain) (ha : a.WF) (hw64 : a.interval.w ≤ 64) (bound : Int)
    (hb : InRange a.interval.w bound) {x : Int} (hx : a.Mem x) (hxb : x ≥ bound) :
    ∃ r, a.addSignedGreaterEqualBound bound = some r ∧ Refines a r ∧ r.Mem x := by
  obtain ⟨r, h1, h2, h3, _, _, h4⟩ := C04.addSignedGreaterEqualBound_spec a ha hw64 bound hb hx hxb
  exact ⟨r, h1, ⟨h2, h3, sge_stride hw64 h1⟩, h4⟩

theorem ule_refines (a : IntervalDomain) (ha : a.WF) (hw64 : a.interval.w ≤ 64) (bound : Int)
    (hb : InRange a.interval.w bound) {x : Int} (hx : a.Mem x)
    (hxb : toU a.interval.w x ≤ toU a.interval.w bound) :
    ∃ r, a.addUnsignedLessEqualBound bound = some r ∧ Refines a r ∧ r.Mem x := by
  have hw := ha.1.1
  have hxr := Interval.mem_inRange ha.1 hx
  have hp := pow2_pos (a.interval.w - 1)
  have h2 := pow2_eq a.interval.w hw
  have hux := C04.toU_cases hw hxr
  have hub := C04.toU_cases hw hb
  have hxb' : (toU a.interval.w x : Int) ≤ toU a.interval.w bound := Int.ofNat_le.mpr hxb
  have hx1 := hx.1
  have hx2 := hx.2.1
  unfold InRange smin smax at hxr hb
  unfold IntervalDomain.addUnsignedLessEqualBound
  split
  · split
    · exact sle_refines a ha hw64 bound hb hx (by omega)
    · split
      · exact ⟨a, rfl, Refines.refl ha, hx⟩
      · exact sge_refines a ha hw64 0 C04.inRange_zero hx (by omega)
  · obtain ⟨r1, e1, rf1, m1⟩ := sge_refines a ha hw64 0 C04.inRange_zero hx (by omega)
    rw [e1]
    simp only
    obtain ⟨r2, e2, rf2, m2⟩ := sle_refines r1 rf1.1 (by rw [rf1.2.1]; exact hw64) bound (by rw [rf1.2.1]; exact hb) m1
      (by omega)
    exact ⟨r2, e2, rf1.trans rf2, m2⟩

theorem uge_refines (a : IntervalDomain) (ha : a.WF) (hw64 : a.interval.w ≤ 64) (bound : Int)
    (hb : InRange a.interval.w bound) {x : Int} (hx : a.Mem x)
    (hxb : toU a.interval.w x ≥ toU a.interval.w bound) :
    ∃ r, a.addUnsignedGreaterEqualBound bound = some r ∧ Refines a r ∧ r.Mem x := by
  have hw := ha.1.1
  have hxr := Interval.mem_inRange ha.1 hx
  have hp := pow2_pos (a.interval.w - 1)
  have h2 := pow2_eq a.interval.w hw
  have hux := C04.toU_cases hw hxr
  have hub := C04.toU_cases hw hb
  have hxb' : (toU a.interval.w x : Int) ≥ toU a.interval.w bound := Int.ofNat_le.mpr hxb
  have hx1 := hx.1
  have hx2 := hx.2.1
  unfold InRange smin smax at hxr hb
  unfold IntervalDomain.addUnsignedGreaterEqualBound
  split
  · obtain ⟨r1, e1, rf1, m1⟩ := sle_refines a ha hw64 (-1) C04.inRange_neg_one hx (by omega)
    rw [e1]
    simp only
    obtain ⟨r2, e2, rf2, m2⟩ := sge_refines r1 rf1.1 (by rw [rf1.2.1]; exact hw64) bound (by rw [rf1.2.1]; exact hb) m1
      (by omega)
    exact ⟨r2, e2, rf1.trans rf2, m2⟩
  · split
    · exact sle_refines a ha hw64 (-1) C04.inRange_neg_one hx (by omega)
    · split
      · exact ⟨a, rfl, Refines.refl ha, hx⟩
      · exact sge_refines a ha hw64 bound hb hx (by omega)

/-- excluding the start of a non-singleton interval (see C04 `adjustStart_next`): the result is well-formed -/
theorem adjustStart_next_wf {I : Interval} (hI : I.WF) (hw64 : I.w ≤ 64) (hlt : I.start < I.stop) :
    (Interval.adjustStart { I with start := wrap I.w (I.start + 1) }).WF := by
  obtain ⟨hw, hs, he, hse, hz, hd, hl⟩ := hI
  have hst : 0 < I.stride := by
    rcases Nat.eq_zero_or_pos I.stride with h | h
    · have := hz.mp h; omega
    · exact h
  have hn : (0 : Int) < (I.stride : Int) := by omega
  have hsr : InRange I.w (I.start + 1) := by unfold InRange at *; omega
  rw [wrap_of_inRange I.w hw hsr]
  rw [C03.adjustStart_spec (I := { I with start := I.start + 1 }) hw hw64 hsr he (by simp only; omega) hst]
  simp only
  have hrem : (I.stop - (I.start + 1)) % (I.stride : Int) = (I.stride : Int) - 1 := by
    have : I.stop - (I.start + 1) = (I.stop - I.start) - 1 := by omega
    rw [this]; exact C04.emod_pred_of_dvd hn hd
  rw [hrem]
  have hnorm : I.start + 1 + ((I.stride : Int) - 1) = I.start + (I.stride : Int) := by omega
  rw [hnorm]
  have hge : (I.stride : Int) ≤ I.stop - I.start := Int.le_of_dvd (by omega) hd
  refine ⟨hw, ?_, he, ?_, ?_, ?_, ?_⟩
  · show InRange I.w (I.start + (I.stride : Int)); unfold InRange at *; omega
  · show I.start + (I.stride : Int) ≤ I.stop; omega
  · show (if I.start + (I.stride : Int) = I.stop then 0 else I.stride) = 0 ↔ I.start + (I.stride : Int) = I.stop
    by_cases h : I.start + (I.stride : Int) = I.stop <;> simp [h]; omega
  · show (((if I.start + (I.stride : Int) = I.stop then 0 else I.stride : Nat)) : Int) ∣ I.stop - (I.start + (I.stride : Int))
    by_cases h : I.start + (I.stride : Int) = I.stop
    · have : I.stop - (I.start + (I.stride : Int)) = 0 := by omega
      rw [if_pos h, this]; exact Int.dvd_zero _
    · simp only [h, if_false]
      have : I.stop - (I.start + (I.stride : Int)) = (I.stop - I.start) - (I.stride : Int) := by omega
      rw [this]; exact Int.dvd_sub hd (Int.dvd_refl _)
  · show (if I.start + (I.stride : Int) = I.stop then 0 else I.stride) < 2 ^ 64
    by_cases h : I.start + (I.stride : Int) = I.stop <;> simp [h]; omega

/-- excluding the end of a non-singleton interval (see C04 `adjustEnd_prev`): the result is well-formed -/
theorem adjustEnd_prev_wf {I : Interval} (hI : I.WF) (hw64 : I.w ≤ 64) (hlt : I.start < I.stop) :
    (Interval.adjustEnd { I with stop := wrap I.w (I.stop - 1) }).WF := by
  obtain ⟨hw, hs, he, hse, hz, hd, hl⟩ := hI
  have hst : 0 < I.stride := by
    rcases Nat.eq_zero_or_pos I.stride with h | h
    · have := hz.mp h; omega
    · exact h
  have hn : (0 : Int) < (I.stride : Int) := by omega
  have her : InRange I.w (I.stop - 1) := by unfold InRange at *; omega
  rw [wrap_of_inRange I.w hw her]
  rw [C03.adjustEnd_spec (I := { I with stop := I.stop - 1 }) hw hw64 hs her (by simp only; omega) hst]
  simp only
  have hrem : (I.stop - 1 - I.start) % (I.stride : Int) = (I.stride : Int) - 1 := by
    have : I.stop - 1 - I.start = (I.stop - I.start) - 1 := by omega
    rw [this]; exact C04.emod_pred_of_dvd hn hd
  rw [hrem]
  have hnorm : I.stop - 1 - ((I.stride : Int) - 1) = I.stop - (I.stride : Int) := by omega
  rw [hnorm]
  have hge : (I.stride : Int) ≤ I.stop - I.start := Int.le_of_dvd (by omega) hd
  refine ⟨hw, hs, ?_, ?_, ?_, ?_, ?_⟩
  · show InRange I.w (I.stop - (I.stride : Int)); unfold InRange at *; omega
  · show I.start ≤ I.stop - (I.stride : Int); omega
  · show (if I.start = I.stop - (I.stride : Int) then 0 else I.stride) = 0 ↔ I.start = I.stop - (I.stride : Int)
    by_cases h : I.start = I.stop - (I.stride : Int) <;> simp [h]; omega
  · show (((if I.start = I.stop - (I.stride : Int) then 0 else I.stride : Nat)) : Int) ∣ I.stop - (I.stride : Int) - I.start
    by_cases h : I.start = I.stop - (I.stride : Int)
    · have : I.stop - (I.stride : Int) - I.start = 0 := by omega
      rw [if_pos h, this]; exact Int.dvd_zero _
    · simp only [h, if_false]
      have : I.stop - (I.stride : Int) - I.start = (I.stop - I.start) - (I.stride : Int) := by omega
      rw [this]; exact Int.dvd_sub hd (Int.dvd_refl _)
  · show (if I.start = I.stop - (I.stride : Int) then 0 else I.stride) < 2 ^ 64
    by_cases h : I.start = I.stop - (I.stride : Int) <;> simp [h]; omega

theorem ne_refines (a : IntervalDomain) (ha : a.WF) (hw64 : a.interval.w ≤ 64) (bound : Int)
    (hb : InRange a.interval.w bound) {x : Int} (hx : a.Mem x) (hxb : x ≠ bound) :
    ∃ r, a.addNotEqualBound bound = some r ∧ Refines a r ∧ r.Mem x := by
  have hw := ha.1.1
  have hs := ha.1.2.1
  have he := ha.1.2.2.1
  have hx1 := hx.1
  have hx2 := hx.2.1
  unfold IntervalDomain.addNotEqualBound
  simp only
  split
  · omega
  · split
    · have hr : InRange a.interval.w (bound + 1) := by unfold InRange at *; omega
      rw [wrap_of_inRange _ hw hr]
      exact sge_refines a ha hw64 (bound + 1) hr hx (by omega)
    · split
      · have hlt : a.interval.start < a.interval.stop := by omega
        refine ⟨_, rfl, ⟨⟨adjustStart_next_wf ha.1 hw64 hlt, ?_, ?_, ha.2.2.2⟩, ?_, ?_⟩,
          C04.adjustStart_next ha.1 hw64 hlt hx (by omega)⟩
        · intro u hu; show InRange (Interval.adjustStart _).w u; rw [C03.adjustStart_w]; exact ha.2.1 u hu
        · intro l hl; show InRange (Interval.adjustStart _).w l; rw [C03.adjustStart_w]; exact ha.2.2.1 l hl
        · show (Interval.adjustStart _).w = a.interval.w; rw [C03.adjustStart_w]
        · exact adjustStart_stride _ hw64
      · split
        · have hr : InRange a.interval.w (bound - 1) := by unfold InRange at *; omega
          rw [wrap_of_inRange _ hw hr]
          exact sle_refines a ha hw64 (bound - 1) hr hx (by omega)
        · split
          · have hlt : a.interval.start < a.interval.stop := by omega
            refine ⟨_, rfl, ⟨⟨adjustEnd_prev_wf ha.1 hw64 hlt, ?_, ?_, ha.2.2.2⟩, ?_, ?_⟩,
              C04.adjustEnd_prev ha.1 hw64 hlt hx (by omega)⟩
            · intro u hu; show InRange (Interval.adjustEnd _).w u; rw [C03.adjustEnd_w]; exact ha.2.1 u hu
            · intro l hl; show InRange (Interval.adjustEnd _).w l; rw [C03.adjustEnd_w]; exact ha.2.2.1 l hl
            · show (Interval.adjustEnd _).w = a.interval.w; rw [C03.adjustEnd_w]
            · exact adjustEnd_stride _ hw64
          · exact ⟨a, rfl, Refines.refl ha, hx⟩

/-- **C13-itv-bound-refines.** all five refinements: the result exists, is well-formed, keeps the width, has the
stride of the operand or 0, and keeps the member that satisfies the comparison (C04 `addBound_sound` + shape) -/
theorem addBound_refines (k : BoundKind) (a : IntervalDomain) (ha : a.WF) (hw64 : a.interval.w ≤ 64)
    (bound : Int) (hb : InRange a.interval.w bound) {x : Int} (hx : a.Mem x)
    (hR : k.holds a.interval.w x bound) : ∃ r, a.addBound k bound = some r ∧ Refines a r ∧ r.Mem x := by
  cases k with
  | sle => exact sle_refines a ha hw64 bound hb hx hR
  | sge => exact sge_refines a ha hw64 bound hb hx hR
  | ule => exact ule_refines a ha hw64 bound hb hx hR
  | uge => exact uge_refines a ha hw64 bound hb hx hR
  | ne => exact ne_refines a ha hw64 bound hb hx hR


/-! ### widths are kept unconditionally -/

theorem sle_w {a r : IntervalDomain} {b : Int} (h : a.addSignedLessEqualBound b = some r) : r.interval.w = a.interval.w := by
  unfold IntervalDomain.addSignedLessEqualBound at h
  split at h
  · cases h
  · simp only at h
    split at h
    · split at h
      · cases h; rfl
      · split at h
        · cases h; rfl
        · split at h
          · cases h; exact C03.adjustEnd_w _
          · cases h
    · split at h
      · cases h; rfl
      · split at h
        · cases h; exact C03.adjustEnd_w _
        · cases h

theorem sge_w {a r : IntervalDomain} {b : Int} (h : a.addSignedGreaterEqualBound b = some r) : r.interval.w = a.interval.w := by
  unfold IntervalDomain.addSignedGreaterEqualBound at h
  split at h
  · cases h
  · simp only at h
    split at h
    · split at h
      · cases h; rfl
      · split at h
        · cases h; rfl
        · split at h
          · cases h; exact C03.adjustStart_w _
          · cases h
    · split at h
      · cases h; rfl
      · split at h
        · cases h; exact C03.adjustStart_w _
        · cases h

theorem ule_w {a r : IntervalDomain} {b : Int} (h : a.addUnsignedLessEqualBound b = some r) : r.interval.w = a.interval.w := by
  unfold IntervalDomain.addUnsignedLessEqualBound at h
  split at h
  · split at h
    · exact sle_w h
    · split at h
      · cases h; rfl
      · exact sge_w h
  · split at h
    · rename_i a1 h1
      exact (sle_w h).trans (sge_w h1)
    · cases h

theorem uge_w {a r : IntervalDomain} {b : Int} (h : a.addUnsignedGreaterEqualBound b = some r) : r.interval.w = a.interval.w := by
  unfold IntervalDomain.addUnsignedGreaterEqualBound at h
  split at h
  · split at h
    · rename_i a1 h1
      exact (sge_w h).trans (sle_w h1)
    · cases h
  · split at h
    · exact sle_w h
    · split at h
      · cases h; rfl
      · exact sge_w h

theorem ne_w {a r : IntervalDomain} {b : Int} (h : a.addNotEqualBound b = some r) : r.interval.w = a.interval.w := by
  unfold IntervalDomain.addNotEqualBound at h
  simp only at h
  split at h
  · cases h
  · split at h
    · exact sge_w h
    · split at h
      · cases h; exact C03.adjustStart_w _
      · split at h
        · exact sle_w h
        · split at h
          · cases h; exact C03.adjustEnd_w _
          · cases h; rfl

theorem addBound_w {k : BoundKind} {a r : IntervalDomain} {b : Int} (h : a.addBound k b = some r) :
    r.interval.w = a.interval.w := by
  cases k with
  | sle => exact sle_w h
  | sge => exact sge_w h
  | ule => exact ule_w h
  | uge => exact uge_w h
  | ne => exact ne_w h

theorem adjustToStrideAndRemainder_w {I r : Interval} {st rm : Nat} (h : I.adjustToStrideAndRemainder st rm = some r) :
    r.w = I.w := by
  unfold Interval.adjustToStrideAndRemainder at h
  split at h
  · cases h; rfl
  · simp only at h
    split at h
    · cases h
    · cases h; rfl

theorem signedIntersect_w {I J r : Interval} (h : I.signedIntersect J = some r) : r.w = I.w := by
  unfold Interval.signedIntersect at h
  simp only at h
  repeat' split at h
  all_goals
    first
    | (cases h; done)
    | (cases h; rfl)
    | (have e := adjustToStrideAndRemainder_w h; exact e)

theorem intersect_w {a b r : IntervalDomain} (h : a.intersect b = some r) : r.interval.w = a.interval.w :=
  signedIntersect_w (C04.intersect_interval a b r h)

/-- the absolute part has the width of the value -/
def AbsW (d : DData) : Prop := ∀ a, d.abs = some a → a.interval.w = 8 * d.size

theorem absW_of_wf {d : DData} (h : d.WF) : AbsW d := fun a ha => (h.2.1 a ha).2

theorem absW_merge_ofItv {base : DData} {b : IntervalDomain} (hb : AbsW base) (hw : b.interval.w = 8 * base.size) :
    AbsW (base.merge (DData.ofItv b)) := by
  intro a ha
  simp only [DData.merge, DData.ofItv] at ha
  show a.interval.w = 8 * base.size
  cases hba : base.abs with
  | none => rw [hba] at ha; cases ha; exact hw
  | some l =>
    rw [hba] at ha; cases ha
    rw [C03.signedMergeAndWiden_w]; exact hb l hba

/-! ## B. `DataDomain`: `without_widening_hints`, the bound refinements, `intersect` -/

theorem itvWithoutHints_interval (a : IntervalDomain) : (itvWithoutHints a).interval = a.interval := rfl

theorem itvWithoutHints_wf {a : IntervalDomain} (ha : a.WF) : (itvWithoutHints a).WF := by
  unfold IntervalDomain.WF
  refine ⟨ha.1, ?_, ?_, ?_⟩
  · intro u h; simp [itvWithoutHints] at h
  · intro l h; simp [itvWithoutHints] at h
  · show (0 : Nat) < 2 ^ 64; decide

theorem itvWithoutHints_mem (a : IntervalDomain) (x : Int) : (itvWithoutHints a).Mem x ↔ a.Mem x := Iff.rfl

namespace DData

theorem withoutHints_size (d : DData) : d.withoutHints.size = d.size := rfl
theorem withoutHints_top (d : DData) : d.withoutHints.top = d.top := rfl

theorem withoutHints_wf {d : DData} (hd : d.WF) : d.withoutHints.WF := by
  refine ⟨hd.1, ?_, ?_⟩
  · intro a ha
    simp only [withoutHints, Option.map_eq_some_iff] at ha
    obtain ⟨a0, h0, rfl⟩ := ha
    exact ⟨itvWithoutHints_wf (hd.2.1 a0 h0).1, (hd.2.1 a0 h0).2⟩
  · intro i o hm
    simp only [withoutHints, List.mem_map] at hm
    obtain ⟨p, hp, he⟩ := hm
    cases he
    exact ⟨itvWithoutHints_wf (hd.2.2 p.1 p.2 hp).1, (hd.2.2 p.1 p.2 hp).2⟩

theorem withoutHints_mem {ρ : Nat → Int} {d : DData} {v : Bv} (hv : d.Mem ρ v) : d.withoutHints.Mem ρ v := by
  refine ⟨hv.1, ?_⟩
  rcases hv.2 with h | ⟨a, ha, hm⟩ | ⟨i, o, x, hmem, hx, heq⟩
  · exact Or.inl h
  · exact Or.inr (Or.inl ⟨itvWithoutHints a, by simp [withoutHints, ha], hm⟩)
  · refine Or.inr (Or.inr ⟨i, itvWithoutHints o, x, ?_, hx, heq⟩)
    simp only [withoutHints, List.mem_map]
    exact ⟨(i, o), hmem, rfl⟩

theorem lookupRel_of_mem_nodup {l : List (Nat × IntervalDomain)} (hn : (l.map (·.1)).Nodup) {i : Nat} {o : IntervalDomain}
    (h : (i, o) ∈ l) : lookupRel i l = some o := by
  induction l with
  | nil => cases h
  | cons q rest ih =>
    obtain ⟨k', v'⟩ := q
    simp only [List.map_cons, List.nodup_cons, List.mem_map, not_exists, not_and] at hn
    simp only [lookupRel]
    rcases List.mem_cons.mp h with he | hr
    · cases he; simp
    · have hne : ¬ k' = i := by
        intro e
        exact hn.1 (i, o) hr (by simp [e])
      simp only [hne, if_false]
      exact ih hn.2 hr

theorem lookupRel_map (f : IntervalDomain → IntervalDomain) (i : Nat) (l : List (Nat × IntervalDomain)) :
    lookupRel i (l.map fun p => (p.1, f p.2)) = (lookupRel i l).map f := by
  induction l with
  | nil => rfl
  | cons q rest ih =>
    obtain ⟨k', v'⟩ := q
    simp only [List.map_cons, lookupRel]
    split
    · rfl
    · exact ih

theorem intersectRel_nil (l : List (Nat × IntervalDomain)) : intersectRel l [] = [] := by
  unfold intersectRel
  induction l with
  | nil => rfl
  | cons q rest ih => simp [List.filterMap_cons, lookupRel, ih]

theorem mem_intersectRel {l r : List (Nat × IntervalDomain)} {i : Nat} {o o' z : IntervalDomain}
    (hm : (i, o) ∈ l) (hl : lookupRel i r = some o') (hz : o.intersect o' = some z) : (i, z) ∈ intersectRel l r := by
  unfold intersectRel
  rw [List.mem_filterMap]
  exact ⟨(i, o), hm, by simp [hl, hz]⟩

/-- `Data` of a single `w`-bit value -/
theorem ofBvI_wf {w : Nat} {n : Nat} (hn : 0 < n) (hw : w = 8 * n) {c : Int} (hc : InRange w c) :
    (ofBvI w c).WF ∧ (ofBvI w c).size = n := by
  unfold ofBvI
  exact ofItv_wf (C02.ofInterval_wf' (Interval.wf_single w (by omega) c hc)) hn hw

theorem ofBvI_mem {ρ : Nat → Int} {n : Nat} {v : Bv} (hw : v.w = 8 * n) :
    (ofBvI v.w v.toInt).Mem ρ v := by
  refine ⟨?_, Or.inr (Or.inl ⟨_, rfl, (Interval.mem_single _ _ _).mpr rfl⟩)⟩
  simp only [ofBvI, ofItv]
  rw [itvBytes_mul8 (k := n) hw]; exact hw

theorem tryToBv_some {d : DData} {w : Nat} {c : Int} (h : d.tryToBv = some (w, c)) :
    d.rel = [] ∧ d.top = false ∧ ∃ a, d.abs = some a ∧ a.interval.start = c ∧ a.interval.stop = c ∧ a.interval.w = w := by
  unfold tryToBv at h
  split at h
  · cases h
  · rename_i hc
    simp only [Bool.or_eq_true, Bool.not_eq_true', List.isEmpty_eq_false_iff, not_or] at hc
    have h1 : d.rel = [] := by
      cases hr : d.rel with
      | nil => rfl
      | cons _ _ => exact absurd (by rw [hr]; simp) hc.1
    have h2 : d.top = false := by simpa using hc.2
    cases ha : d.abs with
    | none => simp [ha] at h
    | some a =>
      rw [ha] at h
      simp only [Option.map_eq_some_iff, Prod.mk.injEq] at h
      obtain ⟨x, hx, hw, rfl⟩ := h
      obtain ⟨e1, e2⟩ := tryToBitvec_some hx
      exact ⟨h1, h2, a, rfl, e1, e2, hw⟩

/-- a member of a value that is a single constant is that constant -/
theorem mem_of_tryToBv {ρ : Nat → Int} {d : DData} {w : Nat} {c : Int} (h : d.tryToBv = some (w, c)) {v : Bv}
    (hv : d.Mem ρ v) : v.toInt = c := by
  obtain ⟨h1, h2, a, ha, e1, e2, _⟩ := tryToBv_some h
  rcases memI_norel h1 hv.2 with ht | ⟨a', ha', hm⟩
  · rw [h2] at ht; cases ht
  · rw [ha] at ha'; cases ha'
    have := hm.1; have := hm.2.1; omega

theorem isEmpty_false_of_top {d : DData} (h : d.top = true) : d.isEmpty = false := by
  simp [isEmpty, h]

theorem fieldwise_abs_w {cur res : DData} (hcur : cur.WF) {a : IntervalDomain}
    (ha : (match cur.abs, res.abs with | some x, some y => x.intersect y | _, _ => none) = some a) :
    a.interval.w = 8 * cur.size := by
  cases hca : cur.abs with
  | none => rw [hca] at ha; cases ha
  | some x =>
    cases hra : res.abs with
    | none => rw [hca, hra] at ha; cases ha
    | some y =>
      rw [hca, hra] at ha
      rw [intersect_w ha]; exact (hcur.2.1 x hca).2

/-- **intersect, no relative targets on either side.** -/
theorem intersect_abs_sound {ρ : Nat → Int} {cur res : DData} (hcur : cur.WF) (hc : cur.rel = []) (hr : res.rel = [])
    (hs : res.size = cur.size) (hrw : AbsW res) {v : Bv} (hvc : cur.Mem ρ v) (hvr : res.Mem ρ v)
    (hAA : ∀ a b, cur.abs = some a → res.abs = some b → a.Mem v.toInt → b.Mem v.toInt →
      b.WF ∧ b.interval.w = a.interval.w ∧ Nat.lcm a.interval.stride b.interval.stride < 2 ^ 64) :
    ∃ r, cur.intersect res = some r ∧ r.Mem ρ v ∧ r.size = cur.size ∧ AbsW r := by
  unfold intersect
  simp only [hc, hr, List.isEmpty_nil, Bool.not_true, Bool.false_eq_true, if_false]
  cases hct : cur.top <;> cases hrt : res.top
  · -- neither has the top flag: both memberships are through the absolute parts
    simp only [Bool.and_self]
    rcases memI_norel hc hvc.2 with ht | ⟨a, ha, hma⟩
    · rw [hct] at ht; cases ht
    · rcases memI_norel hr hvr.2 with ht | ⟨b, hb, hmb⟩
      · rw [hrt] at ht; cases ht
      · obtain ⟨hbw, hbwid, _⟩ := hAA a b ha hb hma hmb
        obtain ⟨z, hz, hzm⟩ := C04.intersect_sound a b (hcur.2.1 a ha).1 hbw hbwid hma hmb
        rw [if_neg (by simp [isEmpty, ha, hb, hz])]
        refine ⟨_, rfl, ⟨hvc.1, Or.inr (Or.inl ⟨z, ?_, hzm⟩)⟩, rfl, fun a' ha' => fieldwise_abs_w hcur ha'⟩
        simp only [ha, hb, hz]
  · simp only
    rw [if_neg (by rw [isEmpty_false_of_mem hvc]; simp)]
    exact ⟨cur, rfl, hvc, rfl, absW_of_wf hcur⟩
  · simp only
    rw [if_neg (by rw [isEmpty_false_of_mem hvr]; simp)]
    exact ⟨res, rfl, hvr, hs, hrw⟩
  · simp only [Bool.and_self]
    rw [if_neg (by simp [isEmpty])]
    exact ⟨_, rfl, ⟨hvc.1, Or.inl rfl⟩, rfl, fun a' ha' => fieldwise_abs_w hcur ha'⟩

end DData

namespace DData

/-- **intersect of a pure pointer value with itself without widening hints** (the result of a bound refinement of
a value without absolute part) -/
theorem intersect_ptr_self_sound {ρ : Nat → Int} {cur : DData} (hcur : cur.WF) (h64 : 8 * cur.size ≤ 64)
    (habs : cur.abs = none) (hn : (cur.rel.map (·.1)).Nodup) {v : Bv} (hv : cur.Mem ρ v) :
    ∃ r, cur.intersect cur.withoutHints = some r ∧ r.Mem ρ v ∧ r.size = cur.size ∧ AbsW r := by
  unfold intersect
  have hra : cur.withoutHints.abs = none := by simp [withoutHints, habs]
  simp only [hra, habs, withoutHints_top]
  cases hct : cur.top
  · simp only [Bool.and_self, ite_self]
    rcases hv.2 with ht | ⟨a, ha, _⟩ | ⟨i, o, x, hmem, hx, heq⟩
    · rw [hct] at ht; cases ht
    · rw [habs] at ha; cases ha
    · obtain ⟨how, howid⟩ := hcur.2.2 i o hmem
      have hl : lookupRel i cur.withoutHints.rel = some (itvWithoutHints o) := by
        simp only [withoutHints]
        rw [lookupRel_map, lookupRel_of_mem_nodup hn hmem]; rfl
      obtain ⟨z, hz, hzm⟩ := C04.intersect_sound o (itvWithoutHints o) how (itvWithoutHints_wf how) rfl hx hx
      have hmz := mem_intersectRel hmem hl hz
      have hne : ¬ (({ size := cur.size, rel := intersectRel cur.rel cur.withoutHints.rel, abs := none, top := false } : DData).isEmpty = true) := by
        intro he
        simp only [isEmpty, Bool.and_eq_true, List.isEmpty_iff] at he
        rw [he.1.1] at hmz; cases hmz
      rw [if_neg hne]
      exact ⟨_, rfl, ⟨hv.1, Or.inr (Or.inr ⟨i, z, x, hmz, hzm, heq⟩)⟩, rfl, fun a ha => by cases ha⟩
  · simp only [Bool.and_self, ite_self]
    rw [if_neg (by simp [isEmpty])]
    exact ⟨_, rfl, ⟨hv.1, Or.inl rfl⟩, rfl, fun a ha => by cases ha⟩

theorem wf_bare {n : Nat} (hn : 0 < n) (t : Bool) : ({ size := n, rel := [], abs := none, top := t } : DData).WF := by
  refine ⟨hn, ?_, ?_⟩
  · intro a h; cases h
  · intro i o h; cases h

/-- the two merges at the end of `intersect` when the second operand has no relative targets -/
theorem intersect_tail_mem {ρ : Nat → Int} {cur res base : DData} (h8 : cur.size ≤ 8) (hres : res.WF)
    (hs : res.size = cur.size) (hb : base.WF) (hbs : base.size = cur.size) {v : Bv}
    (hm : base.Mem ρ v ∨ (cur.rel ≠ [] ∧ ∃ b, res.abs = some b ∧ b.Mem v.toInt ∧ v.w = 8 * cur.size)) :
    (if (!cur.rel.isEmpty) = true then (match res.abs with | some b => base.merge (ofItv b) | none => base) else base).Mem ρ v ∧
    (if (!cur.rel.isEmpty) = true then (match res.abs with | some b => base.merge (ofItv b) | none => base) else base).size = cur.size ∧
    AbsW (if (!cur.rel.isEmpty) = true then (match res.abs with | some b => base.merge (ofItv b) | none => base) else base) := by
  by_cases hc : cur.rel = []
  · simp only [hc, List.isEmpty_nil, Bool.not_true, Bool.false_eq_true, if_false]
    rcases hm with h | ⟨h, _⟩
    · exact ⟨h, hbs, absW_of_wf hb⟩
    · exact absurd hc h
  · have : (!cur.rel.isEmpty) = true := by simp [hc]
    simp only [this, if_true]
    cases hra : res.abs with
    | none =>
      simp only
      rcases hm with h | ⟨_, b, hb', _⟩
      · exact ⟨h, hbs, absW_of_wf hb⟩
      · rw [hra] at hb'; cases hb'
    | some b =>
      simp only
      obtain ⟨hbw, hbwid⟩ := hres.2.1 b hra
      have hofw : (ofItv b).WF ∧ (ofItv b).size = res.size := ofItv_wf hbw hres.1 hbwid
      have hsz : (ofItv b).size = base.size := by rw [hofw.2, hs, hbs]
      refine ⟨?_, hbs, absW_merge_ofItv (absW_of_wf hb) (by rw [hbwid, hs, hbs])⟩
      rcases hm with h | ⟨_, b', hb', hmem, hw⟩
      · exact merge_mem_left hb hofw.1 hsz (by rw [hbs]; exact h8) h
      · rw [hra] at hb'
        have hbb : b = b' := Option.some.inj hb'
        subst hbb
        refine merge_mem_right hb hofw.1 hsz (by rw [hbs]; exact h8) ⟨?_, Or.inr (Or.inl ⟨b, rfl, hmem⟩)⟩
        rw [hw, hofw.2, hs]

/-- **intersect of a value without absolute part with a value without relative targets** (a constant) -/
theorem intersect_ptr_const_sound {ρ : Nat → Int} {cur res : DData} (hcur : cur.WF) (hres : res.WF) (h8 : cur.size ≤ 8)
    (hs : res.size = cur.size) (habs : cur.abs = none) (hr : res.rel = []) {v : Bv}
    (hvc : cur.Mem ρ v) (hvr : res.Mem ρ v) :
    ∃ r, cur.intersect res = some r ∧ r.Mem ρ v ∧ r.size = cur.size ∧ AbsW r := by
  have key : ∀ base : DData, base.WF → base.size = cur.size →
      (base.Mem ρ v ∨ (cur.rel ≠ [] ∧ ∃ b, res.abs = some b ∧ b.Mem v.toInt ∧ v.w = 8 * cur.size)) →
      ∃ r, (if (if (!cur.rel.isEmpty) = true then (match res.abs with | some b => base.merge (ofItv b) | none => base) else base).isEmpty = true
              then none
              else some (if (!cur.rel.isEmpty) = true then (match res.abs with | some b => base.merge (ofItv b) | none => base) else base))
            = some r ∧ r.Mem ρ v ∧ r.size = cur.size ∧ AbsW r := by
    intro base hb hbs hm
    obtain ⟨t1, t2, t3⟩ := intersect_tail_mem h8 hres hs hb hbs hm
    rw [if_neg (by rw [isEmpty_false_of_mem t1]; simp)]
    exact ⟨_, rfl, t1, t2, t3⟩
  unfold intersect
  simp only [hr, List.isEmpty_nil, Bool.not_true, Bool.false_eq_true, if_false]
  cases hct : cur.top <;> cases hrt : res.top
  · simp only [habs, intersectRel_nil, Bool.and_self]
    refine key { size := cur.size, rel := [], abs := none, top := false } (wf_bare hcur.1 false) rfl ?_
    refine Or.inr ?_
    rcases memI_norel hr hvr.2 with ht | ⟨b, hb, hmb⟩
    · rw [hrt] at ht; cases ht
    · refine ⟨?_, b, hb, hmb, hvc.1⟩
      rcases hvc.2 with ht | ⟨a, ha, _⟩ | ⟨i, o, x, hmem, _, _⟩
      · rw [hct] at ht; cases ht
      · rw [habs] at ha; cases ha
      · intro he; rw [he] at hmem; cases hmem
  · exact key cur hcur rfl (Or.inl hvc)
  · exact key res hres hs (Or.inl hvr)
  · simp only [habs, intersectRel_nil, Bool.and_self]
    exact key { size := cur.size, rel := [], abs := none, top := true } (wf_bare hcur.1 true) rfl
      (Or.inl ⟨hvc.1, Or.inl rfl⟩)

end DData

/-! ## C. the comparison operators of the reference semantics -/

theorem ofBool_inj {a b : Bool} (h : Bv.ofBool a = Bv.ofBool b) : a = b := by
  have := congrArg Bv.toNat h
  cases a <;> cases b <;> first | rfl | (exfalso; revert this; decide)

theorem val_inj {x y : Bv} (h : Res.val x = Res.val y) : x = y := by cases h; rfl

/-- what a comparison that evaluates to the boolean `bb` says about its operands (signed values / unsigned readings) -/
def CmpHolds (op : BinOpType) (a b : Bv) (bb : Bool) : Prop :=
  match op with
  | .IntEqual => (bb = true ↔ a.toInt = b.toInt)
  | .IntNotEqual => (bb = true ↔ a.toInt ≠ b.toInt)
  | .IntLess => (bb = true ↔ toU a.w a.toInt < toU a.w b.toInt)
  | .IntLessEqual => (bb = true ↔ toU a.w a.toInt ≤ toU a.w b.toInt)
  | .IntSLess => (bb = true ↔ a.toInt < b.toInt)
  | .IntSLessEqual => (bb = true ↔ a.toInt ≤ b.toInt)
  | _ => True

theorem toInt_eq_iff_toNat_eq {w : Nat} (x y : BitVec w) : x.toInt = y.toInt ↔ x.toNat = y.toNat := by
  constructor
  · intro h; have := BitVec.eq_of_toInt_eq h; rw [this]
  · intro h; have := BitVec.eq_of_toNat_eq h; rw [this]

theorem ref_cmp {op : BinOpType} {a b : Bv} {bb : Bool} (h : Ref.binOp op a b = .val (Bv.ofBool bb)) (hop : isCmp6 op = true) :
    a.w = b.w ∧ CmpHolds op a b bb := by
  obtain ⟨aw, av⟩ := a
  obtain ⟨bw, bv⟩ := b
  by_cases hw : aw = bw
  · subst hw
    refine ⟨rfl, ?_⟩
    cases op <;> simp only [isCmp6] at hop <;> try (exact absurd hop (by decide))
    all_goals
      simp only [Ref.binOp, sameW, dif_pos, valB] at h
      have hb := ofBool_inj (val_inj h)
      simp only [CmpHolds, Bv.toInt, toU_toInt]
      rw [← hb]
    · simp [Ref.eq, toInt_eq_iff_toNat_eq]
    · simp [Ref.eq, toInt_eq_iff_toNat_eq]
    · simp [Ref.less]
    · simp [Ref.sless]
    · simp [Ref.lessEq]
    · simp [Ref.slessEq]
  · exfalso
    cases op <;> simp only [isCmp6] at hop <;> try (exact absurd hop (by decide))
    all_goals
      simp only [Ref.binOp, sameW, hw, dif_neg, not_false_eq_true] at h
      cases h

/-! ## D. specialisation of one leaf (a register or a constant) -/

namespace DData

theorem addBound_some {k : BoundKind} {d d' : DData} {bound : Int} (h : d.addBound k bound = some d') :
    d'.rel = d.rel ∧ d'.top = d.top ∧ d'.size = d.size ∧ d'.abs = d.abs.bind (fun a => a.addBound k bound) := by
  unfold addBound at h
  simp only [Option.map_eq_some_iff] at h
  obtain ⟨x, hx, rfl⟩ := h
  obtain ⟨h1, h2, h3, h4⟩ := C04.data_addBound_ok _ _ _ _ hx
  exact ⟨h1, h2, h3, h4⟩

theorem addBound_absNone {k : BoundKind} {d d' : DData} {bound : Int} (ha : d.abs = none)
    (h : d.addBound k bound = some d') : d' = d := by
  obtain ⟨h1, h2, h3, h4⟩ := addBound_some h
  rw [ha] at h4
  obtain ⟨s1, r1, a1, t1⟩ := d
  obtain ⟨s2, r2, a2, t2⟩ := d'
  simp only at h1 h2 h3 h4 ha
  subst h1; subst h2; subst h3; subst ha
  simp only [Option.bind_none] at h4
  subst h4; rfl

end DData

/-- the leaf `e` mentions at most this register -/
def leafVars : Expression → List Variable
  | .Var x => [x]
  | _ => []

/-- the two states agree except for the values of the registers in `X` -/
def SameExcept (s s' : MSt) (X : List Variable) : Prop :=
  s'.objs = s.objs ∧ s'.stackId = s.stackId ∧ s'.st.globals = s.st.globals ∧ s'.st.gid = s.st.gid ∧
    ∀ y, y ∉ X → s'.st.getReg y = s.st.getReg y

theorem SameExcept.refl (s : MSt) (X : List Variable) : SameExcept s s X := ⟨rfl, rfl, rfl, rfl, fun _ _ => rfl⟩

theorem SameExcept.trans {s s' s'' : MSt} {X Y : List Variable} (h1 : SameExcept s s' X) (h2 : SameExcept s' s'' Y) :
    SameExcept s s'' (X ++ Y) := by
  obtain ⟨a1, a2, a3, a4, a5⟩ := h1
  obtain ⟨b1, b2, b3, b4, b5⟩ := h2
  refine ⟨b1.trans a1, b2.trans a2, b3.trans a3, b4.trans a4, ?_⟩
  intro y hy
  simp only [List.mem_append, not_or] at hy
  rw [b5 y hy.2, a5 y hy.1]

theorem replaceIfGlobalPointer_congr {t t' : St} (h1 : t'.globals = t.globals) (h2 : t'.gid = t.gid) (d : DData) :
    t'.replaceIfGlobalPointer d = t.replaceIfGlobalPointer d := by
  unfold St.replaceIfGlobalPointer
  rw [h1, h2]

/-- the value of a leaf only depends on the register it mentions (and the known global addresses) -/
theorem eval_leaf_congr {s s' : MSt} {X : List Variable} (h : SameExcept s s' X) {e : Expression} (he : isLeaf e = true)
    (hd : ∀ y ∈ leafVars e, y ∉ X) : s'.st.eval e = s.st.eval e := by
  obtain ⟨_, _, a3, a4, a5⟩ := h
  cases e with
  | Var x =>
    show s'.st.replaceIfGlobalPointer (s'.st.getReg x) = s.st.replaceIfGlobalPointer (s.st.getReg x)
    rw [a5 x (hd x (by simp [leafVars])), replaceIfGlobalPointer_congr a3 a4]
  | Const b c =>
    show s'.st.replaceIfGlobalPointer (DData.ofBv (Bv.ofBytes b c)) = s.st.replaceIfGlobalPointer (DData.ofBv (Bv.ofBytes b c))
    rw [replaceIfGlobalPointer_congr a3 a4]
  | _ => simp [isLeaf] at he

theorem regsIn_setReg_same {ρ : Nat → Int} {t : St} {σ : Sem.State} (hσ : St.RegsIn ρ t σ) {x : Variable} {d : DData}
    (hd : d.Mem ρ (σ.getReg x)) (hsz : d.size = x.size) : St.RegsIn ρ (t.setReg x d) σ := by
  intro w
  rw [St.getReg_setReg t x w _]
  split
  · rename_i hw; subst hw
    split
    · rename_i ht
      rw [St.isTop_eq ht, hsz] at hd
      exact hd
    · exact hd
  · exact hσ w

theorem sameExcept_setReg (s : MSt) (x : Variable) (d : DData) :
    SameExcept s ({ s with st := s.st.setReg x d } : MSt) [x] := by
  refine ⟨rfl, rfl, ?_, ?_, ?_⟩
  · show (s.st.setReg x d).globals = s.st.globals
    unfold St.setReg; split <;> rfl
  · show (s.st.setReg x d).gid = s.st.gid
    unfold St.setReg; split <;> rfl
  · intro y hy
    show (s.st.setReg x d).getReg y = s.st.getReg y
    rw [St.getReg_setReg]
    have : y ≠ x := by simpa using hy
    simp [this]

/-- every register value has the size of its register and an absolute part of that width -/
def St.Sized (t : St) : Prop := ∀ y, (t.getReg y).size = y.size ∧ AbsW (t.getReg y)

theorem sized_of_wf {t : St} (h : t.WF) : t.Sized := by
  intro y
  unfold St.getReg
  split
  · rename_i p hp
    have hm := List.mem_of_find?_eq_some hp
    have := List.find?_some hp
    simp only [decide_eq_true_eq] at this
    obtain ⟨pv, pd⟩ := p
    simp only at this; subst this
    exact ⟨(h _ _ hm).2, absW_of_wf (h _ _ hm).1⟩
  · exact ⟨rfl, fun a ha => by cases ha⟩

theorem sized_setReg {t : St} (h : t.Sized) {x : Variable} {d : DData} (hs : d.size = x.size) (hw : AbsW d) :
    (t.setReg x d).Sized := by
  intro y
  rw [St.getReg_setReg]
  split
  · rename_i hy; subst hy
    split
    · exact ⟨rfl, fun a ha => by cases ha⟩
    · exact ⟨hs, hw⟩
  · exact h y

/-- what the theorem needs of a leaf in a state: a register holds a well-formed value of its size (at most 8
bytes) of the covered shape; a constant has at most 8 bytes -/
def LeafPre (s : MSt) : Expression → Prop
  | .Var x => ((s.st.getReg x).WF ∧ (s.st.getReg x).size = x.size) ∧ (0 < x.size ∧ x.size ≤ 8) ∧
      valueShapeOk (s.st.eval (.Var x)) = true
  | .Const b _ => 0 < b ∧ b ≤ 8
  | _ => False

theorem leaf_bytesize_pos {s : MSt} {e : Expression} (h : LeafPre s e) : 0 < e.bytesize ∧ e.bytesize ≤ 8 := by
  cases e with
  | Var x => exact h.2.1
  | Const b c => exact h
  | _ => exact absurd h (by simp [LeafPre])

/-- the abstract value of a leaf: well-formed, of the leaf's size, and it represents the concrete value -/
theorem leaf_eval_sound {ρ : Nat → Int} {s : MSt} (hg : s.st.globals ≠ [] → ρ s.st.gid = 0) {σ : Sem.State}
    (hσ : St.RegsIn ρ s.st σ) {e : Expression} (hp : LeafPre s e) {v : Bv} (hv : Sem.eval σ e = some v) :
    (s.st.eval e).WF ∧ (s.st.eval e).size = e.bytesize ∧ (s.st.eval e).Mem ρ v := by
  cases e with
  | Var x =>
    obtain ⟨h1, h2, h3⟩ := St.replaceIfGlobalPointer_sound (ρ := ρ) s.st hg hp.1.1
    simp only [Sem.eval, Option.some.injEq] at hv
    subst hv
    exact ⟨h1, h2.trans hp.1.2, h3 _ (hσ x)⟩
  | Const b c =>
    have hb : (Bv.ofBytes b c).w = 8 * b := rfl
    obtain ⟨w1, w2⟩ := St.ofBv_wf (Bv.ofBytes b c) hp.1 hb
    obtain ⟨h1, h2, h3⟩ := St.replaceIfGlobalPointer_sound (ρ := ρ) s.st hg w1
    simp only [Sem.eval, Option.some.injEq] at hv
    subst hv
    exact ⟨h1, h2.trans w2, h3 _ (St.ofBv_mem ρ _ hb)⟩
  | _ => exact absurd hp (by simp [LeafPre])

/-- conclusion of a specialisation step on the leaf `e` -/
def StepOk (ρ : Nat → Int) (σ : Sem.State) (s : MSt) (e : Expression) (o : Option MSt) : Prop :=
  ∃ s', o = some s' ∧ St.RegsIn ρ s'.st σ ∧ s'.st.Sized ∧ SameExcept s s' (leafVars e)

/-- the `Const` arm: a result that represents the constant never makes it "unsatisfiable" -/
theorem specConst_ok {ρ : Nat → Int} {σ : Sem.State} {s : MSt} (hσ : St.RegsIn ρ s.st σ) (hS : s.st.Sized) {b c : Nat} {res : DData}
    (hm : res.Mem ρ (Bv.ofBytes b c)) (hw : ∀ a, res.abs = some a → res.rel = [] → res.top = false → a.interval.w = 8 * b) :
    StepOk ρ σ s (.Const b c) (specByExpr (.Const b c) s res) := by
  unfold specByExpr
  cases htb : res.tryToBv with
  | none => exact ⟨s, rfl, hσ, hS, SameExcept.refl _ _⟩
  | some p =>
    obtain ⟨w, rb⟩ := p
    simp only
    have h1 := DData.mem_of_tryToBv htb hm
    obtain ⟨r1, r2, a, ha, _, _, hwid⟩ := DData.tryToBv_some htb
    have h2 := hw a ha r1 r2
    rw [if_pos ⟨by rw [← hwid, h2], h1.symm⟩]
    exact ⟨s, rfl, hσ, hS, SameExcept.refl _ _⟩

theorem lcm_stride_ok {a r : IntervalDomain} (ha : a.WF) (h : r.interval.stride = a.interval.stride ∨ r.interval.stride = 0) :
    Nat.lcm a.interval.stride r.interval.stride < 2 ^ 64 := by
  rcases h with h | h
  · rw [h, Nat.lcm_self]; exact ha.1.2.2.2.2.2.2
  · rw [h, Nat.lcm_zero_right]; decide

/-- **leaf, kind 1:** the leaf is specialised to the single value it has concretely -/
theorem specLeaf_const {ρ : Nat → Int} {s : MSt} (hg : s.st.globals ≠ [] → ρ s.st.gid = 0) {σ : Sem.State}
    (hσ : St.RegsIn ρ s.st σ) (hS : s.st.Sized) {e : Expression} (hp : LeafPre s e) {v : Bv} (hv : Sem.eval σ e = some v) :
    StepOk ρ σ s e (specByExpr e s (DData.ofBvI v.w v.toInt)) := by
  obtain ⟨cw, csz, cmem⟩ := leaf_eval_sound hg hσ hp hv
  obtain ⟨hpos, h8⟩ := leaf_bytesize_pos hp
  have hvw : v.w = 8 * e.bytesize := by rw [cmem.1, csz]
  obtain ⟨rw', rsz⟩ := DData.ofBvI_wf (c := v.toInt) hpos hvw (inRange_toInt v.v)
  have rmem : (DData.ofBvI v.w v.toInt).Mem ρ v := DData.ofBvI_mem hvw
  cases e with
  | Var x =>
    simp only [Sem.eval, Option.some.injEq] at hv
    have hsh := hp.2.2
    simp only [valueShapeOk, Bool.and_eq_true, Bool.or_eq_true, List.isEmpty_iff, Option.isNone_iff_eq_none,
      decide_eq_true_eq] at hsh
    have hint : ∃ r, (s.st.eval (.Var x)).intersect (DData.ofBvI v.w v.toInt) = some r ∧ r.Mem ρ v ∧
        r.size = (s.st.eval (.Var x)).size ∧ AbsW r := by
      rcases hsh.1 with hrel | habs
      · refine DData.intersect_abs_sound cw hrel rfl (by rw [rsz, csz]) (absW_of_wf rw') cmem rmem ?_
        intro a b ha hb _ _
        simp only [DData.ofBvI, DData.ofItv, Option.some.injEq] at hb
        subst hb
        refine ⟨C02.ofInterval_wf' (Interval.wf_single _ (by omega) _ (inRange_toInt v.v)), ?_, ?_⟩
        · show v.w = a.interval.w
          rw [(cw.2.1 a ha).2, csz, hvw]
        · show Nat.lcm a.interval.stride 0 < 2 ^ 64
          rw [Nat.lcm_zero_right]; decide
      · exact DData.intersect_ptr_const_sound cw rw' (by rw [csz]; exact h8) (by rw [rsz, csz]) habs rfl cmem rmem
    obtain ⟨r, hr, hrm, hrs, hrw⟩ := hint
    unfold specByExpr
    rw [hr]
    refine ⟨_, rfl, ?_, sized_setReg hS (by rw [hrs, csz]; rfl) hrw, sameExcept_setReg s x r⟩
    subst hv
    exact regsIn_setReg_same hσ hrm (by rw [hrs, csz]; rfl)
  | Const b c =>
    simp only [Sem.eval, Option.some.injEq] at hv
    subst hv
    refine specConst_ok hσ hS rmem ?_
    intro a ha _ _
    simp only [DData.ofBvI, DData.ofItv, Option.some.injEq] at ha
    subst ha
    rfl
  | _ => exact absurd hp (by simp [LeafPre])

/-- the refined absolute part of a bound refinement of `cur.withoutHints`, when the concrete value is in the
absolute part of `cur` -/
theorem refined_abs {cur res : DData} (hcur : cur.WF) (h64 : 8 * cur.size ≤ 64) {k : BoundKind} {bound : Int}
    (hres : cur.withoutHints.addBound k bound = some res) (hb : InRange (8 * cur.size) bound) {a : IntervalDomain}
    (ha : cur.abs = some a) {x : Int} (hx : a.Mem x) (hR : k.holds (8 * cur.size) x bound) :
    ∃ r, res.abs = some r ∧ Refines (itvWithoutHints a) r ∧ r.Mem x := by
  obtain ⟨_, _, _, f4⟩ := DData.addBound_some hres
  obtain ⟨haw, hawid⟩ := hcur.2.1 a ha
  have hw : (itvWithoutHints a).interval.w = 8 * cur.size := hawid
  obtain ⟨r, hr, hrf, hrm⟩ := addBound_refines k (itvWithoutHints a) (itvWithoutHints_wf haw) (by rw [hw]; exact h64) bound
    (by rw [hw]; exact hb) hx (by rw [hw]; exact hR)
  refine ⟨r, ?_, hrf, hrm⟩
  rw [f4]
  simp only [DData.withoutHints, ha, Option.map_some, Option.bind_some]
  exact hr

/-- **leaf, kind 2:** the leaf is specialised to a bound refinement of its own value, the concrete value
satisfying the comparison -/
theorem specLeaf_bound {ρ : Nat → Int} {s : MSt} (hg : s.st.globals ≠ [] → ρ s.st.gid = 0) {σ : Sem.State}
    (hσ : St.RegsIn ρ s.st σ) (hS : s.st.Sized) {e : Expression} (hp : LeafPre s e) {v : Bv} (hv : Sem.eval σ e = some v)
    (k : BoundKind) {bound : Int} (hb : InRange (8 * e.bytesize) bound) (hR : k.holds (8 * e.bytesize) v.toInt bound) :
    ∃ res, (s.st.eval e).withoutHints.addBound k bound = some res ∧ StepOk ρ σ s e (specByExpr e s res) := by
  obtain ⟨cw, csz, cmem⟩ := leaf_eval_sound hg hσ hp hv
  obtain ⟨hpos, h8⟩ := leaf_bytesize_pos hp
  have h64 : 8 * (s.st.eval e).size ≤ 64 := by rw [csz]; omega
  have hb' : InRange (8 * (s.st.eval e).size) bound := by rw [csz]; exact hb
  have hR' : k.holds (8 * (s.st.eval e).size) v.toInt bound := by rw [csz]; exact hR
  obtain ⟨res, hres, rmem⟩ := DData.addBound_sound (ρ := ρ) k (DData.withoutHints_wf cw) h64 bound hb'
    (DData.withoutHints_mem cmem) hR'
  obtain ⟨f1, f2, f3, f4⟩ := DData.addBound_some hres
  have hresw : AbsW res := by
    intro a ha
    rw [f4] at ha
    cases hca : (s.st.eval e).abs with
    | none => simp [DData.withoutHints, hca] at ha
    | some a0 =>
      simp only [DData.withoutHints, hca, Option.map_some, Option.bind_some] at ha
      rw [addBound_w ha, f3]
      exact (cw.2.1 a0 hca).2
  refine ⟨res, hres, ?_⟩
  cases e with
  | Var x =>
    simp only [Sem.eval, Option.some.injEq] at hv
    have hsh := hp.2.2
    simp only [valueShapeOk, Bool.and_eq_true, Bool.or_eq_true, List.isEmpty_iff, Option.isNone_iff_eq_none,
      decide_eq_true_eq] at hsh
    have hint : ∃ r, (s.st.eval (.Var x)).intersect res = some r ∧ r.Mem ρ v ∧ r.size = (s.st.eval (.Var x)).size ∧
        AbsW r := by
      rcases hsh.1 with hrel | habs
      · have hrr : res.rel = [] := by rw [f1]; simp [DData.withoutHints, hrel]
        refine DData.intersect_abs_sound cw hrel hrr f3 hresw cmem rmem ?_
        intro a b ha hb2 hma _
        obtain ⟨r, hr, hrf, _⟩ := refined_abs cw h64 hres hb' ha hma hR'
        rw [hb2] at hr
        have hbr : b = r := Option.some.inj hr
        subst hbr
        exact ⟨hrf.1, hrf.2.1, lcm_stride_ok (cw.2.1 a ha).1 hrf.2.2⟩
      · have hca : (s.st.eval (.Var x)).withoutHints.abs = none := by simp [DData.withoutHints, habs]
        have := DData.addBound_absNone hca hres
        rw [this]
        exact DData.intersect_ptr_self_sound cw h64 habs hsh.2 cmem
    obtain ⟨r, hr, hrm, hrs, hrw⟩ := hint
    unfold specByExpr
    rw [hr]
    refine ⟨_, rfl, ?_, sized_setReg hS (by rw [hrs, csz]; rfl) hrw, sameExcept_setReg s x r⟩
    subst hv
    exact regsIn_setReg_same hσ hrm (by rw [hrs, csz]; rfl)
  | Const b c =>
    simp only [Sem.eval, Option.some.injEq] at hv
    subst hv
    refine specConst_ok hσ hS rmem ?_
    intro a ha hrr hrt
    -- the evaluated constant is an absolute value that contains the constant
    have hcr : (s.st.eval (.Const b c)).rel = [] := by
      rw [f1] at hrr
      simpa [DData.withoutHints] using hrr
    have hct : (s.st.eval (.Const b c)).top = false := by rw [← hrt, f2]; rfl
    rcases DData.memI_norel hcr cmem.2 with ht | ⟨a0, ha0, hm0⟩
    · rw [hct] at ht; cases ht
    · obtain ⟨r, hr, hrf, _⟩ := refined_abs cw h64 hres hb' ha0 hm0 hR'
      rw [ha] at hr
      have har : a = r := Option.some.inj hr
      subst har
      rw [hrf.2.1]
      show a0.interval.w = 8 * b
      rw [(cw.2.1 a0 ha0).2, csz]; rfl
  | _ => exact absurd hp (by simp [LeafPre])

/-! ## E. the arms of `specialize_by_binop_expression_result` on two leaves -/

/-- the invariant along the steps of one specialisation: registers represented, sizes/widths consistent, the
global identifier stands for address 0 -/
structure Good (ρ : Nat → Int) (σ : Sem.State) (s : MSt) : Prop where
  regs : St.RegsIn ρ s.st σ
  sized : s.st.Sized
  glob : s.st.globals ≠ [] → ρ s.st.gid = 0

theorem Good.of_same {ρ : Nat → Int} {σ : Sem.State} {s s' : MSt} {X : List Variable} (h : Good ρ σ s)
    (hs : SameExcept s s' X) (hr : St.RegsIn ρ s'.st σ) (hz : s'.st.Sized) : Good ρ σ s' :=
  ⟨hr, hz, by rw [hs.2.2.1, hs.2.2.2.1]; exact h.glob⟩

theorem tryToBv_replace {t : St} {d : DData} {p : Nat × Int} (h : (t.replaceIfGlobalPointer d).tryToBv = some p) :
    t.replaceIfGlobalPointer d = d := by
  unfold St.replaceIfGlobalPointer at h ⊢
  cases hto : St.tryToOffset d with
  | none => rfl
  | some c =>
    rw [hto] at h
    simp only at h ⊢
    by_cases hc : t.globals.contains (toU 64 c) = true
    · rw [if_pos hc] at h ⊢
      cases ha : d.abs with
      | none => rfl
      | some a =>
        rw [ha] at h
        simp [DData.tryToBv, DData.fromTarget] at h
    · rw [if_neg hc]

/-- a leaf whose abstract value is a single constant has that constant as its concrete value -/
theorem tryToBv_leaf_sound {ρ : Nat → Int} {σ : Sem.State} {s : MSt} (hG : Good ρ σ s) {e : Expression}
    (hl : isLeaf e = true) {w : Nat} {c : Int} (h : (s.st.eval e).tryToBv = some (w, c)) {v : Bv}
    (hv : Sem.eval σ e = some v) : v.toInt = c ∧ w = v.w := by
  cases e with
  | Var x =>
    have hrep : s.st.eval (.Var x) = s.st.getReg x := tryToBv_replace (t := s.st) (d := s.st.getReg x) h
    rw [hrep] at h
    simp only [Sem.eval, Option.some.injEq] at hv
    subst hv
    have hm := hG.regs x
    obtain ⟨_, _, a, ha, _, _, hwid⟩ := DData.tryToBv_some h
    refine ⟨DData.mem_of_tryToBv h hm, ?_⟩
    rw [← hwid, (hG.sized x).2 a ha, hm.1]
  | Const b c0 =>
    have hrep : s.st.eval (.Const b c0) = DData.ofBv (Bv.ofBytes b c0) :=
      tryToBv_replace (t := s.st) (d := DData.ofBv (Bv.ofBytes b c0)) h
    rw [hrep] at h
    simp only [Sem.eval, Option.some.injEq] at hv
    subst hv
    simp only [DData.ofBv, DData.ofItv, DData.tryToBv, IntervalDomain.single, IntervalDomain.ofInterval, Interval.single,
      IntervalDomain.tryToBitvec, List.isEmpty_nil, Bool.not_true, Bool.or_self, Bool.false_eq_true, if_false, if_true,
      Option.map_some, Option.some.injEq, Prod.mk.injEq] at h
    exact ⟨h.2, h.1.symm⟩
  | _ => simp [isLeaf] at hl

theorem leafPre_congr {s s' : MSt} {X : List Variable} (h : SameExcept s s' X) {e : Expression} (hl : isLeaf e = true)
    (hd : ∀ y ∈ leafVars e, y ∉ X) (hp : LeafPre s e) : LeafPre s' e := by
  have hev := eval_leaf_congr h hl hd
  cases e with
  | Var x =>
    have hx : s'.st.getReg x = s.st.getReg x := h.2.2.2.2 x (hd x (by simp [leafVars]))
    simp only [LeafPre] at hp ⊢
    rw [hx, hev]; exact hp
  | Const b c => exact hp
  | _ => simp [isLeaf] at hl

theorem leafVars_disjoint {l r : Expression} (hl : isLeaf l = true) (hr : isLeaf r = true) (hne : l ≠ r) :
    ∀ y ∈ leafVars l, y ∉ leafVars r := by
  intro y hy
  cases l with
  | Var x =>
    simp only [leafVars, List.mem_singleton] at hy; subst hy
    cases r with
    | Var z =>
      simp only [leafVars, List.mem_singleton]
      intro e; exact hne (by rw [e])
    | _ => simp [leafVars]
  | _ => simp [leafVars] at hy

/-- conclusion of a sequence of steps on the leaves `l` and `r` -/
def StepsOk (ρ : Nat → Int) (σ : Sem.State) (s : MSt) (l r : Expression) (o : Option MSt) : Prop :=
  ∃ s', o = some s' ∧ Good ρ σ s' ∧ SameExcept s s' (leafVars l ++ leafVars r)

theorem StepOk.toSteps_r {ρ : Nat → Int} {σ : Sem.State} {s : MSt} (hG : Good ρ σ s) {l r : Expression} {o : Option MSt}
    (h : StepOk ρ σ s r o) : StepsOk ρ σ s l r o := by
  obtain ⟨s', e, h1, h2, h3⟩ := h
  refine ⟨s', e, hG.of_same h3 h1 h2, ?_⟩
  obtain ⟨a1, a2, a3, a4, a5⟩ := h3
  exact ⟨a1, a2, a3, a4, fun y hy => a5 y (fun hm => hy (List.mem_append_right _ hm))⟩

theorem StepOk.toSteps_l {ρ : Nat → Int} {σ : Sem.State} {s : MSt} (hG : Good ρ σ s) {l r : Expression} {o : Option MSt}
    (h : StepOk ρ σ s l o) : StepsOk ρ σ s l r o := by
  obtain ⟨s', e, h1, h2, h3⟩ := h
  refine ⟨s', e, hG.of_same h3 h1 h2, ?_⟩
  obtain ⟨a1, a2, a3, a4, a5⟩ := h3
  exact ⟨a1, a2, a3, a4, fun y hy => a5 y (fun hm => hy (List.mem_append_left _ hm))⟩

theorem StepsOk.refl {ρ : Nat → Int} {σ : Sem.State} {s : MSt} (hG : Good ρ σ s) (l r : Expression) :
    StepsOk ρ σ s l r (some s) := ⟨s, rfl, hG, SameExcept.refl _ _⟩

/-- chaining: a first step on `r`, then a step on `l` in the new state -/
theorem steps_chain {ρ : Nat → Int} {σ : Sem.State} {s : MSt} {l r : Expression} {o1 : Option MSt}
    (h1 : StepsOk ρ σ s l r o1) (F : MSt → Option MSt)
    (h2 : ∀ s1, Good ρ σ s1 → SameExcept s s1 (leafVars l ++ leafVars r) → StepsOk ρ σ s1 l r (F s1)) :
    StepsOk ρ σ s l r (andThen o1 F) := by
  obtain ⟨s1, e1, g1, x1⟩ := h1
  subst e1
  show StepsOk ρ σ s l r (F s1)
  obtain ⟨s2, e2, g2, x2⟩ := h2 s1 g1 x1
  refine ⟨s2, e2, g2, ?_⟩
  have := x1.trans x2
  obtain ⟨a1, a2, a3, a4, a5⟩ := this
  exact ⟨a1, a2, a3, a4, fun y hy => a5 y (fun hm => hy (by rcases List.mem_append.mp hm with h | h <;> exact h))⟩

theorem StepOk.refl {ρ : Nat → Int} {σ : Sem.State} {s : MSt} (hG : Good ρ σ s) (e : Expression) :
    StepOk ρ σ s e (some s) := ⟨s, rfl, hG.regs, hG.sized, SameExcept.refl _ _⟩

/-- a step on `r` followed by a step on the other leaf `l` in the new state -/
theorem two_steps {ρ : Nat → Int} {σ : Sem.State} {s : MSt} {l r : Expression} (hG : Good ρ σ s)
    (hll : isLeaf l = true) (hlr : isLeaf r = true) (hne : l ≠ r) (hpl : LeafPre s l)
    {o1 : Option MSt} (h1 : StepOk ρ σ s r o1) (F : MSt → Option MSt)
    (h2 : ∀ s1, Good ρ σ s1 → LeafPre s1 l → StepOk ρ σ s1 l (F s1)) :
    StepsOk ρ σ s l r (andThen o1 F) := by
  obtain ⟨s1, e1, r1, z1, x1⟩ := h1
  subst e1
  show StepsOk ρ σ s l r (F s1)
  have g1 : Good ρ σ s1 := hG.of_same x1 r1 z1
  have p1 : LeafPre s1 l := leafPre_congr x1 hll (leafVars_disjoint hll hlr hne) hpl
  obtain ⟨s2, e2, r2, z2, x2⟩ := h2 s1 g1 p1
  refine ⟨s2, e2, g1.of_same x2 r2 z2, ?_⟩
  obtain ⟨a1, a2, a3, a4, a5⟩ := x1.trans x2
  exact ⟨a1, a2, a3, a4, fun y hy => a5 y (fun hm => hy (by
    rcases List.mem_append.mp hm with h | h
    · exact List.mem_append_right _ h
    · exact List.mem_append_left _ h))⟩

/-- two different leaves of equal width with their concrete values -/
structure Pair (σ : Sem.State) (s : MSt) (l r : Expression) (vl vr : Bv) : Prop where
  ll : isLeaf l = true
  lr : isLeaf r = true
  ne : l ≠ r
  pl : LeafPre s l
  pr : LeafPre s r
  evl : Sem.eval σ l = some vl
  evr : Sem.eval σ r = some vr
  w : vl.w = vr.w

theorem Pair.symm {σ : Sem.State} {s : MSt} {l r : Expression} {vl vr : Bv} (P : Pair σ s l r vl vr) : Pair σ s r l vr vl :=
  ⟨P.lr, P.ll, fun e => P.ne e.symm, P.pr, P.pl, P.evr, P.evl, P.w.symm⟩

theorem Pair.widths {ρ : Nat → Int} {σ : Sem.State} {s : MSt} {l r : Expression} {vl vr : Bv} (P : Pair σ s l r vl vr)
    (hG : Good ρ σ s) : vl.w = 8 * l.bytesize ∧ vr.w = 8 * r.bytesize ∧ 0 < vl.w := by
  obtain ⟨_, c1, m1⟩ := leaf_eval_sound hG.glob hG.regs P.pl P.evl
  obtain ⟨_, c2, m2⟩ := leaf_eval_sound hG.glob hG.regs P.pr P.evr
  have := (leaf_bytesize_pos P.pl).1
  refine ⟨by rw [m1.1, c1], by rw [m2.1, c2], by rw [m1.1, c1]; omega⟩

/-- a step that is taken only if the leaf `e` evaluates to a single constant: that constant is the concrete value -/
theorem stepIfConst_ok {ρ : Nat → Int} {σ : Sem.State} {s : MSt} (hG : Good ρ σ s) {e e' : Expression}
    (hl : isLeaf e = true) {v : Bv} (hv : Sem.eval σ e = some v) {F : Nat → Int → Option MSt}
    (h : StepOk ρ σ s e' (F v.w v.toInt)) : StepOk ρ σ s e' (stepIfConst s e F) := by
  unfold stepIfConst
  cases ht : (s.st.eval e).tryToBv with
  | none => exact StepOk.refl hG e'
  | some p =>
    obtain ⟨w, b⟩ := p
    obtain ⟨hb, hw⟩ := tryToBv_leaf_sound hG hl ht hv
    simp only
    rw [← hb, hw]
    exact h

/-- the "lhs == rhs" steps are sound when the operands are concretely equal -/
theorem specEqualConsts_sound {ρ : Nat → Int} {σ : Sem.State} {s : MSt} {l r : Expression} {vl vr : Bv}
    (hG : Good ρ σ s) (P : Pair σ s l r vl vr) (heq : vl.toInt = vr.toInt) :
    StepsOk ρ σ s l r (specEqualConsts (specByExpr l) (specByExpr r) s l r) := by
  unfold specEqualConsts
  refine two_steps hG P.ll P.lr P.ne P.pl ?_ _ ?_
  · refine stepIfConst_ok hG P.ll P.evl ?_
    rw [heq, P.w]
    exact specLeaf_const hG.glob hG.regs hG.sized P.pr P.evr
  · intro s1 g1 p1
    refine stepIfConst_ok g1 P.lr P.evr ?_
    rw [← heq, ← P.w]
    exact specLeaf_const g1.glob g1.regs g1.sized p1 P.evl

theorem inRange_of_w {v : Bv} {w : Nat} (h : v.w = w) : InRange w v.toInt := by
  rw [← h]; exact inRange_toInt v.v

/-- a refinement step on the leaf `e` whose concrete value satisfies the comparison with `bound` -/
theorem boundStep_ok {ρ : Nat → Int} {σ : Sem.State} {s : MSt} (hG : Good ρ σ s) {e : Expression} (hp : LeafPre s e)
    {v : Bv} (hv : Sem.eval σ e = some v) (k : BoundKind) {bound : Int} (hb : InRange v.w bound)
    (hR : k.holds v.w v.toInt bound) : StepOk ρ σ s e (boundStep (specByExpr e) s e k bound) := by
  obtain ⟨_, c1, m1⟩ := leaf_eval_sound hG.glob hG.regs hp hv
  have hw : v.w = 8 * e.bytesize := by rw [m1.1, c1]
  obtain ⟨res, hres, hstep⟩ := specLeaf_bound hG.glob hG.regs hG.sized hp hv k (bound := bound)
    (by rw [← hw]; exact hb) (by rw [← hw]; exact hR)
  unfold boundStep
  rw [hres]
  exact hstep

/-- the "lhs != rhs" steps are sound when the operands are concretely different -/
theorem specNotEqualConsts_sound {ρ : Nat → Int} {σ : Sem.State} {s : MSt} {l r : Expression} {vl vr : Bv}
    (hG : Good ρ σ s) (P : Pair σ s l r vl vr) (hne : vl.toInt ≠ vr.toInt) :
    StepsOk ρ σ s l r (specNotEqualConsts (specByExpr l) (specByExpr r) s l r) := by
  unfold specNotEqualConsts
  refine two_steps hG P.ll P.lr P.ne P.pl ?_ _ ?_
  · refine stepIfConst_ok hG P.ll P.evl ?_
    exact boundStep_ok hG P.pr P.evr .ne (by rw [← P.w]; exact inRange_of_w rfl) (fun e => hne e.symm)
  · intro s1 g1 p1
    refine stepIfConst_ok g1 P.lr P.evr ?_
    exact boundStep_ok g1 p1 P.evl .ne (by rw [P.w]; exact inRange_of_w rfl) hne

/-! ### the four order comparisons -/

theorem pow2_ge_two {w : Nat} (hw : 0 < w) : 2 ≤ pow2 w := by
  have := pow2_eq w hw; have := pow2_pos (w - 1); omega

theorem toU_int (w : Nat) (z : Int) : ((toU w z : Nat) : Int) = z % pow2 w := by
  unfold toU
  exact Int.toNat_of_nonneg (Int.emod_nonneg _ (by have := pow2_pos w; omega))

/-- unsigned successor: no wrap unless the value is the unsigned maximum (`-1`) -/
theorem toU_succ {w : Nat} (hw : 0 < w) {x : Int} (hx : InRange w x) (hne : x ≠ -1) :
    toU w (wrap w (x + 1)) = toU w x + 1 := by
  rw [toU_wrap]
  have hP := pow2_ge_two hw
  have h2 := pow2_eq w hw
  have hp := pow2_pos (w - 1)
  unfold InRange smin smax at hx
  apply Int.ofNat_inj.mp
  push_cast
  rw [toU_int, toU_int]
  by_cases h0 : 0 ≤ x
  · rw [Int.emod_eq_of_lt (by omega) (by omega), Int.emod_eq_of_lt h0 (by omega)]
  · have e1 : (x + 1) % pow2 w = x + 1 + pow2 w := by
      rw [← Int.add_emod_right (x + 1) (pow2 w)]
      exact Int.emod_eq_of_lt (by omega) (by omega)
    have e2 : x % pow2 w = x + pow2 w := by
      rw [← Int.add_emod_right x (pow2 w)]
      exact Int.emod_eq_of_lt (by omega) (by omega)
    rw [e1, e2]; omega

/-- unsigned predecessor: no wrap unless the value is 0 -/
theorem toU_pred {w : Nat} (hw : 0 < w) {y : Int} (hy : InRange w y) (hne : y ≠ 0) :
    toU w (wrap w (y - 1)) + 1 = toU w y := by
  rw [toU_wrap]
  have hP := pow2_ge_two hw
  have h2 := pow2_eq w hw
  have hp := pow2_pos (w - 1)
  unfold InRange smin smax at hy
  apply Int.ofNat_inj.mp
  push_cast
  rw [toU_int, toU_int]
  by_cases h0 : 0 < y
  · rw [Int.emod_eq_of_lt (by omega) (by omega), Int.emod_eq_of_lt (by omega) (by omega)]; omega
  · have e1 : (y - 1) % pow2 w = y - 1 + pow2 w := by
      rw [← Int.add_emod_right (y - 1) (pow2 w)]
      exact Int.emod_eq_of_lt (by omega) (by omega)
    have e2 : y % pow2 w = y + pow2 w := by
      rw [← Int.add_emod_right y (pow2 w)]
      exact Int.emod_eq_of_lt (by omega) (by omega)
    rw [e1, e2]; omega

theorem toU_lt_pow2 (w : Nat) (z : Int) : ((toU w z : Nat) : Int) < pow2 w := toU_lt w z

theorem toU_neg_one {w : Nat} (hw : 0 < w) : ((toU w (-1) : Nat) : Int) = pow2 w - 1 := by
  have hP := pow2_ge_two hw
  rw [toU_int, ← Int.add_emod_right (-1) (pow2 w)]
  rw [Int.emod_eq_of_lt (by omega) (by omega)]; omega

theorem toU_zero (w : Nat) : toU w 0 = 0 := by
  unfold toU; simp

/-- `a op b` holds for the concrete operands -/
def CmpTrue (op : CmpOp) (a b : Bv) : Prop :=
  match op with
  | .slt => a.toInt < b.toInt
  | .sle => a.toInt ≤ b.toInt
  | .ult => toU a.w a.toInt < toU a.w b.toInt
  | .ule => toU a.w a.toInt ≤ toU a.w b.toInt

/-- **`specialize_by_comparison_op` is sound**: if `l op r` holds concretely, both refinement steps succeed and keep
the concrete state represented -/
theorem specComparisonOp_sound {ρ : Nat → Int} {σ : Sem.State} {s : MSt} {l r : Expression} {vl vr : Bv}
    (hG : Good ρ σ s) (P : Pair σ s l r vl vr) (op : CmpOp) (hT : CmpTrue op vl vr) :
    StepsOk ρ σ s l r (specComparisonOp (specByExpr l) (specByExpr r) s op l r) := by
  obtain ⟨_, _, hw0⟩ := P.widths hG
  have hrl : InRange vl.w vl.toInt := inRange_toInt vl.v
  have hrr : InRange vl.w vr.toInt := by rw [P.w]; exact inRange_toInt vr.v
  have hp := pow2_pos (vl.w - 1)
  have h2 := pow2_eq vl.w hw0
  unfold specComparisonOp
  refine two_steps hG P.ll P.lr P.ne P.pl ?_ _ ?_
  · refine stepIfConst_ok hG P.ll P.evl ?_
    cases op with
    | slt =>
      simp only [specCmpLeftConst, CmpTrue] at hT ⊢
      have hne : ¬ vl.toInt = smax vl.w := by unfold InRange smax at *; omega
      rw [if_neg hne]
      have hb : InRange vl.w (vl.toInt + 1) := by unfold InRange smin smax at *; omega
      rw [wrap_of_inRange _ hw0 hb]
      exact boundStep_ok hG P.pr P.evr .sge (by rw [← P.w]; exact hb) (by show vr.toInt ≥ vl.toInt + 1; omega)
    | sle =>
      simp only [specCmpLeftConst, CmpTrue] at hT ⊢
      exact boundStep_ok hG P.pr P.evr .sge (by rw [← P.w]; exact hrl) (by show vr.toInt ≥ vl.toInt; omega)
    | ult =>
      simp only [specCmpLeftConst, CmpTrue] at hT ⊢
      have hlt : ((toU vl.w vl.toInt : Nat) : Int) < toU vl.w vr.toInt := Int.ofNat_lt.mpr hT
      have hne : ¬ vl.toInt = -1 := by
        intro e
        have h1 := toU_neg_one hw0
        have h3 := toU_lt_pow2 vl.w vr.toInt
        rw [e] at hlt; omega
      rw [if_neg hne]
      refine boundStep_ok hG P.pr P.evr .uge (by rw [← P.w]; exact wrap_inRange _ hw0 _) ?_
      show toU vr.w vr.toInt ≥ toU vr.w (wrap vl.w (vl.toInt + 1))
      rw [← P.w, toU_succ hw0 hrl hne]; omega
    | ule =>
      simp only [specCmpLeftConst, CmpTrue] at hT ⊢
      refine boundStep_ok hG P.pr P.evr .uge (by rw [← P.w]; exact hrl) ?_
      show toU vr.w vr.toInt ≥ toU vr.w vl.toInt
      rw [← P.w]; exact hT
  · intro s1 g1 p1
    refine stepIfConst_ok g1 P.lr P.evr ?_
    rw [← P.w]
    cases op with
    | slt =>
      simp only [specCmpRightConst, CmpTrue] at hT ⊢
      have hne : ¬ vr.toInt = smin vl.w := by unfold InRange smin at *; omega
      rw [if_neg hne]
      have hb : InRange vl.w (vr.toInt - 1) := by unfold InRange smin smax at *; omega
      rw [wrap_of_inRange _ hw0 hb]
      exact boundStep_ok g1 p1 P.evl .sle hb (by show vl.toInt ≤ vr.toInt - 1; omega)
    | sle =>
      simp only [specCmpRightConst, CmpTrue] at hT ⊢
      exact boundStep_ok g1 p1 P.evl .sle hrr (by show vl.toInt ≤ vr.toInt; omega)
    | ult =>
      simp only [specCmpRightConst, CmpTrue] at hT ⊢
      have hne : ¬ vr.toInt = 0 := by
        intro e
        rw [e, toU_zero] at hT; omega
      rw [if_neg hne]
      refine boundStep_ok g1 p1 P.evl .ule (wrap_inRange _ hw0 _) ?_
      show toU vl.w vl.toInt ≤ toU vl.w (wrap vl.w (vr.toInt - 1))
      have := toU_pred hw0 hrr hne
      omega
    | ule =>
      simp only [specCmpRightConst, CmpTrue] at hT ⊢
      exact boundStep_ok g1 p1 P.evl .ule hrr hT

/-! ## F. the comparison arms assembled, `BoolNegate`, flags: the theorem -/

theorem specPointerComparison_free {recL recR : Rec} {s : MSt} {isEq : Bool} {l r : Expression}
    (h : ptrCmpFires s l r = false) : specPointerComparison recL recR s isEq l r = some s := by
  unfold ptrCmpFires at h
  unfold specPointerComparison
  simp only
  cases hl : ((s.st.eval l).withoutHints).getIfUniqueTarget with
  | none => simp
  | some pl =>
    obtain ⟨li, lo⟩ := pl
    cases hr : ((s.st.eval r).withoutHints).getIfUniqueTarget with
    | none => simp
    | some pr =>
      obtain ⟨ri, ro⟩ := pr
      rw [hl, hr] at h
      simp only at h ⊢
      by_cases he : li = ri
      · subst he
        simp only [beq_self_eq_true, Bool.true_and] at h
        simp [h]
      · simp [he]

theorem StepsOk.swap {ρ : Nat → Int} {σ : Sem.State} {s : MSt} {l r : Expression} {o : Option MSt}
    (h : StepsOk ρ σ s r l o) : StepsOk ρ σ s l r o := by
  obtain ⟨s', e, g, a1, a2, a3, a4, a5⟩ := h
  exact ⟨s', e, g, a1, a2, a3, a4, fun y hy => a5 y (fun hm => hy (by
    rcases List.mem_append.mp hm with h | h
    · exact List.mem_append_right _ h
    · exact List.mem_append_left _ h))⟩

/-- what one successful specialisation of a condition gives -/
def CondOk (ρ : Nat → Int) (σ : Sem.State) (s : MSt) (o : Option MSt) : Prop :=
  ∃ s', o = some s' ∧ Good ρ σ s' ∧ s'.objs = s.objs ∧ s'.stackId = s.stackId

theorem StepsOk.cond {ρ : Nat → Int} {σ : Sem.State} {s : MSt} {l r : Expression} {o : Option MSt}
    (h : StepsOk ρ σ s l r o) : CondOk ρ σ s o := by
  obtain ⟨s', e, g, a1, a2, _⟩ := h
  exact ⟨s', e, g, a1, a2⟩

theorem int_one_eq_zero : ((1 : Int) = 0) = False := eq_false (by decide)

theorem ofBool_w (b : Bool) : (Bv.ofBool b).w = 8 := rfl
theorem ofBool_toInt (b : Bool) : (Bv.ofBool b).toInt = if b then 1 else 0 := by cases b <;> decide

theorem tryToBv_bit (b : Bool) : (DData.ofBvI 8 (if b then 1 else 0)).tryToBv = some (8, if b then 1 else 0) := by
  cases b <;> decide

/-- the "lhs == rhs" arm with the pointer comparison switched off by the fragment -/
theorem specEqual_sound {ρ : Nat → Int} {σ : Sem.State} {s : MSt} {l r : Expression} {vl vr : Bv}
    (hG : Good ρ σ s) (P : Pair σ s l r vl vr) (heq : vl.toInt = vr.toInt)
    (hfree : ∀ s2, specEqualConsts (specByExpr l) (specByExpr r) s l r = some s2 → ptrCmpFires s2 l r = false) :
    StepsOk ρ σ s l r (specEqual (specByExpr l) (specByExpr r) s l r) := by
  obtain ⟨s2, e2, g2, x2⟩ := specEqualConsts_sound hG P heq
  unfold specEqual
  rw [e2]
  show StepsOk ρ σ s l r (specPointerComparison (specByExpr l) (specByExpr r) s2 true l r)
  rw [specPointerComparison_free (hfree s2 e2)]
  exact ⟨s2, rfl, g2, x2⟩

theorem specNotEqual_sound {ρ : Nat → Int} {σ : Sem.State} {s : MSt} {l r : Expression} {vl vr : Bv}
    (hG : Good ρ σ s) (P : Pair σ s l r vl vr) (hne : vl.toInt ≠ vr.toInt)
    (hfree : ∀ s2, specNotEqualConsts (specByExpr l) (specByExpr r) s l r = some s2 → ptrCmpFires s2 l r = false) :
    StepsOk ρ σ s l r (specNotEqual (specByExpr l) (specByExpr r) s l r) := by
  obtain ⟨s2, e2, g2, x2⟩ := specNotEqualConsts_sound hG P hne
  unfold specNotEqual
  rw [e2]
  show StepsOk ρ σ s l r (specPointerComparison (specByExpr l) (specByExpr r) s2 false l r)
  rw [specPointerComparison_free (hfree s2 e2)]
  exact ⟨s2, rfl, g2, x2⟩

/-- **the six comparisons.** -/
theorem specBinop_cmp_sound {ρ : Nat → Int} {σ : Sem.State} {s : MSt} {op : BinOpType} {l r : Expression} {vl vr : Bv}
    (hG : Good ρ σ s) (P : Pair σ s l r vl vr) (hop : isCmp6 op = true) {bb : Bool}
    (hH : CmpHolds op vl vr bb) (hfree : ptrCmpFree s (.BinOp op l r) bb = true) :
    StepsOk ρ σ s l r (specByExpr (.BinOp op l r) s (DData.ofBvI 8 (if bb then 1 else 0))) := by
  have hsp : specByExpr (.BinOp op l r) s (DData.ofBvI 8 (if bb then 1 else 0)) =
      specBinop (specByExpr l) (specByExpr r) s op l r (DData.ofBvI 8 (if bb then 1 else 0)) := by
    rw [specByExpr]
  rw [hsp]
  have hw : vr.w = vl.w := P.w.symm
  cases op <;> simp only [isCmp6] at hop <;> try (exact absurd hop (by decide))
  all_goals
    simp only [specBinop, tryToBv_bit, specBinopBv]
    simp only [CmpHolds] at hH
    simp only [ptrCmpFree] at hfree
  · -- IntEqual
    cases bb
    · simp only [Bool.false_eq_true, if_false, ne_eq, not_true_eq_false] at hfree ⊢
      refine specNotEqual_sound hG P (fun e => by have := hH.mpr e; cases this) ?_
      intro s2 e2; rw [e2] at hfree; simpa using hfree
    · simp only [if_true, ne_eq, int_one_eq_zero, not_false_eq_true] at hfree ⊢
      refine specEqual_sound hG P (hH.mp rfl) ?_
      intro s2 e2; rw [e2] at hfree; simpa using hfree
  · -- IntNotEqual
    cases bb
    · simp only [Bool.false_eq_true, if_false, ne_eq, not_true_eq_false, Bool.not_false] at hfree ⊢
      refine specEqual_sound hG P (by
        by_cases e : vl.toInt = vr.toInt
        · exact e
        · have := hH.mpr e; cases this) ?_
      intro s2 e2; rw [e2] at hfree; simpa using hfree
    · simp only [if_true, ne_eq, int_one_eq_zero, not_false_eq_true, Bool.not_true] at hfree ⊢
      refine specNotEqual_sound hG P (hH.mp rfl) ?_
      intro s2 e2; rw [e2] at hfree; simpa using hfree
  · -- IntLess
    cases bb
    · simp only [Bool.false_eq_true, if_false, if_true]
      refine (specComparisonOp_sound hG P.symm .ule ?_).swap
      show toU vr.w vr.toInt ≤ toU vr.w vl.toInt
      rw [hw]
      have : ¬ toU vl.w vl.toInt < toU vl.w vr.toInt := fun e => by have := hH.mpr e; cases this
      omega
    · simp only [if_true, int_one_eq_zero, if_false]
      exact specComparisonOp_sound hG P .ult (hH.mp rfl)
  · -- IntSLess
    cases bb
    · simp only [Bool.false_eq_true, if_false, if_true]
      refine (specComparisonOp_sound hG P.symm .sle ?_).swap
      show vr.toInt ≤ vl.toInt
      have : ¬ vl.toInt < vr.toInt := fun e => by have := hH.mpr e; cases this
      omega
    · simp only [if_true, int_one_eq_zero, if_false]
      exact specComparisonOp_sound hG P .slt (hH.mp rfl)
  · -- IntLessEqual
    cases bb
    · simp only [Bool.false_eq_true, if_false, if_true]
      refine (specComparisonOp_sound hG P.symm .ult ?_).swap
      show toU vr.w vr.toInt < toU vr.w vl.toInt
      rw [hw]
      have : ¬ toU vl.w vl.toInt ≤ toU vl.w vr.toInt := fun e => by have := hH.mpr e; cases this
      omega
    · simp only [if_true, int_one_eq_zero, if_false]
      exact specComparisonOp_sound hG P .ule (hH.mp rfl)
  · -- IntSLessEqual
    cases bb
    · simp only [Bool.false_eq_true, if_false, if_true]
      refine (specComparisonOp_sound hG P.symm .slt ?_).swap
      show vr.toInt < vl.toInt
      have : ¬ vl.toInt ≤ vr.toInt := fun e => by have := hH.mpr e; cases this
      omega
    · simp only [if_true, int_one_eq_zero, if_false]
      exact specComparisonOp_sound hG P .sle (hH.mp rfl)

/-- the `LeafPre` of a leaf of a well-sized condition in a well-formed state -/
theorem leafPre_of {s : MSt} (hs : s.st.WF) {e : Expression} (hl : isLeaf e = true) (hw : C12.WellSized e)
    (h8 : e.bytesize ≤ 8) (hsh : leafOk s e = true) : LeafPre s e := by
  cases e with
  | Var x =>
    exact ⟨St.getReg_wf hs x hw, ⟨hw, h8⟩, hsh⟩
  | Const b c => exact ⟨hw, h8⟩
  | _ => simp [isLeaf] at hl

theorem binSizes_cmp {op : BinOpType} (hop : isCmp6 op = true) {a b : Nat} (h : C12.binSizesOk op a b) : a = b := by
  cases op <;> simp only [isCmp6] at hop <;> first | (exact absurd hop (by decide)) | exact h

theorem unOp_bit (b : Bool) :
    (DData.ofBvI 8 (if b then 1 else 0)).unOp .BoolNegate = DData.ofBvI 8 (if (!b) then 1 else 0) := by
  cases b <;> decide

/-- the operand of a `BoolNegate` that evaluates to a boolean is the negated boolean -/
theorem boolNegate_arg {x : Bv} {bb : Bool} (hw : x.w = 8) (h : Ref.unOp .BoolNegate x = .val (Bv.ofBool bb)) :
    x = Bv.ofBool (!bb) := by
  simp only [Ref.unOp] at h
  split at h
  · rename_i h0
    have := ofBool_inj (val_inj h)
    subst this
    apply Bv.ext' hw
    show x.v.toNat = (Bv.ofBool false).v.toNat
    rw [show x.v.toNat = x.toNat from rfl, h0]; rfl
  · split at h
    · rename_i h1
      have := ofBool_inj (val_inj h)
      subst this
      apply Bv.ext' hw
      show x.v.toNat = (Bv.ofBool true).v.toNat
      rw [show x.v.toNat = x.toNat from rfl, h1.2]; rfl
    · cases h

/-- **C13-cond-sound (general form).** By induction on the condition. -/
theorem specByExpr_cond_sound {ρ : Nat → Int} {σ : Sem.State} :
    ∀ (c : Expression) (s : MSt) (bb : Bool), Good ρ σ s → s.st.WF → ExprOk c → condFrag c = true →
      leavesOk s c = true → ptrCmpFree s c bb = true → Sem.eval σ c = some (Bv.ofBool bb) →
      CondOk ρ σ s (specByExpr c s (DData.ofBvI 8 (if bb then 1 else 0))) := by
  intro c
  induction c with
  | Var x =>
    intro s bb hG hs hok hfrag hleaves _ hev
    simp only [condFrag, beq_iff_eq] at hfrag
    have hp : LeafPre s (.Var x) := leafPre_of hs rfl hok.1 (by show x.size ≤ 8; omega) hleaves
    have := specLeaf_const hG.glob hG.regs hG.sized hp hev
    rw [ofBool_w, ofBool_toInt] at this
    obtain ⟨s', e, h1, h2, h3⟩ := this
    exact ⟨s', e, hG.of_same h3 h1 h2, h3.1, h3.2.1⟩
  | BinOp op l r _ _ =>
    intro s bb hG hs hok hfrag hleaves hfree hev
    simp only [condFrag, Bool.and_eq_true, decide_eq_true_eq] at hfrag
    obtain ⟨⟨⟨⟨hop, hll⟩, hlr⟩, hl8⟩, hne⟩ := hfrag
    obtain ⟨hwl, hwr, hsz⟩ := hok.1
    have hsize : l.bytesize = r.bytesize := binSizes_cmp hop hsz
    simp only [leavesOk, Bool.and_eq_true] at hleaves
    obtain ⟨vl, vr, evl, evr, href⟩ := C10.eval_binOp_some.mp hev
    obtain ⟨hw, hH⟩ := ref_cmp href hop
    have P : Pair σ s l r vl vr :=
      ⟨hll, hlr, hne, leafPre_of hs hll hwl hl8 hleaves.1, leafPre_of hs hlr hwr (by omega) hleaves.2, evl, evr, hw⟩
    exact (specBinop_cmp_sound hG P hop hH hfree).cond
  | UnOp op a ih =>
    intro s bb hG hs hok hfrag hleaves hfree hev
    cases op <;> simp only [condFrag] at hfrag <;> try (exact absurd hfrag (by decide))
    -- BoolNegate
    obtain ⟨x, hx, href⟩ := C10.eval_unOp_some.mp hev
    have hoka : ExprOk a := ⟨hok.1.1, hok.2⟩
    have ha1 : a.bytesize = 1 := hok.1.2
    obtain ⟨_, hsz, hm⟩ := St.eval_sound hs hG.glob hG.regs hoka
    have hxw : x.w = 8 := by rw [(hm x hx).1, hsz, ha1]
    have hxb := boolNegate_arg hxw href
    rw [hxb] at hx
    have := ih s (!bb) hG hs hoka hfrag hleaves hfree hx
    rw [specByExpr]
    rw [unOp_bit]
    exact this
  | Const b x =>
    intro s bb _ _ _ hfrag
    simp [condFrag] at hfrag
  | Cast op n a _ =>
    intro s bb _ _ _ hfrag
    simp [condFrag] at hfrag
  | Unknown d n =>
    intro s bb _ _ _ hfrag
    simp [condFrag] at hfrag
  | Subpiece lb n a _ =>
    intro s bb _ _ _ hfrag
    simp [condFrag] at hfrag

/-- the decidable fragment of the theorem: syntactic shape, register shapes, no pointer comparison -/
def condInFrag (s : MSt) (c : Expression) (isTrue : Bool) : Bool :=
  condFrag c && leavesOk s c && ptrCmpFree s c isTrue

/-- **C13-cond-sound.** `Context::specialize_conditional` is a sound transfer of a conditional edge on the fragment:
if the concrete state is represented (registers and stack object), the registers are well-formed, the condition is
well-sized and in the fragment, and the reference interpreter evaluates the condition to the truth value of the branch,
then the specialisation is not "unsatisfiable" and the concrete state is represented by the specialised state (whose
memory objects are unchanged). -/
theorem specializeConditional_sound {ρ : Nat → Int} {s : MSt} (hs : s.WF) (hg : s.st.globals ≠ [] → ρ s.st.gid = 0)
    {σ : Sem.State} (hin : s.In ρ σ) {c : Expression} (hc : ExprOk c) {isTrue : Bool}
    (hfrag : condInFrag s c isTrue = true) (hev : Sem.eval σ c = some (Bv.ofBool isTrue)) :
    ∃ s', specializeConditional s c isTrue = some s' ∧ s'.In ρ σ ∧ s'.objs = s.objs ∧ s'.stackId = s.stackId := by
  simp only [condInFrag, Bool.and_eq_true] at hfrag
  have hG : Good ρ σ s := ⟨hin.1, sized_of_wf hs.regs, hg⟩
  obtain ⟨s', e, g, a1, a2⟩ := specByExpr_cond_sound c s isTrue hG hs.regs hc hfrag.1.1 hfrag.1.2 hfrag.2 hev
  refine ⟨s', e, ⟨g.regs, ?_⟩, a1, a2⟩
  unfold StackIn MSt.stackRegion
  rw [a1, a2]
  exact hin.2

/-! ## G. `Context::update_def` on the fragment -/

theorem checkNull_of_nullFree {s : MSt} {d : Def} (h : nullFree s d = true) :
    checkDefForNullDereferences s d = some (s, false) := by
  unfold checkDefForNullDereferences
  cases d with
  | Assign x e => rfl
  | Load x a =>
    simp only [nullFree] at h ⊢
    cases ha : (s.st.eval a).abs with
    | none => rfl
    | some abs =>
      rw [ha] at h
      simp only at h ⊢
      cases hi : tryToOffsetInterval abs with
      | none => rfl
      | some p =>
        obtain ⟨st, en⟩ := p
        rw [hi] at h
        simp only [Bool.not_eq_true'] at h ⊢
        rw [if_neg (by rw [h]; simp)]
  | Store a e =>
    simp only [nullFree] at h ⊢
    cases ha : (s.st.eval a).abs with
    | none => rfl
    | some abs =>
      rw [ha] at h
      simp only at h ⊢
      cases hi : tryToOffsetInterval abs with
      | none => rfl
      | some p =>
        obtain ⟨st, en⟩ := p
        rw [hi] at h
        simp only [Bool.not_eq_true'] at h ⊢
        rw [if_neg (by rw [h]; simp)]

/-- the `Def`s of the proved fragment, on the state before the step: no NULL detection, well-sized expressions
(`ExprOk`), and
* `Assign`: the value has the size of the register;
* `Store`: pointer-sized address that evaluates to a pointer into the unique stack object only (`storeFrag`), a value of
  at most 8 bytes, no i64 overflow of `offset + size` (`storeBounded`);
* `Load`: pointer-sized address without absolute part whose targets are the stack, identifiers without object or have
  non-constant offsets (`loadFrag`), a register of 1 to 8 bytes. -/
def DefFrag (s : MSt) : Def → Prop
  | .Assign x e => ExprOk e ∧ e.bytesize = x.size
  | .Store a e => ExprOk a ∧ ExprOk e ∧ a.bytesize = 8 ∧ e.bytesize ≤ 8 ∧ s.storeFrag a = true ∧
      s.storeBounded a e.bytesize = true
  | .Load x a => ExprOk a ∧ a.bytesize = 8 ∧ 0 < x.size ∧ x.size ≤ 8 ∧ s.loadFrag a = true

/-- **C13-update-def.** The `Def::Assign`, `Def::Store` and `Def::Load` arms of `Context::update_def` are sound edge
transfers on the fragment: a represented concrete state (registers and stack object) in which the reference interpreter
executes the `Def` is taken to a state represented by the abstract successor state, which exists and is well-formed. -/
theorem updateDef_sound {ρ : Nat → Int} {s : MSt} (hs : s.WF) (hg : s.st.globals ≠ [] → ρ s.st.gid = 0)
    {σ : Sem.State} (h8 : σ.ptrBytes = 8) (hin : s.In ρ σ) {d : Def} (hnull : nullFree s d = true) (hfrag : DefFrag s d)
    {σ' : Sem.State} {ev : List Sem.Event} (hex : Sem.execDef σ d = some (σ', ev)) :
    ∃ s', updateDef s d = some (some s') ∧ s'.In ρ σ' ∧ s'.WF := by
  unfold updateDef
  rw [checkNull_of_nullFree hnull]
  cases d with
  | Assign x e =>
    obtain ⟨he, hsz⟩ := hfrag
    simp only
    simp only [Sem.execDef, bind, Option.bind] at hex
    cases hev : Sem.eval σ e with
    | none => rw [hev] at hex; cases hex
    | some v =>
      rw [hev] at hex
      simp only at hex
      split at hex
      · cases hex
      · simp only [Option.some.injEq, Prod.mk.injEq] at hex
        obtain ⟨hσ', _⟩ := hex
        obtain ⟨r1, r2⟩ := St.handleRegisterAssign_sound hs.regs hg hin.1 he hsz hev
        refine ⟨_, rfl, ⟨by rw [← hσ']; exact r1, ?_⟩, ⟨r2, hs.stack⟩⟩
        unfold StackIn
        rw [← hσ']
        exact hin.2
  | Store a e =>
    obtain ⟨ha, he, hab, he8, hsf, hsb⟩ := hfrag
    simp only
    have hbnd : ∀ id o, (s.st.eval a).getIfUniqueTarget = some (id, o) → ∀ y, o.Mem y → y + (e.bytesize : Int) ≤ i64Max := by
      intro id o hut y hy
      unfold MSt.storeBounded at hsb
      rw [hut] at hsb
      simp only [decide_eq_true_eq] at hsb
      have := hy.2.1
      omega
    obtain ⟨s', e1, e2, e3⟩ := handleStore_sound hs hg h8 hin ha he hab he8 hsf hbnd hex
    exact ⟨s', by rw [e1]; rfl, e2, e3⟩
  | Load x a =>
    obtain ⟨ha, hab, hx0, hx8, hlf⟩ := hfrag
    simp only
    obtain ⟨s', e1, e2, e3⟩ := handleLoad_sound hs hg hin ha hab hx0 hx8 hlf hex
    exact ⟨s', by rw [e1]; rfl, e2, e3⟩

/-! ### non-vacuity: the hypotheses are satisfiable and the transfers do something -/
namespace CondEx

def exRSP : Variable := { name := "RSP", size := 8 }
def exRAX : Variable := { name := "RAX", size := 8 }
def exRBX : Variable := { name := "RBX", size := 8 }

/-- `RSP = stack - 16`, `RAX ∈ [0, 10]` -/
def exM : MSt :=
  { st := { regs := [(exRSP, DData.fromTarget 0 (IntervalDomain.single 64 (-16))),
                     (exRAX, DData.ofItv ⟨⟨64, 0, 10, 1⟩, none, none, 0⟩)], globals := [], gid := 1 }
    stackId := 0
    objs := [(0, { unique := true, mem := [] }), (1, { unique := true, mem := [] })] }

def exAddr : Expression := .BinOp .IntAdd (.Var exRSP) (.Const 8 8)

-- store `RAX` at `stack - 8`, load it back into `RBX`: the loaded value is the stored interval
example : ((exM.handleStore exAddr (.Var exRAX)).bind fun s => s.handleLoad exRBX exAddr).map (fun s => s.st.getReg exRBX)
    = some (DData.ofItv ⟨⟨64, 0, 10, 1⟩, none, none, 0⟩) := by decide
example : exM.storeFrag exAddr = true ∧ exM.storeBounded exAddr 8 = true ∧ nullFree exM (.Store exAddr (.Var exRAX)) = true := by
  decide

-- the true branch of `RAX <s 5` restricts `RAX` to `[0, 4]`, the false branch to `[5, 10]`
def exCond : Expression := .BinOp .IntSLess (.Var exRAX) (.Const 8 5)
example : (specializeConditional exM exCond true).map (fun s => (s.st.getReg exRAX).abs.map (·.interval))
    = some (some ⟨64, 0, 4, 1⟩) := by decide +kernel
example : (specializeConditional exM exCond false).map (fun s => (s.st.getReg exRAX).abs.map (·.interval))
    = some (some ⟨64, 5, 10, 1⟩) := by decide +kernel
example : condInFrag exM exCond true = true ∧ condInFrag exM exCond false = true := by decide
-- `RAX == 11` is unsatisfiable in the true branch (and the theorem says: then no represented state takes that branch)
example : specializeConditional exM (.BinOp .IntEqual (.Var exRAX) (.Const 8 11)) true = none := by decide

/-! the two theorems applied: the hypotheses are satisfiable -/

def exσ2 : Sem.State := (({ seed := 1 } : Sem.State).setReg exRSP (Bv.ofNat 64 0x7ffd00000ff0)).setReg exRAX (Bv.ofNat 64 3)
def exρ : Nat → Int := fun _ => 0x7ffd00001000

theorem exRAX_wf : (DData.ofItv ⟨⟨64, 0, 10, 1⟩, none, none, 0⟩).WF ∧ (DData.ofItv ⟨⟨64, 0, 10, 1⟩, none, none, 0⟩).size = 8 :=
  DData.ofItv_wf (k := 8) (C02.ofInterval_wf' (I := ⟨64, 0, 10, 1⟩) (by decide)) (by decide) rfl

theorem exM_wf : exM.WF := by
  refine ⟨?_, regionOK_nil⟩
  intro v d hm
  simp only [exM, List.mem_cons, Prod.mk.injEq, List.not_mem_nil, or_false] at hm
  rcases hm with ⟨rfl, rfl⟩ | ⟨rfl, rfl⟩
  · exact ⟨exPtr_wf' 0 (-16) (by decide), rfl⟩
  · exact ⟨exRAX_wf.1, rfl⟩

theorem exM_in : exM.In exρ exσ2 := by
  refine ⟨?_, fun c hc => absurd hc List.not_mem_nil⟩
  intro v
  unfold exσ2
  rw [C10.getReg_setReg]
  by_cases h1 : v = exRAX
  · subst h1
    simp only [if_true]
    exact (DData.contains_iff exRAX_wf.1 _).mp (by decide)
  · rw [if_neg h1, C10.getReg_setReg]
    by_cases h2 : v = exRSP
    · subst h2
      simp only [if_true]
      exact (DData.contains_iff (exPtr_wf' 0 (-16) (by decide)) _).mp (by decide)
    · have h1' : ¬ exRAX = v := fun e => h1 e.symm
      have h2' : ¬ exRSP = v := fun e => h2 e.symm
      simp only [h2, if_false, St.getReg, exM, List.find?, h1', h2', decide_false]
      exact ⟨C10.stateWF_default 1 v, Or.inl rfl⟩

-- `specializeConditional_sound` applies to the true branch of `RAX <s 5` at `RAX = 3`
example : ∃ s', specializeConditional exM exCond true = some s' ∧ s'.In exρ exσ2 ∧ s'.objs = exM.objs ∧ s'.stackId = exM.stackId :=
  specializeConditional_sound exM_wf (fun h => absurd rfl h) exM_in (c := exCond)
    ⟨⟨by decide, by decide, rfl⟩, trivial, trivial⟩ (by decide) (by rfl)

-- `updateDef_sound` applies to the store of `RAX` at `stack - 8`
example : ∃ s', updateDef exM (.Store exAddr (.Var exRAX)) = some (some s') ∧
    s'.In exρ (exσ2.writeMem 0x7ffd00000ff8 8 3) ∧ s'.WF :=
  updateDef_sound exM_wf (fun h => absurd rfl h) rfl exM_in (d := .Store exAddr (.Var exRAX)) (by decide)
    ⟨⟨⟨by decide, by decide, rfl⟩, trivial, trivial⟩, ⟨by decide, trivial⟩, rfl, by decide, by decide, by decide⟩ (by rfl)

end CondEx

end CweModel.C13
