/-
C13 — pointer inference never excludes values that can occur at runtime.

Anchors: `analysis/pointer_inference/mod.rs` (`run`, `PointerInference::compute`),
`context/trait_impls.rs` (`update_def`, `specialize_conditional`), `state/access_handling.rs`
(`check_def_for_null_dereferences`, `handle_load`, `handle_store`), `state/value_specialization.rs`,
`vsa_result_impl.rs`.

The real analysis (~5000 lines: object lists, id renaming, call handling) is NOT modelled. This file has
 §1 the abstract values the analysis reports (`AData`: relative targets id ↦ strided offset interval,
    absolute strided interval, `contains_top_values`) and their concretisation `γ` under a valuation
    of the abstract identifiers — declarative (`AData.Mem`) and executable (`AData.contains`);
 §2 the valuation of identifiers from the ENTRY state of a run: a parameter register id is the entry
    value of the register, the stack id is the entry stack pointer, a (nested) memory parameter id is
    the entry memory content at the described location;
 §3 a block-by-block variant of the reference interpreter (`Base/IRSem`): it records the state at
    every block start and block end and aborts the run at a load/store whose address lies in the
    NULL window (−1024, 1024) (signed);
 §4 the executable specification `checkRun`: every visited block has an analysis state at its
    `BlkStart` node in which every register's concrete value is a member of `γ`; a block whose defs
    were all executed has a state at its `BlkEnd` node (otherwise the analysis declared one of its
    accesses a CERTAIN NULL dereference although it completed), again containing every register;
 §5 the model of the NULL-window decision of `State::check_def_for_null_dereferences` on the
    absolute part of the address value (`nullCheck`), built on the C04 model of
    `add_signed_greater_equal_bound` / `add_signed_less_equal_bound`.
-/
import CweModel.Base.IRSem
import CweModel.Base.Interval
import CweModel.C04.Model

namespace CweModel.C13
open CweModel CweModel.IR CweModel.Itv

/-! ## §1 Abstract values and γ -/

/-- `AbstractMemoryLocation` -/
inductive MemLoc where
  | location (offset : Int) (size : Nat)
  | pointer (offset : Int) (target : MemLoc)
deriving Repr, DecidableEq, Inhabited

/-- `AbstractLocation` -/
inductive Loc where
  | register (v : Variable)
  | pointer (v : Variable) (m : MemLoc)
  | globalAddress (address : Nat) (size : Nat)
  | globalPointer (address : Nat) (m : MemLoc)
deriving Repr, DecidableEq, Inhabited

/-- `AbstractIdentifier` (time, location, number of path hints) -/
structure AbsId where
  tid : String
  loc : Loc
  hints : Nat := 0
deriving Repr, DecidableEq, Inhabited

/-- `DataDomain<IntervalDomain>`: relative targets by identifier number, absolute interval, top flag -/
structure AData where
  rel : List (Nat × Interval)
  abs : Option Interval
  top : Bool
deriving Repr, Inhabited

/-- signed reading of a `w`-bit value -/
def toSigned (w : Nat) (c : Nat) : Int := Itv.wrap w (c : Int)

/-- **γ** (declarative): the `w`-bit value `c` is represented by `d` when identifier `i` stands for
the concrete value `ν i` (`none`: identifier of a kind that cannot be valuated from the entry state). -/
def AData.Mem (ν : Nat → Option Nat) (w : Nat) (d : AData) (c : Nat) : Prop :=
  d.top = true ∨
  (∃ I, d.abs = some I ∧ I.Mem (toSigned w c)) ∨
  (∃ i I, (i, I) ∈ d.rel ∧ (match ν i with
      | none => True
      | some base => I.Mem (toSigned w (c + 2 ^ w - base % 2 ^ w))))

/-- executable γ-membership -/
def AData.contains (ν : Nat → Option Nat) (w : Nat) (d : AData) (c : Nat) : Bool :=
  d.top ||
  (match d.abs with | some I => decide (I.Mem (toSigned w c)) | none => false) ||
  d.rel.any (fun p => match ν p.1 with
      | none => true
      | some base => decide (p.2.Mem (toSigned w (c + 2 ^ w - base % 2 ^ w))))

/-! ## §2 Valuation of identifiers from the entry state -/

/-- `base + off` as an address (wraps at the pointer size) -/
def addAddr (σ0 : Sem.State) (base : Nat) (off : Int) : Nat :=
  (((base : Int) + off) % ((2 ^ (8 * σ0.ptrBytes) : Nat) : Int)).toNat

/-- entry memory content described by an `AbstractMemoryLocation` relative to `base` -/
def evalMemLoc (σ0 : Sem.State) : MemLoc → Nat → Nat
  | .location off size, base => σ0.readMem (addAddr σ0 base off) size
  | .pointer off target, base => evalMemLoc σ0 target (σ0.readMem (addAddr σ0 base off) σ0.ptrBytes)

/-- value of an identifier of function `fn` in the entry state `σ0` -/
def valuate (σ0 : Sem.State) (fn : String) (id : AbsId) : Option Nat :=
  if id.tid != fn || id.hints != 0 then none else
  match id.loc with
  | .register v => some (σ0.getReg v).toNat
  | .pointer v m => some (evalMemLoc σ0 m (σ0.getReg v).toNat)
  | _ => none

/-! ## §3 Block-by-block reference execution -/

/-- the NULL window of the property: signed address in (−1024, 1024) -/
def inNullWindow (ptrBits : Nat) (addr : Nat) : Bool :=
  let a := toSigned ptrBits addr
  decide (-1024 < a) && decide (a < 1024)

inductive DefStop where
  | stuck
  | nullAbort (defTid : String)
deriving Repr, DecidableEq

/-- execute the defs of a block; a load/store with an address in the NULL window aborts -/
def execDefsNull (σ : Sem.State) : List (Term Def) → Except DefStop Sem.State
  | [] => .ok σ
  | d :: ds =>
    let addr? : Option Expression := match d.term with
      | .Load _ a => some a
      | .Store a _ => some a
      | .Assign _ _ => none
    let blocked : Except DefStop Unit := match addr? with
      | none => .ok ()
      | some a =>
        match Sem.eval σ a with
        | none => .error .stuck
        | some v => if inNullWindow (8 * σ.ptrBytes) v.toNat then .error (.nullAbort d.tid.id) else .ok ()
    match blocked with
    | .error e => .error e
    | .ok () =>
      match Sem.execDef σ d.term with
      | none => .error .stuck
      | some (σ', _) => execDefsNull σ' ds

/-- how control reached a block -/
inductive Via where
  | entry | jump | condTrue | condFalse
deriving Repr, DecidableEq

def Via.name : Via → String
  | .entry => "entry" | .jump => "jump" | .condTrue => "cond-true" | .condFalse => "cond-false"

/-- next block decided by the jumps (only intraprocedural jumps continue the run) -/
def nextBlock (σ : Sem.State) : List (Term Jmp) → Option (Tid × Via)
  | [] => none
  | j :: rest =>
    match j.term with
    | .Branch t => some (t, .jump)
    | .CBranch t c =>
      match Sem.eval σ c with
      | none => none
      | some v =>
        if v.toNat != 0 then some (t, .condTrue)
        else match rest with
          | j2 :: _ => (match j2.term with
              | .Branch t2 => some (t2, .condFalse)
              | _ => none)
          | [] => none
    | _ => none

structure Visit where
  blk : Term Blk
  via : Via
  start : Sem.State
  /-- state after all defs; `none` if the run stopped inside the block -/
  stop : Option Sem.State
  aborted : Option String := none

/-- run from block `cur` for at most `fuel` blocks -/
def runVisits (blocks : List (Term Blk)) : Nat → Tid → Via → Sem.State → List Visit
  | 0, _, _, _ => []
  | fuel + 1, cur, via, σ =>
    match blocks.find? (fun b => b.tid == cur) with
    | none => []
    | some b =>
      match execDefsNull σ b.term.defs with
      | .error (.nullAbort t) => [{ blk := b, via := via, start := σ, stop := none, aborted := some t }]
      | .error .stuck => [{ blk := b, via := via, start := σ, stop := none }]
      | .ok σ₁ =>
        let v : Visit := { blk := b, via := via, start := σ, stop := some σ₁ }
        match nextBlock σ₁ b.term.jmps with
        | none => [v]
        | some (t, via') => v :: runVisits blocks fuel t via' σ₁

/-! ## §4 Executable specification -/

/-- what the analysis reports for a block: register values at `BlkStart` / `BlkEnd` (`none` = the
node has no value); registers that are not listed are `Top` -/
structure BlockInfo where
  tid : String
  atStart : Option (List (String × AData))
  atEnd : Option (List (String × AData))

inductive Failure where
  | unreachableReached (blk : String) (via : Via)
  | certainNullCompleted (blk : String)
  | excluded (blk : String) (atEnd : Bool) (via : Via) (reg : String) (value : Nat)
deriving Repr

/-- first register of `info` whose concrete value in `σ` is not represented -/
def firstExcluded (ν : Nat → Option Nat) (regs : List Variable) (info : List (String × AData)) (σ : Sem.State) :
    Option (String × Nat) :=
  (info.findSome? fun (name, d) =>
    match regs.find? (·.name == name) with
    | none => none
    | some v =>
      let c := (σ.getReg v).toNat
      if d.contains ν (8 * v.size) c then none else some (name, c))

def checkVisit (ν : Nat → Option Nat) (regs : List Variable) (infos : List BlockInfo) (v : Visit) : Option Failure :=
  match infos.find? (·.tid == v.blk.tid.id) with
  | none => some (.unreachableReached v.blk.tid.id v.via)
  | some bi =>
    match bi.atStart with
    | none => some (.unreachableReached v.blk.tid.id v.via)
    | some s =>
      match firstExcluded ν regs s v.start with
      | some (r, c) => some (.excluded v.blk.tid.id false v.via r c)
      | none =>
        match v.stop with
        | none => none
        | some σ₁ =>
          match bi.atEnd with
          | none => some (.certainNullCompleted v.blk.tid.id)
          | some e =>
            match firstExcluded ν regs e σ₁ with
            | some (r, c) => some (.excluded v.blk.tid.id true v.via r c)
            | none => none

def checkRun (ν : Nat → Option Nat) (regs : List Variable) (infos : List BlockInfo) (vs : List Visit) : Option Failure :=
  vs.findSome? (checkVisit ν regs infos)

/-! ## §5 The NULL-window decision of `check_def_for_null_dereferences` -/

/-- outcome of the decision on the absolute part `a` of the address value
(`rest` = the value also has relative targets or the top flag):
`noDetect` ↔ `Ok(false)`, `possible r` ↔ `Ok(true)` with the absolute part replaced by `r`,
`certain` ↔ `Err("Unsatisfiable state")`. -/
inductive NullRes where
  | noDetect
  | possible (newAbs : Option IntervalDomain)
  | certain
deriving Repr, DecidableEq

def window (x : Int) : Bool := decide (-1024 < x) && decide (x < 1024)

/-- the restricted absolute part: the start bound is tested first -/
def nullNew (a : IntervalDomain) : Option IntervalDomain :=
  if window a.interval.start then a.addSignedGreaterEqualBound 1024
  else a.addSignedLessEqualBound (-1024)

/-- `check_def_for_null_dereferences` up to `specialize_by_expression_result`:
`get_absolute_value().and_then(try_to_offset_interval)` needs a non-`Top` interval. -/
def nullCheck (abs : Option IntervalDomain) (rest : Bool) : NullRes :=
  match abs with
  | none => .noDetect
  | some a =>
    if a.isTop then .noDetect
    else if window a.interval.start || window a.interval.stop then
      (if (nullNew a).isNone && !rest then .certain else .possible (nullNew a))
    else .noDetect

end CweModel.C13
