/-
C13 — "PI-lite", layer 4: CONDITIONAL SPECIALISATION and the `Def` transfer of the pointer inference.

Mirrors, function by function,
* `abstract_domain/interval.rs`: `without_widening_hints`, `fits_into_size`,
* `abstract_domain/data/conditional_specialization.rs`: `intersect_relative_values`, `intersect`,
  `without_widening_hints` of `DataDomain` (the five `add_*_bound` are `DData.addBound`, C04),
* `analysis/pointer_inference/state/value_specialization.rs`: `specialize_by_expression_result`,
  `specialize_by_binop_expression_result`, `specialize_pointer_comparison`, `specialize_by_comparison_op`
  — ALL arms (also the ones outside the proved fragment: `IntAdd`/`IntSub`, `XOr`, `Or`, `BoolAnd`, the
  default "evaluate and test" arm, casts and subpieces),
* `analysis/pointer_inference/context/trait_impls.rs`: `specialize_conditional`, `update_def`
  (non-MIPS: `is_mips_gp_load_to_top_value` is `false`),
* `analysis/pointer_inference/state/access_handling.rs`: `check_def_for_null_dereferences` in full (the
  decision `nullCheck` of `C13/Model.lean` followed by the specialisation of the address expression).

How the real code treats a condition that is "routed through a flag": it does NOT trace it.
`specialize_conditional` ignores `_block_before_condition` and calls
`specialize_by_expression_result(condition, is_true as u8)`. If the condition is a variable (a flag or a
temporary), only that variable is restricted (`Var` arm: intersection with `{0}` / `{1}`); the registers the
flag was computed from are restricted only when the IR passes (expression propagation) put the comparison
itself into the condition. Both shapes are in the fragment.

`none` = `Err` ("unsatisfiable"). Operand widths are assumed consistent (well-sized expressions on a state
whose register values have the size of their register): apint panics on mixed widths are not represented.
-/
import CweModel.C13.Model
import CweModel.C13.Stack

namespace CweModel.C13
open CweModel CweModel.IR CweModel.Itv CweModel.MemRegion

/-- `IntervalDomain::without_widening_hints` -/
def itvWithoutHints (a : IntervalDomain) : IntervalDomain := { a with upper := none, lower := none, delay := 0 }

/-- `IntervalDomain::fits_into_size` (`size` in bytes) -/
def itvFitsIntoSize (a : IntervalDomain) (size : Nat) : Bool :=
  if size ≥ itvBytes a then true
  else decide (smin (8 * size) ≤ a.interval.start) && decide (smax (8 * size) ≥ a.interval.stop)

namespace DData

/-- `without_widening_hints` -/
def withoutHints (d : DData) : DData :=
  { d with rel := d.rel.map (fun p => (p.1, itvWithoutHints p.2)), abs := d.abs.map itvWithoutHints }

/-- `intersect_relative_values` -/
def intersectRel (l r : List (Nat × IntervalDomain)) : List (Nat × IntervalDomain) :=
  l.filterMap fun p => (lookupRel p.1 r).bind fun o' => (p.2.intersect o').map fun x => (p.1, x)

/-- `<DataDomain<T> as SpecializeByConditional>::intersect`; `none` = `Err("Domain is empty.")` -/
def intersect (a b : DData) : Option DData :=
  let r : DData := match a.top, b.top with
    | true, false => b
    | false, true => a
    | _, _ =>
      { size := a.size
        rel := intersectRel a.rel b.rel
        abs := match a.abs, b.abs with
          | some x, some y => x.intersect y
          | _, _ => none
        top := a.top && b.top }
  let r := if !a.rel.isEmpty then (match b.abs with | some v => r.merge (ofItv v) | none => r) else r
  let r := if !b.rel.isEmpty then (match a.abs with | some v => r.merge (ofItv v) | none => r) else r
  if r.isEmpty then none else some r

/-- `TryToBitvec::try_to_bitvec` with the width of the vector -/
def tryToBv (d : DData) : Option (Nat × Int) :=
  if !d.rel.isEmpty || d.top then none
  else match d.abs with
    | some a => a.tryToBitvec.map fun x => (a.interval.w, x)
    | none => none

/-- `TryToInterval::try_to_interval` -/
def tryToInterval (d : DData) : Option Interval :=
  if !d.rel.isEmpty || d.top then none
  else match d.abs with
    | some a => if a.isTop then none else some a.interval
    | none => none

/-- `Bitvector → Data` -/
def ofBvI (w : Nat) (x : Int) : DData := ofItv (IntervalDomain.single w x)

end DData

/-- `a ^ b` on `w`-bit vectors given by their signed values -/
def xorI (w : Nat) (x y : Int) : Int := (BitVec.ofInt w x ^^^ BitVec.ofInt w y).toInt

/-- `AbstractObjectList::is_unique_object(id).unwrap_or(false)` -/
def isUniqueObject (objs : Objs) (id : Nat) : Bool :=
  match objGet objs id with
  | some o => o.unique
  | none => false

/-- the recursive calls of `specialize_by_expression_result` on the two operands of a binary operation -/
abbrev Rec := MSt → DData → Option MSt

/-- `specialize_pointer_comparison` (`isEq`: the operator is `IntEqual`, else `IntNotEqual`) -/
def specPointerComparison (recL recR : Rec) (s : MSt) (isEq : Bool) (l r : Expression) : Option MSt :=
  let lp := (s.st.eval l).withoutHints
  let rp := (s.st.eval r).withoutHints
  match lp.getIfUniqueTarget, rp.getIfUniqueTarget with
  | some (li, lo), some (ri, ro) =>
    if li = ri then
      if !isUniqueObject s.objs li then some s
      else if isEq then
        match lo.intersect ro with
        | none => none
        | some so =>
          let sd := DData.fromTarget li so
          match recL s sd with
          | none => none
          | some s => recR s sd
      else
        let s1 : Option MSt := match ro.tryToBitvec with
          | some rb =>
            match lo.addNotEqualBound rb with
            | none => none
            | some nl => recL s (DData.fromTarget li nl)
          | none => some s
        match s1 with
        | none => none
        | some s =>
          match lo.tryToBitvec with
          | some lb =>
            match ro.addNotEqualBound lb with
            | none => none
            | some nr => recR s (DData.fromTarget ri nr)
          | none => some s
    else some s
  | _, _ => some s

/-- the four operators of `specialize_by_comparison_op` -/
inductive CmpOp where
  | slt | sle | ult | ule
deriving DecidableEq, Repr

def CmpOp.swapNeg : CmpOp → CmpOp
  | .slt => .sle | .sle => .slt | .ult => .ule | .ule => .ult

/-- the refinement step of `specNotEqualConsts` / `specialize_by_comparison_op`:
`let new_result = self.eval(e).without_widening_hints().add_*_bound(&bound)?; self.specialize_by_expression_result(e, new_result)?` -/
def boundStep (rec : Rec) (s : MSt) (e : Expression) (k : BoundKind) (bound : Int) : Option MSt :=
  match (s.st.eval e).withoutHints.addBound k bound with
  | none => none
  | some n => rec s n

/-- first half of `specialize_by_comparison_op`: the left operand is a constant `lb` (`w` bit) -/
def specCmpLeftConst (recR : Rec) (s : MSt) (op : CmpOp) (w : Nat) (lb : Int) (r : Expression) : Option MSt :=
  match op with
  | .slt => if lb = smax w then none else boundStep recR s r .sge (wrap w (lb + 1))
  | .sle => boundStep recR s r .sge lb
  | .ult => if lb = -1 then none else boundStep recR s r .uge (wrap w (lb + 1))   -- `Bitvector::unsigned_max_value`
  | .ule => boundStep recR s r .uge lb

/-- second half: the right operand is a constant `rb` -/
def specCmpRightConst (recL : Rec) (s : MSt) (op : CmpOp) (w : Nat) (rb : Int) (l : Expression) : Option MSt :=
  match op with
  | .slt => if rb = smin w then none else boundStep recL s l .sle (wrap w (rb - 1))
  | .sle => boundStep recL s l .sle rb
  | .ult => if rb = 0 then none else boundStep recL s l .ule (wrap w (rb - 1))
  | .ule => boundStep recL s l .ule rb

/-- `if let Ok(bitvec) = self.eval(e).try_to_bitvec() { … }`: a step that is taken only if `e` evaluates to a
single constant (`w` bit, signed value `b`) -/
def stepIfConst (s : MSt) (e : Expression) (F : Nat → Int → Option MSt) : Option MSt :=
  match (s.st.eval e).tryToBv with
  | some (w, b) => F w b
  | none => some s

/-- `…?;` followed by the rest of the function -/
def andThen (o : Option MSt) (F : MSt → Option MSt) : Option MSt :=
  match o with
  | none => none
  | some s => F s

/-- `specialize_by_comparison_op`: `l op r` is true -/
def specComparisonOp (recL recR : Rec) (s : MSt) (op : CmpOp) (l r : Expression) : Option MSt :=
  andThen (stepIfConst s l fun w lb => specCmpLeftConst recR s op w lb r)
    fun s => stepIfConst s r fun w rb => specCmpRightConst recL s op w rb l

/-- "lhs == rhs" arm of `IntEqual`/`IntNotEqual`, the two steps before the pointer comparison -/
def specEqualConsts (recL recR : Rec) (s : MSt) (l r : Expression) : Option MSt :=
  andThen (stepIfConst s l fun w b => recR s (DData.ofBvI w b))
    fun s => stepIfConst s r fun w b => recL s (DData.ofBvI w b)

/-- "lhs == rhs" arm -/
def specEqual (recL recR : Rec) (s : MSt) (l r : Expression) : Option MSt :=
  andThen (specEqualConsts recL recR s l r) fun s => specPointerComparison recL recR s true l r

/-- "lhs != rhs" arm, the two steps before the pointer comparison -/
def specNotEqualConsts (recL recR : Rec) (s : MSt) (l r : Expression) : Option MSt :=
  andThen (stepIfConst s l fun _ b => boundStep recR s r .ne b)
    fun s => stepIfConst s r fun _ b => boundStep recL s l .ne b

/-- "lhs != rhs" arm -/
def specNotEqual (recL recR : Rec) (s : MSt) (l r : Expression) : Option MSt :=
  andThen (specNotEqualConsts recL recR s l r) fun s => specPointerComparison recL recR s false l r

def isZeroBv (d : DData) : Bool :=
  match d.tryToBv with
  | some (_, b) => b == 0
  | none => false

def isNonZeroBv (d : DData) : Bool :=
  match d.tryToBv with
  | some (_, b) => b != 0
  | none => false

/-- the part of `specialize_by_binop_expression_result` behind `if let Ok(result_bitvec) = result.try_to_bitvec()` -/
def specBinopBv (recL recR : Rec) (s : MSt) (op : BinOpType) (l r : Expression) (w : Nat) (rb : Int) : Option MSt :=
  match op with
  | .IntXOr | .BoolXOr =>
    let s1 : Option MSt := match (s.st.eval l).tryToBv with
      | some (_, b) => recR s (DData.ofBvI w (xorI w rb b))
      | none => some s
    match s1 with
    | none => none
    | some s =>
      match (s.st.eval r).tryToBv with
      | some (_, b) => recL s (DData.ofBvI w (xorI w rb b))
      | none => some s
  | .IntOr | .BoolOr =>
    if rb = 0 then
      match recL s (DData.ofBvI w rb) with
      | none => none
      | some s => recR s (DData.ofBvI w rb)
    else if isZeroBv (s.st.eval l) then recR s (DData.ofBvI w rb)
    else if isZeroBv (s.st.eval r) then recL s (DData.ofBvI w rb)
    else some s
  | .BoolAnd =>
    if rb ≠ 0 then
      match recL s (DData.ofBvI w rb) with
      | none => none
      | some s => recR s (DData.ofBvI w rb)
    else if isNonZeroBv (s.st.eval l) then recR s (DData.ofBvI w rb)
    else if isNonZeroBv (s.st.eval r) then recL s (DData.ofBvI w rb)
    else some s
  | .IntEqual => if rb ≠ 0 then specEqual recL recR s l r else specNotEqual recL recR s l r
  | .IntNotEqual => if rb ≠ 0 then specNotEqual recL recR s l r else specEqual recL recR s l r
  | .IntSLess =>
    if rb = 0 then specComparisonOp recR recL s .sle r l else specComparisonOp recL recR s .slt l r
  | .IntSLessEqual =>
    if rb = 0 then specComparisonOp recR recL s .slt r l else specComparisonOp recL recR s .sle l r
  | .IntLess =>
    if rb = 0 then specComparisonOp recR recL s .ule r l else specComparisonOp recL recR s .ult l r
  | .IntLessEqual =>
    if rb = 0 then specComparisonOp recR recL s .ult r l else specComparisonOp recL recR s .ule l r
  | _ =>
    match (s.st.eval (.BinOp op l r)).tryToInterval with
    | some I => if I.contains rb then some s else none
    | none => some s

/-- `specialize_by_binop_expression_result` -/
def specBinop (recL recR : Rec) (s : MSt) (op : BinOpType) (l r : Expression) (result : DData) : Option MSt :=
  match op with
  | .IntAdd =>
    match recR s (result.binOp .IntSub (s.st.eval l).withoutHints) with
    | none => none
    | some s => recL s (result.binOp .IntSub (s.st.eval r).withoutHints)
  | .IntSub =>
    match recR s ((s.st.eval l).withoutHints.binOp .IntSub result) with
    | none => none
    | some s => recL s (result.binOp .IntAdd (s.st.eval r).withoutHints)
  | _ =>
    match result.tryToBv with
    | some (w, rb) => specBinopBv recL recR s op l r w rb
    | none => some s

/-- `specialize_by_expression_result`; `none` = `Err` -/
def specByExpr : Expression → MSt → DData → Option MSt
  | .Var v, s, res =>
    ((s.st.eval (.Var v)).intersect res).map fun d => { s with st := s.st.setReg v d }
  | .BinOp op l r, s, res => specBinop (specByExpr l) (specByExpr r) s op l r res
  | .Const b x, s, res =>
    match res.tryToBv with
    | some (w, rb) => if w = 8 * b ∧ rb = (Bv.ofBytes b x).toInt then some s else none
    | none => some s
  | .UnOp op a, s, res =>
    match op with
    | .IntNegate | .BoolNegate | .Int2Comp => specByExpr a s (res.unOp op)
    | _ => some s
  | .Cast op _ a, s, res =>
    match op with
    | .IntZExt | .IntSExt => specByExpr a s (res.subpiece 0 a.bytesize)
    | _ => some s
  | .Unknown _ _, s, _ => some s
  | .Subpiece lb size a, s, res =>
    if lb = 0 then
      match (s.st.eval a).getIfAbsoluteValue with
      | some av => if itvFitsIntoSize av size then specByExpr a s (res.cast .IntSExt a.bytesize) else some s
      | none => some s
    else some s


/-! ### the fragment of the soundness theorem (decidable) -/

def isCmp6 : BinOpType → Bool
  | .IntEqual | .IntNotEqual | .IntLess | .IntLessEqual | .IntSLess | .IntSLessEqual => true
  | _ => false

/-- an operand of a comparison: a register / flag / temporary or a constant -/
def isLeaf : Expression → Bool
  | .Var _ => true
  | .Const _ _ => true
  | _ => false

/-- conditions of the proved fragment: a 1-byte variable (flag or temporary), one of the six integer
comparisons of two different leaves of at most 8 bytes (either order), and `BoolNegate` of such conditions (any depth) -/
def condFrag : Expression → Bool
  | .Var v => v.size == 1
  | .BinOp op l r => isCmp6 op && isLeaf l && isLeaf r && decide (l.bytesize ≤ 8) && decide (l ≠ r)
  | .UnOp .BoolNegate a => condFrag a
  | _ => false

/-- shape of a register value the theorem covers: absolute values (with or without top flag) or pointers
without absolute part (not the mixture "pointer or constant"), distinct target identifiers (always true for a
`BTreeMap`) -/
def valueShapeOk (d : DData) : Bool :=
  (d.rel.isEmpty || d.abs.isNone) && decide ((d.rel.map (·.1)).Nodup)

def leafOk (s : MSt) : Expression → Bool
  | .Var x => valueShapeOk (s.st.eval (.Var x))
  | _ => true

/-- state-dependent part of the fragment: every register the condition mentions holds a value of the covered shape -/
def leavesOk (s : MSt) : Expression → Bool
  | .Var x => leafOk s (.Var x)
  | .BinOp _ l r => leafOk s l && leafOk s r
  | .UnOp _ a => leavesOk s a
  | _ => true

/-- `specialize_pointer_comparison` does something: both operands are pointers to the same unique object -/
def ptrCmpFires (s : MSt) (l r : Expression) : Bool :=
  match (s.st.eval l).withoutHints.getIfUniqueTarget, (s.st.eval r).withoutHints.getIfUniqueTarget with
  | some (li, _), some (ri, _) => li == ri && isUniqueObject s.objs li
  | _, _ => false

/-- state-dependent part of the fragment: where `specialize_pointer_comparison` is reached (after the two
constant steps of an `IntEqual`/`IntNotEqual` arm) it does nothing, i.e. the operands are not two pointers into
the same unique object (there the offsets are intersected; validated only). `tv`: the truth value the
condition is specialised to. -/
def ptrCmpFree (s : MSt) : Expression → Bool → Bool
  | .BinOp op l r, tv =>
    let after (eq : Bool) : Option MSt :=
      if eq then specEqualConsts (specByExpr l) (specByExpr r) s l r
      else specNotEqualConsts (specByExpr l) (specByExpr r) s l r
    let ok (o : Option MSt) : Bool := match o with | some s2 => !ptrCmpFires s2 l r | none => true
    match op with
    | .IntEqual => ok (after tv)
    | .IntNotEqual => ok (after (!tv))
    | _ => true
  | .UnOp _ a, tv => ptrCmpFree s a (!tv)
  | _, _ => true

/-- `Context::specialize_conditional` (`none` = the branch is unsatisfiable: no state flows along the edge) -/
def specializeConditional (s : MSt) (condition : Expression) (isTrue : Bool) : Option MSt :=
  specByExpr condition s (DData.ofBvI 8 (if isTrue then 1 else 0))

/-- `check_def_for_null_dereferences`: `none` = `Err`, else the state and the flag "possible NULL dereference" -/
def checkDefForNullDereferences (s : MSt) (d : Def) : Option (MSt × Bool) :=
  let go (address : Expression) : Option (MSt × Bool) :=
    let av := s.st.eval address
    match av.abs with
    | none => some (s, false)
    | some abs =>
      match tryToOffsetInterval abs with
      | none => some (s, false)
      | some (st, en) =>
        if window st || window en then
          let newAbs := if window st then abs.addSignedGreaterEqualBound 1024 else abs.addSignedLessEqualBound (-1024)
          let av' : DData := { av with abs := newAbs }
          if av'.isEmpty then none
          else (specByExpr address s av').map fun s' => (s', true)
        else some (s, false)
  match d with
  | .Assign _ _ => some (s, false)
  | .Load _ a => go a
  | .Store a _ => go a

/-- `check_def_for_null_dereferences` detects nothing: the absolute part of the address value (if any, and if it
is a bounded interval) neither starts nor ends in the NULL window `(-1024, 1024)` -/
def nullFree (s : MSt) : Def → Bool
  | .Assign _ _ => true
  | .Load _ a | .Store a _ =>
    match (s.st.eval a).abs with
    | none => true
    | some abs =>
      match tryToOffsetInterval abs with
      | none => true
      | some (st, en) => !(window st || window en)

/-- `Context::update_def`: outer `none` = panic / outside the model (see `Stack.lean`), inner `none` = no
successor state (certain NULL dereference) -/
def updateDef (s : MSt) (d : Def) : Option (Option MSt) :=
  match checkDefForNullDereferences s d with
  | none => some none
  | some (s, _) =>
    match d with
    | .Store a v => (s.handleStore a v).map some
    | .Assign x e => some (some { s with st := s.st.handleRegisterAssign x e })
    | .Load x a => (s.handleLoad x a).map some

end CweModel.C13
