/-
C13 — "PI-lite", layer 5, theorems: the JOIN (`State::merge`) is an upper bound and the extern-CALL transfer
(`update_call_stub`) is sound, for the concretisation "registers + stack object" of `StackProps.lean`.

Reused (cited): C03 merge laws of `IntervalDomain` WITH widening (`ivDom_laws_partial`, through `DData.merge_mem_left/right`,
`merge_wf`), C05 `mem_mergeInner` + `Spec.mem_merge` ("`merge_inner` keeps the cells both inputs hold in the same slot,
merged, and the cells of one input no cell of the other overlaps, merged with Top") and `inv_mergeInner`,
`DData.binOp_sound` (stack pointer + 8), `regionIn_markAll`.
-/
import CweModel.C13.Join
import CweModel.C13.StackProps

set_option linter.unusedSimpArgs false
set_option linter.unusedVariables false
namespace CweModel.C13
open CweModel CweModel.IR CweModel.Itv CweModel.MemRegion

/-! ## A. the register map -/

/-- distinct keys (a `BTreeMap`) -/
def RegKeys (t : St) : Prop := (t.regs.map (·.1)).Nodup

theorem regLookup_mem {m : List (Variable × DData)} {v : Variable} {d : DData} (h : regLookup m v = some d) :
    (v, d) ∈ m := by
  unfold regLookup at h
  simp only [Option.map_eq_some_iff] at h
  obtain ⟨p, hp, rfl⟩ := h
  have hm := List.mem_of_find?_eq_some hp
  have := List.find?_some hp
  simp only [decide_eq_true_eq] at this
  obtain ⟨pv, pd⟩ := p
  simp only at this; subst this
  exact hm

theorem find_of_mem_nodup {l : List (Variable × DData)} (hn : (l.map (·.1)).Nodup) {v : Variable} {d : DData}
    (h : (v, d) ∈ l) : l.find? (fun p => decide (p.1 = v)) = some (v, d) := by
  induction l with
  | nil => cases h
  | cons q rest ih =>
    obtain ⟨k, e⟩ := q
    simp only [List.map_cons, List.nodup_cons, List.mem_map, not_exists, not_and] at hn
    simp only [List.find?]
    rcases List.mem_cons.mp h with he | hr
    · cases he; simp
    · have hne : ¬ k = v := fun e' => hn.1 (v, d) hr (by simp [e'])
      simp only [hne, decide_false]
      exact ih hn.2 hr

theorem getReg_of_mem {t : St} (hk : RegKeys t) {v : Variable} {d : DData} (h : (v, d) ∈ t.regs) : t.getReg v = d := by
  unfold St.getReg
  rw [find_of_mem_nodup hk h]

theorem getReg_cases (t : St) (v : Variable) : t.getReg v = DData.newTop v.size ∨ (v, t.getReg v) ∈ t.regs := by
  unfold St.getReg
  split
  · rename_i p hp
    have hm := List.mem_of_find?_eq_some hp
    have := List.find?_some hp
    simp only [decide_eq_true_eq] at this
    obtain ⟨pv, pd⟩ := p
    simp only at this; subst this
    exact Or.inr hm
  · exact Or.inl rfl

/-- where an entry of the merged register map comes from -/
theorem mem_mergeRegs {l r : List (Variable × DData)} {x : Variable} {d : DData} (h : (x, d) ∈ mergeRegs l r) :
    (∃ v vo, (x, v) ∈ l ∧ (x, vo) ∈ r ∧ d = v.mergeWith vo) ∨
    (∃ v, (x, v) ∈ l ∧ d = v.mergeWith (DData.newTop v.size)) ∨
    (∃ vo, (x, vo) ∈ r ∧ d = (DData.newTop vo.size).mergeWith vo) := by
  unfold mergeRegs at h
  rcases List.mem_append.mp h with h | h
  · unfold mergeRegsKept at h
    rw [List.mem_filterMap] at h
    obtain ⟨p, hp, he⟩ := h
    obtain ⟨k, v⟩ := p
    simp only at he
    cases hl : regLookup r k with
    | some vo =>
      rw [hl] at he
      simp only at he
      by_cases ht : (v.mergeWith vo).isTop = true
      · rw [if_pos ht] at he; cases he
      · rw [if_neg ht] at he
        simp only [Option.some.injEq, Prod.mk.injEq] at he
        obtain ⟨rfl, rfl⟩ := he
        exact Or.inl ⟨v, vo, hp, regLookup_mem hl, rfl⟩
    | none =>
      rw [hl] at he
      simp only at he
      by_cases ht : (v.mergeWith (DData.newTop v.size)).isTop = true
      · rw [if_pos ht] at he; cases he
      · rw [if_neg ht] at he
        simp only [Option.some.injEq, Prod.mk.injEq] at he
        obtain ⟨rfl, rfl⟩ := he
        exact Or.inr (Or.inl ⟨v, hp, rfl⟩)
  · unfold mergeRegsAdded at h
    rw [List.mem_filterMap] at h
    obtain ⟨p, hp, he⟩ := h
    obtain ⟨k, vo⟩ := p
    simp only at he
    by_cases hs : (regLookup (mergeRegsKept l r) k).isSome = true
    · rw [if_pos hs] at he; cases he
    · rw [if_neg hs] at he
      by_cases ht : ((DData.newTop vo.size).mergeWith vo).isTop = true
      · rw [if_pos ht] at he; cases he
      · rw [if_neg ht] at he
        simp only [Option.some.injEq, Prod.mk.injEq] at he
        obtain ⟨rfl, rfl⟩ := he
        exact Or.inr (Or.inr ⟨vo, hp, rfl⟩)

theorem mergeWith_top_left {ρ : Nat → Int} {vo : DData} (hvo : vo.WF) (h8 : vo.size ≤ 8) (v : Bv) (hw : v.w = 8 * vo.size) :
    ((DData.newTop vo.size).mergeWith vo).Mem ρ v ∧ ((DData.newTop vo.size).mergeWith vo).WF ∧
      ((DData.newTop vo.size).mergeWith vo).size = vo.size := by
  unfold DData.mergeWith
  split
  · exact ⟨⟨hw, Or.inl rfl⟩, DData.newTop_wf' hvo.1, rfl⟩
  · exact ⟨⟨hw, Or.inl rfl⟩, DData.merge_wf (DData.newTop_wf' hvo.1) hvo rfl h8, rfl⟩

theorem mergeWith_top_right {ρ : Nat → Int} {d : DData} (hd : d.WF) (h8 : d.size ≤ 8) (v : Bv) (hw : v.w = 8 * d.size) :
    (d.mergeWith (DData.newTop d.size)).Mem ρ v ∧ (d.mergeWith (DData.newTop d.size)).WF ∧
      (d.mergeWith (DData.newTop d.size)).size = d.size := by
  unfold DData.mergeWith
  split
  · rename_i he
    refine ⟨⟨hw, Or.inl ?_⟩, hd, rfl⟩
    rw [he]; rfl
  · refine ⟨⟨hw, Or.inl ?_⟩, DData.merge_wf hd (DData.newTop_wf' hd.1) rfl h8, rfl⟩
    simp [DData.merge, DData.newTop]

theorem mergeWith_both {ρ : Nat → Int} {a b : DData} (ha : a.WF) (hb : b.WF) (hs : b.size = a.size) (h8 : a.size ≤ 8) :
    (∀ v, a.Mem ρ v → (a.mergeWith b).Mem ρ v) ∧ (∀ v, b.Mem ρ v → (a.mergeWith b).Mem ρ v) ∧ (a.mergeWith b).WF ∧
      (a.mergeWith b).size = a.size := by
  unfold DData.mergeWith
  split
  · rename_i he
    exact ⟨fun v h => h, fun v h => by rw [he]; exact h, ha, rfl⟩
  · exact ⟨fun v h => DData.merge_mem_left ha hb hs h8 h, fun v h => DData.merge_mem_right ha hb hs h8 h,
      DData.merge_wf ha hb hs h8, rfl⟩

/-- every register value has at most 8 bytes (the C03 merge laws are proved up to 64 bit) -/
def Size8 (t : St) : Prop := ∀ v d, (v, d) ∈ t.regs → d.size ≤ 8

/-- **C13-merge-registers.** the merged register map (`MergeTopStrategy`) is well-formed and represents every register
file either input represents -/
theorem mergeRegs_sound {ρ : Nat → Int} {a b : St} (ha : a.WF) (hb : b.WF) (hka : RegKeys a) (hkb : RegKeys b)
    (h8a : Size8 a) (h8b : Size8 b) (g : List Nat) (gid : Nat) :
    let m : St := { regs := mergeRegs a.regs b.regs, globals := g, gid := gid }
    m.WF ∧ Size8 m ∧ ∀ σ : Sem.State, (St.RegsIn ρ a σ ∨ St.RegsIn ρ b σ) → St.RegsIn ρ m σ := by
  intro m
  -- the facts about one entry of the merged map
  have key : ∀ x d, (x, d) ∈ mergeRegs a.regs b.regs →
      (d.WF ∧ d.size = x.size ∧ d.size ≤ 8) ∧
      ∀ σ : Sem.State, (St.RegsIn ρ a σ ∨ St.RegsIn ρ b σ) → d.Mem ρ (σ.getReg x) := by
    intro x d hmem
    rcases mem_mergeRegs hmem with ⟨v, vo, hl, hr, rfl⟩ | ⟨v, hl, rfl⟩ | ⟨vo, hr, rfl⟩
    · obtain ⟨w1, s1⟩ := ha x v hl
      obtain ⟨w2, s2⟩ := hb x vo hr
      have h8 := h8a x v hl
      obtain ⟨m1, m2, m3, m4⟩ := mergeWith_both (ρ := ρ) w1 w2 (s2.trans s1.symm) h8
      refine ⟨⟨m3, m4.trans s1, by rw [m4]; exact h8⟩, ?_⟩
      intro σ hσ
      rcases hσ with hσ | hσ
      · have := hσ x; rw [getReg_of_mem hka hl] at this; exact m1 _ this
      · have := hσ x; rw [getReg_of_mem hkb hr] at this; exact m2 _ this
    · obtain ⟨w1, s1⟩ := ha x v hl
      have h8 := h8a x v hl
      have hw : ∀ σ : Sem.State, (St.RegsIn ρ a σ ∨ St.RegsIn ρ b σ) → (σ.getReg x).w = 8 * v.size := by
        intro σ hσ
        rcases hσ with hσ | hσ
        · have := (hσ x).1; rw [getReg_of_mem hka hl] at this; exact this
        · have := (hσ x).1
          rcases getReg_cases b x with e | e
          · rw [e] at this; rw [this, s1]; rfl
          · rw [this, (hb x _ e).2, s1]
      refine ⟨⟨(mergeWith_top_right (ρ := ρ) w1 h8 (Bv.ofBytes v.size 0) rfl).2.1,
        (mergeWith_top_right (ρ := ρ) w1 h8 (Bv.ofBytes v.size 0) rfl).2.2.trans s1,
        by rw [(mergeWith_top_right (ρ := ρ) w1 h8 (Bv.ofBytes v.size 0) rfl).2.2]; exact h8⟩, ?_⟩
      intro σ hσ
      exact (mergeWith_top_right (ρ := ρ) w1 h8 _ (hw σ hσ)).1
    · obtain ⟨w2, s2⟩ := hb x vo hr
      have h8 := h8b x vo hr
      have hw : ∀ σ : Sem.State, (St.RegsIn ρ a σ ∨ St.RegsIn ρ b σ) → (σ.getReg x).w = 8 * vo.size := by
        intro σ hσ
        rcases hσ with hσ | hσ
        · have := (hσ x).1
          rcases getReg_cases a x with e | e
          · rw [e] at this; rw [this, s2]; rfl
          · rw [this, (ha x _ e).2, s2]
        · have := (hσ x).1; rw [getReg_of_mem hkb hr] at this; exact this
      refine ⟨⟨(mergeWith_top_left (ρ := ρ) w2 h8 (Bv.ofBytes vo.size 0) rfl).2.1,
        (mergeWith_top_left (ρ := ρ) w2 h8 (Bv.ofBytes vo.size 0) rfl).2.2.trans s2,
        by rw [(mergeWith_top_left (ρ := ρ) w2 h8 (Bv.ofBytes vo.size 0) rfl).2.2]; exact h8⟩, ?_⟩
      intro σ hσ
      exact (mergeWith_top_left (ρ := ρ) w2 h8 _ (hw σ hσ)).1
  refine ⟨fun x d h => ⟨(key x d h).1.1, (key x d h).1.2.1⟩, fun x d h => (key x d h).1.2.2, ?_⟩
  intro σ hσ x
  rcases getReg_cases m x with e | e
  · rw [e]
    refine ⟨?_, Or.inl rfl⟩
    rcases hσ with hσ | hσ
    · have := (hσ x).1
      rcases getReg_cases a x with e' | e'
      · rw [e'] at this; exact this
      · rw [this, (ha x _ e').2]; rfl
    · have := (hσ x).1
      rcases getReg_cases b x with e' | e'
      · rw [e'] at this; exact this
      · rw [this, (hb x _ e').2]; rfl
  · exact (key x _ e).2 σ hσ

/-! ## B. the stack object -/

/-- distinct keys (a `BTreeMap`) -/
def ObjKeys (objs : Objs) : Prop := (objs.map (·.1)).Nodup

theorem objGet_objSet_other {objs : Objs} {id id' : Nat} (o' : Obj) (hne : id' ≠ id) :
    objGet (objSet objs id o') id' = objGet objs id' := by
  unfold objGet objSet
  rw [List.find?_map]
  induction objs with
  | nil => rfl
  | cons q rest ih =>
    obtain ⟨k, v⟩ := q
    simp only [List.find?, Function.comp]
    by_cases hk : k = id
    · subst hk
      have : ¬ k = id' := fun e => hne e.symm
      simp only [if_true, this, decide_false]
      exact ih
    · simp only [hk, if_false]
      by_cases hk' : k = id'
      · simp [hk', hne]
      · simp only [hk', decide_false]
        exact ih

theorem objGet_insertObj_other {objs : Objs} {id id' : Nat} (o : Obj) (hne : id' ≠ id) :
    objGet (insertObj id o objs) id' = objGet objs id' := by
  unfold objGet
  induction objs with
  | nil =>
    have : ¬ id = id' := fun e => hne e.symm
    simp [insertObj, List.find?, this]
  | cons q rest ih =>
    obtain ⟨k, v⟩ := q
    simp only [insertObj]
    have hid : ¬ id = id' := fun e => hne e.symm
    split
    · simp only [List.find?, hid, decide_false]
    · simp only [List.find?]
      by_cases hk' : k = id'
      · simp [hk']
      · simp only [hk', decide_false]
        exact ih

/-- the object of identifier `sid` in the merged object list: both inputs track it, so it is the merge of the two objects -/
theorem objGet_objsMerge {a b : Objs} {sid : Nat} {oa ob : Obj} (ha : objGet a sid = some oa) (hb : objGet b sid = some ob)
    (hkb : ObjKeys b) : objGet (objsMerge a b) sid = some (oa.merge ob) := by
  unfold objsMerge
  -- generalised over the accumulator: before `sid` is processed the accumulator holds `oa`, afterwards the merge
  have key : ∀ (l : Objs) (m : Objs), (l.map (·.1)).Nodup →
      ((objGet l sid = some ob ∧ objGet m sid = some oa) ∨ ((∀ p ∈ l, p.1 ≠ sid) ∧ objGet m sid = some (oa.merge ob))) →
      objGet (l.foldl (fun m p => match objGet m p.1 with
        | some o => objSet m p.1 (o.merge p.2)
        | none => insertObj p.1 p.2 m) m) sid = some (oa.merge ob) := by
    intro l
    induction l with
    | nil =>
      intro m _ h
      rcases h with ⟨h1, _⟩ | ⟨_, h2⟩
      · simp [objGet] at h1
      · exact h2
    | cons q rest ih =>
      intro m hn h
      obtain ⟨k, v⟩ := q
      simp only [List.map_cons, List.nodup_cons, List.mem_map, not_exists, not_and] at hn
      simp only [List.foldl_cons]
      apply ih _ hn.2
      by_cases hk : k = sid
      · subst hk
        rcases h with ⟨h1, h2⟩ | ⟨h1, _⟩
        · have hv : v = ob := by
            simp only [objGet, List.find?, decide_true, Option.map_some, Option.some.injEq] at h1
            exact h1
          subst hv
          refine Or.inr ⟨fun p hp e => hn.1 p hp (by rw [e]), ?_⟩
          rw [h2]
          simp only
          exact objGet_objSet_self _ h2
        · exact absurd rfl (h1 (k, v) List.mem_cons_self)
      · have hne : sid ≠ k := fun e => hk e.symm
        have hstep : ∀ m' : Objs, objGet (match objGet m k with
            | some o => objSet m k (o.merge v)
            | none => insertObj k v m) sid = objGet m sid := by
          intro _
          cases objGet m k with
          | some o => exact objGet_objSet_other _ hne
          | none => exact objGet_insertObj_other _ hne
        rcases h with ⟨h1, h2⟩ | ⟨h1, h2⟩
        · refine Or.inl ⟨?_, by rw [hstep m]; exact h2⟩
          simp only [objGet, List.find?, hk, decide_false] at h1
          exact h1
        · exact Or.inr ⟨fun p hp => h1 p (List.mem_cons_of_mem _ hp), by rw [hstep m]; exact h2⟩
  exact key b a hkb (Or.inl ⟨hb, ha⟩)

/-- **C13-merge-region.** `MemRegion::merge` of two stack regions describes every memory either region describes: a
cell both hold in the same slot gets the merged value (with widening), a cell of one region that no cell of the other
overlaps gets the top flag, every other cell is dropped (C05). -/
theorem regionIn_mergeRegions {ρ : Nat → Int} {base : Int} {σ : Sem.State} {ra rb : Region DData}
    (ha : RegionOK ra) (hb : RegionOK rb) (hin : RegionIn ρ base ra σ ∨ RegionIn ρ base rb σ) :
    RegionOK (mergeRegions ra rb) ∧ RegionIn ρ base (mergeRegions ra rb) σ := by
  unfold mergeRegions
  split
  · rename_i he
    refine ⟨ha, ?_⟩
    rcases hin with h | h
    · exact h
    · rw [he]; exact h
  · have hmem : ∀ x, x ∈ mergeInner ra rb ↔ _ := fun x =>
      (C05.mem_mergeInner ha.inv hb.inv ha.bounded hb.bounded (x := x)).trans (C05.Spec.mem_merge ha.inv hb.inv x)
    have hfacts : ∀ x ∈ mergeInner ra rb,
        (x.2.WF ∧ x.2.size ≤ 8) ∧ (i64Min ≤ x.1 ∧ x.1 + isize x.2 ≤ i64Max) ∧ x.2.Mem ρ (readCell σ base x.1 x.2.size) := by
      intro x hx
      obtain ⟨_, hcase⟩ := (hmem x).mp hx
      rcases hcase with ⟨va, vb, h1, h2, hsz, hx2⟩ | ⟨va, h1, _, hx2⟩ | ⟨vb, h2, _, hx2⟩
      · obtain ⟨wa, s8⟩ := ha.cells _ h1
        obtain ⟨wb, _⟩ := hb.cells _ h2
        have hsz' : vb.size = va.size := hsz.symm
        have hbd := ha.bounded _ h1
        rw [hx2]
        refine ⟨⟨DData.merge_wf wa wb hsz' s8, s8⟩, hbd, ?_⟩
        show (va.merge vb).Mem ρ (readCell σ base x.1 va.size)
        rcases hin with h | h
        · exact DData.merge_mem_left wa wb hsz' s8 (h _ h1)
        · have := h _ h2
          simp only at this
          rw [hsz'] at this
          exact DData.merge_mem_right wa wb hsz' s8 this
      · obtain ⟨wa, s8⟩ := ha.cells _ h1
        have hbd := ha.bounded _ h1
        rw [hx2]
        refine ⟨⟨DData.merge_wf wa (DData.newTop_wf' wa.1) rfl s8, s8⟩, hbd, ?_⟩
        exact ⟨readCell_w _ _ _ _, Or.inl (by show (va.merge (DData.newTop va.size)).top = true; simp [DData.merge, DData.newTop])⟩
      · obtain ⟨wb, s8⟩ := hb.cells _ h2
        have hbd := hb.bounded _ h2
        rw [hx2]
        refine ⟨⟨DData.merge_wf wb (DData.newTop_wf' wb.1) rfl s8, s8⟩, hbd, ?_⟩
        exact ⟨readCell_w _ _ _ _, Or.inl (by show (vb.merge (DData.newTop vb.size)).top = true; simp [DData.merge, DData.newTop])⟩
    exact ⟨⟨C05.inv_mergeInner ha.inv hb.inv ha.bounded hb.bounded, fun x hx => (hfacts x hx).2.1,
      fun x hx => (hfacts x hx).1⟩, fun x hx => (hfacts x hx).2.2⟩

/-- **C13-merge-sound (partial).** `State::merge` is an upper bound for the concretisation "registers + stack object":
every concrete machine state (registers and byte memory of the reference interpreter) that EITHER input represents under
an identifier valuation ρ is represented by the merged state under the same ρ; the merged state is well-formed again.
The interval merges inside are the widening merges of the real code (C03 `signedMergeAndWiden`).

`_partial`: by hypothesis both inputs track the stack object (an object only one input tracks is copied into the merge —
sound only under the analysis' reading "the other path has no such object"), memory objects other than the stack are not
part of the concretisation, register values have at most 8 bytes (C03 is proved up to 64 bit), the register and object
maps have distinct keys (they are `BTreeMap`s). The `is_unique` flags play no role (they are and-ed). -/
theorem merge_sound_partial {ρ : Nat → Int} {a b : MSt} (ha : a.WF) (hb : b.WF) (hid : a.stackId = b.stackId)
    (hka : RegKeys a.st) (hkb : RegKeys b.st) (h8a : Size8 a.st) (h8b : Size8 b.st)
    {oa ob : Obj} (hoa : objGet a.objs a.stackId = some oa) (hob : objGet b.objs b.stackId = some ob)
    (hkob : ObjKeys b.objs) {σ : Sem.State} (hin : a.In ρ σ ∨ b.In ρ σ) :
    ∃ m, a.merge b = some m ∧ m.In ρ σ ∧ m.WF ∧ Size8 m.st ∧ m.stackId = a.stackId := by
  obtain ⟨r1, r2, r3⟩ := mergeRegs_sound (ρ := ρ) ha.regs hb.regs hka hkb h8a h8b a.st.globals a.st.gid
  rw [← hid] at hob
  have hra := stackRegion_of_get hoa
  have hrb : b.stackRegion = ob.mem := by unfold MSt.stackRegion; rw [← hid, hob]
  have hreg : RegionOK (mergeRegions oa.mem ob.mem) ∧ RegionIn ρ (ρ a.stackId) (mergeRegions oa.mem ob.mem) σ := by
    refine regionIn_mergeRegions (by rw [← hra]; exact ha.stack) (by rw [← hrb]; exact hb.stack) ?_
    rcases hin with h | h
    · exact Or.inl (by rw [← hra]; exact h.2)
    · refine Or.inr ?_
      have := h.2
      unfold StackIn at this
      rw [hrb, ← hid] at this
      exact this
  have hsr : ∀ t : St, (MSt.mk t a.stackId (objsMerge a.objs b.objs)).stackRegion = mergeRegions oa.mem ob.mem := by
    intro t
    unfold MSt.stackRegion
    simp only
    rw [objGet_objsMerge hoa hob hkob]
    rfl
  unfold MSt.merge
  rw [if_pos hid]
  refine ⟨_, rfl, ⟨?_, ?_⟩, ⟨r1, ?_⟩, r2, rfl⟩
  · apply r3
    rcases hin with h | h
    · exact Or.inl h.1
    · exact Or.inr h.1
  · unfold StackIn
    rw [hsr]
    exact hreg.2
  · rw [hsr]; exact hreg.1

/-! ## C. the call to an extern symbol -/

instance : Inhabited Sem.State := ⟨{ seed := 0 }⟩

/-- **the effect of a call that respects the ABI the analysis assumes** (this is MORE than the `havoc` of the reference
interpreter, which clobbers every register but the stack pointer and does not pop a return address): the callee-saved
registers of the calling convention keep their values, the stack pointer is the old one plus its size (x86: `RET` pops
the return address the `CALL` pushed), every register value has the width of its register; all other registers are
arbitrary. What happens to memory is a hypothesis of the theorem. -/
structure AbiCall (sp : Variable) (saved : List Variable) (σ σ' : Sem.State) : Prop where
  spPop : σ'.getReg sp = Bv.ofBytes sp.size ((σ.getReg sp).toNat + sp.size)
  keep : ∀ v ∈ saved, v ≠ sp → σ'.getReg v = σ.getReg v
  widths : ∀ v : Variable, (σ'.getReg v).w = 8 * v.size

theorem find_saved (t : St) (saved : List Variable) (x : Variable) :
    (saved.filterMap fun v => if (t.getReg v).isTop then none else some (v, t.getReg v)).find? (fun p => decide (p.1 = x))
      = if x ∈ saved ∧ (t.getReg x).isTop = false then some (x, t.getReg x) else none := by
  induction saved with
  | nil => simp
  | cons v rest ih =>
    by_cases hv : v = x
    · subst hv
      by_cases ht : (t.getReg v).isTop = true
      · simp only [List.filterMap_cons, ht, if_true, ih, List.mem_cons, true_or, true_and, Bool.true_eq_false, and_false, if_false]
      · simp only [List.filterMap_cons, ht, if_false, List.find?, decide_true, List.mem_cons, true_or, true_and,
          Bool.not_eq_true] at ht ⊢
        simp [ht]
    · have hx : ¬ x = v := fun e => hv e.symm
      by_cases ht : (t.getReg v).isTop = true
      · simp only [List.filterMap_cons, ht, if_true, ih, List.mem_cons, hx, false_or]
      · simp only [List.filterMap_cons, ht, if_false, List.find?, hv, decide_false, ih, List.mem_cons, hx, false_or,
          Bool.false_eq_true]

theorem getReg_clear (t : St) (saved : List Variable) (x : Variable) :
    (clearNonCalleeSaved t saved).getReg x =
      if x ∈ saved ∧ (t.getReg x).isTop = false then t.getReg x else DData.newTop x.size := by
  show (match (saved.filterMap fun v => if (t.getReg v).isTop then none else some (v, t.getReg v)).find?
      (fun p => decide (p.1 = x)) with | some p => p.2 | none => DData.newTop x.size) = _
  rw [find_saved]
  by_cases h : x ∈ saved ∧ (t.getReg x).isTop = false
  · rw [if_pos h, if_pos h]
  · rw [if_neg h, if_neg h]

theorem clearStackParameter_noArgs (s : MSt) (ps : List Arg) (h : ∀ a ∈ ps, ∃ e d, a = Arg.Register e d) :
    clearStackParameter s ps = some s := by
  induction ps with
  | nil => rfl
  | cons p rest ih =>
    obtain ⟨e, d, rfl⟩ := h p List.mem_cons_self
    simp only [clearStackParameter]
    exact ih (fun a ha => h a (List.mem_cons_of_mem _ ha))

theorem noStackArgs_spec {ext : ExternSymbol} (h : noStackArgs ext = true) :
    ∀ a ∈ ext.parameters, ∃ e d, a = Arg.Register e d := by
  unfold noStackArgs at h
  rw [List.all_eq_true] at h
  intro a ha
  have := h a ha
  cases a with
  | Register e d => exact ⟨e, d, rfl⟩
  | Stack _ _ _ => simp at this

/-- the stack object after `assume_arbitrary_writes_to_object` for a set of identifiers: untouched if the stack
identifier is not in the set, otherwise every remaining cell has the top flag -/
theorem assumeWrites_stack {ρ : Nat → Int} {base : Int} (all : List Nat) {sid : Nat} (ids : List Nat) :
    ∀ (objs : Objs) (o : Obj), objGet objs sid = some o → RegionOK o.mem →
      ∃ o', objGet (assumeWritesWith all objs ids) sid = some o' ∧ RegionOK o'.mem ∧
        ((sid ∉ ids ∧ o'.mem = o.mem) ∨ (sid ∈ ids ∧ ∀ σ' : Sem.State, RegionIn ρ base o'.mem σ')) := by
  induction ids with
  | nil => intro objs o h hr; exact ⟨o, h, hr, Or.inl ⟨List.not_mem_nil, rfl⟩⟩
  | cons id rest ih =>
    intro objs o h hr
    unfold assumeWritesWith at ih ⊢
    simp only [List.foldl_cons]
    by_cases hid : id = sid
    · subst hid
      rw [h]
      simp only
      have hget := objGet_objSet_self (o.assumeArbitraryWrites all) h
      obtain ⟨k1, k2⟩ := regionIn_markAll (ρ := ρ) (base := base) hr (default : Sem.State)
      obtain ⟨o', e1, e2, e3⟩ := ih _ (o.assumeArbitraryWrites all) hget k1
      refine ⟨o', e1, e2, Or.inr ⟨List.mem_cons_self, ?_⟩⟩
      rcases e3 with ⟨_, hm⟩ | ⟨_, hall⟩
      · intro σ'
        rw [hm]
        exact (regionIn_markAll (ρ := ρ) (base := base) hr σ').2
      · exact hall
    · have hne : sid ≠ id := fun e => hid e.symm
      have hstep : objGet (match objGet objs id with
          | some ob => objSet objs id (ob.assumeArbitraryWrites all)
          | none => objs) sid = some o := by
        cases objGet objs id with
        | some ob => simp only; rw [objGet_objSet_other _ hne]; exact h
        | none => exact h
      obtain ⟨o', e1, e2, e3⟩ := ih _ o hstep hr
      refine ⟨o', e1, e2, ?_⟩
      rcases e3 with ⟨hn, hm⟩ | ⟨hn, hall⟩
      · exact Or.inl ⟨fun hmem => by rcases List.mem_cons.mp hmem with e | e; exact hne e; exact hn e, hm⟩
      · exact Or.inr ⟨List.mem_cons_of_mem _ hn, hall⟩


/-- the popped stack pointer: `sp + 8` of the reference semantics -/
theorem ref_add_pop {x : Bv} (hw : x.w = 64) :
    Ref.binOp .IntAdd x (Bv.ofBytes 8 8) = .val (Bv.ofBytes 8 (x.toNat + 8)) := by
  obtain ⟨w, v⟩ := x
  simp only at hw
  subst hw
  rfl

/-- **C13-call-sound (partial).** The transfer of a call to a generic extern symbol (`update_call_stub`: registers that are
not callee-saved are cleared, the stack pointer is popped, every object reachable from the parameters through
`pointer_targets` is marked as arbitrarily written) is sound for the concretisation "registers + stack object" against a
call that respects the ABI (`AbiCall`: callee-saved registers survive, the return address is popped — assumptions of the
real code that the plain `havoc` of the reference interpreter does not make) and that leaves the cells of the stack object
alone UNLESS the stack object is reachable from a parameter (`stackMarked`), in which case nothing is assumed about memory.

`_partial`: x86-64 (8-byte stack pointer), a symbol without stack parameters (`noStackArgs`), only the stack object is part
of the concretisation. -/
theorem updateCallStub_sound_partial {ρ : Nat → Int} {s : MSt} (hs : s.WF) {σ σ' : Sem.State} (hin : s.In ρ σ)
    {sp : Variable} (hsp : sp.size = 8) {cc : CallingConvention} {ext : ExternSymbol} (hargs : noStackArgs ext = true)
    {o : Obj} (hobj : objGet s.objs s.stackId = some o)
    (habi : AbiCall sp cc.calleeSavedRegister σ σ')
    (hmem : stackMarked s cc ext = false →
      ∀ c ∈ s.stackRegion, readCell σ' (ρ s.stackId) c.1 c.2.size = readCell σ (ρ s.stackId) c.1 c.2.size) :
    ∃ s', updateCallStub s sp cc ext = some s' ∧ s'.In ρ σ' ∧ s'.WF ∧ s'.stackId = s.stackId := by
  -- registers
  have hsp0 : 0 < sp.size := by omega
  obtain ⟨wsp, ssp⟩ := St.getReg_wf hs.regs sp hsp0
  have hconst : (DData.ofBv (Bv.ofBytes sp.size sp.size)).WF ∧ (DData.ofBv (Bv.ofBytes sp.size sp.size)).size = sp.size :=
    St.ofBv_wf _ hsp0 rfl
  have hsz : C12.binSizesOk .IntAdd (s.st.getReg sp).size (DData.ofBv (Bv.ofBytes sp.size sp.size)).size := by
    show (s.st.getReg sp).size = _
    rw [ssp, hconst.2]
  obtain ⟨wd, sd⟩ := DData.binOp_wf .IntAdd wsp hconst.1 hsz
  have hsd : ((s.st.getReg sp).binOp .IntAdd (DData.ofBv (Bv.ofBytes sp.size sp.size))).size = sp.size := by
    rw [sd]; show (s.st.getReg sp).size = sp.size; exact ssp
  have hspw : (σ.getReg sp).w = 64 := by rw [(hin.1 sp).1, ssp, hsp]
  have hdm : ((s.st.getReg sp).binOp .IntAdd (DData.ofBv (Bv.ofBytes sp.size sp.size))).Mem ρ (σ'.getReg sp) := by
    refine DData.binOp_sound .IntAdd wsp hconst.1 hsz (hin.1 sp) (St.ofBv_mem ρ _ rfl) ?_
    rw [habi.spPop, hsp]
    exact ref_add_pop hspw
  -- the register file after the call
  have hclearIn : St.RegsIn ρ (clearNonCalleeSaved s.st cc.calleeSavedRegister) (σ'.setReg sp (σ.getReg sp)) := by
    intro w
    rw [getReg_clear, C10.getReg_setReg]
    by_cases hw : w = sp
    · subst hw
      simp only [if_true]
      split
      · exact hin.1 w
      · exact ⟨by rw [(hin.1 w).1, ssp]; rfl, Or.inl rfl⟩
    · simp only [hw, if_false]
      split
      · rename_i hc
        rw [habi.keep w hc.1 hw]
        exact hin.1 w
      · exact ⟨habi.widths w, Or.inl rfl⟩
  have hclearWF : (clearNonCalleeSaved s.st cc.calleeSavedRegister).WF := by
    intro w d hmem
    simp only [clearNonCalleeSaved, List.mem_filterMap] at hmem
    obtain ⟨v, _, hv⟩ := hmem
    split at hv
    · cases hv
    · rename_i ht
      simp only [Option.some.injEq, Prod.mk.injEq] at hv
      obtain ⟨rfl, rfl⟩ := hv
      rcases getReg_cases s.st v with e | e
      · rw [e] at ht; exact absurd rfl ht
      · exact hs.regs _ _ e
  have hregs : St.RegsIn ρ (adjustStackRegister s.st (clearNonCalleeSaved s.st cc.calleeSavedRegister) sp) σ' := by
    unfold adjustStackRegister
    intro w
    have hw := regsIn_setReg (x := sp) hclearIn hdm hsd w
    rw [C10.getReg_setReg] at hw
    by_cases e : w = sp
    · rw [if_pos e] at hw
      rw [e] at hw ⊢
      exact hw
    · rw [if_neg e, C10.getReg_setReg, if_neg e] at hw
      exact hw
  have hwf : (adjustStackRegister s.st (clearNonCalleeSaved s.st cc.calleeSavedRegister) sp).WF :=
    wf_setReg hclearWF wd hsd
  -- memory objects
  unfold updateCallStub
  simp only
  rw [clearStackParameter_noArgs _ _ (noStackArgs_spec hargs)]
  simp only
  have hrok : RegionOK o.mem := by rw [← stackRegion_of_get hobj]; exact hs.stack
  obtain ⟨o', e1, e2, e3⟩ := assumeWrites_stack (ρ := ρ) (base := ρ s.stackId)
    (closeIds s.objs (possibleReferencedIds s cc ext)) (closeIds s.objs (possibleReferencedIds s cc ext)) s.objs o hobj hrok
  have hsr : ∀ t : St, (MSt.mk t s.stackId (assumeWrites s.objs (closeIds s.objs (possibleReferencedIds s cc ext)))).stackRegion = o'.mem := by
    intro t
    unfold MSt.stackRegion assumeWrites
    simp only
    rw [e1]
  refine ⟨_, rfl, ⟨hregs, ?_⟩, ⟨hwf, ?_⟩, rfl⟩
  · unfold StackIn
    rw [hsr]
    rcases e3 with ⟨hn, hm⟩ | ⟨_, hall⟩
    · have hnm : stackMarked s cc ext = false := by
        unfold stackMarked
        rw [Bool.eq_false_iff]
        intro hc
        exact hn (by simpa using hc)
      rw [hm]
      intro c hc
      have hc' : c ∈ s.stackRegion := by rw [stackRegion_of_get hobj]; exact hc
      rw [hmem hnm c hc']
      have := hin.2 c hc'
      exact this
    · exact hall σ'
  · rw [hsr]; exact e2

/-! ### non-vacuity -/
namespace JoinEx

def rsp : Variable := { name := "RSP", size := 8 }
def rax : Variable := { name := "RAX", size := 8 }
def rbx : Variable := { name := "RBX", size := 8 }

def cell (lo hi : Int) (st : Nat) : DData := DData.ofItv ⟨⟨64, lo, hi, st⟩, none, none, 0⟩

/-- two paths: `RAX = 1`, slot `stack-8` holds 1 / `RAX = 5`, the slot holds 5 and a 4-byte cell exists at `stack-16` -/
def sa : MSt :=
  { st := { regs := [(rsp, DData.fromTarget 0 (IntervalDomain.single 64 (-16))), (rax, cell 1 1 0)], globals := [], gid := 1 }
    stackId := 0
    objs := [(0, { unique := true, mem := [(-8, cell 1 1 0)] }), (1, { unique := true, mem := [] })] }
def sb : MSt :=
  { st := { regs := [(rsp, DData.fromTarget 0 (IntervalDomain.single 64 (-16))), (rax, cell 5 5 0), (rbx, cell 7 7 0)], globals := [], gid := 1 }
    stackId := 0
    objs := [(0, { unique := true, mem := [(-16, DData.ofItv ⟨⟨32, 3, 3, 0⟩, none, none, 0⟩), (-8, cell 5 5 0)] }),
             (1, { unique := true, mem := [] })] }

-- the join: `RAX ∈ {1, 5}`, the common slot holds `{1, 5}`, the one-sided cell and `RBX` get the top flag
example : (sa.merge sb).map (fun m => ((m.st.getReg rax).abs.map (·.interval), (m.st.getReg rbx).top,
      m.stackRegion.map fun c => (c.1, c.2.abs.map (·.interval), c.2.top)))
    = some (some ⟨64, 1, 5, 4⟩, true, [(-16, some ⟨32, 3, 3, 0⟩, true), (-8, some ⟨64, 1, 5, 4⟩, false)]) := by decide +kernel

-- the call: `RAX` (not callee-saved) is forgotten, `RSP` is popped, the stack cells stay (no parameter points to the stack)
def cc : CallingConvention :=
  { name := "sysv", integerParameterRegister := [{ name := "RDI", size := 8 }], floatParameterRegister := [],
    integerReturnRegister := [rax], floatReturnRegister := [], calleeSavedRegister := [rbx] }
def ext : ExternSymbol :=
  { tid := { id := "x", address := "0" }, addresses := [], name := "f", callingConvention := none, parameters := [],
    returnValues := [], noReturn := false, hasVarArgs := false }
example : (updateCallStub sb rsp cc ext).map (fun m => ((m.st.getReg rax).isTop, (m.st.getReg rbx).abs.map (·.interval),
      (m.st.getReg rsp).rel.map (fun p => (p.1, p.2.interval)), m.stackRegion.length))
    = some (true, some ⟨64, 7, 7, 0⟩, [(0, ⟨64, -8, -8, 0⟩)], 2) := by decide +kernel
example : noStackArgs ext = true ∧ stackMarked sb cc ext = false := by decide

end JoinEx

end CweModel.C13
