/-
C13 — "PI-lite", layer 1, theorems: the `RegisterDomain` implementation of `DataDomain<IntervalDomain>`
(`abstract_domain/data/arithmetics.rs`, model `C13/Data.lean`) is SOUND for the P-Code reference
semantics (`Base/Bv.lean`: `Ref.binOp/unOp/cast/subpieceOp`) under EVERY identifier valuation `ρ`:

    x ∈ γρ a,  y ∈ γρ b,  Ref.binOp op x y = z   ⟹   z ∈ γρ (a.binOp op b)        (`binOp_sound`)

and likewise `unOp_sound`, `cast_sound`, `subpiece_sound`; the results are well-formed (`binOp_wf`, …).

Reused, not redone: the soundness and well-formedness of the interval transfer functions
(`C02.binOp_sound/_wf`, `unOp_sound/_wf`, `cast_sound/_wf`, `subpiece_sound/_wf`), the exactness of
`Bitvector::bin_op` (`C01.binOp_eq_ref`), the bound refinements (`C04.data_addBound_sound`).
What is added here: (1) the bridge between the signed-integer semantics C02 is stated for and the
bit-vector reference semantics; (2) the pointer arithmetic of `DataDomain` itself.
-/
import CweModel.C13.Data
import CweModel.C02.Props
import CweModel.C01.Props
import CweModel.C04.Props
import CweModel.C10.SemLemmas
import CweModel.C10.BvLemmas
import CweModel.C12.Model

set_option linter.unusedSimpArgs false
set_option linter.unusedVariables false
namespace CweModel.C13
open CweModel CweModel.IR CweModel.Itv

/-! ### signed values of bit-vectors -/

theorem toInt_eq_wrap {w : Nat} (x : BitVec w) : x.toInt = wrap w (x.toNat : Int) :=
  BitVec.toInt_eq_toNat_bmod x

theorem toInt_ofNat' (w n : Nat) : (BitVec.ofNat w n).toInt = wrap w (n : Int) := BitVec.toInt_ofNat n

theorem toInt_ofInt' (w : Nat) (i : Int) : (BitVec.ofInt w i).toInt = wrap w i := BitVec.toInt_ofInt i

theorem bvOfInt_toInt (b : Bv) : bvOfInt b.w b.toInt = b := by
  cases b with | mk w v => simp [bvOfInt, Bv.toInt, BitVec.ofInt_toInt]

theorem bvOfInt_mk {w : Nat} (x : BitVec w) : bvOfInt w x.toInt = ⟨w, x⟩ := by
  simp [bvOfInt, BitVec.ofInt_toInt]

theorem toU_toInt {w : Nat} (x : BitVec w) : toU w x.toInt = x.toNat := by
  unfold toU pow2
  rw [BitVec.toInt_eq_toNat_bmod, Int.bmod_emod]
  have h : ((x.toNat : Int) % ((2 ^ w : Nat) : Int)) = (x.toNat : Int) := by
    apply Int.emod_eq_of_lt (by omega)
    have := x.isLt
    exact_mod_cast this
  rw [h]; simp

/-- `x.toNat` and `x.toInt` are congruent modulo `2^w` -/
theorem toNat_congr {w : Nat} (x : BitVec w) : pow2 w ∣ (x.toNat : Int) - x.toInt := by
  have := C02.toU_congr w x.toInt
  rwa [toU_toInt] at this

theorem wrap_toInt {w : Nat} (hw : 0 < w) (x : BitVec w) : wrap w x.toInt = x.toInt :=
  wrap_of_inRange w hw (inRange_toInt x)

/-! ### the reference operations on signed values are the concrete operations of C02 -/

theorem ref_add_toInt {w : Nat} (x y : BitVec w) : (Ref.add x y).toInt = cadd w x.toInt y.toInt := by
  rw [← C01.add_eq, C02.cadd_toInt]
theorem ref_sub_toInt {w : Nat} (x y : BitVec w) : (Ref.sub x y).toInt = csub w x.toInt y.toInt := by
  rw [← C01.sub_eq, C02.csub_toInt]
theorem ref_mul_toInt {w : Nat} (x y : BitVec w) : (Ref.mul x y).toInt = cmul w x.toInt y.toInt := by
  rw [← C01.mul_eq, C02.cmul_toInt]
theorem ref_neg_toInt {w : Nat} (x : BitVec w) : (Ref.neg x).toInt = cneg w x.toInt := by
  rw [← C01.neg_eq, C02.cneg_toInt]

theorem pow2_dvd_mul_pow {w n : Nat} {d : Int} (h : pow2 w ∣ d) : pow2 w ∣ d * ((2 ^ n : Nat) : Int) :=
  Int.dvd_trans h (Int.dvd_mul_right _ _)

theorem ref_shl_toInt {w : Nat} (hw : 0 < w) (x : BitVec w) (n : Nat) :
    (Ref.shl x n).toInt = cshl w x.toInt n := by
  unfold Ref.shl cshl
  rw [toInt_ofNat']
  split
  · apply C02.wrap_congr w hw
    have h := toNat_congr x
    have : ((x.toNat * 2 ^ n : Nat) : Int) - x.toInt * ((2 ^ n : Nat) : Int)
        = ((x.toNat : Int) - x.toInt) * ((2 ^ n : Nat) : Int) := by
      rw [Int.sub_mul]; simp
    rw [this]
    exact pow2_dvd_mul_pow h
  · rename_i hn
    have hle : w ≤ n := by omega
    have : wrap w ((x.toNat * 2 ^ n : Nat) : Int) = wrap w 0 := by
      apply C02.wrap_congr w hw
      simp only [Int.sub_zero]
      obtain ⟨k, rfl⟩ : ∃ k, n = w + k := ⟨n - w, by omega⟩
      refine ⟨(x.toNat : Int) * ((2 ^ k : Nat) : Int), ?_⟩
      unfold pow2
      rw [Nat.pow_add]
      push_cast
      ac_rfl
    rw [this]
    exact wrap_of_inRange w hw (by have := pow2_pos (w - 1); unfold InRange smin smax; omega)

theorem ref_piece_toInt {w₁ w₂ : Nat} (hw : 0 < w₁ + w₂) (x : BitVec w₁) (y : BitVec w₂) :
    (Ref.piece x y).toInt = cpiece w₁ w₂ x.toInt y.toInt := by
  unfold Ref.piece cpiece
  rw [toInt_ofNat', toU_toInt]
  apply C02.wrap_congr _ hw
  have h := toNat_congr x
  have : ((x.toNat * 2 ^ w₂ + y.toNat : Nat) : Int) - (x.toInt * ((2 ^ w₂ : Nat) : Int) + (y.toNat : Int))
      = ((x.toNat : Int) - x.toInt) * ((2 ^ w₂ : Nat) : Int) := by
    rw [Int.sub_mul]; push_cast; omega
  rw [this]
  obtain ⟨k, hk⟩ := h
  refine ⟨k, ?_⟩
  rw [hk, pow2_add]
  unfold pow2
  rw [Int.mul_assoc, Int.mul_comm k, ← Int.mul_assoc]

/-! ### `Bitvector::bin_op` as the parameter of the interval model -/

theorem binToIR_ofIR (op : BinOpType) : binToIR (binOfIR op) = op := by cases op <;> rfl

def isBoolOp : BinOpType → Bool
  | .BoolAnd | .BoolOr | .BoolXOr => true
  | _ => false

/-- result width of the reference = `bin_op_bytesize` (for Boolean operations: on 1-byte operands) -/
theorem binOpWidth_eq_binResW (op : BinOpType) (aw bw : Nat) (hb : isBoolOp op = true → aw = 8) :
    binOpWidth (binOfIR op) aw bw = C10.binResW op aw bw := by
  cases op <;> simp only [binOfIR, binOpWidth, C10.binResW] <;> (simp [isBoolOp] at hb; omega)

/-- a reference value exists only for operands the operation is defined on -/
theorem ref_val_binWidths {op : BinOpType} {x y z : Bv} (h : Ref.binOp op x y = .val z) :
    C02.BinWidths (binOfIR op) x.w y.w := by
  cases op <;> simp only [binOfIR, C02.BinWidths] <;> (try trivial) <;> simp only [Ref.binOp] at h <;>
    (try split at h) <;>
    first
    | exact (C10.sameW_val h).symm
    | cases h

theorem ref_val_wellSized {op : BinOpType} {x y z : Bv} (h : Ref.binOp op x y = .val z) :
    C01.WellSizedBin op x y := by
  cases op <;> simp only [C01.WellSizedBin] <;> (try trivial) <;> simp only [Ref.binOp] at h <;>
    (try split at h) <;>
    first
    | exact (C10.sameW_val h)
    | assumption
    | cases h

theorem concBv_of_ref {op : BinOpType} {x y z : Bv} (hb : isBoolOp op = true → x.w = 8)
    (h : Ref.binOp op x y = .val z) :
    concBv x.w y.w (binOfIR op) x.toInt y.toInt = some z.toInt := by
  unfold concBv
  rw [binToIR_ofIR, bvOfInt_toInt, bvOfInt_toInt, C01.binOp_eq_ref op x y (ref_val_wellSized h), h]
  simp only
  rw [if_pos]
  rw [binOpWidth_eq_binResW op x.w y.w hb]
  exact C10.ref_binOp_w h

theorem concBv_inRange (wa wb : Nat) : C02.ConcInRange (concBv wa wb) wa wb := by
  intro op x y v h
  unfold concBv at h
  split at h
  · rename_i r _
    split at h
    · rename_i hw
      cases h
      rw [← hw]
      exact inRange_toInt r.v
    · cases h
  · cases h

/-- the concrete semantics C02 states its soundness theorem for is the P-Code reference semantics -/
theorem concBin_of_ref {op : BinOpType} {x y z : Bv} (hw : 0 < x.w) (hb : isBoolOp op = true → x.w = 8)
    (h : Ref.binOp op x y = .val z) :
    C02.concBin (concBv x.w y.w) (binOfIR op) x.w y.w x.toInt y.toInt = some z.toInt := by
  by_cases hsp : C02.isSpecial (binOfIR op) = true
  · cases op <;> simp [binOfIR, C02.isSpecial] at hsp
    · -- Piece
      simp only [Ref.binOp, valV] at h
      injection h with h; subst h
      simp only [binOfIR, C02.concBin, Bv.toInt]
      rw [ref_piece_toInt (by omega)]
    · -- IntAdd
      obtain ⟨w, a, b, rfl, rfl, rfl⟩ := C10.ref_add_inv h
      simp only [binOfIR, C02.concBin, Bv.toInt, ref_add_toInt]
    · -- IntSub
      obtain ⟨w, a, b, rfl, rfl, rfl⟩ := C10.ref_sub_inv h
      simp only [binOfIR, C02.concBin, Bv.toInt, ref_sub_toInt]
    · -- IntLeft
      simp only [Ref.binOp, valV] at h
      split at h
      · injection h with h; subst h
        simp only [binOfIR, C02.concBin, Bv.toInt]
        rw [C01.Ref.shl_clamp, ref_shl_toInt hw, toU_toInt]; rfl
      · cases h
    · -- IntMult
      simp only [Ref.binOp] at h
      split at h
      · cases h
      · obtain ⟨w, a, b, rfl, rfl, hf⟩ := C10.sameW_inv h
        simp only [valV] at hf; injection hf with hf; subst hf
        simp only [binOfIR, C02.concBin, Bv.toInt, ref_mul_toInt]
  · have hsp' : C02.isSpecial (binOfIR op) = false := by simpa using hsp
    have : C02.concBin (concBv x.w y.w) (binOfIR op) x.w y.w x.toInt y.toInt
        = concBv x.w y.w (binOfIR op) x.toInt y.toInt := by
      cases op <;> first | rfl | (simp [binOfIR, C02.isSpecial] at hsp')
    rw [this]
    exact concBv_of_ref hb h

/-! ### `IntervalDomain` as `RegisterDomain`: soundness for the reference semantics (from C02) -/

/-- **C13-itv-binop.** `IntervalDomain::bin_op` is sound for the P-Code reference semantics: C02's
`binOp_sound` instantiated with `Bitvector::bin_op` (C01). -/
theorem itvBinOp_sound (op : BinOpType) (a b : IntervalDomain) (ha : a.WF) (hb : b.WF) (hw1 : 1 < a.interval.w)
    {x y z : Bv} (hxw : x.w = a.interval.w) (hyw : y.w = b.interval.w)
    (hbool : isBoolOp op = true → a.interval.w = 8)
    (hx : a.Mem x.toInt) (hy : b.Mem y.toInt) (hz : Ref.binOp op x y = .val z) :
    (itvBinOp op a b).Mem z.toInt ∧ z.w = (itvBinOp op a b).interval.w := by
  have hwid := ref_val_binWidths hz
  rw [hxw, hyw] at hwid
  have hc := concBin_of_ref (by omega) (by rw [hxw]; exact hbool) hz
  rw [hxw, hyw] at hc
  unfold itvBinOp IntervalDomain.w
  refine ⟨C02.binOp_sound _ a b (binOfIR op) ha hb hw1 hwid (concBv_inRange _ _) hx hy hc, ?_⟩
  rw [(C02.binOp_wf _ a b (binOfIR op) ha hb hw1 hwid (concBv_inRange _ _)).2,
    binOpWidth_eq_binResW op _ _ hbool, C10.ref_binOp_w hz, hxw, hyw]

/-- operand sizes as the IR typing (`C12.binSizesOk`) demands, on bit widths -/
theorem binWidths_of_sizes {op : BinOpType} {sa sb : Nat} (h : C12.binSizesOk op sa sb) :
    C02.BinWidths (binOfIR op) (8 * sa) (8 * sb) := by
  cases op <;> simp only [binOfIR, C02.BinWidths] <;> (try trivial) <;>
    simp only [C12.binSizesOk, C12.binClass] at h <;> omega

theorem itvBinOp_wf (op : BinOpType) (a b : IntervalDomain) (ha : a.WF) (hb : b.WF) (hw1 : 1 < a.interval.w)
    (hwid : C02.BinWidths (binOfIR op) a.interval.w b.interval.w) :
    (itvBinOp op a b).WF ∧ (itvBinOp op a b).interval.w = binOpWidth (binOfIR op) a.interval.w b.interval.w :=
  C02.binOp_wf _ a b (binOfIR op) ha hb hw1 hwid (concBv_inRange _ _)

/-! ### unary operations -/

theorem ref_not_toInt {w : Nat} (hw : 0 < w) (x : BitVec w) : (Ref.not x).toInt = cnot w x.toInt := by
  rw [← C01.not_eq, BitVec.toInt_not]
  unfold cnot
  have h1 : wrap w (-x.toInt - 1) = -x.toInt - 1 :=
    wrap_of_inRange w hw (C02.cnot_inRange w (inRange_toInt x))
  rw [← h1]
  show wrap w _ = wrap w _
  apply C02.wrap_congr w hw
  have h := toNat_congr x
  obtain ⟨k, hk⟩ := h
  refine ⟨1 - k, ?_⟩
  have : ((2 : Int) ^ w) = pow2 w := by simp [pow2]
  rw [this, Int.mul_sub, ← hk]
  omega

/-- width of the result of `IntervalDomain::un_op` -/
theorem itvUnOp_width (op : UnOpType) (a : IntervalDomain) (ha : a.WF) (hw1 : 1 < a.interval.w)
    (hb : op = .BoolNegate → a.interval.w = 8) :
    (itvUnOp op a).interval.w = (match op with | .BoolNegate | .FloatNaN => 8 | _ => a.interval.w) := by
  cases op <;> simp only [itvUnOp, unOfIR, IntervalDomain.unOp, IntervalDomain.newTop, IntervalDomain.ofInterval,
    Interval.newTop, IntervalDomain.w]
  · exact (C02.bitwiseNot_wf a.interval ha.1 hw1).2
  · exact (C02.int2Comp_wf a.interval ha.1 hw1).2
  · have := hb rfl
    split
    · by_cases h : a.interval.start = 0 ∧ a.interval.w = 8 <;> simp [h, IntervalDomain.single, IntervalDomain.ofInterval, Interval.single]
    · exact this

/-- **C13-itv-unop.** `IntervalDomain::un_op` is sound for the reference semantics (C02 `unOp_sound`). -/
theorem itvUnOp_sound (op : UnOpType) (a : IntervalDomain) (ha : a.WF) (hw1 : 1 < a.interval.w)
    {x z : Bv} (hxw : x.w = a.interval.w) (hb : op = .BoolNegate → a.interval.w = 8)
    (hx : a.Mem x.toInt) (hz : Ref.unOp op x = .val z) :
    (itvUnOp op a).Mem z.toInt ∧ z.w = (itvUnOp op a).interval.w := by
  have hw0 : 0 < x.w := by omega
  have hc : C02.concUn (unOfIR op) a.interval.w x.toInt = some z.toInt := by
    rw [← hxw]
    cases op <;> simp only [Ref.unOp, valV, valB] at hz <;> (try cases hz) <;>
      simp only [unOfIR, C02.concUn, Bv.toInt]
    · rw [ref_not_toInt hw0]
    · rw [ref_neg_toInt]
    · have h8 : x.w = 8 := by rw [hxw]; exact hb rfl
      obtain ⟨w, v⟩ := x
      simp only at h8; subst h8
      simp only [Bv.toNat] at hz
      split at hz
      · rename_i h0
        injection hz with hz; subst hz
        have : v = 0#8 := BitVec.eq_of_toNat_eq (by simpa using h0)
        subst this; decide
      · split at hz
        · rename_i h1
          injection hz with hz; subst hz
          have : v = 1#8 := BitVec.eq_of_toNat_eq (by simpa using h1.2)
          subst this; decide
        · cases hz
  refine ⟨C02.unOp_sound a (unOfIR op) ha hx hc, ?_⟩
  rw [itvUnOp_width op a ha hw1 hb, C10.ref_unOp_w hz, hxw]
  cases op <;> first | rfl | (simp only [Ref.unOp] at hz; cases hz)

/-! ### POPCOUNT / LZCOUNT: core's `cpop`/`clz` are the arithmetic definitions of C02 -/

theorem popCountNat_succ_top (k n : Nat) : popCountNat (k + 1) n = popCountNat k n + n / 2 ^ k % 2 := by
  induction k generalizing n with
  | zero => simp [popCountNat]
  | succ k ih =>
    rw [popCountNat, ih (n / 2), popCountNat, Nat.div_div_eq_div_mul, Nat.pow_succ, Nat.mul_comm 2]
    omega

theorem cpopNatRec_eq_popCountNat {w : Nat} (x : BitVec w) (k acc : Nat) :
    x.cpopNatRec k acc = acc + popCountNat k x.toNat := by
  induction k generalizing acc with
  | zero => simp [popCountNat]
  | succ k ih =>
    rw [BitVec.cpopNatRec_succ, ih, popCountNat_succ_top]
    have : (x.getLsbD k).toNat = x.toNat / 2 ^ k % 2 := by
      rw [BitVec.getLsbD, Nat.toNat_testBit]
    omega

theorem cpop_toNat {w : Nat} (x : BitVec w) : x.cpop.toNat = popCountNat w x.toNat := by
  unfold BitVec.cpop
  rw [BitVec.toNat_ofNat, cpopNatRec_eq_popCountNat, Nat.zero_add]
  apply Nat.mod_eq_of_lt
  have := C02.popCountNat_le w x.toNat
  have := Nat.lt_two_pow_self (n := w)
  omega

theorem bitLen_lower (fuel n : Nat) (h : n < 2 ^ fuel) (hn : n ≠ 0) : 2 ^ (bitLen fuel n - 1) ≤ n := by
  apply Classical.byContradiction
  intro hc
  have hlt : n < 2 ^ (bitLen fuel n - 1) := by omega
  have h1 := C02.bitLen_le_of_lt fuel hlt
  have h2 := C02.lt_two_pow_bitLen fuel h
  have h0 : bitLen fuel n ≠ 0 := by
    intro h0; rw [h0] at h2; simp at h2; exact hn h2
  omega

theorem clz_toNat {w : Nat} (x : BitVec w) : x.clz.toNat = w - bitLen w x.toNat := by
  by_cases hx : x = 0#w
  · subst hx
    have : (0#w).clz = BitVec.ofNat w w := BitVec.clz_eq_iff_eq_zero.mpr rfl
    rw [this]
    simp only [BitVec.toNat_ofNat, Nat.zero_mod, C02.bitLen_zero, Nat.sub_zero]
    exact Nat.mod_eq_of_lt Nat.lt_two_pow_self
  · have hw : 0 < w := by
      cases w with
      | zero => exact absurd (BitVec.eq_nil x |>.trans (BitVec.eq_nil 0#0).symm) hx
      | succ n => omega
    have hn : x.toNat ≠ 0 := fun h => hx (BitVec.eq_of_toNat_eq (by simpa using h))
    have hc : x.clz.toNat ≤ w := by
      have := @BitVec.clz_le w x
      rw [BitVec.le_def] at this
      refine Nat.le_trans this ?_
      show (BitVec.ofNat w w).toNat ≤ w
      rw [BitVec.toNat_ofNat]
      exact Nat.mod_le _ _
    have h1 := @BitVec.toNat_lt_two_pow_sub_clz w x
    have h2 := @BitVec.two_pow_sub_clz_le_toNat_of_ne_zero w x hw hx
    have h3 := C02.lt_two_pow_bitLen w x.isLt
    have h4 := bitLen_lower w x.toNat x.isLt hn
    have h5 := C02.bitLen_le w x.toNat
    -- 2^(L-1) ≤ n < 2^C and 2^(C-1) ≤ n < 2^L
    have ha : bitLen w x.toNat - 1 < w - x.clz.toNat :=
      (Nat.pow_lt_pow_iff_right (by decide : 1 < 2)).mp (Nat.lt_of_le_of_lt h4 h1)
    have hb : w - 1 - x.clz.toNat < bitLen w x.toNat :=
      (Nat.pow_lt_pow_iff_right (by decide : 1 < 2)).mp (Nat.lt_of_le_of_lt h2 h3)
    omega

theorem ref_popcount_toInt {w : Nat} (x : BitVec w) (v : Nat) :
    (BitVec.ofNat v (Ref.popcount x)).toInt = cpopcount w v x.toInt := by
  simp only [Ref.popcount, cpopcount, toInt_ofNat', toU_toInt, cpop_toNat]

theorem ref_lzcount_toInt {w : Nat} (x : BitVec w) (v : Nat) :
    (BitVec.ofNat v (Ref.lzcount x)).toInt = clzcount w v x.toInt := by
  simp only [Ref.lzcount, clzcount, leadingZeros, toInt_ofNat', toU_toInt, clz_toNat]

/-! ### casts and subpiece -/

def isCountCast : CastOpType → Bool
  | .PopCount | .LzCount => true
  | _ => false

/-- **C13-itv-cast.** `IntervalDomain::cast` is sound for the reference semantics (C02 `cast_sound`).
(`hfit` is no longer needed since the repair of the count casts in `IntervalDomain::cast` — `Top` if the
bit length of the operand is not representable in the result — and only kept for the callers.) -/
theorem itvCast_sound (op : CastOpType) (s : Nat) (a : IntervalDomain) (ha : a.WF) (hs : 0 < s)
    (hfit : isCountCast op = true → (a.interval.w : Int) ≤ smax (8 * s))
    {x z : Bv} (hxw : x.w = a.interval.w) (hx : a.Mem x.toInt) (hz : Ref.cast op s x = .val z) :
    (itvCast op s a).Mem z.toInt ∧ z.w = (itvCast op s a).interval.w := by
  have hext : (castOfIR op = .intZExt ∨ castOfIR op = .intSExt) → a.interval.w ≤ 8 * s := by
    rw [← hxw]
    cases op <;> simp only [castOfIR, reduceCtorEq, or_false, false_or, or_self, false_imp_iff] <;>
      (intro _; simp only [Ref.cast] at hz; split at hz <;> first | assumption | cases hz)
  have _ := hfit
  have hc : C02.concCast (castOfIR op) a.interval.w (8 * s) x.toInt = some z.toInt := by
    rw [← hxw]
    cases op <;> simp only [Ref.cast, valV] at hz <;> (try cases hz) <;>
      simp only [castOfIR, C02.concCast]
    · split at hz
      · injection hz with hz; subst hz
        simp only [Bv.toInt, Ref.zext, czext, toInt_ofNat', toU_toInt]
      · cases hz
    · split at hz
      · injection hz with hz; subst hz
        simp only [Bv.toInt, Ref.sext, csext, toInt_ofInt']
      · cases hz
    · simp only [Bv.toInt, ref_popcount_toInt]
    · simp only [Bv.toInt, ref_lzcount_toInt]
  unfold itvCast
  refine ⟨C02.cast_sound a (castOfIR op) (8 * s) ha (by omega) hext hx hc, ?_⟩
  rw [(C02.cast_wf a (castOfIR op) (8 * s) ha (by omega) hext).2, C10.ref_cast_w hz]

theorem itvCast_wf (op : CastOpType) (s : Nat) (a : IntervalDomain) (ha : a.WF) (hs : 0 < s)
    (hext : (op = .IntZExt ∨ op = .IntSExt) → a.interval.w ≤ 8 * s)
    (hfit : isCountCast op = true → (a.interval.w : Int) ≤ smax (8 * s)) :
    (itvCast op s a).WF ∧ (itvCast op s a).interval.w = 8 * s := by
  have _ := hfit
  unfold itvCast
  apply C02.cast_wf a (castOfIR op) (8 * s) ha (by omega)
  cases op <;> simp [castOfIR] at hext ⊢ <;> exact hext

theorem ref_subpiece_toInt {w : Nat} (x : BitVec w) (low size : Nat) :
    (Ref.subpiece x low size).toInt = csubpiece w low size x.toInt := by
  simp only [Ref.subpiece, csubpiece, toInt_ofNat', toU_toInt]

/-- **C13-itv-subpiece.** (C02 `subpiece_sound`) -/
theorem itvSubpiece_sound (lb s : Nat) (a : IntervalDomain) (ha : a.WF) (hs : 0 < s)
    (hsz : 8 * lb + 8 * s ≤ a.interval.w)
    {x z : Bv} (hxw : x.w = a.interval.w) (hx : a.Mem x.toInt) (hz : Ref.subpieceOp lb s x = .val z) :
    (itvSubpiece lb s a).Mem z.toInt ∧ z.w = (itvSubpiece lb s a).interval.w := by
  unfold itvSubpiece
  rw [(C02.subpiece_wf a (8 * lb) (8 * s) ha (by omega) hsz).2, C10.ref_subpiece_w hz]
  refine ⟨?_, rfl⟩
  unfold Ref.subpieceOp at hz
  split at hz
  · simp only [valV] at hz; injection hz with hz; subst hz
    have := C02.subpiece_sound a (8 * lb) (8 * s) ha (by omega) hsz hx
    rw [← hxw] at this
    simpa only [Bv.toInt, ref_subpiece_toInt] using this
  · cases hz

/-! ### wrap arithmetic -/

theorem wrap_add_wrap_left (w : Nat) (p q : Int) : wrap w (wrap w p + q) = wrap w (p + q) := Int.bmod_add_bmod
theorem wrap_add_wrap_right (w : Nat) (p q : Int) : wrap w (p + wrap w q) = wrap w (p + q) := Int.add_bmod_bmod
theorem wrap_sub_wrap_left (w : Nat) (p q : Int) : wrap w (wrap w p - q) = wrap w (p - q) := Int.bmod_sub_bmod
theorem wrap_sub_wrap_right (w : Nat) (p q : Int) : wrap w (p - wrap w q) = wrap w (p - q) := Int.sub_bmod_bmod

/-! ### interval addition/subtraction on signed values (C02, no bridge needed) -/

theorem itvAdd_mem (a b : IntervalDomain) (ha : a.WF) (hb : b.WF) (hw1 : 1 < a.interval.w)
    (hw : b.interval.w = a.interval.w) {x y : Int} (hx : a.Mem x) (hy : b.Mem y) :
    (itvBinOp .IntAdd a b).Mem (cadd a.interval.w x y) :=
  C02.binOp_sound _ a b .intAdd ha hb hw1 hw (concBv_inRange _ _) hx hy rfl

theorem itvSub_mem (a b : IntervalDomain) (ha : a.WF) (hb : b.WF) (hw1 : 1 < a.interval.w)
    (hw : b.interval.w = a.interval.w) {x y : Int} (hx : a.Mem x) (hy : b.Mem y) :
    (itvBinOp .IntSub a b).Mem (csub a.interval.w x y) :=
  C02.binOp_sound _ a b .intSub ha hb hw1 hw (concBv_inRange _ _) hx hy rfl

theorem itvAddSub_wf (op : BinOpType) (hop : op = .IntAdd ∨ op = .IntSub) (a b : IntervalDomain) (ha : a.WF) (hb : b.WF)
    (hw1 : 1 < a.interval.w) (hw : b.interval.w = a.interval.w) :
    (itvBinOp op a b).WF ∧ (itvBinOp op a b).interval.w = a.interval.w := by
  rcases hop with rfl | rfl
  · exact itvBinOp_wf .IntAdd a b ha hb hw1 hw
  · exact itvBinOp_wf .IntSub a b ha hb hw1 hw

theorem inRange_of_width {z : Bv} {w : Nat} (h : z.w = w) : InRange w z.toInt := by
  subst h; exact inRange_toInt z.v

namespace DData

/-! ### γρ: introduction and elimination -/

theorem Mem.width {ρ : Nat → Int} {d : DData} {v : Bv} (h : d.Mem ρ v) : v.w = 8 * d.size := h.1

theorem not_memI_of_isEmpty {ρ : Nat → Int} {d : DData} {w : Nat} {t : Int} (he : d.isEmpty = true) :
    ¬ d.MemI ρ w t := by
  simp only [isEmpty, Bool.and_eq_true, List.isEmpty_iff, Option.isNone_iff_eq_none, Bool.not_eq_true'] at he
  obtain ⟨⟨h1, h2⟩, h3⟩ := he
  rintro (h | ⟨a, ha, _⟩ | ⟨i, o, x, hm, _⟩)
  · rw [h3] at h; cases h
  · rw [h2] at ha; cases ha
  · rw [h1] at hm; cases hm

theorem isEmpty_false_of_mem {ρ : Nat → Int} {d : DData} {v : Bv} (h : d.Mem ρ v) : d.isEmpty = false := by
  cases he : d.isEmpty with
  | false => rfl
  | true => exact absurd h.2 (not_memI_of_isEmpty he)

theorem memI_newTopItv {ρ : Nat → Int} {d : DData} {w : Nat} {t : Int} (ht : InRange w t)
    (ha : d.abs = some (IntervalDomain.newTop w)) : d.MemI ρ w t :=
  Or.inr (Or.inl ⟨_, ha, (Interval.mem_newTop w t).mpr ht⟩)

/-! ### `add_offset` / `subtract_offset` -/

theorem addOffset_memI {ρ : Nat → Int} {d : DData} (hd : d.WF) {off : IntervalDomain} (hoff : off.WF)
    (hw : off.interval.w = 8 * d.size) {t s : Int} (ht : d.MemI ρ (8 * d.size) t) (hs : off.Mem s) :
    (d.addOffset off).MemI ρ (8 * d.size) (cadd (8 * d.size) t s) := by
  obtain ⟨hsz, habs, hrel⟩ := hd
  rcases ht with h | ⟨a, ha, hm⟩ | ⟨i, o, x, hmem, hm, hx⟩
  · exact Or.inl h
  · obtain ⟨hawf, haw⟩ := habs a ha
    refine Or.inr (Or.inl ⟨itvBinOp .IntAdd a off, by simp [addOffset, ha], ?_⟩)
    have := itvAdd_mem a off hawf hoff (by omega) (by omega) hm hs
    rwa [haw] at this
  · obtain ⟨howf, how⟩ := hrel i o hmem
    refine Or.inr (Or.inr ⟨i, itvBinOp .IntAdd o off, cadd (8 * d.size) x s, ?_, ?_, ?_⟩)
    · simp only [addOffset, List.mem_map]
      exact ⟨(i, o), hmem, rfl⟩
    · have := itvAdd_mem o off howf hoff (by omega) (by omega) hm hs
      rwa [how] at this
    · subst hx
      unfold cadd
      rw [wrap_add_wrap_left, wrap_add_wrap_right, Int.add_assoc]

theorem subtractOffset_memI {ρ : Nat → Int} {d : DData} (hd : d.WF) {off : IntervalDomain} (hoff : off.WF)
    (hw : off.interval.w = 8 * d.size) {t s : Int} (ht : d.MemI ρ (8 * d.size) t) (hs : off.Mem s) :
    (d.subtractOffset off).MemI ρ (8 * d.size) (csub (8 * d.size) t s) := by
  obtain ⟨hsz, habs, hrel⟩ := hd
  rcases ht with h | ⟨a, ha, hm⟩ | ⟨i, o, x, hmem, hm, hx⟩
  · exact Or.inl h
  · obtain ⟨hawf, haw⟩ := habs a ha
    refine Or.inr (Or.inl ⟨itvBinOp .IntSub a off, by simp [subtractOffset, ha], ?_⟩)
    have := itvSub_mem a off hawf hoff (by omega) (by omega) hm hs
    rwa [haw] at this
  · obtain ⟨howf, how⟩ := hrel i o hmem
    refine Or.inr (Or.inr ⟨i, itvBinOp .IntSub o off, csub (8 * d.size) x s, ?_, ?_, ?_⟩)
    · simp only [subtractOffset, List.mem_map]
      exact ⟨(i, o), hmem, rfl⟩
    · have := itvSub_mem o off howf hoff (by omega) (by omega) hm hs
      rwa [how] at this
    · subst hx
      unfold csub
      rw [wrap_sub_wrap_left, wrap_add_wrap_right, Int.add_sub_assoc]

theorem offset_wf (op : BinOpType) (hop : op = .IntAdd ∨ op = .IntSub) {d : DData} (hd : d.WF)
    {off : IntervalDomain} (hoff : off.WF) (hw : off.interval.w = 8 * d.size) (t : Bool) :
    WF { size := d.size, rel := d.rel.map (fun p => (p.1, itvBinOp op p.2 off)),
         abs := d.abs.map (fun o => itvBinOp op o off), top := t } := by
  obtain ⟨hsz, habs, hrel⟩ := hd
  refine ⟨hsz, ?_, ?_⟩
  · intro a ha
    simp only [Option.map_eq_some_iff] at ha
    obtain ⟨a0, ha0, rfl⟩ := ha
    obtain ⟨h1, h2⟩ := habs a0 ha0
    have := itvAddSub_wf op hop a0 off h1 hoff (by omega) (by omega)
    exact ⟨this.1, by rw [this.2, h2]⟩
  · intro i o hm
    simp only [List.mem_map] at hm
    obtain ⟨⟨i0, o0⟩, hm0, heq⟩ := hm
    simp only [Prod.mk.injEq] at heq
    obtain ⟨rfl, rfl⟩ := heq
    obtain ⟨h1, h2⟩ := hrel i0 o0 hm0
    have := itvAddSub_wf op hop o0 off h1 hoff (by omega) (by omega)
    exact ⟨this.1, by rw [this.2, h2]⟩

/-! ### `preserve_relative_targets_for_binop` -/

theorem mem_insertRel {k : Nat} {v : IntervalDomain} {l : List (Nat × IntervalDomain)} {p : Nat × IntervalDomain}
    (h : p ∈ insertRel k v l) : p = (k, v) ∨ p ∈ l := by
  induction l with
  | nil => simp only [insertRel, List.mem_singleton] at h; exact Or.inl h
  | cons q rest ih =>
    obtain ⟨k', v'⟩ := q
    simp only [insertRel] at h
    split at h
    · simp only [List.mem_cons] at h ⊢; exact h
    · split at h
      · simp only [List.mem_cons] at h ⊢
        rcases h with h | h
        · exact Or.inl h
        · exact Or.inr (Or.inr h)
      · simp only [List.mem_cons] at h ⊢
        rcases h with h | h
        · exact Or.inr (Or.inl h)
        · rcases ih h with h | h
          · exact Or.inl h
          · exact Or.inr (Or.inr h)

theorem mem_foldl_insertRel (t : IntervalDomain) (ks : List Nat) :
    ∀ (m : List (Nat × IntervalDomain)) (p : Nat × IntervalDomain),
      p ∈ ks.foldl (fun m k => insertRel k t m) m → p.2 = t ∨ p ∈ m := by
  induction ks with
  | nil => intro m p h; exact Or.inr h
  | cons k ks ih =>
    intro m p h
    simp only [List.foldl_cons] at h
    rcases ih _ p h with h | h
    · exact Or.inl h
    · rcases mem_insertRel h with h | h
      · exact Or.inl (by rw [h])
      · exact Or.inr h

theorem newTop_wf (w : Nat) (hw : 1 < w) : (IntervalDomain.newTop w).WF ∧ (IntervalDomain.newTop w).interval.w = w :=
  ⟨C02.ofInterval_wf' (Interval.wf_newTop w hw), rfl⟩

theorem newEmpty_wf {s : Nat} (h : 0 < s) : (newEmpty s).WF := by
  refine ⟨h, ?_, ?_⟩
  · intro x h; cases h
  · intro i o h; cases h

theorem newTop_wf' {s : Nat} (h : 0 < s) : (newTop s).WF := by
  refine ⟨h, ?_, ?_⟩
  · intro x h; cases h
  · intro i o h; cases h

theorem preserveRel_wf {a b : DData} (ha : a.WF) : (preserveRel a b).WF := by
  unfold preserveRel
  split
  · exact newEmpty_wf ha.1
  · have ht := newTop_wf (8 * a.size) (by have := ha.1; omega)
    refine ⟨ha.1, ?_, ?_⟩
    · intro x h; simp only [Option.some.injEq] at h; subst h; exact ht
    · intro i o h
      rcases mem_foldl_insertRel _ _ _ _ h with h | h
      · simp only at h; subst h; exact ht
      · cases h

theorem preserveRel_size (a b : DData) : (preserveRel a b).size = a.size := by
  unfold preserveRel; split <;> rfl

theorem preserveRel_mem {ρ : Nat → Int} {a b : DData} {x y z : Bv} (hx : a.Mem ρ x) (hy : b.Mem ρ y)
    (hz : z.w = 8 * a.size) : (preserveRel a b).Mem ρ z := by
  refine ⟨by rw [preserveRel_size]; exact hz, ?_⟩
  unfold preserveRel
  rw [isEmpty_false_of_mem hx, isEmpty_false_of_mem hy]
  simp only [Bool.or_self, Bool.false_eq_true, if_false]
  rw [hz]
  exact memI_newTopItv (by rw [← hz]; exact inRange_toInt z.v) rfl

/-! ### `compute_add` -/

theorem getIfAbsoluteValueOrTop_some {d : DData} {off : IntervalDomain} (h : d.getIfAbsoluteValueOrTop = some off) :
    d.rel = [] ∧ d.abs = some off := by
  unfold getIfAbsoluteValueOrTop at h
  split at h
  · rename_i he; exact ⟨List.isEmpty_iff.mp he, h⟩
  · cases h

theorem getIfAbsoluteValue_some {d : DData} {off : IntervalDomain} (h : d.getIfAbsoluteValue = some off) :
    d.rel = [] ∧ d.top = false ∧ d.abs = some off := by
  unfold getIfAbsoluteValue at h
  split at h
  · rename_i he
    simp only [Bool.and_eq_true, List.isEmpty_iff, Bool.not_eq_true'] at he
    exact ⟨he.1, he.2, h⟩
  · cases h

/-- a member of a value without relative targets is a member of the absolute part, or the top flag is set -/
theorem memI_norel {ρ : Nat → Int} {d : DData} {w : Nat} {t : Int} (hr : d.rel = []) (h : d.MemI ρ w t) :
    d.top = true ∨ ∃ a, d.abs = some a ∧ a.Mem t := by
  rcases h with h | h | ⟨i, o, x, hm, _⟩
  · exact Or.inl h
  · exact Or.inr h
  · rw [hr] at hm; cases hm

theorem computeAdd_wf {a b : DData} (ha : a.WF) (hb : b.WF) (hs : b.size = a.size) : (computeAdd a b).WF := by
  unfold computeAdd
  split
  · rename_i off h
    obtain ⟨_, habs⟩ := getIfAbsoluteValueOrTop_some h
    obtain ⟨h1, h2⟩ := ha.2.1 off habs
    exact offset_wf .IntAdd (Or.inl rfl) hb h1 (by rw [h2, hs]) _
  · split
    · rename_i off h
      obtain ⟨_, habs⟩ := getIfAbsoluteValueOrTop_some h
      obtain ⟨h1, h2⟩ := hb.2.1 off habs
      exact offset_wf .IntAdd (Or.inl rfl) ha h1 (by rw [h2, hs]) _
    · exact preserveRel_wf ha

theorem computeAdd_size {a b : DData} (hs : b.size = a.size) : (computeAdd a b).size = a.size := by
  unfold computeAdd
  split
  · exact hs
  · split
    · rfl
    · exact preserveRel_size a b

/-- `compute_add` on signed values -/
theorem computeAdd_mem {ρ : Nat → Int} {a b : DData} (ha : a.WF) (hb : b.WF) (hs : b.size = a.size)
    {x y z : Bv} (hx : a.Mem ρ x) (hy : b.Mem ρ y) (hzw : z.w = 8 * a.size)
    (hz : z.toInt = cadd (8 * a.size) x.toInt y.toInt) : (computeAdd a b).Mem ρ z := by
  refine ⟨by rw [computeAdd_size hs]; exact hzw, ?_⟩
  have hxm := hx.2; rw [hx.1] at hxm
  have hym := hy.2; rw [hy.1] at hym
  rw [hzw, hz]
  unfold computeAdd
  split
  · rename_i off h
    obtain ⟨hrel, habs⟩ := getIfAbsoluteValueOrTop_some h
    obtain ⟨h1, h2⟩ := ha.2.1 off habs
    rcases memI_norel hrel hxm with ht | ⟨a', ha', hm⟩
    · exact Or.inl (by simp [addOffset, ht])
    · rw [habs] at ha'; cases ha'
      have := addOffset_memI (ρ := ρ) hb h1 (by rw [h2, hs]) hym hm
      rw [hs] at this
      have hc : cadd (8 * a.size) x.toInt y.toInt = cadd (8 * a.size) y.toInt x.toInt := by
        unfold cadd; rw [Int.add_comm]
      rw [hc]
      rcases this with h | h | h
      · exact Or.inl (by simp only [addOffset] at h; simp [addOffset, h])
      · exact Or.inr (Or.inl h)
      · exact Or.inr (Or.inr h)
  · split
    · rename_i off h
      obtain ⟨hrel, habs⟩ := getIfAbsoluteValueOrTop_some h
      obtain ⟨h1, h2⟩ := hb.2.1 off habs
      rcases memI_norel hrel hym with ht | ⟨b', hb', hm⟩
      · exact Or.inl (by simp [addOffset, ht])
      · rw [habs] at hb'; cases hb'
        have := addOffset_memI (ρ := ρ) ha h1 (by rw [h2, hs]) hxm hm
        rcases this with h | h | h
        · exact Or.inl (by simp only [addOffset] at h; simp [addOffset, h])
        · exact Or.inr (Or.inl h)
        · exact Or.inr (Or.inr h)
    · have := (preserveRel_mem (z := z) hx hy hzw).2
      rw [hzw, hz] at this
      exact this

/-! ### `compute_sub` -/

theorem getIfUniqueTarget_some {d : DData} {p : Nat × IntervalDomain} (h : d.getIfUniqueTarget = some p) :
    d.rel = [p] ∧ d.abs = none ∧ d.top = false := by
  unfold getIfUniqueTarget at h
  split at h
  · rename_i q hq
    split at h
    · rename_i hc
      simp only [Bool.and_eq_true, Option.isNone_iff_eq_none, Bool.not_eq_true'] at hc
      cases h
      exact ⟨hq, hc.1, hc.2⟩
    · cases h
  · cases h

/-- a member of a pointer to a unique target -/
theorem memI_unique {ρ : Nat → Int} {d : DData} {w : Nat} {t : Int} {i : Nat} {o : IntervalDomain}
    (hr : d.rel = [(i, o)]) (ha : d.abs = none) (ht : d.top = false) (h : d.MemI ρ w t) :
    ∃ x, o.Mem x ∧ t = wrap w (ρ i + x) := by
  rcases h with h | ⟨a, ha', _⟩ | ⟨i', o', x, hm, hx, heq⟩
  · rw [ht] at h; cases h
  · rw [ha] at ha'; cases ha'
  · rw [hr] at hm
    simp only [List.mem_singleton, Prod.mk.injEq] at hm
    obtain ⟨rfl, rfl⟩ := hm
    exact ⟨x, hx, heq⟩

theorem computeSubPtr_wf {a b r : DData} (ha : a.WF) (hb : b.WF) (hs : b.size = a.size)
    (h : computeSubPtr a b = some r) : r.WF ∧ r.size = a.size := by
  unfold computeSubPtr at h
  split at h
  · rename_i li lo ri ro hl hr
    obtain ⟨hlr, _, _⟩ := getIfUniqueTarget_some hl
    obtain ⟨hrr, _, _⟩ := getIfUniqueTarget_some hr
    obtain ⟨hlo, hlw⟩ := ha.2.2 li lo (by rw [hlr]; simp)
    obtain ⟨hro, hrw⟩ := hb.2.2 ri ro (by rw [hrr]; simp)
    have hsz := ha.1
    split at h
    · cases h
      refine ⟨⟨hsz, ?_, ?_⟩, rfl⟩
      · intro x hx
        simp only [Option.some.injEq] at hx; subst hx
        have := itvAddSub_wf .IntSub (Or.inr rfl) lo ro hlo hro (by omega) (by omega)
        exact ⟨this.1, by rw [this.2, hlw]⟩
      · intro i o hm; cases hm
    · cases h
      have ht := newTop_wf (8 * a.size) (by omega)
      refine ⟨⟨hsz, ?_, ?_⟩, rfl⟩
      · intro x hx; simp only [Option.some.injEq] at hx; subst hx; exact ht
      · intro i o hm
        rcases mem_insertRel hm with h | h
        · cases h; exact ht
        · rcases mem_insertRel h with h | h
          · cases h; exact ht
          · cases h
  · cases h

theorem computeSubPtr_memI {ρ : Nat → Int} {a b r : DData} (ha : a.WF) (hb : b.WF) (hs : b.size = a.size)
    (h : computeSubPtr a b = some r) {t s : Int} (ht : a.MemI ρ (8 * a.size) t) (hs' : b.MemI ρ (8 * a.size) s) :
    r.MemI ρ (8 * a.size) (csub (8 * a.size) t s) := by
  unfold computeSubPtr at h
  split at h
  · rename_i li lo ri ro hl hr
    obtain ⟨hlr, hla, hlt⟩ := getIfUniqueTarget_some hl
    obtain ⟨hrr, hra, hrt⟩ := getIfUniqueTarget_some hr
    obtain ⟨hlo, hlw⟩ := ha.2.2 li lo (by rw [hlr]; simp)
    obtain ⟨hro, hrw⟩ := hb.2.2 ri ro (by rw [hrr]; simp)
    have hsz := ha.1
    split at h
    · rename_i heq
      cases h
      subst heq
      obtain ⟨x, hx, rfl⟩ := memI_unique hlr hla hlt ht
      obtain ⟨y, hy, rfl⟩ := memI_unique hrr hra hrt hs'
      refine Or.inr (Or.inl ⟨_, rfl, ?_⟩)
      have := itvSub_mem lo ro hlo hro (by omega) (by omega) hx hy
      rw [hlw] at this
      have he : csub (8 * a.size) (wrap (8 * a.size) (ρ li + x)) (wrap (8 * a.size) (ρ li + y))
          = csub (8 * a.size) x y := by
        unfold csub
        rw [wrap_sub_wrap_left, wrap_sub_wrap_right]
        congr 1; omega
      rw [he]; exact this
    · cases h
      exact memI_newTopItv (wrap_inRange _ (by omega) _) rfl
  · cases h

theorem computeSub_wf {a b : DData} (ha : a.WF) (hb : b.WF) (hs : b.size = a.size) : (computeSub a b).WF := by
  unfold computeSub
  split
  · exact newEmpty_wf ha.1
  · split
    · have hoff : (b.abs.getD (IntervalDomain.newTop (8 * a.size))).WF ∧
          (b.abs.getD (IntervalDomain.newTop (8 * a.size))).interval.w = 8 * a.size := by
        cases hba : b.abs with
        | none => exact newTop_wf _ (by have := ha.1; omega)
        | some o => obtain ⟨h1, h2⟩ := hb.2.1 o hba; exact ⟨h1, by simp only [Option.getD_some]; rw [h2, hs]⟩
      exact offset_wf .IntSub (Or.inr rfl) ha hoff.1 hoff.2 _
    · split
      · rename_i r h; exact (computeSubPtr_wf ha hb hs h).1
      · exact preserveRel_wf ha

theorem computeSub_size {a b : DData} (ha : a.WF) (hb : b.WF) (hs : b.size = a.size) : (computeSub a b).size = a.size := by
  unfold computeSub
  split
  · rfl
  · split
    · rfl
    · split
      · rename_i r h; exact (computeSubPtr_wf ha hb hs h).2
      · exact preserveRel_size a b

theorem computeSub_mem {ρ : Nat → Int} {a b : DData} (ha : a.WF) (hb : b.WF) (hs : b.size = a.size)
    {x y z : Bv} (hx : a.Mem ρ x) (hy : b.Mem ρ y) (hzw : z.w = 8 * a.size)
    (hz : z.toInt = csub (8 * a.size) x.toInt y.toInt) : (computeSub a b).Mem ρ z := by
  refine ⟨by rw [computeSub_size ha hb hs]; exact hzw, ?_⟩
  have hxm := hx.2; rw [hx.1] at hxm
  have hym := hy.2; rw [hy.1, hs] at hym
  rw [hzw, hz]
  unfold computeSub
  rw [isEmpty_false_of_mem hx, isEmpty_false_of_mem hy]
  simp only [Bool.or_self, Bool.false_eq_true, if_false]
  split
  · rename_i hre
    have hrel : b.rel = [] := List.isEmpty_iff.mp hre
    rcases memI_norel hrel hym with ht | ⟨o, ho, hm⟩
    · exact Or.inl (by simp [subtractOffset, ht])
    · obtain ⟨h1, h2⟩ := hb.2.1 o ho
      have := subtractOffset_memI (ρ := ρ) ha h1 (by rw [h2, hs]) hxm hm
      rw [ho]
      simp only [Option.getD_some]
      rcases this with h | h | h
      · exact Or.inl (by simp only [subtractOffset] at h; simp [subtractOffset, h])
      · exact Or.inr (Or.inl h)
      · exact Or.inr (Or.inr h)
  · split
    · rename_i r h
      exact computeSubPtr_memI ha hb hs h hxm hym
    · have := (preserveRel_mem (z := z) hx hy hzw).2
      rw [hzw, hz] at this
      exact this

/-! ### `bin_op` -/

/-- byte size of the result of a binary operation (`Expression::bytesize` of a `BinOp`) -/
def binBytes (op : BinOpType) (sa sb : Nat) : Nat :=
  match binKind op with
  | .piece => sa + sb
  | .boolResult => 1
  | _ => sa

theorem binResW_bytes (op : BinOpType) (sa sb : Nat) (hb : isBoolOp op = true → sa = 1) :
    C10.binResW op (8 * sa) (8 * sb) = 8 * binBytes op sa sb := by
  cases op <;> simp only [C10.binResW, binBytes, binKind] <;> (try omega) <;> (simp [isBoolOp] at hb; omega)

theorem isBool_size {op : BinOpType} {sa sb : Nat} (h : C12.binSizesOk op sa sb) : isBoolOp op = true → sa = 1 := by
  cases op <;> simp [isBoolOp, C12.binSizesOk, C12.binClass] at h ⊢ <;> exact h.1

theorem binKind_add {op : BinOpType} (h : binKind op = .add) : op = .IntAdd := by cases op <;> simp [binKind] at h ⊢
theorem binKind_sub {op : BinOpType} (h : binKind op = .sub) : op = .IntSub := by cases op <;> simp [binKind] at h ⊢

theorem sameSize_of_kind {op : BinOpType} {sa sb : Nat} (h : C12.binSizesOk op sa sb)
    (hk : binKind op = .add ∨ binKind op = .sub ∨ binKind op = .bitwise) : sb = sa := by
  cases op <;> simp [binKind] at hk <;> simp [C12.binSizesOk, C12.binClass] at h <;> omega

theorem itvBytes_mul8 {a : IntervalDomain} {k : Nat} (h : a.interval.w = 8 * k) : itvBytes a = k := by
  unfold itvBytes; omega

theorem ofItv_wf {a : IntervalDomain} {k : Nat} (ha : a.WF) (hk : 0 < k) (h : a.interval.w = 8 * k) :
    (ofItv a).WF ∧ (ofItv a).size = k := by
  have hb := itvBytes_mul8 h
  refine ⟨⟨by simp only [ofItv]; omega, ?_, ?_⟩, hb⟩
  · intro x hx; simp only [ofItv, Option.some.injEq] at hx; subst hx
    exact ⟨ha, by simp only [ofItv]; omega⟩
  · intro i o hm; cases hm

theorem binBytes_pos {op : BinOpType} {sa sb : Nat} (ha : 0 < sa) : 0 < binBytes op sa sb := by
  unfold binBytes; split <;> omega

/-- **C13-data-binop-wf.** The result of `DataDomain::bin_op` on well-formed operands of admissible sizes
is well-formed and has the byte size `Expression::bytesize` predicts. -/
theorem binOp_wf (op : BinOpType) {a b : DData} (ha : a.WF) (hb : b.WF) (hsz : C12.binSizesOk op a.size b.size) :
    (binOp op a b).WF ∧ (binOp op a b).size = binBytes op a.size b.size := by
  have hpos : 0 < binBytes op a.size b.size := binBytes_pos ha.1
  unfold binOp
  split
  · rename_i l r hl hr
    obtain ⟨_, _, hla⟩ := getIfAbsoluteValue_some hl
    obtain ⟨_, _, hra⟩ := getIfAbsoluteValue_some hr
    obtain ⟨hlwf, hlw⟩ := ha.2.1 l hla
    obtain ⟨hrwf, hrw⟩ := hb.2.1 r hra
    have hwid := binWidths_of_sizes hsz
    rw [← hlw, ← hrw] at hwid
    obtain ⟨h1, h2⟩ := itvBinOp_wf op l r hlwf hrwf (by have := ha.1; omega) hwid
    apply ofItv_wf h1 hpos
    rw [h2, binOpWidth_eq_binResW op _ _ (by intro h; rw [hlw, isBool_size hsz h]), hlw, hrw]
    exact binResW_bytes op _ _ (isBool_size hsz)
  · cases hk : binKind op <;> simp only [binBytes, hk]
    · have hs := sameSize_of_kind hsz (Or.inl hk)
      exact ⟨computeAdd_wf ha hb hs, computeAdd_size hs⟩
    · have hs := sameSize_of_kind hsz (Or.inr (Or.inl hk))
      exact ⟨computeSub_wf ha hb hs, computeSub_size ha hb hs⟩
    · exact ⟨preserveRel_wf ha, preserveRel_size a b⟩
    · split
      · exact ⟨newEmpty_wf (by omega), rfl⟩
      · exact ofItv_wf (k := 1) (newTop_wf 8 (by omega)).1 (by omega) rfl
    · split
      · exact ⟨newEmpty_wf ha.1, rfl⟩
      · exact ⟨newTop_wf' ha.1, rfl⟩
    · split
      · exact ⟨newEmpty_wf (by have := ha.1; omega), rfl⟩
      · exact ⟨newTop_wf' (by have := ha.1; omega), rfl⟩

/-- **C13-data-binop.** `DataDomain::bin_op` is sound under every identifier valuation: the P-Code
reference result of the operation on members of the operands is a member of the abstract result. -/
theorem binOp_sound {ρ : Nat → Int} (op : BinOpType) {a b : DData} (ha : a.WF) (hb : b.WF)
    (hsz : C12.binSizesOk op a.size b.size) {x y z : Bv} (hx : a.Mem ρ x) (hy : b.Mem ρ y)
    (hz : Ref.binOp op x y = .val z) : (binOp op a b).Mem ρ z := by
  have hzw : z.w = 8 * binBytes op a.size b.size := by
    rw [C10.ref_binOp_w hz, hx.1, hy.1]; exact binResW_bytes op _ _ (isBool_size hsz)
  unfold binOp
  split
  · rename_i l r hl hr
    obtain ⟨hlr, hlt, hla⟩ := getIfAbsoluteValue_some hl
    obtain ⟨hrr, hrt, hra⟩ := getIfAbsoluteValue_some hr
    obtain ⟨hlwf, hlw⟩ := ha.2.1 l hla
    obtain ⟨hrwf, hrw⟩ := hb.2.1 r hra
    have hxm : l.Mem x.toInt := by
      rcases memI_norel hlr hx.2 with h | ⟨l', hl', hm⟩
      · rw [hlt] at h; cases h
      · rw [hla] at hl'; cases hl'; exact hm
    have hym : r.Mem y.toInt := by
      rcases memI_norel hrr hy.2 with h | ⟨r', hr', hm⟩
      · rw [hrt] at h; cases h
      · rw [hra] at hr'; cases hr'; exact hm
    obtain ⟨h1, h2⟩ := itvBinOp_sound op l r hlwf hrwf (by have := ha.1; omega) (hx.1.trans hlw.symm)
      (hy.1.trans hrw.symm) (by intro h; rw [hlw, isBool_size hsz h]) hxm hym hz
    refine ⟨?_, Or.inr (Or.inl ⟨_, rfl, h1⟩)⟩
    simp only [ofItv]
    rw [itvBytes_mul8 (h2.symm.trans hzw)]; exact hzw
  · cases hk : binKind op <;> simp only [binBytes, hk] at hzw ⊢
    · have hs := sameSize_of_kind hsz (Or.inl hk)
      have hop := binKind_add hk; subst hop
      obtain ⟨w, xv, yv, rfl, rfl, rfl⟩ := C10.ref_add_inv hz
      have hw : w = 8 * a.size := hx.1
      subst hw
      exact computeAdd_mem ha hb hs hx hy rfl (ref_add_toInt xv yv)
    · have hs := sameSize_of_kind hsz (Or.inr (Or.inl hk))
      have hop := binKind_sub hk; subst hop
      obtain ⟨w, xv, yv, rfl, rfl, rfl⟩ := C10.ref_sub_inv hz
      have hw : w = 8 * a.size := hx.1
      subst hw
      exact computeSub_mem ha hb hs hx hy rfl (ref_sub_toInt xv yv)
    · exact preserveRel_mem hx hy hzw
    · rw [isEmpty_false_of_mem hx, isEmpty_false_of_mem hy]
      simp only [Bool.or_self, Bool.false_eq_true, if_false]
      refine ⟨hzw, ?_⟩
      rw [hzw]
      exact memI_newTopItv (inRange_of_width hzw) rfl
    · rw [isEmpty_false_of_mem hx, isEmpty_false_of_mem hy]
      simp only [Bool.or_self, Bool.false_eq_true, if_false]
      exact ⟨hzw, Or.inl rfl⟩
    · rw [isEmpty_false_of_mem hx, isEmpty_false_of_mem hy]
      simp only [Bool.or_self, Bool.false_eq_true, if_false]
      exact ⟨hzw, Or.inl rfl⟩

/-! ### `un_op`, `cast`, `subpiece` -/

/-- a member that is not a member of the absolute part makes the result of `un_op/cast/subpiece` contain top -/
theorem memI_cases {ρ : Nat → Int} {d : DData} {w : Nat} {t : Int} (h : d.MemI ρ w t) :
    (d.top || !d.rel.isEmpty) = true ∨ ∃ a, d.abs = some a ∧ a.Mem t := by
  rcases h with h | h | ⟨i, o, x, hm, _⟩
  · exact Or.inl (by simp [h])
  · exact Or.inr h
  · left
    cases hr : d.rel with
    | nil => rw [hr] at hm; cases hm
    | cons _ _ => simp

def unBytes (op : UnOpType) (sa : Nat) : Nat :=
  match op with
  | .BoolNegate | .FloatNaN => 1
  | _ => sa

theorem unOp_size (op : UnOpType) (a : DData) : (unOp op a).size = unBytes op a.size := by
  cases op <;> rfl

theorem unOp_wf (op : UnOpType) {a : DData} (ha : a.WF) (hsz : C12.unSizeOk op a.size) : (unOp op a).WF := by
  have hpos : 0 < unBytes op a.size := by have := ha.1; cases op <;> simp only [unBytes] <;> omega
  refine ⟨by rw [unOp_size]; exact hpos, ?_, ?_⟩
  · intro r hr
    simp only [unOp, Option.map_eq_some_iff] at hr
    obtain ⟨o, ho, rfl⟩ := hr
    obtain ⟨h1, h2⟩ := ha.2.1 o ho
    have hw1 : 1 < o.interval.w := by have := ha.1; omega
    have hb : op = .BoolNegate → o.interval.w = 8 := by
      intro h; subst h; simp only [C12.unSizeOk] at hsz; omega
    refine ⟨C02.unOp_wf o (unOfIR op) h1 hw1, ?_⟩
    rw [unOp_size]
    rw [itvUnOp_width op o h1 hw1 hb]
    cases op <;> simp only [unBytes] <;> omega
  · intro i o hm; cases hm

/-- **C13-data-unop.** -/
theorem unOp_sound {ρ : Nat → Int} (op : UnOpType) {a : DData} (ha : a.WF) (hsz : C12.unSizeOk op a.size)
    {x z : Bv} (hx : a.Mem ρ x) (hz : Ref.unOp op x = .val z) : (unOp op a).Mem ρ z := by
  have hzw : z.w = 8 * unBytes op a.size := by
    rw [C10.ref_unOp_w hz]
    cases op <;> simp only [unBytes] <;> first | exact hx.1 | rfl | (simp only [Ref.unOp] at hz; cases hz)
  refine ⟨by rw [unOp_size]; exact hzw, ?_⟩
  rcases memI_cases hx.2 with h | ⟨o, ho, hm⟩
  · exact Or.inl h
  · obtain ⟨h1, h2⟩ := ha.2.1 o ho
    have hb : op = .BoolNegate → o.interval.w = 8 := by
      intro h; subst h; simp only [C12.unSizeOk] at hsz; omega
    have := (itvUnOp_sound op o h1 (by have := ha.1; omega) (hx.1.trans h2.symm) hb hm hz).1
    exact Or.inr (Or.inl ⟨_, by simp [unOp, ho], this⟩)

theorem cast_wf (op : CastOpType) (s : Nat) {a : DData} (ha : a.WF) (hs : 0 < s)
    (hext : C12.castSizeOk op s a.size)
    (hfit : isCountCast op = true → ((8 * a.size : Nat) : Int) ≤ smax (8 * s)) : (cast op s a).WF := by
  refine ⟨hs, ?_, ?_⟩
  · intro r hr
    simp only [cast, Option.map_eq_some_iff] at hr
    obtain ⟨o, ho, rfl⟩ := hr
    obtain ⟨h1, h2⟩ := ha.2.1 o ho
    exact itvCast_wf op s o h1 hs
      (by intro h; rw [h2]; rcases h with rfl | rfl <;> (simp only [C12.castSizeOk] at hext; omega))
      (by intro h; rw [h2]; exact hfit h)
  · intro i o hm; cases hm

/-- **C13-data-cast.** -/
theorem cast_sound {ρ : Nat → Int} (op : CastOpType) (s : Nat) {a : DData} (ha : a.WF) (hs : 0 < s)
    (hfit : isCountCast op = true → ((8 * a.size : Nat) : Int) ≤ smax (8 * s))
    {x z : Bv} (hx : a.Mem ρ x) (hz : Ref.cast op s x = .val z) : (cast op s a).Mem ρ z := by
  have hzw : z.w = 8 * s := C10.ref_cast_w hz
  refine ⟨hzw, ?_⟩
  rcases memI_cases hx.2 with h | ⟨o, ho, hm⟩
  · exact Or.inl h
  · obtain ⟨h1, h2⟩ := ha.2.1 o ho
    have := (itvCast_sound op s o h1 hs (by intro h; rw [h2]; exact hfit h) (hx.1.trans h2.symm) hm hz).1
    exact Or.inr (Or.inl ⟨_, by simp [cast, ho], this⟩)

theorem subpiece_wf (lb s : Nat) {a : DData} (ha : a.WF) (hs : 0 < s) (hsz : lb + s ≤ a.size) :
    (subpiece lb s a).WF ∧ (subpiece lb s a).size = s := by
  unfold subpiece
  split
  · rename_i h; exact ⟨ha, h.2.symm⟩
  · refine ⟨⟨hs, ?_, ?_⟩, rfl⟩
    · intro r hr
      simp only [Option.map_eq_some_iff] at hr
      obtain ⟨o, ho, rfl⟩ := hr
      obtain ⟨h1, h2⟩ := ha.2.1 o ho
      exact C02.subpiece_wf o (8 * lb) (8 * s) h1 (by omega) (by omega)
    · intro i o hm; cases hm

/-- **C13-data-subpiece.** A subpiece that is not the whole value loses the relative targets (they become
`contains_top_values`); the whole-value subpiece is the identity. -/
theorem subpiece_sound {ρ : Nat → Int} (lb s : Nat) {a : DData} (ha : a.WF) (hs : 0 < s) (hsz : lb + s ≤ a.size)
    {x z : Bv} (hx : a.Mem ρ x) (hz : Ref.subpieceOp lb s x = .val z) : (subpiece lb s a).Mem ρ z := by
  have hzw : z.w = 8 * s := C10.ref_subpiece_w hz
  unfold subpiece
  split
  · rename_i h
    obtain ⟨rfl, rfl⟩ := h
    have : z = x := by
      unfold Ref.subpieceOp at hz
      split at hz
      · simp only [valV] at hz; injection hz with hz; subst hz
        obtain ⟨w, v⟩ := x
        have hw : w = 8 * a.size := hx.1
        subst hw
        simp only [Nat.mul_zero]
        rw [C10.subpiece_full]
      · cases hz
    rw [this]; exact hx
  · refine ⟨hzw, ?_⟩
    rcases memI_cases hx.2 with h | ⟨o, ho, hm⟩
    · exact Or.inl h
    · obtain ⟨h1, h2⟩ := ha.2.1 o ho
      have := (itvSubpiece_sound lb s o h1 hs (by omega) (hx.1.trans h2.symm) hm hz).1
      exact Or.inr (Or.inl ⟨_, by simp [ho], this⟩)

/-! ### executable γρ -/

/-- **C13-data-gamma-exec.** The executable membership test used by the driver is the declarative γρ. -/
theorem contains_iff {ρ : Nat → Int} {d : DData} (hd : d.WF) (v : Bv) : d.contains ρ v = true ↔ d.Mem ρ v := by
  unfold contains Mem MemI
  simp only [Bool.and_eq_true, decide_eq_true_eq, Bool.or_eq_true, List.any_eq_true]
  constructor
  · rintro ⟨hw, (h | h) | ⟨p, hp, h⟩⟩
    · exact ⟨hw, Or.inl h⟩
    · cases ha : d.abs with
      | none => simp [ha] at h
      | some a => simp only [ha, decide_eq_true_eq] at h; exact ⟨hw, Or.inr (Or.inl ⟨a, rfl, h⟩)⟩
    · refine ⟨hw, Or.inr (Or.inr ⟨p.1, p.2, _, hp, h, ?_⟩)⟩
      rw [wrap_add_wrap_right]
      have : ρ p.1 + (v.toInt - ρ p.1) = v.toInt := by omega
      rw [this]
      exact (wrap_toInt (by have := hd.1; omega) v.v).symm
  · rintro ⟨hw, h | ⟨a, ha, h⟩ | ⟨i, o, x, hm, hx, heq⟩⟩
    · exact ⟨hw, Or.inl (Or.inl h)⟩
    · exact ⟨hw, Or.inl (Or.inr (by simp [ha, h]))⟩
    · refine ⟨hw, Or.inr ⟨(i, o), hm, ?_⟩⟩
      obtain ⟨h1, h2⟩ := hd.2.2 i o hm
      have hxr : InRange v.w x := by rw [hw, ← h2]; exact Interval.mem_inRange h1.1 hx
      have : wrap v.w (v.toInt - ρ i) = x := by
        rw [heq, wrap_sub_wrap_left]
        have : ρ i + x - ρ i = x := by omega
        rw [this]
        exact wrap_of_inRange _ (by have := hd.1; omega) hxr
      simp only [this]
      exact hx

/-! ### conditional specialisation (C04) under γρ -/

/-- **C13-data-bound.** The five `add_*_bound` of `DataDomain` keep every represented value that satisfies the
comparison (C04 `addBound_sound`, lifted to γρ: relative targets and the top flag are untouched). -/
theorem addBound_sound {ρ : Nat → Int} (k : BoundKind) {d : DData} (hd : d.WF) (hw64 : 8 * d.size ≤ 64)
    (bound : Int) (hb : InRange (8 * d.size) bound) {v : Bv} (hv : d.Mem ρ v)
    (hR : k.holds (8 * d.size) v.toInt bound) : ∃ d', d.addBound k bound = some d' ∧ d'.Mem ρ v := by
  unfold addBound
  cases hres : Itv.DataDomain.addBound (IntervalDomain.addBound k) d.toC04 bound with
  | none =>
    obtain ⟨h1, h2, h3⟩ := (C04.data_addBound_err_iff _ _ _).mp hres
    simp only [toC04] at h1 h2 h3
    rcases memI_norel h1 hv.2 with h | ⟨a, ha, hm⟩
    · rw [h2] at h; cases h
    · obtain ⟨haw, hawd⟩ := hd.2.1 a ha
      obtain ⟨r, hr, _⟩ := C04.addBound_sound k a haw (by omega) bound (by rw [hawd]; exact hb) hm
        (by rw [hawd]; exact hR)
      rw [ha] at h3; simp only [Option.bind_some] at h3
      rw [hr] at h3; cases h3
  | some d' =>
    obtain ⟨h1, h2, h3, h4⟩ := C04.data_addBound_ok _ _ _ _ hres
    simp only [toC04] at h1 h2 h3 h4
    refine ⟨ofC04 d', rfl, by simp only [ofC04]; rw [h3]; exact hv.1, ?_⟩
    rcases hv.2 with h | ⟨a, ha, hm⟩ | ⟨i, o, x, hmem, hx, heq⟩
    · exact Or.inl (by simp only [ofC04]; rw [h2]; exact h)
    · obtain ⟨haw, hawd⟩ := hd.2.1 a ha
      obtain ⟨r, hr, hrm⟩ := C04.addBound_sound k a haw (by omega) bound (by rw [hawd]; exact hb) hm
        (by rw [hawd]; exact hR)
      refine Or.inr (Or.inl ⟨r, ?_, hrm⟩)
      simp only [ofC04]; rw [h4, ha]; exact hr
    · exact Or.inr (Or.inr ⟨i, o, x, by simp only [ofC04]; rw [h1]; exact hmem, hx, heq⟩)

end DData

/-! ### non-vacuity -/
section Examples
def exPtr (id : Nat) (off : Int) : DData := DData.fromTarget id (IntervalDomain.single 64 off)
def exAbs (x : Int) : DData := DData.ofItv (IntervalDomain.single 64 x)

-- pointer + offset keeps the target and adds the offsets
example : DData.binOp .IntAdd (exPtr 0 (-16)) (exAbs 8) = exPtr 0 (-8) := by decide
example : DData.binOp .IntAdd (exAbs 8) (exPtr 0 (-16)) = exPtr 0 (-8) := by decide
-- pointer − pointer with the same target is the difference of the offsets …
example : DData.binOp .IntSub (exPtr 2 40) (exPtr 2 16) = exAbs 24 := by decide
-- a proper subpiece of a pointer is not a pointer
example : DData.subpiece 0 4 (exPtr 0 (-16)) = { size := 4, rel := [], abs := none, top := true } := by decide
example : DData.subpiece 0 8 (exPtr 0 (-16)) = exPtr 0 (-16) := by decide

theorem exPtr_wf (id : Nat) (off : Int) (h : InRange 64 off) : (exPtr id off).WF := by
  refine ⟨by show 0 < (64 + 7) / 8; decide, ?_, ?_⟩
  · intro a ha; cases ha
  · intro i o hm
    simp only [exPtr, DData.fromTarget, List.mem_singleton, Prod.mk.injEq] at hm
    obtain ⟨rfl, rfl⟩ := hm
    exact ⟨C02.ofInterval_wf' (Interval.wf_single 64 (by decide) off h), by show 64 = 8 * ((64 + 7) / 8); decide⟩

-- different targets: the result is unknown (absolute `Top` interval) — sound for every valuation
example : (DData.binOp .IntSub (exPtr 2 40) (exPtr 3 16)).abs = some (IntervalDomain.newTop 64) := by decide

-- `binOp_sound` instantiated: (stack − 16) + 8 with the stack identifier at 0x7ffd00001000
example : (DData.binOp .IntAdd (exPtr 0 (-16)) (exAbs 8)).Mem (fun _ => 0x7ffd00001000) (Bv.ofNat 64 0x7ffd00000ff8) := by
  have hx : (exPtr 0 (-16)).Mem (fun _ => 0x7ffd00001000) (Bv.ofNat 64 0x7ffd00000ff0) :=
    (DData.contains_iff (exPtr_wf 0 (-16) (by decide)) _).mp (by decide)
  have hy : (exAbs 8).Mem (fun _ => 0x7ffd00001000) (Bv.ofNat 64 8) :=
    (DData.contains_iff (DData.ofItv_wf (k := 8) (C02.ofInterval_wf' (Interval.wf_single 64 (by decide) 8 (by decide))) (by decide) rfl).1 _).mp (by decide)
  exact DData.binOp_sound .IntAdd (exPtr_wf 0 (-16) (by decide))
    (DData.ofItv_wf (k := 8) (C02.ofInterval_wf' (Interval.wf_single 64 (by decide) 8 (by decide))) (by decide) rfl).1
    rfl hx hy (by rfl)
end Examples

end CweModel.C13
