/-
C13 — "PI-lite", layer 2, theorems: the register part of `pointer_inference::State::eval`
(`state/access_handling.rs`, model `C13/Eval.lean`) is SOUND for the reference interpreter
(`Base/IRSem.lean`: `Sem.eval`), by induction on the expression, under every identifier valuation `ρ`
(the global memory identifier standing for base address 0):

    (∀ r, σ(r) ∈ γρ (s.getReg r))  ∧  e well-sized  ∧  Sem.eval σ e = v   ⟹   v ∈ γρ (s.eval e)      (`eval_sound`)

`handleRegisterAssign_sound` turns this into the soundness of the register part of the transfer function
of `Def::Assign` — one instance of the hypothesis `hsound` of the frame theorem `pi_meta`.
`DData.mem_toAData`: the γρ of these theorems is the γ the validation of the real analysis evaluates.

Hypotheses, spelled out: `St.WF` (every bound register value is well-formed and has the size of its
register), `ExprOk e` = `C12.WellSized e` (the typing walk the normalised IR is proved to satisfy in C12)
and `CountFits e` (the bit length of the operand of a `PopCount`/`LzCount` cast is representable in the result).
-/
import CweModel.C13.Model
import CweModel.C13.Eval
import CweModel.C13.DataProps

set_option linter.unusedSimpArgs false
set_option linter.unusedVariables false
namespace CweModel.C13
open CweModel CweModel.IR CweModel.Itv

/-- in every `PopCount`/`LzCount` cast the bit length of the operand is representable (as a signed number) in
the result size — e.g. any operand of at most 15 bytes for a 1-byte result. Without it the real
`IntervalDomain::cast` builds the interval `[0, bit length]` with a wrapped upper bound. -/
def CountFits : Expression → Prop
  | .BinOp _ l r => CountFits l ∧ CountFits r
  | .UnOp _ a => CountFits a
  | .Cast op size a => (isCountCast op = true → ((8 * a.bytesize : Nat) : Int) ≤ smax (8 * size)) ∧ CountFits a
  | .Subpiece _ _ a => CountFits a
  | _ => True

/-- the expressions the theorem speaks about: well-sized in the sense of C12 (`WellSized`: the typing the
normalised IR is proved to satisfy) with count casts that fit -/
def ExprOk (e : Expression) : Prop := C12.WellSized e ∧ CountFits e

namespace St

/-- every bound register value is well-formed and has the size of its register -/
def WF (s : St) : Prop := ∀ v d, (v, d) ∈ s.regs → d.WF ∧ d.size = v.size

/-- **γ of the register map**: every register's concrete value is represented by its abstract value
(a register without binding is `Top`: any value of the register's size) -/
def RegsIn (ρ : Nat → Int) (s : St) (σ : Sem.State) : Prop := ∀ v, (s.getReg v).Mem ρ (σ.getReg v)

theorem getReg_wf {s : St} (hs : s.WF) (v : Variable) (hv : 0 < v.size) :
    (s.getReg v).WF ∧ (s.getReg v).size = v.size := by
  unfold getReg
  split
  · rename_i p hp
    have hm := List.mem_of_find?_eq_some hp
    have := List.find?_some hp
    simp only [decide_eq_true_eq] at this
    obtain ⟨pv, pd⟩ := p
    simp only at this; subst this
    exact hs _ _ hm
  · exact ⟨DData.newTop_wf' hv, rfl⟩

theorem ofBv_wf (b : Bv) {k : Nat} (hk : 0 < k) (hw : b.w = 8 * k) : (DData.ofBv b).WF ∧ (DData.ofBv b).size = k := by
  unfold DData.ofBv
  apply DData.ofItv_wf _ hk hw
  exact C02.ofInterval_wf' (Interval.wf_single b.w (by omega) _ (inRange_toInt b.v))

theorem ofBv_mem (ρ : Nat → Int) (b : Bv) {k : Nat} (hw : b.w = 8 * k) : (DData.ofBv b).Mem ρ b := by
  refine ⟨?_, Or.inr (Or.inl ⟨_, rfl, (Interval.mem_single _ _ _).mpr rfl⟩)⟩
  simp only [DData.ofBv, DData.ofItv]
  rw [DData.itvBytes_mul8 (k := k) hw]; exact hw

theorem binBytes_eq (op : BinOpType) (l r : Expression) :
    DData.binBytes op l.bytesize r.bytesize = (Expression.BinOp op l r).bytesize := by
  cases op <;> rfl

theorem unBytes_eq (op : UnOpType) (a : Expression) (h : C12.unSizeOk op a.bytesize) :
    DData.unBytes op a.bytesize = (Expression.UnOp op a).bytesize := by
  cases op <;> first | rfl | (simp only [C12.unSizeOk] at h; simp only [DData.unBytes, Expression.bytesize]; omega)

/-- **C13-evalrec.** `eval_recursive` is sound: by induction on the expression. -/
theorem evalRec_sound {ρ : Nat → Int} {s : St} (hs : s.WF) {σ : Sem.State} (hσ : RegsIn ρ s σ) :
    ∀ e : Expression, ExprOk e →
      (s.evalRec e).WF ∧ (s.evalRec e).size = e.bytesize ∧ ∀ v, Sem.eval σ e = some v → (s.evalRec e).Mem ρ v := by
  intro e
  induction e with
  | Var x =>
    intro ⟨hw, _⟩
    obtain ⟨h1, h2⟩ := getReg_wf hs x hw
    refine ⟨h1, h2, ?_⟩
    intro v hv
    simp only [Sem.eval, Option.some.injEq] at hv; subst hv
    exact hσ x
  | Const b x =>
    intro ⟨hw, _⟩
    have hb : (Bv.ofBytes b x).w = 8 * b := rfl
    obtain ⟨h1, h2⟩ := ofBv_wf (Bv.ofBytes b x) hw hb
    refine ⟨h1, h2, ?_⟩
    intro v hv
    simp only [Sem.eval, Option.some.injEq] at hv; subst hv
    exact ofBv_mem ρ _ hb
  | Unknown d n =>
    intro ⟨hw, _⟩
    refine ⟨DData.newTop_wf' hw, rfl, ?_⟩
    intro v hv
    simp only [Sem.eval, Option.some.injEq] at hv; subst hv
    exact ⟨rfl, Or.inl rfl⟩
  | BinOp op l r ihl ihr =>
    intro ⟨⟨hwl, hwr, hsz⟩, hnl, hnr⟩
    obtain ⟨hl1, hl2, hl3⟩ := ihl ⟨hwl, hnl⟩
    obtain ⟨hr1, hr2, hr3⟩ := ihr ⟨hwr, hnr⟩
    simp only [evalRec]
    split
    · -- `x XOR x`
      rename_i hx
      obtain ⟨rfl, rfl⟩ := hx
      have hpos : 0 < l.bytesize := by rw [← hl2]; exact hl1.1
      have hb : (Bv.ofBytes l.bytesize 0).w = 8 * l.bytesize := rfl
      obtain ⟨h1, h2⟩ := ofBv_wf (Bv.ofBytes l.bytesize 0) hpos hb
      refine ⟨h1, h2, ?_⟩
      intro v hv
      obtain ⟨a, b, ha, hb', hv'⟩ := C10.eval_binOp_some.mp hv
      rw [ha] at hb'; cases hb'
      rw [C10.ref_xor_self (Or.inl rfl)] at hv'
      cases hv'
      have haw : a.w = 8 * l.bytesize := by rw [(hl3 a ha).1, hl2]
      have : Bv.ofNat a.w 0 = Bv.ofBytes l.bytesize 0 := by rw [haw]; rfl
      rw [this]
      exact ofBv_mem ρ _ hb
    · have hsz' : C12.binSizesOk op (s.evalRec l).size (s.evalRec r).size := by rw [hl2, hr2]; exact hsz
      obtain ⟨h1, h2⟩ := DData.binOp_wf op hl1 hr1 hsz'
      refine ⟨h1, by rw [h2, hl2, hr2]; exact binBytes_eq op l r, ?_⟩
      intro v hv
      obtain ⟨a, b, ha, hb, hv'⟩ := C10.eval_binOp_some.mp hv
      exact DData.binOp_sound op hl1 hr1 hsz' (hl3 a ha) (hr3 b hb) hv'
  | UnOp op a ih =>
    intro ⟨⟨hwa, hsz⟩, hna⟩
    obtain ⟨h1, h2, h3⟩ := ih ⟨hwa, hna⟩
    have hsz' : C12.unSizeOk op (s.evalRec a).size := by rw [h2]; exact hsz
    simp only [evalRec]
    refine ⟨DData.unOp_wf op h1 hsz', by rw [DData.unOp_size, h2]; exact unBytes_eq op a hsz, ?_⟩
    intro v hv
    obtain ⟨x, hx, hv'⟩ := C10.eval_unOp_some.mp hv
    exact DData.unOp_sound op h1 hsz' (h3 x hx) hv'
  | Cast op n a ih =>
    intro ⟨⟨hwa, hn, hsz⟩, hc, hna⟩
    obtain ⟨h1, h2, h3⟩ := ih ⟨hwa, hna⟩
    simp only [evalRec]
    refine ⟨DData.cast_wf op n h1 hn (by rw [h2]; exact hsz) (by rw [h2]; exact hc), rfl, ?_⟩
    intro v hv
    obtain ⟨x, hx, hv'⟩ := C10.eval_cast_some.mp hv
    exact DData.cast_sound op n h1 hn (by rw [h2]; exact hc) (h3 x hx) hv'
  | Subpiece lb n a ih =>
    intro ⟨⟨hwa, hn, hsz⟩, hna⟩
    obtain ⟨h1, h2, h3⟩ := ih ⟨hwa, hna⟩
    simp only [evalRec]
    obtain ⟨h4, h5⟩ := DData.subpiece_wf lb n h1 hn (by rw [h2]; exact hsz)
    refine ⟨h4, h5, ?_⟩
    intro v hv
    obtain ⟨x, hx, hv'⟩ := C10.eval_subpiece_some.mp hv
    exact DData.subpiece_sound lb n h1 hn (by rw [h2]; exact hsz) (h3 x hx) hv'

/-! ### `replace_if_global_pointer` and `State::eval` -/

theorem tryToOffset_some {d : DData} {c : Int} (h : tryToOffset d = some c) :
    d.rel = [] ∧ d.top = false ∧ ∃ a, d.abs = some a := by
  unfold tryToOffset at h
  split at h
  · cases h
  · rename_i hc
    simp only [Bool.or_eq_true, Bool.not_eq_true', List.isEmpty_eq_false_iff, not_or] at hc
    have h1 : d.rel = [] := by
      cases hr : d.rel with
      | nil => rfl
      | cons _ _ => exact absurd (by rw [hr]; simp) hc.1
    have h2 : d.top = false := by simpa using hc.2
    cases ha : d.abs with
    | none => simp [ha] at h
    | some a => exact ⟨h1, h2, a, rfl⟩

/-- a constant that is a known global address is replaced by a pointer relative to the global memory
identifier; sound when that identifier stands for the base address 0 -/
theorem replaceIfGlobalPointer_sound {ρ : Nat → Int} (s : St) (hg : s.globals ≠ [] → ρ s.gid = 0)
    {d : DData} (hd : d.WF) :
    (s.replaceIfGlobalPointer d).WF ∧ (s.replaceIfGlobalPointer d).size = d.size ∧
      ∀ v, d.Mem ρ v → (s.replaceIfGlobalPointer d).Mem ρ v := by
  unfold replaceIfGlobalPointer
  split
  · rename_i c hc
    obtain ⟨hrel, htop, a, ha⟩ := tryToOffset_some hc
    split
    · rename_i hcont
      have hne : s.globals ≠ [] := by
        intro h; rw [h] at hcont; simp at hcont
      have hρ := hg hne
      rw [ha]
      simp only
      obtain ⟨hawf, haw⟩ := hd.2.1 a ha
      have hbytes : itvBytes (IntervalDomain.ofInterval a.interval) = d.size :=
        DData.itvBytes_mul8 (by simpa [IntervalDomain.ofInterval] using haw)
      refine ⟨⟨by simp only [DData.fromTarget]; rw [hbytes]; exact hd.1, ?_, ?_⟩, hbytes, ?_⟩
      · intro x hx; cases hx
      · intro i o hm
        simp only [DData.fromTarget, List.mem_singleton, Prod.mk.injEq] at hm
        obtain ⟨rfl, rfl⟩ := hm
        exact ⟨C02.ofInterval_wf' hawf.1, by simp only [DData.fromTarget]; rw [hbytes]; exact haw⟩
      · intro v hv
        refine ⟨by simp only [DData.fromTarget]; rw [hbytes]; exact hv.1, ?_⟩
        rcases DData.memI_norel hrel hv.2 with h | ⟨a', ha', hm⟩
        · rw [htop] at h; cases h
        · rw [ha] at ha'; cases ha'
          refine Or.inr (Or.inr ⟨s.gid, IntervalDomain.ofInterval a.interval, v.toInt, ?_, hm, ?_⟩)
          · simp [DData.fromTarget]
          · rw [hρ, Int.zero_add]
            exact (wrap_toInt (by have := hd.1; have := hv.1; omega) v.v).symm
    · exact ⟨hd, rfl, fun v hv => hv⟩
  · exact ⟨hd, rfl, fun v hv => hv⟩

/-- **C13-eval-sound.** Soundness of `State::eval` on the register part of the state: if every register's
concrete value is in γρ of its abstract value (a register without binding is `Top`), then for every well-sized
expression the value the reference interpreter computes is in γρ of `State::eval`; the result is
well-formed and has the expression's byte size. `ρ` is arbitrary, except that the global memory identifier
stands for the base address 0 whenever `known_global_addresses` is non-empty. -/
theorem eval_sound {ρ : Nat → Int} {s : St} (hs : s.WF) (hg : s.globals ≠ [] → ρ s.gid = 0)
    {σ : Sem.State} (hσ : RegsIn ρ s σ) {e : Expression} (he : ExprOk e) :
    (s.eval e).WF ∧ (s.eval e).size = e.bytesize ∧ ∀ v, Sem.eval σ e = some v → (s.eval e).Mem ρ v := by
  obtain ⟨h1, h2, h3⟩ := evalRec_sound hs hσ e he
  obtain ⟨h4, h5, h6⟩ := replaceIfGlobalPointer_sound (ρ := ρ) s hg h1
  exact ⟨h4, by rw [eval, h5, h2], fun v hv => h6 v (h3 v hv)⟩

/-! ### `handle_register_assign`: the transfer function of `Def::Assign` on the register part -/

theorem find_filter_ne (l : List (Variable × DData)) {v w : Variable} (hne : w ≠ v) :
    (l.filter (fun p => decide (p.1 ≠ v))).find? (fun p => decide (p.1 = w)) = l.find? (fun p => decide (p.1 = w)) := by
  rw [List.find?_filter]
  congr 1
  funext a
  by_cases h : a.1 = w
  · have : a.1 ≠ v := fun h' => hne (h.symm.trans h')
    simp [h, hne]
  · simp [h]

theorem find_filter_self (l : List (Variable × DData)) (v : Variable) :
    (l.filter (fun p => decide (p.1 ≠ v))).find? (fun p => decide (p.1 = v)) = none := by
  rw [List.find?_eq_none]
  intro p hp
  simp only [List.mem_filter, decide_eq_true_eq] at hp
  simpa using hp.2

theorem getReg_setReg (s : St) (v w : Variable) (d : DData) :
    (s.setReg v d).getReg w = if w = v then (if d.isTop then DData.newTop v.size else d) else s.getReg w := by
  by_cases ht : d.isTop = true
  · simp only [setReg, ht, if_true, getReg]
    by_cases hwv : w = v
    · subst hwv; simp only [if_true, find_filter_self]
    · simp only [hwv, if_false, find_filter_ne _ hwv]
  · simp only [setReg, ht, if_false, getReg, Bool.false_eq_true]
    by_cases hwv : w = v
    · subst hwv; simp [List.find?]
    · have : ¬ v = w := fun h => hwv h.symm
      simp only [hwv, if_false, List.find?, this, decide_false, find_filter_ne _ hwv]

theorem isTop_eq {d : DData} (h : d.isTop = true) : d = DData.newTop d.size := by
  obtain ⟨sz, rel, abs, top⟩ := d
  simp only [DData.isTop, Bool.and_eq_true, List.isEmpty_iff, Option.isNone_iff_eq_none] at h
  obtain ⟨⟨rfl, rfl⟩, rfl⟩ := h
  rfl

/-- **C13-assign-sound.** One instance of the frame's hypothesis "sound edge transfer": the register part
of the transfer function of `Def::Assign` (`handle_register_assign`) maps represented states to
represented states. -/
theorem handleRegisterAssign_sound {ρ : Nat → Int} {s : St} (hs : s.WF) (hg : s.globals ≠ [] → ρ s.gid = 0)
    {σ : Sem.State} (hσ : RegsIn ρ s σ) {x : Variable} {e : Expression} (he : ExprOk e) (hsz : e.bytesize = x.size)
    {v : Bv} (hv : Sem.eval σ e = some v) :
    RegsIn ρ (s.handleRegisterAssign x e) (σ.setReg x v) ∧ (s.handleRegisterAssign x e).WF := by
  obtain ⟨h1, h2, h3⟩ := eval_sound hs hg hσ he
  have hm := h3 v hv
  constructor
  · intro w
    unfold handleRegisterAssign
    rw [getReg_setReg s x w _, C10.getReg_setReg]
    split
    · split
      · rename_i ht
        rw [isTop_eq ht, h2, hsz] at hm
        exact hm
      · exact hm
    · exact hσ w
  · intro w d hmem
    unfold handleRegisterAssign setReg at hmem
    split at hmem
    · simp only [List.mem_filter] at hmem
      exact hs w d hmem.1
    · simp only [List.mem_cons, List.mem_filter, Prod.mk.injEq] at hmem
      rcases hmem with ⟨rfl, rfl⟩ | hmem
      · exact ⟨h1, h2.trans hsz⟩
      · exact hs w d hmem.1

end St

/-! ### non-vacuity -/
section Example
def exSP : Variable := { name := "RSP", size := 8 }
def exSt : St := { regs := [(exSP, DData.fromTarget 0 (IntervalDomain.single 64 (-16)))], globals := [], gid := 1 }
def exσ : Sem.State := ({ seed := 1 } : Sem.State).setReg exSP (Bv.ofNat 64 0x7ffd00000ff0)
def exE : Expression := .BinOp .IntAdd (.Var exSP) (.Const 8 8)

theorem exPtr_wf' (id : Nat) (off : Int) (h : InRange 64 off) : (DData.fromTarget id (IntervalDomain.single 64 off)).WF := by
  refine ⟨by show 0 < (64 + 7) / 8; decide, ?_, ?_⟩
  · intro a ha; cases ha
  · intro i o hm
    simp only [DData.fromTarget, List.mem_singleton, Prod.mk.injEq] at hm
    obtain ⟨rfl, rfl⟩ := hm
    exact ⟨C02.ofInterval_wf' (Interval.wf_single 64 (by decide) off h), by show 64 = 8 * ((64 + 7) / 8); decide⟩

theorem exSt_wf : exSt.WF := by
  intro v d hm
  simp only [exSt, List.mem_singleton, Prod.mk.injEq] at hm
  obtain ⟨rfl, rfl⟩ := hm
  exact ⟨exPtr_wf' 0 (-16) (by decide), rfl⟩

theorem exRegsIn : St.RegsIn (fun _ => 0x7ffd00001000) exSt exσ := by
  intro v
  unfold exσ
  rw [C10.getReg_setReg]
  by_cases h : v = exSP
  · subst h
    simp only [if_true]
    exact (DData.contains_iff (exPtr_wf' 0 (-16) (by decide)) _).mp (by decide)
  · have h' : ¬ exSP = v := fun e => h e.symm
    simp only [h, if_false, St.getReg, exSt, List.find?, h', decide_false]
    exact ⟨C10.stateWF_default 1 v, Or.inl rfl⟩

-- the theorem applies: `RSP + 8` evaluates to a value represented by `State::eval`, which is `stack − 8`
example : (exSt.eval exE).Mem (fun _ => 0x7ffd00001000) (Bv.ofNat 64 0x7ffd00000ff8) :=
  (St.eval_sound exSt_wf (by intro h; exact absurd rfl h) exRegsIn (e := exE)
    ⟨⟨by decide, by decide, rfl⟩, trivial, trivial⟩).2.2 _ (by rfl)
example : exSt.eval exE = DData.fromTarget 0 (IntervalDomain.single 64 (-8)) := by decide
end Example


/-! ### agreement with the γ of the validation stream -/

/-- the value as the validation stream reports it (`AData` of `C13/Model.lean`: hints and size dropped) -/
def DData.toAData (d : DData) : AData :=
  { rel := d.rel.map (fun p => (p.1, p.2.interval)), abs := d.abs.map (·.interval), top := d.top }

/-- **C13-gamma-agree.** The concretisation of the PI-lite theorems is the one the validation of the real
analysis evaluates (`AData.Mem`, identifiers valuated by natural-number base values). -/
theorem DData.mem_toAData {ν : Nat → Option Nat} {ρ : Nat → Int} (hρ : ∀ i base, ν i = some base → ρ i = (base : Int))
    {d : DData} (hd : d.WF) {v : Bv} (hv : d.Mem ρ v) : d.toAData.Mem ν v.w v.toNat := by
  have hw0 : 0 < v.w := by have := hd.1; have := hv.1; omega
  have hsig : toSigned v.w v.toNat = v.toInt := (toInt_eq_wrap v.v).symm
  rcases hv.2 with h | ⟨a, ha, hm⟩ | ⟨i, o, x, hmem, hx, heq⟩
  · exact Or.inl h
  · refine Or.inr (Or.inl ⟨a.interval, by simp [DData.toAData, ha], ?_⟩)
    rw [hsig]; exact hm
  · refine Or.inr (Or.inr ⟨i, o.interval, ?_, ?_⟩)
    · simp only [DData.toAData, List.mem_map]
      exact ⟨(i, o), hmem, rfl⟩
    · cases hν : ν i with
      | none => trivial
      | some base =>
        simp only
        obtain ⟨h1, h2⟩ := hd.2.2 i o hmem
        have hxr : InRange v.w x := by rw [hv.1, ← h2]; exact Interval.mem_inRange h1.1 hx
        have : toSigned v.w (v.toNat + 2 ^ v.w - base % 2 ^ v.w) = x := by
          unfold toSigned
          have hlt : base % 2 ^ v.w < 2 ^ v.w := Nat.mod_lt _ (Nat.two_pow_pos _)
          rw [← wrap_of_inRange v.w hw0 hxr]
          apply C02.wrap_congr v.w hw0
          have hb := hρ i base hν
          rw [hb] at heq
          -- v.toInt ≡ base + x, v.toNat ≡ v.toInt, base % 2^w ≡ base
          obtain ⟨k1, hk1⟩ := toNat_congr v.v
          obtain ⟨_, k2, hk2⟩ := wrap_spec v.w hw0 ((base : Int) + x)
          have hmod : ((base % 2 ^ v.w : Nat) : Int) = (base : Int) - (2 ^ v.w : Nat) * ((base / 2 ^ v.w : Nat) : Int) := by
            have := Nat.div_add_mod base (2 ^ v.w)
            have h' : ((2 ^ v.w * (base / 2 ^ v.w) + base % 2 ^ v.w : Nat) : Int) = (base : Int) := by rw [this]
            push_cast at h' ⊢
            omega
          have hsub : ((v.toNat + 2 ^ v.w - base % 2 ^ v.w : Nat) : Int)
              = (v.toNat : Int) + ((2 ^ v.w : Nat) : Int) - ((base % 2 ^ v.w : Nat) : Int) := by
            rw [Int.ofNat_sub (by omega)]; push_cast; rfl
          rw [hsub, hmod]
          simp only [Bv.toInt, Bv.toNat] at heq hk1 ⊢
          rw [heq, hk2] at hk1
          refine ⟨k1 + k2 + 1 + ((base / 2 ^ v.w : Nat) : Int), ?_⟩
          unfold pow2 at hk1 hk2 ⊢
          generalize ((2 ^ v.w : Nat) : Int) = P at *
          generalize ((base / 2 ^ v.w : Nat) : Int) = q at *
          rw [Int.mul_add, Int.mul_add, Int.mul_add, Int.mul_one]
          rw [Int.mul_comm P k2]
          omega
        rw [this]; exact hx
end CweModel.C13
