/-
C13 — "PI-lite", layer 1: `DataDomain<IntervalDomain>` and its `RegisterDomain` implementation.

Mirrors, function by function,
* `abstract_domain/data.rs`            (`is_empty`, `new_empty`, `from_target`, `get_if_absolute_value`,
                                        `get_if_absolute_value_or_top`, `get_if_unique_target`),
* `abstract_domain/data/trait_impl.rs` (`new_top`, `is_top`, `From<T>`, `From<Bitvector>`, `try_to_bitvec`),
* `abstract_domain/data/arithmetics.rs` (`compute_add`, `add_offset`, `subtract_offset`,
                                        `compute_sub_if_offset_through_pointer_subtraction`, `compute_sub`,
                                        `preserve_relative_targets_for_binop`, `bin_op`, `un_op`, `subpiece`, `cast`),
* `abstract_domain/data/conditional_specialization.rs`: the five `add_*_bound` through their C04 model;
  `intersect` is NOT modelled (its own doc comment declares it unsound).

The offsets/absolute values are `IntervalDomain`s: the model of `interval.rs` is the one of C02
(`CweModel/C02/Model.lean`: `IntervalDomain.binOp/unOp/cast/subpiece`), which is parameterised by the
concrete evaluation `Bitvector::bin_op` of the operations the interval domain only evaluates on
singletons. Here that parameter is instantiated with the model `Impl.binOp` of `bitvector.rs`
(`Base/Bv.lean`, proved equal to the P-Code reference in C01).

Relative targets: `BTreeMap<AbstractIdentifier, IntervalDomain>` is an association list in key order;
identifiers are numbered by their `Ord` position.

Concretisation `DData.Mem ρ d v` ("`v ∈ γρ d`") under a valuation `ρ : id ↦ base value`:
`v` has the byte size of `d` and is `ρ id + o` (wrapping) for a relative target `(id, I)`, `o ∈ γ I`,
or a member of the absolute interval, or anything if `contains_top_values` is set.
-/
import CweModel.Base.Bv
import CweModel.Base.Interval
import CweModel.C02.Model
import CweModel.C04.Model

namespace CweModel.C13
open CweModel CweModel.IR CweModel.Itv

/-! ## operation names: IR ↔ interval model -/

def binOfIR : BinOpType → Itv.BinOp
  | .Piece => .piece | .IntEqual => .intEqual | .IntNotEqual => .intNotEqual | .IntLess => .intLess
  | .IntSLess => .intSLess | .IntLessEqual => .intLessEqual | .IntSLessEqual => .intSLessEqual
  | .IntAdd => .intAdd | .IntSub => .intSub | .IntCarry => .intCarry | .IntSCarry => .intSCarry
  | .IntSBorrow => .intSBorrow | .IntXOr => .intXOr | .IntAnd => .intAnd | .IntOr => .intOr
  | .IntLeft => .intLeft | .IntRight => .intRight | .IntSRight => .intSRight | .IntMult => .intMult
  | .IntDiv => .intDiv | .IntRem => .intRem | .IntSDiv => .intSDiv | .IntSRem => .intSRem
  | .BoolXOr => .boolXOr | .BoolAnd => .boolAnd | .BoolOr => .boolOr
  | .FloatEqual => .floatEqual | .FloatNotEqual => .floatNotEqual | .FloatLess => .floatLess
  | .FloatLessEqual => .floatLessEqual | .FloatAdd => .floatAdd | .FloatSub => .floatSub
  | .FloatMult => .floatMult | .FloatDiv => .floatDiv

def binToIR : Itv.BinOp → BinOpType
  | .piece => .Piece | .intEqual => .IntEqual | .intNotEqual => .IntNotEqual | .intLess => .IntLess
  | .intSLess => .IntSLess | .intLessEqual => .IntLessEqual | .intSLessEqual => .IntSLessEqual
  | .intAdd => .IntAdd | .intSub => .IntSub | .intCarry => .IntCarry | .intSCarry => .IntSCarry
  | .intSBorrow => .IntSBorrow | .intXOr => .IntXOr | .intAnd => .IntAnd | .intOr => .IntOr
  | .intLeft => .IntLeft | .intRight => .IntRight | .intSRight => .IntSRight | .intMult => .IntMult
  | .intDiv => .IntDiv | .intRem => .IntRem | .intSDiv => .IntSDiv | .intSRem => .IntSRem
  | .boolXOr => .BoolXOr | .boolAnd => .BoolAnd | .boolOr => .BoolOr
  | .floatEqual => .FloatEqual | .floatNotEqual => .FloatNotEqual | .floatLess => .FloatLess
  | .floatLessEqual => .FloatLessEqual | .floatAdd => .FloatAdd | .floatSub => .FloatSub
  | .floatMult => .FloatMult | .floatDiv => .FloatDiv

def unOfIR : UnOpType → Itv.UnOp
  | .IntNegate => .intNegate | .Int2Comp => .int2Comp | .BoolNegate => .boolNegate
  | .FloatNegate => .floatNegate | .FloatAbs => .floatAbs | .FloatSqrt => .floatSqrt
  | .FloatCeil => .floatCeil | .FloatFloor => .floatFloor | .FloatRound => .floatRound
  | .FloatNaN => .floatNaN

def castOfIR : CastOpType → Itv.CastOp
  | .IntZExt => .intZExt | .IntSExt => .intSExt | .Int2Float => .int2Float
  | .Float2Float => .float2Float | .Trunc => .trunc | .PopCount => .popCount | .LzCount => .lzCount

/-! ## `IntervalDomain` as a `RegisterDomain` (C02 model, `Bitvector::bin_op` plugged in) -/

/-- the `w`-bit vector with signed value `x` -/
def bvOfInt (w : Nat) (x : Int) : Bv := ⟨w, BitVec.ofInt w x⟩

/-- `Bitvector::bin_op` on signed values (`none` = `Err`), as the interval domain calls it on two
singletons. The result is used as an interval of its own width; for well-sized operands that width is
`bin_op_bytesize` (`binOpWidth`). For ill-sized boolean operations (operands that are not one byte)
the Rust code would build an interval of the operand width — such inputs are outside the model. -/
def concBv (wa wb : Nat) (op : Itv.BinOp) (x y : Int) : Option Int :=
  match Impl.binOp (binToIR op) (bvOfInt wa x) (bvOfInt wb y) with
  | .val r => if r.w = binOpWidth op wa wb then some r.toInt else none
  | _ => none

/-- `<IntervalDomain as RegisterDomain>::bin_op` -/
def itvBinOp (op : BinOpType) (a b : IntervalDomain) : IntervalDomain :=
  a.binOp (concBv a.w b.w) (binOfIR op) b

/-- `<IntervalDomain as RegisterDomain>::un_op` -/
def itvUnOp (op : UnOpType) (a : IntervalDomain) : IntervalDomain := a.unOp (unOfIR op)

/-- `<IntervalDomain as RegisterDomain>::cast` (`size` in bytes) -/
def itvCast (op : CastOpType) (size : Nat) (a : IntervalDomain) : IntervalDomain := a.cast (castOfIR op) (8 * size)

/-- `<IntervalDomain as RegisterDomain>::subpiece` (`lowByte`, `size` in bytes) -/
def itvSubpiece (lowByte size : Nat) (a : IntervalDomain) : IntervalDomain := a.subpiece (8 * lowByte) (8 * size)

/-- `SizedDomain::bytesize` of an interval: `ByteSize::from(BitWidth)` rounds up -/
def itvBytes (a : IntervalDomain) : Nat := (a.interval.w + 7) / 8

/-! ## `DataDomain<IntervalDomain>` -/

/-- `struct DataDomain<T> { size, relative_values, absolute_value, contains_top_values }` -/
structure DData where
  size : Nat
  rel : List (Nat × IntervalDomain)
  abs : Option IntervalDomain
  top : Bool
deriving DecidableEq, Repr, Inhabited

namespace DData

/-- `is_empty` -/
def isEmpty (d : DData) : Bool := d.rel.isEmpty && d.abs.isNone && !d.top
/-- `new_empty` -/
def newEmpty (size : Nat) : DData := { size := size, rel := [], abs := none, top := false }
/-- `SizedDomain::new_top` -/
def newTop (size : Nat) : DData := { size := size, rel := [], abs := none, top := true }
/-- `AbstractDomain::is_top` -/
def isTop (d : DData) : Bool := d.rel.isEmpty && d.abs.isNone && d.top
/-- `impl From<T> for DataDomain<T>` -/
def ofItv (a : IntervalDomain) : DData := { size := itvBytes a, rel := [], abs := some a, top := false }
/-- `impl From<Bitvector> for DataDomain<T>` -/
def ofBv (b : Bv) : DData := ofItv (IntervalDomain.single b.w b.toInt)
/-- `from_target` -/
def fromTarget (id : Nat) (off : IntervalDomain) : DData :=
  { size := itvBytes off, rel := [(id, off)], abs := none, top := false }

/-- `get_if_absolute_value` -/
def getIfAbsoluteValue (d : DData) : Option IntervalDomain :=
  if d.rel.isEmpty && !d.top then d.abs else none
/-- `get_if_absolute_value_or_top` -/
def getIfAbsoluteValueOrTop (d : DData) : Option IntervalDomain :=
  if d.rel.isEmpty then d.abs else none
/-- `get_if_unique_target` -/
def getIfUniqueTarget (d : DData) : Option (Nat × IntervalDomain) :=
  match d.rel with
  | [p] => if d.abs.isNone && !d.top then some p else none
  | _ => none

/-- `add_offset` -/
def addOffset (d : DData) (off : IntervalDomain) : DData :=
  { size := d.size
    rel := d.rel.map (fun p => (p.1, itvBinOp .IntAdd p.2 off))
    abs := d.abs.map (fun o => itvBinOp .IntAdd o off)
    top := d.top }

/-- `subtract_offset` -/
def subtractOffset (d : DData) (off : IntervalDomain) : DData :=
  { size := d.size
    rel := d.rel.map (fun p => (p.1, itvBinOp .IntSub p.2 off))
    abs := d.abs.map (fun o => itvBinOp .IntSub o off)
    top := d.top }

/-- `BTreeMap::insert` on the association list in key order -/
def insertRel (k : Nat) (v : IntervalDomain) : List (Nat × IntervalDomain) → List (Nat × IntervalDomain)
  | [] => [(k, v)]
  | (k', v') :: rest =>
    if k < k' then (k, v) :: (k', v') :: rest
    else if k = k' then (k, v) :: rest
    else (k', v') :: insertRel k v rest

/-- `preserve_relative_targets_for_binop` -/
def preserveRel (a b : DData) : DData :=
  if a.isEmpty || b.isEmpty then newEmpty a.size
  else
    let t := IntervalDomain.newTop (8 * a.size)
    { size := a.size
      rel := (a.rel.map (·.1) ++ b.rel.map (·.1)).foldl (fun m k => insertRel k t m) []
      abs := some t
      top := a.top || b.top }

/-- `compute_add` -/
def computeAdd (a b : DData) : DData :=
  match a.getIfAbsoluteValueOrTop with
  | some off => let r := b.addOffset off; { r with top := r.top || a.top }
  | none =>
    match b.getIfAbsoluteValueOrTop with
    | some off => let r := a.addOffset off; { r with top := r.top || b.top }
    | none => a.preserveRel b

/-- `compute_sub_if_offset_through_pointer_subtraction` -/
def computeSubPtr (a b : DData) : Option DData :=
  match a.getIfUniqueTarget, b.getIfUniqueTarget with
  | some (li, lo), some (ri, ro) =>
    if li = ri then
      some { size := a.size, rel := [], abs := some (itvBinOp .IntSub lo ro), top := false }
    else
      let t := IntervalDomain.newTop (8 * a.size)
      some { size := a.size, rel := insertRel ri t (insertRel li t []), abs := some t, top := false }
  | _, _ => none

/-- `compute_sub` -/
def computeSub (a b : DData) : DData :=
  if a.isEmpty || b.isEmpty then newEmpty a.size
  else if b.rel.isEmpty then
    let off := b.abs.getD (IntervalDomain.newTop (8 * a.size))
    let r := a.subtractOffset off
    { r with top := r.top || b.top }
  else
    match computeSubPtr a b with
    | some r => r
    | none => a.preserveRel b

/-- the arms of the `match op` in `bin_op` (cases 2–7) -/
inductive BinKind where
  | add | sub | bitwise | boolResult | sameSize | piece
deriving DecidableEq, Repr

def binKind : BinOpType → BinKind
  | .IntAdd => .add
  | .IntSub => .sub
  | .IntAnd | .IntOr | .IntXOr => .bitwise
  | .IntEqual | .IntNotEqual | .IntLess | .IntLessEqual | .IntSLess | .IntSLessEqual
  | .IntCarry | .IntSCarry | .IntSBorrow | .BoolXOr | .BoolOr | .BoolAnd | .FloatEqual
  | .FloatNotEqual | .FloatLess | .FloatLessEqual => .boolResult
  | .IntMult | .IntDiv | .IntSDiv | .IntRem | .IntSRem | .IntLeft | .IntRight | .IntSRight
  | .FloatAdd | .FloatSub | .FloatMult | .FloatDiv => .sameSize
  | .Piece => .piece

/-- `<DataDomain<T> as RegisterDomain>::bin_op` -/
def binOp (op : BinOpType) (a b : DData) : DData :=
  match a.getIfAbsoluteValue, b.getIfAbsoluteValue with
  | some l, some r => ofItv (itvBinOp op l r)
  | _, _ =>
    match binKind op with
    | .add => computeAdd a b
    | .sub => computeSub a b
    | .bitwise => preserveRel a b
    | .boolResult =>
      if a.isEmpty || b.isEmpty then newEmpty 1 else ofItv (IntervalDomain.newTop 8)
    | .sameSize =>
      if a.isEmpty || b.isEmpty then newEmpty a.size else newTop a.size
    | .piece =>
      if a.isEmpty || b.isEmpty then newEmpty (a.size + b.size) else newTop (a.size + b.size)

/-- `<DataDomain<T> as RegisterDomain>::un_op` -/
def unOp (op : UnOpType) (a : DData) : DData :=
  { size := (match op with | .BoolNegate | .FloatNaN => 1 | _ => a.size)
    rel := []
    abs := a.abs.map (itvUnOp op)
    top := a.top || !a.rel.isEmpty }

/-- `<DataDomain<T> as RegisterDomain>::subpiece` -/
def subpiece (lowByte size : Nat) (a : DData) : DData :=
  if lowByte = 0 ∧ size = a.size then a
  else
    { size := size
      rel := []
      abs := a.abs.map (itvSubpiece lowByte size)
      top := a.top || !a.rel.isEmpty }

/-- `<DataDomain<T> as RegisterDomain>::cast` -/
def cast (op : CastOpType) (width : Nat) (a : DData) : DData :=
  { size := width
    rel := []
    abs := a.abs.map (itvCast op width)
    top := a.top || !a.rel.isEmpty }

/-- `TryToBitvec for DataDomain`: the signed value of the single absolute value -/
def tryToBitvec (d : DData) : Option Int :=
  if !d.rel.isEmpty || d.top then none
  else match d.abs with
    | some a => a.tryToBitvec
    | none => none

/-! ### `SpecializeByConditional`: the five `add_*_bound` are modelled (and proved) in C04
(`Itv.DataDomain.addBound`, `C04.data_addBound_sound`); here only the embedding -/

def toC04 (d : DData) : Itv.DataDomain Nat :=
  { size := d.size, relative := d.rel, absolute := d.abs, top := d.top }
def ofC04 (d : Itv.DataDomain Nat) : DData :=
  { size := d.size, rel := d.relative, abs := d.absolute, top := d.top }

/-- `add_signed_less_equal_bound`, … , `add_not_equal_bound` of `DataDomain` (`none` = `Err`) -/
def addBound (k : BoundKind) (d : DData) (bound : Int) : Option DData :=
  (Itv.DataDomain.addBound (IntervalDomain.addBound k) d.toC04 bound).map ofC04

/-! ### concretisation under an identifier valuation -/

/-- the three ways a `w`-bit value with signed reading `t` can be represented -/
def MemI (ρ : Nat → Int) (d : DData) (w : Nat) (t : Int) : Prop :=
  d.top = true ∨
  (∃ a, d.abs = some a ∧ a.Mem t) ∨
  (∃ i o x, (i, o) ∈ d.rel ∧ o.Mem x ∧ t = wrap w (ρ i + x))

/-- **γρ** (declarative): `v ∈ γρ d`. `ρ i` is the concrete base value identifier `i` stands for (read
modulo `2^w`): `v` has the size of `d` and the top flag is set, or `v` is a member of the absolute
interval, or `v = ρ i + x` (wrapping) for a relative target `(i, o)` and an offset `x ∈ γ o`. -/
def Mem (ρ : Nat → Int) (d : DData) (v : Bv) : Prop :=
  v.w = 8 * d.size ∧ MemI ρ d v.w v.toInt

/-- executable γρ-membership (equal to `Mem` for well-formed values: `contains_iff`) -/
def contains (ρ : Nat → Int) (d : DData) (v : Bv) : Bool :=
  decide (v.w = 8 * d.size) &&
  (d.top ||
   (match d.abs with | some a => decide (a.Mem v.toInt) | none => false) ||
   d.rel.any (fun p => decide (p.2.Mem (wrap v.w (v.toInt - ρ p.1)))))

/-- well-formed: positive size, all intervals well-formed and of the size of the value -/
def WF (d : DData) : Prop :=
  0 < d.size ∧
  (∀ a, d.abs = some a → a.WF ∧ a.interval.w = 8 * d.size) ∧
  (∀ i o, (i, o) ∈ d.rel → o.WF ∧ o.interval.w = 8 * d.size)

end DData

end CweModel.C13
