/-
C13 — theorems.

Property: "For every single-function program over registers and stack memory at constant offsets for
which the analysis reaches its fixpoint, and every concrete execution from any initial state, every
block the execution reaches has an analysis state in which each register's concrete value is
represented (reading parameter identifiers as their entry values and the stack identifier as the entry
stack pointer). A block the analysis considers unreachable is never reached, and a memory access the
analysis treats as a certain NULL dereference never completes."

PROVED here:
 (i)  the abstract-interpretation frame of the property (`pi_meta`, `pi_unreachable`): for ANY fixpoint
      problem whose edge transfers are sound for the register-wise concretisation `StateMem` and whose
      merge is an upper bound, a closed assignment describes every concretely reachable state, and a
      node without value is never reached — instances of `Base.Fix.sound_of_closed` /
      `unreachable_of_none`;
 (ii) the NULL-window decision of `check_def_for_null_dereferences` (model `nullCheck`):
      `nullCheck_sound` (an address outside the window that was represented is still represented after
      the restriction), `nullCheck_certain` (the verdict "certain NULL dereference" is only given if
      EVERY represented address lies in the window, i.e. the access never completes),
      `nullCheck_noDetect` (no detection ⇒ nothing changes);
 (iii) the executable γ-membership used by the validation is the declarative one (`contains_iff`,
      `firstExcluded_none_iff`).
 (iv) "PI-lite" (files `Data/DataProps/Eval/EvalProps.lean`, imported below): an exact model of
      `DataDomain<IntervalDomain>` with its `RegisterDomain` implementation (`arithmetics.rs`) and of the
      register part of `State::eval`, with
      * `DData.binOp_sound / unOp_sound / cast_sound / subpiece_sound` (+ `_wf`): the P-Code reference result
        on members is a member of the abstract result, for EVERY identifier valuation ρ (pointer ± offset,
        pointer − pointer, everything else);
      * `DData.addBound_sound`: the five bound refinements under γρ (lifted from C04);
      * `St.eval_sound`: by induction on the expression, registers in γρ ⇒ `Sem.eval σ e ∈ γρ (State::eval e)`;
      * `St.handleRegisterAssign_sound`: the register part of the `Def::Assign` transfer is a sound edge
        transfer in the sense of (i);
      * `DData.contains_iff`, `DData.mem_toAData`: executable γρ = declarative γρ = the γ of the validation.
 (v)  "PI-lite" memory and conditions (files `Stack/StackProps/Cond/CondProps.lean`): an exact model of the memory part
      of `State` for 64-bit targets and an empty runtime memory image (`AbstractObject::set_value/merge_value/get_value`,
      `AbstractObjectList::set_value/get_value`, `store_value`, `load_value_from_address`, `handle_store`, `handle_load`,
      `DataDomain::merge`), of `DataDomain::intersect` and of ALL arms of `specialize_by_expression_result`,
      `specialize_conditional`, `check_def_for_null_dereferences` and `update_def`, with
      * `handleStore_sound`: a store through a pointer into the unique stack object (strong update for `stack + constant`,
        interval marking for `stack + interval`, marking of all cells for `stack + unknown`) keeps the concrete memory in
        γρ of the stack object (a cell = the bytes at `ρ(stack) + offset` read in the byte order of the state);
      * `handleLoad_sound`: the value loaded from an exact stack slot is in γρ of the result; targets without object,
        non-constant offsets and the top flag of the address give the top flag (loads from unknown places are `Top`);
      * `updateDef_sound`: the `Assign`/`Store`/`Load` arms of `update_def` are sound edge transfers on `DefFrag`
        (no NULL detection, the address shapes above);
      * `specializeConditional_sound`: on `condInFrag` (a flag/temporary, the six integer comparisons of two different
        leaves (register or constant, either order, ≤ 8 bytes), `BoolNegate`s of these; register values that are absolute
        values or pure pointers; no comparison of two pointers into the same unique object) a represented state in which
        the condition has the truth value of the branch is represented by the specialised state, which exists.
 Reused, not redone: soundness of the interval bound refinements (`C04.Bounds`:
 `addSignedGreaterEqualBound_sound`, `addSignedLessEqualBound_sound`), on which (ii) rests; the
 interval transfer functions (`C02.binOp_sound`, …) and `Bitvector::bin_op` (`C01.binOp_eq_ref`), on which
 (iv) rests; merges are the subject of C03.
NOT proved: that ALL transfers of the real pointer inference (~5000 lines: non-stack memory objects, merge-writes
through pointers with several targets, conditions outside `condInFrag`, calls, id renaming, widening, the state merge)
satisfy the hypotheses of (i) — `Def::Assign`, and `Def::Store`/`Def::Load`/conditional edges on the fragments of (v) do. The rest is VALIDATED: the real analysis runs on
generated programs and the Lean reference interpreter checks `StateMem` at every reached block start and
block end (see Driver). (iv) is tied to the real code by two correspondence streams (real
`DataDomain::bin_op/un_op/cast/subpiece` and real `State::eval` vs the model, structurally).
-/
import CweModel.C13.Model
import CweModel.C04.Bounds
import CweModel.Base.Fix
import CweModel.C13.DataProps
import CweModel.C13.EvalProps
import CweModel.C13.StackProps
import CweModel.C13.CondProps
import CweModel.C13.JoinProps
import CweModel.C13.EdgeProps

namespace CweModel.C13
open CweModel CweModel.IR CweModel.Itv

/-! ### (iii) executable γ = declarative γ -/

/-- **C13-gamma-exec.** -/
theorem contains_iff (ν : Nat → Option Nat) (w : Nat) (d : AData) (c : Nat) :
    d.contains ν w c = true ↔ d.Mem ν w c := by
  unfold AData.contains AData.Mem
  simp only [Bool.or_eq_true, List.any_eq_true]
  constructor
  · rintro ((h | h) | ⟨p, hp, h⟩)
    · exact Or.inl h
    · cases ha : d.abs with
      | none => simp [ha] at h
      | some I => simp only [ha, decide_eq_true_eq] at h; exact Or.inr (Or.inl ⟨I, rfl, h⟩)
    · refine Or.inr (Or.inr ⟨p.1, p.2, hp, ?_⟩)
      cases hν : ν p.1 with
      | none => trivial
      | some base => simpa [hν] using h
  · rintro (h | ⟨I, ha, h⟩ | ⟨i, I, hp, h⟩)
    · exact Or.inl (Or.inl h)
    · exact Or.inl (Or.inr (by simp [ha, h]))
    · refine Or.inr ⟨(i, I), hp, ?_⟩
      cases hν : ν i with
      | none => simp [hν]
      | some base => simp only [hν] at h; simp [hν, h]

/-- register-wise concretisation of an analysis state (registers that are not listed are `Top`):
every listed register that exists holds a represented value -/
def StateMem (ν : Nat → Option Nat) (regs : List Variable) (info : List (String × AData)) (σ : Sem.State) : Prop :=
  ∀ name d, (name, d) ∈ info → ∀ v, regs.find? (·.name == name) = some v →
    d.Mem ν (8 * v.size) (σ.getReg v).toNat

/-- **C13-check-exec.** the executable check of one state answers "no excluded register" exactly if
the state is in the concretisation -/
theorem firstExcluded_none_iff (ν : Nat → Option Nat) (regs : List Variable) (info : List (String × AData))
    (σ : Sem.State) : firstExcluded ν regs info σ = none ↔ StateMem ν regs info σ := by
  unfold firstExcluded StateMem
  rw [List.findSome?_eq_none_iff]
  constructor
  · intro h name d hm v hv
    have := h (name, d) hm
    simp only [hv] at this
    rw [← contains_iff]
    by_cases hc : d.contains ν (8 * v.size) (σ.getReg v).toNat = true
    · exact hc
    · simp [hc] at this
  · rintro h ⟨name, d⟩ hm
    simp only
    cases hv : regs.find? (·.name == name) with
    | none => rfl
    | some v =>
      have := (contains_iff ν _ d _).mpr (h name d hm v hv)
      simp [this]

/-! ### (i) the abstract-interpretation frame -/

section Meta
variable {V : Type}

/-- **C13-meta.** Let the concrete semantics be given by start states `init` and edge transitions
`cstep` between machine states, and let `repr a σ` say that the abstract value `a` represents the
machine state `σ` (for the pointer inference: `StateMem ν regs (registers of a) σ` with `ν` the
valuation from the entry state). If `merge` is an upper bound, every edge transfer is sound and does
not block a feasible transition, and the assignment `S` is closed and covers the start states, then every
reachable machine state at node `i` is represented by the value of `S` at `i`. -/
theorem pi_meta {P : Fix.Problem V} {repr : V → Sem.State → Prop} {init : Nat → Sem.State → Prop}
    {cstep : Fix.Edge V → Sem.State → Sem.State → Prop}
    (hjoin : ∀ x b σ, repr x σ → repr (P.join x b) σ)
    (hsound : ∀ e ∈ P.edges, ∀ a σ σ', repr a σ → cstep e σ σ' → ∃ x, e.f a = some x ∧ repr x σ')
    {S : Fix.Assign V} (hS : Fix.Closed P S) (hinit : ∀ i σ, init i σ → ∃ a, S i = some a ∧ repr a σ)
    {i : Nat} {σ : Sem.State} (hr : Fix.Reach P init cstep i σ) : ∃ a, S i = some a ∧ repr a σ :=
  Fix.sound_of_closed hjoin hsound hS hinit hr

/-- **C13-unreachable.** … and a node without analysis value is never reached. -/
theorem pi_unreachable {P : Fix.Problem V} {repr : V → Sem.State → Prop} {init : Nat → Sem.State → Prop}
    {cstep : Fix.Edge V → Sem.State → Sem.State → Prop}
    (hjoin : ∀ x b σ, repr x σ → repr (P.join x b) σ)
    (hsound : ∀ e ∈ P.edges, ∀ a σ σ', repr a σ → cstep e σ σ' → ∃ x, e.f a = some x ∧ repr x σ')
    {S : Fix.Assign V} (hS : Fix.Closed P S) (hinit : ∀ i σ, init i σ → ∃ a, S i = some a ∧ repr a σ)
    {i : Nat} (hnone : S i = none) (σ : Sem.State) : ¬ Fix.Reach P init cstep i σ :=
  Fix.unreachable_of_none hjoin hsound hS hinit hnone σ

end Meta

/-! ### (ii) the NULL-window decision -/

theorem window_iff (x : Int) : window x = true ↔ -1024 < x ∧ x < 1024 := by
  simp [window]

theorem inNullWindow_eq (bits addr : Nat) : inNullWindow bits addr = window (toSigned bits addr) := by
  simp [inNullWindow, window]

theorem inRange_1024 {w : Nat} (hw : 12 ≤ w) : InRange w 1024 ∧ InRange w (-1024) := by
  have h := pow2_le_pow2 (a := 11) (b := w - 1) (by omega)
  have h11 : pow2 11 = 2048 := by decide
  unfold InRange smin smax
  omega

/-- the restricted absolute part keeps every represented address outside the window, provided one
of the bounds lies in the window -/
theorem nullNew_sound (a : IntervalDomain) (ha : a.WF) (hw : 12 ≤ a.interval.w) (hw64 : a.interval.w ≤ 64)
    (hwin : (window a.interval.start || window a.interval.stop) = true)
    {x : Int} (hx : a.Mem x) (hout : window x = false) : ∃ r, nullNew a = some r ∧ r.Mem x := by
  have hnw : ¬ (-1024 < x ∧ x < 1024) := by
    intro hc; rw [(window_iff x).mpr hc] at hout; cases hout
  obtain ⟨hr1, hr2⟩ := inRange_1024 hw
  unfold nullNew
  by_cases hs : window a.interval.start = true
  · -- the start bound is in the window: every address that completes is ≥ 1024
    rw [if_pos hs]
    have hs' := (window_iff _).mp hs
    have hxs : a.interval.start ≤ x := hx.1
    exact C04.addSignedGreaterEqualBound_sound a ha hw64 1024 hr1 hx (by omega)
  · -- only the end bound is in the window: every address that completes is ≤ −1024
    rw [if_neg hs]
    have hs0 : window a.interval.start = false := by simpa using hs
    rw [hs0, Bool.false_or] at hwin
    have he' := (window_iff _).mp hwin
    have hxe : x ≤ a.interval.stop := hx.2.1
    exact C04.addSignedLessEqualBound_sound a ha hw64 (-1024) hr2 hx (by omega)

/-- the three outcomes of the decision, spelled out -/
theorem nullCheck_cases (a : IntervalDomain) (rest : Bool) :
    (nullCheck (some a) rest = .noDetect ∧
      (a.isTop = true ∨ (window a.interval.start || window a.interval.stop) = false)) ∨
    (a.isTop = false ∧ (window a.interval.start || window a.interval.stop) = true ∧
      ((nullCheck (some a) rest = .certain ∧ nullNew a = none ∧ rest = false) ∨
       (nullCheck (some a) rest = .possible (nullNew a) ∧ ¬ (nullNew a = none ∧ rest = false)))) := by
  unfold nullCheck
  by_cases ht : a.isTop = true
  · left; simp [ht]
  · have ht0 : a.isTop = false := by simpa using ht
    by_cases hwin : (window a.interval.start || window a.interval.stop) = true
    · right
      refine ⟨ht0, hwin, ?_⟩
      by_cases hc : ((nullNew a).isNone && !rest) = true
      · left
        have hc' := hc
        simp only [Bool.and_eq_true, Option.isNone_iff_eq_none, Bool.not_eq_true'] at hc'
        simp only [ht0, hwin, hc, if_true, Bool.false_eq_true, if_false]
        exact ⟨trivial, hc'.1, hc'.2⟩
      · right
        have hc0 : ((nullNew a).isNone && !rest) = false := by simpa using hc
        simp only [ht0, hwin, hc0, if_true, Bool.false_eq_true, if_false]
        refine ⟨trivial, ?_⟩
        rintro ⟨h1, h2⟩
        simp [h1, h2] at hc0
    · left
      have hwin0 : (window a.interval.start || window a.interval.stop) = false := by simpa using hwin
      simp [ht0, hwin0]

/-- **C13-null-sound.** If the decision is "possible NULL dereference" and the absolute part is replaced
by `new`, every represented address outside the window (−1024, 1024) — i.e. every address with which
the access can complete — is still represented by `new`. -/
theorem nullCheck_sound (a : IntervalDomain) (ha : a.WF) (hw : 12 ≤ a.interval.w) (hw64 : a.interval.w ≤ 64)
    (rest : Bool) (new : Option IntervalDomain) (h : nullCheck (some a) rest = .possible new)
    {x : Int} (hx : a.Mem x) (hout : window x = false) : ∃ r, new = some r ∧ r.Mem x := by
  rcases nullCheck_cases a rest with ⟨h1, _⟩ | ⟨_, hwin, ⟨h1, _⟩ | ⟨h1, _⟩⟩
  · rw [h1] at h; cases h
  · rw [h1] at h; cases h
  · rw [h1] at h; cases h
    exact nullNew_sound a ha hw hw64 hwin hx hout

/-- **C13-null-certain.** The verdict "certain NULL dereference" (`Err("Unsatisfiable state")`, after
which `update_def` drops the state) is only given if the address value has no relative target and no
top flag and EVERY address it represents lies in the window: the access never completes. -/
theorem nullCheck_certain (a : IntervalDomain) (ha : a.WF) (hw : 12 ≤ a.interval.w) (hw64 : a.interval.w ≤ 64)
    (rest : Bool) (h : nullCheck (some a) rest = .certain) :
    rest = false ∧ ∀ x, a.Mem x → window x = true := by
  rcases nullCheck_cases a rest with ⟨h1, _⟩ | ⟨_, hwin, ⟨_, hnone, hrest⟩ | ⟨h1, _⟩⟩
  · rw [h1] at h; cases h
  · refine ⟨hrest, fun x hx => ?_⟩
    cases hwx : window x with
    | true => rfl
    | false =>
      obtain ⟨r, hr, _⟩ := nullNew_sound a ha hw hw64 hwin hx hwx
      rw [hnone] at hr; cases hr
  · rw [h1] at h; cases h

/-- **C13-null-nodetect.** Without an absolute part, with a `Top` absolute part, or with both bounds
outside the window nothing is reported and nothing is changed. -/
theorem nullCheck_noDetect (a : IntervalDomain) (rest : Bool) :
    nullCheck (some a) rest = .noDetect ↔
      (a.isTop = true ∨ (window a.interval.start = false ∧ window a.interval.stop = false)) := by
  rcases nullCheck_cases a rest with ⟨h1, h2⟩ | ⟨ht, hwin, ⟨h1, _⟩ | ⟨h1, _⟩⟩
  · simp only [h1, true_iff]
    rcases h2 with h2 | h2
    · exact Or.inl h2
    · exact Or.inr (by simpa using h2)
  · simp only [h1, reduceCtorEq, false_iff]
    rintro (h | ⟨h3, h4⟩)
    · rw [ht] at h; cases h
    · simp [h3, h4] at hwin
  · simp only [h1, reduceCtorEq, false_iff]
    rintro (h | ⟨h3, h4⟩)
    · rw [ht] at h; cases h
    · simp [h3, h4] at hwin

theorem nullCheck_none (rest : Bool) : nullCheck none rest = .noDetect := rfl

/-! ### non-vacuity -/

def exDom (s e : Int) (st : Nat) : IntervalDomain :=
  { interval := { w := 64, start := s, stop := e, stride := st }, upper := none, lower := none, delay := 0 }

-- [0, 4096] stride 8: possible NULL dereference, the survivors are [1024, 4096]
example : nullCheck (some (exDom 0 4096 8)) false = .possible (some (exDom 1024 4096 8)) := by decide
-- [0, 8] stride 8: certain
example : nullCheck (some (exDom 0 8 8)) false = .certain := by decide
-- … unless the value also has a relative target
example : nullCheck (some (exDom 0 8 8)) true = .possible none := by decide
-- [-4096, -8]: end bound in the window
example : nullCheck (some (exDom (-4096) (-8) 8)) false = .possible (some (exDom (-4096) (-1024) 8)) := by decide
-- window strictly inside the interval: not detected
example : nullCheck (some (exDom (-4096) 4096 8)) false = .noDetect := by decide
theorem exDom_wf (s e : Int) (st : Nat) (h : (exDom s e st).interval.WF) : (exDom s e st).WF :=
  ⟨h, fun u hu => by simp [exDom] at hu, fun l hl => by simp [exDom] at hl, by simp [exDom]⟩
example : ∀ x, (exDom 0 8 8).Mem x → window x = true :=
  (nullCheck_certain (exDom 0 8 8) (exDom_wf _ _ _ (by decide)) (by decide) (by decide) false (by decide)).2

-- γ: `stack id − 72` with the entry stack pointer 0x7ffd00000000
example : ({ rel := [(0, Interval.single 64 (-72))], abs := none, top := false } : AData).contains
    (fun _ => some 0x7ffd00000000) 64 (0x7ffd00000000 - 72) = true := by decide
example : ({ rel := [(0, Interval.single 64 (-72))], abs := none, top := false } : AData).contains
    (fun _ => some 0x7ffd00000000) 64 (0x7ffd00000000 - 64) = false := by decide


/-! non-vacuity of the frame: `b0: RAX := 5; goto b1` with the analysis value `RAX ↦ [5,5]` at `b1` -/
section FrameExample
def exRAX : Variable := { name := "RAX", size := 8 }
def exVal : List (String × AData) := [("RAX", { rel := [], abs := some (Interval.single 64 5), top := false })]
def exProblem : Fix.Problem (List (String × AData)) :=
  { edges := [⟨0, 1, fun _ => some exVal⟩], join := fun x _ => x }
def exAssign : Fix.Assign (List (String × AData)) := fun i => if i = 0 then some [] else if i = 1 then some exVal else none
def exRepr (a : List (String × AData)) (σ : Sem.State) : Prop := StateMem (fun _ => none) [exRAX] a σ
def exStep (_ : Fix.Edge (List (String × AData))) (σ σ' : Sem.State) : Prop := σ' = σ.setReg exRAX (Bv.ofBytes 8 5)

theorem getReg_setReg (σ : Sem.State) (x : Bv) : (σ.setReg exRAX x).getReg exRAX = x := by
  have h : (exRAX == exRAX) = true := by decide
  simp [Sem.State.getReg, Sem.State.setReg, List.find?_cons, h]

example (σ0 σ : Sem.State)
    (hr : Fix.Reach exProblem (fun i s => i = 0 ∧ s = σ0) exStep 1 σ) :
    ∃ a, exAssign 1 = some a ∧ exRepr a σ := by
  refine pi_meta (P := exProblem) (repr := exRepr) (fun x b σ h => h) ?_ ?_ ?_ hr
  · intro e he a s s' _ hstep
    simp only [exProblem, List.mem_singleton] at he
    subst he
    refine ⟨exVal, rfl, ?_⟩
    intro name d hm v hv
    simp only [exVal, List.mem_singleton, Prod.mk.injEq] at hm
    obtain ⟨rfl, rfl⟩ := hm
    have hv' : v = exRAX := by
      simp only [List.find?_cons, List.find?_nil] at hv
      split at hv <;> simp_all
    subst hv'
    rw [hstep, getReg_setReg]
    exact Or.inr (Or.inl ⟨_, rfl, by decide⟩)
  · intro e he a x ha hx
    simp only [exProblem, List.mem_singleton] at he
    subst he
    simp only at hx
    cases hx
    exact ⟨exVal, rfl, rfl⟩
  · rintro i s ⟨rfl, rfl⟩
    exact ⟨[], rfl, fun _ _ hm => by cases hm⟩
end FrameExample

/-! ### the join and call theorems applied (the hypotheses are satisfiable) -/
section JoinCallApplied
open CondEx

theorem exM_size8 : Size8 exM.st := by
  intro v d hm
  simp only [exM, List.mem_cons, Prod.mk.injEq, List.not_mem_nil, or_false] at hm
  rcases hm with ⟨_, rfl⟩ | ⟨_, rfl⟩ <;> decide

-- `merge_sound_partial`: the merge of the example state with itself still represents the example machine state
example : ∃ m, exM.merge exM = some m ∧ m.In exρ exσ2 ∧ m.WF ∧ Size8 m.st ∧ m.stackId = exM.stackId :=
  merge_sound_partial exM_wf exM_wf rfl (by unfold RegKeys; decide) (by unfold RegKeys; decide) exM_size8 exM_size8
    (oa := { unique := true, mem := [] }) (ob := { unique := true, mem := [] }) rfl rfl (by unfold ObjKeys; decide)
    (Or.inl exM_in)

/-- the machine state after a call that pops the return address and clobbers `RAX` -/
def exσ3 : Sem.State := (exσ2.setReg exRAX (Bv.ofNat 64 77)).setReg exRSP (Bv.ofNat 64 0x7ffd00000ff8)

theorem stateWF_setReg {σ : Sem.State} (h : C10.StateWF σ) (v : Variable) (x : Bv) (hx : x.w = 8 * v.size) :
    C10.StateWF (σ.setReg v x) := by
  intro w
  rw [C10.getReg_setReg]
  split
  · rename_i e; rw [e]; exact hx
  · exact h w

theorem exAbi : AbiCall exRSP [exRBX] exσ2 exσ3 := by
  refine ⟨?_, ?_, ?_⟩
  · have h1 : exσ3.getReg exRSP = Bv.ofNat 64 0x7ffd00000ff8 := by
      unfold exσ3; rw [C10.getReg_setReg, if_pos rfl]
    have h2 : exσ2.getReg exRSP = Bv.ofNat 64 0x7ffd00000ff0 := by
      unfold exσ2; rw [C10.getReg_setReg, if_neg (by decide), C10.getReg_setReg, if_pos rfl]
    rw [h1, h2]
    exact Bv.ext' rfl (by decide)
  · intro v hv hne
    simp only [List.mem_singleton] at hv
    subst hv
    unfold exσ3
    rw [C10.getReg_setReg, if_neg (by decide), C10.getReg_setReg, if_neg (by decide)]
  · exact stateWF_setReg (stateWF_setReg (stateWF_setReg (stateWF_setReg (C10.stateWF_default 1) _ _ rfl) _ _ rfl) _ _ rfl) _ _ rfl

-- `updateCallStub_sound_partial`: after the call the example state (stack pointer popped, `RAX` forgotten) represents it
example : ∃ s', updateCallStub exM exRSP { JoinEx.cc with calleeSavedRegister := [exRBX] } JoinEx.ext = some s' ∧
    s'.In exρ exσ3 ∧ s'.WF ∧ s'.stackId = exM.stackId :=
  updateCallStub_sound_partial exM_wf exM_in (sp := exRSP) rfl (by decide) (o := { unique := true, mem := [] }) rfl exAbi
    (fun _ c hc => absurd hc List.not_mem_nil)

end JoinCallApplied

end CweModel.C13
