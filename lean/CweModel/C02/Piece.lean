/-
C02 — `piece`.
-/
import CweModel.C02.Sub

namespace CweModel.C02
open CweModel.Itv

/-! ### PIECE on values -/

theorem cpiece_eq (wh wl : Nat) (hh : 0 < wh) {x : Int} (hx : InRange wh x) (y : Int) :
    cpiece wh wl x y = x * pow2 wl + (toU wl y : Int) ∧ InRange (wh + wl) (x * pow2 wl + (toU wl y : Int)) := by
  have hP := pow2_pos wl
  have hu0 := toU_nonneg wl y
  have hu1 := toU_lt wl y
  have hsplit : pow2 (wh + wl - 1) = pow2 (wh - 1) * pow2 wl := by
    rw [← pow2_add]; congr 1; omega
  have hin : InRange (wh + wl) (x * pow2 wl + (toU wl y : Int)) := by
    unfold InRange smin smax at *
    rw [hsplit]
    have h1 : -pow2 (wh - 1) * pow2 wl ≤ x * pow2 wl := Int.mul_le_mul_of_nonneg_right hx.1 (by omega)
    have h2 : x * pow2 wl ≤ (pow2 (wh - 1) - 1) * pow2 wl := Int.mul_le_mul_of_nonneg_right hx.2 (by omega)
    rw [Int.neg_mul] at h1
    rw [Int.sub_mul, Int.one_mul] at h2
    omega
  refine ⟨?_, hin⟩
  unfold cpiece
  rw [pow2_nat]
  exact wrap_of_inRange (wh + wl) (by omega) hin

/-! ### `u64` shifts of strides -/

theorem lt_pow_bitLen (fuel n : Nat) (h : n < 2 ^ fuel) : n < 2 ^ bitLen fuel n := by
  induction fuel generalizing n with
  | zero => simp at h; subst h; simp [bitLen]
  | succ f ih =>
    unfold bitLen
    split
    · rename_i h0; subst h0; simp
    · have h2 : n / 2 < 2 ^ f := by
        rw [Nat.pow_succ] at h; omega
      have := ih (n / 2) h2
      rw [Nat.add_comm, Nat.pow_succ]
      omega

theorem bitLen_le' (fuel n : Nat) : bitLen fuel n ≤ fuel := by
  induction fuel generalizing n with
  | zero => simp [bitLen]
  | succ f ih =>
    unfold bitLen
    split
    · omega
    · have := ih (n / 2); omega

theorem toU64_natCast (s : Nat) (hs : s < 2 ^ 64) : toU 64 (s : Int) = s := by
  unfold toU
  have h64 : pow2 64 = ((2 ^ 64 : Nat) : Int) := rfl
  have : (s : Int) % pow2 64 = (s : Int) := Int.emod_eq_of_lt (by omega) (by rw [h64]; exact_mod_cast hs)
  rw [this]; simp

/-- if the shift amount is at most the number of leading zeros, the shifted stride does not overflow -/
theorem u64shl_exact (s n : Nat) (hs : s < 2 ^ 64) (hs0 : s ≠ 0) (h : n ≤ leadingZeros 64 (s : Int)) :
    u64shl s n = s * 2 ^ n ∧ s * 2 ^ n < 2 ^ 64 := by
  unfold leadingZeros at h
  rw [toU64_natCast s hs] at h
  have hb := lt_pow_bitLen 64 s hs
  have hb2 := bitLen_le' 64 s
  have hbpos : 0 < bitLen 64 s := by
    unfold bitLen; rw [if_neg hs0]; omega
  have hn : n < 64 := by omega
  have hlt : s * 2 ^ n < 2 ^ 64 := by
    have h1 : s * 2 ^ n < 2 ^ bitLen 64 s * 2 ^ n := Nat.mul_lt_mul_of_pos_right hb (Nat.two_pow_pos n)
    rw [← Nat.pow_add] at h1
    have h2 : 2 ^ (bitLen 64 s + n) ≤ 2 ^ 64 := Nat.pow_le_pow_right (by decide) (by omega)
    omega
  refine ⟨?_, hlt⟩
  unfold u64shl u64
  rw [Nat.mod_eq_of_lt hn, Nat.shiftLeft_eq, Nat.mod_eq_of_lt hlt]

theorem tz_lt_64 (s : Nat) (hs0 : s ≠ 0) (hs : s < 2 ^ 64) : trailingZeros64 s < 64 := by
  have h := pow_tz_le s hs0
  by_cases hlt : trailingZeros64 s < 64
  · exact hlt
  · have := Nat.pow_le_pow_right (by decide : 0 < 2) (show 64 ≤ trailingZeros64 s by omega)
    omega

theorem u64shl_one (t : Nat) (ht : t < 64) : u64shl 1 t = 2 ^ t := by
  unfold u64shl u64
  rw [Nat.mod_eq_of_lt ht, Nat.shiftLeft_eq, Nat.one_mul]
  exact Nat.mod_eq_of_lt (Nat.pow_lt_pow_right (by decide) ht)

/-! ### `piece` -/

/-- a stride of `J` is a power of two below `2^wl`, so it divides `2^wl` and the low part of a pieced
value stays in the residue class of `J.start` -/
theorem pow_tz_facts (J : Interval) (hJ : J.WF) (hne : J.start ≠ J.stop) :
    J.stride ≠ 0 ∧ trailingZeros64 J.stride < 64 ∧
    pow2 (trailingZeros64 J.stride) ∣ pow2 J.w ∧
    (∀ y, J.Mem y → pow2 (trailingZeros64 J.stride) ∣ (toU J.w y : Int) - J.start) := by
  obtain ⟨hw0, hJs, hJe, hle, h0, hd, hu⟩ := hJ
  have hst0 : J.stride ≠ 0 := fun hz => hne (h0.mp hz)
  have htzd := pow_tz_dvd J.stride hst0
  have htzle := pow_tz_le J.stride hst0
  have hP2 := pow2_eq J.w hw0
  have hP := pow2_pos (J.w - 1)
  have hTle : pow2 (trailingZeros64 J.stride) ≤ (J.stride : Int) := by
    rw [← pow2_nat]; exact Int.ofNat_le.mpr htzle
  have hstle : (J.stride : Int) ≤ J.stop - J.start := Int.le_of_dvd (by omega) hd
  have hTlt : pow2 (trailingZeros64 J.stride) < pow2 J.w := by unfold InRange smin smax at *; omega
  have hTP := pow2_dvd_of_lt hTlt
  refine ⟨hst0, tz_lt_64 _ hst0 hu, hTP, ?_⟩
  intro y hy
  have e1 : pow2 (trailingZeros64 J.stride) ∣ (toU J.w y : Int) - y := Int.dvd_trans hTP (toU_congr J.w y)
  have e2 : pow2 (trailingZeros64 J.stride) ∣ y - J.start :=
    Int.dvd_trans (by rw [← pow2_nat]; exact Int.natCast_dvd_natCast.mpr htzd) hy.2.2
  have : (toU J.w y : Int) - J.start = ((toU J.w y : Int) - y) + (y - J.start) := by omega
  rw [this]; exact Int.dvd_add e1 e2

/-- **C02-piece.** Soundness and well-formedness of `Interval::piece`. -/
theorem piece_spec (I J : Interval) (hI : I.WF) (hJ : J.WF) {x y : Int} (hx : I.Mem x) (hy : J.Mem y) :
    (I.piece J).Mem (cpiece I.w J.w x y) ∧ (I.piece J).WF ∧ (I.piece J).w = I.w + J.w := by
  have hxr := Interval.mem_inRange hI hx
  have hyr := Interval.mem_inRange hJ hy
  have hJwf := hJ
  obtain ⟨hw0, hIs, hIe, hle, h0, hd, hu⟩ := hI
  obtain ⟨hv0, hJs, hJe, hJle, hJ0, hJd, hJu⟩ := hJ
  obtain ⟨hx1, hx2, hx3⟩ := hx
  have hymem := hy
  obtain ⟨hy1, hy2, hy3⟩ := hy
  have hP := pow2_pos J.w
  have hP2 := pow2_eq J.w hv0
  have hPh := pow2_pos (J.w - 1)
  obtain ⟨ez, rz⟩ := cpiece_eq I.w J.w hw0 hxr y
  have hUy := toU_of_inRange J.w hv0 hyr
  have hUs := toU_of_inRange J.w hv0 hJs
  have hUe := toU_of_inRange J.w hv0 hJe
  have mx1 : I.start * pow2 J.w ≤ x * pow2 J.w := Int.mul_le_mul_of_nonneg_right hx1 (by omega)
  have mx2 : x * pow2 J.w ≤ I.stop * pow2 J.w := Int.mul_le_mul_of_nonneg_right hx2 (by omega)
  have hu0 := toU_nonneg J.w y
  have hu1 := toU_lt J.w y
  unfold Interval.piece
  simp only
  split
  · -- `J` contains negative and non-negative values
    rename_i hcross
    obtain ⟨hJneg, hJpos⟩ := hcross
    have hne : J.start ≠ J.stop := by omega
    obtain ⟨hst0, htz64, hTP, hcls⟩ := pow_tz_facts J hJwf hne
    obtain ⟨e1, r1⟩ := cpiece_eq I.w J.w hw0 hIs 0
    obtain ⟨e2, r2⟩ := cpiece_eq I.w J.w hw0 hIe (-1)
    have hU0 : (toU J.w 0 : Int) = 0 := by
      rw [toU_of_inRange J.w hv0 (by unfold InRange smin smax; omega)]; simp
    have hUm1 : (toU J.w (-1) : Int) = pow2 J.w - 1 := by
      rw [toU_of_inRange J.w hv0 (by unfold InRange smin smax; omega)]; simp; omega
    rw [hU0] at e1 r1
    rw [hUm1] at e2 r2
    rw [e1, e2, ez]
    -- the unadjusted interval K
    have hK : ({ w := I.w + J.w, start := I.start * pow2 J.w + 0, stop := I.stop * pow2 J.w + (pow2 J.w - 1), stride := 1 } : Interval).Mem
          (x * pow2 J.w + (toU J.w y : Int)) ∧
        ({ w := I.w + J.w, start := I.start * pow2 J.w + 0, stop := I.stop * pow2 J.w + (pow2 J.w - 1), stride := 1 } : Interval).WF := by
      refine ⟨⟨by show I.start * pow2 J.w + 0 ≤ _; omega, by show _ ≤ I.stop * pow2 J.w + (pow2 J.w - 1); omega, ?_⟩,
        ⟨by show 0 < I.w + J.w; omega, r1, r2, by show I.start * pow2 J.w + 0 ≤ I.stop * pow2 J.w + (pow2 J.w - 1); omega, ?_, ?_, by show (1 : Nat) < 2 ^ 64; decide⟩⟩
      · show ((1 : Nat) : Int) ∣ _; simp [Int.one_dvd]
      · show (1 : Nat) = 0 ↔ I.start * pow2 J.w + 0 = I.stop * pow2 J.w + (pow2 J.w - 1)
        constructor <;> intro h' <;> omega
      · show ((1 : Nat) : Int) ∣ _; simp [Int.one_dvd]
    split
    · exact ⟨hK.1, hK.2, rfl⟩
    · rename_i hJw
      rw [u64shl_one _ htz64]
      generalize htz : trailingZeros64 J.stride = tz at *
      have hT0 : 0 < pow2 tz := pow2_pos tz
      rw [trem_fix J.start (((2 ^ tz : Nat) : Int)) (by rw [pow2_nat]; exact hT0)]
      by_cases hw64 : I.w + J.w ≤ 64
      · have hr0 : 0 ≤ J.start % ((2 ^ tz : Nat) : Int) := Int.emod_nonneg _ (by rw [pow2_nat]; omega)
        have hr1 : J.start % ((2 ^ tz : Nat) : Int) < ((2 ^ tz : Nat) : Int) :=
          Int.emod_lt_of_pos _ (by rw [pow2_nat]; exact hT0)
        have hT64 : pow2 tz < pow2 64 := pow2_lt_pow2 htz64
        have hRu : (toU 64 (J.start % ((2 ^ tz : Nat) : Int)) : Int) = J.start % ((2 ^ tz : Nat) : Int) := by
          unfold toU
          rw [Int.toNat_of_nonneg (Int.emod_nonneg _ (by have := pow2_pos 64; omega))]
          apply Int.emod_eq_of_lt hr0
          have hcast : ((2 ^ tz : Nat) : Int) = pow2 tz := rfl
          omega
        have hcz : (((2 ^ tz : Nat) : Nat) : Int) ∣ (x * pow2 J.w + (toU J.w y : Int)) - (toU 64 (J.start % ((2 ^ tz : Nat) : Int)) : Int) := by
          rw [hRu, pow2_nat]
          have e3 : pow2 tz ∣ J.start - J.start % pow2 tz := by
            have := Int.mul_ediv_add_emod J.start (pow2 tz)
            have h' : J.start - J.start % pow2 tz = pow2 tz * (J.start / pow2 tz) := by omega
            rw [h']; exact Int.dvd_mul_right _ _
          have e4 : pow2 tz ∣ x * pow2 J.w := Int.dvd_trans hTP (Int.dvd_mul_left _ _)
          have : x * pow2 J.w + (toU J.w y : Int) - J.start % pow2 tz
              = x * pow2 J.w + (((toU J.w y : Int) - J.start) + (J.start - J.start % pow2 tz)) := by omega
          rw [this]; exact Int.dvd_add e4 (Int.dvd_add (hcls y hymem) e3)
        obtain ⟨r, hr, hrwf, hrw, hmem, _, _⟩ := adjust_spec
          { w := I.w + J.w, start := I.start * pow2 J.w + 0, stop := I.stop * pow2 J.w + (pow2 J.w - 1), stride := 1 }
          (2 ^ tz) (toU 64 (J.start % ((2 ^ tz : Nat) : Int))) (by show 0 < I.w + J.w; omega) hw64
          r1 r2 (Nat.two_pow_pos tz) (Nat.pow_lt_pow_right (by decide) htz64)
          (x := x * pow2 J.w + (toU J.w y : Int)) hK.1.1 hK.1.2.1 hcz
        rw [hr]; simp only [Option.getD_some]; exact ⟨hmem, hrwf, hrw⟩
      · unfold Interval.adjustToStrideAndRemainder
        rw [if_pos (by show I.w + J.w > 64; omega)]
        simp only [Option.getD_some, Interval.setStrideToUnknown]
        have : ¬ I.start * pow2 J.w + 0 = I.stop * pow2 J.w + (pow2 J.w - 1) := by omega
        simp only [this, if_false]
        exact ⟨hK.1, hK.2, trivial⟩
  · -- all members of `J` have the same sign: the unsigned order of the low parts is the signed one
    rename_i hcross
    obtain ⟨e1, r1⟩ := cpiece_eq I.w J.w hw0 hIs J.start
    obtain ⟨e2, r2⟩ := cpiece_eq I.w J.w hw0 hIe J.stop
    rw [e1, e2, ez]
    have hdy : (toU J.w y : Int) - (toU J.w J.start : Int) = y - J.start := by
      rw [hUy, hUs]
      by_cases hn : J.stop < 0
      · rw [if_pos (show y < 0 by omega), if_pos (show J.start < 0 by omega)]; omega
      · have : ¬ J.start < 0 := fun h => hcross ⟨h, hn⟩
        rw [if_neg (show ¬ y < 0 by omega), if_neg this]
    have hde : (toU J.w J.stop : Int) - (toU J.w J.start : Int) = J.stop - J.start := by
      rw [hUe, hUs]
      by_cases hn : J.stop < 0
      · rw [if_pos hn, if_pos (show J.start < 0 by omega)]; omega
      · have : ¬ J.start < 0 := fun h => hcross ⟨h, hn⟩
        rw [if_neg hn, if_neg this]
    have mxe : I.start * pow2 J.w ≤ I.stop * pow2 J.w := Int.mul_le_mul_of_nonneg_right hle (by omega)
    -- generic divisibility: for a member pair, the distance from the pieced start
    have hdist : ∀ x' y', x' * pow2 J.w + (toU J.w y' : Int) - (I.start * pow2 J.w + (toU J.w J.start : Int))
        = (x' - I.start) * pow2 J.w + ((toU J.w y' : Int) - (toU J.w J.start : Int)) := by
      intro x' y'; rw [Int.sub_mul]; omega
    -- the stride of the result divides the distance of every member pair whose low distance is the signed one
    have hstride : ∀ x' y', (I.stride : Int) ∣ x' - I.start → (J.stride : Int) ∣ y' - J.start →
        (toU J.w y' : Int) - (toU J.w J.start : Int) = y' - J.start →
        (((if I.stride = 0 then J.stride
            else if J.stride = 0 then (if J.w ≤ leadingZeros 64 (I.stride : Int) then u64shl I.stride J.w else 1)
            else u64shl 1 (trailingZeros64 J.stride) : Nat)) : Int) ∣
          x' * pow2 J.w + (toU J.w y' : Int) - (I.start * pow2 J.w + (toU J.w J.start : Int)) := by
      intro x' y' hxd hyd hyu
      rw [hdist, hyu]
      by_cases hi0 : I.stride = 0
      · rw [if_pos hi0]
        rw [hi0] at hxd
        have : x' - I.start = 0 := Int.zero_dvd.mp hxd
        rw [this, Int.zero_mul, Int.zero_add]; exact hyd
      · rw [if_neg hi0]
        by_cases hj0 : J.stride = 0
        · rw [if_pos hj0]
          rw [hj0] at hyd
          have : y' - J.start = 0 := Int.zero_dvd.mp hyd
          rw [this, Int.add_zero]
          split
          · rename_i hlz
            rw [(u64shl_exact I.stride J.w hu hi0 hlz).1]
            have : ((I.stride * 2 ^ J.w : Nat) : Int) = (I.stride : Int) * pow2 J.w := by
              rw [Int.natCast_mul, pow2_nat]
            rw [this]
            exact Int.mul_dvd_mul hxd (Int.dvd_refl _)
          · simp [Int.one_dvd]
        · rw [if_neg hj0]
          have hne : J.start ≠ J.stop := fun h => hj0 (hJ0.mpr h)
          obtain ⟨_, htz64, hTP, _⟩ := pow_tz_facts J hJwf hne
          rw [u64shl_one _ htz64, pow2_nat]
          have e4 : pow2 (trailingZeros64 J.stride) ∣ (x' - I.start) * pow2 J.w :=
            Int.dvd_trans hTP (Int.dvd_mul_left _ _)
          have e5 : pow2 (trailingZeros64 J.stride) ∣ y' - J.start :=
            Int.dvd_trans (by rw [← pow2_nat]; exact Int.natCast_dvd_natCast.mpr (pow_tz_dvd J.stride hj0)) hyd
          exact Int.dvd_add e4 e5
    refine ⟨⟨?_, ?_, hstride x y hx3 hy3 hdy⟩, ⟨by show 0 < I.w + J.w; omega, r1, r2, ?_, ?_, hstride I.stop J.stop hd hJd hde, ?_⟩, rfl⟩
    · show I.start * pow2 J.w + (toU J.w J.start : Int) ≤ x * pow2 J.w + (toU J.w y : Int); omega
    · show x * pow2 J.w + (toU J.w y : Int) ≤ I.stop * pow2 J.w + (toU J.w J.stop : Int)
      have : (toU J.w J.stop : Int) - (toU J.w y : Int) = J.stop - y := by omega
      omega
    · show I.start * pow2 J.w + (toU J.w J.start : Int) ≤ I.stop * pow2 J.w + (toU J.w J.stop : Int); omega
    · show (if I.stride = 0 then J.stride
            else if J.stride = 0 then (if J.w ≤ leadingZeros 64 (I.stride : Int) then u64shl I.stride J.w else 1)
            else u64shl 1 (trailingZeros64 J.stride)) = 0 ↔
          I.start * pow2 J.w + (toU J.w J.start : Int) = I.stop * pow2 J.w + (toU J.w J.stop : Int)
      by_cases hi0 : I.stride = 0
      · rw [if_pos hi0]
        have hie : I.start = I.stop := h0.mp hi0
        rw [hJ0, hie]; constructor <;> intro h' <;> omega
      · rw [if_neg hi0]
        have hilt : I.start < I.stop := by
          have : I.start ≠ I.stop := fun h => hi0 (h0.mpr h)
          omega
        have hstrict : I.start * pow2 J.w + pow2 J.w ≤ I.stop * pow2 J.w := by
          have := Int.mul_le_mul_of_nonneg_right (show I.start + 1 ≤ I.stop by omega) (show 0 ≤ pow2 J.w by omega)
          rw [Int.add_mul, Int.one_mul] at this; exact this
        have hne' : ¬ (I.start * pow2 J.w + (toU J.w J.start : Int) = I.stop * pow2 J.w + (toU J.w J.stop : Int)) := by
          have := toU_lt J.w J.start; have := toU_nonneg J.w J.stop; omega
        constructor
        · intro hz
          exfalso
          by_cases hj0 : J.stride = 0
          · rw [if_pos hj0] at hz
            split at hz
            · rename_i hlz
              rw [(u64shl_exact I.stride J.w hu hi0 hlz).1] at hz
              have := Nat.two_pow_pos J.w
              rcases Nat.mul_eq_zero.mp hz with h | h <;> omega
            · omega
          · rw [if_neg hj0] at hz
            have hne : J.start ≠ J.stop := fun h => hj0 (hJ0.mpr h)
            obtain ⟨_, htz64, _, _⟩ := pow_tz_facts J hJwf hne
            rw [u64shl_one _ htz64] at hz
            have := Nat.two_pow_pos (trailingZeros64 J.stride); omega
        · intro h'; exact absurd h' hne'
    · show (if I.stride = 0 then J.stride
            else if J.stride = 0 then (if J.w ≤ leadingZeros 64 (I.stride : Int) then u64shl I.stride J.w else 1)
            else u64shl 1 (trailingZeros64 J.stride)) < 2 ^ 64
      by_cases hi0 : I.stride = 0
      · rw [if_pos hi0]; exact hJu
      · rw [if_neg hi0]
        by_cases hj0 : J.stride = 0
        · rw [if_pos hj0]
          split
          · rename_i hlz
            rw [(u64shl_exact I.stride J.w hu hi0 hlz).1]; exact (u64shl_exact I.stride J.w hu hi0 hlz).2
          · decide
        · rw [if_neg hj0]
          have hne : J.start ≠ J.stop := fun h => hj0 (hJ0.mpr h)
          obtain ⟨_, htz64, _, _⟩ := pow_tz_facts J hJwf hne
          rw [u64shl_one _ htz64]
          exact Nat.pow_lt_pow_right (by decide) htz64

end CweModel.C02
