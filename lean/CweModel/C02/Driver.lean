/- C02 model driver: executes the model of the interval transfer functions and the executable
specification (soundness on enumerated/sampled members + well-formedness) on harness cases. -/
import CweModel.Base.Proto
import CweModel.C02.Model
import CweModel.C02.RefSem
open Lean CweModel.Proto

namespace CweModel.Itv.Drv

def intS (j : Json) (k : String) : Except String Int := do
  let s ← strF j k
  match s.toInt? with
  | some v => pure v
  | none => throw s!"bad integer {s}"

def optIntS (j : Json) (k : String) : Except String (Option Int) := do
  match j.getObjVal? k with
  | .ok (Json.str s) => match s.toInt? with
    | some v => pure (some v)
    | none => throw s!"bad integer {s}"
  | _ => pure none

def parseDom (j : Json) : Except String IntervalDomain := do
  let w ← natF j "w"
  let s ← intS j "s"
  let e ← intS j "e"
  let st ← intS j "st"
  let d ← intS j "d"
  return { interval := { w := w, start := s, stop := e, stride := st.toNat },
           upper := ← optIntS j "u", lower := ← optIntS j "l", delay := d.toNat }

def showOpt : Option Int → String
  | some v => toString v
  | none => "-"

/-- canonical rendering, the same as the harness prints for the implementation value -/
def showDom (a : IntervalDomain) : String :=
  s!"{a.interval.w}|{a.interval.start}|{a.interval.stop}|{a.interval.stride}|{showOpt a.upper}|{showOpt a.lower}|{a.delay}|{if a.isTop then "T" else "F"}"

def parseShown (s : String) : Except String IntervalDomain := do
  match s.splitOn "|" with
  | [w, st, e, sd, u, l, d, _] =>
    let gi (x : String) : Except String Int := match x.toInt? with
      | some v => pure v
      | none => throw s!"bad integer {x}"
    let go (x : String) : Except String (Option Int) := if x == "-" then pure none else (do return some (← gi x))
    return { interval := { w := (← gi w).toNat, start := ← gi st, stop := ← gi e, stride := (← gi sd).toNat },
             upper := ← go u, lower := ← go l, delay := (← gi d).toNat }
  | _ => throw s!"bad domain string {s}"

/-- members used by the spec: all of them if there are at most `cap`, else the ones next to the bounds
and evenly spaced ones in between -/
def sampleMembers (I : Interval) (cap : Nat) : List Int :=
  if I.stride = 0 then [I.start]
  else
    let n := ((I.stop - I.start) / (I.stride : Int)).toNat   -- last index
    let idx : List Nat :=
      if n + 1 ≤ cap then List.range (n + 1)
      else
        let k := cap / 2
        let edge := 4
        (List.range edge) ++ (List.range edge).map (fun i => n - i) ++
          (List.range k).map (fun i => (n * (i + 1)) / (k + 1)) ++
          (List.range 4).map (fun i => (n / 3 + 7 * i + 1) % (n + 1))
    idx.map fun (i : Nat) => I.start + (i : Int) * (I.stride : Int)

def wfDom (a : IntervalDomain) : Bool :=
  decide a.interval.WF &&
  (match a.upper with | some u => decide (InRange a.interval.w u) | none => true) &&
  (match a.lower with | some l => decide (InRange a.interval.w l) | none => true) &&
  decide (a.delay < 2 ^ 64)

def parseBinOp : String → Except String BinOp
  | "Piece" => pure .piece | "IntEqual" => pure .intEqual | "IntNotEqual" => pure .intNotEqual
  | "IntLess" => pure .intLess | "IntSLess" => pure .intSLess | "IntLessEqual" => pure .intLessEqual
  | "IntSLessEqual" => pure .intSLessEqual | "IntAdd" => pure .intAdd | "IntSub" => pure .intSub
  | "IntCarry" => pure .intCarry | "IntSCarry" => pure .intSCarry | "IntSBorrow" => pure .intSBorrow
  | "IntXOr" => pure .intXOr | "IntAnd" => pure .intAnd | "IntOr" => pure .intOr
  | "IntLeft" => pure .intLeft | "IntRight" => pure .intRight | "IntSRight" => pure .intSRight
  | "IntMult" => pure .intMult | "IntDiv" => pure .intDiv | "IntRem" => pure .intRem
  | "IntSDiv" => pure .intSDiv | "IntSRem" => pure .intSRem | "BoolXOr" => pure .boolXOr
  | "BoolAnd" => pure .boolAnd | "BoolOr" => pure .boolOr | "FloatEqual" => pure .floatEqual
  | "FloatNotEqual" => pure .floatNotEqual | "FloatLess" => pure .floatLess
  | "FloatLessEqual" => pure .floatLessEqual | "FloatAdd" => pure .floatAdd | "FloatSub" => pure .floatSub
  | "FloatMult" => pure .floatMult | "FloatDiv" => pure .floatDiv
  | s => throw s!"unknown binop {s}"

def parseUnOp : String → Except String UnOp
  | "IntNegate" => pure .intNegate | "Int2Comp" => pure .int2Comp | "BoolNegate" => pure .boolNegate
  | "FloatNegate" => pure .floatNegate | "FloatAbs" => pure .floatAbs | "FloatSqrt" => pure .floatSqrt
  | "FloatCeil" => pure .floatCeil | "FloatFloor" => pure .floatFloor | "FloatRound" => pure .floatRound
  | "FloatNaN" => pure .floatNaN
  | s => throw s!"unknown unop {s}"

def parseCastOp : String → Except String CastOp
  | "IntZExt" => pure .intZExt | "IntSExt" => pure .intSExt | "Int2Float" => pure .int2Float
  | "Float2Float" => pure .float2Float | "Trunc" => pure .trunc | "PopCount" => pure .popCount
  | "LzCount" => pure .lzCount
  | s => throw s!"unknown cast {s}"

/-- a concrete triple `(x, y, z)` evaluated by the real `Bitvector::bin_op` (`z = none`: `Err`) -/
structure Triple where
  x : Int
  y : Int
  z : Option Int

def parseTriple (j : Json) : Except String Triple := do
  match j with
  | Json.arr #[Json.str x, Json.str y, z] =>
    let gi (s : String) : Except String Int := match s.toInt? with
      | some v => pure v
      | none => throw s!"bad integer {s}"
    let z ← match z with
      | Json.str s => do pure (some (← gi s))
      | _ => pure none
    return { x := ← gi x, y := ← gi y, z := z }
  | _ => throw "bad triple"

/-- a concrete pair `(x, z)` evaluated by the real `Bitvector::un_op / cast / subpiece` (`z = none`: `Err`) -/
def parsePair (j : Json) : Except String (Int × Option Int) := do
  match j with
  | Json.arr #[Json.str x, z] =>
    let gi (s : String) : Except String Int := match s.toInt? with
      | some v => pure v
      | none => throw s!"bad integer {s}"
    let z ← match z with
      | Json.str s => do pure (some (← gi s))
      | _ => pure none
    return (← gi x, z)
  | _ => throw "bad pair"

/-- the pairs from the real bit-vector code against the reference semantics `ref` (value for value,
`Err` for unknown) and against the abstract result `r` of the implementation: the value the real code
computes for a member must be a member -/
def checkPairs (cc : List (Int × Option Int)) (ref : Int → Option Int) (a : IntervalDomain) (r : IntervalDomain) :
    Option String :=
  match cc.find? (fun t => ref t.1 != t.2) with
  | some t => some s!"concrete-semantics x={t.1}"
  | none =>
    match cc.find? (fun t => match t.2 with
        | some z => decide (a.Mem t.1) && !decide (r.Mem z)
        | none => false) with
    | some t => some s!"unsound x={t.1}"
    | none => none

/-- verdict assembly: `specErr` = description of a spec failure on the implementation output -/
def verdict (cls : String) (impl model : String) (specErr : Option String) (tags : String) : String :=
  match specErr with
  | some e => s!"spec class={cls}-{e} impl={impl} model={model}"
  | none =>
    if impl != model then s!"diff class={cls} model={model} impl={impl}" else s!"ok {cls} {tags}"

/-- the reference semantics available in Lean for a binary operation -/
def concBin (op : BinOp) (wa wb : Nat) : Option (Int → Int → Int) :=
  match op with
  | .intAdd => some (cadd wa)
  | .intSub => some (csub wa)
  | .intMult => if wa ≤ 64 then some (cmul wa) else none
  | .intLeft => some (fun x y => cshl wa x (toU wb y))
  | .piece => some (cpiece wa wb)
  | _ => none

/-- BOOL_AND/OR/XOR are defined on 1-byte operands -/
def isBoolOp : BinOp → Bool
  | .boolXOr | .boolAnd | .boolOr => true
  | _ => false

def firstSome {α β} (xs : List α) (f : α → Option β) : Option β := xs.findSome? f

def wtag (w : Nat) : String := s!"w{w}"

def handleE (line : String) : Except String String := do
  let j ← Json.parse line
  let k ← strF j "k"
  let impl ← strF j "impl"
  let cap := (natF j "cap").toOption.getD 40
  let a ← parseDom (← field j "a")
  match k with
  | "bin" =>
    let opS ← strF j "op"
    let op ← parseBinOp opS
    let b ← parseDom (← field j "b")
    let cc ← mapM' parseTriple ((arrF j "cc").toOption.getD [])
    -- the `Bitvector::bin_op` call inside `bin_op` is the P-Code reference semantics `CweModel.Ref.binOp`:
    -- the model executed here is literally the function `binOp_sound_ref` (C02/RefTie.lean) speaks about
    let conc := CweModel.C02.refConc a.w b.w
    let model := showDom (a.binOp conc op b)
    if impl.startsWith "panic" then return s!"diff class={opS}-panic model={model} impl={impl}"
    let r ← parseShown impl
    let wexp := binOpWidth op a.w b.w
    let inWf := wfDom a && wfDom b
    if !inWf then return verdict opS impl model none "modelonly"
    let xs := sampleMembers a.interval cap
    let ys := sampleMembers b.interval cap
    let specErr : Option String :=
      if r.interval.w != wexp then some "width"
      else
        let wfErr : Option String := if !wfDom r then some "illformed" else none
        -- triples evaluated by the real bit-vector code
        match cc.find? (fun t => match t.z with
            | some z => decide (a.Mem t.x ∧ b.Mem t.y) && !decide (r.Mem z)
            | none => false) with
        | some t => some s!"unsound x={t.x} y={t.y}"
        | none =>
          -- the reference semantics `Ref.binOp` must agree with the real bit-vector code on the triples
          -- (value for value, `Err` for unknown), for every operation …
          match (if isBoolOp op && a.w != 8 then none else cc.find? (fun t => conc op t.x t.y != t.z)) with
          | some t => some s!"concrete-semantics x={t.x} y={t.y}"
          | none =>
          match concBin op a.w b.w with
          | some f =>
            -- … so must the `Int` formulas of the operations with a transfer function of their own
            -- (proved equal to the reference in C02/RefTie.lean) …
            match cc.find? (fun t => match t.z with | some z => f t.x t.y != z | none => false) with
            | some t => some s!"concrete-semantics x={t.x} y={t.y}"
            | none =>
              -- … and every result of a member pair must be a member
              match firstSome xs (fun x => firstSome ys (fun y =>
                  if r.Mem (f x y) then none else some (x, y))) with
              | some (x, y) => some s!"unsound x={x} y={y}"
              | none => wfErr
          | none => wfErr
    let single := a.interval.start == a.interval.stop && b.interval.start == b.interval.stop
    return verdict opS impl model specErr
      s!"constrained {wtag a.w} {if r.isTop then "top" else if single then "single" else "interval"}"
  | "un" =>
    let opS ← strF j "op"
    let op ← parseUnOp opS
    let model := showDom (a.unOp op)
    if impl.startsWith "panic" then return s!"diff class={opS}-panic model={model} impl={impl}"
    let r ← parseShown impl
    if !wfDom a then return verdict opS impl model none "modelonly"
    let xs := sampleMembers a.interval cap
    let wexp := match op with | .boolNegate => (if a.interval.start = a.interval.stop then 8 else a.w) | .floatNaN => 8 | _ => a.w
    let f : Option (Int → Option Int) := match op with
      | .int2Comp => some (fun x => some (cneg a.w x))
      | .intNegate => some (fun x => some (cnot a.w x))
      | .boolNegate => if a.w = 8 then some (fun x => if x = 0 then some 1 else if x = 1 then some 0 else none) else none
      | _ => none
    let cc ← mapM' parsePair ((arrF j "cc").toOption.getD [])
    let specErr : Option String :=
      if r.interval.w != wexp then some "width"
      else if !wfDom r then some "illformed"
      -- (BOOL_NEGATE is defined on 1-byte operands: outside, only model = implementation is required)
      else match (if op == .boolNegate && a.w != 8 then none else checkPairs cc (CweModel.C02.refUn a.w op) a r) with
      | some e => some e
      | none =>
      match f with
        | some f => match xs.find? (fun x => match f x with | some z => !decide (r.Mem z) | none => false) with
          | some x => some s!"unsound x={x}"
          | none => none
        | none => none
    return verdict opS impl model specErr s!"constrained {wtag a.w} {if r.isTop then "top" else "interval"}"
  | "cast" =>
    let opS ← strF j "op"
    let op ← parseCastOp opS
    let w' ← natF j "w"
    let model := showDom (a.cast op w')
    if impl.startsWith "panic" then return s!"diff class={opS}-panic model={model} impl={impl}"
    let r ← parseShown impl
    if !wfDom a then return verdict opS impl model none "modelonly"
    let xs := sampleMembers a.interval cap
    let f : Option (Int → Int) := match op with
      | .intZExt => some (czext a.w w')
      | .intSExt => some (csext a.w w')
      | .popCount => some (cpopcount a.w w')
      | .lzCount => some (clzcount a.w w')
      | _ => none
    let cc ← mapM' parsePair ((arrF j "cc").toOption.getD [])
    let specErr : Option String :=
      if r.interval.w != w' then some "width"
      else if !wfDom r then some "illformed"
      else match checkPairs cc (CweModel.C02.refCast a.w op (w' / 8)) a r with
      | some e => some e
      | none =>
      match f with
        | some f => match xs.find? (fun x => !decide (r.Mem (f x))) with
          | some x => some s!"unsound x={x}"
          | none => none
        | none => none
    return verdict s!"{opS}-w{a.w}-to{w'}" impl model specErr s!"constrained {wtag a.w} {if r.isTop then "top" else "interval"}"
  | "sub" =>
    let low ← natF j "low"
    let size ← natF j "size"
    let model := showDom (a.subpiece low size)
    if impl.startsWith "panic" then return s!"diff class=Subpiece-panic model={model} impl={impl}"
    let r ← parseShown impl
    if !wfDom a then return verdict "Subpiece" impl model none "modelonly"
    let xs := sampleMembers a.interval cap
    let cc ← mapM' parsePair ((arrF j "cc").toOption.getD [])
    let specErr : Option String :=
      if r.interval.w != size then some "width"
      else if !wfDom r then some "illformed"
      else match checkPairs cc (CweModel.C02.refSubpiece a.w (low / 8) (size / 8)) a r with
      | some e => some e
      | none =>
      match xs.find? (fun x => !decide (r.Mem (csubpiece a.w low size x))) with
        | some x => some s!"unsound x={x}"
        | none => none
    return verdict (if low = 0 then "Subpiece-lower" else if low + size = a.w then "Subpiece-higher" else "Subpiece-mid")
      impl model specErr s!"constrained {wtag a.w} {if r.isTop then "top" else "interval"}"
  | "contains" =>
    let x ← intS j "x"
    let model := toString (a.interval.contains x)
    -- spec: `contains` decides γ (widths of at most 64 bit)
    let specErr : Option String :=
      if a.w ≤ 64 then (if impl != toString (decide (a.Mem x)) then some "gamma" else none) else none
    return verdict "contains" impl model specErr s!"constrained {wtag a.w} {impl}"
  | _ => throw s!"unknown case kind {k}"

end CweModel.Itv.Drv

def main : IO Unit := CweModel.Proto.runDriver (CweModel.Proto.guarded CweModel.Itv.Drv.handleE)
