/-
C02 — `subpiece_higher`, `subpiece_lower`, `subpiece`.
-/
import CweModel.C02.Ext

namespace CweModel.C02
open CweModel.Itv

/-- values congruent modulo `2^s` wrap to the same `s`-bit value -/
theorem wrap_congr (s : Nat) (hs : 0 < s) {a b : Int} (h : pow2 s ∣ a - b) : wrap s a = wrap s b := by
  obtain ⟨k, hk⟩ := h
  obtain ⟨hr, k', hk'⟩ := wrap_spec s hs b
  exact wrap_eq s hs (k - k') hr (by rw [hk', Int.sub_mul, Int.mul_comm k]; omega)

/-! ### SUBPIECE on values: dropping low bits is floor division -/

theorem csubpiece_high (w low : Nat) (hlow : low < w) {x : Int} (hx : InRange w x) :
    csubpiece w low (w - low) x = x / pow2 low ∧ InRange (w - low) (x / pow2 low) := by
  have hw0 : 0 < w := by omega
  have hL := pow2_pos low
  have hsplit : pow2 w = pow2 (w - low) * pow2 low := by
    rw [← pow2_add]; congr 1; omega
  have hsplit1 : pow2 (w - 1) = pow2 (w - low - 1) * pow2 low := by
    rw [← pow2_add]; congr 1; omega
  have hH := pow2_pos (w - low - 1)
  have hH2 := pow2_eq (w - low) (by omega)
  have hin : InRange (w - low) (x / pow2 low) := by
    unfold InRange smin smax at *
    constructor
    · have : -pow2 (w - low - 1) * pow2 low ≤ x := by rw [Int.neg_mul, ← hsplit1]; exact hx.1
      exact Int.le_ediv_of_mul_le hL this
    · have : x < pow2 (w - low - 1) * pow2 low := by rw [← hsplit1]; omega
      have := Int.ediv_lt_of_lt_mul hL this
      omega
  refine ⟨?_, hin⟩
  unfold csubpiece
  rw [Int.natCast_ediv, pow2_nat, toU_of_inRange w hw0 hx]
  split
  · rw [hsplit, Int.add_mul_ediv_right _ _ (by omega)]
    exact wrap_eq (w - low) (by omega) 1 hin (by omega)
  · exact wrap_of_inRange (w - low) (by omega) hin

theorem csubpiece_low (w size : Nat) (hs0 : 0 < size) (hs : size ≤ w) (x : Int) :
    csubpiece w 0 size x = wrap size x := by
  unfold csubpiece
  simp only [Nat.pow_zero, Nat.div_one]
  exact wrap_congr size hs0 (Int.dvd_trans (pow2_dvd_pow2 hs) (toU_congr w x))

/-! ### `subpiece_higher` -/

theorem subpieceHigher_spec (I : Interval) (hI : I.WF) (low : Nat) (hlow : low < I.w) {x : Int}
    (hx : I.Mem x) :
    (I.subpieceHigher low).Mem (csubpiece I.w low (I.w - low) x) ∧ (I.subpieceHigher low).WF ∧
      (I.subpieceHigher low).w = I.w - low := by
  have hxr := Interval.mem_inRange hI hx
  obtain ⟨hw0, hIs, hIe, hle, h0, hd, hu⟩ := hI
  obtain ⟨hx1, hx2, hx3⟩ := hx
  have hL := pow2_pos low
  obtain ⟨e1, r1⟩ := csubpiece_high I.w low hlow hIs
  obtain ⟨e2, r2⟩ := csubpiece_high I.w low hlow hIe
  obtain ⟨e3, r3⟩ := csubpiece_high I.w low hlow hxr
  have m1 : I.start / pow2 low ≤ x / pow2 low := Int.ediv_le_ediv hL hx1
  have m2 : x / pow2 low ≤ I.stop / pow2 low := Int.ediv_le_ediv hL hx2
  unfold Interval.subpieceHigher
  simp only [e1, e2, e3]
  refine ⟨⟨m1, m2, ?_⟩, ⟨by show 0 < I.w - low; omega, r1, r2, by show I.start / pow2 low ≤ I.stop / pow2 low; omega, ?_, ?_, ?_⟩, by first | rfl | trivial⟩
  · show (((if I.start / pow2 low = I.stop / pow2 low then 0 else 1 : Nat)) : Int) ∣ x / pow2 low - I.start / pow2 low
    by_cases h : I.start / pow2 low = I.stop / pow2 low
    · have : x / pow2 low = I.start / pow2 low := by omega
      simp [h, this]
    · simp [h, Int.one_dvd]
  · show (if I.start / pow2 low = I.stop / pow2 low then 0 else 1) = 0 ↔ I.start / pow2 low = I.stop / pow2 low
    by_cases h : I.start / pow2 low = I.stop / pow2 low <;> simp [h]
  · show (((if I.start / pow2 low = I.stop / pow2 low then 0 else 1 : Nat)) : Int) ∣ I.stop / pow2 low - I.start / pow2 low
    by_cases h : I.start / pow2 low = I.stop / pow2 low
    · simp [h]
    · simp [h, Int.one_dvd]
  · show (if I.start / pow2 low = I.stop / pow2 low then 0 else 1) < 2 ^ 64
    by_cases h : I.start / pow2 low = I.stop / pow2 low <;> simp [h]

/-! ### `subpiece_lower` -/

theorem toU_wrap_nonneg (w : Nat) (hw : 0 < w) {d : Int} (h0 : 0 ≤ d) (h1 : d < pow2 w) :
    (toU w (wrap w d) : Int) = d := by
  obtain ⟨_, k, hk⟩ := wrap_spec w hw d
  unfold toU
  have hP := pow2_pos w
  rw [Int.toNat_of_nonneg (Int.emod_nonneg _ (by omega)), hk, Int.add_mul_emod_self_right]
  exact Int.emod_eq_of_lt h0 h1

theorem subpieceLower_spec (I : Interval) (hI : I.WF) (size : Nat) (hs0 : 1 < size) (_hs : size ≤ I.w)
    {x : Int} (hx : I.Mem x) :
    (I.subpieceLower size).Mem (wrap size x) ∧ (I.subpieceLower size).WF ∧ (I.subpieceLower size).w = size := by
  have hxr := Interval.mem_inRange hI hx
  obtain ⟨hw0, hIs, hIe, hle, h0, hd, hu⟩ := hI
  obtain ⟨hx1, hx2, hx3⟩ := hx
  have hP := pow2_pos (I.w - 1)
  have hP2 := pow2_eq I.w hw0
  have hS := pow2_pos (size - 1)
  have hS2 := pow2_eq size (by omega)
  have htop : (Interval.newTop size).Mem (wrap size x) ∧ (Interval.newTop size).WF ∧ (Interval.newTop size).w = size :=
    ⟨(Interval.mem_newTop _ _).mpr (wrap_inRange size (by omega) x), Interval.wf_newTop size hs0, rfl⟩
  have hlen : (toU I.w (wrap I.w (I.stop - I.start)) : Int) = I.stop - I.start :=
    toU_wrap_nonneg I.w hw0 (by omega) (by unfold InRange smin smax at *; omega)
  unfold Interval.subpieceLower
  simp only
  split
  · rename_i hcond
    split
    · rename_i hse
      -- no wrap-around between the truncated bounds: all members are shifted by the same multiple
      have hc : I.stop - I.start ≤ pow2 size - 1 := by
        have hlt : toU I.w (wrap I.w (I.stop - I.start)) < 2 ^ size := by
          have := Nat.two_pow_pos size; omega
        have h1 : ((toU I.w (wrap I.w (I.stop - I.start)) : Nat) : Int) < ((2 ^ size : Nat) : Int) :=
          Int.ofNat_lt.mpr hlt
        rw [pow2_nat] at h1
        omega
      obtain ⟨rs, ks, hks⟩ := wrap_spec size (by omega) I.start
      obtain ⟨re, ke, hke⟩ := wrap_spec size (by omega) I.stop
      have hkk : ke = ks := by
        have hlin : (ke - ks) * pow2 size = (wrap size I.stop - wrap size I.start) - (I.stop - I.start) := by
          rw [Int.sub_mul]; omega
        unfold InRange smin smax at rs re
        rcases Int.lt_trichotomy (ke - ks) 0 with hk | hk | hk
        · have : (ke - ks) * pow2 size ≤ -1 * pow2 size := Int.mul_le_mul_of_nonneg_right (by omega) (by omega)
          omega
        · omega
        · have : 1 * pow2 size ≤ (ke - ks) * pow2 size := Int.mul_le_mul_of_nonneg_right (by omega) (by omega)
          omega
      subst hkk
      have hxw : wrap size x = x + ke * pow2 size := by
        apply wrap_eq size (by omega) (-ke)
        · unfold InRange smin smax at *; omega
        · rw [Int.neg_mul]; omega
      refine ⟨⟨by show wrap size I.start ≤ wrap size x; omega, by show wrap size x ≤ wrap size I.stop; omega, ?_⟩,
        ⟨by show 0 < size; omega, rs, re, hse, ?_, ?_, hu⟩, rfl⟩
      · show (I.stride : Int) ∣ wrap size x - wrap size I.start
        have : wrap size x - wrap size I.start = x - I.start := by omega
        rw [this]; exact hx3
      · show I.stride = 0 ↔ wrap size I.start = wrap size I.stop
        rw [h0]; constructor <;> intro h' <;> omega
      · show (I.stride : Int) ∣ wrap size I.stop - wrap size I.start
        have : wrap size I.stop - wrap size I.start = I.stop - I.start := by omega
        rw [this]; exact hd
    · exact htop
  · exact htop

/-! ### `subpiece` -/

/-- SUBPIECE decomposes into dropping the low bits and truncating -/
theorem csubpiece_split (w low size : Nat) (hlow : low < w) (hs0 : 0 < size) (hs : low + size ≤ w) (x : Int) :
    csubpiece w low size x = wrap size (csubpiece w low (w - low) x) := by
  have hw0 : 0 < w := by omega
  unfold csubpiece
  -- the dropped value is below 2^(w-low), so wrapping to w-low bits changes it by a multiple of 2^(w-low)
  obtain ⟨_, k, hk⟩ := wrap_spec (w - low) (by omega) (((toU w x / 2 ^ low : Nat) : Int))
  rw [hk]
  apply wrap_congr size hs0
  have : ((toU w x / 2 ^ low : Nat) : Int) - (((toU w x / 2 ^ low : Nat) : Int) + k * pow2 (w - low))
      = pow2 (w - low) * (-k) := by rw [Int.mul_neg, Int.mul_comm]; omega
  rw [this]
  exact Int.dvd_trans (pow2_dvd_pow2 (by omega)) (Int.dvd_mul_right _ _)

theorem csubpiece_id (w : Nat) (hw : 0 < w) {x : Int} (hx : InRange w x) : csubpiece w 0 w x = x := by
  rw [csubpiece_low w w hw (Nat.le_refl w) x]; exact wrap_of_inRange w hw hx

/-- **C02-subpiece.** Soundness and well-formedness of `Interval::subpiece` (as composed by
`IntervalDomain::subpiece`): `low` bits are dropped, `size` bits are kept, `low + size ≤ w`. -/
theorem subpiece_spec (I : Interval) (hI : I.WF) (low size : Nat) (hs0 : 1 < size) (hs : low + size ≤ I.w)
    {x : Int} (hx : I.Mem x) :
    (I.subpiece low size).Mem (csubpiece I.w low size x) ∧ (I.subpiece low size).WF ∧
      (I.subpiece low size).w = size := by
  have hxr := Interval.mem_inRange hI hx
  have hw0 := hI.1
  unfold Interval.subpiece
  by_cases hl : low = 0
  · subst hl
    simp only [ne_eq, not_true_eq_false, if_false]
    by_cases hgt : I.w > size
    · rw [if_pos hgt, csubpiece_low I.w size (by omega) (by omega) x]
      exact subpieceLower_spec I hI size hs0 (by omega) hx
    · rw [if_neg hgt]
      have : size = I.w := by omega
      subst this
      rw [csubpiece_id I.w hw0 hxr]
      exact ⟨hx, hI, rfl⟩
  · simp only [ne_eq, hl, not_false_eq_true, if_true]
    obtain ⟨hm, hwf, hwid⟩ := subpieceHigher_spec I hI low (by omega) hx
    rw [csubpiece_split I.w low size (by omega) (by omega) hs x]
    by_cases hgt : (I.subpieceHigher low).w > size
    · rw [if_pos hgt]
      exact subpieceLower_spec _ hwf size hs0 (by omega) hm
    · rw [if_neg hgt]
      have hsz : size = I.w - low := by omega
      have hin := (csubpiece_high I.w low (by omega) hxr).2
      rw [hsz, wrap_of_inRange (I.w - low) (by omega) (by rw [(csubpiece_high I.w low (by omega) hxr).1]; exact hin)]
      exact ⟨hm, hwf, hwid⟩

end CweModel.C02
