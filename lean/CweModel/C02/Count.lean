/-
C02 — `Interval::contains` decides the concretisation, and the count casts `cast(PopCount)` /
`cast(LzCount)` of `IntervalDomain` (interval.rs, `impl RegisterDomain`) are sound and well-formed.

Contents
* A  `contains_iff` / `contains_iff_mem` (C02-contains)
* B  facts on `popCountNat`, `bitLen`, `leadingZeros`
* C  `popCount_sound`, `popCount_wf` (C02-popcount)
* D  `lzCount_sound`, `lzCount_wf` (C02-lzcount)
-/
import CweModel.C02.Ext

namespace CweModel.C02
open CweModel.Itv

/-! ### A: `Interval::contains` -/

theorem toU_wrap_of_nonneg_lt (w : Nat) (hw : 0 < w) {d : Int} (h0 : 0 ≤ d) (h1 : d < pow2 w) :
    toU w (wrap w d) = d.toNat := by
  obtain ⟨_, k, hk⟩ := wrap_spec w hw d
  unfold toU
  rw [hk, Int.add_mul_emod_self_right, Int.emod_eq_of_lt h0 h1]

theorem natMod_eq_zero_iff_dvd (d : Int) (hd : 0 ≤ d) (s : Nat) :
    d.toNat % s = 0 ↔ (s : Int) ∣ d := by
  rw [← Nat.dvd_iff_mod_eq_zero, ← Int.natCast_dvd_natCast, Int.toNat_of_nonneg hd]

/-- away from the shortcut `start == bitvec`, `Interval::contains` decides `γ` -/
theorem contains_of_ne (I : Interval) (hw0 : 0 < I.w) (hw : I.w ≤ 64) (hs : InRange I.w I.start)
    {x : Int} (hx : InRange I.w x) (hsx : I.start ≠ x) : I.contains x = true ↔ I.Mem x := by
  unfold Interval.contains Interval.Mem
  rw [if_neg hsx]
  by_cases h1 : I.start ≤ x
  · by_cases h2 : x ≤ I.stop
    · have hd0 : 0 < x - I.start := by omega
      have hd1 : x - I.start < pow2 I.w := by
        have := pow2_eq I.w hw0; unfold InRange smin smax at *; omega
      have hU := toU_wrap_of_nonneg_lt I.w hw0 (by omega) hd1
      have h64 : (x - I.start).toNat < 2 ^ 64 := by
        have := pow2_le_pow2 hw
        have : pow2 64 = 2 ^ 64 := by unfold pow2; rfl
        omega
      have hT : tryToU64 I.w (wrap I.w (x - I.start)) = some (x - I.start).toNat := by
        unfold tryToU64; rw [hU]; exact if_pos h64
      rw [hT]
      simp only [h1, h2, decide_true, Bool.true_and, true_and, Bool.and_eq_true, decide_eq_true_eq]
      rw [natMod_eq_zero_iff_dvd _ (by omega)]
      constructor
      · exact fun h => h.2
      · intro h
        refine ⟨?_, h⟩
        rcases Nat.eq_zero_or_pos I.stride with h0 | h0
        · rw [h0] at h; have := Int.zero_dvd.mp h; omega
        · exact h0
    · simp [h2]
  · simp [h1]

/-- **C02-contains-raw.** Without any assumption on the order of the bounds: `Interval::contains`
answers `true` exactly for `start` itself (the shortcut `self.start == *bitvec`) and for the members. -/
theorem contains_iff (I : Interval) (hw0 : 0 < I.w) (hw : I.w ≤ 64) (hs : InRange I.w I.start)
    {x : Int} (hx : InRange I.w x) : I.contains x = true ↔ x = I.start ∨ I.Mem x := by
  by_cases hsx : I.start = x
  · have : I.contains x = true := by unfold Interval.contains; rw [if_pos hsx]
    simp [this, hsx]
  · rw [contains_of_ne I hw0 hw hs hx hsx]
    constructor
    · exact Or.inr
    · rintro (h | h)
      · exact absurd h.symm hsx
      · exact h

/-- **C02-contains.** `Interval::contains` decides `γ` for intervals of at most 64 bit with
`start ≤ end` (part of `Interval.WF`; no other part of well-formedness is needed). The hypothesis
`hse` cannot be dropped: for `start > end` the shortcut `self.start == *bitvec` answers `true` for
`x = start` although `γ` is empty (see the `example` below). -/
theorem contains_iff_mem (I : Interval) (hw0 : 0 < I.w) (hw : I.w ≤ 64) (hs : InRange I.w I.start)
    (hse : I.start ≤ I.stop) {x : Int} (hx : InRange I.w x) : I.contains x = true ↔ I.Mem x := by
  rw [contains_iff I hw0 hw hs hx]
  constructor
  · rintro (h | h)
    · subst h; exact Interval.start_mem I hse
    · exact h
  · exact Or.inr

example : let I : Interval := { w := 8, start := -3, stop := 5, stride := 2 }
    (I.contains 3 = true ↔ I.Mem 3) ∧ I.contains 3 = true ∧ I.contains 4 = false ∧ ¬ I.Mem 4 :=
  ⟨contains_iff_mem _ (by decide) (by decide) (by decide) (by decide) (by decide), by decide, by decide, by decide⟩

/-- `start ≤ end` is needed in `contains_iff_mem` -/
example : let I : Interval := { w := 8, start := 5, stop := 3, stride := 1 }
    I.contains 5 = true ∧ ¬ I.Mem 5 := by decide

/-! ### B: the counting functions -/

/-- a `fuel`-bit number has at most `fuel` set bits -/
theorem popCountNat_le (fuel n : Nat) : popCountNat fuel n ≤ fuel := by
  induction fuel generalizing n with
  | zero => simp [popCountNat]
  | succ f ih =>
    unfold popCountNat
    have := ih (n / 2)
    have := Nat.mod_lt n (show 0 < 2 by decide)
    omega

/-- the bit length is bounded by the fuel (= the width) -/
theorem bitLen_le (fuel n : Nat) : bitLen fuel n ≤ fuel := by
  induction fuel generalizing n with
  | zero => simp [bitLen]
  | succ f ih =>
    unfold bitLen
    have := ih (n / 2)
    split <;> omega

/-- the bit length is monotone -/
theorem bitLen_mono (fuel : Nat) {m n : Nat} (h : m ≤ n) : bitLen fuel m ≤ bitLen fuel n := by
  induction fuel generalizing m n with
  | zero => simp [bitLen]
  | succ f ih =>
    unfold bitLen
    have := @ih (m / 2) (n / 2) (Nat.div_le_div_right h)
    split <;> split <;> omega

theorem bitLen_zero (fuel : Nat) : bitLen fuel 0 = 0 := by
  cases fuel <;> simp [bitLen]

/-- `n < 2^k` needs at most `k` bits -/
theorem bitLen_le_of_lt (fuel : Nat) {n k : Nat} (h : n < 2 ^ k) : bitLen fuel n ≤ k := by
  induction fuel generalizing n k with
  | zero => simp [bitLen]
  | succ f ih =>
    unfold bitLen
    split
    · omega
    · rename_i hn
      cases k with
      | zero => simp at h; omega
      | succ k' =>
        have : n / 2 < 2 ^ k' := by
          rw [Nat.pow_succ] at h; omega
        have := ih this
        omega

/-- `n` is smaller than `2 ^ bitLen n` (if the fuel suffices) -/
theorem lt_two_pow_bitLen (fuel : Nat) {n : Nat} (h : n < 2 ^ fuel) : n < 2 ^ bitLen fuel n := by
  induction fuel generalizing n with
  | zero => simpa [bitLen] using h
  | succ f ih =>
    unfold bitLen
    split
    · rename_i hn; subst hn; simp
    · have h2 : n / 2 < 2 ^ f := by rw [Nat.pow_succ] at h; omega
      have := ih h2
      rw [Nat.add_comm, Nat.pow_succ]; omega

/-- a value with the top bit set needs all `w` bits -/
theorem bitLen_eq_of_ge (w : Nat) {n : Nat} (h1 : 2 ^ (w - 1) ≤ n) (h2 : n < 2 ^ w) : bitLen w n = w := by
  have hle := bitLen_le w n
  have hlt := lt_two_pow_bitLen w h2
  rcases Nat.lt_or_ge (bitLen w n) w with h | h
  · have := Nat.pow_le_pow_right (show 0 < 2 by decide) (show bitLen w n ≤ w - 1 by omega)
    omega
  · omega

/-- `leading_zeros` of a `w`-bit value is at most `w` -/
theorem leadingZeros_le (w : Nat) (x : Int) : leadingZeros w x ≤ w := by
  unfold leadingZeros; omega

/-- `leading_zeros` is antitone in the unsigned value -/
theorem leadingZeros_anti (w : Nat) {x y : Int} (h : toU w x ≤ toU w y) :
    leadingZeros w y ≤ leadingZeros w x := by
  unfold leadingZeros
  have := bitLen_mono w h
  omega

theorem toU_lt_nat (w : Nat) (x : Int) : toU w x < 2 ^ w := by
  have := toU_lt w x; unfold pow2 at this; omega

/-- negative values (top bit set) have no leading zeros -/
theorem leadingZeros_neg (w : Nat) (hw : 0 < w) {x : Int} (hx : InRange w x) (hn : x < 0) :
    leadingZeros w x = 0 := by
  have hU := toU_of_inRange w hw hx
  rw [if_pos hn] at hU
  have h2 := pow2_eq w hw
  have h1 : 2 ^ (w - 1) ≤ toU w x := by
    unfold InRange smin smax at hx
    have : pow2 (w - 1) ≤ (toU w x : Int) := by omega
    unfold pow2 at this; omega
  unfold leadingZeros
  rw [bitLen_eq_of_ge w h1 (toU_lt_nat w x)]; omega

/-- non-negative values have at least one leading zero -/
theorem leadingZeros_nonneg (w : Nat) (hw : 0 < w) {x : Int} (hx : InRange w x) (hn : 0 ≤ x) :
    1 ≤ leadingZeros w x := by
  have hU := toU_of_inRange w hw hx
  rw [if_neg (by omega)] at hU
  have h1 : toU w x < 2 ^ (w - 1) := by
    unfold InRange smin smax at hx
    have : (toU w x : Int) < pow2 (w - 1) := by omega
    unfold pow2 at this; omega
  have := bitLen_le_of_lt w h1
  unfold leadingZeros; omega

/-! ### `Interval::new(start, end, 1)` -/

theorem new_of_ne (w : Nat) {s e : Int} (h : s ≠ e) :
    Interval.new w s e 1 = { w := w, start := s, stop := e, stride := 1 } := by
  unfold Interval.new Interval.adjustEnd
  rw [if_neg (show ¬ (1:Nat) = 0 by decide), if_pos ⟨rfl, h⟩]

theorem new_self (w : Nat) (hw : 0 < w) {s : Int} (hs : InRange w s) :
    Interval.new w s s 1 = { w := w, start := s, stop := s, stride := 0 } := by
  unfold Interval.new Interval.adjustEnd
  rw [if_neg (show ¬ (1:Nat) = 0 by decide), if_neg (by simp)]
  unfold Interval.adjustDiff
  split
  · rename_i d hd
    split at hd
    · injection hd with hd
      subst hd
      simp [Nat.mod_one, fromU64, wrap_of_inRange w hw hs,
        wrap_of_inRange w hw (show InRange w 0 from by
          have := pow2_pos (w - 1); unfold InRange smin smax; omega)]
    · cases hd
  · simp [Interval.setStrideToUnknown]

theorem new_spec (w : Nat) (hw : 0 < w) {s e : Int} (hs : InRange w s) (he : InRange w e) (hse : s ≤ e) :
    (Interval.new w s e 1).WF ∧ (Interval.new w s e 1).w = w ∧
    ∀ z, s ≤ z → z ≤ e → (Interval.new w s e 1).Mem z := by
  by_cases h : s = e
  · subst h
    rw [new_self w hw hs]
    refine ⟨⟨hw, hs, hs, Int.le_refl _, by simp, by simp, show 0 < 2 ^ 64 by decide⟩, rfl, ?_⟩
    intro z h1 h2
    have : z = s := by omega
    subst this
    exact ⟨Int.le_refl _, Int.le_refl _, by simp⟩
  · rw [new_of_ne w h]
    refine ⟨⟨hw, hs, he, hse, ?_, by simp [Int.one_dvd], show 1 < 2 ^ 64 by decide⟩, rfl, ?_⟩
    · show (1 = 0 ↔ s = e)
      simp [h]
    · intro z h1 h2
      exact ⟨h1, h2, by simp [Int.one_dvd]⟩
/-! ### the count casts -/

theorem ofInterval_wf {I : Interval} (h : I.WF) : (IntervalDomain.ofInterval I).WF :=
  ⟨h, fun u hu => (by cases hu), fun l hl => (by cases hl), show 0 < 2 ^ 64 by decide⟩

theorem inRange_nat_of_le {w' : Nat} {n w : Nat} (hn : n ≤ w) (hfit : (w : Int) ≤ smax w') :
    InRange w' (n : Int) := by
  have := pow2_pos (w' - 1)
  unfold InRange smin; unfold smax at *; omega

theorem wrap_nat_of_le {w' : Nat} (hw' : 0 < w') {n w : Nat} (hn : n ≤ w) (hfit : (w : Int) ≤ smax w') :
    wrap w' (n : Int) = n := wrap_of_inRange w' hw' (inRange_nat_of_le hn hfit)

/-- the fallback `IntervalDomain::new(0, bit length)` is well-formed and contains every count
`0 ≤ n ≤ w` -/
theorem countRange_spec (w w' : Nat) (hw' : 0 < w') (hfit : (w : Int) ≤ smax w') :
    (IntervalDomain.countRange w w').WF ∧ (IntervalDomain.countRange w w').w = w' ∧
    ∀ n : Nat, n ≤ w → (IntervalDomain.countRange w w').Mem (wrap w' (n : Int)) := by
  unfold IntervalDomain.countRange IntervalDomain.new
  rw [wrap_nat_of_le hw' (Nat.le_refl w) hfit]
  obtain ⟨h1, h2, h3⟩ := new_spec w' hw' (inRange_nat_of_le (Nat.zero_le w) hfit)
    (inRange_nat_of_le (Nat.le_refl w) hfit) (show ((0 : Nat) : Int) ≤ (w : Int) by omega)
  refine ⟨ofInterval_wf h1, h2, ?_⟩
  intro n hn
  rw [wrap_nat_of_le hw' hn hfit]
  exact h3 _ (by omega) (by omega)

theorem countFits_iff (w w' : Nat) : IntervalDomain.countFits w w' = true ↔ (w : Int) ≤ smax w' := by
  simp only [IntervalDomain.countFits, decide_eq_true_eq]

/-- the guard is what the Rust code computes on `usize` values:
`!(w' <= 64 && w >> (w' - 1) != 0)` -/
theorem countFits_eq_rust (w w' : Nat) (hw : w < 2 ^ 64) :
    IntervalDomain.countFits w w' = !(decide (w' ≤ 64) && (w >>> (w' - 1) != 0)) := by
  have hpow : (pow2 (w' - 1) : Int) = ((2 ^ (w' - 1) : Nat) : Int) := rfl
  have hp := Nat.two_pow_pos (w' - 1)
  rw [Bool.eq_iff_iff, countFits_iff]
  simp only [Bool.not_eq_true', Bool.and_eq_false_iff, decide_eq_false_iff_not, bne_eq_false_iff_eq,
    Nat.shiftRight_eq_div_pow]
  unfold smax
  rw [hpow]
  constructor
  · intro h
    right
    exact Nat.div_eq_of_lt (by omega)
  · rintro (h | h)
    · have : 2 ^ 64 ≤ 2 ^ (w' - 1) := Nat.pow_le_pow_right (by decide) (by omega)
      omega
    · have := (Nat.div_eq_zero_iff_lt hp).mp h
      omega

/-- the guard of the count casts is not taken for singletons and for operands whose bit length fits -/
theorem countGuard_false (a : IntervalDomain) (w' : Nat)
    (h : a.interval.start = a.interval.stop ∨ (a.w : Int) ≤ smax w') :
    (a.tryToBitvec.isNone && !IntervalDomain.countFits a.w w') = false := by
  rcases h with h | h
  · have ht : a.tryToBitvec = some a.interval.start := if_pos h
    simp [ht]
  · simp [(countFits_iff a.w w').mpr h]

theorem countGuard_true (a : IntervalDomain) (w' : Nat)
    (h1 : ¬ a.interval.start = a.interval.stop) (h2 : ¬ (a.w : Int) ≤ smax w') :
    (a.tryToBitvec.isNone && !IntervalDomain.countFits a.w w') = true := by
  have ht : a.tryToBitvec = none := if_neg h1
  have hf : IntervalDomain.countFits a.w w' = false := by
    rw [Bool.eq_false_iff]; intro h; exact h2 ((countFits_iff a.w w').mp h)
  simp [ht, hf]

theorem newTop_dom_spec (w' : Nat) (hw' : 1 < w') :
    (IntervalDomain.newTop w').WF ∧ (IntervalDomain.newTop w').w = w' ∧
    ∀ z, InRange w' z → (IntervalDomain.newTop w').Mem z :=
  ⟨ofInterval_wf (Interval.wf_newTop w' hw'), rfl, fun _ hz => (Interval.mem_newTop _ _).mpr hz⟩

/-- **C02-popcount.** Soundness of `cast(PopCount)`: the population count of every member of `a`
is a member of the result (all operand and result widths). -/
theorem popCount_sound (a : IntervalDomain) (_ha : a.WF) (w' : Nat) (hw' : 1 < w')
    {x : Int} (hx : a.Mem x) :
    (a.cast .popCount w').Mem (cpopcount a.w w' x) := by
  simp only [IntervalDomain.cast]
  by_cases h : a.interval.start = a.interval.stop
  · rw [countGuard_false a w' (.inl h)]
    simp only [Bool.false_eq_true, if_false]
    have ht : a.tryToBitvec = some a.interval.start := if_pos h
    rw [ht]
    have : x = a.interval.start := by
      have h1 := hx.1; have h2 := hx.2.1; omega
    subst this
    exact (Interval.mem_single _ _ _).mpr rfl
  · have ht : a.tryToBitvec = none := if_neg h
    by_cases hfit : (a.w : Int) ≤ smax w'
    · rw [countGuard_false a w' (.inr hfit)]
      simp only [Bool.false_eq_true, if_false]
      rw [ht]
      exact (countRange_spec a.w w' (by omega) hfit).2.2 _ (popCountNat_le _ _)
    · rw [countGuard_true a w' h hfit]
      simp only [if_true]
      exact (newTop_dom_spec w' hw').2.2 _ (wrap_inRange w' (by omega) _)

/-- **C02-popcount-wf.** The result of `cast(PopCount)` is well-formed and has the requested width
(all operand and result widths: a bit length that does not fit the result gives `Top`). -/
theorem popCount_wf (a : IntervalDomain) (_ha : a.WF) (w' : Nat) (hw' : 1 < w') :
    (a.cast .popCount w').WF ∧ (a.cast .popCount w').w = w' := by
  simp only [IntervalDomain.cast]
  by_cases h : a.interval.start = a.interval.stop
  · rw [countGuard_false a w' (.inl h)]
    simp only [Bool.false_eq_true, if_false]
    have ht : a.tryToBitvec = some a.interval.start := if_pos h
    rw [ht]
    exact ⟨ofInterval_wf (Interval.wf_single w' (by omega) _ (wrap_inRange w' (by omega) _)), rfl⟩
  · have ht : a.tryToBitvec = none := if_neg h
    by_cases hfit : (a.w : Int) ≤ smax w'
    · rw [countGuard_false a w' (.inr hfit)]
      simp only [Bool.false_eq_true, if_false]
      rw [ht]
      have := countRange_spec a.w w' (by omega) hfit
      exact ⟨this.1, this.2.1⟩
    · rw [countGuard_true a w' h hfit]
      simp only [if_true]
      exact ⟨(newTop_dom_spec w' hw').1, (newTop_dom_spec w' hw').2.1⟩

/-- `leading_zeros` is antitone on an interval that does not cross zero, and the branch
`lz start ≥ lz stop` of `cast(LzCount)` is not taken for an interval that crosses zero -/
theorem leadingZeros_between (w : Nat) (hw : 0 < w) {s e x : Int} (hs : InRange w s) (he : InRange w e)
    (h1 : s ≤ x) (h2 : x ≤ e) (hge : leadingZeros w e ≤ leadingZeros w s) :
    leadingZeros w e ≤ leadingZeros w x ∧ leadingZeros w x ≤ leadingZeros w s := by
  have hx : InRange w x := by unfold InRange at *; omega
  by_cases hcross : s < 0 ∧ 0 ≤ e
  · have := leadingZeros_neg w hw hs hcross.1
    have := leadingZeros_nonneg w hw he hcross.2
    omega
  · have hUs := toU_of_inRange w hw hs
    have hUx := toU_of_inRange w hw hx
    have hUe := toU_of_inRange w hw he
    refine ⟨leadingZeros_anti w ?_, leadingZeros_anti w ?_⟩
    · have : (toU w x : Int) ≤ (toU w e : Int) := by
        rw [hUx, hUe]; split <;> split <;> omega
      omega
    · have : (toU w s : Int) ≤ (toU w x : Int) := by
        rw [hUx, hUs]; split <;> split <;> omega
      omega

/-- a well-formed singleton is not `Top` -/
theorem isTop_single_false (a : IntervalDomain) (ha : a.WF) (h : a.interval.start = a.interval.stop) :
    a.isTop = false := by
  have h0 : a.interval.stride = 0 := ha.1.2.2.2.2.1.mpr h
  simp [IntervalDomain.isTop, Interval.isTop, h0]

/-- **C02-lzcount.** Soundness of `cast(LzCount)`: the number of leading zeros of every member of
`a` is a member of the result (all operand and result widths). -/
theorem lzCount_sound (a : IntervalDomain) (ha : a.WF) (w' : Nat) (hw' : 1 < w')
    {x : Int} (hx : a.Mem x) :
    (a.cast .lzCount w').Mem (clzcount a.w w' x) := by
  have hw0 : 0 < w' := by omega
  simp only [IntervalDomain.cast]
  by_cases hfit : (a.w : Int) ≤ smax w'
  · have hcr := (countRange_spec a.w w' (by omega) hfit).2.2 _ (leadingZeros_le a.w x)
    rw [countGuard_false a w' (.inr hfit)]
    simp only [Bool.false_eq_true, if_false]
    split
    · exact hcr
    · split
      · rename_i hge
        obtain ⟨hw, hs, he, _⟩ := ha.1
        have hb := leadingZeros_between a.w hw hs he hx.1 hx.2.1 hge
        have hle := leadingZeros_le a.w a.interval.start
        unfold clzcount
        rw [wrap_nat_of_le hw0 (leadingZeros_le a.w _) hfit, wrap_nat_of_le hw0 (leadingZeros_le a.w _) hfit,
          wrap_nat_of_le hw0 (leadingZeros_le a.w _) hfit]
        refine (new_spec w' hw0 (inRange_nat_of_le (leadingZeros_le a.w _) hfit)
          (inRange_nat_of_le (leadingZeros_le a.w _) hfit) (by omega)).2.2 _ (by omega) (by omega)
      · exact hcr
  · by_cases h : a.interval.start = a.interval.stop
    · -- a constant: the exact count (resized like the reference does)
      rw [countGuard_false a w' (.inl h)]
      simp only [Bool.false_eq_true, if_false]
      rw [isTop_single_false a ha h]
      simp only [Bool.false_eq_true, if_false]
      have hxs : x = a.interval.start := by
        have h1 := hx.1; have h2 := hx.2.1; omega
      subst hxs
      rw [← h, if_pos (Nat.le_refl _)]
      unfold clzcount
      exact (new_spec w' hw0 (wrap_inRange w' hw0 _) (wrap_inRange w' hw0 _) (Int.le_refl _)).2.2 _
        (Int.le_refl _) (Int.le_refl _)
    · rw [countGuard_true a w' h hfit]
      simp only [if_true]
      exact (newTop_dom_spec w' hw').2.2 _ (wrap_inRange w' hw0 _)

/-- **C02-lzcount-wf.** The result of `cast(LzCount)` is well-formed and has the requested width
(all operand and result widths). -/
theorem lzCount_wf (a : IntervalDomain) (ha : a.WF) (w' : Nat) (hw' : 1 < w') :
    (a.cast .lzCount w').WF ∧ (a.cast .lzCount w').w = w' := by
  have hw0 : 0 < w' := by omega
  simp only [IntervalDomain.cast]
  by_cases hfit : (a.w : Int) ≤ smax w'
  · have hcr := countRange_spec a.w w' (by omega) hfit
    rw [countGuard_false a w' (.inr hfit)]
    simp only [Bool.false_eq_true, if_false]
    split
    · exact ⟨hcr.1, hcr.2.1⟩
    · split
      · rename_i hge
        rw [wrap_nat_of_le hw0 (leadingZeros_le a.w _) hfit, wrap_nat_of_le hw0 (leadingZeros_le a.w _) hfit]
        have := new_spec w' hw0 (inRange_nat_of_le (leadingZeros_le a.w a.interval.stop) hfit)
          (inRange_nat_of_le (leadingZeros_le a.w a.interval.start) hfit) (by omega)
        exact ⟨ofInterval_wf this.1, this.2.1⟩
      · exact ⟨hcr.1, hcr.2.1⟩
  · by_cases h : a.interval.start = a.interval.stop
    · rw [countGuard_false a w' (.inl h)]
      simp only [Bool.false_eq_true, if_false]
      rw [isTop_single_false a ha h]
      simp only [Bool.false_eq_true, if_false]
      rw [← h, if_pos (Nat.le_refl _)]
      have := new_spec w' hw0 (wrap_inRange w' hw0 ((leadingZeros a.w a.interval.start : Nat) : Int))
        (wrap_inRange w' hw0 _) (Int.le_refl _)
      exact ⟨ofInterval_wf this.1, this.2.1⟩
    · rw [countGuard_true a w' h hfit]
      simp only [if_true]
      exact ⟨(newTop_dom_spec w' hw').1, (newTop_dom_spec w' hw').2.1⟩

/-- the repaired corner: a non-constant 16-byte operand and a 1-byte result (the bit length 128 is not
an `i8`) give `Top`, a 16-byte constant is still counted exactly (`popcount(-1) = 128 = -128 as i8`) -/
example : let a : IntervalDomain := ⟨{ w := 128, start := 0, stop := 5, stride := 1 }, none, none, 0⟩
    a.cast .popCount 8 = IntervalDomain.newTop 8 ∧ a.cast .lzCount 8 = IntervalDomain.newTop 8 ∧
    (IntervalDomain.single 128 (-1)).cast .popCount 8 = IntervalDomain.single 8 (-128) := by decide +kernel


example : let a : IntervalDomain := ⟨{ w := 8, start := -3, stop := 5, stride := 2 }, none, some (-7), 0⟩
    (a.cast .popCount 8).Mem (cpopcount 8 8 (-1)) ∧ cpopcount 8 8 (-1) = 8 ∧
    (a.cast .lzCount 8).Mem (clzcount 8 8 3) ∧ clzcount 8 8 3 = 6 := by
  intro a
  have ha : a.WF := ⟨by decide, fun u hu => (by cases hu), fun l hl => (by cases hl; decide), by decide⟩
  exact ⟨popCount_sound a ha 8 (by decide) (by decide), by decide,
    lzCount_sound a ha 8 (by decide) (by decide), by decide⟩

end CweModel.C02
