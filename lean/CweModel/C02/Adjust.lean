/-
C02 — `adjust_to_stride_and_remainder` (used by `zero_extend`, `piece` and, in C04, `signed_intersect`):
the result contains exactly the members of the input range that lie in the given residue class.
-/
import CweModel.C02.Arith

namespace CweModel.C02
open CweModel.Itv

/-- the idiom `((a % n) + n) % n` with Rust's truncated `%` is the non-negative remainder -/
theorem trem_fix (a n : Int) (hn : 0 < n) : trem (trem a n + n) n = a % n := by
  unfold trem
  have h1 := Int.lt_tmod_of_pos a hn
  have h2 := Int.tmod_lt_of_pos a hn
  rw [Int.tmod_eq_emod_of_nonneg (by omega)]
  have hq : a.tmod n = a - n * a.tdiv n := Int.tmod_def a n
  rw [hq]
  have : a - n * a.tdiv n + n = a + n * (1 - a.tdiv n) := by
    rw [Int.mul_sub, Int.mul_one]; omega
  rw [this, Int.add_mul_emod_self_left]

theorem emod_le_of_nonneg (a n : Int) (ha : 0 ≤ a) (hn : 0 < n) : a % n ≤ a := by
  have := Int.emod_emod_of_dvd a (Int.dvd_refl n)
  have h1 : a % n = a - n * (a / n) := by have := Int.mul_ediv_add_emod a n; omega
  have h2 : 0 ≤ a / n := Int.ediv_nonneg ha (by omega)
  have h3 : 0 ≤ n * (a / n) := Int.mul_nonneg (by omega) h2
  omega

/-- if `x ≥ s` and `x ≡ r (mod n)` then `x` is at least the first value of the class above `s` -/
theorem first_in_class_le (s x r n : Int) (hn : 0 < n) (hx : s ≤ x) (hc : n ∣ x - r) :
    s + (r - s) % n ≤ x := by
  have h : (r - s) % n = (x - s) % n := by
    apply Int.emod_eq_emod_iff_emod_sub_eq_zero.mpr
    have : r - s - (x - s) = -(x - r) := by omega
    rw [this]
    exact Int.emod_eq_zero_of_dvd (Int.dvd_neg.mpr hc)
  rw [h]
  have := emod_le_of_nonneg (x - s) n (by omega) hn
  omega

theorem last_in_class_ge (e x r n : Int) (hn : 0 < n) (hx : x ≤ e) (hc : n ∣ x - r) :
    x ≤ e - (e - r) % n := by
  have h : (e - r) % n = (e - x) % n := by
    apply Int.emod_eq_emod_iff_emod_sub_eq_zero.mpr
    have : e - r - (e - x) = x - r := by omega
    rw [this]
    exact Int.emod_eq_zero_of_dvd hc
  rw [h]
  have := emod_le_of_nonneg (e - x) n (by omega) hn
  omega

theorem dvd_first_in_class (s r n : Int) : n ∣ s + (r - s) % n - r := by
  have h : (r - s) % n = (r - s) - n * ((r - s) / n) := by
    have := Int.mul_ediv_add_emod (r - s) n; omega
  rw [h]
  have : s + (r - s - n * ((r - s) / n)) - r = n * (-((r - s) / n)) := by
    rw [Int.mul_neg]; omega
  rw [this]; exact Int.dvd_mul_right _ _

theorem dvd_last_in_class (e r n : Int) : n ∣ e - (e - r) % n - r := by
  have h : (e - r) % n = (e - r) - n * ((e - r) / n) := by
    have := Int.mul_ediv_add_emod (e - r) n; omega
  rw [h]
  have : e - (e - r - n * ((e - r) / n)) - r = n * ((e - r) / n) := by omega
  rw [this]; exact Int.dvd_mul_right _ _

theorem inRange_le_i64 (w : Nat) (hw : 0 < w) (hw64 : w ≤ 64) {x : Int} (hx : InRange w x) :
    -(2 ^ 63) ≤ x ∧ x ≤ 2 ^ 63 - 1 := by
  have h := pow2_le_pow2 (show w - 1 ≤ 63 by omega)
  have : pow2 63 = 2 ^ 63 := by unfold pow2; rfl
  unfold InRange smin smax at hx
  omega

/-- **adjust (soundness + well-formedness).** For an interval of at most 64 bit, a positive stride and
a member candidate `x` of the range `[start, stop]` in the residue class `rem`: the call succeeds, the
result is well-formed and contains `x`. -/
theorem adjust_spec (I : Interval) (stride rem : Nat) (hw0 : 0 < I.w) (hw : I.w ≤ 64)
    (hs : InRange I.w I.start) (he : InRange I.w I.stop) (hst : 0 < stride) (hst64 : stride < 2 ^ 64)
    {x : Int} (hx1 : I.start ≤ x) (hx2 : x ≤ I.stop) (hx3 : (stride : Int) ∣ x - rem) :
    ∃ r, I.adjustToStrideAndRemainder stride rem = some r ∧ r.WF ∧ r.w = I.w ∧ r.Mem x ∧
      I.start ≤ r.start ∧ r.stop ≤ I.stop := by
  have hn : (0 : Int) < (stride : Int) := by omega
  have hlo := first_in_class_le I.start x rem stride hn hx1 hx3
  have hhi := last_in_class_ge I.stop x rem stride hn hx2 hx3
  have hm1 : 0 ≤ ((rem : Int) - I.start) % (stride : Int) := Int.emod_nonneg _ (by omega)
  have hm2 : 0 ≤ (I.stop - (rem : Int)) % (stride : Int) := Int.emod_nonneg _ (by omega)
  have hd1 := dvd_first_in_class I.start rem stride
  have hd2 := dvd_last_in_class I.stop rem stride
  have hi1 := inRange_le_i64 I.w hw0 hw hs
  have hi2 := inRange_le_i64 I.w hw0 hw he
  unfold Interval.adjustToStrideAndRemainder
  rw [if_neg (by omega)]
  simp only [trem_fix _ _ hn]
  generalize hS : I.start + ((rem : Int) - I.start) % (stride : Int) = S at *
  generalize hE : I.stop - (I.stop - (rem : Int)) % (stride : Int) = E at *
  have hSr : InRange I.w S := by unfold InRange at *; omega
  have hEr : InRange I.w E := by unfold InRange at *; omega
  rw [if_neg (by omega)]
  rw [wrap_of_inRange I.w hw0 hSr, wrap_of_inRange I.w hw0 hEr]
  have hdSE : (stride : Int) ∣ E - S := by
    have : E - S = (E - rem) - (S - rem) := by omega
    rw [this]; exact Int.dvd_sub hd2 hd1
  have hdx : (stride : Int) ∣ x - S := by
    have : x - S = (x - rem) - (S - rem) := by omega
    rw [this]; exact Int.dvd_sub hx3 hd1
  refine ⟨_, rfl, ⟨hw0, hSr, hEr, by show S ≤ E; omega, ?_, ?_, ?_⟩, rfl, ⟨by show S ≤ x; omega, by show x ≤ E; omega, ?_⟩,
    by show I.start ≤ S; omega, by show E ≤ I.stop; omega⟩
  · show (if S = E then 0 else stride) = 0 ↔ S = E
    by_cases h : S = E <;> simp [h]; omega
  · show (((if S = E then 0 else stride : Nat)) : Int) ∣ E - S
    by_cases h : S = E
    · simp [h]
    · simp only [h, if_false]; exact hdSE
  · show (if S = E then 0 else stride) < 2 ^ 64
    by_cases h : S = E <;> simp [h]; omega
  · show (((if S = E then 0 else stride : Nat)) : Int) ∣ x - S
    by_cases h : S = E
    · have : x = S := by omega
      simp [h, this]
    · simp only [h, if_false]; exact hdx

end CweModel.C02
