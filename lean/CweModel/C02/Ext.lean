/-
C02 — `sign_extend` and `zero_extend`.
-/
import CweModel.C02.Adjust

namespace CweModel.C02
open CweModel.Itv

theorem inRange_mono {w w' : Nat} (h : w ≤ w') {x : Int} (hx : InRange w x) : InRange w' x := by
  have := pow2_le_pow2 (show w - 1 ≤ w' - 1 by omega)
  unfold InRange smin smax at *; omega

/-! ### `sign_extend` -/

/-- the interval part of `IntervalDomain::sign_extend` -/
def signExtendI (I : Interval) (w' : Nat) : Interval :=
  { w := w', start := csext I.w w' I.start, stop := csext I.w w' I.stop, stride := I.stride }

theorem csext_eq {w w' : Nat} (hw0 : 0 < w) (h : w ≤ w') {x : Int} (hx : InRange w x) : csext w w' x = x :=
  wrap_of_inRange w' (by omega) (inRange_mono h hx)

/-- **C02-sext (soundness).** -/
theorem signExtend_sound (I : Interval) (hI : I.WF) (w' : Nat) (h : I.w ≤ w') {x : Int} (hx : I.Mem x) :
    (signExtendI I w').Mem (csext I.w w' x) := by
  have hxr := Interval.mem_inRange hI hx
  obtain ⟨hw0, hIs, hIe, _, _, _, _⟩ := hI
  unfold signExtendI Interval.Mem
  simp only [csext_eq hw0 h hxr, csext_eq hw0 h hIs, csext_eq hw0 h hIe]
  exact hx

/-- **C02-sext (well-formedness).** -/
theorem signExtend_wf (I : Interval) (hI : I.WF) (w' : Nat) (h : I.w ≤ w') :
    (signExtendI I w').WF ∧ (signExtendI I w').w = w' := by
  obtain ⟨hw0, hIs, hIe, h4, h5, h6, h7⟩ := hI
  unfold signExtendI Interval.WF
  simp only [csext_eq hw0 h hIs, csext_eq hw0 h hIe]
  exact ⟨⟨by omega, inRange_mono h hIs, inRange_mono h hIe, h4, h5, h6, h7⟩, trivial⟩

/-! ### `trailing_zeros` -/

theorem tz_go_spec (fuel n acc : Nat) :
    acc ≤ trailingZeros64.go fuel n acc ∧ 2 ^ (trailingZeros64.go fuel n acc - acc) ∣ n := by
  induction fuel generalizing n acc with
  | zero => simp [trailingZeros64.go]
  | succ f ih =>
    unfold trailingZeros64.go
    split
    · simp
    · rename_i hodd
      obtain ⟨h1, h2⟩ := ih (n / 2) (acc + 1)
      refine ⟨by omega, ?_⟩
      have he : trailingZeros64.go f (n / 2) (acc + 1) - acc
          = (trailingZeros64.go f (n / 2) (acc + 1) - (acc + 1)) + 1 := by omega
      rw [he, Nat.pow_succ]
      have h3 := Nat.mul_dvd_mul h2 (Nat.dvd_refl 2)
      have hn : n / 2 * 2 = n := by omega
      rwa [hn] at h3

/-- `2 ^ trailing_zeros(n)` divides `n` -/
theorem pow_tz_dvd (n : Nat) (hn : n ≠ 0) : 2 ^ trailingZeros64 n ∣ n := by
  unfold trailingZeros64
  rw [if_neg hn]
  have := (tz_go_spec 64 n 0).2
  simpa using this

theorem pow_tz_le (n : Nat) (hn : n ≠ 0) : 2 ^ trailingZeros64 n ≤ n :=
  Nat.le_of_dvd (by omega) (pow_tz_dvd n hn)

/-- powers of two divide larger powers of two (as integers) -/
theorem pow2_dvd_pow2 {a b : Nat} (h : a ≤ b) : pow2 a ∣ pow2 b := by
  obtain ⟨c, rfl⟩ : ∃ c, b = a + c := ⟨b - a, by omega⟩
  rw [pow2_add]; exact Int.dvd_mul_right _ _

theorem pow2_nat (a : Nat) : ((2 ^ a : Nat) : Int) = pow2 a := rfl

/-- a power of two below `2^w` divides `2^w` -/
theorem pow2_dvd_of_lt {t w : Nat} (h : pow2 t < pow2 w) : pow2 t ∣ pow2 w := by
  apply pow2_dvd_pow2
  by_cases hle : t ≤ w
  · exact hle
  · have := pow2_le_pow2 (show w ≤ t by omega); omega

/-! ### `zero_extend` -/

theorem toU_congr (w : Nat) (x : Int) : pow2 w ∣ (toU w x : Int) - x := by
  unfold toU
  have hP := pow2_pos w
  rw [Int.toNat_of_nonneg (Int.emod_nonneg _ (by omega))]
  have h : x % pow2 w = x - pow2 w * (x / pow2 w) := by
    have := Int.mul_ediv_add_emod x (pow2 w); omega
  rw [h]
  have : x - pow2 w * (x / pow2 w) - x = pow2 w * (-(x / pow2 w)) := by rw [Int.mul_neg]; omega
  rw [this]; exact Int.dvd_mul_right _ _

theorem toU_nonneg (w : Nat) (x : Int) : (0 : Int) ≤ (toU w x : Int) := by omega

theorem czext_eq {w w' : Nat} (h : w < w') (x : Int) : czext w w' x = (toU w x : Int) := by
  unfold czext
  apply wrap_of_inRange w' (by omega)
  have h1 := toU_lt w x
  have h2 := pow2_le_pow2 (show w ≤ w' - 1 by omega)
  unfold InRange smin smax; omega

theorem czext_self {w : Nat} (hw : 0 < w) {x : Int} (hx : InRange w x) : czext w w x = x := by
  unfold czext
  obtain ⟨k, hk⟩ := toU_congr w x
  exact wrap_eq w hw k hx (by rw [Int.mul_comm]; omega)

/-- soundness and well-formedness of `zero_extend` in one statement (given some member `x`) -/
theorem zeroExtend_spec (I : Interval) (hI : I.WF) (w' : Nat) (h : I.w ≤ w') {x : Int} (hx : I.Mem x) :
    (I.zeroExtend w').Mem (czext I.w w' x) ∧ (I.zeroExtend w').WF ∧ (I.zeroExtend w').w = w' := by
  have hxr := Interval.mem_inRange hI hx
  have hIwf := hI
  obtain ⟨hw0, hIs, hIe, hle, h0, hd, hu⟩ := hI
  obtain ⟨hx1, hx2, hx3⟩ := hx
  have hP := pow2_pos I.w
  have h2 := pow2_eq I.w hw0
  unfold Interval.zeroExtend
  split
  · rename_i heq
    subst heq
    rw [czext_self hw0 hxr]; exact ⟨⟨hx1, hx2, hx3⟩, hIwf, rfl⟩
  · rename_i hne
    have hlt : I.w < w' := by omega
    rw [czext_eq hlt x]
    have hUx := toU_of_inRange I.w hw0 hxr
    have hUs := toU_of_inRange I.w hw0 hIs
    have hUe := toU_of_inRange I.w hw0 hIe
    split
    · -- both bounds have the same sign
      rename_i hsign
      have hb := pow2_le_pow2 (show I.w ≤ w' - 1 by omega)
      show (czext I.w w' I.start ≤ (toU I.w x : Int) ∧ (toU I.w x : Int) ≤ czext I.w w' I.stop ∧
        (I.stride : Int) ∣ (toU I.w x : Int) - czext I.w w' I.start) ∧
        (0 < w' ∧ InRange w' (czext I.w w' I.start) ∧ InRange w' (czext I.w w' I.stop) ∧
          czext I.w w' I.start ≤ czext I.w w' I.stop ∧ (I.stride = 0 ↔ czext I.w w' I.start = czext I.w w' I.stop) ∧
          (I.stride : Int) ∣ czext I.w w' I.stop - czext I.w w' I.start ∧ I.stride < 2 ^ 64) ∧ w' = w'
      rw [czext_eq hlt I.start, czext_eq hlt I.stop, hUx, hUs, hUe]
      by_cases hneg : I.stop < 0
      · have hsn : I.start < 0 := by omega
        have hxn : x < 0 := by omega
        rw [if_pos hxn, if_pos hsn, if_pos hneg]
        have e1 : x + pow2 I.w - (I.start + pow2 I.w) = x - I.start := by omega
        have e2 : I.stop + pow2 I.w - (I.start + pow2 I.w) = I.stop - I.start := by omega
        rw [e1, e2]
        unfold InRange smin smax at *
        refine ⟨⟨by omega, by omega, hx3⟩, ⟨by omega, ⟨by omega, by omega⟩, ⟨by omega, by omega⟩, by omega, ?_, hd, hu⟩, rfl⟩
        rw [h0]; constructor <;> intro h' <;> omega
      · have hs0 : ¬ I.start < 0 := by
          intro hs; simp [hs, hneg] at hsign
        have hxn : ¬ x < 0 := by omega
        rw [if_neg hxn, if_neg hs0, if_neg hneg]
        unfold InRange smin smax at *
        exact ⟨⟨hx1, hx2, hx3⟩, ⟨by omega, ⟨by omega, by omega⟩, ⟨by omega, by omega⟩, hle, h0, hd, hu⟩, rfl⟩
    · -- the interval contains -1 and 0
      rename_i hsign
      have hsneg : I.start < 0 := by
        by_cases hs : I.start < 0
        · exact hs
        · have : ¬ I.stop < 0 := by omega
          simp [hs, this] at hsign
      have hepos : ¬ I.stop < 0 := by
        intro he; simp [hsneg, he] at hsign
      have hst0 : I.stride ≠ 0 := by
        intro hz; have := h0.mp hz; omega
      have hux0 := toU_nonneg I.w x
      have hux1 := toU_lt I.w x
      have humax : wrap w' (((2 ^ I.w : Nat) : Int) - 1) = pow2 I.w - 1 := by
        apply wrap_of_inRange w' (by omega)
        have := pow2_le_pow2 (show I.w ≤ w' - 1 by omega)
        unfold InRange smin smax; rw [pow2_nat]; omega
      by_cases hw64 : w' ≤ 64
      · -- the bounds are adjusted to the residue class of `start` modulo `2^tz`
        have hw128 : I.w < 128 := by omega
        have htry : tryToI128 I.w I.start = some I.start := by
          unfold tryToI128
          have : toU I.w I.start < 2 ^ 128 := by
            have h1 := toU_lt I.w I.start
            have h3 := pow2_lt_pow2 hw128
            have : pow2 128 = ((2 ^ 128 : Nat) : Int) := rfl
            omega
          simp only [this, if_true, hw128, wrap_of_inRange I.w hw0 hIs]
        rw [htry]
        simp only
        -- facts about the new stride
        have htzd := pow_tz_dvd I.stride hst0
        have htzle := pow_tz_le I.stride hst0
        generalize htz : trailingZeros64 I.stride = tz at *
        have hT0 : 0 < pow2 tz := pow2_pos tz
        have hTle : pow2 tz ≤ (I.stride : Int) := by
          rw [← pow2_nat]; exact Int.ofNat_le.mpr htzle
        have hstle : (I.stride : Int) ≤ I.stop - I.start := by
          have hpos : 0 < I.stop - I.start := by omega
          exact Int.le_of_dvd hpos hd
        have hTlt : pow2 tz < pow2 I.w := by unfold InRange smin smax at *; omega
        have hTu : toU 64 ((2 ^ tz : Nat) : Int) = 2 ^ tz := by
          have hin : InRange 65 (((2 ^ tz : Nat) : Int)) := by
            have : pow2 (65 - 1) = 2 ^ 64 := by unfold pow2; rfl
            have hu' : ((I.stride : Nat) : Int) < 2 ^ 64 := by exact_mod_cast hu
            unfold InRange smin smax; rw [pow2_nat]; omega
          have h64 : (toU 64 ((2 ^ tz : Nat) : Int) : Int) = ((2 ^ tz : Nat) : Int) := by
            unfold toU
            rw [Int.toNat_of_nonneg (Int.emod_nonneg _ (by have := pow2_pos 64; omega))]
            apply Int.emod_eq_of_lt (by rw [pow2_nat]; omega)
            have hu' : ((I.stride : Nat) : Int) < 2 ^ 64 := by exact_mod_cast hu
            have : pow2 64 = 2 ^ 64 := by unfold pow2; rfl
            rw [pow2_nat]; omega
          exact_mod_cast h64
        rw [hTu]
        have hrem := trem_fix I.start (((2 ^ tz : Nat) : Int)) (by rw [pow2_nat]; exact hT0)
        rw [hrem]
        -- remainder as a u64
        have hr0 : 0 ≤ I.start % ((2 ^ tz : Nat) : Int) := Int.emod_nonneg _ (by rw [pow2_nat]; omega)
        have hr1 : I.start % ((2 ^ tz : Nat) : Int) < ((2 ^ tz : Nat) : Int) :=
          Int.emod_lt_of_pos _ (by rw [pow2_nat]; exact hT0)
        have hRu : (toU 64 (I.start % ((2 ^ tz : Nat) : Int)) : Int) = I.start % ((2 ^ tz : Nat) : Int) := by
          unfold toU
          rw [Int.toNat_of_nonneg (Int.emod_nonneg _ (by have := pow2_pos 64; omega))]
          apply Int.emod_eq_of_lt hr0
          have hu' : ((I.stride : Nat) : Int) < 2 ^ 64 := by exact_mod_cast hu
          have : pow2 64 = 2 ^ 64 := by unfold pow2; rfl
          rw [pow2_nat] at hr1; omega
        -- the zero-extended member lies in the residue class
        have hcls : (((2 ^ tz : Nat) : Nat) : Int) ∣ (toU I.w x : Int) - (toU 64 (I.start % ((2 ^ tz : Nat) : Int)) : Int) := by
          rw [hRu, pow2_nat]
          have e1 : pow2 tz ∣ (toU I.w x : Int) - x := Int.dvd_trans (pow2_dvd_of_lt hTlt) (toU_congr I.w x)
          have e2 : pow2 tz ∣ x - I.start :=
            Int.dvd_trans (by rw [← pow2_nat]; exact Int.natCast_dvd_natCast.mpr htzd) hx3
          have e3 : pow2 tz ∣ I.start - I.start % pow2 tz := by
            have := Int.mul_ediv_add_emod I.start (pow2 tz)
            have h' : I.start - I.start % pow2 tz = pow2 tz * (I.start / pow2 tz) := by omega
            rw [h']; exact Int.dvd_mul_right _ _
          have : (toU I.w x : Int) - I.start % pow2 tz
              = ((toU I.w x : Int) - x) + (x - I.start) + (I.start - I.start % pow2 tz) := by omega
          rw [this]; exact Int.dvd_add (Int.dvd_add e1 e2) e3
        have hJs : InRange w' (0 : Int) := by
          have := pow2_pos (w' - 1); unfold InRange smin smax; omega
        have hJe : InRange w' (pow2 I.w - 1) := by
          have := pow2_le_pow2 (show I.w ≤ w' - 1 by omega)
          unfold InRange smin smax; omega
        obtain ⟨r, hr, hrwf, hrw, hmem, _, _⟩ := adjust_spec
          { w := w', start := 0, stop := wrap w' (((2 ^ I.w : Nat) : Int) - 1), stride := 2 ^ tz }
          (2 ^ tz) (toU 64 (I.start % ((2 ^ tz : Nat) : Int))) (by show 0 < w'; omega) hw64
          hJs (by show InRange w' (wrap w' _); rw [humax]; exact hJe) (Nat.two_pow_pos tz)
          (by have hu' := hu; omega)
          (x := (toU I.w x : Int)) hux0 (by show (toU I.w x : Int) ≤ wrap w' _; rw [humax]; omega) hcls
        rw [hr]; simp only [Option.getD_some]; exact ⟨hmem, hrwf, hrw⟩
      · -- more than 64 bit: the stride is unknown
        have hJ : ∀ st rm : Nat, (Interval.adjustToStrideAndRemainder
            { w := w', start := 0, stop := wrap w' (((2 ^ I.w : Nat) : Int) - 1), stride := st } st rm).getD
            { w := w', start := 0, stop := wrap w' (((2 ^ I.w : Nat) : Int) - 1), stride := st }
            = { w := w', start := 0, stop := wrap w' (((2 ^ I.w : Nat) : Int) - 1), stride := 1 } := by
          intro st rm
          unfold Interval.adjustToStrideAndRemainder
          rw [if_pos (by show w' > 64; omega)]
          simp only [Option.getD_some, Interval.setStrideToUnknown]
          rw [humax]
          have : ¬ (0 : Int) = pow2 I.w - 1 := by omega
          simp [this]
        have hgoal : ({ w := w', start := 0, stop := wrap w' (((2 ^ I.w : Nat) : Int) - 1), stride := 1 } : Interval).Mem (toU I.w x : Int)
            ∧ ({ w := w', start := 0, stop := wrap w' (((2 ^ I.w : Nat) : Int) - 1), stride := 1 } : Interval).WF
            ∧ w' = w' := by
          have hb := pow2_le_pow2 (show I.w ≤ w' - 1 by omega)
          have hb2 := pow2_pos (w' - 1)
          refine ⟨⟨hux0, by show (toU I.w x : Int) ≤ wrap w' _; rw [humax]; omega, ?_⟩, ?_, rfl⟩
          · show ((1 : Nat) : Int) ∣ _
            simp [Int.one_dvd]
          · unfold Interval.WF
            simp only [humax]
            unfold InRange smin smax
            refine ⟨by omega, ⟨by omega, by omega⟩, ⟨by omega, by omega⟩, by omega, ?_, by simp [Int.one_dvd], by decide⟩
            constructor <;> intro h' <;> omega
        split
        · simp only []
          rw [hJ]; exact hgoal
        · exact hgoal

/-- **C02-zext (soundness).** -/
theorem zeroExtend_sound (I : Interval) (hI : I.WF) (w' : Nat) (h : I.w ≤ w') {x : Int} (hx : I.Mem x) :
    (I.zeroExtend w').Mem (czext I.w w' x) := (zeroExtend_spec I hI w' h hx).1

/-- **C02-zext (well-formedness).** -/
theorem zeroExtend_wf (I : Interval) (hI : I.WF) (w' : Nat) (h : I.w ≤ w') :
    (I.zeroExtend w').WF ∧ (I.zeroExtend w').w = w' :=
  (zeroExtend_spec I hI w' h (Interval.start_mem I hI.2.2.2.1)).2

end CweModel.C02
