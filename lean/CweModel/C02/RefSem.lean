/-
C02 — the P-Code reference semantics `CweModel.Ref` (Base/Bv.lean) in the vocabulary of the interval
model: operation names of `C02/Model.lean` mapped to the IR library's, and the reference evaluation of a
binary operation on signed values (`refConc`), the instance of the parameter `conc` of
`IntervalDomain.binOp` that `C02/RefTie.lean` proves sound. Shared by the proofs and the driver (the
driver executes exactly the function the theorems speak about). Core-only.
-/
import CweModel.C02.Model
import CweModel.Base.Bv

namespace CweModel.C02
open CweModel CweModel.Itv

/-! ### the operation names of the model and of the IR library -/

def toIRBin : BinOp → IR.BinOpType
  | .piece => .Piece | .intEqual => .IntEqual | .intNotEqual => .IntNotEqual | .intLess => .IntLess
  | .intSLess => .IntSLess | .intLessEqual => .IntLessEqual | .intSLessEqual => .IntSLessEqual
  | .intAdd => .IntAdd | .intSub => .IntSub | .intCarry => .IntCarry | .intSCarry => .IntSCarry
  | .intSBorrow => .IntSBorrow | .intXOr => .IntXOr | .intAnd => .IntAnd | .intOr => .IntOr
  | .intLeft => .IntLeft | .intRight => .IntRight | .intSRight => .IntSRight | .intMult => .IntMult
  | .intDiv => .IntDiv | .intRem => .IntRem | .intSDiv => .IntSDiv | .intSRem => .IntSRem
  | .boolXOr => .BoolXOr | .boolAnd => .BoolAnd | .boolOr => .BoolOr
  | .floatEqual => .FloatEqual | .floatNotEqual => .FloatNotEqual | .floatLess => .FloatLess
  | .floatLessEqual => .FloatLessEqual | .floatAdd => .FloatAdd | .floatSub => .FloatSub
  | .floatMult => .FloatMult | .floatDiv => .FloatDiv

def toIRUn : UnOp → IR.UnOpType
  | .intNegate => .IntNegate | .int2Comp => .Int2Comp | .boolNegate => .BoolNegate
  | .floatNegate => .FloatNegate | .floatAbs => .FloatAbs | .floatSqrt => .FloatSqrt
  | .floatCeil => .FloatCeil | .floatFloor => .FloatFloor | .floatRound => .FloatRound
  | .floatNaN => .FloatNaN

def toIRCast : CastOp → IR.CastOpType
  | .intZExt => .IntZExt | .intSExt => .IntSExt | .int2Float => .Int2Float
  | .float2Float => .Float2Float | .trunc => .Trunc | .popCount => .PopCount | .lzCount => .LzCount

/-- the signed value of a defined result -/
def resInt : Res → Option Int
  | .val r => some r.toInt
  | _ => none

/-- the reference semantics as the parameter `conc` of `IntervalDomain.binOp`: operands are given by
their signed values and widths, `none` = no value (`Err`, or an operand size outside the domain) -/
def refConc (wa wb : Nat) (op : BinOp) (x y : Int) : Option Int :=
  resInt (Ref.binOp (toIRBin op) ⟨wa, BitVec.ofInt wa x⟩ ⟨wb, BitVec.ofInt wb y⟩)

/-- `Ref.unOp` / `Ref.cast` / `Ref.subpieceOp` on a signed value (sizes of the cast target and of the
subpiece in bytes, as in the IR) -/
def refUn (w : Nat) (op : UnOp) (x : Int) : Option Int :=
  resInt (Ref.unOp (toIRUn op) ⟨w, BitVec.ofInt w x⟩)

def refCast (w : Nat) (op : CastOp) (bytes : Nat) (x : Int) : Option Int :=
  resInt (Ref.cast (toIRCast op) bytes ⟨w, BitVec.ofInt w x⟩)

def refSubpiece (w lowByte size : Nat) (x : Int) : Option Int :=
  resInt (Ref.subpieceOp lowByte size ⟨w, BitVec.ofInt w x⟩)

end CweModel.C02
