/-
C02 — `signed_mult_with_overflow_flag`, `signed_mul`, `shift_left`.
-/
import CweModel.C02.Piece

namespace CweModel.C02
open CweModel.Itv

/-! ### the overflow flag of the multiplication (bitvector.rs, repaired D9) -/

theorem eq_zero_of_dvd_of_lt {P t : Int} (hP : 0 < P) (h : P ∣ t) (h1 : -P < t) (h2 : t < P) : t = 0 := by
  obtain ⟨c, hc⟩ := h
  rcases Int.lt_trichotomy c 0 with hneg | hz | hpos
  · have : P * c ≤ P * (-1) := Int.mul_le_mul_of_nonneg_left (by omega) (by omega)
    omega
  · subst hz; omega
  · have : P * 1 ≤ P * c := Int.mul_le_mul_of_nonneg_left (by omega) (by omega)
    omega

theorem tmod_abs_lt (r x : Int) (hx : x ≠ 0) : (r.tmod x).natAbs < x.natAbs := by
  rcases Int.lt_trichotomy x 0 with hneg | hz | hpos
  · have e : r.tmod x = r.tmod (-x) := by
      have := Int.tmod_neg r (-x); rw [Int.neg_neg] at this; exact this
    have h1 := Int.lt_tmod_of_pos r (show 0 < -x by omega)
    have h2 := Int.tmod_lt_of_pos r (show 0 < -x by omega)
    rw [e]; omega
  · exact absurd hz hx
  · have h1 := Int.lt_tmod_of_pos r hpos
    have h2 := Int.tmod_lt_of_pos r hpos
    omega

/-- if `r = x * q` with `x ≠ 0` then `|q| ≤ |r|` -/
theorem natAbs_le_of_mul {r x q : Int} (h : r = x * q) (hx : x ≠ 0) : q.natAbs ≤ r.natAbs := by
  rw [h, Int.natAbs_mul]
  have : 1 ≤ x.natAbs := by omega
  exact Nat.le_mul_of_pos_left _ this

/-- **no overflow flag ⇒ exact product.** If `signed_mult_with_overflow_flag` reports no overflow, the
returned value is the mathematical product and it is representable. -/
theorem smof_exact (w : Nat) (hw : 0 < w) {x y : Int} (hx : InRange w x) (hy : InRange w y)
    (h : (signedMultWithOverflowFlag w x y).2 = false) :
    (signedMultWithOverflowFlag w x y).1 = x * y ∧ InRange w (x * y) := by
  have hM := pow2_pos (w - 1)
  have hP2 := pow2_eq w hw
  unfold signedMultWithOverflowFlag at h ⊢
  by_cases hx0 : x = 0
  · subst hx0
    simp only [if_true, Int.zero_mul]
    exact ⟨trivial, by unfold InRange smin smax; omega⟩
  · rw [if_neg hx0] at h ⊢
    simp only at h ⊢
    split at h
    · simp at h
    · rename_i hnf
      rw [if_neg hnf]
      simp only
      have hnf1 : ¬ (x = -1 ∧ y = smin w) := fun hh => hnf (Or.inl hh)
      have hq : wrap w (Int.tdiv (wrap w (x * y)) x) = y := by
        by_cases hh : wrap w (Int.tdiv (wrap w (x * y)) x) = y
        · exact hh
        · exact absurd (Or.inr hh) hnf
      obtain ⟨hr, k, hk⟩ := wrap_spec w hw (x * y)
      generalize hrdef : wrap w (x * y) = r at *
      obtain ⟨_, j, hj⟩ := wrap_spec w hw (Int.tdiv r x)
      have hdm := Int.mul_tdiv_add_tmod r x
      generalize hqd : Int.tdiv r x = q at *
      generalize htd : Int.tmod r x = t at *
      have htabs : t.natAbs < x.natAbs := by rw [← htd]; exact tmod_abs_lt r x hx0
      -- t is a multiple of 2^w
      have hdvd : pow2 w ∣ t := by
        refine ⟨k + x * j, ?_⟩
        have e1 : q = y - j * pow2 w := by omega
        have e2 : t = r - x * q := by omega
        rw [e2, hk, e1, Int.mul_sub, Int.mul_add, ← Int.mul_assoc x j (pow2 w), Int.mul_comm (pow2 w) k,
          Int.mul_comm (pow2 w) (x * j)]
        omega
      have ht0 : t = 0 := by
        apply eq_zero_of_dvd_of_lt (pow2_pos w) hdvd
        · unfold InRange smin smax at hx; omega
        · unfold InRange smin smax at hx; omega
      subst ht0
      have hrq : r = x * q := by omega
      have hqabs := natAbs_le_of_mul hrq hx0
      -- q is in range, unless q = 2^(w-1), which is the excluded case -1 * MIN
      have hqr : InRange w q := by
        unfold InRange smin smax at hr ⊢
        constructor
        · omega
        · by_cases hqM : q = pow2 (w - 1)
          · exfalso
            -- then |r| = 2^(w-1), r = -2^(w-1), x = -1, y = MIN
            have hrM : r = -pow2 (w - 1) := by omega
            have hxm1 : x = -1 := by
              have e : x * pow2 (w - 1) = -1 * pow2 (w - 1) := by rw [← hqM, ← hrq, hrM]; omega
              exact Int.eq_of_mul_eq_mul_right (by omega) e
            apply hnf1
            refine ⟨hxm1, ?_⟩
            -- y = wrap q = wrap 2^(w-1) = -2^(w-1)
            rw [← hq, hqM]
            exact wrap_eq w hw 1 (by unfold InRange smin smax; omega) (by unfold smin; omega)
          · omega
      have hqy : q = y := by rw [← hq]; exact (wrap_of_inRange w hw hqr).symm
      subst hqy
      exact ⟨hrq, by rw [← hrq]; exact hr⟩

/-! ### products of members lie between the corner products -/

theorem mul_between {a b x : Int} (y : Int) (h1 : a ≤ x) (h2 : x ≤ b) :
    (a * y ≤ x * y ∧ x * y ≤ b * y) ∨ (b * y ≤ x * y ∧ x * y ≤ a * y) := by
  rcases Int.le_total 0 y with hy | hy
  · exact .inl ⟨Int.mul_le_mul_of_nonneg_right h1 hy, Int.mul_le_mul_of_nonneg_right h2 hy⟩
  · exact .inr ⟨Int.mul_le_mul_of_nonpos_right h2 hy, Int.mul_le_mul_of_nonpos_right h1 hy⟩

theorem corners {a b c d x y : Int} (hx1 : a ≤ x) (hx2 : x ≤ b) (hy1 : c ≤ y) (hy2 : y ≤ d) :
    Interval.smin2 (a * c) (Interval.smin2 (a * d) (Interval.smin2 (b * c) (b * d))) ≤ x * y ∧
    x * y ≤ Interval.smax2 (a * c) (Interval.smax2 (a * d) (Interval.smax2 (b * c) (b * d))) := by
  have h1 := mul_between y hx1 hx2
  have h2 := mul_between a hy1 hy2
  have h3 := mul_between b hy1 hy2
  rw [Int.mul_comm c a, Int.mul_comm y a, Int.mul_comm d a] at h2
  rw [Int.mul_comm c b, Int.mul_comm y b, Int.mul_comm d b] at h3
  unfold Interval.smin2 Interval.smax2
  generalize a * c = p1 at *
  generalize a * d = p2 at *
  generalize b * c = p3 at *
  generalize b * d = p4 at *
  generalize a * y = q1 at *
  generalize b * y = q2 at *
  generalize x * y = z at *
  repeat' split
  all_goals omega

theorem smin2_cases (p1 p2 p3 p4 : Int) :
    let m := Interval.smin2 p1 (Interval.smin2 p2 (Interval.smin2 p3 p4))
    m = p1 ∨ m = p2 ∨ m = p3 ∨ m = p4 := by
  unfold Interval.smin2
  repeat' split
  all_goals simp

theorem smax2_cases (p1 p2 p3 p4 : Int) :
    let m := Interval.smax2 p1 (Interval.smax2 p2 (Interval.smax2 p3 p4))
    m = p1 ∨ m = p2 ∨ m = p3 ∨ m = p4 := by
  unfold Interval.smax2
  repeat' split
  all_goals simp

/-- every product of members is congruent to the product of the starts modulo a common divisor of the
distances -/
theorem mul_congr {g a c x y : Int} (hx : g ∣ x - a) (hy : g ∣ y - c) : g ∣ x * y - a * c := by
  have : x * y - a * c = (x - a) * y + a * (y - c) := by
    rw [Int.sub_mul, Int.mul_sub]; omega
  rw [this]
  exact Int.dvd_add (Int.dvd_trans hx (Int.dvd_mul_right _ _)) (Int.dvd_trans hy (Int.dvd_mul_left _ _))

/-! ### `Interval::signed_mul` -/

/-- **C02-mul.** Soundness and well-formedness of `Interval::signed_mul` (all widths; above 64 bit the
result is `Top`). -/
theorem signedMul_spec (I J : Interval) (hI : I.WF) (hJ : J.WF) (hw : J.w = I.w) (hw1 : 1 < I.w) {x y : Int}
    (hx : I.Mem x) (hy : J.Mem y) :
    (I.signedMul J).Mem (cmul I.w x y) ∧ (I.signedMul J).WF ∧ (I.signedMul J).w = I.w := by
  have hxr := Interval.mem_inRange hI hx
  have hyr := Interval.mem_inRange hJ hy
  obtain ⟨hw0, hIs, hIe, hle, h0, hd, hu⟩ := hI
  obtain ⟨_, hJs, hJe, hJle, hJ0, hJd, hJu⟩ := hJ
  rw [hw] at hJs hJe hyr
  obtain ⟨hx1, hx2, hx3⟩ := hx
  obtain ⟨hy1, hy2, hy3⟩ := hy
  have htop : (Interval.newTop I.w).Mem (cmul I.w x y) ∧ (Interval.newTop I.w).WF ∧ (Interval.newTop I.w).w = I.w :=
    ⟨(Interval.mem_newTop _ _).mpr (wrap_inRange I.w hw0 _), Interval.wf_newTop I.w hw1, rfl⟩
  unfold Interval.signedMul
  split
  · exact htop
  · split
    · -- both singletons: the exact (wrapping) product
      rename_i hs
      have hxs : x = I.start := by omega
      have hys : y = J.start := by omega
      subst hxs hys
      exact ⟨(Interval.mem_single _ _ _).mpr rfl, Interval.wf_single _ hw0 _ (wrap_inRange I.w hw0 _), rfl⟩
    simp only
    split
    · exact htop
    · rename_i hflags
      simp only [Bool.or_eq_true, not_or, Bool.not_eq_true] at hflags
      obtain ⟨⟨⟨f1, f2⟩, f3⟩, f4⟩ := hflags
      obtain ⟨e1, r1⟩ := smof_exact I.w hw0 hIs hJs f1
      obtain ⟨e2, r2⟩ := smof_exact I.w hw0 hIs hJe f2
      obtain ⟨e3, r3⟩ := smof_exact I.w hw0 hIe hJs f3
      obtain ⟨e4, r4⟩ := smof_exact I.w hw0 hIe hJe f4
      rw [e1, e2, e3, e4]
      obtain ⟨c1, c2⟩ := corners hx1 hx2 hy1 hy2
      have hmn := smin2_cases (I.start * J.start) (I.start * J.stop) (I.stop * J.start) (I.stop * J.stop)
      have hmx := smax2_cases (I.start * J.start) (I.start * J.stop) (I.stop * J.start) (I.stop * J.stop)
      simp only at hmn hmx
      -- all corner products and all member products are congruent modulo the gcd of the strides
      have gI : ∀ {v : Int}, (I.stride : Int) ∣ v → ((Nat.gcd I.stride J.stride : Nat) : Int) ∣ v :=
        fun h => gcd_dvd_left_int _ _ h
      have gJ : ∀ {v : Int}, (J.stride : Int) ∣ v → ((Nat.gcd I.stride J.stride : Nat) : Int) ∣ v :=
        fun h => gcd_dvd_right_int _ _ h
      have k1 : ((Nat.gcd I.stride J.stride : Nat) : Int) ∣ I.start * J.start - I.start * J.start := by simp
      have k2 := mul_congr (gI (show (I.stride : Int) ∣ I.start - I.start by simp)) (gJ hJd)
      have k3 := mul_congr (gI hd) (gJ (show (J.stride : Int) ∣ J.start - J.start by simp))
      have k4 := mul_congr (gI hd) (gJ hJd)
      have kz := mul_congr (gI hx3) (gJ hy3)
      generalize hMN : Interval.smin2 (I.start * J.start) (Interval.smin2 (I.start * J.stop)
        (Interval.smin2 (I.stop * J.start) (I.stop * J.stop))) = mn at *
      generalize hMX : Interval.smax2 (I.start * J.start) (Interval.smax2 (I.start * J.stop)
        (Interval.smax2 (I.stop * J.start) (I.stop * J.stop))) = mx at *
      have kmn : ((Nat.gcd I.stride J.stride : Nat) : Int) ∣ mn - I.start * J.start := by
        rcases hmn with h | h | h | h <;> rw [h] <;> assumption
      have kmx : ((Nat.gcd I.stride J.stride : Nat) : Int) ∣ mx - I.start * J.start := by
        rcases hmx with h | h | h | h <;> rw [h] <;> assumption
      have rmn : InRange I.w mn := by rcases hmn with h | h | h | h <;> rw [h] <;> assumption
      have rmx : InRange I.w mx := by rcases hmx with h | h | h | h <;> rw [h] <;> assumption
      have hzr : InRange I.w (x * y) := by unfold InRange at *; omega
      have hcm : cmul I.w x y = x * y := wrap_of_inRange I.w hw0 hzr
      rw [hcm]
      have dz : ((Nat.gcd I.stride J.stride : Nat) : Int) ∣ x * y - mn := by
        have : x * y - mn = (x * y - I.start * J.start) - (mn - I.start * J.start) := by omega
        rw [this]; exact Int.dvd_sub kz kmn
      have dmx : ((Nat.gcd I.stride J.stride : Nat) : Int) ∣ mx - mn := by
        have : mx - mn = (mx - I.start * J.start) - (mn - I.start * J.start) := by omega
        rw [this]; exact Int.dvd_sub kmx kmn
      refine ⟨⟨c1, c2, ?_⟩, ⟨hw0, rmn, rmx, by show mn ≤ mx; omega, ?_, ?_, ?_⟩, rfl⟩
      · show (((if mn = mx then 0 else Nat.gcd I.stride J.stride : Nat)) : Int) ∣ x * y - mn
        by_cases h : mn = mx
        · have : x * y = mn := by omega
          simp [h, this]
        · simp only [h, if_false]; exact dz
      · show (if mn = mx then 0 else Nat.gcd I.stride J.stride) = 0 ↔ mn = mx
        by_cases h : mn = mx
        · simp [h]
        · simp only [h, if_false, iff_false]
          intro hg
          rw [gcd_eq_zero] at hg
          have ea := h0.mp hg.1
          have ec := hJ0.mp hg.2
          apply h
          rw [← ea, ← ec] at hmn hmx
          rcases hmn with h1 | h1 | h1 | h1 <;> rcases hmx with h2 | h2 | h2 | h2 <;> rw [h1, h2]
      · show (((if mn = mx then 0 else Nat.gcd I.stride J.stride : Nat)) : Int) ∣ mx - mn
        by_cases h : mn = mx
        · simp [h]
        · simp only [h, if_false]; exact dmx
      · show (if mn = mx then 0 else Nat.gcd I.stride J.stride) < 2 ^ 64
        by_cases h : mn = mx
        · simp [h]
        · simp only [h, if_false]; exact gcd_lt _ _ hu hJu

end CweModel.C02
