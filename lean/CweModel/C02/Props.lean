/-
C02 — property theorems. Statement of the property:

  For every abstract interval value (bounds, stride and widening hints) and every operation the
  value analysis evaluates, each concrete result of applying the operation to concrete members of
  the input intervals is a member of the computed abstract result. Bounds, stride and width of
  every produced interval stay well-formed (start <= end, members lie on the stride, stride 0
  exactly for singletons).
-/
import CweModel.C02.Model

namespace CweModel.C02
open CweModel.Itv

/-! ### overflow-checked addition / subtraction -/

theorem sAOC_spec (w : Nat) (hw : 0 < w) {x y : Int} (hx : InRange w x) (hy : InRange w y) :
    signedAddOverflowChecked w x y = if InRange w (x + y) then some (x + y) else none := by
  have h2 := pow2_eq w hw
  have hp := pow2_pos (w - 1)
  unfold signedAddOverflowChecked
  rcases wrap_cases w hw (x + y) (by unfold InRange smin smax at *; omega)
      (by unfold InRange smin smax at *; omega) with ⟨hr, he⟩ | ⟨hr, he⟩ | ⟨hr, he⟩
  · simp only [he, hr, if_true]
    by_cases hy0 : y < 0 <;> simp [hy0] <;> omega
  · have hn : ¬ InRange w (x + y) := by unfold InRange; omega
    simp only [he, hn, if_false]
    unfold InRange smin smax at *
    by_cases hy0 : y < 0 <;> simp [hy0] <;> omega
  · have hn : ¬ InRange w (x + y) := by unfold InRange; omega
    simp only [he, hn, if_false]
    unfold InRange smin smax at *
    by_cases hy0 : y < 0 <;> simp [hy0] <;> omega

end CweModel.C02
