/-
C02 — property theorems. Statement of the property:

  For every abstract interval value (bounds, stride and widening hints) and every operation the
  value analysis evaluates, each concrete result of applying the operation to concrete members of
  the input intervals is a member of the computed abstract result. Bounds, stride and width of
  every produced interval stay well-formed (start <= end, members lie on the stride, stride 0
  exactly for singletons).

The lemmas per operation live in `Arith` (add, sub, 2-complement, not), `Adjust`, `Ext` (extensions),
`Sub` (subpiece), `Piece`, `Mul` (multiplication), `Count` (contains, popcount, lzcount); this file
lifts them to `IntervalDomain` (`RegisterDomain::bin_op / un_op / cast / subpiece`), where the widening
hints and the delay are carried along, and states the summary theorems.
-/
import CweModel.C02.Mul
import CweModel.C02.Count

set_option linter.unusedSimpArgs false

namespace CweModel.C02
open CweModel.Itv

/-! ### reference semantics of the operations on members -/

/-- concrete result of a binary operation. For the operations the domain evaluates on singletons only,
the semantics is the parameter `conc` (= `Bitvector::bin_op`, the subject of C01). -/
def concBin (conc : BinOp → Int → Int → Option Int) (op : BinOp) (wa wb : Nat) (x y : Int) : Option Int :=
  match op with
  | .intAdd => some (cadd wa x y)
  | .intSub => some (csub wa x y)
  | .intMult => some (cmul wa x y)
  | .intLeft => some (cshl wa x (toU wb y))
  | .piece => some (cpiece wa wb x y)
  | op => conc op x y

/-- operand widths the operation is defined for (`bin_op` asserts equal sizes except for shifts/piece) -/
def BinWidths (op : BinOp) (wa wb : Nat) : Prop :=
  match op with
  | .piece | .intLeft | .intRight | .intSRight => True
  | _ => wb = wa

/-- concrete result of a unary operation (`none`: no integer semantics, e.g. float operations, or a
non-boolean operand of BOOL_NEGATE) -/
def concUn (op : UnOp) (w : Nat) (x : Int) : Option Int :=
  match op with
  | .int2Comp => some (cneg w x)
  | .intNegate => some (cnot w x)
  | .boolNegate => if w = 8 then (if x = 0 then some 1 else if x = 1 then some 0 else none) else none
  | _ => none

/-- concrete result of a cast -/
def concCast (op : CastOp) (w w' : Nat) (x : Int) : Option Int :=
  match op with
  | .intZExt => some (czext w w' x)
  | .intSExt => some (csext w w' x)
  | .popCount => some (cpopcount w w' x)
  | .lzCount => some (clzcount w w' x)
  | _ => none

/-! ### plumbing -/

theorem dom_wf_mk {I : Interval} (hI : I.WF) {u l : Option Int} {d : Nat}
    (hu : ∀ v, u = some v → InRange I.w v) (hl : ∀ v, l = some v → InRange I.w v) (hd : d < 2 ^ 64) :
    (IntervalDomain.mk I u l d).WF := ⟨hI, hu, hl, hd⟩

theorem max_lt {a b n : Nat} (ha : a < n) (hb : b < n) : max a b < n := by
  rcases Nat.le_total a b with h | h
  · rw [Nat.max_eq_right h]; exact hb
  · rw [Nat.max_eq_left h]; exact ha

theorem sAOC_inRange (w : Nat) (hw : 0 < w) (x y : Int) {r : Int} (h : signedAddOverflowChecked w x y = some r) :
    InRange w r := by
  simp only [signedAddOverflowChecked] at h
  split at h
  · cases h
  · cases h; exact wrap_inRange w hw _

theorem sSOC_inRange (w : Nat) (hw : 0 < w) (x y : Int) {r : Int} (h : signedSubOverflowChecked w x y = some r) :
    InRange w r := by
  simp only [signedSubOverflowChecked] at h
  split at h
  · cases h
  · cases h; exact wrap_inRange w hw _

theorem bind_inRange {w : Nat} (o : Option Int) (f : Int → Option Int)
    (hf : ∀ x r, f x = some r → InRange w r) : ∀ v, o.bind f = some v → InRange w v := by
  intro v hv
  cases o with
  | none => cases hv
  | some x => exact hf x v hv

/-! ### `IntervalDomain::add` / `sub` -/

theorem add_interval (a b : IntervalDomain) : (a.add b).interval = a.interval.add b.interval := by
  unfold IntervalDomain.add
  simp only
  split
  · rfl
  · simp only [updateUpper_interval, updateLower_interval]; rfl

theorem sub_interval (a b : IntervalDomain) : (a.sub b).interval = a.interval.sub b.interval := by
  unfold IntervalDomain.sub
  simp only
  split
  · rfl
  · simp only [updateUpper_interval, updateLower_interval]; rfl

theorem ofInterval_wf' {I : Interval} (h : I.WF) : (IntervalDomain.ofInterval I).WF := ofInterval_wf h

theorem add_dom_wf (a b : IntervalDomain) (ha : a.WF) (hb : b.WF) (hw : b.interval.w = a.interval.w)
    (hw1 : 1 < a.interval.w) : (a.add b).WF := by
  obtain ⟨hwfI, hwI⟩ := add_wf a.interval b.interval ha.1 hb.1 hw hw1
  have hw0 : 0 < a.interval.w := by omega
  unfold IntervalDomain.add
  simp only
  split
  · exact ofInterval_wf' hwfI
  · have base : (IntervalDomain.mk (a.interval.add b.interval) none none (max a.delay b.delay)).WF :=
      dom_wf_mk hwfI (by intro v h; cases h) (by intro v h; cases h) (max_lt ha.2.2.2 hb.2.2.2)
    have hr : ∀ (o : Option Int) (z : Int), ∀ v, (o.bind fun bd => signedAddOverflowChecked a.w bd z) = some v →
        InRange (a.interval.add b.interval).w v := by
      intro o z
      rw [hwI]
      exact bind_inRange o _ (fun x r h => sAOC_inRange _ hw0 x z h)
    apply updateUpper_wf _ _ _ (by simp only [updateUpper_interval, updateLower_interval]; exact hr _ _)
    apply updateUpper_wf _ _ _ (by simp only [updateUpper_interval, updateLower_interval]; exact hr _ _)
    apply updateLower_wf _ _ _ (by simp only [updateLower_interval]; exact hr _ _)
    apply updateLower_wf _ _ _ (by exact hr _ _)
    exact base

theorem sub_dom_wf (a b : IntervalDomain) (ha : a.WF) (hb : b.WF) (hw : b.interval.w = a.interval.w)
    (hw1 : 1 < a.interval.w) : (a.sub b).WF := by
  obtain ⟨hwfI, hwI⟩ := sub_wf a.interval b.interval ha.1 hb.1 hw hw1
  have hw0 : 0 < a.interval.w := by omega
  unfold IntervalDomain.sub
  simp only
  split
  · exact ofInterval_wf' hwfI
  · have base : (IntervalDomain.mk (a.interval.sub b.interval) none none (max a.delay b.delay)).WF :=
      dom_wf_mk hwfI (by intro v h; cases h) (by intro v h; cases h) (max_lt ha.2.2.2 hb.2.2.2)
    have hr1 : ∀ (o : Option Int) (z : Int), ∀ v, (o.bind fun bd => signedSubOverflowChecked a.w bd z) = some v →
        InRange (a.interval.sub b.interval).w v := by
      intro o z
      rw [hwI]
      exact bind_inRange o _ (fun x r h => sSOC_inRange _ hw0 x z h)
    have hr2 : ∀ (o : Option Int) (z : Int), ∀ v, (o.bind fun bd => signedSubOverflowChecked a.w z bd) = some v →
        InRange (a.interval.sub b.interval).w v := by
      intro o z
      rw [hwI]
      exact bind_inRange o _ (fun x r h => sSOC_inRange _ hw0 z x h)
    apply updateUpper_wf _ _ _ (by simp only [updateUpper_interval, updateLower_interval]; exact hr2 _ _)
    apply updateUpper_wf _ _ _ (by simp only [updateUpper_interval, updateLower_interval]; exact hr1 _ _)
    apply updateLower_wf _ _ _ (by simp only [updateLower_interval]; exact hr2 _ _)
    apply updateLower_wf _ _ _ (by exact hr1 _ _)
    exact base

/-! ### `IntervalDomain::signed_mul`, `shift_left` -/

theorem smof_fst_inRange (w : Nat) (hw : 0 < w) (x y : Int) : InRange w (signedMultWithOverflowFlag w x y).1 := by
  have := pow2_pos (w - 1)
  unfold signedMultWithOverflowFlag
  split
  · unfold InRange smin smax; simp only; omega
  · simp only; split <;> exact wrap_inRange w hw _

theorem hintProduct_inRange (w : Nat) (hw : 0 < w) (x y : Option Int) :
    ∀ v ∈ IntervalDomain.hintProduct w x y, InRange w v := by
  intro v hv
  unfold IntervalDomain.hintProduct at hv
  split at hv
  · simp only at hv
    split at hv
    · cases hv
    · simp only [List.mem_singleton] at hv
      rw [hv]; exact smof_fst_inRange w hw _ _
  · cases hv

/-- the result of the bound-selection folds is an element of the candidate list -/
theorem fold_pick {p : Option Int → Int → Option Int}
    (hp : ∀ acc bd, p acc bd = acc ∨ p acc bd = some bd) (l : List Int) (init : Option Int) :
    ∀ v, l.foldl p init = some v → init = some v ∨ v ∈ l := by
  induction l generalizing init with
  | nil => intro v h; exact .inl h
  | cons b bs ih =>
    intro v h
    rw [List.foldl_cons] at h
    rcases ih _ v h with h1 | h1
    · rcases hp init b with h2 | h2
      · rw [h2] at h1; exact .inl h1
      · rw [h2] at h1; cases h1; exact .inr (List.mem_cons_self)
    · exact .inr (List.mem_cons_of_mem _ h1)

theorem signedMul_interval (a b : IntervalDomain) :
    (a.signedMul b).interval = a.interval.signedMul b.interval := by
  unfold IntervalDomain.signedMul
  simp only
  split <;> rfl

theorem signedMul_dom_wf (a b : IntervalDomain) (ha : a.WF) (hb : b.WF)
    (hI : (a.interval.signedMul b.interval).WF) (hwI : (a.interval.signedMul b.interval).w = a.interval.w) :
    (a.signedMul b).WF := by
  have hw0 : 0 < a.interval.w := ha.1.1
  unfold IntervalDomain.signedMul
  simp only
  split
  · exact ofInterval_wf' hI
  · have hall : ∀ v ∈ (IntervalDomain.hintProduct a.w a.lower b.lower ++ IntervalDomain.hintProduct a.w a.lower b.upper ++
        IntervalDomain.hintProduct a.w a.upper b.lower ++ IntervalDomain.hintProduct a.w a.upper b.upper),
        InRange a.interval.w v := by
      intro v hv
      simp only [List.mem_append] at hv
      rcases hv with ((h | h) | h) | h <;> exact hintProduct_inRange _ hw0 _ _ v h
    refine dom_wf_mk hI ?_ ?_ (max_lt ha.2.2.2 hb.2.2.2)
    · intro v hv
      rw [hwI]
      rcases fold_pick (by
          intro acc bd
          by_cases h1 : bd > (a.interval.signedMul b.interval).stop
          · simp only [h1, if_true]
            cases acc with
            | none => exact .inr rfl
            | some prev => simp only; split <;> simp
          · simp only [h1, if_false]; exact .inl trivial) _ none v hv with h | h
      · cases h
      · exact hall v h
    · intro v hv
      rw [hwI]
      rcases fold_pick (by
          intro acc bd
          by_cases h1 : bd < (a.interval.signedMul b.interval).start
          · simp only [h1, if_true]
            cases acc with
            | none => exact .inr rfl
            | some prev => simp only; split <;> simp
          · simp only [h1, if_false]; exact .inl trivial) _ none v hv with h | h
      · cases h
      · exact hall v h

/-- `shift_left` with a singleton amount below the width is a multiplication with `2^n` -/
theorem cshl_eq_cmul (w : Nat) (hw : 0 < w) (x : Int) (n : Nat) (hn : n < w) :
    cshl w x n = cmul w x (wrap w ((2 ^ n : Nat) : Int)) := by
  unfold cshl cmul
  rw [if_pos hn]
  apply wrap_congr w hw
  obtain ⟨_, k, hk⟩ := wrap_spec w hw (((2 ^ n : Nat) : Int))
  rw [hk, Int.mul_add, ← Int.mul_assoc]
  refine ⟨-(x * k), ?_⟩
  rw [Int.mul_neg, Int.mul_comm (pow2 w)]; omega

theorem shiftLeft_eq_mul (a b : IntervalDomain) (hs : b.interval.start = b.interval.stop)
    (hn : toU b.interval.w b.interval.start < a.interval.w) :
    a.shiftLeft b = a.signedMul (IntervalDomain.single a.interval.w
      (wrap a.interval.w ((2 ^ toU b.interval.w b.interval.start : Nat) : Int))) := by
  unfold IntervalDomain.shiftLeft IntervalDomain.w
  rw [if_pos hs]; simp only; rw [if_pos hn]

theorem shiftLeft_eq_zero (a b : IntervalDomain) (hs : b.interval.start = b.interval.stop)
    (hn : ¬ toU b.interval.w b.interval.start < a.interval.w) :
    a.shiftLeft b = IntervalDomain.single a.interval.w 0 := by
  unfold IntervalDomain.shiftLeft IntervalDomain.w
  rw [if_pos hs]; simp only; rw [if_neg hn]

theorem shiftLeft_eq_top (a b : IntervalDomain) (hs : ¬ b.interval.start = b.interval.stop) :
    a.shiftLeft b = IntervalDomain.newTop a.interval.w := by
  unfold IntervalDomain.shiftLeft IntervalDomain.w
  rw [if_neg hs]

/-- **C02-shl.** Soundness and well-formedness of `IntervalDomain::shift_left`. -/
theorem shiftLeft_spec (a b : IntervalDomain) (ha : a.WF) (_hb : b.WF) (hw1 : 1 < a.interval.w) {x y : Int}
    (hx : a.Mem x) (hy : b.Mem y) :
    (a.shiftLeft b).Mem (cshl a.interval.w x (toU b.interval.w y)) ∧ (a.shiftLeft b).WF ∧
      (a.shiftLeft b).interval.w = a.interval.w := by
  have hw0 : 0 < a.interval.w := by omega
  have hxr := Interval.mem_inRange ha.1 hx
  by_cases hsingle : b.interval.start = b.interval.stop
  · have hyeq : y = b.interval.start := by
      have := hy.1; have := hy.2.1; omega
    subst hyeq
    by_cases hn : toU b.interval.w b.interval.start < a.interval.w
    · rw [shiftLeft_eq_mul a b hsingle hn]
      have hm : InRange a.interval.w (wrap a.interval.w ((2 ^ toU b.interval.w b.interval.start : Nat) : Int)) :=
        wrap_inRange _ hw0 _
      have hJ : (Interval.single a.interval.w (wrap a.interval.w ((2 ^ toU b.interval.w b.interval.start : Nat) : Int))).WF :=
        Interval.wf_single _ hw0 _ hm
      have hspec := signedMul_spec a.interval _ ha.1 hJ rfl hw1 hx ((Interval.mem_single _ _ _).mpr rfl)
      rw [cshl_eq_cmul _ hw0 _ _ hn]
      refine ⟨?_, ?_, ?_⟩
      · show ((a.signedMul _).interval).Mem _
        rw [signedMul_interval]; exact hspec.1
      · exact signedMul_dom_wf a _ ha (ofInterval_wf' hJ) hspec.2.1 hspec.2.2
      · rw [signedMul_interval]; exact hspec.2.2
    · rw [shiftLeft_eq_zero a b hsingle hn]
      have h0r : InRange a.interval.w 0 := by
        have := pow2_pos (a.interval.w - 1); unfold InRange smin smax; omega
      refine ⟨?_, ofInterval_wf' (Interval.wf_single _ hw0 _ h0r), rfl⟩
      unfold cshl; rw [if_neg hn]
      exact (Interval.mem_single _ _ _).mpr rfl
  · rw [shiftLeft_eq_top a b hsingle]
    refine ⟨?_, ofInterval_wf' (Interval.wf_newTop _ hw1), rfl⟩
    apply (Interval.mem_newTop _ _).mpr
    unfold cshl
    split
    · exact wrap_inRange _ hw0 _
    · have := pow2_pos (a.interval.w - 1); unfold InRange smin smax; omega

/-! ### `IntervalDomain::piece` -/

theorem piece_interval (a b : IntervalDomain) : (a.piece b).interval = a.interval.piece b.interval := by
  unfold IntervalDomain.piece
  simp only
  split <;> rfl

theorem cpiece_inRange (wh wl : Nat) (h : 0 < wh + wl) (x y : Int) : InRange (wh + wl) (cpiece wh wl x y) :=
  wrap_inRange _ h _

theorem piece_dom_wf (a b : IntervalDomain) (hb : b.WF) (hI : (a.interval.piece b.interval).WF)
    (hwI : (a.interval.piece b.interval).w = a.interval.w + b.interval.w) : (a.piece b).WF := by
  unfold IntervalDomain.piece
  simp only
  split
  · refine dom_wf_mk hI ?_ ?_ hb.2.2.2
    · intro v hv
      split at hv
      · split at hv
        · cases hv; rw [hwI]; exact cpiece_inRange _ _ (by rw [← hwI]; exact hI.1) _ _
        · cases hv
      · cases hv
    · intro v hv
      split at hv
      · split at hv
        · cases hv; rw [hwI]; exact cpiece_inRange _ _ (by rw [← hwI]; exact hI.1) _ _
        · cases hv
      · cases hv
  · exact dom_wf_mk hI (by intro v h; cases h) (by intro v h; cases h) (by decide)

/-! ### `RegisterDomain::bin_op` -/

/-- the operations with a dedicated transfer function -/
def isSpecial : BinOp → Bool
  | .piece | .intAdd | .intSub | .intMult | .intLeft => true
  | _ => false

/-- the concrete evaluation returns values of the result width -/
def ConcInRange (conc : BinOp → Int → Int → Option Int) (wa wb : Nat) : Prop :=
  ∀ op x y v, conc op x y = some v → InRange (binOpWidth op wa wb) v

/-- shape of `bin_op` for the operations without a dedicated transfer function -/
theorem binOp_fallthrough (conc : BinOp → Int → Int → Option Int) (a b : IntervalDomain) (op : BinOp)
    (hop : isSpecial op = false) :
    a.binOp conc op b =
      { interval :=
          if a.interval.start = a.interval.stop ∧ b.interval.start = b.interval.stop then
            match conc op a.interval.start b.interval.start with
            | some v => Interval.single (binOpWidth op a.w b.w) v
            | none => Interval.newTop (binOpWidth op a.w b.w)
          else Interval.newTop (binOpWidth op a.w b.w),
        lower := none, upper := none, delay := max a.delay b.delay } := by
  cases op <;> first | rfl | (simp [isSpecial] at hop)

theorem binOpWidth_pos (op : BinOp) (wa wb : Nat) (h : 1 < wa) : 1 < binOpWidth op wa wb := by
  cases op <;> simp [binOpWidth] <;> omega

/-- **C02-binop (soundness).** Every concrete result of a binary operation on members of the operands
is a member of the abstract result. -/
theorem binOp_sound (conc : BinOp → Int → Int → Option Int) (a b : IntervalDomain) (op : BinOp)
    (ha : a.WF) (hb : b.WF) (hw1 : 1 < a.interval.w) (hwid : BinWidths op a.interval.w b.interval.w)
    (hconc : ConcInRange conc a.interval.w b.interval.w)
    {x y z : Int} (hx : a.Mem x) (hy : b.Mem y)
    (hz : concBin conc op a.interval.w b.interval.w x y = some z) : (a.binOp conc op b).Mem z := by
  by_cases hsp : isSpecial op = true
  · cases op <;> simp [isSpecial] at hsp
    · -- piece
      simp only [concBin, Option.some.injEq] at hz; subst hz
      show ((a.piece b).interval).Mem _
      rw [piece_interval]; exact (piece_spec _ _ ha.1 hb.1 hx hy).1
    · simp only [concBin, Option.some.injEq] at hz; subst hz
      show ((a.add b).interval).Mem _
      rw [add_interval]; exact add_sound _ _ ha.1 hb.1 hwid hx hy
    · simp only [concBin, Option.some.injEq] at hz; subst hz
      show ((a.sub b).interval).Mem _
      rw [sub_interval]; exact sub_sound _ _ ha.1 hb.1 hwid hx hy
    · simp only [concBin, Option.some.injEq] at hz; subst hz
      exact (shiftLeft_spec a b ha hb hw1 hx hy).1
    · simp only [concBin, Option.some.injEq] at hz; subst hz
      show ((a.signedMul b).interval).Mem _
      rw [signedMul_interval]; exact (signedMul_spec _ _ ha.1 hb.1 hwid hw1 hx hy).1
  · have hsp' : isSpecial op = false := by simpa using hsp
    rw [binOp_fallthrough conc a b op hsp']
    show (if _ then _ else _ : Interval).Mem z
    have hzc : conc op x y = some z := by
      cases op <;> first | exact hz | (simp [isSpecial] at hsp')
    split
    · rename_i hs
      have hxs : x = a.interval.start := by have := hx.1; have := hx.2.1; omega
      have hys : y = b.interval.start := by have := hy.1; have := hy.2.1; omega
      rw [← hxs, ← hys, hzc]
      exact (Interval.mem_single _ _ _).mpr rfl
    · -- not both singletons: Top of the result width
      exact (Interval.mem_newTop _ _).mpr (hconc op x y z hzc)

/-- **C02-binop (well-formedness).** The result of a binary operation is well-formed (bounds ordered and
in range, stride 0 exactly for singletons and dividing the length, hints in range) and has the width
`bin_op_bytesize` prescribes. -/
theorem binOp_wf (conc : BinOp → Int → Int → Option Int) (a b : IntervalDomain) (op : BinOp)
    (ha : a.WF) (hb : b.WF) (hw1 : 1 < a.interval.w) (hwid : BinWidths op a.interval.w b.interval.w)
    (hconc : ConcInRange conc a.interval.w b.interval.w) :
    (a.binOp conc op b).WF ∧ (a.binOp conc op b).interval.w = binOpWidth op a.interval.w b.interval.w := by
  have hsa := Interval.start_mem a.interval ha.1.2.2.2.1
  have hsb := Interval.start_mem b.interval hb.1.2.2.2.1
  by_cases hsp : isSpecial op = true
  · cases op <;> simp [isSpecial] at hsp
    · obtain ⟨_, h2, h3⟩ := piece_spec _ _ ha.1 hb.1 hsa hsb
      refine ⟨piece_dom_wf a b hb h2 h3, ?_⟩
      show ((a.piece b).interval).w = _
      rw [piece_interval]; exact h3
    · refine ⟨add_dom_wf a b ha hb hwid hw1, ?_⟩
      show ((a.add b).interval).w = _
      rw [add_interval]; exact (add_wf _ _ ha.1 hb.1 hwid hw1).2
    · refine ⟨sub_dom_wf a b ha hb hwid hw1, ?_⟩
      show ((a.sub b).interval).w = _
      rw [sub_interval]; exact (sub_wf _ _ ha.1 hb.1 hwid hw1).2
    · exact (shiftLeft_spec a b ha hb hw1 hsa hsb).2
    · obtain ⟨_, h2, h3⟩ := signedMul_spec _ _ ha.1 hb.1 hwid hw1 hsa hsb
      refine ⟨signedMul_dom_wf a b ha hb h2 h3, ?_⟩
      show ((a.signedMul b).interval).w = _
      rw [signedMul_interval]; exact h3
  · have hsp' : isSpecial op = false := by simpa using hsp
    rw [binOp_fallthrough conc a b op hsp']
    have hwr := binOpWidth_pos op a.interval.w b.interval.w hw1
    have hI : (if a.interval.start = a.interval.stop ∧ b.interval.start = b.interval.stop then
            match conc op a.interval.start b.interval.start with
            | some v => Interval.single (binOpWidth op a.w b.w) v
            | none => Interval.newTop (binOpWidth op a.w b.w)
          else Interval.newTop (binOpWidth op a.w b.w) : Interval).WF ∧
        (if a.interval.start = a.interval.stop ∧ b.interval.start = b.interval.stop then
            match conc op a.interval.start b.interval.start with
            | some v => Interval.single (binOpWidth op a.w b.w) v
            | none => Interval.newTop (binOpWidth op a.w b.w)
          else Interval.newTop (binOpWidth op a.w b.w) : Interval).w = binOpWidth op a.interval.w b.interval.w := by
      split
      · split
        · rename_i v hv
          exact ⟨Interval.wf_single _ (by unfold IntervalDomain.w; omega) _ (hconc op _ _ v hv), rfl⟩
        · exact ⟨Interval.wf_newTop _ hwr, rfl⟩
      · exact ⟨Interval.wf_newTop _ hwr, rfl⟩
    exact ⟨dom_wf_mk hI.1 (by intro v h; cases h) (by intro v h; cases h) (max_lt ha.2.2.2 hb.2.2.2), hI.2⟩

/-! ### `RegisterDomain::un_op` -/

theorem cneg_inRange (w : Nat) (hw : 0 < w) (x : Int) : InRange w (cneg w x) := wrap_inRange w hw _

/-- **C02-unop (soundness).** -/
theorem unOp_sound (a : IntervalDomain) (op : UnOp) (ha : a.WF) {x z : Int} (hx : a.Mem x)
    (hz : concUn op a.interval.w x = some z) : (a.unOp op).Mem z := by
  cases op <;> simp only [concUn] at hz
  · -- INT_NEGATE
    cases hz
    exact bitwiseNot_sound a.interval ha.1 hx
  · -- INT_2COMP
    cases hz
    exact int2Comp_sound a.interval ha.1 hx
  · -- BOOL_NEGATE
    split at hz
    · rename_i hw8
      unfold IntervalDomain.unOp
      simp only
      have hxs1 := hx.1; have hxs2 := hx.2.1
      split
      · rename_i hs
        have hxs : x = a.interval.start := by omega
        split at hz
        · rename_i hx0
          cases hz
          rw [if_pos ⟨by omega, hw8⟩]
          exact (Interval.mem_single _ _ _).mpr rfl
        · split at hz
          · rename_i hx0 hx1
            cases hz
            rw [if_neg (by intro h; omega)]
            exact (Interval.mem_single _ _ _).mpr rfl
          · cases hz
      · apply (Interval.mem_newTop _ _).mpr
        unfold IntervalDomain.w; rw [hw8]
        split at hz
        · cases hz; decide
        · split at hz
          · cases hz; decide
          · cases hz
    · cases hz
  all_goals cases hz

/-- **C02-unop (well-formedness).** -/
theorem unOp_wf (a : IntervalDomain) (op : UnOp) (ha : a.WF) (hw1 : 1 < a.interval.w) :
    (a.unOp op).WF := by
  have hw0 : 0 < a.interval.w := by omega
  have htop : ∀ w, 1 < w → (IntervalDomain.newTop w).WF := fun w h => ofInterval_wf' (Interval.wf_newTop w h)
  cases op
  · exact dom_wf_mk (bitwiseNot_wf a.interval ha.1 hw1).1 (by intro v h; cases h) (by intro v h; cases h) ha.2.2.2
  · have hI := int2Comp_wf a.interval ha.1 hw1
    refine dom_wf_mk hI.1 ?_ ?_ ha.2.2.2
    · intro v hv
      rw [hI.2]
      split at hv
      · split at hv
        · cases hv; exact cneg_inRange _ hw0 _
        · cases hv
      · cases hv
    · intro v hv
      rw [hI.2]
      cases hu : a.upper with
      | none => rw [hu] at hv; cases hv
      | some u => rw [hu] at hv; cases hv; exact cneg_inRange _ hw0 _
  · unfold IntervalDomain.unOp
    simp only
    split
    · split
      · exact ofInterval_wf' (Interval.wf_single 8 (by decide) 1 (by decide))
      · exact ofInterval_wf' (Interval.wf_single 8 (by decide) 0 (by decide))
    · exact htop _ hw1
  all_goals first
    | exact htop _ hw1
    | exact htop 8 (by decide)

/-! ### `RegisterDomain::cast` -/

theorem zeroExtend_dom_interval (a : IntervalDomain) (w' : Nat) :
    (a.zeroExtend w').interval = a.interval.zeroExtend w' := rfl

/-- **C02-cast (soundness).** `w'` is the result width; extensions require `a.w ≤ w'`; the count casts
hold for all operand and result widths (repaired: `Top` if the bit length does not fit the result). -/
theorem cast_sound (a : IntervalDomain) (op : CastOp) (w' : Nat) (ha : a.WF) (hw' : 1 < w')
    (hext : (op = .intZExt ∨ op = .intSExt) → a.interval.w ≤ w')
    {x z : Int} (hx : a.Mem x) (hz : concCast op a.interval.w w' x = some z) : (a.cast op w').Mem z := by
  cases op <;> simp only [concCast] at hz
  · cases hz
    unfold IntervalDomain.cast
    simp only
    split
    · rename_i heq
      unfold IntervalDomain.w at heq
      rw [← heq, czext_self ha.1.1 (Interval.mem_inRange ha.1 hx)]; exact hx
    · exact zeroExtend_sound a.interval ha.1 w' (hext (.inl rfl)) hx
  · cases hz
    exact signExtend_sound a.interval ha.1 w' (hext (.inr rfl)) hx
  · cases hz
  · cases hz
  · cases hz
  · cases hz
    exact popCount_sound a ha w' hw' hx
  · cases hz
    exact lzCount_sound a ha w' hw' hx

theorem czext_inRange (w w' : Nat) (h : 0 < w') (x : Int) : InRange w' (czext w w' x) := wrap_inRange _ h _
theorem csext_inRange (w w' : Nat) (h : 0 < w') (x : Int) : InRange w' (csext w w' x) := wrap_inRange _ h _

/-- **C02-cast (well-formedness).** -/
theorem cast_wf (a : IntervalDomain) (op : CastOp) (w' : Nat) (ha : a.WF) (hw' : 1 < w')
    (hext : (op = .intZExt ∨ op = .intSExt) → a.interval.w ≤ w') :
    (a.cast op w').WF ∧ (a.cast op w').interval.w = w' := by
  have hw0' : 0 < w' := by omega
  have htop : (IntervalDomain.newTop w').WF ∧ (IntervalDomain.newTop w').interval.w = w' :=
    ⟨ofInterval_wf' (Interval.wf_newTop w' hw'), rfl⟩
  cases op
  · unfold IntervalDomain.cast
    simp only
    split
    · rename_i heq; unfold IntervalDomain.w at heq; exact ⟨ha, heq⟩
    · obtain ⟨hI, hwI⟩ := zeroExtend_wf a.interval ha.1 w' (hext (.inl rfl))
      refine ⟨dom_wf_mk hI ?_ ?_ ha.2.2.2, hwI⟩
      · intro v hv
        rw [hwI]
        split at hv
        · split at hv
          · cases hv; exact czext_inRange _ _ hw0' _
          · cases hv
        · cases hv
      · intro v hv
        rw [hwI]
        split at hv
        · split at hv
          · cases hv; exact czext_inRange _ _ hw0' _
          · cases hv
        · cases hv
  · obtain ⟨hI, hwI⟩ := signExtend_wf a.interval ha.1 w' (hext (.inr rfl))
    refine ⟨dom_wf_mk hI ?_ ?_ ha.2.2.2, hwI⟩
    · intro v hv
      show InRange w' v
      cases hu : a.upper with
      | none => rw [hu] at hv; cases hv
      | some u => rw [hu] at hv; cases hv; exact csext_inRange _ _ hw0' _
    · intro v hv
      show InRange w' v
      cases hl : a.lower with
      | none => rw [hl] at hv; cases hv
      | some u => rw [hl] at hv; cases hv; exact csext_inRange _ _ hw0' _
  · exact htop
  · exact htop
  · exact htop
  · exact popCount_wf a ha w' hw'
  · exact lzCount_wf a ha w' hw'

/-! ### `RegisterDomain::subpiece` -/

theorem subpiece_interval (a : IntervalDomain) (low size : Nat) :
    (a.subpiece low size).interval = a.interval.subpiece low size := by
  unfold IntervalDomain.subpiece Interval.subpiece IntervalDomain.w
  by_cases hl : low = 0
  · subst hl
    simp only [ne_eq, not_true_eq_false, if_false]
    by_cases h : a.interval.w > size
    · rw [if_pos h, if_pos h]; rfl
    · rw [if_neg h, if_neg h]
  · simp only [ne_eq, hl, not_false_eq_true, if_true]
    have e : (a.subpieceHigher low).interval = a.interval.subpieceHigher low := rfl
    by_cases h : (a.interval.subpieceHigher low).w > size
    · rw [if_pos (by rw [e]; exact h), if_pos h]; rfl
    · rw [if_neg (by rw [e]; exact h), if_neg h]; rfl

theorem csubpiece_inRange (w low size : Nat) (h : 0 < size) (x : Int) : InRange size (csubpiece w low size x) :=
  wrap_inRange _ h _

theorem subpieceHigher_dom_wf (a : IntervalDomain) (low : Nat) (ha : a.WF) (hI : (a.interval.subpieceHigher low).WF)
    (hwI : (a.interval.subpieceHigher low).w = a.interval.w - low) : (a.subpieceHigher low).WF := by
  have h0 : 0 < a.interval.w - low := by rw [← hwI]; exact hI.1
  refine dom_wf_mk hI ?_ ?_ (Nat.lt_of_le_of_lt (Nat.shiftRight_le _ _) ha.2.2.2)
  · intro v hv
    rw [hwI]
    split at hv
    · simp only at hv
      split at hv
      · cases hv; exact csubpiece_inRange _ _ _ h0 _
      · cases hv
    · cases hv
  · intro v hv
    rw [hwI]
    split at hv
    · simp only at hv
      split at hv
      · cases hv; exact csubpiece_inRange _ _ _ h0 _
      · cases hv
    · cases hv

theorem subpieceLower_dom_wf (a : IntervalDomain) (size : Nat) (ha : a.WF) (hI : (a.interval.subpieceLower size).WF)
    (hwI : (a.interval.subpieceLower size).w = size) : (a.subpieceLower size).WF := by
  have h0 : 0 < size := by rw [← hwI]; exact hI.1
  refine dom_wf_mk hI ?_ ?_ ha.2.2.2
  · intro v hv
    rw [hwI]
    split at hv
    · split at hv
      · simp only at hv
        split at hv
        · cases hv; exact csubpiece_inRange _ _ _ h0 _
        · cases hv
      · cases hv
    · cases hv
  · intro v hv
    rw [hwI]
    split at hv
    · split at hv
      · simp only at hv
        split at hv
        · cases hv; exact csubpiece_inRange _ _ _ h0 _
        · cases hv
      · cases hv
    · cases hv

/-- **C02-subpiece (soundness).** `low` bits are dropped and `size` bits kept (`low + size ≤ w`). -/
theorem subpiece_sound (a : IntervalDomain) (low size : Nat) (ha : a.WF) (hs0 : 1 < size)
    (hs : low + size ≤ a.interval.w) {x : Int} (hx : a.Mem x) :
    (a.subpiece low size).Mem (csubpiece a.interval.w low size x) := by
  show ((a.subpiece low size).interval).Mem _
  rw [subpiece_interval]; exact (subpiece_spec a.interval ha.1 low size hs0 hs hx).1

/-- **C02-subpiece (well-formedness).** -/
theorem subpiece_wf (a : IntervalDomain) (low size : Nat) (ha : a.WF) (hs0 : 1 < size)
    (hs : low + size ≤ a.interval.w) :
    (a.subpiece low size).WF ∧ (a.subpiece low size).interval.w = size := by
  have hsa := Interval.start_mem a.interval ha.1.2.2.2.1
  refine ⟨?_, by rw [subpiece_interval]; exact (subpiece_spec a.interval ha.1 low size hs0 hs hsa).2.2⟩
  unfold IntervalDomain.subpiece
  by_cases hl : low = 0
  · subst hl
    simp only [ne_eq, not_true_eq_false, if_false]
    split
    · rename_i hgt
      obtain ⟨_, h2, h3⟩ := subpieceLower_spec a.interval ha.1 size hs0 (by omega) hsa
      exact subpieceLower_dom_wf a size ha h2 h3
    · exact ha
  · simp only [ne_eq, hl, not_false_eq_true, if_true]
    obtain ⟨hm, h2, h3⟩ := subpieceHigher_spec a.interval ha.1 low (by omega) hsa
    have hH := subpieceHigher_dom_wf a low ha h2 h3
    split
    · obtain ⟨_, h4, h5⟩ := subpieceLower_spec (a.interval.subpieceHigher low) h2 size hs0 (by omega) hm
      exact subpieceLower_dom_wf (a.subpieceHigher low) size hH h4 h5
    · exact hH

/-! ### the reference semantics on signed values is core's `BitVec` arithmetic -/

/-- **C02-bitvec-add.** `cadd` on signed values is `BitVec` addition (likewise `csub`, `cmul`, `cneg`). -/
theorem cadd_toInt {w : Nat} (x y : BitVec w) : cadd w x.toInt y.toInt = (x + y).toInt :=
  (BitVec.toInt_add x y).symm
theorem csub_toInt {w : Nat} (x y : BitVec w) : csub w x.toInt y.toInt = (x - y).toInt :=
  (BitVec.toInt_sub (x := x) (y := y)).symm
theorem cmul_toInt {w : Nat} (x y : BitVec w) : cmul w x.toInt y.toInt = (x * y).toInt :=
  (BitVec.toInt_mul x y).symm
theorem cneg_toInt {w : Nat} (x : BitVec w) : cneg w x.toInt = (-x).toInt :=
  (BitVec.toInt_neg (x := x)).symm

/-- the soundness of addition stated on bit-vectors: for all members `x`, `y` (as `BitVec w`) the sum
`x + y` is a member of the abstract sum -/
theorem add_sound_bitvec {w : Nat} (I J : Interval) (hI : I.WF) (hJ : J.WF) (hwI : I.w = w) (hwJ : J.w = w)
    (x y : BitVec w) (hx : I.Mem x.toInt) (hy : J.Mem y.toInt) : (I.add J).Mem (x + y).toInt := by
  subst hwI
  rw [← cadd_toInt]
  exact add_sound I J hI hJ hwJ hx hy

/-! ### non-vacuity: the hypotheses are satisfiable on concrete non-trivial values -/

/-- `[-3, stride 2, 5]` (1 byte) with a lower hint -/
def exA : IntervalDomain := ⟨⟨8, -3, 5, 2⟩, none, some (-7), 3⟩
/-- `[10, stride 5, 30]` (1 byte) with an upper hint -/
def exB : IntervalDomain := ⟨⟨8, 10, 30, 5⟩, some 40, none, 0⟩

theorem exA_wf : exA.WF :=
  dom_wf_mk (by decide) (by intro u h; cases h) (by intro l h; cases h; decide) (by decide)
theorem exB_wf : exB.WF :=
  dom_wf_mk (by decide) (by intro u h; cases h; decide) (by intro l h; cases h) (by decide)

example : (exA.binOp (fun _ _ _ => none) .intAdd exB).Mem (cadd 8 3 25) :=
  binOp_sound (fun _ _ _ => none) exA exB .intAdd exA_wf exB_wf (by decide) rfl
    (by intro op x y v h; cases h) (x := 3) (y := 25) (by decide) (by decide) rfl

example : (exA.binOp (fun _ _ _ => none) .intMult exB).Mem (cmul 8 (-3) 30) :=
  binOp_sound (fun _ _ _ => none) exA exB .intMult exA_wf exB_wf (by decide) rfl
    (by intro op x y v h; cases h) (x := -3) (y := 30) (by decide) (by decide) rfl

example : exA.binOp (fun _ _ _ => none) .intAdd exB = ⟨⟨8, 7, 35, 1⟩, some 45, some 3, 3⟩ := by decide
example : (exA.cast .intZExt 16).Mem (czext 8 16 (-1)) :=
  cast_sound exA .intZExt 16 exA_wf (by decide) (by intro _; decide) (x := -1) (by decide) rfl

end CweModel.C02
