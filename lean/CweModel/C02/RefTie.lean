/-
C02 — the tie of the concrete side of the soundness theorems to the P-Code REFERENCE semantics
`CweModel.Ref` (Base/Bv.lean) on core `BitVec`.

`C02/Props.lean` states soundness with the concrete semantics written as `Int` formulas (section `Conc`
of `C02/Model.lean`: `cadd … clzcount`). Here every one of these formulas is proved equal to the signed
reading (`BitVec.toInt`) of the corresponding reference operation, for EVERY width, and the four summary
theorems are restated with the concrete side being `Ref.binOp / Ref.unOp / Ref.cast / Ref.subpieceOp`:

  if `x`, `y` are bit-vectors whose signed readings are members of γ a, γ b and the reference semantics
  defines the value `r` for the operation, then the signed reading of `r` is a member of γ of the
  abstract result (and `r` has the width of the abstract result).

The parameter `conc` of `IntervalDomain.binOp` (the call of `Bitvector::bin_op` for the operations the
domain evaluates on singletons only) is instantiated with the reference semantics itself (`refConc`);
by C01 (`binOp_eq_ref`) that is the model of `Bitvector::bin_op` (`implConc_eq_refConc`).
-/
import CweModel.C02.Props
import CweModel.C02.RefSem
import CweModel.C01.Props

namespace CweModel.C02
open CweModel CweModel.Itv

/-! ### kernels: each `Int` formula is the signed reading of the reference operation -/

/-- `wrap` is the signed reading of `BitVec.ofInt` / `BitVec.ofNat` -/
theorem toInt_ofInt_wrap (w : Nat) (i : Int) : (BitVec.ofInt w i).toInt = wrap w i := BitVec.toInt_ofInt i
theorem toInt_ofNat_wrap (w n : Nat) : (BitVec.ofNat w n).toInt = wrap w (n : Int) := BitVec.toInt_ofNat n

/-- the unsigned reading of the signed value of a bit-vector is its `toNat` -/
theorem toU_toInt {w : Nat} (x : BitVec w) : toU w x.toInt = x.toNat := by
  unfold toU pow2
  rw [BitVec.toInt_eq_toNat_bmod, Int.bmod_emod]
  have := x.isLt
  rw [Int.emod_eq_of_lt (by omega) (by omega)]
  simp

/-- signed and unsigned reading differ by a multiple of `2^w` -/
theorem toInt_congr_toNat {w : Nat} (x : BitVec w) : pow2 w ∣ x.toInt - (x.toNat : Int) := by
  have h := toU_congr w x.toInt
  rw [toU_toInt] at h
  obtain ⟨k, hk⟩ := h
  exact ⟨-k, by rw [Int.mul_neg]; omega⟩

theorem cnot_toInt {w : Nat} (hw : 0 < w) (x : BitVec w) : cnot w x.toInt = (Ref.not x).toInt := by
  have hr : InRange w (cnot w x.toInt) := cnot_inRange w (inRange_toInt x)
  rw [Ref.not, toInt_ofNat_wrap, ← wrap_of_inRange w hw hr]
  apply wrap_congr w hw
  obtain ⟨k, hk⟩ := toInt_congr_toNat x
  have hx := x.isLt
  have hc : ((2 ^ w - 1 - x.toNat : Nat) : Int) = pow2 w - 1 - (x.toNat : Int) := by
    unfold pow2; omega
  rw [hc]
  unfold cnot
  refine ⟨-k - 1, ?_⟩
  rw [Int.mul_sub, Int.mul_neg, ← hk]; omega

theorem cshl_toInt {w : Nat} (x : BitVec w) (n : Nat) : cshl w x.toInt n = (Ref.shl x n).toInt := by
  unfold cshl
  split
  · rename_i hn
    have hw : 0 < w := by omega
    rw [Ref.shl, toInt_ofNat_wrap]
    apply wrap_congr w hw
    obtain ⟨k, hk⟩ := toInt_congr_toNat x
    refine ⟨k * ((2 ^ n : Nat) : Int), ?_⟩
    rw [Int.natCast_mul, ← Int.sub_mul, hk, Int.mul_assoc]
  · rename_i hn
    rw [← C01.shl_eq, Impl.shl, if_neg hn]; simp

theorem czext_toInt {w : Nat} (x : BitVec w) (w' : Nat) : czext w w' x.toInt = (Ref.zext x w').toInt := by
  rw [czext, toU_toInt, Ref.zext, toInt_ofNat_wrap]

theorem csext_toInt {w : Nat} (x : BitVec w) (w' : Nat) : csext w w' x.toInt = (Ref.sext x w').toInt := by
  rw [csext, Ref.sext, toInt_ofInt_wrap]

theorem csubpiece_toInt {w : Nat} (x : BitVec w) (low size : Nat) :
    csubpiece w low size x.toInt = (Ref.subpiece x low size).toInt := by
  rw [csubpiece, toU_toInt, Ref.subpiece, toInt_ofNat_wrap]

theorem cpiece_toInt {wh wl : Nat} (x : BitVec wh) (y : BitVec wl) :
    cpiece wh wl x.toInt y.toInt = (Ref.piece x y).toInt := by
  rw [cpiece, toU_toInt, Ref.piece, toInt_ofNat_wrap]
  by_cases hw : wh + wl = 0
  · have h1 : wh = 0 := by omega
    have h2 : wl = 0 := by omega
    subst h1; subst h2
    simp [wrap, BitVec.of_length_zero]
  apply wrap_congr _ (by omega)
  obtain ⟨k, hk⟩ := toInt_congr_toNat x
  refine ⟨k, ?_⟩
  rw [pow2_add, Int.natCast_add, Int.natCast_mul]
  have : x.toInt = (x.toNat : Int) + pow2 wh * k := by omega
  rw [this, Int.add_mul, pow2_nat, Int.mul_right_comm]; omega

/-- one more (high) bit: `popCountNat` peels from the low end, `cpopNatRec` from the high end -/
theorem popCountNat_succ_mod (n m : Nat) :
    popCountNat (n + 1) (m % 2 ^ (n + 1)) = popCountNat n (m % 2 ^ n) + (m.testBit n).toNat := by
  induction n generalizing m with
  | zero =>
    simp only [popCountNat, Nat.toNat_testBit]
    simp
  | succ k ih =>
    have h1 : ∀ j, m % 2 ^ (j + 1) % 2 = m % 2 := fun j => by
      rw [Nat.pow_succ, Nat.mod_mul_left_mod]
    have h2 : ∀ j, m % 2 ^ (j + 1) / 2 = m / 2 % 2 ^ j := fun j => by
      rw [Nat.pow_succ, Nat.mul_comm, Nat.mod_mul_right_div_self]
    have hb : m.testBit (k + 1) = (m / 2).testBit k := by
      rw [Nat.testBit_succ]
    rw [popCountNat, h1, h2, ih (m / 2)]
    conv => rhs; rw [popCountNat, h1, h2]
    rw [hb]; omega

/-- core's `cpopNatRec` (count from bit `n-1` down to bit 0) is `popCountNat` of the low `n` bits -/
theorem cpopNatRec_eq_popCountNat {w : Nat} (x : BitVec w) (n : Nat) :
    x.cpopNatRec n 0 = popCountNat n (x.toNat % 2 ^ n) := by
  induction n with
  | zero => simp [popCountNat]
  | succ k ih =>
    rw [BitVec.cpopNatRec_succ, BitVec.cpopNatRec_eq, ih, popCountNat_succ_mod, BitVec.testBit_toNat]
    omega

theorem popCountNat_toNat {w : Nat} (x : BitVec w) : popCountNat w x.toNat = Ref.popcount x := by
  rw [Ref.popcount, BitVec.toNat_cpop, cpopNatRec_eq_popCountNat, Nat.mod_eq_of_lt x.isLt]

theorem cpopcount_toInt {w : Nat} (x : BitVec w) (w' : Nat) :
    cpopcount w w' x.toInt = (BitVec.ofNat w' (Ref.popcount x)).toInt := by
  rw [cpopcount, toU_toInt, popCountNat_toNat, toInt_ofNat_wrap]

/-- the bit length determines the number of leading zeros as core's `clz` counts them -/
theorem bitLen_toNat {w : Nat} (x : BitVec w) : w - bitLen w x.toNat = Ref.lzcount x := by
  unfold Ref.lzcount
  have hle := C01.clz_toNat_le x
  by_cases hx : x = 0#w
  · subst hx
    have : (0#w).clz = BitVec.ofNat w w := BitVec.clz_eq_iff_eq_zero.mpr rfl
    have hw : w < 2 ^ w := Nat.lt_two_pow_self
    rw [this]; simp [bitLen_zero, Nat.mod_eq_of_lt hw]
  · have hw : 0 < w := by
      rcases Nat.eq_zero_or_pos w with h | h
      · subst h; exact absurd (BitVec.of_length_zero) hx
      · exact h
    have hlt : x.clz.toNat < w := by
      have h := BitVec.clz_lt_iff_ne_zero.mpr hx
      rw [BitVec.lt_def] at h
      have hw2 : w < 2 ^ w := Nat.lt_two_pow_self
      simpa [Nat.mod_eq_of_lt hw2] using h
    have h1 := BitVec.two_pow_sub_clz_le_toNat_of_ne_zero hw hx
    have h2 := @BitVec.toNat_lt_two_pow_sub_clz w x
    have h3 := bitLen_le_of_lt w h2
    have h4 := lt_two_pow_bitLen w x.isLt
    have h5 : w - 1 - x.clz.toNat < bitLen w x.toNat := by
      rcases Nat.lt_or_ge (w - 1 - x.clz.toNat) (bitLen w x.toNat) with h | h
      · exact h
      · have := Nat.pow_le_pow_right (show 0 < 2 by decide) h
        omega
    omega

theorem clzcount_toInt {w : Nat} (x : BitVec w) (w' : Nat) :
    clzcount w w' x.toInt = (BitVec.ofNat w' (Ref.lzcount x)).toInt := by
  rw [clzcount, leadingZeros, toU_toInt, bitLen_toNat, toInt_ofNat_wrap]

/-- `cadd`, `csub`, `cmul`, `cneg` against the reference (via `cadd_toInt` … and C01's kernels) -/
theorem cadd_ref {w : Nat} (x y : BitVec w) : cadd w x.toInt y.toInt = (Ref.add x y).toInt := by
  rw [← C01.add_eq, cadd_toInt]
theorem csub_ref {w : Nat} (x y : BitVec w) : csub w x.toInt y.toInt = (Ref.sub x y).toInt := by
  rw [← C01.sub_eq, csub_toInt]
theorem cmul_ref {w : Nat} (x y : BitVec w) : cmul w x.toInt y.toInt = (Ref.mul x y).toInt := by
  rw [← C01.mul_eq, cmul_toInt]
theorem cneg_ref {w : Nat} (x : BitVec w) : cneg w x.toInt = (Ref.neg x).toInt := by
  rw [← C01.neg_eq, cneg_toInt]

/-! ### the `conc` parameter (definitions `toIRBin`, `refConc`, … are in `C02/RefSem.lean`) -/

/-- the model of `Bitvector::bin_op` (Base/Bv.lean, the subject of C01) as the parameter `conc` -/
def implConc (wa wb : Nat) (op : BinOp) (x y : Int) : Option Int :=
  resInt (Impl.binOp (toIRBin op) ⟨wa, BitVec.ofInt wa x⟩ ⟨wb, BitVec.ofInt wb y⟩)

/-- the boolean operations are defined on 1-byte operands -/
def isBool : BinOp → Bool
  | .boolXOr | .boolAnd | .boolOr => true
  | _ => false


/-! ### `Ref.binOp` on members = the concrete semantics `concBin` of `binOp_sound` -/

/-- **C02-ref-binop-conc.** Whenever the reference semantics defines a value `r` for `x op y`, the
concrete semantics used by `binOp_sound` (the `Int` formulas for the five operations with a transfer
function of their own, `refConc` for the others) yields the signed reading of `r`. -/
theorem ref_binOp_conc (op : BinOp) (wa wb : Nat) (hwid : BinWidths op wa wb) (x : BitVec wa) (y : BitVec wb)
    {r : Bv} (hr : Ref.binOp (toIRBin op) ⟨wa, x⟩ ⟨wb, y⟩ = .val r) :
    concBin (refConc wa wb) op wa wb x.toInt y.toInt = some r.toInt := by
  by_cases hsp : isSpecial op = true
  · cases op <;> simp [isSpecial] at hsp
    · -- PIECE
      simp only [toIRBin, Ref.binOp, valV, Res.val.injEq] at hr
      subst hr
      simp only [concBin, Bv.toInt, cpiece_toInt]
    · -- INT_ADD
      simp only [BinWidths] at hwid; subst hwid
      simp only [toIRBin, Ref.binOp, sameW, dite_true, valV, Res.val.injEq] at hr
      subst hr
      simp only [concBin, Bv.toInt, cadd_ref]
    · -- INT_SUB
      simp only [BinWidths] at hwid; subst hwid
      simp only [toIRBin, Ref.binOp, sameW, dite_true, valV, Res.val.injEq] at hr
      subst hr
      simp only [concBin, Bv.toInt, csub_ref]
    · -- INT_LEFT
      simp only [toIRBin, Ref.binOp, valV] at hr
      split at hr
      · simp only [Res.val.injEq] at hr
        subst hr
        simp only [concBin, Bv.toInt, Bv.toNat, C01.Ref.shl_clamp, toU_toInt, cshl_toInt]
      · cases hr
    · -- INT_MULT
      simp only [BinWidths] at hwid; subst hwid
      simp only [toIRBin, Ref.binOp] at hr
      split at hr
      · cases hr
      · simp only [sameW, dite_true, valV, Res.val.injEq] at hr
        subst hr
        simp only [concBin, Bv.toInt, cmul_ref]
  · have hsp' : isSpecial op = false := by simpa using hsp
    have hc : concBin (refConc wa wb) op wa wb x.toInt y.toInt = refConc wa wb op x.toInt y.toInt := by
      cases op <;> first | rfl | (simp [isSpecial] at hsp')
    rw [hc, refConc, BitVec.ofInt_toInt, BitVec.ofInt_toInt, hr]; rfl

/-- the reference result has the width `bin_op_bytesize` prescribes (boolean operations: on bytes) -/
theorem ref_binOp_width (op : BinOp) (wa wb : Nat) (hwid : BinWidths op wa wb)
    (hbool : isBool op = true → wa = 8) (x : BitVec wa) (y : BitVec wb)
    {r : Bv} (hr : Ref.binOp (toIRBin op) ⟨wa, x⟩ ⟨wb, y⟩ = .val r) : r.w = binOpWidth op wa wb := by
  cases op <;> simp only [BinWidths] at hwid <;> (try subst hwid) <;>
    simp only [toIRBin, Ref.binOp, sameW, dite_true, valV, valB, Bv.ofBool] at hr <;>
    (try split at hr) <;> (try split at hr) <;>
    (cases hr <;> first | rfl | exact (hbool rfl))

theorem binOp_conc_irrel (c₁ c₂ : BinOp → Int → Int → Option Int) (a b : IntervalDomain) (op : BinOp)
    (h : isSpecial op = true) : a.binOp c₁ op b = a.binOp c₂ op b := by
  cases op <;> first | rfl | (simp [isSpecial] at h)

theorem concBin_irrel (c₁ c₂ : BinOp → Int → Int → Option Int) (op : BinOp) (wa wb : Nat) (x y : Int)
    (h : isSpecial op = true) : concBin c₁ op wa wb x y = concBin c₂ op wa wb x y := by
  cases op <;> first | rfl | (simp [isSpecial] at h)

/-- **C02-ref-binop (soundness against the P-Code reference semantics).** For all well-formed `a`, `b`
and all bit-vectors `x`, `y` whose signed readings are members of γ a, γ b: if the reference semantics
defines `x op y = r`, then the signed reading of `r` is a member of γ (a op b), and `r` has the width of
the abstract result. The `Bitvector::bin_op` call inside `bin_op` is the reference itself (`refConc`). -/
theorem binOp_sound_ref (a b : IntervalDomain) (op : BinOp) (ha : a.WF) (hb : b.WF) (hw1 : 1 < a.interval.w)
    (hwid : BinWidths op a.interval.w b.interval.w) (hbool : isBool op = true → a.interval.w = 8)
    (x : BitVec a.interval.w) (y : BitVec b.interval.w) (hx : a.Mem x.toInt) (hy : b.Mem y.toInt)
    {r : Bv} (hr : Ref.binOp (toIRBin op) ⟨a.interval.w, x⟩ ⟨b.interval.w, y⟩ = .val r) :
    (a.binOp (refConc a.interval.w b.interval.w) op b).Mem r.toInt ∧
      r.w = (a.binOp (refConc a.interval.w b.interval.w) op b).interval.w := by
  have hz := ref_binOp_conc op _ _ hwid x y hr
  have hrw := ref_binOp_width op _ _ hwid hbool x y hr
  have hrange : InRange (binOpWidth op a.interval.w b.interval.w) r.toInt := hrw ▸ inRange_toInt r.v
  have hconc : ∀ x' y' v, refConc a.interval.w b.interval.w op x' y' = some v →
      InRange (binOpWidth op a.interval.w b.interval.w) v := by
    intro x' y' v hv
    unfold refConc at hv
    generalize hR : Ref.binOp (toIRBin op) ⟨a.interval.w, BitVec.ofInt _ x'⟩ ⟨b.interval.w, BitVec.ofInt _ y'⟩ = R at hv
    cases R with
    | val r' =>
      simp only [resInt, Option.some.injEq] at hv; subst hv
      exact (ref_binOp_width op _ _ hwid hbool _ _ hR) ▸ inRange_toInt r'.v
    | unknown => cases hv
    | panic => cases hv
  refine ⟨?_, ?_⟩
  · by_cases hsp : isSpecial op = true
    · rw [binOp_conc_irrel _ (fun _ _ _ => none) a b op hsp]
      rw [concBin_irrel _ (fun _ _ _ => none) op _ _ _ _ hsp] at hz
      exact binOp_sound _ a b op ha hb hw1 hwid (by intro op x y v h; cases h) hx hy hz
    · have hsp' : isSpecial op = false := by simpa using hsp
      have hzc : refConc a.interval.w b.interval.w op x.toInt y.toInt = some r.toInt := by
        rw [← hz]; cases op <;> first | rfl | (simp [isSpecial] at hsp')
      rw [binOp_fallthrough _ a b op hsp']
      show (if _ then _ else _ : Interval).Mem r.toInt
      split
      · have hxs : x.toInt = a.interval.start := by have := hx.1; have := hx.2.1; omega
        have hys : y.toInt = b.interval.start := by have := hy.1; have := hy.2.1; omega
        rw [← hxs, ← hys, hzc]
        exact (Interval.mem_single _ _ _).mpr rfl
      · exact (Interval.mem_newTop _ _).mpr hrange
  · rw [hrw]
    by_cases hsp : isSpecial op = true
    · rw [binOp_conc_irrel _ (fun _ _ _ => none) a b op hsp]
      exact (binOp_wf _ a b op ha hb hw1 hwid (by intro op x y v h; cases h)).2.symm
    · have hsp' : isSpecial op = false := by simpa using hsp
      rw [binOp_fallthrough _ a b op hsp']
      show _ = (if _ then _ else _ : Interval).w
      split
      · split <;> rfl
      · rfl

/-! ### `Ref.unOp` -/

theorem toInt_byte_eq_zero (x : BitVec 8) : x.toInt = 0 ↔ x.toNat = 0 := by
  have := x.isLt
  rw [BitVec.toInt_eq_toNat_cond]; split <;> omega

theorem toInt_byte_eq_one (x : BitVec 8) : x.toInt = 1 ↔ x.toNat = 1 := by
  have := x.isLt
  rw [BitVec.toInt_eq_toNat_cond]; split <;> omega

/-- **C02-ref-unop-conc.** `concUn` yields the signed reading of the reference value (BOOL_NEGATE: on
bytes, where it is defined). -/
theorem ref_unOp_conc (op : UnOp) (w : Nat) (hw : 0 < w) (hbool : op = .boolNegate → w = 8) (x : BitVec w)
    {r : Bv} (hr : Ref.unOp (toIRUn op) ⟨w, x⟩ = .val r) : concUn op w x.toInt = some r.toInt := by
  cases op <;> simp only [toIRUn, Ref.unOp, valV, valB] at hr
  · -- INT_NEGATE
    simp only [Res.val.injEq] at hr; subst hr
    simp only [concUn, Bv.toInt, cnot_toInt hw]
  · -- INT_2COMP
    simp only [Res.val.injEq] at hr; subst hr
    simp only [concUn, Bv.toInt, cneg_ref]
  · -- BOOL_NEGATE
    have h8 := hbool rfl
    subst h8
    simp only [concUn, if_true]
    simp only [Bv.toNat] at hr
    split at hr
    · rename_i h0
      simp only [Res.val.injEq] at hr; subst hr
      rw [if_pos ((toInt_byte_eq_zero x).mpr h0)]; rfl
    · rename_i h0
      split at hr
      · rename_i h1
        simp only [Res.val.injEq] at hr; subst hr
        rw [if_neg (fun h => h0 ((toInt_byte_eq_zero x).mp h)), if_pos ((toInt_byte_eq_one x).mpr h1.2)]; rfl
      · cases hr
  all_goals cases hr

/-- the reference result has the width of the abstract result -/
theorem ref_unOp_width (a : IntervalDomain) (op : UnOp) (hbool : op = .boolNegate → a.interval.w = 8)
    (x : BitVec a.interval.w) {r : Bv} (hr : Ref.unOp (toIRUn op) ⟨a.interval.w, x⟩ = .val r) :
    r.w = (a.unOp op).interval.w := by
  cases op <;> simp only [toIRUn, Ref.unOp, valV, valB, Bv.ofBool] at hr
  · simp only [Res.val.injEq] at hr; subst hr
    show _ = (a.interval.bitwiseNot).w
    unfold Interval.bitwiseNot; split <;> rfl
  · simp only [Res.val.injEq] at hr; subst hr
    show _ = (a.interval.int2Comp).w
    unfold Interval.int2Comp; split <;> rfl
  · have h8 := hbool rfl
    have hr8 : r.w = 8 := by
      split at hr
      · cases hr; rfl
      · split at hr
        · cases hr; rfl
        · cases hr
    rw [hr8]
    unfold IntervalDomain.unOp
    simp only
    split
    · split <;> rfl
    · exact h8.symm
  all_goals cases hr

/-- **C02-ref-unop (soundness against the P-Code reference semantics).** For every bit-vector `x` whose
signed reading is a member of γ a: if the reference defines `op x = r`, the signed reading of `r` is a
member of γ (op a), and `r` has the width of the abstract result. -/
theorem unOp_sound_ref (a : IntervalDomain) (op : UnOp) (ha : a.WF) (hbool : op = .boolNegate → a.interval.w = 8)
    (x : BitVec a.interval.w) (hx : a.Mem x.toInt)
    {r : Bv} (hr : Ref.unOp (toIRUn op) ⟨a.interval.w, x⟩ = .val r) :
    (a.unOp op).Mem r.toInt ∧ r.w = (a.unOp op).interval.w :=
  ⟨unOp_sound a op ha hx (ref_unOp_conc op _ ha.1.1 hbool x hr), ref_unOp_width a op hbool x hr⟩

/-! ### `Ref.cast` -/

/-- **C02-ref-cast-conc.** `concCast` yields the signed reading of the reference value; the reference
defines the extensions only towards a width that is not smaller. -/
theorem ref_cast_conc (op : CastOp) (w bytes : Nat) (x : BitVec w)
    {r : Bv} (hr : Ref.cast (toIRCast op) bytes ⟨w, x⟩ = .val r) :
    concCast op w (8 * bytes) x.toInt = some r.toInt ∧ r.w = 8 * bytes ∧
      ((op = .intZExt ∨ op = .intSExt) → w ≤ 8 * bytes) := by
  cases op <;> simp only [toIRCast, Ref.cast, valV] at hr
  · split at hr
    · rename_i h
      simp only [Res.val.injEq] at hr; subst hr
      exact ⟨by simp only [concCast, Bv.toInt, czext_toInt], rfl, fun _ => h⟩
    · cases hr
  · split at hr
    · rename_i h
      simp only [Res.val.injEq] at hr; subst hr
      exact ⟨by simp only [concCast, Bv.toInt, csext_toInt], rfl, fun _ => h⟩
    · cases hr
  · cases hr
  · cases hr
  · cases hr
  · simp only [Res.val.injEq] at hr; subst hr
    exact ⟨by simp only [concCast, Bv.toInt, cpopcount_toInt], rfl, fun h => by rcases h with h | h <;> cases h⟩
  · simp only [Res.val.injEq] at hr; subst hr
    exact ⟨by simp only [concCast, Bv.toInt, clzcount_toInt], rfl, fun h => by rcases h with h | h <;> cases h⟩

/-- **C02-ref-cast (soundness against the P-Code reference semantics).** `bytes` is the target size
(no restriction on the widths of the count casts any more). -/
theorem cast_sound_ref (a : IntervalDomain) (op : CastOp) (bytes : Nat) (ha : a.WF) (hb : 0 < bytes)
    (x : BitVec a.interval.w) (hx : a.Mem x.toInt)
    {r : Bv} (hr : Ref.cast (toIRCast op) bytes ⟨a.interval.w, x⟩ = .val r) :
    (a.cast op (8 * bytes)).Mem r.toInt ∧ r.w = (a.cast op (8 * bytes)).interval.w := by
  obtain ⟨hz, hrw, hext⟩ := ref_cast_conc op _ bytes x hr
  have hw' : 1 < 8 * bytes := by omega
  exact ⟨cast_sound a op (8 * bytes) ha hw' hext hx hz,
    by rw [hrw, (cast_wf a op (8 * bytes) ha hw' hext).2]⟩

/-! ### `Ref.subpieceOp` -/

/-- **C02-ref-subpiece (soundness against the P-Code reference semantics).** `lowByte` bytes are dropped
and `size` bytes kept; the extracted bytes lie inside the operand. -/
theorem subpiece_sound_ref (a : IntervalDomain) (lowByte size : Nat) (ha : a.WF) (hs0 : 0 < size)
    (hs : 8 * lowByte + 8 * size ≤ a.interval.w) (x : BitVec a.interval.w) (hx : a.Mem x.toInt)
    {r : Bv} (hr : Ref.subpieceOp lowByte size ⟨a.interval.w, x⟩ = .val r) :
    (a.subpiece (8 * lowByte) (8 * size)).Mem r.toInt ∧
      r.w = (a.subpiece (8 * lowByte) (8 * size)).interval.w := by
  have hsz : 1 < 8 * size := by omega
  simp only [Ref.subpieceOp, valV] at hr
  split at hr
  · simp only [Res.val.injEq] at hr; subst hr
    refine ⟨?_, (subpiece_wf a _ _ ha hsz hs).2.symm⟩
    simp only [Bv.toInt, ← csubpiece_toInt]
    exact subpiece_sound a _ _ ha hsz hs hx
  · cases hr

/-- under the hypotheses of `subpiece_sound_ref` the reference does define a value -/
theorem ref_subpieceOp_defined (w lowByte size : Nat) (hs0 : 0 < size) (hs : 8 * lowByte + 8 * size ≤ w)
    (x : BitVec w) : Ref.subpieceOp lowByte size ⟨w, x⟩ = .val ⟨8 * size, Ref.subpiece x (8 * lowByte) (8 * size)⟩ := by
  simp only [Ref.subpieceOp, valV]
  rw [if_pos ⟨by omega, by omega⟩]

/-! ### the `Bitvector::bin_op` call inside `bin_op`: model of the code = reference (C01) -/

/-- **C02-conc-is-ref.** The model of `Bitvector::bin_op` and the reference semantics are the same
`conc` parameter — for all operations, widths and operands (outside the admissible operand sizes both
yield no value). Hence `binOp_sound_ref` speaks about `bin_op` with the (model of the) real call. -/
theorem implConc_eq_refConc : implConc = refConc := by
  funext wa wb op x y
  unfold implConc refConc
  by_cases h : C01.WellSizedBin (toIRBin op) ⟨wa, BitVec.ofInt wa x⟩ ⟨wb, BitVec.ofInt wb y⟩
  · rw [C01.binOp_eq_ref _ _ _ h]
  · cases op <;> simp only [toIRBin, C01.WellSizedBin, not_true_eq_false] at h <;>
      simp only [toIRBin, Impl.binOp, Ref.binOp, sameW, sameWErr, h, dite_false, if_false, resInt] <;>
      first | rfl | (by_cases hw : wa > 64 <;> simp only [hw, if_true, if_false])

/-- **C02-impl-binop.** `binOp_sound_ref` with the model of the real `Bitvector::bin_op` on both sides:
as the call inside `bin_op` (`implConc`) and as the concrete semantics of the operation on members. -/
theorem binOp_sound_impl (a b : IntervalDomain) (op : BinOp) (ha : a.WF) (hb : b.WF) (hw1 : 1 < a.interval.w)
    (hwid : BinWidths op a.interval.w b.interval.w) (hbool : isBool op = true → a.interval.w = 8)
    (x : BitVec a.interval.w) (y : BitVec b.interval.w) (hx : a.Mem x.toInt) (hy : b.Mem y.toInt)
    {r : Bv} (hr : Impl.binOp (toIRBin op) ⟨a.interval.w, x⟩ ⟨b.interval.w, y⟩ = .val r) :
    (a.binOp (implConc a.interval.w b.interval.w) op b).Mem r.toInt := by
  have h : implConc a.interval.w b.interval.w op x.toInt y.toInt = refConc a.interval.w b.interval.w op x.toInt y.toInt := by
    rw [implConc_eq_refConc]
  unfold implConc refConc at h
  rw [BitVec.ofInt_toInt, BitVec.ofInt_toInt, hr] at h
  rw [implConc_eq_refConc]
  generalize hR : Ref.binOp (toIRBin op) ⟨a.interval.w, x⟩ ⟨b.interval.w, y⟩ = R at h
  cases R with
  | val r' =>
    simp only [resInt, Option.some.injEq] at h
    rw [h]
    exact (binOp_sound_ref a b op ha hb hw1 hwid hbool x y hx hy hR).1
  | unknown => cases h
  | panic => cases h

/-! ### the reference defines a value under the width hypotheses (the theorems are not vacuous) -/

theorem ref_binOp_add_defined {w : Nat} (x y : BitVec w) :
    Ref.binOp .IntAdd ⟨w, x⟩ ⟨w, y⟩ = .val ⟨w, Ref.add x y⟩ := by
  simp only [Ref.binOp, sameW, dite_true, valV]

theorem ref_binOp_piece_defined {wh wl : Nat} (x : BitVec wh) (y : BitVec wl) :
    Ref.binOp .Piece ⟨wh, x⟩ ⟨wl, y⟩ = .val ⟨wh + wl, Ref.piece x y⟩ := rfl

theorem ref_binOp_left_defined {w v : Nat} (x : BitVec w) (y : BitVec v) (h : y.toNat < 2 ^ 64) :
    Ref.binOp .IntLeft ⟨w, x⟩ ⟨v, y⟩ = .val ⟨w, Ref.shl x y.toNat⟩ := by
  simp only [Ref.binOp, Bv.toNat, h, if_true, valV, C01.Ref.shl_clamp]

/-- `-3 + 25` on the example values of `Props.lean`: the sum of the bit-vectors is a member -/
example : (exA.binOp (refConc 8 8) .intAdd exB).Mem (Ref.add (BitVec.ofInt 8 (-3)) (25#8)).toInt :=
  (binOp_sound_ref exA exB .intAdd exA_wf exB_wf (by decide) rfl (by intro h; cases h)
    (BitVec.ofInt 8 (-3)) (25#8) (by decide) (by decide) (ref_binOp_add_defined _ _)).1

/-- a fall-through operation on singletons is evaluated by the reference itself: `5 <ₛ 30` -/
example : ((IntervalDomain.single 8 5).binOp (refConc 8 8) .intSLess (IntervalDomain.single 8 30)).Mem 1 := by decide

example : (exA.cast .intZExt 16).Mem (Ref.zext (BitVec.ofInt 8 (-1)) 16).toInt :=
  (cast_sound_ref exA .intZExt 2 exA_wf (by decide)
    (BitVec.ofInt 8 (-1)) (by decide) (r := ⟨16, Ref.zext (BitVec.ofInt 8 (-1)) 16⟩) rfl).1

example : (Ref.zext (BitVec.ofInt 8 (-1)) 16).toInt = 255 := by decide
example : (Ref.not (5#8)).toInt = cnot 8 5 := by decide
example : Ref.lzcount (3#8) = 6 ∧ Ref.popcount (0xff#8) = 8 := by decide
end CweModel.C02
