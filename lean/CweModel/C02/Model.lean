/-
C02 — model of the transfer functions of the strided-interval value domain:
`abstract_domain/interval.rs` (`impl RegisterDomain for IntervalDomain`: `bin_op`, `un_op`, `cast`,
`subpiece`, and the private helpers `zero_extend`, `sign_extend`, `subpiece_higher/lower`, `piece`),
`interval/bin_ops.rs` (`add`, `sub`, `signed_mul`, `shift_left`) and
`interval/simple_interval.rs` (the `Interval` methods they call).

Bit-vectors are signed `Int` values + a bit width (see `CweModel.Base.Interval`). Every definition
mirrors the Rust function named in its doc comment, after the repairs of D8 (`signed_mul` stride of a
singleton result), D9 (`signed_mult_with_overflow_flag(-1, MIN)`), of the singleton arithmetic
(`add`/`sub`/`signed_mul`/`int_2_comp` of constants are exact also when they overflow as signed
operations) and of the count casts (`Top` if the bit length of the operand does not fit the result).

The section `Conc` holds the concrete (reference) semantics of the operations on bit-vectors, used by
the specification; it is kept small so that it can be swapped for `CweModel.Base.Bv`.
-/
import CweModel.Base.Interval

namespace CweModel.Itv

/-! ## Conc: concrete semantics of the operations the domain treats specially -/
section Conc

/-- INT_ADD -/
def cadd (w : Nat) (x y : Int) : Int := wrap w (x + y)
/-- INT_SUB -/
def csub (w : Nat) (x y : Int) : Int := wrap w (x - y)
/-- INT_MULT -/
def cmul (w : Nat) (x y : Int) : Int := wrap w (x * y)
/-- INT_2COMP -/
def cneg (w : Nat) (x : Int) : Int := wrap w (-x)
/-- INT_NEGATE (bitwise not): `~x = -x - 1` on signed values -/
def cnot (_w : Nat) (x : Int) : Int := -x - 1
/-- INT_LEFT; `n` is the unsigned shift amount -/
def cshl (w : Nat) (x : Int) (n : Nat) : Int := if n < w then wrap w (x * (2 ^ n : Nat)) else 0
/-- INT_ZEXT from `w` bits to a wider `w'` -/
def czext (w w' : Nat) (x : Int) : Int := wrap w' (toU w x)
/-- INT_SEXT -/
def csext (_w w' : Nat) (x : Int) : Int := wrap w' x
/-- SUBPIECE: drop `low` bits, keep `size` bits -/
def csubpiece (w low size : Nat) (x : Int) : Int := wrap size ((toU w x / 2 ^ low : Nat) : Int)
/-- PIECE: `x` (width `wh`) most significant, `y` (width `wl`) least significant -/
def cpiece (wh wl : Nat) (x y : Int) : Int := wrap (wh + wl) (x * (2 ^ wl : Nat) + toU wl y)

/-- number of set bits of a natural number -/
def popCountNat : Nat → Nat → Nat
  | 0, _ => 0
  | fuel + 1, n => n % 2 + popCountNat fuel (n / 2)

/-- POPCOUNT of a `w`-bit value, result resized (unsigned) to `w'` bits -/
def cpopcount (w w' : Nat) (x : Int) : Int := wrap w' (popCountNat w (toU w x))

/-- number of bits needed to write `n` (0 for 0) -/
def bitLen : Nat → Nat → Nat
  | 0, _ => 0
  | fuel + 1, n => if n = 0 then 0 else 1 + bitLen fuel (n / 2)

/-- `leading_zeros` of a `w`-bit value -/
def leadingZeros (w : Nat) (x : Int) : Nat := w - bitLen w (toU w x)

/-- LZCOUNT, result resized (unsigned) to `w'` bits -/
def clzcount (w w' : Nat) (x : Int) : Int := wrap w' (leadingZeros w x)

end Conc

/-! ## operation names (intermediate_representation/expression.rs) -/

inductive BinOp where
  | piece | intEqual | intNotEqual | intLess | intSLess | intLessEqual | intSLessEqual
  | intAdd | intSub | intCarry | intSCarry | intSBorrow | intXOr | intAnd | intOr
  | intLeft | intRight | intSRight | intMult | intDiv | intRem | intSDiv | intSRem
  | boolXOr | boolAnd | boolOr
  | floatEqual | floatNotEqual | floatLess | floatLessEqual
  | floatAdd | floatSub | floatMult | floatDiv
deriving DecidableEq, Repr, Inhabited

inductive UnOp where
  | intNegate | int2Comp | boolNegate
  | floatNegate | floatAbs | floatSqrt | floatCeil | floatFloor | floatRound | floatNaN
deriving DecidableEq, Repr, Inhabited

inductive CastOp where
  | intZExt | intSExt | int2Float | float2Float | trunc | popCount | lzCount
deriving DecidableEq, Repr, Inhabited

/-- `RegisterDomain::bin_op_bytesize` (in bits) -/
def binOpWidth (op : BinOp) (wl wr : Nat) : Nat :=
  match op with
  | .piece => wl + wr
  | .intAdd | .intSub | .intMult | .intDiv | .intSDiv | .intRem | .intSRem | .intLeft
  | .intRight | .intSRight | .intAnd | .intOr | .intXOr | .floatAdd | .floatSub | .floatMult
  | .floatDiv => wl
  | _ => 8

/-! ## helpers on bit-vectors (intermediate_representation/bitvector.rs) -/

/-- `signed_mult_with_overflow_flag` for widths ≤ 64 bit (repaired, D9: the check
`result / self != rhs` cannot see the overflow of `-1 * MIN` because `MIN / -1` itself wraps). -/
def signedMultWithOverflowFlag (w : Nat) (x y : Int) : Int × Bool :=
  if x = 0 then (0, false)
  else
    let r := wrap w (x * y)
    if (x = -1 ∧ y = smin w) ∨ wrap w (Int.tdiv r x) ≠ y then (r, true) else (r, false)

/-- u64 `<<` in release mode: the shift amount is masked, the result truncated -/
def u64shl (a n : Nat) : Nat := u64 (a <<< (n % 64))

namespace Interval

def smin2 (a b : Int) : Int := if a ≤ b then a else b
def smax2 (a b : Int) : Int := if a ≥ b then a else b

/-- `adjust_to_stride_and_remainder`; `none` = `Err("Empty interval")`. The `i128` arithmetic
cannot overflow for operands of at most 64 bit and is modelled in `Int`. (Repaired: for more than
64 bit the bounds are not adjusted and the stride is set to unknown.) -/
def adjustToStrideAndRemainder (I : Interval) (stride remainder : Nat) : Option Interval :=
  if I.w > 64 then some I.setStrideToUnknown
  else
    let s := I.start
    let e := I.stop
    let d := trem ((remainder : Int) - s) stride
    let d := trem (d + stride) stride
    let s := s + d
    let d := trem (e - (remainder : Int)) stride
    let d := trem (d + stride) stride
    let e := e - d
    if s > 2 ^ 63 - 1 ∨ e < -(2 ^ 63) ∨ s > e then none
    else
      let s := wrap I.w s
      let e := wrap I.w e
      some { w := I.w, start := s, stop := e, stride := if s = e then 0 else stride }

/-- `Interval::zero_extend` (`w'` ≥ `I.w`, in bits) -/
def zeroExtend (I : Interval) (w' : Nat) : Interval :=
  if I.w = w' then I
  else if decide (I.start < 0) == decide (I.stop < 0) then
    { w := w', start := czext I.w w' I.start, stop := czext I.w w' I.stop, stride := I.stride }
  else
    let umax : Int := wrap w' (((2 ^ I.w : Nat) : Int) - 1)
    match tryToI128 I.w I.start with
    | some s =>
      let stride : Int := ((2 ^ trailingZeros64 I.stride : Nat) : Int)
      let rem := trem (trem s stride + stride) stride
      let J : Interval := { w := w', start := 0, stop := umax, stride := toU 64 stride }
      (J.adjustToStrideAndRemainder (toU 64 stride) (toU 64 rem)).getD J
    | none => { w := w', start := 0, stop := umax, stride := 1 }

/-- `Interval::subpiece_higher` (`low` in bits) -/
def subpieceHigher (I : Interval) (low : Nat) : Interval :=
  let s := csubpiece I.w low (I.w - low) I.start
  let e := csubpiece I.w low (I.w - low) I.stop
  { w := I.w - low, start := s, stop := e, stride := if s = e then 0 else 1 }

/-- `Interval::subpiece_lower` (`size` in bits) -/
def subpieceLower (I : Interval) (size : Nat) : Interval :=
  let length := wrap I.w (I.stop - I.start)
  if toU I.w length ≤ 2 ^ size - 1 then
    let s := wrap size I.start
    let e := wrap size I.stop
    if s ≤ e then { w := size, start := s, stop := e, stride := I.stride } else newTop size
  else newTop size

/-- `Interval::subpiece` -/
def subpiece (I : Interval) (low size : Nat) : Interval :=
  let I := if low ≠ 0 then I.subpieceHigher low else I
  if I.w > size then I.subpieceLower size else I

/-- `Interval::piece` -/
def piece (I J : Interval) : Interval :=
  let w := I.w + J.w
  if J.start < 0 ∧ ¬ J.stop < 0 then
    let K : Interval := { w := w, start := cpiece I.w J.w I.start 0, stop := cpiece I.w J.w I.stop (-1), stride := 1 }
    if J.w > 64 then K
    else
      let stride := u64shl 1 (trailingZeros64 J.stride)
      let rem := trem J.start stride
      let rem := toU 64 (trem (rem + stride) stride)
      (K.adjustToStrideAndRemainder stride rem).getD K
  else
    let stride :=
      if I.stride = 0 then J.stride
      else if J.stride = 0 then (if J.w ≤ leadingZeros 64 I.stride then u64shl I.stride J.w else 1)
      else u64shl 1 (trailingZeros64 J.stride)
    { w := w, start := cpiece I.w J.w I.start J.start, stop := cpiece I.w J.w I.stop J.stop, stride := stride }

/-- `Interval::int_2_comp` (repaired: a singleton is negated exactly, also `-MIN = MIN`) -/
def int2Comp (I : Interval) : Interval :=
  if I.start = I.stop ∨ I.start > smin I.w then { I with start := cneg I.w I.stop, stop := cneg I.w I.start }
  else newTop I.w

/-- `Interval::bitwise_not` -/
def bitwiseNot (I : Interval) : Interval :=
  if I.start = I.stop then single I.w (cnot I.w I.start) else newTop I.w

/-- `Interval::add` (repaired: the sum of two singletons is the singleton of the wrapping sum, also
when it overflows as a signed addition) -/
def add (I J : Interval) : Interval :=
  if I.start = I.stop ∧ J.start = J.stop then single I.w (cadd I.w I.start J.start) else
  match signedAddOverflowChecked I.w I.start J.start, signedAddOverflowChecked I.w I.stop J.stop with
  | some s, some e => { w := I.w, start := s, stop := e, stride := Nat.gcd I.stride J.stride }
  | _, _ => newTop I.w

/-- `Interval::sub` (repaired like `add`) -/
def sub (I J : Interval) : Interval :=
  if I.start = I.stop ∧ J.start = J.stop then single I.w (csub I.w I.start J.start) else
  match signedSubOverflowChecked I.w I.start J.stop, signedSubOverflowChecked I.w I.stop J.start with
  | some s, some e => { w := I.w, start := s, stop := e, stride := Nat.gcd I.stride J.stride }
  | _, _ => newTop I.w

/-- `Interval::signed_mul` (repaired, D8: stride 0 for a singleton result; the product of two
singletons of at most 64 bit is the singleton of the wrapping product, also when it overflows) -/
def signedMul (I J : Interval) : Interval :=
  if I.w > 64 then newTop I.w
  else if I.start = I.stop ∧ J.start = J.stop then single I.w (cmul I.w I.start J.start)
  else
    let v1 := signedMultWithOverflowFlag I.w I.start J.start
    let v2 := signedMultWithOverflowFlag I.w I.start J.stop
    let v3 := signedMultWithOverflowFlag I.w I.stop J.start
    let v4 := signedMultWithOverflowFlag I.w I.stop J.stop
    if v1.2 || v2.2 || v3.2 || v4.2 then newTop I.w
    else
      let mn := smin2 v1.1 (smin2 v2.1 (smin2 v3.1 v4.1))
      let mx := smax2 v1.1 (smax2 v2.1 (smax2 v3.1 v4.1))
      { w := I.w, start := mn, stop := mx, stride := if mn = mx then 0 else Nat.gcd I.stride J.stride }

end Interval

namespace IntervalDomain
open Interval

/-- `IntervalDomain::zero_extend` -/
def zeroExtend (a : IntervalDomain) (w' : Nat) : IntervalDomain :=
  let I := a.interval
  let sameSign := decide (I.start < 0) == decide (I.stop < 0)
  let lower := match a.lower with
    | some b => if (decide (b < 0) == decide (I.start < 0)) && sameSign then some (czext I.w w' b) else none
    | none => none
  let upper := match a.upper with
    | some b => if (decide (b < 0) == decide (I.stop < 0)) && sameSign then some (czext I.w w' b) else none
    | none => none
  { interval := I.zeroExtend w', lower := lower, upper := upper, delay := a.delay }

/-- `IntervalDomain::sign_extend` -/
def signExtend (a : IntervalDomain) (w' : Nat) : IntervalDomain :=
  let I := a.interval
  { interval := { w := w', start := csext I.w w' I.start, stop := csext I.w w' I.stop, stride := I.stride },
    lower := a.lower.map (csext I.w w'), upper := a.upper.map (csext I.w w'), delay := a.delay }

/-- `IntervalDomain::subpiece_higher` -/
def subpieceHigher (a : IntervalDomain) (low : Nat) : IntervalDomain :=
  let old := a.interval.w
  let I := a.interval.subpieceHigher low
  let lower := match a.lower with
    | some b => let b := csubpiece old low (old - low) b; if b < I.start then some b else none
    | none => none
  let upper := match a.upper with
    | some b => let b := csubpiece old low (old - low) b; if b > I.stop then some b else none
    | none => none
  { interval := I, lower := lower, upper := upper, delay := a.delay >>> (low % 64) }

/-- `IntervalDomain::subpiece_lower` -/
def subpieceLower (a : IntervalDomain) (size : Nat) : IntervalDomain :=
  let w := a.interval.w
  let maxLength : Nat := 2 ^ size - 1
  let T := a.interval.subpieceLower size
  let lower := match a.lower with
    | some b =>
      if toU w (wrap w (a.interval.start - b)) < maxLength then
        let tb := csubpiece w 0 size b
        if tb < T.start then some tb else none
      else none
    | none => none
  let upper := match a.upper with
    | some b =>
      if toU w (wrap w (b - a.interval.stop)) < maxLength then
        let tb := csubpiece w 0 size b
        if tb > T.stop then some tb else none
      else none
    | none => none
  { interval := T, lower := lower, upper := upper, delay := a.delay }

/-- `IntervalDomain::piece` -/
def piece (a b : IntervalDomain) : IntervalDomain :=
  let P := a.interval.piece b.interval
  match a.tryToBitvec with
  | some up =>
    let lower := match b.lower with
      | some bd => let pb := cpiece a.w b.w up bd; if pb < P.start then some pb else none
      | none => none
    let upper := match b.upper with
      | some bd => let pb := cpiece a.w b.w up bd; if pb > P.stop then some pb else none
      | none => none
    { interval := P, lower := lower, upper := upper, delay := b.delay }
  | none => { interval := P, lower := none, upper := none, delay := 0 }

/-- `IntervalDomain::add` (bin_ops.rs) -/
def add (a b : IntervalDomain) : IntervalDomain :=
  let r := ofInterval (a.interval.add b.interval)
  if r.isTop then r
  else
    let w := a.w
    let r := { r with delay := max a.delay b.delay }
    let r := r.updateLower (a.lower.bind fun bd => signedAddOverflowChecked w bd b.interval.start)
    let r := r.updateLower (b.lower.bind fun bd => signedAddOverflowChecked w bd a.interval.start)
    let r := r.updateUpper (a.upper.bind fun bd => signedAddOverflowChecked w bd b.interval.stop)
    let r := r.updateUpper (b.upper.bind fun bd => signedAddOverflowChecked w bd a.interval.stop)
    r

/-- `IntervalDomain::sub` (bin_ops.rs) -/
def sub (a b : IntervalDomain) : IntervalDomain :=
  let r := ofInterval (a.interval.sub b.interval)
  if r.isTop then r
  else
    let w := a.w
    let r := { r with delay := max a.delay b.delay }
    let r := r.updateLower (a.lower.bind fun bd => signedSubOverflowChecked w bd b.interval.stop)
    let r := r.updateLower (b.upper.bind fun bd => signedSubOverflowChecked w a.interval.start bd)
    let r := r.updateUpper (a.upper.bind fun bd => signedSubOverflowChecked w bd b.interval.start)
    let r := r.updateUpper (b.lower.bind fun bd => signedSubOverflowChecked w a.interval.stop bd)
    r

/-- the product of two optional hints if it does not overflow -/
def hintProduct (w : Nat) (x y : Option Int) : List Int :=
  match x, y with
  | some x, some y => let r := signedMultWithOverflowFlag w x y; if r.2 then [] else [r.1]
  | _, _ => []

/-- `IntervalDomain::signed_mul` (bin_ops.rs) -/
def signedMul (a b : IntervalDomain) : IntervalDomain :=
  let I := a.interval.signedMul b.interval
  if I.isTop then ofInterval I
  else
    let w := a.w
    let bounds := hintProduct w a.lower b.lower ++ hintProduct w a.lower b.upper ++
      hintProduct w a.upper b.lower ++ hintProduct w a.upper b.upper
    let lower := bounds.foldl (fun (acc : Option Int) bd =>
      if bd < I.start then
        match acc with
        | some prev => if prev < bd then some bd else acc
        | none => some bd
      else acc) none
    let upper := bounds.foldl (fun (acc : Option Int) bd =>
      if bd > I.stop then
        match acc with
        | some prev => if prev > bd then some bd else acc
        | none => some bd
      else acc) none
    { interval := I, lower := lower, upper := upper, delay := max a.delay b.delay }

/-- `IntervalDomain::shift_left` (bin_ops.rs); the shift amount of a singleton `rhs` is read with
`try_to_u64().unwrap()` (panics for amounts ≥ 2^64, not modelled: harness widths are ≤ 64 bit) -/
def shiftLeft (a b : IntervalDomain) : IntervalDomain :=
  if b.interval.start = b.interval.stop then
    let n := toU b.w b.interval.start
    if n < a.w then a.signedMul (single a.w (wrap a.w ((2 ^ n : Nat) : Int)))
    else single a.w 0
  else newTop a.w

/-- `RegisterDomain::bin_op`. `conc` is the concrete evaluation `Bitvector::bin_op(op, ·, ·)` of the
operations the domain only evaluates on singletons (`none` = `Err`, e.g. division by zero or
float operations); the result has width `binOpWidth`. -/
def binOp (conc : BinOp → Int → Int → Option Int) (a : IntervalDomain) (op : BinOp) (b : IntervalDomain) :
    IntervalDomain :=
  match op with
  | .piece => a.piece b
  | .intAdd => a.add b
  | .intSub => a.sub b
  | .intMult => a.signedMul b
  | .intLeft => a.shiftLeft b
  | _ =>
    let wr := binOpWidth op a.w b.w
    let I :=
      if a.interval.start = a.interval.stop ∧ b.interval.start = b.interval.stop then
        match conc op a.interval.start b.interval.start with
        | some v => Interval.single wr v
        | none => Interval.newTop wr
      else Interval.newTop wr
    { interval := I, lower := none, upper := none, delay := max a.delay b.delay }

/-- `RegisterDomain::un_op` -/
def unOp (a : IntervalDomain) (op : UnOp) : IntervalDomain :=
  match op with
  | .int2Comp =>
    let upper := match a.lower with
      | some b => if b > smin a.w then some (cneg a.w b) else none
      | none => none
    { interval := a.interval.int2Comp, lower := a.upper.map (cneg a.w), upper := upper, delay := a.delay }
  | .intNegate => { interval := a.interval.bitwiseNot, lower := none, upper := none, delay := a.delay }
  | .boolNegate =>
    if a.interval.start = a.interval.stop then
      if a.interval.start = 0 ∧ a.w = 8 then single 8 1 else single 8 0
    else newTop a.w
  | .floatNaN => newTop 8
  | _ => newTop a.w

/-- `RegisterDomain::subpiece` (`low`, `size` in bits) -/
def subpiece (a : IntervalDomain) (low size : Nat) : IntervalDomain :=
  let a := if low ≠ 0 then a.subpieceHigher low else a
  if a.w > size then a.subpieceLower size else a

/-- the fallback of the count casts: `IntervalDomain::new(0, bit length)` -/
def countRange (w w' : Nat) : IntervalDomain := new w' 0 (wrap w' (w : Int))

/-- the guard of the count casts (repair of the ill-formed `[0, 128 as i8]`): the bit length `w` of the
operand — the largest possible count — is a non-negative signed `w'`-bit value. Rust computes it on
`usize` as `!(w' <= 64 && w >> (w' - 1) != 0)`; see `countFits_eq_rust`. -/
def countFits (w w' : Nat) : Bool := decide ((w : Int) ≤ smax w')

/-- `RegisterDomain::cast` (`w'` in bits). Repaired: a count cast of a non-constant whose bit length does
not fit the result yields `Top`. -/
def cast (a : IntervalDomain) (kind : CastOp) (w' : Nat) : IntervalDomain :=
  match kind with
  | .intZExt => if a.w = w' then a else a.zeroExtend w'
  | .intSExt => a.signExtend w'
  | .float2Float | .int2Float | .trunc => newTop w'
  | .popCount =>
    if a.tryToBitvec.isNone && !countFits a.w w' then newTop w'
    else match a.tryToBitvec with
    | some x => single w' (cpopcount a.w w' x)
    | none => countRange a.w w'
  | .lzCount =>
    if a.tryToBitvec.isNone && !countFits a.w w' then newTop w'
    else if a.isTop then countRange a.w w'
    else
      let s := leadingZeros a.w a.interval.start
      let e := leadingZeros a.w a.interval.stop
      if s ≥ e then new w' (wrap w' (e : Int)) (wrap w' (s : Int))
      else countRange a.w w'

end IntervalDomain

/-! ## executable specification (evaluated by the driver on the IMPLEMENTATION output) -/

/-- all members of a (small) interval, by enumeration of the signed range between the bounds -/
def Interval.members (I : Interval) : List Int :=
  (List.range (I.stop - I.start + 1).toNat).filterMap fun (k : Nat) =>
    let x := I.start + (k : Int)
    if I.Mem x then some x else none

/-- the soundness half of the spec for a binary operation: every `f x y` of members is a member of `r` -/
def specBin (f : Int → Int → Int) (xs ys : List Int) (r : Interval) : Option (Int × Int) :=
  xs.findSome? fun x => ys.findSome? fun y => if r.Mem (f x y) then none else some (x, y)

def specUn (f : Int → Int) (xs : List Int) (r : Interval) : Option Int :=
  xs.find? fun x => ¬ r.Mem (f x)

end CweModel.Itv
