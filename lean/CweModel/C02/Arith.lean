/-
C02 — lemmas and theorems for the additive operations: `add`, `sub`, `int_2_comp`, `bitwise_not`,
and the hint bookkeeping (`update_widening_*_bound` never touches the interval).
-/
import CweModel.C02.Model

namespace CweModel.C02
open CweModel.Itv

/-! ### overflow-checked addition / subtraction (bitvector.rs) -/

theorem sAOC_spec (w : Nat) (hw : 0 < w) {x y : Int} (hx : InRange w x) (hy : InRange w y) :
    signedAddOverflowChecked w x y = if InRange w (x + y) then some (x + y) else none := by
  have h2 := pow2_eq w hw
  have hp := pow2_pos (w - 1)
  unfold signedAddOverflowChecked
  rcases wrap_cases w hw (x + y) (by unfold InRange smin smax at *; omega)
      (by unfold InRange smin smax at *; omega) with ⟨hr, he⟩ | ⟨hr, he⟩ | ⟨hr, he⟩
  · simp only [he, hr, if_true]
    by_cases hy0 : y < 0 <;> simp [hy0] <;> omega
  · have hn : ¬ InRange w (x + y) := by unfold InRange; omega
    simp only [he, hn, if_false]
    unfold InRange smin smax at *
    by_cases hy0 : y < 0 <;> simp [hy0] <;> omega
  · have hn : ¬ InRange w (x + y) := by unfold InRange; omega
    simp only [he, hn, if_false]
    unfold InRange smin smax at *
    by_cases hy0 : y < 0 <;> simp [hy0] <;> omega

theorem sSOC_spec (w : Nat) (hw : 0 < w) {x y : Int} (hx : InRange w x) (hy : InRange w y) :
    signedSubOverflowChecked w x y = if InRange w (x - y) then some (x - y) else none := by
  have h2 := pow2_eq w hw
  have hp := pow2_pos (w - 1)
  unfold signedSubOverflowChecked
  rcases wrap_cases w hw (x - y) (by unfold InRange smin smax at *; omega)
      (by unfold InRange smin smax at *; omega) with ⟨hr, he⟩ | ⟨hr, he⟩ | ⟨hr, he⟩
  · simp only [he, hr, if_true]
    by_cases hy0 : y < 0 <;> simp [hy0] <;> omega
  · have hn : ¬ InRange w (x - y) := by unfold InRange; omega
    simp only [he, hn, if_false]
    unfold InRange smin smax at *
    by_cases hy0 : y < 0 <;> simp [hy0] <;> omega
  · have hn : ¬ InRange w (x - y) := by unfold InRange; omega
    simp only [he, hn, if_false]
    unfold InRange smin smax at *
    by_cases hy0 : y < 0 <;> simp [hy0] <;> omega

/-! ### divisibility by the gcd of the strides -/

theorem gcd_dvd_left_int (s t : Nat) {a : Int} (h : (s : Int) ∣ a) : ((Nat.gcd s t : Nat) : Int) ∣ a :=
  Int.dvd_trans (Int.natCast_dvd_natCast.mpr (Nat.gcd_dvd_left s t)) h

theorem gcd_dvd_right_int (s t : Nat) {a : Int} (h : (t : Int) ∣ a) : ((Nat.gcd s t : Nat) : Int) ∣ a :=
  Int.dvd_trans (Int.natCast_dvd_natCast.mpr (Nat.gcd_dvd_right s t)) h

theorem gcd_lt (s t : Nat) (hs : s < 2 ^ 64) (ht : t < 2 ^ 64) : Nat.gcd s t < 2 ^ 64 := by
  rcases Nat.eq_zero_or_pos s with h | h
  · subst h; simpa using ht
  · exact Nat.lt_of_le_of_lt (Nat.gcd_le_left t h) hs

theorem gcd_eq_zero (s t : Nat) : Nat.gcd s t = 0 ↔ s = 0 ∧ t = 0 := Nat.gcd_eq_zero_iff

/-! ### `Interval::add` -/

/-- **C02-add (soundness).** -/
theorem add_sound (I J : Interval) (hI : I.WF) (hJ : J.WF) (hw : J.w = I.w) {x y : Int}
    (hx : I.Mem x) (hy : J.Mem y) : (I.add J).Mem (cadd I.w x y) := by
  obtain ⟨hw0, hIs, hIe, hIle, _, _, _⟩ := hI
  obtain ⟨_, hJs, hJe, hJle, _, _, _⟩ := hJ
  rw [hw] at hJs hJe
  obtain ⟨hx1, hx2, hx3⟩ := hx
  obtain ⟨hy1, hy2, hy3⟩ := hy
  unfold Interval.add
  split
  · -- both singletons: the exact (wrapping) sum
    rename_i hs
    have hxs : x = I.start := by omega
    have hys : y = J.start := by omega
    subst hxs hys
    exact (Interval.mem_single _ _ _).mpr rfl
  unfold cadd
  rw [sAOC_spec I.w hw0 hIs hJs, sAOC_spec I.w hw0 hIe hJe]
  by_cases h1 : InRange I.w (I.start + J.start) <;> by_cases h2 : InRange I.w (I.stop + J.stop)
  · simp only [h1, h2, if_true]
    have hin : InRange I.w (x + y) := by unfold InRange at *; omega
    rw [wrap_of_inRange I.w hw0 hin]
    refine ⟨by show I.start + J.start ≤ x + y; omega, by show x + y ≤ I.stop + J.stop; omega, ?_⟩
    show ((Nat.gcd I.stride J.stride : Nat) : Int) ∣ x + y - (I.start + J.start)
    have : x + y - (I.start + J.start) = (x - I.start) + (y - J.start) := by omega
    rw [this]
    exact Int.dvd_add (gcd_dvd_left_int _ _ hx3) (gcd_dvd_right_int _ _ hy3)
  all_goals
    simp only [h1, h2, if_true, if_false]
    exact (Interval.mem_newTop _ _).mpr (wrap_inRange I.w hw0 _)

/-- **C02-add (well-formedness).** -/
theorem add_wf (I J : Interval) (hI : I.WF) (hJ : J.WF) (hw : J.w = I.w) (hw1 : 1 < I.w) :
    (I.add J).WF ∧ (I.add J).w = I.w := by
  obtain ⟨hw0, hIs, hIe, hIle, hI0, hId, hIu⟩ := hI
  obtain ⟨_, hJs, hJe, hJle, hJ0, hJd, hJu⟩ := hJ
  rw [hw] at hJs hJe
  unfold Interval.add
  split
  · exact ⟨Interval.wf_single _ hw0 _ (wrap_inRange I.w hw0 _), rfl⟩
  rw [sAOC_spec I.w hw0 hIs hJs, sAOC_spec I.w hw0 hIe hJe]
  by_cases h1 : InRange I.w (I.start + J.start) <;> by_cases h2 : InRange I.w (I.stop + J.stop)
  · simp only [h1, h2, if_true]
    refine ⟨⟨hw0, h1, h2, by show I.start + J.start ≤ I.stop + J.stop; omega, ?_, ?_, gcd_lt _ _ hIu hJu⟩, trivial⟩
    · show Nat.gcd I.stride J.stride = 0 ↔ I.start + J.start = I.stop + J.stop
      rw [gcd_eq_zero]; constructor
      · rintro ⟨a, b⟩; have := hI0.mp a; have := hJ0.mp b; omega
      · intro h; exact ⟨hI0.mpr (by omega), hJ0.mpr (by omega)⟩
    · show ((Nat.gcd I.stride J.stride : Nat) : Int) ∣ I.stop + J.stop - (I.start + J.start)
      have : I.stop + J.stop - (I.start + J.start) = (I.stop - I.start) + (J.stop - J.start) := by omega
      rw [this]
      exact Int.dvd_add (gcd_dvd_left_int _ _ hId) (gcd_dvd_right_int _ _ hJd)
  all_goals
    simp only [h1, h2, if_true, if_false]
    exact ⟨Interval.wf_newTop _ hw1, rfl⟩

/-! ### `Interval::sub` -/

/-- **C02-sub (soundness).** -/
theorem sub_sound (I J : Interval) (hI : I.WF) (hJ : J.WF) (hw : J.w = I.w) {x y : Int}
    (hx : I.Mem x) (hy : J.Mem y) : (I.sub J).Mem (csub I.w x y) := by
  obtain ⟨hw0, hIs, hIe, hIle, _, _, _⟩ := hI
  obtain ⟨_, hJs, hJe, hJle, _, hJd, _⟩ := hJ
  rw [hw] at hJs hJe
  obtain ⟨hx1, hx2, hx3⟩ := hx
  obtain ⟨hy1, hy2, hy3⟩ := hy
  unfold Interval.sub
  split
  · rename_i hs
    have hxs : x = I.start := by omega
    have hys : y = J.start := by omega
    subst hxs hys
    exact (Interval.mem_single _ _ _).mpr rfl
  unfold csub
  rw [sSOC_spec I.w hw0 hIs hJe, sSOC_spec I.w hw0 hIe hJs]
  by_cases h1 : InRange I.w (I.start - J.stop) <;> by_cases h2 : InRange I.w (I.stop - J.start)
  · simp only [h1, h2, if_true]
    have hin : InRange I.w (x - y) := by unfold InRange at *; omega
    rw [wrap_of_inRange I.w hw0 hin]
    refine ⟨by show I.start - J.stop ≤ x - y; omega, by show x - y ≤ I.stop - J.start; omega, ?_⟩
    show ((Nat.gcd I.stride J.stride : Nat) : Int) ∣ x - y - (I.start - J.stop)
    have : x - y - (I.start - J.stop) = (x - I.start) + ((J.stop - J.start) - (y - J.start)) := by omega
    rw [this]
    exact Int.dvd_add (gcd_dvd_left_int _ _ hx3)
      (Int.dvd_sub (gcd_dvd_right_int _ _ hJd) (gcd_dvd_right_int _ _ hy3))
  all_goals
    simp only [h1, h2, if_true, if_false]
    exact (Interval.mem_newTop _ _).mpr (wrap_inRange I.w hw0 _)

/-- **C02-sub (well-formedness).** -/
theorem sub_wf (I J : Interval) (hI : I.WF) (hJ : J.WF) (hw : J.w = I.w) (hw1 : 1 < I.w) :
    (I.sub J).WF ∧ (I.sub J).w = I.w := by
  obtain ⟨hw0, hIs, hIe, hIle, hI0, hId, hIu⟩ := hI
  obtain ⟨_, hJs, hJe, hJle, hJ0, hJd, hJu⟩ := hJ
  rw [hw] at hJs hJe
  unfold Interval.sub
  split
  · exact ⟨Interval.wf_single _ hw0 _ (wrap_inRange I.w hw0 _), rfl⟩
  rw [sSOC_spec I.w hw0 hIs hJe, sSOC_spec I.w hw0 hIe hJs]
  by_cases h1 : InRange I.w (I.start - J.stop) <;> by_cases h2 : InRange I.w (I.stop - J.start)
  · simp only [h1, h2, if_true]
    refine ⟨⟨hw0, h1, h2, by show I.start - J.stop ≤ I.stop - J.start; omega, ?_, ?_, gcd_lt _ _ hIu hJu⟩, trivial⟩
    · show Nat.gcd I.stride J.stride = 0 ↔ I.start - J.stop = I.stop - J.start
      rw [gcd_eq_zero]; constructor
      · rintro ⟨a, b⟩; have := hI0.mp a; have := hJ0.mp b; omega
      · intro h; exact ⟨hI0.mpr (by omega), hJ0.mpr (by omega)⟩
    · show ((Nat.gcd I.stride J.stride : Nat) : Int) ∣ I.stop - J.start - (I.start - J.stop)
      have : I.stop - J.start - (I.start - J.stop) = (I.stop - I.start) + (J.stop - J.start) := by omega
      rw [this]
      exact Int.dvd_add (gcd_dvd_left_int _ _ hId) (gcd_dvd_right_int _ _ hJd)
  all_goals
    simp only [h1, h2, if_true, if_false]
    exact ⟨Interval.wf_newTop _ hw1, rfl⟩

/-! ### `Interval::int_2_comp` -/

theorem cneg_of_gt_smin (w : Nat) (hw : 0 < w) {x : Int} (hx : InRange w x) (h : smin w < x) :
    cneg w x = -x ∧ InRange w (-x) := by
  have hin : InRange w (-x) := by unfold InRange smin smax at *; omega
  exact ⟨wrap_of_inRange w hw hin, hin⟩

/-- **C02-int2comp (soundness).** -/
theorem int2Comp_sound (I : Interval) (hI : I.WF) {x : Int} (hx : I.Mem x) :
    I.int2Comp.Mem (cneg I.w x) := by
  obtain ⟨hw0, hIs, hIe, hIle, _, hId, _⟩ := hI
  obtain ⟨hx1, hx2, hx3⟩ := hx
  unfold Interval.int2Comp
  split
  · rename_i h
    by_cases hsing : I.start = I.stop
    · -- a singleton is negated exactly (also `-MIN = MIN`)
      have hxs : x = I.start := by omega
      subst hxs
      show cneg I.w I.stop ≤ cneg I.w I.start ∧ cneg I.w I.start ≤ cneg I.w I.start ∧
        (I.stride : Int) ∣ cneg I.w I.start - cneg I.w I.stop
      rw [← hsing]
      exact ⟨Int.le_refl _, Int.le_refl _, by simp⟩
    have h : I.start > smin I.w := h.resolve_left hsing
    have hxin : InRange I.w x := by unfold InRange at *; omega
    rw [(cneg_of_gt_smin I.w hw0 hxin (by omega)).1]
    show cneg I.w I.stop ≤ -x ∧ -x ≤ cneg I.w I.start ∧ (I.stride : Int) ∣ -x - cneg I.w I.stop
    rw [(cneg_of_gt_smin I.w hw0 hIe (by omega)).1, (cneg_of_gt_smin I.w hw0 hIs h).1]
    refine ⟨by omega, by omega, ?_⟩
    have : -x - -I.stop = (I.stop - I.start) - (x - I.start) := by omega
    rw [this]; exact Int.dvd_sub hId hx3
  · exact (Interval.mem_newTop _ _).mpr (wrap_inRange I.w hw0 _)

/-- **C02-int2comp (well-formedness).** -/
theorem int2Comp_wf (I : Interval) (hI : I.WF) (hw1 : 1 < I.w) :
    I.int2Comp.WF ∧ I.int2Comp.w = I.w := by
  obtain ⟨hw0, hIs, hIe, hIle, hI0, hId, hIu⟩ := hI
  unfold Interval.int2Comp
  split
  · rename_i h
    by_cases hsing : I.start = I.stop
    · refine ⟨⟨hw0, wrap_inRange I.w hw0 _, wrap_inRange I.w hw0 _, ?_, ?_, ?_, hIu⟩, rfl⟩
      · show cneg I.w I.stop ≤ cneg I.w I.start
        rw [hsing]; exact Int.le_refl _
      · show I.stride = 0 ↔ cneg I.w I.stop = cneg I.w I.start
        rw [hsing]; simp only [iff_true]; exact hI0.mpr hsing
      · show (I.stride : Int) ∣ cneg I.w I.start - cneg I.w I.stop
        rw [hsing]; simp
    have h : I.start > smin I.w := h.resolve_left hsing
    refine ⟨⟨hw0, ?_, ?_, ?_, ?_, ?_, hIu⟩, rfl⟩
    · show InRange I.w (cneg I.w I.stop)
      rw [(cneg_of_gt_smin I.w hw0 hIe (by omega)).1]; exact (cneg_of_gt_smin I.w hw0 hIe (by omega)).2
    · show InRange I.w (cneg I.w I.start)
      rw [(cneg_of_gt_smin I.w hw0 hIs h).1]; exact (cneg_of_gt_smin I.w hw0 hIs h).2
    · show cneg I.w I.stop ≤ cneg I.w I.start
      rw [(cneg_of_gt_smin I.w hw0 hIe (by omega)).1, (cneg_of_gt_smin I.w hw0 hIs h).1]; omega
    · show I.stride = 0 ↔ cneg I.w I.stop = cneg I.w I.start
      rw [(cneg_of_gt_smin I.w hw0 hIe (by omega)).1, (cneg_of_gt_smin I.w hw0 hIs h).1, hI0]
      constructor <;> intro h' <;> omega
    · show (I.stride : Int) ∣ cneg I.w I.start - cneg I.w I.stop
      rw [(cneg_of_gt_smin I.w hw0 hIe (by omega)).1, (cneg_of_gt_smin I.w hw0 hIs h).1]
      have : -I.start - -I.stop = I.stop - I.start := by omega
      rw [this]; exact hId
  · exact ⟨Interval.wf_newTop _ hw1, rfl⟩

/-! ### `Interval::bitwise_not` -/

theorem cnot_inRange (w : Nat) {x : Int} (hx : InRange w x) : InRange w (cnot w x) := by
  unfold cnot InRange smin smax at *; omega

/-- **C02-not (soundness).** -/
theorem bitwiseNot_sound (I : Interval) (hI : I.WF) {x : Int} (hx : I.Mem x) :
    I.bitwiseNot.Mem (cnot I.w x) := by
  obtain ⟨hw0, hIs, hIe, hIle, _, _, _⟩ := hI
  obtain ⟨hx1, hx2, hx3⟩ := hx
  unfold Interval.bitwiseNot
  split
  · rename_i h
    have : x = I.start := by omega
    subst this
    exact (Interval.mem_single _ _ _).mpr rfl
  · exact (Interval.mem_newTop _ _).mpr (cnot_inRange _ (by unfold InRange at *; omega))

/-- **C02-not (well-formedness).** -/
theorem bitwiseNot_wf (I : Interval) (hI : I.WF) (hw1 : 1 < I.w) :
    I.bitwiseNot.WF ∧ I.bitwiseNot.w = I.w := by
  obtain ⟨hw0, hIs, _⟩ := hI
  unfold Interval.bitwiseNot
  split
  · exact ⟨Interval.wf_single _ hw0 _ (cnot_inRange _ hIs), rfl⟩
  · exact ⟨Interval.wf_newTop _ hw1, rfl⟩

/-! ### the hint bookkeeping never touches the interval -/

theorem updateLower_interval (a : IntervalDomain) (b : Option Int) :
    (a.updateLower b).interval = a.interval := by
  unfold IntervalDomain.updateLower
  repeat' split
  all_goals rfl

theorem updateUpper_interval (a : IntervalDomain) (b : Option Int) :
    (a.updateUpper b).interval = a.interval := by
  unfold IntervalDomain.updateUpper
  repeat' split
  all_goals rfl

theorem updateLower_delay (a : IntervalDomain) (b : Option Int) : (a.updateLower b).delay = a.delay := by
  unfold IntervalDomain.updateLower
  repeat' split
  all_goals rfl

theorem updateUpper_delay (a : IntervalDomain) (b : Option Int) : (a.updateUpper b).delay = a.delay := by
  unfold IntervalDomain.updateUpper
  repeat' split
  all_goals rfl

theorem roundUp_inRange (x : Int) (I : Interval) (hw : 0 < I.w) (hx : InRange I.w x) {r : Int}
    (h : roundUpToStrideOf x I = some r) : InRange I.w r := by
  unfold roundUpToStrideOf at h
  split at h
  · cases h; exact hx
  · simp only at h
    split at h
    · cases h
    · cases h; exact wrap_inRange _ hw _

theorem roundDown_inRange (x : Int) (I : Interval) (hw : 0 < I.w) (hx : InRange I.w x) {r : Int}
    (h : roundDownToStrideOf x I = some r) : InRange I.w r := by
  unfold roundDownToStrideOf at h
  split at h
  · cases h; exact hx
  · simp only at h
    split at h
    · cases h
    · cases h; exact wrap_inRange _ hw _

/-- `update_widening_lower_bound` keeps a well-formed value well-formed if the new hint is a `w`-bit value -/
theorem updateLower_wf (a : IntervalDomain) (b : Option Int) (ha : a.WF)
    (hb : ∀ v, b = some v → InRange a.interval.w v) : (a.updateLower b).WF := by
  obtain ⟨hI, hu, hl, hd⟩ := ha
  unfold IntervalDomain.updateLower
  cases b with
  | none => exact ⟨hI, hu, hl, hd⟩
  | some v =>
    simp only
    cases hr : roundUpToStrideOf v a.interval with
    | none => exact ⟨hI, hu, hl, hd⟩
    | some r =>
      have hrin := roundUp_inRange v a.interval hI.1 (hb v rfl) hr
      simp only
      repeat' split
      all_goals first
        | exact ⟨hI, hu, hl, hd⟩
        | exact ⟨hI, hu, by intro l hl'; cases hl'; exact hrin, hd⟩

theorem updateUpper_wf (a : IntervalDomain) (b : Option Int) (ha : a.WF)
    (hb : ∀ v, b = some v → InRange a.interval.w v) : (a.updateUpper b).WF := by
  obtain ⟨hI, hu, hl, hd⟩ := ha
  unfold IntervalDomain.updateUpper
  cases b with
  | none => exact ⟨hI, hu, hl, hd⟩
  | some v =>
    simp only
    cases hr : roundDownToStrideOf v a.interval with
    | none => exact ⟨hI, hu, hl, hd⟩
    | some r =>
      have hrin := roundDown_inRange v a.interval hI.1 (hb v rfl) hr
      simp only
      repeat' split
      all_goals first
        | exact ⟨hI, hu, hl, hd⟩
        | exact ⟨hI, by intro l hl'; cases hl'; exact hrin, hl, hd⟩

end CweModel.C02
