/- C06 model driver: executes the model and the executable specification on harness cases. -/
import CweModel.Base.Proto
import CweModel.C06.Model
open Lean CweModel.Proto

namespace CweModel.C06

/-! ### parsing the serde forms -/

def parseBrickDomain (j : Json) : Except String BrickDomain :=
  match j with
  | .str "Top" => .ok .top
  | _ => do
    let v ← field j "Value"
    let seq ← mapM' (fun (x : Json) => do return (← x.getStr?).toList) (← arrF v "sequence")
    return .val ⟨seq, ← natF v "min", ← natF v "max"⟩

def parseBricks (j : Json) : Except String BricksDomain :=
  match j with
  | .str "Top" => .ok .top
  | _ => do
    let l ← mapM' parseBrickDomain (← arrF j "Value")
    return .val l

def parseCharSet (j : Json) : Except String CharSet :=
  match j with
  | .str "Top" => .ok .top
  | _ => do
    let l ← mapM' (fun (x : Json) => do
      match (← x.getStr?).toList with
      | [c] => return c
      | _ => throw "char expected") (← arrF j "Value")
    return .val l

def parseCI (j : Json) : Except String CIDomain :=
  match j with
  | .str "Top" => .ok .top
  | _ => do
    match ← arrF j "Value" with
    | [c, p] => return .val (← parseCharSet c) (← parseCharSet p)
    | _ => throw "CI pair expected"

/-- construction terms of the harness -/
inductive Term where
  | from (s : Str)
  | top
  | append (a b : Term)
  | merge (a b : Term)

partial def parseTerm (j : Json) : Except String Term := do
  if let some s := optF j "from" then return .from (← s.getStr?).toList
  if (optF j "top").isSome then return .top
  if let some p := optF j "append" then
    match ← p.getArr? with
    | #[a, b] => return .append (← parseTerm a) (← parseTerm b)
    | _ => throw "append pair"
  if let some p := optF j "merge" then
    match ← p.getArr? with
    | #[a, b] => return .merge (← parseTerm a) (← parseTerm b)
    | _ => throw "merge pair"
  throw "bad term"

/-! ### rendering -/

def showStr (s : Str) : String := if s.isEmpty then "ε" else String.ofList s

def showBD : BrickDomain → String
  | .top => "T"
  | .val b => "{" ++ ",".intercalate (b.seq.map showStr) ++ "}^" ++ toString b.min ++ ":" ++ toString b.max

def showBricks : BricksDomain → String
  | .top => "Top"
  | .val l => "[" ++ ";".intercalate (l.map showBD) ++ "]"

def showCS : CharSet → String
  | .top => "T"
  | .val l => "{" ++ String.ofList l ++ "}"

def showCI : CIDomain → String
  | .top => "Top"
  | .val c p => "(" ++ showCS c ++ "," ++ showCS p ++ ")"

def showRes {α} (f : α → String) : Res α → String
  | .ok a => f a
  | .panic => "panic"
  | .fuel => "out-of-fuel"

/-! ### enumeration of members (sound by construction; used next to the complete short-string test) -/

def powStrs (S : List Str) : Nat → List Str
  | 0 => [[]]
  | k + 1 => (powStrs S k).flatMap (fun s => S.map (fun t => s ++ t))

def enumBrick (b : Brick) (cap : Nat) : List Str :=
  let ks := ((List.range 3).map (· + b.min)).filter (fun k => decide (k ≤ b.max))
  ks.flatMap (fun k =>
    if b.seq.length ^ k ≤ 2000 ∧ k ≤ 12 then (powStrs b.seq k).take cap else [])

def enumBD (z : Char) (cap : Nat) : BrickDomain → List Str
  | .top => [[], [z]]
  | .val b => enumBrick b cap

def enumList (z : Char) (cap : Nat) : List BrickDomain → List Str
  | [] => [[]]
  | x :: xs =>
    let r := enumList z cap xs
    ((enumBD z cap x).flatMap (fun u => r.map (fun v => u ++ v))).take cap

def enumBricks (z : Char) (cap : Nat) : BricksDomain → List Str
  | .top => [[], [z]]
  | .val l => enumList z cap l

def charsOfBD : BrickDomain → List Char
  | .top => []
  | .val b => b.seq.flatten

def charsOfBricks : BricksDomain → List Char
  | .top => []
  | .val l => l.flatMap charsOfBD

def charsOfCS : CharSet → List Char
  | .top => []
  | .val l => l

def charsOfCI : CIDomain → List Char
  | .top => []
  | .val c p => charsOfCS c ++ charsOfCS p

/-- largest `n` such that there are at most ~160 strings of length `≤ n` -/
def lenBound (alphabetSize : Nat) : Nat :=
  match alphabetSize with
  | 0 => 0 | 1 => 8 | 2 => 6 | 3 => 4 | 4 => 3 | 5 => 3 | _ => 2

def testStrings (alphabet : List Char) : List Str :=
  let al := canonC alphabet
  let al := if al.isEmpty then ['a'] else al
  stringsUpTo al (lenBound al.length)

def wfBD : BrickDomain → Bool
  | .top => true
  | .val b => decide (b.min ≤ u32Max) && decide (b.max ≤ u32Max)

def wfBricks : BricksDomain → Bool
  | .top => true
  | .val l => l.all wfBD

/-! ### verdicts -/

inductive Impl (α : Type) where
  | val (a : α)
  | panic (msg : String)
  | hang

def parseImpl {α} (p : Json → Except String α) (j : Json) : Except String (Impl α) :=
  match optF j "panic", optF j "hang" with
  | some m, _ => .ok (.panic ((m.getStr?).toOption.getD "?"))
  | _, some _ => .ok .hang
  | _, _ => do return .val (← p j)

/-- first counterexample of a list of checks: `(description, holds)` -/
def firstFail (checks : List (Unit → Option String)) : Option String :=
  checks.findSome? (fun c => c ())

/-- common decision: `specFail` is evaluated on the IMPLEMENTATION value -/
def decide' {α} [DecidableEq α] (op : String) (sh : α → String) (model : Res α) (impl : Impl α)
    (specFail : α → Option String) (tags : String) : String :=
  match impl with
  | .hang => s!"spec class={op}-hang expected=terminates impl=hang model={showRes sh model}"
  | .panic msg =>
    match model with
    | .ok m => s!"spec class={op}-panic expected={sh m} impl=panic:{msg.replace " " "_"}"
    | _ => s!"ok {op} panic"
  | .val v =>
    match specFail v with
    | some why => s!"spec class={op}-{why} impl={sh v} model={showRes sh model}"
    | none =>
      match model with
      | .ok m => if m = v then s!"ok {op} {tags}" else s!"diff class={op} model={sh m} impl={sh v}"
      | r => s!"diff class={op} model={showRes sh r} impl={sh v}"

/-- inclusion `∀ s ∈ ss, P s → Q s` with a counterexample -/
def inclFail (why : String) (ss : List Str) (P Q : Str → Bool) : Unit → Option String := fun _ =>
  (ss.find? (fun s => P s && !Q s)).map (fun s => why ++ " expected=contains:" ++ showStr s)

def evalTerm : Term → Res BricksDomain
  | .from s => .ok (BricksDomain.ofString s)
  | .top => .ok .top
  | .append a b =>
    match evalTerm a, evalTerm b with
    | .ok x, .ok y => .ok (x.append y)
    | .ok _, r => r
    | r, _ => r
  | .merge a b =>
    match evalTerm a, evalTerm b with
    | .ok x, .ok y => x.merge y
    | .ok _, r => r
    | r, _ => r

def evalTermCI : Term → Res CIDomain
  | .from s => .ok (CIDomain.ofString s)
  | .top => .ok .top
  | .append a b =>
    match evalTermCI a, evalTermCI b with
    | .ok x, .ok y => .ok (x.append y)
    | .ok _, r => r
    | r, _ => r
  | .merge a b =>
    match evalTermCI a, evalTermCI b with
    | .ok x, .ok y => x.merge y
    | .ok _, r => r
    | r, _ => r

/-- the concrete strings a construction term stands for (`top`: two samples), capped -/
def concTerm : Term → List Str
  | .from s => [s]
  | .top => [[], ['z', 'z']]
  | .append a b => ((concTerm a).flatMap (fun u => (concTerm b).map (fun v => u ++ v))).take 150
  | .merge a b => (concTerm a ++ concTerm b).take 150

def termHasTop : Term → Bool
  | .from _ => false
  | .top => true
  | .append a b => termHasTop a || termHasTop b
  | .merge a b => termHasTop a || termHasTop b

def boolRes (r : Res Bool) : Res Bool := r

def handleE (line : String) : Except String String := do
  let j ← Json.parse line
  let op ← strF j "op"
  let ja ← field j "a"
  let jb := (optF j "b").getD Json.null
  let ji ← field j "impl"
  let z := 'z'
  match op with
  | "normalize" =>
    let a ← parseBricks ja
    let impl ← parseImpl parseBricks ji
    let ss := testStrings (charsOfBricks a)
    let ea := enumBricks z 40 a
    let nonvac := ss.any (memBricks a)
    return decide' op showBricks a.normalize impl (fun v => firstFail [
        inclFail "lang-lost" ss (memBricks a) (memBricks v),
        inclFail "lang-lost" ea (fun _ => true) (memBricks v),
        fun _ => (ss.find? (fun s => memBricks v s && !memBricks a s)).map
          (fun s => "lang-gained expected=excludes:" ++ showStr s),
        fun _ => ((enumBricks z 40 v).find? (fun s => !memBricks a s)).map
          (fun s => "lang-gained expected=excludes:" ++ showStr s)])
      (if nonvac then "nonempty" else "longonly")
  | "widen" | "merge" =>
    let a ← parseBricks ja
    let b ← parseBricks jb
    let impl ← parseImpl parseBricks ji
    let model := if op == "widen" then a.widen b else a.merge b
    let ss := testStrings (charsOfBricks a ++ charsOfBricks b)
    let es := enumBricks z 40 a ++ enumBricks z 40 b
    let hyp := wfBricks a && wfBricks b
    return decide' op showBricks model impl (fun v =>
        if hyp then firstFail [
          inclFail "unsound" ss (fun s => memBricks a s || memBricks b s) (memBricks v),
          inclFail "unsound" es (fun _ => true) (memBricks v)]
        else none)
      (match model with | .ok .top => "top" | .ok _ => "value" | _ => "other")
  | "append" =>
    let a ← parseBricks ja
    let b ← parseBricks jb
    let impl ← parseImpl parseBricks ji
    let sa := ((testStrings (charsOfBricks a)).filter (memBricks a)).take 12 ++ enumBricks z 8 a
    let sb := ((testStrings (charsOfBricks b)).filter (memBricks b)).take 12 ++ enumBricks z 8 b
    let pairs := sa.flatMap (fun s => sb.map (fun t => s ++ t))
    return decide' op showBricks (.ok (a.append b)) impl (fun v => firstFail [
        inclFail "unsound" pairs (fun _ => true) (memBricks v)])
      (if pairs.isEmpty then "vacuous" else "pairs")
  | "le" =>
    let a ← parseBricks ja
    let b ← parseBricks jb
    let impl ← parseImpl (fun (x : Json) => x.getBool?) ji
    return decide' op toString (a.le b) impl (fun _ => none) "modelonly"
  | "bwiden" | "bmerge" =>
    let a ← parseBrickDomain ja
    let b ← parseBrickDomain jb
    let impl ← parseImpl parseBrickDomain ji
    let model := if op == "bwiden" then a.widen b else .ok (a.merge b)
    let ss := testStrings (charsOfBD a ++ charsOfBD b)
    let es := enumBD z 40 a ++ enumBD z 40 b
    let hyp := wfBD a && wfBD b
    return decide' op showBD model impl (fun v =>
        if hyp then firstFail [
          inclFail "unsound" ss (fun s => memBD a s || memBD b s) (memBD v),
          inclFail "unsound" es (fun _ => true) (memBD v)]
        else none)
      (match model with | .ok .top => "top" | .ok _ => "value" | _ => "other")
  | "ble" =>
    let a ← parseBrickDomain ja
    let b ← parseBrickDomain jb
    let impl ← parseImpl (fun (x : Json) => x.getBool?) ji
    return decide' op toString (.ok (a.le b)) impl (fun _ => none) "modelonly"
  | "expr" =>
    let t ← parseTerm ja
    let impl ← parseImpl parseBricks ji
    let conc := concTerm t
    return decide' op showBricks (evalTerm t) impl (fun v => firstFail [
        inclFail "unsound" conc (fun _ => true) (memBricks v)])
      (if termHasTop t then "withtop" else "strings")
  | "ciexpr" =>
    let t ← parseTerm ja
    let impl ← parseImpl parseCI ji
    let conc := concTerm t
    return decide' op showCI (evalTermCI t) impl (fun v => firstFail [
        inclFail "unsound" conc (fun _ => true) (memCI v)])
      (if termHasTop t then "withtop" else "strings")
  | "cimerge" =>
    let a ← parseCI ja
    let b ← parseCI jb
    let impl ← parseImpl parseCI ji
    let ss := testStrings (z :: (charsOfCI a ++ charsOfCI b))
    return decide' op showCI (a.merge b) impl (fun v => firstFail [
        inclFail "unsound" ss (fun s => memCI a s || memCI b s) (memCI v)])
      (if ss.any (fun s => memCI a s || memCI b s) then "nonempty" else "vacuous")
  | "ciappend" =>
    let a ← parseCI ja
    let b ← parseCI jb
    let impl ← parseImpl parseCI ji
    let ss := testStrings (z :: (charsOfCI a ++ charsOfCI b))
    let sa := ss.filter (memCI a)
    let sb := ss.filter (memCI b)
    let pairs := (sa.take 40).flatMap (fun s => (sb.take 40).map (fun t => s ++ t))
    return decide' op showCI (.ok (a.append b)) impl (fun v => firstFail [
        inclFail "unsound" pairs (fun _ => true) (memCI v)])
      (if pairs.isEmpty then "vacuous" else "pairs")
  | "csunion" =>
    let a ← parseCharSet ja
    let b ← parseCharSet jb
    let impl ← parseImpl parseCharSet ji
    return decide' op showCS (.ok (a.union b)) impl (fun v =>
        -- the union contains every character of either operand
        if (charsOfCS a ++ charsOfCS b).all (fun c => match v with | .top => true | .val l => decide (c ∈ l))
          && (v != .top || a == .top || b == .top) then none else some "unsound expected=superset")
      "set"
  | "csinter" =>
    let a ← parseCharSet ja
    let b ← parseCharSet jb
    let impl ← parseImpl parseCharSet ji
    let model : Res CharSet := match a.inter b with | some r => .ok r | none => .panic
    return decide' op showCS model impl (fun v =>
        match a, b, v with
        | .val x, .val y, .val l =>
          if l.all (fun c => decide (c ∈ x) && decide (c ∈ y)) then none else some "unsound expected=subset"
        | _, _, _ => none)
      "set"
  | _ => throw s!"unknown op {op}"

end CweModel.C06

def main : IO Unit := CweModel.Proto.runDriver (CweModel.Proto.guarded CweModel.C06.handleE)
